(* Decidable comparisons between a table regenerated from the Rust source (Gen/Gen*.v) and the corresponding list
   of the WHATWG standard (TreeTables/WhatwgLists.v, WhatwgDispatch.v), with what a successful comparison means
   (soundness lemmas, proved once for all tables).  Inst/InstTreeTables.v instantiates them by vm_compute;
   Inst/WitnessTreeTables.v prints the differing elements. *)
From Coq Require Import String List Bool Arith Ascii.
From HV Require Import TreeTables.Types.
Import ListNotations.
Local Open Scope string_scope.
Local Open Scope list_scope.

(* ================================================================== finite sets as lists *)
Section Sets.
Context {A : Type}.
Variable eqb : A -> A -> bool.
Hypothesis eqb_sound : eqb_ok eqb.

Fixpoint mem (x : A) (l : list A) : bool :=
  match l with [] => false | y :: t => eqb x y || mem x t end.

Lemma mem_In : forall x l, mem x l = true <-> In x l.
Proof.
  intros x l. induction l as [|y t IH]; simpl.
  - split; [discriminate | tauto].
  - rewrite orb_true_iff, IH. split.
    + intros [H|H]; [left; symmetry; now apply eqb_sound | now right].
    + intros [H|H]; [left; apply eqb_sound; now symmetry | now right].
Qed.

Lemma eqb_refl' : forall x, eqb x x = true.
Proof. intro x. now apply eqb_sound. Qed.

Definition subset (a b : list A) : bool := forallb (fun x => mem x b) a.
Definition set_eqb (a b : list A) : bool := subset a b && subset b a.
(* elements of a that are not in b: the witness printed when a comparison fails *)
Definition diff (a b : list A) : list A := filter (fun x => negb (mem x b)) a.

Lemma subset_sound : forall a b, subset a b = true -> forall x, mem x a = true -> mem x b = true.
Proof.
  intros a b H x Hx. unfold subset in H. rewrite forallb_forall in H.
  apply mem_In in Hx. now apply H.
Qed.

Theorem set_eqb_sound : forall a b, set_eqb a b = true -> forall x, mem x a = mem x b.
Proof.
  intros a b H x. unfold set_eqb in H. apply andb_true_iff in H. destruct H as [H1 H2].
  destruct (mem x a) eqn:Ea.
  - symmetry. now apply (subset_sound a b).
  - destruct (mem x b) eqn:Eb; [|reflexivity].
    rewrite (subset_sound b a H2 x Eb) in Ea. discriminate.
Qed.

Lemma mem_filter : forall (f : A -> bool) x l, mem x (filter f l) = mem x l && f x.
Proof.
  intros f x l. induction l as [|y t IH]; simpl; [reflexivity|].
  destruct (f y) eqn:Fy; simpl; rewrite IH.
  - destruct (eqb x y) eqn:E; simpl; [|reflexivity].
    apply eqb_sound in E. subst. now rewrite Fy.
  - destruct (eqb x y) eqn:E; simpl; [|reflexivity].
    apply eqb_sound in E. subst. rewrite Fy. now rewrite andb_false_r.
Qed.

Lemma mem_diff : forall x a b, mem x (diff a b) = mem x a && negb (mem x b).
Proof. intros. unfold diff. apply mem_filter. Qed.

(* comparison up to an explicit, exact list of exceptions:
   extra   = the elements the implementation has and the standard has not,
   missing = the elements of the standard the implementation lacks *)
Definition set_eqb_except (a b extra missing : list A) : bool :=
  set_eqb (diff a b) extra && set_eqb (diff b a) missing.

Theorem set_eqb_except_sound : forall a b extra missing, set_eqb_except a b extra missing = true ->
  forall x, mem x a = (mem x b && negb (mem x missing)) || mem x extra.
Proof.
  intros a b extra missing H x. unfold set_eqb_except in H. apply andb_true_iff in H. destruct H as [H1 H2].
  pose proof (set_eqb_sound _ _ H1 x) as E1. pose proof (set_eqb_sound _ _ H2 x) as E2.
  rewrite mem_diff in E1, E2. rewrite <- E1, <- E2.
  destruct (mem x a), (mem x b); reflexivity.
Qed.

Theorem set_eqb_except_exact : forall a b extra missing, set_eqb_except a b extra missing = true ->
  (forall x, mem x extra = true -> mem x a = true /\ mem x b = false) /\
  (forall x, mem x missing = true -> mem x b = true /\ mem x a = false).
Proof.
  intros a b extra missing H. unfold set_eqb_except in H. apply andb_true_iff in H. destruct H as [H1 H2].
  split; intros x Hx.
  - pose proof (set_eqb_sound _ _ H1 x) as E. rewrite mem_diff, Hx in E.
    apply andb_true_iff in E. destruct E as [Ea Eb]. split; [exact Ea|]. now apply negb_true_iff in Eb.
  - pose proof (set_eqb_sound _ _ H2 x) as E. rewrite mem_diff, Hx in E.
    apply andb_true_iff in E. destruct E as [Ea Eb]. split; [exact Ea|]. now apply negb_true_iff in Eb.
Qed.

Lemma set_eqb_except_nil : forall a b, set_eqb_except a b [] [] = true -> forall x, mem x a = mem x b.
Proof.
  intros a b H x. rewrite (set_eqb_except_sound _ _ _ _ H x). simpl. now rewrite andb_true_r, orb_false_r.
Qed.

(* agreement outside a list of exceptions: robust against the repair of a deviation (the lemma keeps holding when an
   exception disappears), whereas set_eqb_except states that the exceptions are present exactly *)
Definition set_eqb_outside (a b exc : list A) : bool := forallb (fun x => mem x exc) (diff a b ++ diff b a).

Theorem set_eqb_outside_sound : forall a b exc, set_eqb_outside a b exc = true ->
  forall x, mem x exc = false -> mem x a = mem x b.
Proof.
  intros a b exc H x Hx. unfold set_eqb_outside in H. rewrite forallb_forall in H.
  destruct (mem x a) eqn:Ea, (mem x b) eqn:Eb; try reflexivity; exfalso.
  - assert (mem x (diff a b) = true) as D by (rewrite mem_diff, Ea, Eb; reflexivity).
    apply mem_In in D. rewrite (H x) in Hx; [discriminate | apply in_or_app; now left].
  - assert (mem x (diff b a) = true) as D by (rewrite mem_diff, Ea, Eb; reflexivity).
    apply mem_In in D. rewrite (H x) in Hx; [discriminate | apply in_or_app; now right].
Qed.

Lemma existsb_outside_ext : forall (f : A -> bool) a b exc,
  (forall x, mem x exc = false -> mem x a = mem x b) -> (forall x, mem x exc = true -> f x = false) ->
  existsb f a = existsb f b.
Proof.
  intros f a b exc H F.
  assert (forall u v, (forall x, mem x exc = false -> mem x u = mem x v) -> existsb f u = true -> existsb f v = true) as K.
  { intros u v Huv E. apply existsb_exists in E. destruct E as [x [Hx Fx]]. apply existsb_exists. exists x. split; [|exact Fx].
    apply mem_In. destruct (mem x exc) eqn:Ex; [rewrite (F x Ex) in Fx; discriminate|].
    rewrite <- (Huv x Ex). now apply mem_In. }
  destruct (existsb f a) eqn:Ea.
  - symmetry. now apply (K a b).
  - destruct (existsb f b) eqn:Eb; [|reflexivity].
    assert (existsb f a = true) as C by (apply (K b a); [intros x Hx; symmetry; now apply H | exact Eb]). congruence.
Qed.

Fixpoint nodupb (l : list A) : bool :=
  match l with [] => true | x :: t => negb (mem x t) && nodupb t end.

Lemma existsb_mem_ext : forall (f : A -> bool) a b, (forall x, mem x a = mem x b) -> existsb f a = existsb f b.
Proof.
  intros f a b H.
  destruct (existsb f a) eqn:Ea.
  - apply existsb_exists in Ea. destruct Ea as [x [Hx Fx]]. symmetry. apply existsb_exists. exists x. split; [|exact Fx].
    apply mem_In. rewrite <- H. now apply mem_In.
  - destruct (existsb f b) eqn:Eb; [|reflexivity].
    apply existsb_exists in Eb. destruct Eb as [x [Hx Fx]].
    assert (existsb f a = true) as C.
    { apply existsb_exists. exists x. split; [|exact Fx]. apply mem_In. rewrite H. now apply mem_In. }
    congruence.
Qed.
End Sets.

(* ================================================================== finite maps as association lists *)
Section Maps.
Context {K V : Type}.
Variable keqb : K -> K -> bool.
Variable veqb : V -> V -> bool.
Hypothesis keqb_sound : eqb_ok keqb.
Hypothesis veqb_sound : eqb_ok veqb.

Fixpoint lookup (k : K) (l : list (K * V)) : option V :=
  match l with [] => None | (k', v) :: t => if keqb k k' then Some v else lookup k t end.

Definition kv_eqb : K * V -> K * V -> bool := pair_eqb keqb veqb.
Lemma kv_eqb_ok : eqb_ok kv_eqb.
Proof. apply pair_eqb_ok; assumption. Qed.

(* both lists are functional (no key twice) and contain the same pairs *)
Definition map_eqb (a b : list (K * V)) : bool :=
  nodupb keqb (map fst a) && nodupb keqb (map fst b) && set_eqb kv_eqb a b.

Lemma lookup_none_mem : forall k l, mem keqb k (map fst l) = false -> lookup k l = None.
Proof.
  intros k l. induction l as [|[k' v] t IH]; simpl; [reflexivity|].
  intro H. apply orb_false_iff in H. destruct H as [H1 H2]. rewrite H1. now apply IH.
Qed.

Lemma lookup_mem : forall k v l, nodupb keqb (map fst l) = true ->
  (lookup k l = Some v <-> mem kv_eqb (k, v) l = true).
Proof.
  intros k v l. induction l as [|[k' v'] t IH]; simpl; intro N.
  - split; discriminate.
  - apply andb_true_iff in N. destruct N as [N1 N2]. apply negb_true_iff in N1.
    unfold kv_eqb at 1, pair_eqb; simpl.
    destruct (keqb k k') eqn:Ek; simpl.
    + apply keqb_sound in Ek. subst k'. split.
      * intro H. inversion H; subst. rewrite (proj2 (veqb_sound v v) eq_refl). reflexivity.
      * intro H. apply orb_true_iff in H. destruct H as [H|H].
        -- apply veqb_sound in H. now subst.
        -- exfalso. apply (mem_In kv_eqb kv_eqb_ok) in H.
           assert (In k (map fst t)) as I by (apply in_map_iff; exists (k, v); auto).
           apply (mem_In keqb keqb_sound) in I. congruence.
    + now apply IH.
Qed.

Theorem map_eqb_sound : forall a b, map_eqb a b = true -> forall k, lookup k a = lookup k b.
Proof.
  intros a b H k. unfold map_eqb in H. apply andb_true_iff in H. destruct H as [H H3].
  apply andb_true_iff in H. destruct H as [H1 H2].
  pose proof (set_eqb_sound kv_eqb kv_eqb_ok a b H3) as S.
  destruct (lookup k a) as [v|] eqn:Ea.
  - symmetry. apply (lookup_mem k v b H2). rewrite <- S. now apply (lookup_mem k v a H1).
  - destruct (lookup k b) as [v|] eqn:Eb; [|reflexivity].
    apply (lookup_mem k v b H2) in Eb. rewrite <- S in Eb. apply (lookup_mem k v a H1) in Eb. congruence.
Qed.
End Maps.

(* ================================================================== dispatch census *)
Definition matches_any (a : list atom) (k : tokkey) : bool := existsb (fun x => atom_matches x k) a.

(* index of the first arm whose head matches the key (Rust match semantics) *)
Fixpoint arm_of_from (arms : list arm) (k : tokkey) (i : nat) : option nat :=
  match arms with
  | [] => None
  | a :: t => if matches_any a k then Some i else arm_of_from t k (S i)
  end.
Definition arm_of (arms : list arm) (k : tokkey) : option nat := arm_of_from arms k 0.

(* indices of the cases of the standard that may handle the key: every matching conditional case up to and
   including the first matching case that is unconditional (or closes a conditional group) *)
Fixpoint cases_of_from (cs : list scase) (k : tokkey) (i : nat) : list nat :=
  match cs with
  | [] => []
  | c :: t =>
      if matches_any (sc_atoms c) k
      then match sc_kind c with IfCond => i :: cases_of_from t k (S i) | _ => [i] end
      else cases_of_from t k (S i)
  end.
Definition cases_of (cs : list scase) (k : tokkey) : list nat := cases_of_from cs k 0.

Definition atom_names (a : atom) : list string :=
  match a with AStart n | AEnd n => [n] | _ => [] end.
Definition arms_names (arms : list arm) : list string := flat_map (flat_map atom_names) arms.
Definition cases_names (cs : list scase) : list string := flat_map (fun c => flat_map atom_names (sc_atoms c)) cs.

Definition smem := mem String.eqb.
Definition pmem := mem (pair_eqb Nat.eqb Nat.eqb).
Lemma nn_eqb_ok : eqb_ok (pair_eqb Nat.eqb Nat.eqb).
Proof. apply pair_eqb_ok; apply nat_eqb_ok. Qed.

(* a tag name that must not be mentioned anywhere: stands for "any other name" *)
Definition fresh_name : string := "zz-unmentioned".
Definition base_keys : list tokkey := [KChars SpWs; KChars SpNonWs; KNull; KComment; KEof].
Definition keys_for (names : list string) : list tokkey :=
  base_keys ++ flat_map (fun n => [KStart n; KEnd n]) (fresh_name :: names).

Definition pairs_of (g : list arm) (s : list scase) (k : tokkey) : list (nat * nat) :=
  match arm_of g k with None => [] | Some a => map (fun c => (a, c)) (cases_of s k) end.

Definition key_ok (g : list arm) (s : list scase) (r : list (nat * nat)) (k : tokkey) : bool :=
  match arm_of g k with
  | None => false
  | Some a => match cases_of s k with [] => false | cs => forallb (fun c => pmem (a, c) r) cs end
  end.

(* the arm -> case relation induced by all keys is exactly the documented renumbering r *)
Definition dispatch_ok (g : list arm) (s : list scase) (r : list (nat * nat)) : bool :=
  let names := arms_names g ++ cases_names s in
  negb (smem fresh_name names)
  && forallb (key_ok g s r) (keys_for names)
  && forallb (fun p => existsb (fun k => pmem p (pairs_of g s k)) (keys_for names)) r.

(* witness: the (arm, case) pairs observed but not documented, and documented but not observed *)
Definition observed_pairs (g : list arm) (s : list scase) : list (nat * nat) :=
  let names := arms_names g ++ cases_names s in
  fold_right (fun p acc => if pmem p acc then acc else p :: acc) []
             (flat_map (pairs_of g s) (keys_for names)).
Definition unhandled_keys (g : list arm) (s : list scase) : list tokkey :=
  let names := arms_names g ++ cases_names s in
  filter (fun k => match arm_of g k, cases_of s k with Some _, _ :: _ => false | _, _ => true end) (keys_for names).
Definition dispatch_witness (g : list arm) (s : list scase) (r : list (nat * nat)) :=
  (diff (pair_eqb Nat.eqb Nat.eqb) (observed_pairs g s) r,
   diff (pair_eqb Nat.eqb Nat.eqb) r (observed_pairs g s),
   unhandled_keys g s).

(* keys that exist on both sides: html5ever never hands a DOCTYPE token to step(), and an unsplit character
   run has no counterpart in the standard (see split_discipline) *)
Definition comparable (k : tokkey) : bool :=
  match k with KChars SpNotSplit | KDoctype => false | _ => true end.

Lemma atom_matches_unmentioned_start : forall a n f,
  smem n (atom_names a) = false -> smem f (atom_names a) = false ->
  atom_matches a (KStart n) = atom_matches a (KStart f).
Proof.
  intros a n f Hn Hf. destruct a as [o| | | | | m | m | | |]; try (destruct o); simpl in *; try reflexivity.
  rewrite orb_false_r in Hn, Hf. rewrite String.eqb_sym, Hn. rewrite (String.eqb_sym m f), Hf. reflexivity.
Qed.

Lemma atom_matches_unmentioned_end : forall a n f,
  smem n (atom_names a) = false -> smem f (atom_names a) = false ->
  atom_matches a (KEnd n) = atom_matches a (KEnd f).
Proof.
  intros a n f Hn Hf. destruct a as [o| | | | | m | m | | |]; try (destruct o); simpl in *; try reflexivity.
  rewrite orb_false_r in Hn, Hf. rewrite String.eqb_sym, Hn. rewrite (String.eqb_sym m f), Hf. reflexivity.
Qed.

Lemma smem_app : forall x a b, smem x (a ++ b) = smem x a || smem x b.
Proof.
  intros x a b. unfold smem. induction a as [|y t IH]; simpl; [reflexivity|]. rewrite IH. now rewrite orb_assoc.
Qed.

Definition mk (st : bool) (n : string) : tokkey := if st then KStart n else KEnd n.

Lemma matches_any_unmentioned : forall st a n f,
  smem n (flat_map atom_names a) = false -> smem f (flat_map atom_names a) = false ->
  matches_any a (mk st n) = matches_any a (mk st f).
Proof.
  intros st a n f. unfold matches_any. induction a as [|x t IH]; simpl; intros Hn Hf; [reflexivity|].
  rewrite smem_app in Hn, Hf. apply orb_false_iff in Hn. apply orb_false_iff in Hf.
  destruct Hn as [Hn1 Hn2]. destruct Hf as [Hf1 Hf2]. rewrite (IH Hn2 Hf2).
  destruct st; simpl.
  - now rewrite (atom_matches_unmentioned_start x n f Hn1 Hf1).
  - now rewrite (atom_matches_unmentioned_end x n f Hn1 Hf1).
Qed.

Lemma arm_of_from_unmentioned : forall st g n f i,
  smem n (arms_names g) = false -> smem f (arms_names g) = false ->
  arm_of_from g (mk st n) i = arm_of_from g (mk st f) i.
Proof.
  intros st g n f. induction g as [|a t IH]; simpl; intros i Hn Hf; [reflexivity|].
  unfold arms_names in Hn, Hf. simpl in Hn, Hf. rewrite smem_app in Hn, Hf.
  apply orb_false_iff in Hn. apply orb_false_iff in Hf.
  destruct Hn as [Hn1 Hn2]. destruct Hf as [Hf1 Hf2].
  rewrite (matches_any_unmentioned st a n f Hn1 Hf1).
  destruct (matches_any a (mk st f)); [reflexivity|]. now apply IH.
Qed.

Lemma cases_of_from_unmentioned : forall st s n f i,
  smem n (cases_names s) = false -> smem f (cases_names s) = false ->
  cases_of_from s (mk st n) i = cases_of_from s (mk st f) i.
Proof.
  intros st s n f. induction s as [|c t IH]; simpl; intros i Hn Hf; [reflexivity|].
  unfold cases_names in Hn, Hf. simpl in Hn, Hf. rewrite smem_app in Hn, Hf.
  apply orb_false_iff in Hn. apply orb_false_iff in Hf.
  destruct Hn as [Hn1 Hn2]. destruct Hf as [Hf1 Hf2].
  rewrite (matches_any_unmentioned st (sc_atoms c) n f Hn1 Hf1).
  destruct (matches_any (sc_atoms c) (mk st f)).
  - destruct (sc_kind c); try reflexivity. f_equal. now apply IH.
  - now apply IH.
Qed.

Lemma key_ok_spec : forall g s r k, key_ok g s r k = true ->
  exists a, arm_of g k = Some a /\ cases_of s k <> [] /\ forall c, In c (cases_of s k) -> In (a, c) r.
Proof.
  intros g s r k H. unfold key_ok in H. destruct (arm_of g k) as [a|]; [|discriminate].
  exists a. split; [reflexivity|]. destruct (cases_of s k) as [|c0 cs] eqn:E; [discriminate|].
  split; [discriminate|]. intros c Hc. rewrite forallb_forall in H. specialize (H c Hc).
  now apply (mem_In _ nn_eqb_ok) in H.
Qed.

Lemma keys_for_named : forall st n names, smem n (fresh_name :: names) = true -> In (mk st n) (keys_for names).
Proof.
  intros st n names H. unfold keys_for. apply in_or_app. right. apply in_flat_map.
  exists n. split.
  - now apply (mem_In String.eqb string_eqb_ok).
  - destruct st; simpl; auto.
Qed.

Theorem dispatch_ok_sound : forall g s r, dispatch_ok g s r = true ->
  forall k, comparable k = true ->
  exists a, arm_of g k = Some a /\ cases_of s k <> [] /\ forall c, In c (cases_of s k) -> In (a, c) r.
Proof.
  intros g s r H k Hk. unfold dispatch_ok in H.
  apply andb_true_iff in H. destruct H as [H H3]. apply andb_true_iff in H. destruct H as [H1 H2].
  apply negb_true_iff in H1. rewrite forallb_forall in H2.
  set (names := arms_names g ++ cases_names s) in *.
  assert (forall st n, exists a, arm_of g (mk st n) = Some a /\ cases_of s (mk st n) <> [] /\
                       forall c, In c (cases_of s (mk st n)) -> In (a, c) r) as Named.
  { intros st n. destruct (smem n names) eqn:En.
    - apply key_ok_spec. apply H2. apply keys_for_named. simpl. rewrite En. now rewrite orb_true_r.
    - assert (key_ok g s r (mk st fresh_name) = true) as F.
      { apply H2. apply keys_for_named. unfold smem. simpl. rewrite ?String.eqb_refl. reflexivity. }
      apply key_ok_spec in F. unfold names in En, H1. rewrite smem_app in En, H1.
      apply orb_false_iff in En. apply orb_false_iff in H1. destruct En as [En1 En2]. destruct H1 as [F1 F2].
      unfold arm_of, cases_of in *.
      rewrite (arm_of_from_unmentioned st g n fresh_name 0 En1 F1).
      rewrite (cases_of_from_unmentioned st s n fresh_name 0 En2 F2). exact F. }
  destruct k as [sp| | | | | n | n]; try discriminate.
  - destruct sp; try discriminate; apply key_ok_spec; apply H2; unfold keys_for; apply in_or_app; left; simpl; auto.
  - apply key_ok_spec; apply H2; unfold keys_for; apply in_or_app; left; simpl; auto.
  - apply key_ok_spec; apply H2; unfold keys_for; apply in_or_app; left; simpl; auto.
  - apply key_ok_spec; apply H2; unfold keys_for; apply in_or_app; left; simpl; auto 6.
  - exact (Named true n).
  - exact (Named false n).
Qed.

(* every documented pair is realised by some token *)
Theorem dispatch_ok_exact : forall g s r, dispatch_ok g s r = true ->
  forall p, In p r -> exists k, In p (pairs_of g s k).
Proof.
  intros g s r H p Hp. unfold dispatch_ok in H. apply andb_true_iff in H. destruct H as [_ H3].
  rewrite forallb_forall in H3. specialize (H3 p Hp). apply existsb_exists in H3.
  destruct H3 as [k [_ Hk]]. exists k. now apply (mem_In _ nn_eqb_ok) in Hk.
Qed.

(* documentation helpers: arms that implement more than one case, cases implemented by more than one arm *)
Definition imgs (r : list (nat * nat)) (a : nat) : list nat := map snd (filter (fun p => Nat.eqb (fst p) a) r).
Definition preimgs (r : list (nat * nat)) (c : nat) : list nat := map fst (filter (fun p => Nat.eqb (snd p) c) r).
Fixpoint dedup_nat (l : list nat) : list nat :=
  match l with [] => [] | x :: t => if mem Nat.eqb x t then dedup_nat t else x :: dedup_nat t end.
Definition arms_with_several_cases (r : list (nat * nat)) : list (nat * list nat) :=
  filter (fun x => Nat.ltb 1 (length (snd x))) (map (fun a => (a, imgs r a)) (dedup_nat (map fst r))).
Definition cases_with_several_arms (r : list (nat * nat)) : list (nat * list nat) :=
  filter (fun x => Nat.ltb 1 (length (snd x))) (map (fun c => (c, preimgs r c)) (dedup_nat (map snd r))).

(* an unsplit character run (Token::Characters(NotSplit, _)) is either split into white space / non white space
   first (by an arm that matches nothing else), or handled by the arm that handles both kinds *)
Definition split_discipline (arms : list arm) (splits : list nat) : bool :=
  match arm_of arms (KChars SpNotSplit), arm_of arms (KChars SpWs), arm_of arms (KChars SpNonWs) with
  | Some a, Some b, Some c =>
      (mem Nat.eqb a splits && list_eqb atom_eqb (nth a arms []) [AChars (Some SpNotSplit)])
      || (negb (mem Nat.eqb a splits) && Nat.eqb a b && Nat.eqb a c)
  | _, _, _ => false
  end
  && forallb (fun i => list_eqb atom_eqb (nth i arms []) [AChars (Some SpNotSplit)]) splits.

Fixpoint assoc_arms (d : list (string * list arm)) (m : string) : list arm :=
  match d with [] => [] | (n, a) :: t => if String.eqb n m then a else assoc_arms t m end.
Fixpoint assoc_nats (d : list (string * list nat)) (m : string) : list nat :=
  match d with [] => [] | (n, a) :: t => if String.eqb n m then a else assoc_nats t m end.

(* names of the arm(s) of a mode that contain a given atom *)
Definition arm_containing (arms : list arm) (x : atom) : list atom :=
  match find (fun a => existsb (atom_eqb x) a) arms with Some a => a | None => [] end.
Definition start_names (a : list atom) : list string := flat_map (fun x => match x with AStart n => [n] | _ => [] end) a.
Definition end_names (a : list atom) : list string := flat_map (fun x => match x with AEnd n => [n] | _ => [] end) a.

(* ================================================================== quirks decision *)
Definition lower_ascii (c : ascii) : ascii :=
  let n := nat_of_ascii c in if Nat.leb 65 n && Nat.leb n 90 then ascii_of_nat (n + 32) else c.
Fixpoint lower (s : string) : string :=
  match s with EmptyString => EmptyString | String c t => String (lower_ascii c) (lower t) end.

Record doctype := { dt_name : option string; dt_public : option string; dt_system : option string; dt_force : bool }.

Fixpoint table_named (tables : list (string * list string)) (n : string) : list string :=
  match tables with [] => [] | (m, l) :: t => if String.eqb m n then l else table_named t n end.

Definition has_prefix_in (tbl : list string) (s : string) : bool := existsb (fun p => String.prefix p s) tbl.

(* html5ever: both ids are ASCII-lowercased, the tables are lowercase *)
Definition qcond_holds (tables : list (string * list string)) (d : doctype) (srcdoc : bool) (c : qcond) : bool :=
  match c with
  | QcForceQuirks => dt_force d
  | QcNameNotHtml => negb (opt_eqb String.eqb (dt_name d) (Some "html"))
  | QcSrcdoc => srcdoc
  | QcPublicIs t => match dt_public d with Some p => smem (lower p) (table_named tables t) | None => false end
  | QcSystemIs t => match dt_system d with Some p => smem (lower p) (table_named tables t) | None => false end
  | QcPublicPrefix t => match dt_public d with Some p => has_prefix_in (table_named tables t) (lower p) | None => false end
  | QcAlways => true
  end.

Definition qres_value (d : doctype) (r : qres) : qmode :=
  match r with
  | QrMode m => m
  | QrBySystem a b => match dt_system d with None => a | Some _ => b end
  end.

(* meaning of the regenerated decision list: first arm whose condition holds *)
Fixpoint eval_quirks (tables : list (string * list string)) (arms : list (qcond * qres)) (d : doctype) (srcdoc : bool) : qmode :=
  match arms with
  | [] => QNoQuirks
  | (c, r) :: t => if qcond_holds tables d srcdoc c then qres_value d r else eval_quirks tables t d srcdoc
  end.

Definition qarm_eqb : qcond * qres -> qcond * qres -> bool := pair_eqb qcond_eqb qres_eqb.
