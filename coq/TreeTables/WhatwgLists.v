(* The element / attribute / identifier lists of the WHATWG HTML standard (section 13 "The HTML syntax"),
   written out by hand from the text of the standard, independently of the Rust code.

   Reference revision: the living standard as of 2025, i.e. AFTER the "customizable select" parser revision
   (the "in select" / "in select in table" insertion modes and the select scope are gone, "select" is a scope
   marker of "has an element in scope").  Lists of the older revision are kept at the end under LEGACY.
   Items I am not fully sure about are marked UNSURE.

   Section numbers: 13.1.2 elements, 13.2.4 parse state, 13.2.6 tree construction, 13.3 serialising. *)
From Coq Require Import String List.
From HV Require Import TreeTables.Types.
Import ListNotations.
Local Open Scope string_scope.
Local Open Scope list_scope.

Definition html (l : list string) : list ename := map (fun n => (NsHtml, n)) l.
Definition mathml (l : list string) : list ename := map (fun n => (NsMathml, n)) l.
Definition svg (l : list string) : list ename := map (fun n => (NsSvg, n)) l.

(* ------------------------------------------------------------------ 13.2.4.2 the stack of open elements *)
(* "special" category *)
Definition whatwg_special_html : list string := [
  "address"; "applet"; "area"; "article"; "aside"; "base"; "basefont"; "bgsound"; "blockquote"; "body"; "br";
  "button"; "caption"; "center"; "col"; "colgroup"; "dd"; "details"; "dir"; "div"; "dl"; "dt"; "embed";
  "fieldset"; "figcaption"; "figure"; "footer"; "form"; "frame"; "frameset"; "h1"; "h2"; "h3"; "h4"; "h5"; "h6";
  "head"; "header"; "hgroup"; "hr"; "html"; "iframe"; "img"; "input"; "keygen"; "li"; "link"; "listing"; "main";
  "marquee"; "menu"; "meta"; "nav"; "noembed"; "noframes"; "noscript"; "object"; "ol"; "p"; "param"; "plaintext";
  "pre"; "script"; "search"; "section"; "select"; "source"; "style"; "summary"; "table"; "tbody"; "td";
  "template"; "textarea"; "tfoot"; "th"; "thead"; "title"; "tr"; "track"; "ul"; "wbr"; "xmp"].
Definition whatwg_special : list ename :=
  html whatwg_special_html
  ++ mathml ["mi"; "mo"; "mn"; "ms"; "mtext"; "annotation-xml"]
  ++ svg ["foreignObject"; "desc"; "title"].

(* "formatting" category *)
Definition whatwg_formatting : list string :=
  ["a"; "b"; "big"; "code"; "em"; "font"; "i"; "nobr"; "s"; "small"; "strike"; "strong"; "tt"; "u"].

(* "has a particular element in scope": the scope markers.
   UNSURE: "select" (added by the 2025 customizable-select revision; absent before). *)
Definition whatwg_scope_html : list string :=
  ["applet"; "caption"; "html"; "table"; "td"; "th"; "marquee"; "object"; "select"; "template"].
Definition whatwg_scope : list ename :=
  html whatwg_scope_html
  ++ mathml ["mi"; "mo"; "mn"; "ms"; "mtext"; "annotation-xml"]
  ++ svg ["foreignObject"; "desc"; "title"].
(* "has a particular element in list item scope": all of the above and ol, ul *)
Definition whatwg_list_item_scope : list ename := whatwg_scope ++ html ["ol"; "ul"].
(* "... in button scope": all of the above and button *)
Definition whatwg_button_scope : list ename := whatwg_scope ++ html ["button"].
(* "... in table scope" *)
Definition whatwg_table_scope : list ename := html ["html"; "table"; "template"].

(* "clear the stack back to a table context / table body context / table row context" *)
Definition whatwg_table_context : list ename := html ["table"; "template"; "html"].
Definition whatwg_table_body_context : list ename := html ["tbody"; "tfoot"; "thead"; "template"; "html"].
Definition whatwg_table_row_context : list ename := html ["tr"; "template"; "html"].

(* "generate implied end tags" and "generate all implied end tags thoroughly" (13.2.6.3) *)
Definition whatwg_implied_end : list ename :=
  html ["dd"; "dt"; "li"; "optgroup"; "option"; "p"; "rb"; "rp"; "rt"; "rtc"].
Definition whatwg_implied_end_thoroughly : list ename :=
  whatwg_implied_end ++ html ["caption"; "colgroup"; "tbody"; "td"; "tfoot"; "th"; "thead"; "tr"].
(* "close a p element": generate implied end tags, except for p elements *)
Definition whatwg_implied_end_except_p : list ename :=
  html ["dd"; "dt"; "li"; "optgroup"; "option"; "rb"; "rp"; "rt"; "rtc"].

Definition whatwg_headings : list ename := html ["h1"; "h2"; "h3"; "h4"; "h5"; "h6"].
Definition whatwg_cells : list ename := html ["td"; "th"].

(* lists that occur inside individual steps of 13.2.6 *)
(* appropriate place for inserting a node: foster parenting applies when the target is one of *)
Definition whatwg_foster_targets : list ename := html ["table"; "tbody"; "tfoot"; "thead"; "tr"].
(* in body, end tag "body" / "html" / EOF: no parse error if every open element is one of *)
Definition whatwg_body_end_ok : list ename :=
  html ["dd"; "dt"; "li"; "optgroup"; "option"; "p"; "rb"; "rp"; "rt"; "rtc"; "tbody"; "td"; "tfoot"; "th";
        "thead"; "tr"; "body"; "html"].
(* in table, "A character token, if the current node is table, tbody, template, tfoot, thead, or tr element" *)
Definition whatwg_table_text_current : list ename :=
  html ["table"; "tbody"; "template"; "tfoot"; "thead"; "tr"].
(* in body, start tag "li": loop stops at a special element other than address, div, p *)
Definition whatwg_li_close : list ename := html ["li"].
Definition whatwg_dd_dt_close : list ename := html ["dd"; "dt"].
Definition whatwg_special_except_address_div_p : list ename :=
  filter (fun e => negb (ename_eqb e (NsHtml, "address") || ename_eqb e (NsHtml, "div") || ename_eqb e (NsHtml, "p")))
         whatwg_special.
(* in table body, start caption/col/colgroup/tbody/tfoot/thead, end table:
   "If the stack of open elements does not have a tbody, thead, or tfoot element in table scope" *)
Definition whatwg_table_body_sections : list ename := html ["tbody"; "thead"; "tfoot"].
(* 4.10.2: form-associated elements, listed elements (the autonomous custom-element variants are not names) *)
Definition whatwg_form_associated : list ename :=
  html ["button"; "fieldset"; "input"; "object"; "output"; "select"; "textarea"; "img"].
Definition whatwg_listed : list ename :=
  html ["button"; "fieldset"; "input"; "object"; "output"; "select"; "textarea"].

(* ------------------------------------------------------------------ 13.2.6.5 foreign content *)
Definition whatwg_breakout_start : list string := [
  "b"; "big"; "blockquote"; "body"; "br"; "center"; "code"; "dd"; "div"; "dl"; "dt"; "em"; "embed";
  "h1"; "h2"; "h3"; "h4"; "h5"; "h6"; "head"; "hr"; "i"; "img"; "li"; "listing"; "menu"; "meta"; "nobr"; "ol";
  "p"; "pre"; "ruby"; "s"; "small"; "span"; "strong"; "strike"; "sub"; "sup"; "table"; "tt"; "u"; "ul"; "var"].
Definition whatwg_breakout_end : list string := ["br"; "p"].
(* start tag "font" breaks out if the token has any attribute named *)
Definition whatwg_breakout_font_attrs : list ename := [(NsNone, "color"); (NsNone, "face"); (NsNone, "size")].
(* "While the current node is not a MathML text integration point, an HTML integration point, or an element in the
   HTML namespace, pop elements": the three stop conditions, named like the generated ones; the HTML integration
   points are the three SVG elements AND annotation-xml with a suitable encoding attribute *)
Definition whatwg_breakout_stop : list string :=
  ["ns:html"; "set:mathml_text_integration_point"; "set:svg_html_integration_point"; "annotation-xml-with-encoding"].

(* 13.2.6 tree construction dispatcher *)
Definition whatwg_mathml_text_integration_points : list ename := mathml ["mi"; "mo"; "mn"; "ms"; "mtext"].
(* HTML integration points that are decided by the element name alone *)
Definition whatwg_svg_html_integration_points : list ename := svg ["foreignObject"; "desc"; "title"].
(* ... and the MathML annotation-xml element whose start tag had an attribute "encoding" whose value is an ASCII
   case-insensitive match for one of: *)
Definition whatwg_annotation_xml_elem : ename := (NsMathml, "annotation-xml").
Definition whatwg_annotation_xml_attr : ename := (NsNone, "encoding").
Definition whatwg_annotation_xml_encodings : list string := ["text/html"; "application/xhtml+xml"].
(* a start tag at a MathML text integration point is handled by the HTML rules unless its name is one of *)
Definition whatwg_mathml_tip_start_exceptions : list string := ["mglyph"; "malignmark"].
(* a start tag at a MathML annotation-xml element is handled by the HTML rules if its name is *)
Definition whatwg_annotation_xml_start_html : list string := ["svg"].

(* "adjust SVG tag name" table of the "any other start tag" case *)
Definition whatwg_svg_tag_adjust : list (string * string) := [
  ("altglyph", "altGlyph"); ("altglyphdef", "altGlyphDef"); ("altglyphitem", "altGlyphItem");
  ("animatecolor", "animateColor"); ("animatemotion", "animateMotion"); ("animatetransform", "animateTransform");
  ("clippath", "clipPath"); ("feblend", "feBlend"); ("fecolormatrix", "feColorMatrix");
  ("fecomponenttransfer", "feComponentTransfer"); ("fecomposite", "feComposite");
  ("feconvolvematrix", "feConvolveMatrix"); ("fediffuselighting", "feDiffuseLighting");
  ("fedisplacementmap", "feDisplacementMap"); ("fedistantlight", "feDistantLight");
  ("fedropshadow", "feDropShadow"); ("feflood", "feFlood"); ("fefunca", "feFuncA"); ("fefuncb", "feFuncB");
  ("fefuncg", "feFuncG"); ("fefuncr", "feFuncR"); ("fegaussianblur", "feGaussianBlur"); ("feimage", "feImage");
  ("femerge", "feMerge"); ("femergenode", "feMergeNode"); ("femorphology", "feMorphology");
  ("feoffset", "feOffset"); ("fepointlight", "fePointLight"); ("fespecularlighting", "feSpecularLighting");
  ("fespotlight", "feSpotLight"); ("fetile", "feTile"); ("feturbulence", "feTurbulence");
  ("foreignobject", "foreignObject"); ("glyphref", "glyphRef"); ("lineargradient", "linearGradient");
  ("radialgradient", "radialGradient"); ("textpath", "textPath")].

(* "adjust SVG attributes" (13.2.6.1); the adjusted attribute has no prefix and no namespace *)
Definition whatwg_svg_attr_names : list (string * string) := [
  ("attributename", "attributeName"); ("attributetype", "attributeType"); ("basefrequency", "baseFrequency");
  ("baseprofile", "baseProfile"); ("calcmode", "calcMode"); ("clippathunits", "clipPathUnits");
  ("diffuseconstant", "diffuseConstant"); ("edgemode", "edgeMode"); ("filterunits", "filterUnits");
  ("glyphref", "glyphRef"); ("gradienttransform", "gradientTransform"); ("gradientunits", "gradientUnits");
  ("kernelmatrix", "kernelMatrix"); ("kernelunitlength", "kernelUnitLength"); ("keypoints", "keyPoints");
  ("keysplines", "keySplines"); ("keytimes", "keyTimes"); ("lengthadjust", "lengthAdjust");
  ("limitingconeangle", "limitingConeAngle"); ("markerheight", "markerHeight"); ("markerunits", "markerUnits");
  ("markerwidth", "markerWidth"); ("maskcontentunits", "maskContentUnits"); ("maskunits", "maskUnits");
  ("numoctaves", "numOctaves"); ("pathlength", "pathLength"); ("patterncontentunits", "patternContentUnits");
  ("patterntransform", "patternTransform"); ("patternunits", "patternUnits"); ("pointsatx", "pointsAtX");
  ("pointsaty", "pointsAtY"); ("pointsatz", "pointsAtZ"); ("preservealpha", "preserveAlpha");
  ("preserveaspectratio", "preserveAspectRatio"); ("primitiveunits", "primitiveUnits"); ("refx", "refX");
  ("refy", "refY"); ("repeatcount", "repeatCount"); ("repeatdur", "repeatDur");
  ("requiredextensions", "requiredExtensions"); ("requiredfeatures", "requiredFeatures");
  ("specularconstant", "specularConstant"); ("specularexponent", "specularExponent");
  ("spreadmethod", "spreadMethod"); ("startoffset", "startOffset"); ("stddeviation", "stdDeviation");
  ("stitchtiles", "stitchTiles"); ("surfacescale", "surfaceScale"); ("systemlanguage", "systemLanguage");
  ("tablevalues", "tableValues"); ("targetx", "targetX"); ("targety", "targetY"); ("textlength", "textLength");
  ("viewbox", "viewBox"); ("viewtarget", "viewTarget"); ("xchannelselector", "xChannelSelector");
  ("ychannelselector", "yChannelSelector"); ("zoomandpan", "zoomAndPan")].
Definition plain (p : string * string) : string * qname := (fst p, (None, NsNone, snd p)).
Definition whatwg_svg_attr_adjust : list (string * qname) := map plain whatwg_svg_attr_names.

(* "adjust MathML attributes" *)
Definition whatwg_mathml_attr_adjust : list (string * qname) := [("definitionurl", (None, NsNone, "definitionURL"))].

(* "adjust foreign attributes": attribute name -> (prefix, namespace, local name) *)
Definition whatwg_foreign_attr_adjust : list (string * qname) := [
  ("xlink:actuate", (Some "xlink", NsXlink, "actuate")); ("xlink:arcrole", (Some "xlink", NsXlink, "arcrole"));
  ("xlink:href", (Some "xlink", NsXlink, "href")); ("xlink:role", (Some "xlink", NsXlink, "role"));
  ("xlink:show", (Some "xlink", NsXlink, "show")); ("xlink:title", (Some "xlink", NsXlink, "title"));
  ("xlink:type", (Some "xlink", NsXlink, "type"));
  ("xml:lang", (Some "xml", NsXml, "lang")); ("xml:space", (Some "xml", NsXml, "space"));
  ("xmlns", (None, NsXmlns, "xmlns")); ("xmlns:xlink", (Some "xmlns", NsXmlns, "xlink"))].

(* ------------------------------------------------------------------ 13.4 parsing HTML fragments, step 4 *)
(* tokenizer state by context element (an HTML element with the given name); anything else: data state *)
Definition whatwg_tokstate_for_context : list (string * tsel) := [
  ("title", TsRcdata); ("textarea", TsRcdata);
  ("style", TsRawtext); ("xmp", TsRawtext); ("iframe", TsRawtext); ("noembed", TsRawtext); ("noframes", TsRawtext);
  ("script", TsScriptData);
  ("noscript", TsIfScripting TsRawtext TsData);
  ("plaintext", TsPlaintext)].
Definition whatwg_tokstate_default : tsel := TsData.

(* ------------------------------------------------------------------ 13.2.4.1 reset the insertion mode appropriately *)
(* (element names, condition, result) in the order of the steps; modes carry the names of html5ever's enum.
   The steps for "select" of older revisions are gone (see LEGACY). *)
Definition whatwg_reset_mode_steps : list (list string * string * string) := [
  (["td"; "th"], "!last", "InCell");
  (["tr"], "", "InRow");
  (["tbody"; "thead"; "tfoot"], "", "InTableBody");
  (["caption"], "", "InCaption");
  (["colgroup"], "", "InColumnGroup");
  (["table"], "", "InTable");
  (["template"], "", "current-template-mode");
  (["head"], "!last", "InHead");
  (["body"], "", "InBody");
  (["frameset"], "", "InFrameset");
  (["html"], "", "head-pointer-null?BeforeHead:AfterHead")].

(* ------------------------------------------------------------------ 13.1.2 / 13.3 *)
(* void elements (13.1.2) *)
Definition whatwg_void_elements : list string :=
  ["area"; "base"; "br"; "col"; "embed"; "hr"; "img"; "input"; "link"; "meta"; "source"; "track"; "wbr"].
(* 13.3 "serializes as void": a void element, or basefont, bgsound, frame, keygen, param *)
Definition whatwg_serializes_as_void_only : list string := ["basefont"; "bgsound"; "frame"; "keygen"; "param"].
Definition whatwg_serializes_as_void : list string := whatwg_void_elements ++ whatwg_serializes_as_void_only.
(* 13.3: the text of a child of one of these is written literally ... *)
Definition whatwg_ser_rawtext_parents : list string :=
  ["style"; "script"; "xmp"; "iframe"; "noembed"; "noframes"; "plaintext"].
(* ... and of a noscript element if scripting is enabled for the node *)
Definition whatwg_ser_rawtext_parents_if_scripting : list string := ["noscript"].

(* ------------------------------------------------------------------ 13.2.6.4.1 the "initial" insertion mode *)
(* all comparisons of these identifiers are ASCII case-insensitive *)
Definition whatwg_quirks_public_ids : list string :=
  ["-//W3O//DTD W3 HTML Strict 3.0//EN//"; "-/W3C/DTD HTML 4.0 Transitional/EN"; "HTML"].
Definition whatwg_quirks_system_ids : list string :=
  ["http://www.ibm.com/data/dtd/v11/ibmxhtml1-transitional.dtd"].
Definition whatwg_quirks_public_prefixes : list string := [
  "+//Silmaril//dtd html Pro v0r11 19970101//";
  "-//AS//DTD HTML 3.0 asWedit + extensions//";
  "-//AdvaSoft Ltd//DTD HTML 3.0 asWedit + extensions//";
  "-//IETF//DTD HTML 2.0 Level 1//";
  "-//IETF//DTD HTML 2.0 Level 2//";
  "-//IETF//DTD HTML 2.0 Strict Level 1//";
  "-//IETF//DTD HTML 2.0 Strict Level 2//";
  "-//IETF//DTD HTML 2.0 Strict//";
  "-//IETF//DTD HTML 2.0//";
  "-//IETF//DTD HTML 2.1E//";
  "-//IETF//DTD HTML 3.0//";
  "-//IETF//DTD HTML 3.2 Final//";
  "-//IETF//DTD HTML 3.2//";
  "-//IETF//DTD HTML 3//";
  "-//IETF//DTD HTML Level 0//";
  "-//IETF//DTD HTML Level 1//";
  "-//IETF//DTD HTML Level 2//";
  "-//IETF//DTD HTML Level 3//";
  "-//IETF//DTD HTML Strict Level 0//";
  "-//IETF//DTD HTML Strict Level 1//";
  "-//IETF//DTD HTML Strict Level 2//";
  "-//IETF//DTD HTML Strict Level 3//";
  "-//IETF//DTD HTML Strict//";
  "-//IETF//DTD HTML//";
  "-//Metrius//DTD Metrius Presentational//";
  "-//Microsoft//DTD Internet Explorer 2.0 HTML Strict//";
  "-//Microsoft//DTD Internet Explorer 2.0 HTML//";
  "-//Microsoft//DTD Internet Explorer 2.0 Tables//";
  "-//Microsoft//DTD Internet Explorer 3.0 HTML Strict//";
  "-//Microsoft//DTD Internet Explorer 3.0 HTML//";
  "-//Microsoft//DTD Internet Explorer 3.0 Tables//";
  "-//Netscape Comm. Corp.//DTD HTML//";
  "-//Netscape Comm. Corp.//DTD Strict HTML//";
  "-//O'Reilly and Associates//DTD HTML 2.0//";
  "-//O'Reilly and Associates//DTD HTML Extended 1.0//";
  "-//O'Reilly and Associates//DTD HTML Extended Relaxed 1.0//";
  "-//SQ//DTD HTML 2.0 HoTMetaL + extensions//";
  "-//SoftQuad Software//DTD HoTMetaL PRO 6.0::19990601::extensions to HTML 4.0//";
  "-//SoftQuad//DTD HoTMetaL PRO 4.0::19971010::extensions to HTML 4.0//";
  "-//Spyglass//DTD HTML 2.0 Extended//";
  "-//Sun Microsystems Corp.//DTD HotJava HTML//";
  "-//Sun Microsystems Corp.//DTD HotJava Strict HTML//";
  "-//W3C//DTD HTML 3 1995-03-24//";
  "-//W3C//DTD HTML 3.2 Draft//";
  "-//W3C//DTD HTML 3.2 Final//";
  "-//W3C//DTD HTML 3.2//";
  "-//W3C//DTD HTML 3.2S Draft//";
  "-//W3C//DTD HTML 4.0 Frameset//";
  "-//W3C//DTD HTML 4.0 Transitional//";
  "-//W3C//DTD HTML Experimental 19960712//";
  "-//W3C//DTD HTML Experimental 970421//";
  "-//W3C//DTD W3 HTML//";
  "-//W3O//DTD W3 HTML 3.0//";
  "-//WebTechs//DTD Mozilla HTML 2.0//";
  "-//WebTechs//DTD Mozilla HTML//"].
(* quirks if the system identifier is missing, limited-quirks if it is not *)
Definition whatwg_html401_public_prefixes : list string :=
  ["-//W3C//DTD HTML 4.01 Frameset//"; "-//W3C//DTD HTML 4.01 Transitional//"].
Definition whatwg_limited_quirks_public_prefixes : list string :=
  ["-//W3C//DTD XHTML 1.0 Frameset//"; "-//W3C//DTD XHTML 1.0 Transitional//"].

(* a DOCTYPE token is not a parse error iff its name is "html", the public identifier is missing and the system
   identifier is missing or "about:legacy-compat" (the lists of "obsolete permitted DOCTYPEs" are no longer
   part of the parser section) *)
Definition whatwg_doctype_ok_triples : list (option string * option string * option string) :=
  [(Some "html", None, None); (Some "html", None, Some "about:legacy-compat")].

(* the decision of 13.2.6.4.1 as an ordered list over the table names used by html5ever (data.rs), in the order
   of the standard's text: everything is skipped for an iframe srcdoc document *)
Definition whatwg_quirks_decision : list (qcond * qres) := [
  (QcSrcdoc, QrMode QNoQuirks);
  (QcForceQuirks, QrMode QQuirks);
  (QcNameNotHtml, QrMode QQuirks);
  (QcPublicIs "QUIRKY_PUBLIC_MATCHES", QrMode QQuirks);
  (QcSystemIs "QUIRKY_SYSTEM_MATCHES", QrMode QQuirks);
  (QcPublicPrefix "QUIRKY_PUBLIC_PREFIXES", QrMode QQuirks);
  (QcPublicPrefix "LIMITED_QUIRKY_PUBLIC_PREFIXES", QrMode QLimitedQuirks);
  (QcPublicPrefix "HTML4_PUBLIC_PREFIXES", QrBySystem QQuirks QLimitedQuirks);
  (QcAlways, QrMode QNoQuirks)].

(* 13.2.4.1: the insertion modes (names of html5ever's enum; "in select" and "in select in table" of older
   revisions are gone) *)
Definition whatwg_insertion_modes : list string := [
  "Initial"; "BeforeHtml"; "BeforeHead"; "InHead"; "InHeadNoscript"; "AfterHead"; "InBody"; "Text"; "InTable";
  "InTableText"; "InCaption"; "InColumnGroup"; "InTableBody"; "InRow"; "InCell"; "InTemplate"; "AfterBody";
  "InFrameset"; "AfterFrameset"; "AfterAfterBody"; "AfterAfterFrameset"].
(* a DOCTYPE token is acted upon only in *)
Definition whatwg_doctype_processed_in : list string := ["Initial"].

(* ------------------------------------------------------------------ LEGACY (revisions before 2025) *)
(* "has a particular element in select scope": every element type EXCEPT *)
Definition legacy_select_scope_all_but : list ename := html ["optgroup"; "option"].
Definition legacy_scope_html : list string :=
  ["applet"; "caption"; "html"; "table"; "td"; "th"; "marquee"; "object"; "template"].
Definition legacy_insertion_modes_extra : list string := ["InSelect"; "InSelectInTable"].
