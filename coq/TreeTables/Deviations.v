(* Named exception lists: where a table of html5ever deliberately or accidentally differs from the list of the
   standard, the comparison lemma of Inst/InstTreeTables.v is stated "up to" one of these lists instead of
   weakening the list of the standard.  [x_extra] = html5ever has it, the standard has not;
   [x_missing] = the standard has it, html5ever has not.  The lemmas prove that the lists are exact.
   The assessment of each deviation (finding / reading difference) is in the comment. *)
From Coq Require Import String List.
From HV Require Import TreeTables.Types TreeTables.WhatwgLists.
Import ListNotations.
Local Open Scope string_scope.
Local Open Scope list_scope.

(* D1  special category.  isindex was removed from the standard (2016), keygen is still listed, search was added
   (2023); html5ever's special_tag is HTML-only, the standard also lists 6 MathML and 3 SVG elements.
   FINDING (tree differs): `<span><math><mi></span>x` - the standard ignores </span> because mi is special
   ("any other end tag" loop), html5ever closes span;  `<li><math><mi><li>` - the standard stops the <li> loop at
   the special mi, html5ever closes the outer li;  same with svg title/desc/foreignObject.  (The "furthest block"
   test of the adoption agency is not observably affected: these elements are scope markers, so a formatting
   element above them is "not in scope" and the algorithm returns before looking for a furthest block.)  search/isindex matter for the same loops (`<span><search></span>x`: the
   standard ignores </span>, html5ever closes span; `<span><isindex></span>x`: the other way round); keygen is never
   on the stack of open elements, so its absence cannot be observed.
   REPAIRED in /repo (fix: commits d51f289 isindex, ac17be7 search, e1e375b foreign special elements): the lists
   below were [isindex] / [keygen; search; mi; mo; mn; ms; mtext; annotation-xml; foreignObject; desc; title].
   Only keygen remains (unobservable). *)
Definition special_extra : list ename := [].
Definition special_missing : list ename := [(NsHtml, "keygen")].

(* D2  scope markers: MathML annotation-xml is missing from default_scope (and so from list item / button scope).
   FINDING (tree differs): `<p><math><annotation-xml encoding="text/html"><div>` - the standard does not see the p
   in button scope (div becomes a child of annotation-xml), html5ever closes p, math and annotation-xml. *)
(* REPAIRED in /repo (fix: eedd895); the list was [annotation-xml]. *)
Definition scope_missing : list ename := [].

(* D3  check_body_end: rb and rtc are missing from the list of elements that may be open at </body>, </html>, EOF.
   Only the number of parse errors is affected (not part of the tree): reading difference / harmless. *)
Definition body_end_ok_missing : list ename := [(NsHtml, "rb"); (NsHtml, "rtc")].

(* D4  in table, character tokens: the standard starts "in table text" when the current node is table, tbody,
   template, tfoot, thead or tr; html5ever's table_outer lacks template.
   FINDING (tree differs): `<template><caption></caption><b><caption></caption> ` - the white space is inserted
   directly (in table text) by the standard, html5ever foster-parents it through "in body", which reconstructs
   the active formatting element b around it. *)
(* REPAIRED in /repo (fix: 63ff1f2); the list was [template]. *)
Definition table_text_current_missing : list ename := [].

(* D5  in table body, "does not have a tbody, thead, or tfoot element in table scope": html5ever tests
   table, tbody, tfoot.  With a table element on the stack the extra "table" hides the missing "thead"; without one
   (template contents, fragment with context table) an open thead is not seen.
   FINDING (tree differs): `<template><thead><caption>x` - the standard closes thead and inserts caption, html5ever
   ignores <caption>;  fragment with context html:table, `<thead><tbody>` - tbody is dropped.
   (Witnesses found by the tree-model check, its deviation class dev:11.) *)
(* REPAIRED in /repo (fix: 7c702df); the lists were [table] / [thead]. *)
Definition table_body_sections_extra : list ename := [].
Definition table_body_sections_missing : list ename := [].

(* D6  quirks: the public identifier prefix "+//Silmaril//dtd html Pro v0r11 19970101//" is missing.
   FINDING (quirks mode differs): `<!DOCTYPE html PUBLIC "+//Silmaril//dtd html Pro v0r11 19970101//EN">`
   gives no-quirks instead of quirks. *)
(* REPAIRED in /repo (fix: 3f69a61); the list was that prefix. *)
Definition quirks_prefix_missing : list string := [].

(* D7  quirks: html5ever tests force-quirks and name before iframe_srcdoc; the standard exempts an iframe srcdoc
   document from all quirks conditions.  FINDING (quirks mode differs, only with iframe_srcdoc = true):
   `<!DOCTYPE foo>` or `<!DOCTYPE>` gives quirks instead of no-quirks.  (Position of the QcSrcdoc arm: 2 vs 0.) *)
(* REPAIRED in /repo (fix: bec9d13); the position was 2. *)
Definition srcdoc_arm_position_html5ever : nat := 0.
Definition srcdoc_arm_position_whatwg : nat := 0.

(* D8  doctypes without parse error: html5ever still accepts the six "obsolete permitted DOCTYPE" combinations that
   older revisions listed.  Only parse errors are affected: harmless. *)
Definition doctype_ok_extra : list (option string * option string * option string) := [
  (Some "html", Some "-//W3C//DTD HTML 4.0//EN", None);
  (Some "html", Some "-//W3C//DTD HTML 4.0//EN", Some "http://www.w3.org/TR/REC-html40/strict.dtd");
  (Some "html", Some "-//W3C//DTD HTML 4.01//EN", None);
  (Some "html", Some "-//W3C//DTD HTML 4.01//EN", Some "http://www.w3.org/TR/html4/strict.dtd");
  (Some "html", Some "-//W3C//DTD XHTML 1.0 Strict//EN", Some "http://www.w3.org/TR/xhtml1/DTD/xhtml1-strict.dtd");
  (Some "html", Some "-//W3C//DTD XHTML 1.1//EN", Some "http://www.w3.org/TR/xhtml11/DTD/xhtml11.dtd")].

(* D9  adjust foreign attributes: the attribute "xmlns" gets prefix Some "" (qualname!("" xmlns "xmlns")) where the
   standard says "(none)".  Observable through QualName.prefix of the attribute (Some(Prefix(""))) : reading
   difference unless the comparison of C02 distinguishes an empty prefix from no prefix. *)
(* REPAIRED in /repo (fix: d8eed63); the lists were [xmlns -> (Some "", xmlns, xmlns)] / [xmlns -> (None, xmlns, xmlns)]. *)
Definition foreign_attr_extra : list (string * qname) := [].
Definition foreign_attr_missing : list (string * qname) := [].

(* D10 break-out of foreign content: popping must stop at any HTML integration point; html5ever does not stop at a
   MathML annotation-xml element with encoding text/html / application/xhtml+xml.
   FINDING (tree differs): `<math><annotation-xml encoding="text/html"><svg><b>x` - b belongs inside
   annotation-xml, html5ever pops annotation-xml and math as well. *)
(* REPAIRED in /repo (fix: b1d185d); the list was [annotation-xml-with-encoding]. *)
Definition breakout_stop_missing : list string := [].
