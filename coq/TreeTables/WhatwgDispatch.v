(* The cases ("A start tag whose tag name is one of ...") of every insertion mode of 13.2.6.4 and of 13.2.6.5
   (foreign content) of the WHATWG HTML standard, in the order of the standard's text, written by hand from the
   standard, independently of the Rust code; plus the documented renumbering between the arms of rules.rs
   (numbered from 0 in source order, see Gen/GenDispatch.v) and these cases.

   Conventions.  A case that carries a condition which is not a property of the token ("if the scripting flag is
   enabled", "if the current node is ...", "if the token has any attributes named ...") is IfCond: a token matching
   its head may also reach a later case; where the standard gives the complementary condition as a separate
   case it is ElseCond.  Where one paragraph of the standard joins a conditional and an unconditional head
   (in head: noscript-if-scripting / noframes, style; in body: noembed / noscript-if-scripting) the paragraph is
   listed as two consecutive cases.  "A character token" of the standard includes U+0000 (AChars None; ANull).
   Reference revision: living standard 2025 (after the customizable-select revision); see WhatwgLists.v. *)
From Coq Require Import String List.
From HV Require Import TreeTables.Types.
Import ListNotations.
Local Open Scope string_scope.
Local Open Scope list_scope.

Definition starts (l : list string) : list atom := map AStart l.
Definition ends (l : list string) : list atom := map AEnd l.
Definition ws : atom := AChars (Some SpWs).
Definition nonws : atom := AChars (Some SpNonWs).
Definition anychar : list atom := [AChars None; ANull].
Definition C (label : string) (a : list atom) : scase := {| sc_label := label; sc_kind := Always; sc_atoms := a |}.
Definition Cif (label : string) (a : list atom) : scase := {| sc_label := label; sc_kind := IfCond; sc_atoms := a |}.
Definition Celse (label : string) (a : list atom) : scase := {| sc_label := label; sc_kind := ElseCond; sc_atoms := a |}.

(* 13.2.6.4.1 *)
Definition cases_Initial : list scase := [
  (* 0 *) C "whitespace: ignore" [ws];
  (* 1 *) C "comment" [AComment];
  (* 2 *) C "DOCTYPE" [ADoctype];
  (* 3 *) C "anything else" [AWild]].

(* 13.2.6.4.2 *)
Definition cases_BeforeHtml : list scase := [
  (* 0 *) C "DOCTYPE" [ADoctype];
  (* 1 *) C "comment" [AComment];
  (* 2 *) C "whitespace: ignore" [ws];
  (* 3 *) C "<html>" (starts ["html"]);
  (* 4 *) C "</head> </body> </html> </br>: anything else" (ends ["head"; "body"; "html"; "br"]);
  (* 5 *) C "any other end tag" [AAnyEnd];
  (* 6 *) C "anything else" [AWild]].

(* 13.2.6.4.3 *)
Definition cases_BeforeHead : list scase := [
  (* 0 *) C "whitespace: ignore" [ws];
  (* 1 *) C "comment" [AComment];
  (* 2 *) C "DOCTYPE" [ADoctype];
  (* 3 *) C "<html>" (starts ["html"]);
  (* 4 *) C "<head>" (starts ["head"]);
  (* 5 *) C "</head> </body> </html> </br>: anything else" (ends ["head"; "body"; "html"; "br"]);
  (* 6 *) C "any other end tag" [AAnyEnd];
  (* 7 *) C "anything else" [AWild]].

(* 13.2.6.4.4 *)
Definition cases_InHead : list scase := [
  (* 0 *) C "whitespace: insert" [ws];
  (* 1 *) C "comment" [AComment];
  (* 2 *) C "DOCTYPE" [ADoctype];
  (* 3 *) C "<html>" (starts ["html"]);
  (* 4 *) C "<base> <basefont> <bgsound> <link>" (starts ["base"; "basefont"; "bgsound"; "link"]);
  (* 5 *) C "<meta>" (starts ["meta"]);
  (* 6 *) C "<title>" (starts ["title"]);
  (* 7 *) Cif "<noscript>, scripting enabled (same paragraph as 8)" (starts ["noscript"]);
  (* 8 *) C "<noframes> <style>" (starts ["noframes"; "style"]);
  (* 9 *) Celse "<noscript>, scripting disabled" (starts ["noscript"]);
  (* 10 *) C "<script>" (starts ["script"]);
  (* 11 *) C "</head>" (ends ["head"]);
  (* 12 *) C "</body> </html> </br>: anything else" (ends ["body"; "html"; "br"]);
  (* 13 *) C "<template>" (starts ["template"]);
  (* 14 *) C "</template>" (ends ["template"]);
  (* 15 *) C "<head>, any other end tag" (starts ["head"] ++ [AAnyEnd]);
  (* 16 *) C "anything else" [AWild]].

(* 13.2.6.4.5 *)
Definition cases_InHeadNoscript : list scase := [
  (* 0 *) C "DOCTYPE" [ADoctype];
  (* 1 *) C "<html>" (starts ["html"]);
  (* 2 *) C "</noscript>" (ends ["noscript"]);
  (* 3 *) C "whitespace, comment, <basefont> <bgsound> <link> <meta> <noframes> <style>"
            ([ws; AComment] ++ starts ["basefont"; "bgsound"; "link"; "meta"; "noframes"; "style"]);
  (* 4 *) C "</br>: anything else" (ends ["br"]);
  (* 5 *) C "<head> <noscript>, any other end tag" (starts ["head"; "noscript"] ++ [AAnyEnd]);
  (* 6 *) C "anything else" [AWild]].

(* 13.2.6.4.6 *)
Definition cases_AfterHead : list scase := [
  (* 0 *) C "whitespace: insert" [ws];
  (* 1 *) C "comment" [AComment];
  (* 2 *) C "DOCTYPE" [ADoctype];
  (* 3 *) C "<html>" (starts ["html"]);
  (* 4 *) C "<body>" (starts ["body"]);
  (* 5 *) C "<frameset>" (starts ["frameset"]);
  (* 6 *) C "<base> ... <title>"
            (starts ["base"; "basefont"; "bgsound"; "link"; "meta"; "noframes"; "script"; "style"; "template"; "title"]);
  (* 7 *) C "</template>" (ends ["template"]);
  (* 8 *) C "</body> </html> </br>: anything else" (ends ["body"; "html"; "br"]);
  (* 9 *) C "<head>, any other end tag" (starts ["head"] ++ [AAnyEnd]);
  (* 10 *) C "anything else" [AWild]].

(* 13.2.6.4.7 *)
Definition cases_InBody : list scase := [
  (* 0 *) C "U+0000: ignore" [ANull];
  (* 1 *) C "whitespace" [ws];
  (* 2 *) C "any other character" [nonws];
  (* 3 *) C "comment" [AComment];
  (* 4 *) C "DOCTYPE" [ADoctype];
  (* 5 *) C "<html>" (starts ["html"]);
  (* 6 *) C "<base> ... <title>, </template>: in head"
            (starts ["base"; "basefont"; "bgsound"; "link"; "meta"; "noframes"; "script"; "style"; "template"; "title"]
             ++ ends ["template"]);
  (* 7 *) C "<body>" (starts ["body"]);
  (* 8 *) C "<frameset>" (starts ["frameset"]);
  (* 9 *) C "EOF" [AEof];
  (* 10 *) C "</body>" (ends ["body"]);
  (* 11 *) C "</html>" (ends ["html"]);
  (* 12 *) C "<address> ... <ul>: close a p, insert"
            (starts ["address"; "article"; "aside"; "blockquote"; "center"; "details"; "dialog"; "dir"; "div"; "dl";
                     "fieldset"; "figcaption"; "figure"; "footer"; "header"; "hgroup"; "main"; "menu"; "nav"; "ol";
                     "p"; "search"; "section"; "summary"; "ul"]);
  (* 13 *) C "<h1>..<h6>" (starts ["h1"; "h2"; "h3"; "h4"; "h5"; "h6"]);
  (* 14 *) C "<pre> <listing>" (starts ["pre"; "listing"]);
  (* 15 *) C "<form>" (starts ["form"]);
  (* 16 *) C "<li>" (starts ["li"]);
  (* 17 *) C "<dd> <dt>" (starts ["dd"; "dt"]);
  (* 18 *) C "<plaintext>" (starts ["plaintext"]);
  (* 19 *) C "<button>" (starts ["button"]);
  (* 20 *) C "</address> ... </ul>"
            (ends ["address"; "article"; "aside"; "blockquote"; "button"; "center"; "details"; "dialog"; "dir"; "div";
                   "dl"; "fieldset"; "figcaption"; "figure"; "footer"; "header"; "hgroup"; "listing"; "main"; "menu";
                   "nav"; "ol"; "pre"; "search"; "section"; "select"; "summary"; "ul"]);
  (* 21 *) C "</form>" (ends ["form"]);
  (* 22 *) C "</p>" (ends ["p"]);
  (* 23 *) C "</li>" (ends ["li"]);
  (* 24 *) C "</dd> </dt>" (ends ["dd"; "dt"]);
  (* 25 *) C "</h1>..</h6>" (ends ["h1"; "h2"; "h3"; "h4"; "h5"; "h6"]);
  (* 26 *) C "</sarcasm>: as any other end tag" (ends ["sarcasm"]);
  (* 27 *) C "<a>" (starts ["a"]);
  (* 28 *) C "<b> ... <u>"
            (starts ["b"; "big"; "code"; "em"; "font"; "i"; "s"; "small"; "strike"; "strong"; "tt"; "u"]);
  (* 29 *) C "<nobr>" (starts ["nobr"]);
  (* 30 *) C "</a> ... </u>: adoption agency"
            (ends ["a"; "b"; "big"; "code"; "em"; "font"; "i"; "nobr"; "s"; "small"; "strike"; "strong"; "tt"; "u"]);
  (* 31 *) C "<applet> <marquee> <object>" (starts ["applet"; "marquee"; "object"]);
  (* 32 *) C "</applet> </marquee> </object>" (ends ["applet"; "marquee"; "object"]);
  (* 33 *) C "<table>" (starts ["table"]);
  (* 34 *) C "</br>" (ends ["br"]);
  (* 35 *) C "<area> <br> <embed> <img> <keygen> <wbr>" (starts ["area"; "br"; "embed"; "img"; "keygen"; "wbr"]);
  (* 36 *) C "<input>" (starts ["input"]);
  (* 37 *) C "<param> <source> <track>" (starts ["param"; "source"; "track"]);
  (* 38 *) C "<hr>" (starts ["hr"]);
  (* 39 *) C "<image>" (starts ["image"]);
  (* 40 *) C "<textarea>" (starts ["textarea"]);
  (* 41 *) C "<xmp>" (starts ["xmp"]);
  (* 42 *) C "<iframe>" (starts ["iframe"]);
  (* 43 *) C "<noembed> (same paragraph as 44)" (starts ["noembed"]);
  (* 44 *) Cif "<noscript>, scripting enabled" (starts ["noscript"]);
  (* 45 *) C "<select>" (starts ["select"]);
  (* 46 *) C "<option>  (UNSURE: one paragraph <optgroup> <option> before the 2025 revision)" (starts ["option"]);
  (* 47 *) C "<optgroup>" (starts ["optgroup"]);
  (* 48 *) C "<rb> <rtc>" (starts ["rb"; "rtc"]);
  (* 49 *) C "<rp> <rt>" (starts ["rp"; "rt"]);
  (* 50 *) C "<math>" (starts ["math"]);
  (* 51 *) C "<svg>" (starts ["svg"]);
  (* 52 *) C "<caption> ... <tr>: ignore"
            (starts ["caption"; "col"; "colgroup"; "frame"; "head"; "tbody"; "td"; "tfoot"; "th"; "thead"; "tr"]);
  (* 53 *) C "any other start tag" [AAnyStart];
  (* 54 *) C "any other end tag" [AAnyEnd]].

(* 13.2.6.4.8; case 4 is not in the standard: no other token can reach this mode *)
Definition cases_Text : list scase := [
  (* 0 *) C "character (never U+0000)" [AChars None];
  (* 1 *) C "EOF" [AEof];
  (* 2 *) C "</script>" (ends ["script"]);
  (* 3 *) C "any other end tag" [AAnyEnd];
  (* 4 *) C "(not in the standard: cannot occur)" [AWild]].

(* 13.2.6.4.9 *)
Definition cases_InTable : list scase := [
  (* 0 *) Cif "character, if the current node is table, tbody, template, tfoot, thead, tr" anychar;
  (* 1 *) C "comment" [AComment];
  (* 2 *) C "DOCTYPE" [ADoctype];
  (* 3 *) C "<caption>" (starts ["caption"]);
  (* 4 *) C "<colgroup>" (starts ["colgroup"]);
  (* 5 *) C "<col>" (starts ["col"]);
  (* 6 *) C "<tbody> <tfoot> <thead>" (starts ["tbody"; "tfoot"; "thead"]);
  (* 7 *) C "<td> <th> <tr>" (starts ["td"; "th"; "tr"]);
  (* 8 *) C "<table>" (starts ["table"]);
  (* 9 *) C "</table>" (ends ["table"]);
  (* 10 *) C "</body> ... </tr>: ignore"
            (ends ["body"; "caption"; "col"; "colgroup"; "html"; "tbody"; "td"; "tfoot"; "th"; "thead"; "tr"]);
  (* 11 *) C "<style> <script> <template> </template>: in head" (starts ["style"; "script"; "template"] ++ ends ["template"]);
  (* 12 *) C "<input>" (starts ["input"]);
  (* 13 *) C "<form>" (starts ["form"]);
  (* 14 *) C "EOF" [AEof];
  (* 15 *) C "anything else" [AWild]].

(* 13.2.6.4.10 *)
Definition cases_InTableText : list scase := [
  (* 0 *) C "U+0000: ignore" [ANull];
  (* 1 *) C "any other character" [AChars None];
  (* 2 *) C "anything else" [AWild]].

(* 13.2.6.4.11 *)
Definition cases_InCaption : list scase := [
  (* 0 *) C "</caption>" (ends ["caption"]);
  (* 1 *) C "<caption> ... <tr>, </table>"
            (starts ["caption"; "col"; "colgroup"; "tbody"; "td"; "tfoot"; "th"; "thead"; "tr"] ++ ends ["table"]);
  (* 2 *) C "</body> ... </tr>: ignore"
            (ends ["body"; "col"; "colgroup"; "html"; "tbody"; "td"; "tfoot"; "th"; "thead"; "tr"]);
  (* 3 *) C "anything else: in body" [AWild]].

(* 13.2.6.4.12 *)
Definition cases_InColumnGroup : list scase := [
  (* 0 *) C "whitespace: insert" [ws];
  (* 1 *) C "comment" [AComment];
  (* 2 *) C "DOCTYPE" [ADoctype];
  (* 3 *) C "<html>" (starts ["html"]);
  (* 4 *) C "<col>" (starts ["col"]);
  (* 5 *) C "</colgroup>" (ends ["colgroup"]);
  (* 6 *) C "</col>" (ends ["col"]);
  (* 7 *) C "<template> </template>" (starts ["template"] ++ ends ["template"]);
  (* 8 *) C "EOF" [AEof];
  (* 9 *) C "anything else" [AWild]].

(* 13.2.6.4.13 *)
Definition cases_InTableBody : list scase := [
  (* 0 *) C "<tr>" (starts ["tr"]);
  (* 1 *) C "<th> <td>" (starts ["th"; "td"]);
  (* 2 *) C "</tbody> </tfoot> </thead>" (ends ["tbody"; "tfoot"; "thead"]);
  (* 3 *) C "<caption> <col> <colgroup> <tbody> <tfoot> <thead>, </table>"
            (starts ["caption"; "col"; "colgroup"; "tbody"; "tfoot"; "thead"] ++ ends ["table"]);
  (* 4 *) C "</body> ... </tr>: ignore" (ends ["body"; "caption"; "col"; "colgroup"; "html"; "td"; "th"; "tr"]);
  (* 5 *) C "anything else: in table" [AWild]].

(* 13.2.6.4.14 *)
Definition cases_InRow : list scase := [
  (* 0 *) C "<th> <td>" (starts ["th"; "td"]);
  (* 1 *) C "</tr>" (ends ["tr"]);
  (* 2 *) C "<caption> <col> <colgroup> <tbody> <tfoot> <thead> <tr>, </table>"
            (starts ["caption"; "col"; "colgroup"; "tbody"; "tfoot"; "thead"; "tr"] ++ ends ["table"]);
  (* 3 *) C "</tbody> </tfoot> </thead>" (ends ["tbody"; "tfoot"; "thead"]);
  (* 4 *) C "</body> ... </th>: ignore" (ends ["body"; "caption"; "col"; "colgroup"; "html"; "td"; "th"]);
  (* 5 *) C "anything else: in table" [AWild]].

(* 13.2.6.4.15 *)
Definition cases_InCell : list scase := [
  (* 0 *) C "</td> </th>" (ends ["td"; "th"]);
  (* 1 *) C "<caption> ... <tr>" (starts ["caption"; "col"; "colgroup"; "tbody"; "td"; "tfoot"; "th"; "thead"; "tr"]);
  (* 2 *) C "</body> </caption> </col> </colgroup> </html>: ignore" (ends ["body"; "caption"; "col"; "colgroup"; "html"]);
  (* 3 *) C "</table> </tbody> </tfoot> </thead> </tr>" (ends ["table"; "tbody"; "tfoot"; "thead"; "tr"]);
  (* 4 *) C "anything else: in body" [AWild]].

(* 13.2.6.4.16 (numbering of the 2025 revision; 13.2.6.4.18 before) *)
Definition cases_InTemplate : list scase := [
  (* 0 *) C "character, comment, DOCTYPE: in body" (anychar ++ [AComment; ADoctype]);
  (* 1 *) C "<base> ... <title>, </template>: in head"
            (starts ["base"; "basefont"; "bgsound"; "link"; "meta"; "noframes"; "script"; "style"; "template"; "title"]
             ++ ends ["template"]);
  (* 2 *) C "<caption> <colgroup> <tbody> <tfoot> <thead>" (starts ["caption"; "colgroup"; "tbody"; "tfoot"; "thead"]);
  (* 3 *) C "<col>" (starts ["col"]);
  (* 4 *) C "<tr>" (starts ["tr"]);
  (* 5 *) C "<td> <th>" (starts ["td"; "th"]);
  (* 6 *) C "any other start tag" [AAnyStart];
  (* 7 *) C "any other end tag: ignore" [AAnyEnd];
  (* 8 *) C "EOF" [AEof]].

Definition cases_AfterBody : list scase := [
  (* 0 *) C "whitespace: in body" [ws];
  (* 1 *) C "comment" [AComment];
  (* 2 *) C "DOCTYPE" [ADoctype];
  (* 3 *) C "<html>" (starts ["html"]);
  (* 4 *) C "</html>" (ends ["html"]);
  (* 5 *) C "EOF" [AEof];
  (* 6 *) C "anything else" [AWild]].

Definition cases_InFrameset : list scase := [
  (* 0 *) C "whitespace: insert" [ws];
  (* 1 *) C "comment" [AComment];
  (* 2 *) C "DOCTYPE" [ADoctype];
  (* 3 *) C "<html>" (starts ["html"]);
  (* 4 *) C "<frameset>" (starts ["frameset"]);
  (* 5 *) C "</frameset>" (ends ["frameset"]);
  (* 6 *) C "<frame>" (starts ["frame"]);
  (* 7 *) C "<noframes>" (starts ["noframes"]);
  (* 8 *) C "EOF" [AEof];
  (* 9 *) C "anything else: ignore" [AWild]].

Definition cases_AfterFrameset : list scase := [
  (* 0 *) C "whitespace: insert" [ws];
  (* 1 *) C "comment" [AComment];
  (* 2 *) C "DOCTYPE" [ADoctype];
  (* 3 *) C "<html>" (starts ["html"]);
  (* 4 *) C "</html>" (ends ["html"]);
  (* 5 *) C "<noframes>" (starts ["noframes"]);
  (* 6 *) C "EOF" [AEof];
  (* 7 *) C "anything else: ignore" [AWild]].

Definition cases_AfterAfterBody : list scase := [
  (* 0 *) C "comment" [AComment];
  (* 1 *) C "DOCTYPE, whitespace, <html>: in body" ([ADoctype; ws] ++ starts ["html"]);
  (* 2 *) C "EOF" [AEof];
  (* 3 *) C "anything else" [AWild]].

Definition cases_AfterAfterFrameset : list scase := [
  (* 0 *) C "comment" [AComment];
  (* 1 *) C "DOCTYPE, whitespace, <html>: in body" ([ADoctype; ws] ++ starts ["html"]);
  (* 2 *) C "EOF" [AEof];
  (* 3 *) C "<noframes>" (starts ["noframes"]);
  (* 4 *) C "anything else: ignore" [AWild]].

(* 13.2.6.5 *)
Definition cases_Foreign : list scase := [
  (* 0 *) C "U+0000: U+FFFD" [ANull];
  (* 1 *) C "whitespace" [ws];
  (* 2 *) C "any other character" [nonws];
  (* 3 *) C "comment" [AComment];
  (* 4 *) C "DOCTYPE" [ADoctype];
  (* 5 *) C "<b> ... <var>, </br> </p>: break out (same paragraph as 6)"
            (starts ["b"; "big"; "blockquote"; "body"; "br"; "center"; "code"; "dd"; "div"; "dl"; "dt"; "em"; "embed";
                     "h1"; "h2"; "h3"; "h4"; "h5"; "h6"; "head"; "hr"; "i"; "img"; "li"; "listing"; "menu"; "meta";
                     "nobr"; "ol"; "p"; "pre"; "ruby"; "s"; "small"; "span"; "strong"; "strike"; "sub"; "sup"; "table";
                     "tt"; "u"; "ul"; "var"] ++ ends ["br"; "p"]);
  (* 6 *) Cif "<font> with a color, face or size attribute: break out" (starts ["font"]);
  (* 7 *) C "any other start tag" [AAnyStart];
  (* 8 *) Cif "</script>, if the current node is an SVG script element" (ends ["script"]);
  (* 9 *) C "any other end tag" [AAnyEnd];
  (* 10 *) C "(not in the standard: an EOF token is never handled by the foreign-content rules)" [AEof]].

Definition whatwg_cases : list (string * list scase) := [
  ("Initial", cases_Initial); ("BeforeHtml", cases_BeforeHtml); ("BeforeHead", cases_BeforeHead);
  ("InHead", cases_InHead); ("InHeadNoscript", cases_InHeadNoscript); ("AfterHead", cases_AfterHead);
  ("InBody", cases_InBody); ("Text", cases_Text); ("InTable", cases_InTable); ("InTableText", cases_InTableText);
  ("InCaption", cases_InCaption); ("InColumnGroup", cases_InColumnGroup); ("InTableBody", cases_InTableBody);
  ("InRow", cases_InRow); ("InCell", cases_InCell); ("InTemplate", cases_InTemplate); ("AfterBody", cases_AfterBody);
  ("InFrameset", cases_InFrameset); ("AfterFrameset", cases_AfterFrameset); ("AfterAfterBody", cases_AfterAfterBody);
  ("AfterAfterFrameset", cases_AfterAfterFrameset); ("Foreign", cases_Foreign)].


(* ------------------------------------------------------------------ documented renumbering: (arm of rules.rs, case above)
   One pair (a, c) means: some token is dispatched to arm a by html5ever and to case c by the standard.
   Where the relation is not one-to-one the reason is given.  Inst/InstTreeTables.v proves that these are exactly
   the pairs induced by ALL tokens (every tag name, mentioned or not). *)
Definition renum_Initial : list (nat * nat) := [
  (1, 0); (2, 1); (3, 3)].
Definition renum_BeforeHtml : list (nat * nat) := [
  (0, 1); (2, 2); (3, 3); (4, 4); (5, 5); (6, 6)].
Definition renum_BeforeHead : list (nat * nat) := [
  (1, 0); (2, 1); (3, 3); (4, 4); (5, 5); (6, 6); (7, 7)].
(* arm 4 (<base> <basefont> <bgsound> <link> <meta>) implements cases 4 and 5 (the body runs the charset / http-equiv steps of <meta> for all five names);
   arm 6 (<noframes> <style> <noscript>) implements cases 7, 8, 9 (the body tests the scripting flag for noscript) *)
Definition renum_InHead : list (nat * nat) := [
  (1, 0); (2, 1); (3, 3); (4, 4); (4, 5); (5, 6); (6, 7); (6, 8); (6, 9); (7, 10); (8, 11); (9, 12);
  (10, 13); (11, 14); (12, 15); (13, 16)].
(* arms 3 (whitespace), 4 (comment), 5 (<basefont> .. <style>) all implement case 3 (process using in head) *)
Definition renum_InHeadNoscript : list (nat * nat) := [
  (0, 1); (1, 2); (3, 3); (4, 3); (5, 3); (6, 4); (7, 5); (8, 6)].
Definition renum_AfterHead : list (nat * nat) := [
  (1, 0); (2, 1); (3, 3); (4, 4); (5, 5); (6, 6); (7, 7); (8, 8); (9, 9); (10, 10)].
(* arm 1 (any character run) implements cases 1, 2 (the body looks for non-whitespace to clear frameset-ok);
   arms 10 and 11 (<menu>) implement case 12 (identical bodies); arm 15 (<li> <dd> <dt>) implements cases 16, 17;
   arm 22 (</li> </dd> </dt>) implements cases 23, 24; arm 49 (any other start tag) implements case 44
   (<noscript> with scripting, tested in the body) and case 53; arm 50 (any other end tag) implements case 26
   (</sarcasm>) and case 54; arm 20 (</option>) has NO case of its own in the standard: it is an html5ever addition
   (FIXME in the source, servo/html5ever issue 712) that runs case 54 and then the selectedcontent cloning *)
Definition renum_InBody : list (nat * nat) := [
  (0, 0); (1, 1); (1, 2); (2, 3); (3, 5); (4, 6); (5, 7); (6, 8); (7, 9); (8, 10); (9, 11); (10, 12);
  (11, 12); (12, 13); (13, 14); (14, 15); (15, 16); (15, 17); (16, 18); (17, 19); (18, 20); (19, 21);
  (20, 54); (21, 22); (22, 23); (22, 24); (23, 25); (24, 27); (25, 28); (26, 29); (27, 30); (28, 31);
  (29, 32); (30, 33); (31, 34); (32, 35); (33, 36); (34, 37); (35, 38); (36, 39); (37, 40); (38, 41);
  (39, 42); (40, 43); (41, 45); (42, 46); (43, 47); (44, 48); (45, 49); (46, 50); (47, 51); (48, 52);
  (49, 44); (49, 53); (50, 26); (50, 54)].
(* arm 2 (any end tag) implements cases 2 (</script>, tested in the body) and 3; arm 3 (`_ => unreachable!`) has no case in the standard (pseudo-case 4) *)
Definition renum_Text : list (nat * nat) := [
  (0, 0); (1, 1); (2, 2); (2, 3); (3, 4)].
(* arm 0 (U+0000 and character runs) implements case 0 and, when its condition fails, case 15 (process_chars_in_table);
   arm 14 (`token =>`) is case 15 *)
Definition renum_InTable : list (nat * nat) := [
  (0, 0); (0, 15); (1, 1); (2, 3); (3, 4); (4, 5); (5, 6); (6, 7); (7, 8); (8, 9); (9, 10); (10, 11);
  (11, 12); (12, 13); (13, 14); (14, 15)].
Definition renum_InTableText : list (nat * nat) := [
  (0, 0); (1, 1); (2, 2)].
(* arm 0 implements cases 0 (</caption>) and 1 (the body re-examines the tag) *)
Definition renum_InCaption : list (nat * nat) := [
  (0, 0); (0, 1); (1, 2); (2, 3)].
Definition renum_InColumnGroup : list (nat * nat) := [
  (1, 0); (2, 1); (3, 3); (4, 4); (5, 5); (6, 6); (7, 7); (8, 8); (9, 9)].
Definition renum_InTableBody : list (nat * nat) := [
  (0, 0); (1, 1); (2, 2); (3, 3); (4, 4); (5, 5)].
Definition renum_InRow : list (nat * nat) := [
  (0, 0); (1, 1); (2, 2); (3, 3); (4, 4); (5, 5)].
Definition renum_InCell : list (nat * nat) := [
  (0, 0); (1, 1); (2, 2); (3, 3); (4, 4)].
(* arms 0 (characters), 1 (comment) implement case 0; U+0000 reaches arm 9 (`token => unexpected`), the standard sends it to
   in body where it is ignored with a parse error as well: pair (9, 0); arm 9 is otherwise case 7 (any other end tag) *)
Definition renum_InTemplate : list (nat * nat) := [
  (0, 0); (1, 0); (2, 1); (3, 2); (4, 3); (5, 4); (6, 5); (7, 8); (8, 6); (9, 0); (9, 7)].
Definition renum_AfterBody : list (nat * nat) := [
  (1, 0); (2, 1); (3, 3); (4, 4); (5, 5); (6, 6)].
Definition renum_InFrameset : list (nat * nat) := [
  (1, 0); (2, 1); (3, 3); (4, 4); (5, 5); (6, 6); (7, 7); (8, 8); (9, 9)].
Definition renum_AfterFrameset : list (nat * nat) := [
  (1, 0); (2, 1); (3, 3); (4, 4); (5, 5); (6, 6); (7, 7)].
(* arms 1 (whitespace) and 3 (<html>) implement case 1 *)
Definition renum_AfterAfterBody : list (nat * nat) := [
  (1, 1); (2, 0); (3, 1); (4, 2); (5, 3)].
(* arms 1 (whitespace) and 3 (<html>) implement case 1 *)
Definition renum_AfterAfterFrameset : list (nat * nat) := [
  (1, 1); (2, 0); (3, 1); (4, 2); (5, 3); (6, 4)].
(* arm 1 (any character run) implements cases 1, 2; arm 4 (<font>) implements case 6 and, without the attributes, case 7;
   arm 6 (any end tag) implements cases 8 and 9 (html5ever has no SVG script handling: FIXME(#118) in the source);
   arm 7 (EOF => panic!) has no case in the standard (pseudo-case 10) *)
Definition renum_Foreign : list (nat * nat) := [
  (0, 0); (1, 1); (1, 2); (2, 3); (3, 5); (4, 6); (4, 7); (5, 7); (6, 8); (6, 9); (7, 10)].

Definition whatwg_renumbering : list (string * list (nat * nat)) := [
  ("Initial", renum_Initial);
  ("BeforeHtml", renum_BeforeHtml);
  ("BeforeHead", renum_BeforeHead);
  ("InHead", renum_InHead);
  ("InHeadNoscript", renum_InHeadNoscript);
  ("AfterHead", renum_AfterHead);
  ("InBody", renum_InBody);
  ("Text", renum_Text);
  ("InTable", renum_InTable);
  ("InTableText", renum_InTableText);
  ("InCaption", renum_InCaption);
  ("InColumnGroup", renum_InColumnGroup);
  ("InTableBody", renum_InTableBody);
  ("InRow", renum_InRow);
  ("InCell", renum_InCell);
  ("InTemplate", renum_InTemplate);
  ("AfterBody", renum_AfterBody);
  ("InFrameset", renum_InFrameset);
  ("AfterFrameset", renum_AfterFrameset);
  ("AfterAfterBody", renum_AfterAfterBody);
  ("AfterAfterFrameset", renum_AfterAfterFrameset);
  ("Foreign", renum_Foreign)].

(* ------------------------------------------------------------------ LEGACY: the two modes removed in 2025 *)
Definition legacy_cases_InSelect : list scase := [
  (* 0 *) C "U+0000: ignore" [ANull];
  (* 1 *) C "any other character" [AChars None];
  (* 2 *) C "comment" [AComment];
  (* 3 *) C "DOCTYPE" [ADoctype];
  (* 4 *) C "<html>" (starts ["html"]);
  (* 5 *) C "<option>" (starts ["option"]);
  (* 6 *) C "<optgroup>" (starts ["optgroup"]);
  (* 7 *) C "<hr>" (starts ["hr"]);
  (* 8 *) C "</optgroup>" (ends ["optgroup"]);
  (* 9 *) C "</option>" (ends ["option"]);
  (* 10 *) C "</select>" (ends ["select"]);
  (* 11 *) C "<select>" (starts ["select"]);
  (* 12 *) C "<input> <keygen> <textarea>" (starts ["input"; "keygen"; "textarea"]);
  (* 13 *) C "<script> <template> </template>" (starts ["script"; "template"] ++ ends ["template"]);
  (* 14 *) C "EOF" [AEof];
  (* 15 *) C "anything else: ignore" [AWild]].
Definition legacy_cases_InSelectInTable : list scase := [
  (* 0 *) C "<caption> <table> <tbody> <tfoot> <thead> <tr> <td> <th>"
            (starts ["caption"; "table"; "tbody"; "tfoot"; "thead"; "tr"; "td"; "th"]);
  (* 1 *) C "</caption> ... </th>" (ends ["caption"; "table"; "tbody"; "tfoot"; "thead"; "tr"; "td"; "th"]);
  (* 2 *) C "anything else: in select" [AWild]].
