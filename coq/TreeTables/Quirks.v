(* DOCTYPE -> quirks mode: the decision of 13.2.6.4.1 of the WHATWG standard as a function over the standard's
   identifier lists (WhatwgLists.v), and the lemmas that connect it with the evaluation of a regenerated decision
   list (TableChecks.eval_quirks).  No table of the Rust code is mentioned here. *)
From Coq Require Import String List Bool Arith Ascii.
From HV Require Import TreeTables.Types TreeTables.TableChecks TreeTables.WhatwgLists.
Import ListNotations.
Local Open Scope string_scope.
Local Open Scope list_scope.


(* The text of the standard: "if the document is not an iframe srcdoc document, and the parser cannot change the mode
   flag is false, and the DOCTYPE token matches one of the conditions in the following list, then set the Document
   to quirks mode: force-quirks flag on / name is not "html" / public identifier is set to one of 3 / system
   identifier is set to ... / public identifier starts with one of 55 / the system identifier is missing and the
   public identifier starts with one of 2.  Otherwise, if [same preamble] ... limited-quirks mode: public
   identifier starts with one of 2 / the system identifier is not missing and the public identifier starts with
   one of 2."   (the "parser cannot change the mode flag" is false for every parser html5ever creates) *)
Definition quirks_mode_over (PI SI PQ PL PH : list string) (d : doctype) (srcdoc : bool) : qmode :=
  let pub_is l := match dt_public d with Some p => smem (lower p) l | None => false end in
  let sys_is l := match dt_system d with Some p => smem (lower p) l | None => false end in
  let pub_pfx l := match dt_public d with Some p => has_prefix_in l (lower p) | None => false end in
  let sys_missing := match dt_system d with None => true | Some _ => false end in
  if negb srcdoc &&
     (dt_force d
      || negb (opt_eqb String.eqb (dt_name d) (Some "html"))
      || pub_is PI
      || sys_is SI
      || pub_pfx PQ
      || (sys_missing && pub_pfx PH))
  then QQuirks
  else if negb srcdoc && (pub_pfx PL || (negb sys_missing && pub_pfx PH))
  then QLimitedQuirks
  else QNoQuirks.

(* comparisons are ASCII case-insensitive: the identifier and the list entries are lowercased *)
Definition whatwg_quirks_mode : doctype -> bool -> qmode :=
  quirks_mode_over (map lower whatwg_quirks_public_ids) (map lower whatwg_quirks_system_ids)
                   (map lower whatwg_quirks_public_prefixes) (map lower whatwg_limited_quirks_public_prefixes)
                   (map lower whatwg_html401_public_prefixes).

(* the standard's lists under the table names of data.rs, lowercased (what a case-insensitive comparison of the
   lowercased identifier needs) *)
Definition whatwg_quirks_tables : list (string * list string) := [
  ("QUIRKY_PUBLIC_PREFIXES", map lower whatwg_quirks_public_prefixes);
  ("QUIRKY_PUBLIC_MATCHES", map lower whatwg_quirks_public_ids);
  ("QUIRKY_SYSTEM_MATCHES", map lower whatwg_quirks_system_ids);
  ("LIMITED_QUIRKY_PUBLIC_PREFIXES", map lower whatwg_limited_quirks_public_prefixes);
  ("HTML4_PUBLIC_PREFIXES", map lower whatwg_html401_public_prefixes)].

(* ------------------------------------------------------------------ prefixes *)
Lemma prefix_compat : forall a b s, String.prefix a s = true -> String.prefix b s = true ->
  String.prefix a b = true \/ String.prefix b a = true.
Proof.
  induction a as [|c a IH]; intros b s Ha Hb.
  - left. destruct b; reflexivity.
  - destruct b as [|c' b]; [right; reflexivity|].
    destruct s as [|c'' s]; [discriminate|]. simpl in Ha, Hb.
    destruct (ascii_dec c c'') as [E1|N1]; [|discriminate].
    destruct (ascii_dec c' c'') as [E2|N2]; [|discriminate].
    subst. destruct (IH b s Ha Hb) as [H|H]; [left|right]; simpl;
      destruct (ascii_dec c'' c'') as [_|N]; try exact H; now elim N.
Qed.

Definition incompatible (l1 l2 : list string) : bool :=
  forallb (fun a => forallb (fun b => negb (String.prefix a b || String.prefix b a)) l2) l1.

Lemma incompatible_sound : forall l1 l2 s, incompatible l1 l2 = true ->
  has_prefix_in l1 s = true -> has_prefix_in l2 s = false.
Proof.
  intros l1 l2 s H H1. unfold has_prefix_in in *. apply existsb_exists in H1. destruct H1 as [a [Ia Pa]].
  destruct (existsb (fun p => String.prefix p s) l2) eqn:E; [|reflexivity].
  apply existsb_exists in E. destruct E as [b [Ib Pb]].
  unfold incompatible in H. rewrite forallb_forall in H. specialize (H a Ia). rewrite forallb_forall in H.
  specialize (H b Ib). apply negb_true_iff in H. apply orb_false_iff in H. destruct H as [H1 H2].
  destruct (prefix_compat a b s Pa Pb); congruence.
Qed.

(* ------------------------------------------------------------------ the decision list of WhatwgLists = the function *)
Lemma whatwg_limited_html401_incompatible :
  incompatible (map lower whatwg_limited_quirks_public_prefixes) (map lower whatwg_html401_public_prefixes) = true.
Proof. vm_compute. reflexivity. Qed.

Section Generic.
Variables PI SI PQ PL PH : list string.
Hypothesis LH : incompatible PL PH = true.
Definition tables_over : list (string * list string) := [
  ("QUIRKY_PUBLIC_PREFIXES", PQ); ("QUIRKY_PUBLIC_MATCHES", PI); ("QUIRKY_SYSTEM_MATCHES", SI);
  ("LIMITED_QUIRKY_PUBLIC_PREFIXES", PL); ("HTML4_PUBLIC_PREFIXES", PH)].

Lemma decision_list_is_function_over : forall d srcdoc,
  eval_quirks tables_over whatwg_quirks_decision d srcdoc = quirks_mode_over PI SI PQ PL PH d srcdoc.
Proof.
  intros d srcdoc. unfold quirks_mode_over, whatwg_quirks_decision, eval_quirks, qcond_holds, qres_value.
  change (table_named tables_over "QUIRKY_PUBLIC_MATCHES") with PI.
  change (table_named tables_over "QUIRKY_SYSTEM_MATCHES") with SI.
  change (table_named tables_over "QUIRKY_PUBLIC_PREFIXES") with PQ.
  change (table_named tables_over "LIMITED_QUIRKY_PUBLIC_PREFIXES") with PL.
  change (table_named tables_over "HTML4_PUBLIC_PREFIXES") with PH.
  destruct srcdoc; simpl; [reflexivity|].
  destruct (dt_force d); simpl; [reflexivity|].
  destruct (opt_eqb String.eqb (dt_name d) (Some "html")); simpl; [|reflexivity].
  destruct (dt_public d) as [p|]; simpl.
  - destruct (smem (lower p) PI); simpl; [reflexivity|].
    assert (forall X : bool,
      (if X then QQuirks else
        if has_prefix_in PQ (lower p) then QQuirks else
        if has_prefix_in PL (lower p) then QLimitedQuirks else
        if has_prefix_in PH (lower p)
        then match dt_system d with None => QQuirks | Some _ => QLimitedQuirks end else QNoQuirks) =
      (if X || has_prefix_in PQ (lower p)
            || (match dt_system d with None => true | Some _ => false end && has_prefix_in PH (lower p)) then QQuirks else
        if has_prefix_in PL (lower p)
           || (negb match dt_system d with None => true | Some _ => false end && has_prefix_in PH (lower p))
        then QLimitedQuirks else QNoQuirks)) as K.
    { intros X. destruct X; simpl; [reflexivity|].
      destruct (has_prefix_in PQ (lower p)); simpl; [reflexivity|].
      destruct (has_prefix_in PL (lower p)) eqn:L; simpl.
      - rewrite (incompatible_sound _ _ _ LH L). rewrite andb_false_r. reflexivity.
      - destruct (has_prefix_in PH (lower p)); simpl; destruct (dt_system d); reflexivity. }
    destruct (dt_system d) as [sy|] eqn:Es; simpl.
    + exact (K (smem (lower sy) SI)).
    + exact (K false).
  - destruct (dt_system d) as [sy|]; simpl; [|reflexivity].
    destruct (smem (lower sy) SI); reflexivity.
Qed.
End Generic.

Theorem whatwg_decision_list_is_function : forall d srcdoc,
  eval_quirks whatwg_quirks_tables whatwg_quirks_decision d srcdoc = whatwg_quirks_mode d srcdoc.
Proof.
  intros d srcdoc. unfold whatwg_quirks_mode.
  rewrite <- (decision_list_is_function_over _ _ _ _ _ whatwg_limited_html401_incompatible). reflexivity.
Qed.

(* ------------------------------------------------------------------ evaluation only depends on the tables as sets *)
Definition tables_equiv (T T' : list (string * list string)) : Prop :=
  forall t x, smem x (table_named T t) = smem x (table_named T' t).

Lemma qcond_holds_ext : forall T T' d s c, tables_equiv T T' -> qcond_holds T d s c = qcond_holds T' d s c.
Proof.
  intros T T' d s c H. destruct c; simpl; try reflexivity.
  - destruct (dt_public d); [apply H | reflexivity].
  - destruct (dt_system d); [apply H | reflexivity].
  - destruct (dt_public d); [|reflexivity]. unfold has_prefix_in.
    apply (existsb_mem_ext String.eqb string_eqb_ok). intro x. apply H.
Qed.

Lemma eval_quirks_ext : forall T T' arms d s, tables_equiv T T' -> eval_quirks T arms d s = eval_quirks T' arms d s.
Proof.
  intros T T' arms d s H. induction arms as [|[c r] t IH]; simpl; [reflexivity|].
  rewrite (qcond_holds_ext T T' d s c H). now rewrite IH.
Qed.

(* the position of the srcdoc arm does not matter for a document that is not an iframe srcdoc document *)
Definition not_srcdoc (a : qcond * qres) : bool := negb (qcond_eqb (fst a) QcSrcdoc).
Lemma eval_quirks_drop_srcdoc : forall T arms d,
  eval_quirks T arms d false = eval_quirks T (filter not_srcdoc arms) d false.
Proof.
  intros T arms d. induction arms as [|[c r] t IH]; simpl; [reflexivity|].
  unfold not_srcdoc at 1; simpl. destruct c; simpl; try rewrite <- IH; reflexivity.
Qed.
