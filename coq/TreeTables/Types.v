(* Shared data types of the tree-builder tables (C02, table part).
   Used both by the GENERATED files Gen/GenTagSets.v, GenQuirks.v, GenAdjust.v, GenDispatch.v
   (written by gen/gen_treetables.py from the Rust source) and by the hand-written
   TreeTables/WhatwgLists.v / WhatwgDispatch.v (the lists of the WHATWG HTML standard).
   Names are Coq [string]s (all names occurring here are printable ASCII). *)
From Coq Require Import String List Bool.
Import ListNotations.
Local Open Scope string_scope.

(* ------------------------------------------------------------------ namespaces / names *)
Inductive ns := NsNone | NsHtml | NsMathml | NsSvg | NsXlink | NsXml | NsXmlns.

Definition ns_eqb (a b : ns) : bool :=
  match a, b with
  | NsNone, NsNone | NsHtml, NsHtml | NsMathml, NsMathml | NsSvg, NsSvg
  | NsXlink, NsXlink | NsXml, NsXml | NsXmlns, NsXmlns => true
  | _, _ => false
  end.

Lemma ns_eqb_spec : forall a b, ns_eqb a b = true <-> a = b.
Proof. intros [] []; simpl; split; intro H; try reflexivity; try discriminate. Qed.

(* expanded name = (namespace, local name) *)
Definition ename := (ns * string)%type.
(* qualified name of an attribute after adjustment = (prefix, namespace, local) *)
Definition qname := (option string * ns * string)%type.

(* ------------------------------------------------------------------ generic equality helpers *)
Definition opt_eqb {A} (e : A -> A -> bool) (a b : option A) : bool :=
  match a, b with None, None => true | Some x, Some y => e x y | _, _ => false end.

Definition pair_eqb {A B} (ea : A -> A -> bool) (eb : B -> B -> bool) (x y : A * B) : bool :=
  ea (fst x) (fst y) && eb (snd x) (snd y).

Fixpoint list_eqb {A} (e : A -> A -> bool) (a b : list A) : bool :=
  match a, b with
  | [], [] => true
  | x :: a', y :: b' => e x y && list_eqb e a' b'
  | _, _ => false
  end.

Definition eqb_ok {A} (e : A -> A -> bool) : Prop := forall a b, e a b = true <-> a = b.

Lemma string_eqb_ok : eqb_ok String.eqb.
Proof. intros a b. apply String.eqb_eq. Qed.

Lemma ns_eqb_ok : eqb_ok ns_eqb.
Proof. exact ns_eqb_spec. Qed.

Lemma bool_eqb_ok : eqb_ok Bool.eqb.
Proof. intros [] []; simpl; split; intro H; try reflexivity; try discriminate. Qed.

Lemma nat_eqb_ok : eqb_ok Nat.eqb.
Proof. intros a b. apply PeanoNat.Nat.eqb_eq. Qed.

Lemma opt_eqb_ok {A} (e : A -> A -> bool) : eqb_ok e -> eqb_ok (opt_eqb e).
Proof.
  intros H [x|] [y|]; simpl; split; intro E; try reflexivity; try discriminate.
  - apply H in E. now subst.
  - inversion E. now apply H.
Qed.

Lemma pair_eqb_ok {A B} (ea : A -> A -> bool) (eb : B -> B -> bool) :
  eqb_ok ea -> eqb_ok eb -> eqb_ok (pair_eqb ea eb).
Proof.
  intros Ha Hb [a1 b1] [a2 b2]; unfold pair_eqb; simpl. split; intro E.
  - apply andb_true_iff in E. destruct E as [E1 E2]. apply Ha in E1. apply Hb in E2. now subst.
  - inversion E; subst. apply andb_true_iff. split; [now apply Ha | now apply Hb].
Qed.

Lemma list_eqb_ok {A} (e : A -> A -> bool) : eqb_ok e -> eqb_ok (list_eqb e).
Proof.
  intros H a. induction a as [|x a IH]; intros [|y b]; simpl; split; intro E;
    try reflexivity; try discriminate.
  - apply andb_true_iff in E. destruct E as [E1 E2]. apply H in E1. apply IH in E2. now subst.
  - inversion E; subst. apply andb_true_iff. split; [now apply H | now apply IH].
Qed.

Definition ename_eqb : ename -> ename -> bool := pair_eqb ns_eqb String.eqb.
Lemma ename_eqb_ok : eqb_ok ename_eqb.
Proof. apply pair_eqb_ok; [apply ns_eqb_ok | apply string_eqb_ok]. Qed.

Definition qname_eqb : qname -> qname -> bool :=
  pair_eqb (pair_eqb (opt_eqb String.eqb) ns_eqb) String.eqb.
Lemma qname_eqb_ok : eqb_ok qname_eqb.
Proof.
  apply pair_eqb_ok; [apply pair_eqb_ok; [apply opt_eqb_ok, string_eqb_ok | apply ns_eqb_ok] | apply string_eqb_ok].
Qed.

(* ------------------------------------------------------------------ dispatch census *)
(* split status of a run of character tokens inside html5ever (Token::Characters(SplitStatus, _));
   on the side of the standard: SpWs = "U+0009, U+000A, U+000C, U+000D or U+0020", SpNonWs = any other
   character except U+0000 (which is the separate token kind KNull). *)
Inductive split := SpNotSplit | SpWs | SpNonWs.

Definition split_eqb (a b : split) : bool :=
  match a, b with SpNotSplit, SpNotSplit | SpWs, SpWs | SpNonWs, SpNonWs => true | _, _ => false end.
Lemma split_eqb_ok : eqb_ok split_eqb.
Proof. intros [] []; simpl; split; intro H; try reflexivity; try discriminate. Qed.

(* what the dispatch of one insertion mode looks at *)
Inductive tokkey :=
| KChars (s : split) | KNull | KComment | KDoctype | KEof
| KStart (n : string) | KEnd (n : string).

(* one alternative of an arm head / of a "case" of the standard *)
Inductive atom :=
| AChars (s : option split)       (* None: any character run *)
| ANull | AComment | ADoctype | AEof
| AStart (n : string) | AEnd (n : string)
| AAnyStart | AAnyEnd
| AWild.                          (* `token =>`, `_ =>`, "Anything else" *)

Definition atom_matches (a : atom) (k : tokkey) : bool :=
  match a, k with
  | AWild, _ => true
  | AChars None, KChars _ => true
  | AChars (Some s), KChars s' => split_eqb s s'
  | ANull, KNull | AComment, KComment | ADoctype, KDoctype | AEof, KEof => true
  | AStart n, KStart m | AEnd n, KEnd m => String.eqb n m
  | AAnyStart, KStart _ | AAnyEnd, KEnd _ => true
  | _, _ => false
  end.

Definition atom_eqb (a b : atom) : bool :=
  match a, b with
  | AChars x, AChars y => opt_eqb split_eqb x y
  | ANull, ANull | AComment, AComment | ADoctype, ADoctype | AEof, AEof
  | AAnyStart, AAnyStart | AAnyEnd, AAnyEnd | AWild, AWild => true
  | AStart n, AStart m | AEnd n, AEnd m => String.eqb n m
  | _, _ => false
  end.

(* an arm head of rules.rs = the list of its `|` alternatives *)
Definition arm := list atom.

(* a case of the standard.  [ckind]: Always = unconditional; IfCond = the case carries a condition that is not
   a property of the token alone ("if the scripting flag is enabled", "if the current node is ..."), so a
   matching token may also fall through to a later case; ElseCond = the complementary condition of the
   preceding IfCond case(s) with the same head (the search stops there). *)
Inductive ckind := Always | IfCond | ElseCond.
Record scase := { sc_label : string; sc_kind : ckind; sc_atoms : list atom }.

(* ------------------------------------------------------------------ quirks decision list *)
Inductive qmode := QNoQuirks | QLimitedQuirks | QQuirks.
Definition qmode_eqb (a b : qmode) : bool :=
  match a, b with QNoQuirks, QNoQuirks | QLimitedQuirks, QLimitedQuirks | QQuirks, QQuirks => true | _, _ => false end.

Inductive qcond :=
| QcForceQuirks                    (* the token's force-quirks flag is on *)
| QcNameNotHtml                    (* the name is not "html" *)
| QcSrcdoc                         (* the document is an iframe srcdoc document *)
| QcPublicIs (tbl : string)        (* public id (ASCII-lowercased) is a member of the named table *)
| QcSystemIs (tbl : string)
| QcPublicPrefix (tbl : string)    (* public id (ASCII-lowercased) starts with a member of the named table *)
| QcAlways.

Inductive qres :=
| QrMode (m : qmode)
| QrBySystem (if_missing if_present : qmode).   (* depends on whether the system id is missing *)

Definition qcond_eqb (a b : qcond) : bool :=
  match a, b with
  | QcForceQuirks, QcForceQuirks | QcNameNotHtml, QcNameNotHtml | QcSrcdoc, QcSrcdoc | QcAlways, QcAlways => true
  | QcPublicIs x, QcPublicIs y | QcSystemIs x, QcSystemIs y | QcPublicPrefix x, QcPublicPrefix y => String.eqb x y
  | _, _ => false
  end.
Definition qres_eqb (a b : qres) : bool :=
  match a, b with
  | QrMode x, QrMode y => qmode_eqb x y
  | QrBySystem a1 a2, QrBySystem b1 b2 => qmode_eqb a1 b1 && qmode_eqb a2 b2
  | _, _ => false
  end.

(* ------------------------------------------------------------------ tokenizer state for a fragment context *)
Inductive tsel := TsData | TsRcdata | TsRawtext | TsScriptData | TsPlaintext
                | TsIfScripting (yes no : tsel).   (* depends on the scripting flag *)
Fixpoint tsel_eqb (a b : tsel) : bool :=
  match a, b with
  | TsData, TsData | TsRcdata, TsRcdata | TsRawtext, TsRawtext | TsScriptData, TsScriptData
  | TsPlaintext, TsPlaintext => true
  | TsIfScripting a1 a2, TsIfScripting b1 b2 => tsel_eqb a1 b1 && tsel_eqb a2 b2
  | _, _ => false
  end.
Lemma tsel_eqb_ok : eqb_ok tsel_eqb.
Proof.
  intros a. induction a; intros []; simpl; split; intro H; try reflexivity; try discriminate.
  - apply andb_true_iff in H. destruct H as [H1 H2]. apply IHa1 in H1. apply IHa2 in H2. now subst.
  - inversion H; subst. apply andb_true_iff. split; [now apply IHa1 | now apply IHa2].
Qed.
