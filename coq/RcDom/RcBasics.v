(* Accessor lemmas for the RcDom model, the abstraction function, and the
   ancestor relation over parent links. *)
From Coq Require Import List NArith Bool Arith Lia.
From HV Require Import Dom.DomSpec Dom.DomLemmas RcDom.RcModel.
Import ListNotations.

(* ---------- out-of-range reads ---------- *)
Lemma rkids_oob s p : rsize s <= p -> rkids s p = [].
Proof. intros H. unfold rkids. rewrite nth_overflow; auto. Qed.
Lemma rparent_oob s p : rsize s <= p -> rparent s p = None.
Proof. intros H. unfold rparent. rewrite nth_overflow; auto. Qed.
Lemma rkids_lt s p c : In c (rkids s p) -> p < rsize s.
Proof.
  intros H. destruct (Nat.lt_ge_cases p (rsize s)); auto.
  rewrite rkids_oob in H; auto. destruct H.
Qed.

(* ---------- setters ---------- *)
Lemma rsize_set_parent s n p : rsize (set_parent s n p) = rsize s.
Proof. unfold rsize, set_parent; simpl. apply upd_length. Qed.
Lemma rsize_set_rkids s n l : rsize (set_rkids s n l) = rsize s.
Proof. unfold rsize, set_rkids; simpl. apply upd_length. Qed.
Lemma rsize_set_rdata s n d : rsize (set_rdata s n d) = rsize s.
Proof. unfold rsize, set_rdata; simpl. apply upd_length. Qed.
Lemma rsize_ralloc s d p ks : rsize (ralloc s d p ks) = S (rsize s).
Proof. unfold rsize, ralloc; simpl. rewrite app_length; simpl; lia. Qed.

Lemma rparent_set_parent_eq s n p : n < rsize s -> rparent (set_parent s n p) n = p.
Proof. intros H. unfold rparent, set_parent; simpl. rewrite nth_upd_eq; auto. Qed.
Lemma rparent_set_parent_neq s n p m : m <> n -> rparent (set_parent s n p) m = rparent s m.
Proof. intros H. unfold rparent, set_parent; simpl. rewrite nth_upd_neq; auto. Qed.
Lemma rkids_set_parent s n p m : rkids (set_parent s n p) m = rkids s m.
Proof.
  unfold rkids, set_parent; simpl. destruct (Nat.eq_dec n m).
  - subst. destruct (Nat.lt_ge_cases m (length (r_nodes s))).
    + rewrite nth_upd_eq; auto.
    + rewrite upd_oob; auto.
  - rewrite nth_upd_neq; auto.
Qed.
Lemma rdata_set_parent s n p m : rdata (set_parent s n p) m = rdata s m.
Proof.
  unfold rdata, set_parent; simpl. destruct (Nat.eq_dec n m).
  - subst. destruct (Nat.lt_ge_cases m (length (r_nodes s))).
    + rewrite nth_upd_eq; auto.
    + rewrite upd_oob; auto.
  - rewrite nth_upd_neq; auto.
Qed.

Lemma rkids_set_rkids_eq s n l : n < rsize s -> rkids (set_rkids s n l) n = l.
Proof. intros H. unfold rkids, set_rkids; simpl. rewrite nth_upd_eq; auto. Qed.
Lemma rkids_set_rkids_neq s n l m : m <> n -> rkids (set_rkids s n l) m = rkids s m.
Proof. intros H. unfold rkids, set_rkids; simpl. rewrite nth_upd_neq; auto. Qed.
Lemma rparent_set_rkids s n l m : rparent (set_rkids s n l) m = rparent s m.
Proof.
  unfold rparent, set_rkids; simpl. destruct (Nat.eq_dec n m).
  - subst. destruct (Nat.lt_ge_cases m (length (r_nodes s))).
    + rewrite nth_upd_eq; auto.
    + rewrite upd_oob; auto.
  - rewrite nth_upd_neq; auto.
Qed.
Lemma rdata_set_rkids s n l m : rdata (set_rkids s n l) m = rdata s m.
Proof.
  unfold rdata, set_rkids; simpl. destruct (Nat.eq_dec n m).
  - subst. destruct (Nat.lt_ge_cases m (length (r_nodes s))).
    + rewrite nth_upd_eq; auto.
    + rewrite upd_oob; auto.
  - rewrite nth_upd_neq; auto.
Qed.

Lemma rdata_set_rdata_eq s n d : n < rsize s -> rdata (set_rdata s n d) n = d.
Proof. intros H. unfold rdata, set_rdata; simpl. rewrite nth_upd_eq; auto. Qed.
Lemma rdata_set_rdata_neq s n d m : m <> n -> rdata (set_rdata s n d) m = rdata s m.
Proof. intros H. unfold rdata, set_rdata; simpl. rewrite nth_upd_neq; auto. Qed.
Lemma rparent_set_rdata s n d m : rparent (set_rdata s n d) m = rparent s m.
Proof.
  unfold rparent, set_rdata; simpl. destruct (Nat.eq_dec n m).
  - subst. destruct (Nat.lt_ge_cases m (length (r_nodes s))).
    + rewrite nth_upd_eq; auto.
    + rewrite upd_oob; auto.
  - rewrite nth_upd_neq; auto.
Qed.
Lemma rkids_set_rdata s n d m : rkids (set_rdata s n d) m = rkids s m.
Proof.
  unfold rkids, set_rdata; simpl. destruct (Nat.eq_dec n m).
  - subst. destruct (Nat.lt_ge_cases m (length (r_nodes s))).
    + rewrite nth_upd_eq; auto.
    + rewrite upd_oob; auto.
  - rewrite nth_upd_neq; auto.
Qed.

Lemma rnth_ralloc_new s d p ks :
  nth (rsize s) (r_nodes (ralloc s d p ks)) rdflt = {| r_data := d ; r_parent := p ; r_kids := ks |}.
Proof. unfold ralloc, rsize; simpl. apply nth_middle. Qed.
Lemma rnth_ralloc_old s d p ks m :
  m <> rsize s -> nth m (r_nodes (ralloc s d p ks)) rdflt = nth m (r_nodes s) rdflt.
Proof. intros H. unfold ralloc; simpl. apply nth_app_old; auto. Qed.

Lemma rdata_ralloc_new s d p ks : rdata (ralloc s d p ks) (rsize s) = d.
Proof. unfold rdata. rewrite rnth_ralloc_new; auto. Qed.
Lemma rparent_ralloc_new s d p ks : rparent (ralloc s d p ks) (rsize s) = p.
Proof. unfold rparent. rewrite rnth_ralloc_new; auto. Qed.
Lemma rkids_ralloc_new s d p ks : rkids (ralloc s d p ks) (rsize s) = ks.
Proof. unfold rkids. rewrite rnth_ralloc_new; auto. Qed.
Lemma rdata_ralloc_old s d p ks m : m <> rsize s -> rdata (ralloc s d p ks) m = rdata s m.
Proof. intros H. unfold rdata. rewrite rnth_ralloc_old; auto. Qed.
Lemma rparent_ralloc_old s d p ks m : m <> rsize s -> rparent (ralloc s d p ks) m = rparent s m.
Proof. intros H. unfold rparent. rewrite rnth_ralloc_old; auto. Qed.
Lemma rkids_ralloc_old s d p ks m : m <> rsize s -> rkids (ralloc s d p ks) m = rkids s m.
Proof. intros H. unfold rkids. rewrite rnth_ralloc_old; auto. Qed.

(* ---------- abstraction ---------- *)
Lemma size_abs s : size (abs s) = rsize s.
Proof. unfold size, abs, rsize; simpl. apply map_length. Qed.
Lemma kids_abs s n : kids (abs s) n = rkids s n.
Proof.
  unfold kids, abs, rkids; simpl.
  change dflt_node with ((fun x => {| n_data := r_data x ; n_kids := r_kids x |}) rdflt).
  rewrite map_nth. reflexivity.
Qed.
Lemma data_abs s n : data_of (abs s) n = rdata s n.
Proof.
  unfold data_of, abs, rdata; simpl.
  change dflt_node with ((fun x => {| n_data := r_data x ; n_kids := r_kids x |}) rdflt).
  rewrite map_nth. reflexivity.
Qed.
Lemma resolve_abs s h : resolve (abs s) h = rresolve s h.
Proof. reflexivity. Qed.

Lemma upd_id {A} i (l : list A) : upd i (fun x => x) l = l.
Proof. revert i; induction l; intros [|i]; simpl; auto. f_equal; auto. Qed.

Lemma abs_set_parent s n p : abs (set_parent s n p) = abs s.
Proof.
  unfold abs, set_parent; simpl. f_equal.
  rewrite (map_upd _ _ (fun x => x)); [apply upd_id|reflexivity].
Qed.
Lemma abs_set_rkids s n l : abs (set_rkids s n l) = set_kids (abs s) n l.
Proof.
  unfold abs, set_rkids, set_kids, set_nodes; simpl. f_equal.
  apply map_upd. reflexivity.
Qed.
Lemma abs_set_rdata s n d : abs (set_rdata s n d) = set_data (abs s) n d.
Proof.
  unfold abs, set_rdata, set_data, set_nodes; simpl. f_equal.
  apply map_upd. reflexivity.
Qed.
Lemma abs_ralloc s d p ks : abs (ralloc s d p ks) = alloc (abs s) d ks.
Proof.
  unfold abs, ralloc, alloc, set_nodes; simpl. f_equal. rewrite map_app. reflexivity.
Qed.
Lemma abs_radd_name s n : abs (radd_name s n) = add_name (abs s) n.
Proof. reflexivity. Qed.

(* ---------- ancestors through a parent function ---------- *)
Inductive anc (par : nid -> option nid) : nid -> nid -> Prop :=
| anc_parent a n : par n = Some a -> anc par a n
| anc_step a m n : par n = Some m -> anc par a m -> anc par a n.
Definition ancs (par : nid -> option nid) (a n : nid) : Prop := a = n \/ anc par a n.

Lemma anc_trans par a b c : anc par a b -> anc par b c -> anc par a c.
Proof.
  intros Hab Hbc. induction Hbc.
  - eapply anc_step; eauto.
  - eapply anc_step; eauto.
Qed.
Lemma ancs_trans par a b c : ancs par a b -> ancs par b c -> ancs par a c.
Proof.
  intros [->|H1] [->|H2]; try (left; reflexivity); try (right; assumption).
  right. eapply anc_trans; eauto.
Qed.
Lemma ancs_up par a m n : par n = Some m -> ancs par a m -> anc par a n.
Proof. intros H [->|H1]; [apply anc_parent|eapply anc_step]; eauto. Qed.

Lemma anc_down par a k b : par k = Some a -> ancs par k b -> anc par a b.
Proof.
  intros H [->|H1]; [apply anc_parent; auto|].
  eapply anc_trans; [apply anc_parent; eauto|auto].
Qed.

Lemma anc_ext par par' a n : (forall x, par' x = par x) -> anc par' a n -> anc par a n.
Proof.
  intros E H. induction H.
  - apply anc_parent. rewrite <- E; auto.
  - eapply anc_step; eauto. rewrite <- E; auto.
Qed.

(* a parentless node [c] gets the parent [p] *)
Lemma anc_attach par par' c p :
  (forall n, par' n = if Nat.eqb n c then Some p else par n) ->
  ~ ancs par c p ->
  forall a n, anc par' a n -> anc par a n \/ (ancs par c n /\ ancs par a p).
Proof.
  intros E Hcp a n H. induction H.
  - rewrite E in H. destruct (Nat.eqb n c) eqn:Q.
    + apply Nat.eqb_eq in Q. inversion H; subst. right. split; left; auto.
    + left. apply anc_parent; auto.
  - rewrite E in H. destruct (Nat.eqb n c) eqn:Q.
    + apply Nat.eqb_eq in Q. inversion H; subst.
      destruct IHanc as [I|[I _]].
      * right. split; [left; auto|right; auto].
      * contradiction.
    + destruct IHanc as [I|[I J]].
      * left. eapply anc_step; eauto.
      * right. split; auto. right. eapply ancs_up; eauto.
Qed.

Lemma acyclic_attach par par' c p :
  (forall n, par' n = if Nat.eqb n c then Some p else par n) ->
  ~ ancs par c p -> (forall n, ~ anc par n n) -> forall n, ~ anc par' n n.
Proof.
  intros E Hcp Hac n H.
  destruct (anc_attach par par' c p E Hcp n n H) as [I|[I J]].
  - exact (Hac n I).
  - apply Hcp. eapply ancs_trans; eauto.
Qed.

(* a node loses its parent *)
Lemma anc_detach par par' t :
  (forall n, par' n = if Nat.eqb n t then None else par n) ->
  forall a n, anc par' a n -> anc par a n.
Proof.
  intros E a n H. induction H.
  - rewrite E in H. destruct (Nat.eqb n t); [discriminate|]. apply anc_parent; auto.
  - rewrite E in H. destruct (Nat.eqb n t); [discriminate|]. eapply anc_step; eauto.
Qed.

(* all children [ks] of [a] get the parent [b] *)
Lemma anc_reparent par par' ks a b :
  (forall n, par' n = if mem n ks then Some b else par n) ->
  (forall k, In k ks -> par k = Some a) ->
  ~ ancs par a b ->
  forall x n, anc par' x n ->
  anc par x n \/ (exists k, In k ks /\ ancs par k n /\ ancs par x b).
Proof.
  intros E Hk Hab x n H. induction H as [x n H|x m n H H1 IH].
  - rewrite E in H. destruct (mem n ks) eqn:Q.
    + apply mem_In in Q. inversion H; subst. right. exists n. split; [auto|]. split; left; auto.
    + left. apply anc_parent; auto.
  - rewrite E in H. destruct (mem n ks) eqn:Q.
    + apply mem_In in Q. inversion H; subst.
      destruct IH as [I|[k [K1 [K2 _]]]].
      * right. exists n. split; [auto|]. split; [left; auto|right; auto].
      * exfalso. apply Hab. right. eapply anc_down; eauto.
    + destruct IH as [I|[k [K1 [K2 K3]]]].
      * left. eapply anc_step; eauto.
      * right. exists k. split; [auto|]. split; [right; eapply ancs_up; eauto|auto].
Qed.

Lemma acyclic_reparent par par' ks a b :
  (forall n, par' n = if mem n ks then Some b else par n) ->
  (forall k, In k ks -> par k = Some a) ->
  ~ ancs par a b -> (forall n, ~ anc par n n) -> forall n, ~ anc par' n n.
Proof.
  intros E Hk Hab Hac n H.
  destruct (anc_reparent par par' ks a b E Hk Hab n n H) as [I|[k [K1 [K2 K3]]]].
  - exact (Hac n I).
  - apply Hab. right. eapply anc_down; [apply Hk; eauto|]. eapply ancs_trans; eauto.
Qed.

(* the fuelled upward walk of the contract is reliable when it answers "no" *)
Lemma reaches_up_sound d fuel c p :
  reaches_up d fuel c p = false -> ~ ancs (parent_of d) c p.
Proof.
  revert p; induction fuel; simpl; intros p H; [discriminate|].
  destruct (Nat.eqb p c) eqn:Q; [discriminate|]. apply Nat.eqb_neq in Q.
  intros [->|A]; [congruence|].
  destruct (parent_of d p) eqn:P.
  - apply (IHfuel n H). inversion A; subst.
    + left. congruence.
    + right. congruence.
  - inversion A; subst; congruence.
Qed.

(* ---------- find over an index range ---------- *)
Lemma find_unique {A} (f : A -> bool) l p :
  In p l -> f p = true -> (forall q, In q l -> f q = true -> q = p) -> find f l = Some p.
Proof.
  induction l; simpl; [tauto|]. intros HI Hp Hu.
  destruct (f a) eqn:E.
  - f_equal. apply Hu; auto.
  - destruct HI; [congruence|]. apply IHl; auto.
Qed.
Lemma find_none' {A} (f : A -> bool) l : (forall x, In x l -> f x = false) -> find f l = None.
Proof.
  induction l; simpl; auto. intros H. rewrite (H a) by auto. apply IHl; auto.
Qed.
