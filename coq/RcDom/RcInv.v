(* The representation invariant of the RcDom model and its preservation by the
   primitive state changes (allocate, attach, detach, re-parent, change data). *)
From Coq Require Import List NArith Bool Arith Lia.
From HV Require Import Dom.DomSpec Dom.DomLemmas RcDom.RcModel RcDom.RcBasics.
Import ListNotations.

Definition Anc (s : rc) : nid -> nid -> Prop := anc (rparent s).
Definition AncS (s : rc) : nid -> nid -> Prop := ancs (rparent s).

Record Inv (s : rc) : Prop := {
  i_size : 0 < rsize s ;
  i_doc0 : rdata s 0 = Document ;
  i_kids_lt : forall p c, In c (rkids s p) -> c < rsize s ;
  (* every node's parent link names exactly the node whose child list contains it *)
  i_parent : forall n p, rparent s n = Some p <-> In n (rkids s p) ;
  i_nodup : forall p, NoDup (rkids s p) ;
  i_names : forall h n, nth_error (r_names s) h = Some n -> n < rsize s ;
  i_tmpl : forall n nm a c ip, rdata s n = Element nm a (Some c) ip -> c < rsize s ;
  (* only documents and elements have children; a Document node is never a child *)
  i_container : forall p c, In c (rkids s p) -> is_container (rdata s p) = true ;
  i_child : forall p c, In c (rkids s p) -> rdata s c <> Document ;
  i_acyclic : forall n, ~ Anc s n n
}.

Lemma NoDup_app' {A} (l1 l2 : list A) :
  NoDup l1 -> NoDup l2 -> (forall x, In x l1 -> ~ In x l2) -> NoDup (l1 ++ l2).
Proof.
  induction l1; simpl; auto. intros H1 H2 H.
  inversion H1; subst. constructor.
  - rewrite in_app_iff. intros [I|I]; [tauto|]. apply (H a); auto.
  - apply IHl1; auto.
Qed.

(* the search-based parent of the specification is the parent link *)
Lemma parent_of_abs s n : Inv s -> parent_of (abs s) n = rparent s n.
Proof.
  intros I. unfold parent_of. rewrite size_abs.
  destruct (rparent s n) as [p|] eqn:E.
  - assert (Hin : In n (rkids s p)) by (apply (i_parent s I); auto).
    apply find_unique.
    + apply in_seq. pose proof (rkids_lt _ _ _ Hin). lia.
    + rewrite kids_abs. apply mem_In; auto.
    + intros q _ Hq. rewrite kids_abs in Hq. apply mem_In in Hq.
      apply (i_parent s I) in Hq. congruence.
  - apply find_none'. intros q _. rewrite kids_abs. apply mem_false.
    intros Hq. apply (i_parent s I) in Hq. congruence.
Qed.

Lemma ancs_abs s c p : Inv s -> ancs (parent_of (abs s)) c p -> AncS s c p.
Proof.
  intros I [->|H]; [left; auto|]. right.
  eapply anc_ext; [|exact H]. intros x. apply parent_of_abs; auto.
Qed.

Lemma no_kids_no_anc s a n : Inv s -> rkids s a = [] -> ~ Anc s a n.
Proof.
  intros I H A. induction A.
  - apply (i_parent s I) in H0. rewrite H in H0. destruct H0.
  - auto.
Qed.

(* ---------- allocation ---------- *)
Lemma inv_ralloc s d :
  Inv s ->
  (forall nm a c ip, d = Element nm a (Some c) ip -> c < S (rsize s)) ->
  Inv (ralloc s d None []).
Proof.
  intros I Hd.
  assert (Hold : forall p c, In c (rkids (ralloc s d None []) p) -> p <> rsize s /\ In c (rkids s p)).
  { intros p c H. destruct (Nat.eq_dec p (rsize s)) as [->|N].
    - rewrite rkids_ralloc_new in H. destruct H.
    - rewrite rkids_ralloc_old in H; auto. }
  constructor.
  - rewrite rsize_ralloc. lia.
  - pose proof (i_size s I). rewrite rdata_ralloc_old by lia. apply (i_doc0 s I).
  - intros p c H. apply Hold in H. destruct H as [_ H].
    apply (i_kids_lt s I) in H. rewrite rsize_ralloc. lia.
  - intros n p. split.
    + intros H. destruct (Nat.eq_dec n (rsize s)) as [->|N].
      * rewrite rparent_ralloc_new in H. discriminate.
      * rewrite rparent_ralloc_old in H by auto.
        apply (i_parent s I) in H. pose proof (rkids_lt _ _ _ H).
        rewrite rkids_ralloc_old by lia. auto.
    + intros H. apply Hold in H. destruct H as [_ H].
      pose proof (i_kids_lt s I _ _ H).
      rewrite rparent_ralloc_old by lia. apply (i_parent s I); auto.
  - intros p. destruct (Nat.eq_dec p (rsize s)) as [->|N].
    + rewrite rkids_ralloc_new. constructor.
    + rewrite rkids_ralloc_old by auto. apply (i_nodup s I).
  - intros h n H. simpl in H. apply (i_names s I) in H. rewrite rsize_ralloc. lia.
  - intros n nm a c ip H. rewrite rsize_ralloc. destruct (Nat.eq_dec n (rsize s)) as [->|N].
    + rewrite rdata_ralloc_new in H. eapply Hd; eauto.
    + rewrite rdata_ralloc_old in H by auto. apply (i_tmpl s I) in H. lia.
  - intros p c H. apply Hold in H. destruct H as [N H].
    rewrite rdata_ralloc_old by auto. eapply (i_container s I); eauto.
  - intros p c H. apply Hold in H. destruct H as [N H].
    pose proof (i_kids_lt s I _ _ H).
    rewrite rdata_ralloc_old by lia. eapply (i_child s I); eauto.
  - intros n A. apply (i_acyclic s I n).
    eapply anc_ext; [|exact A]. intros x.
    destruct (Nat.eq_dec x (rsize s)) as [->|N].
    + rewrite rparent_ralloc_new. symmetry. apply rparent_oob. lia.
    + apply rparent_ralloc_old; auto.
Qed.

(* ---------- a parentless node is attached below [p] ---------- *)
Lemma inv_attach s s' p c :
  Inv s ->
  rsize s' = rsize s -> r_names s' = r_names s -> (forall m, rdata s' m = rdata s m) ->
  (forall m, rparent s' m = if Nat.eqb m c then Some p else rparent s m) ->
  (forall m, m <> p -> rkids s' m = rkids s m) ->
  (forall x, In x (rkids s' p) <-> x = c \/ In x (rkids s p)) ->
  NoDup (rkids s' p) ->
  c < rsize s -> p < rsize s -> rparent s c = None ->
  is_container (rdata s p) = true -> rdata s c <> Document -> ~ AncS s c p ->
  Inv s'.
Proof.
  intros I Hsz Hnm Hd Hp Hk Hkp Hnd Hc Hpp Hpc Hcont Hdoc Hanc.
  assert (Hnot : forall q, ~ In c (rkids s q)).
  { intros q H. apply (i_parent s I) in H. congruence. }
  constructor.
  - rewrite Hsz. apply (i_size s I).
  - rewrite Hd. apply (i_doc0 s I).
  - intros q x H. rewrite Hsz. destruct (Nat.eq_dec q p) as [->|N].
    + apply Hkp in H. destruct H as [->|H]; auto. eapply (i_kids_lt s I); eauto.
    + rewrite Hk in H by auto. eapply (i_kids_lt s I); eauto.
  - intros n q. rewrite Hp. destruct (Nat.eqb n c) eqn:Q.
    + apply Nat.eqb_eq in Q. subst n. split.
      * intros H. inversion H; subst. apply Hkp. auto.
      * intros H. destruct (Nat.eq_dec q p) as [->|N]; auto.
        rewrite Hk in H by auto. exfalso. eapply Hnot; eauto.
    + apply Nat.eqb_neq in Q. rewrite (i_parent s I).
      destruct (Nat.eq_dec q p) as [->|N].
      * rewrite Hkp. split; auto. intros [H|H]; [congruence|auto].
      * rewrite Hk by auto. tauto.
  - intros q. destruct (Nat.eq_dec q p) as [->|N]; auto.
    rewrite Hk by auto. apply (i_nodup s I).
  - intros h n H. rewrite Hnm in H. rewrite Hsz. eapply (i_names s I); eauto.
  - intros n nm a x ip H. rewrite Hd in H. rewrite Hsz. eapply (i_tmpl s I); eauto.
  - intros q x H. rewrite Hd. destruct (Nat.eq_dec q p) as [->|N]; auto.
    rewrite Hk in H by auto. eapply (i_container s I); eauto.
  - intros q x H. rewrite Hd. destruct (Nat.eq_dec q p) as [->|N].
    + apply Hkp in H. destruct H as [->|H]; auto. eapply (i_child s I); eauto.
    + rewrite Hk in H by auto. eapply (i_child s I); eauto.
  - apply (acyclic_attach (rparent s) (rparent s') c p Hp Hanc). apply (i_acyclic s I).
Qed.

(* ---------- a node is detached from its parent ---------- *)
Lemma inv_detach s s' p t :
  Inv s ->
  rsize s' = rsize s -> r_names s' = r_names s -> (forall m, rdata s' m = rdata s m) ->
  (forall m, rparent s' m = if Nat.eqb m t then None else rparent s m) ->
  (forall m, m <> p -> rkids s' m = rkids s m) ->
  rkids s' p = remove_all t (rkids s p) ->
  rparent s t = Some p ->
  Inv s'.
Proof.
  intros I Hsz Hnm Hd Hp Hk Hkp Hpt.
  assert (Hsub : forall q x, In x (rkids s' q) -> In x (rkids s q) /\ x <> t).
  { intros q x H. destruct (Nat.eq_dec q p) as [->|N].
    - rewrite Hkp in H. apply In_remove_all in H. auto.
    - rewrite Hk in H by auto. split; auto. intros ->.
      apply (i_parent s I) in H. congruence. }
  constructor.
  - rewrite Hsz. apply (i_size s I).
  - rewrite Hd. apply (i_doc0 s I).
  - intros q x H. rewrite Hsz. apply Hsub in H. eapply (i_kids_lt s I); apply H.
  - intros n q. rewrite Hp. destruct (Nat.eqb n t) eqn:Q.
    + apply Nat.eqb_eq in Q. subst n. split; [discriminate|].
      intros H. apply Hsub in H. tauto.
    + apply Nat.eqb_neq in Q. rewrite (i_parent s I).
      destruct (Nat.eq_dec q p) as [->|N].
      * rewrite Hkp, In_remove_all. tauto.
      * rewrite Hk by auto. tauto.
  - intros q. destruct (Nat.eq_dec q p) as [->|N].
    + rewrite Hkp. apply NoDup_remove_all. apply (i_nodup s I).
    + rewrite Hk by auto. apply (i_nodup s I).
  - intros h n H. rewrite Hnm in H. rewrite Hsz. eapply (i_names s I); eauto.
  - intros n nm a x ip H. rewrite Hd in H. rewrite Hsz. eapply (i_tmpl s I); eauto.
  - intros q x H. rewrite Hd. apply Hsub in H. eapply (i_container s I); apply H.
  - intros q x H. rewrite Hd. apply Hsub in H. eapply (i_child s I); apply H.
  - intros n A. apply (i_acyclic s I n). eapply anc_detach; eauto.
Qed.

(* ---------- all children of [a] move to the end of [b]'s child list ---------- *)
Lemma inv_reparent s s' a b :
  Inv s ->
  rsize s' = rsize s -> r_names s' = r_names s -> (forall m, rdata s' m = rdata s m) ->
  (forall m, rparent s' m = if mem m (rkids s a) then Some b else rparent s m) ->
  (forall m, m <> a -> m <> b -> rkids s' m = rkids s m) ->
  rkids s' a = [] -> rkids s' b = rkids s b ++ rkids s a ->
  a <> b -> b < rsize s -> is_container (rdata s b) = true -> ~ AncS s a b ->
  Inv s'.
Proof.
  intros I Hsz Hnm Hd Hp Hk Hka Hkb Hab Hb Hcont Hanc.
  assert (Hsub : forall q x, In x (rkids s' q) -> exists q0, In x (rkids s q0)).
  { intros q x H. destruct (Nat.eq_dec q a) as [->|Na]; [rewrite Hka in H; destruct H|].
    destruct (Nat.eq_dec q b) as [->|Nb].
    - rewrite Hkb in H. apply in_app_iff in H. destruct H; eauto.
    - rewrite Hk in H by auto. eauto. }
  constructor.
  - rewrite Hsz. apply (i_size s I).
  - rewrite Hd. apply (i_doc0 s I).
  - intros q x H. rewrite Hsz. apply Hsub in H. destruct H as [q0 H]. eapply (i_kids_lt s I); eauto.
  - intros n q. rewrite Hp. destruct (mem n (rkids s a)) eqn:Q.
    + apply mem_In in Q. split.
      * intros H. inversion H; subst. rewrite Hkb. apply in_app_iff. auto.
      * intros H. destruct (Nat.eq_dec q a) as [->|Na]; [rewrite Hka in H; destruct H|].
        destruct (Nat.eq_dec q b) as [->|Nb]; auto.
        rewrite Hk in H by auto. apply (i_parent s I) in H. apply (i_parent s I) in Q. congruence.
    + apply mem_false in Q. rewrite (i_parent s I).
      destruct (Nat.eq_dec q a) as [->|Na]; [rewrite Hka; simpl; tauto|].
      destruct (Nat.eq_dec q b) as [->|Nb].
      * rewrite Hkb, in_app_iff. tauto.
      * rewrite Hk by auto. tauto.
  - intros q. destruct (Nat.eq_dec q a) as [->|Na]; [rewrite Hka; constructor|].
    destruct (Nat.eq_dec q b) as [->|Nb].
    + rewrite Hkb. apply NoDup_app'; try apply (i_nodup s I).
      intros x H1 H2. apply (i_parent s I) in H1. apply (i_parent s I) in H2. congruence.
    + rewrite Hk by auto. apply (i_nodup s I).
  - intros h n H. rewrite Hnm in H. rewrite Hsz. eapply (i_names s I); eauto.
  - intros n nm c x ip H. rewrite Hd in H. rewrite Hsz. eapply (i_tmpl s I); eauto.
  - intros q x H. rewrite Hd. destruct (Nat.eq_dec q a) as [->|Na]; [rewrite Hka in H; destruct H|].
    destruct (Nat.eq_dec q b) as [->|Nb]; auto.
    rewrite Hk in H by auto. eapply (i_container s I); eauto.
  - intros q x H. rewrite Hd. apply Hsub in H. destruct H as [q0 H]. eapply (i_child s I); eauto.
  - apply (acyclic_reparent (rparent s) (rparent s') (rkids s a) a b Hp); auto.
    + intros k Hk0. apply (i_parent s I); auto.
    + apply (i_acyclic s I).
Qed.

(* ---------- the data of a node changes, its kind does not ---------- *)
Lemma inv_set_rdata s n d :
  Inv s -> n < rsize s ->
  is_container d = is_container (rdata s n) ->
  (d = Document <-> rdata s n = Document) ->
  (forall nm a c ip, d = Element nm a (Some c) ip -> c < rsize s) ->
  Inv (set_rdata s n d).
Proof.
  intros I Hn Hc Hdoc Ht.
  assert (Hk : forall m, rkids (set_rdata s n d) m = rkids s m) by (intros; apply rkids_set_rdata).
  assert (Hp : forall m, rparent (set_rdata s n d) m = rparent s m) by (intros; apply rparent_set_rdata).
  constructor.
  - rewrite rsize_set_rdata. apply (i_size s I).
  - destruct (Nat.eq_dec 0 n) as [<-|N].
    + rewrite rdata_set_rdata_eq by auto. apply Hdoc. apply (i_doc0 s I).
    + rewrite rdata_set_rdata_neq by auto. apply (i_doc0 s I).
  - intros p c H. rewrite Hk in H. rewrite rsize_set_rdata. eapply (i_kids_lt s I); eauto.
  - intros m p. rewrite Hp, Hk. apply (i_parent s I).
  - intros p. rewrite Hk. apply (i_nodup s I).
  - intros h m H. simpl in H. rewrite rsize_set_rdata. eapply (i_names s I); eauto.
  - intros m nm a c ip H. rewrite rsize_set_rdata. destruct (Nat.eq_dec m n) as [->|N].
    + rewrite rdata_set_rdata_eq in H by auto. eapply Ht; eauto.
    + rewrite rdata_set_rdata_neq in H by auto. eapply (i_tmpl s I); eauto.
  - intros p c H. rewrite Hk in H. destruct (Nat.eq_dec p n) as [->|N].
    + rewrite rdata_set_rdata_eq by auto. rewrite Hc. eapply (i_container s I); eauto.
    + rewrite rdata_set_rdata_neq by auto. eapply (i_container s I); eauto.
  - intros p c H. rewrite Hk in H. destruct (Nat.eq_dec c n) as [->|N].
    + rewrite rdata_set_rdata_eq by auto. intros E. apply Hdoc in E. eapply (i_child s I); eauto.
    + rewrite rdata_set_rdata_neq by auto. eapply (i_child s I); eauto.
  - intros m A. apply (i_acyclic s I m). eapply anc_ext; [|exact A]. apply Hp.
Qed.

(* ---------- the handle table grows ---------- *)
Lemma inv_radd_name s n : Inv s -> n < rsize s -> Inv (radd_name s n).
Proof.
  intros I Hn. destruct I. constructor; auto.
  intros h m H. simpl in H.
  destruct (Nat.lt_ge_cases h (length (r_names s))).
  - rewrite nth_error_app1 in H by auto. eapply i_names0; eauto.
  - rewrite nth_error_app2 in H by auto.
    destruct (h - length (r_names s)) as [|k]; simpl in H.
    + inversion H; subst. exact Hn.
    + destruct k; discriminate.
Qed.
