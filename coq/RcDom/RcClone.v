(* C20: the option -> selectedcontent mirroring of rcdom/lib.rs, judged against
   the specification.  Concrete witnesses, evaluated with vm_compute. *)
From Coq Require Import List NArith Bool Arith Lia.
From HV Require Import Dom.DomSpec Dom.DomLemmas RcDom.RcModel RcDom.RcBasics RcDom.RcInv RcDom.RcProofs.
Import ListNotations.

(* The property: when the tree builder asks to mirror [opt] (state before: [s0],
   after: [s1]) and the option's nearest ancestor select has - in tree order - a
   first selectedcontent descendant [sc], is not `multiple`, and the option is
   `selected`, then afterwards the children of [sc] are deep copies of the
   option's children (equal as trees once node identities are forgotten). *)
Definition selectedcontent_filled (s0 s1 : rc) (opt : nid) : Prop :=
  let d := abs s0 in
  match nearest_select d (S (size d)) (parent_of d opt) false with
  | Some sel =>
    if has_attr_local s_multiple (attrs_of (data_of d sel)) then True
    else
      match first_in_tree_order d (fun x => is_html x s_selectedcontent) (S (size d)) (kids d sel) with
      | Some sc =>
        if has_attr_local s_selected (attrs_of (data_of d opt)) then
          exists fuel ts1 ts2,
            all_some (to_tree fuel (abs s1)) (rkids s1 sc) = Some ts1 /\
            all_some (to_tree fuel d) (kids d opt) = Some ts2 /\
            map erase ts1 = map erase ts2
        else True
      | None => True
      end
  | None => True
  end.

(* the full statement one would like to have, for either variant of the code *)
Definition selectedcontent_property (fixed : bool) : Prop :=
  forall ops o s0 s1 n,
    contract_run init (ops ++ [OpCloneOption o]) = true ->
    rrun fixed ops = Ok s0 -> rresolve s0 o = Some n ->
    rapply fixed s0 (OpCloneOption o) = Ok s1 ->
    selectedcontent_filled s0 s1 n.

Lemma all_some_length {A B} (f : A -> option B) l ts : all_some f l = Some ts -> length ts = length l.
Proof.
  revert ts; induction l; simpl; intros ts H.
  - inversion H; auto.
  - destruct (f a); [|discriminate]. destruct (all_some f l); [|discriminate].
    inversion H; subst. simpl. f_equal. apply IHl; auto.
Qed.

(* ---------- witnesses ---------- *)
Definition hq (l : str) : qualname := {| q_prefix := None ; q_ns := s_ns_html ; q_local := l |}.
Definition s_button : str := [98;117;116;116;111;110]%N.
Definition s_span : str := [115;112;97;110]%N.
Definition s_b : str := [98]%N.
Definition a_selected : dattr :=
  {| d_name := {| q_prefix := None ; q_ns := [] ; q_local := s_selected |} ; d_value := [] |}.
Definition el (h : handle) (l : str) : sinkop := OpCreateElement h (hq l) [] false false false.

(* <select><button><selectedcontent></selectedcontent></button><option selected>A<b>c</b></option></select>
   h1 = select, h2 = button, h3 = selectedcontent, h4 = option, h5 = b *)
Definition w1 : list sinkop :=
  [ el 1 s_select ; OpAppend 0 (inl 1) ;
    el 2 s_button ; OpAppend 1 (inl 2) ;
    el 3 s_selectedcontent ; OpAppend 2 (inl 3) ;
    OpCreateElement 4 (hq s_option) [a_selected] false false false ; OpAppend 1 (inl 4) ;
    OpAppend 4 (inr [65%N]) ;
    el 5 s_b ; OpAppend 4 (inl 5) ; OpAppend 5 (inr [99%N]) ].

(* <select><button><span><selectedcontent id=A></selectedcontent></span></button>
           <selectedcontent id=B></selectedcontent><option selected>x</option></select>
   h1 = select, h2 = button, h3 = span, h4 = selectedcontent A (first in tree order),
   h5 = selectedcontent B (first breadth first), h6 = option *)
Definition w2 : list sinkop :=
  [ el 1 s_select ; OpAppend 0 (inl 1) ;
    el 2 s_button ; OpAppend 1 (inl 2) ;
    el 3 s_span ; OpAppend 2 (inl 3) ;
    el 4 s_selectedcontent ; OpAppend 3 (inl 4) ;
    el 5 s_selectedcontent ; OpAppend 1 (inl 5) ;
    OpCreateElement 6 (hq s_option) [a_selected] false false false ; OpAppend 1 (inl 6) ;
    OpAppend 6 (inr [120%N]) ].

Definition state_of (r : result) : rc := match r with Ok s => s | Panic _ => rinit end.

(* the code of the pinned commit: nothing is ever cloned *)
Theorem selectedcontent_refuted : ~ selectedcontent_property false.
Proof.
  intros P.
  specialize (P w1 4 (state_of (rrun false w1)) (state_of (rrun false w1)) 4).
  assert (C : contract_run init (w1 ++ [OpCloneOption 4]) = true) by (vm_compute; reflexivity).
  assert (R : rrun false w1 = Ok (state_of (rrun false w1))) by (vm_compute; reflexivity).
  assert (N : rresolve (state_of (rrun false w1)) 4 = Some 4) by (vm_compute; reflexivity).
  assert (A : rapply false (state_of (rrun false w1)) (OpCloneOption 4) = Ok (state_of (rrun false w1)))
    by (vm_compute; reflexivity).
  specialize (P C R N A). unfold selectedcontent_filled in P.
  set (d := abs (state_of (rrun false w1))) in *.
  assert (E1 : nearest_select d (S (size d)) (parent_of d 4) false = Some 1) by (vm_compute; reflexivity).
  rewrite E1 in P.
  assert (E2 : has_attr_local s_multiple (attrs_of (data_of d 1)) = false) by (vm_compute; reflexivity).
  rewrite E2 in P.
  assert (E3 : first_in_tree_order d (fun x => is_html x s_selectedcontent) (S (size d)) (kids d 1) = Some 3)
    by (vm_compute; reflexivity).
  rewrite E3 in P.
  assert (E4 : has_attr_local s_selected (attrs_of (data_of d 4)) = true) by (vm_compute; reflexivity).
  rewrite E4 in P.
  destruct P as [fuel [ts1 [ts2 [H1 [H2 H3]]]]].
  apply all_some_length in H1. apply all_some_length in H2.
  apply (f_equal (@length tree)) in H3. rewrite !map_length in H3.
  assert (L1 : length (rkids (state_of (rrun false w1)) 3) = 0) by (vm_compute; reflexivity).
  assert (L2 : length (kids d 4) = 2) by (vm_compute; reflexivity).
  congruence.
Qed.

(* consequently the model does not refine the specification on every
   contract-respecting sequence *)
Theorem refines_refuted :
  exists ops s, contract_run init ops = true /\ rrun false ops = Ok s /\ abs s <> run ops.
Proof.
  exists (w1 ++ [OpCloneOption 4]), (state_of (rrun false (w1 ++ [OpCloneOption 4]))).
  split; [vm_compute; reflexivity|]. split; [vm_compute; reflexivity|].
  intros E. apply (f_equal (fun d => length (d_nodes d))) in E. vm_compute in E. discriminate.
Qed.

(* with `self.data` repaired to `node.data` the search found a selectedcontent, but the breadth-first one; since the
   second repair in /repo (tree order, HTML elements only) the first selectedcontent in tree order is filled.  On
   the three witnesses the repaired model now REFINES the specification, cloning included (a TEST by vm_compute on
   three sequences; the refinement theorem itself is still stated for sequences whose clone requests are trivial) *)
Theorem clone_witnesses_refine_after_repair :
  abs (state_of (rrun true (w1 ++ [OpCloneOption 4]))) = run (w1 ++ [OpCloneOption 4]) /\
  abs (state_of (rrun true (w2 ++ [OpCloneOption 6]))) = run (w2 ++ [OpCloneOption 6]) /\
  length (rkids (state_of (rrun true (w2 ++ [OpCloneOption 6]))) 4) = 1 /\
  rkids (state_of (rrun true (w2 ++ [OpCloneOption 6]))) 5 = [].
Proof. vm_compute. repeat split; reflexivity. Qed.

(* clone_with_subtree used to give every copy the ORIGINAL's parent link, and the children replaced in the
   selectedcontent kept theirs, so the parent-link invariant broke although every operation respected the contract
   (reachable by parsing: RcDom panicked in remove_from_parent).  Repaired in /repo; on the former witness, and on
   one in which the selectedcontent had children of its own, every parent link now names the node whose child list
   holds the node, and every listed child points back. *)
Definition links_ok_b (s : rc) : bool :=
  forallb (fun n =>
             match rparent s n with
             | Some p => existsb (Nat.eqb n) (rkids s p)
             | None => true
             end &&
             forallb (fun k => match rparent s k with Some p => Nat.eqb p n | None => false end) (rkids s n))
          (seq 0 (rsize s)).
(* <select><selectedcontent><b>old</b></selectedcontent><option selected>A<b>c</b></option></select> *)
Definition w1b : list sinkop :=
  [ el 1 s_select ; OpAppend 0 (inl 1) ;
    el 2 s_selectedcontent ; OpAppend 1 (inl 2) ;
    el 3 s_b ; OpAppend 2 (inl 3) ; OpAppend 3 (inr [111%N]) ;
    OpCreateElement 4 (hq s_option) [a_selected] false false false ; OpAppend 1 (inl 4) ;
    OpAppend 4 (inr [65%N]) ;
    el 5 s_b ; OpAppend 4 (inl 5) ; OpAppend 5 (inr [99%N]) ].
Theorem parent_links_repaired_witnesses :
  links_ok_b (state_of (rrun true (w1 ++ [OpCloneOption 4]))) = true /\
  links_ok_b (state_of (rrun true (w1b ++ [OpCloneOption 4]))) = true /\
  rparent (state_of (rrun true (w1b ++ [OpCloneOption 4]))) 3 = None /\
  length (rkids (state_of (rrun true (w1b ++ [OpCloneOption 4]))) 2) = 2.
Proof. vm_compute. repeat split; reflexivity. Qed.

(* Outside the contract (the tree builders never do this, the trait documentation
   allows it): append_before_sibling with a node that is an EARLIER sibling under
   the same parent.  RcDom computes the insertion index before removing the
   node, so the node lands AFTER the reference sibling. *)
Definition w3 : list sinkop :=
  [ el 1 s_b ; el 2 s_b ; el 3 s_b ; OpAppend 0 (inl 1) ; OpAppend 1 (inl 2) ; OpAppend 1 (inl 3) ;
    OpAppendBeforeSibling 3 (inl 2) ].
Theorem before_sibling_same_parent_latent :
  contract_run init w3 = false /\
  rkids (state_of (rrun false w3)) 1 = [3; 2] /\ kids (run w3) 1 = [2; 3].
Proof. vm_compute. auto. Qed.
