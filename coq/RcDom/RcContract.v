(* The cycle check of the calling contract (DomSpec.in_subtree, a fuelled walk
   towards the root that answers "yes" when the fuel runs out) is exact on the
   states of the RcDom model: the fuel S(size) always suffices. *)
From Coq Require Import List NArith Bool Arith Lia.
From HV Require Import Dom.DomSpec Dom.DomLemmas RcDom.RcModel RcDom.RcBasics RcDom.RcInv RcDom.RcProofs.
Import ListNotations.

Section Contract.
Variable s : rc.
Hypothesis I : Inv s.

Lemma anc_lt a v : Anc s a v -> v < rsize s.
Proof.
  intros A. destruct (Nat.lt_ge_cases v (rsize s)) as [H|H]; auto.
  apply rparent_oob in H. inversion A; subst; congruence.
Qed.

Lemma reaches_up_true c fuel : forall p visited,
  (forall v, In v visited -> Anc s p v) -> NoDup visited ->
  rsize s < length visited + fuel ->
  reaches_up (abs s) fuel c p = true -> AncS s c p.
Proof.
  induction fuel; intros p visited HV ND L R.
  - exfalso.
    assert (Hi : incl visited (seq 0 (rsize s))).
    { intros v Hv. apply in_seq. apply HV, anc_lt in Hv. lia. }
    pose proof (NoDup_incl_length ND Hi) as B. rewrite seq_length in B. lia.
  - simpl in R. destruct (Nat.eqb p c) eqn:Q.
    + apply Nat.eqb_eq in Q. left. auto.
    + rewrite parent_of_abs in R by auto. destruct (rparent s p) as [q|] eqn:P; [|discriminate].
      right. eapply ancs_up; eauto.
      apply (IHfuel q (p :: visited)); auto.
      * intros v [<-|Hv]; [apply anc_parent; auto|].
        eapply anc_trans; [apply anc_parent; eauto|apply HV; auto].
      * constructor; auto. intros Hp. apply (i_acyclic s I p). apply HV; auto.
      * simpl. lia.
Qed.

Theorem in_subtree_exact c p : in_subtree (abs s) c p = true <-> AncS s c p.
Proof.
  split.
  - intros H. unfold in_subtree in H. rewrite size_abs in H.
    apply (reaches_up_true c (S (rsize s)) p []); [intros v []|constructor|simpl; lia|exact H].
  - intros A. destruct (in_subtree (abs s) c p) eqn:E; auto.
    unfold in_subtree in E. apply reaches_up_sound in E. exfalso. apply E. apply ancs_abs'; auto.
Qed.
End Contract.
