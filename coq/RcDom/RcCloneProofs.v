(* C20: the repaired option -> selectedcontent cloning of rcdom/lib.rs
   (RcModel with fixed = true) refines DomSpec.clone_option and preserves the
   representation invariant, so the refinement theorem covers every operation. *)
From Coq Require Import List NArith Bool Arith Lia.
From HV Require Import Dom.DomSpec Dom.DomLemmas Dom.DomCopy
                       RcDom.RcModel RcDom.RcBasics RcDom.RcInv RcDom.RcProofs.
Import ListNotations.

(* ---------- the two searches ---------- *)
Lemma local_is_html x l : local_is x l = is_html x l.
Proof. destruct x; reflexivity. Qed.

Lemma is_html_excl x a b : a <> b -> is_html x a = true -> is_html x b = false.
Proof.
  destruct x; simpl; auto. intros N H.
  apply andb_true_iff in H. destruct H as [_ H]. apply str_eqb_eq in H.
  destruct (str_eqb (q_local name) b) eqn:E; [|apply andb_false_r].
  apply str_eqb_eq in E. congruence.
Qed.

Lemma is_html_element x l : is_html x l = true -> is_element x = true.
Proof. destruct x; simpl; auto; discriminate. Qed.

Lemma nearest_select_abs s (I : Inv s) fuel : forall a seen,
  nearest_select (abs s) fuel (Some a) seen = rc_nearest_select s fuel a seen.
Proof.
  induction fuel; intros a seen; simpl; auto.
  rewrite data_abs. rewrite (parent_of_abs s a I). change local_is with is_html.
  set (x := rdata s a).
  assert (N : forall sn, nearest_select (abs s) fuel (rparent s a) sn =
                         match rparent s a with Some q => rc_nearest_select s fuel q sn | None => None end).
  { intros sn. destruct (rparent s a); [apply IHfuel|]. destruct fuel; reflexivity. }
  destruct (is_element x) eqn:E.
  - destruct (is_html x s_datalist || is_html x s_hr || is_html x s_option); auto.
    destruct (is_html x s_optgroup) eqn:O; simpl.
    + destruct seen; simpl; auto.
      rewrite (is_html_excl x s_optgroup s_select) by (auto; discriminate). apply N.
    + destruct (is_html x s_select); auto. rewrite orb_false_r. apply N.
  - assert (F : forall l, is_html x l = false).
    { intros l. destruct (is_html x l) eqn:H; auto. apply is_html_element in H. congruence. }
    rewrite !F. simpl. rewrite orb_false_r. apply N.
Qed.

Lemma find_selectedcontent_abs s fuel : forall stack,
  first_in_tree_order (abs s) (fun x => is_html x s_selectedcontent) fuel stack =
  rc_find_selectedcontent true s 0 fuel stack.
Proof.
  induction fuel; intros stack; simpl; auto.
  destruct stack as [|n rest]; auto.
  rewrite data_abs, kids_abs. change local_is with is_html. destruct (is_html (rdata s n) s_selectedcontent); auto.
Qed.

Lemma find_selectedcontent_sel s sel fuel stack :
  rc_find_selectedcontent true s sel fuel stack = rc_find_selectedcontent true s 0 fuel stack.
Proof. revert stack; induction fuel; intros [|n rest]; simpl; auto. destruct (local_is _ _); auto. Qed.

Lemma find_selectedcontent_found s (I : Inv s) fuel : forall stack sc,
  (forall x, In x stack -> x < rsize s) ->
  rc_find_selectedcontent true s 0 fuel stack = Some sc ->
  sc < rsize s /\ is_container (rdata s sc) = true.
Proof.
  induction fuel; intros stack sc H F; simpl in F; [discriminate|].
  destruct stack as [|n rest]; [discriminate|].
  destruct (local_is (rdata s n) s_selectedcontent) eqn:L.
  - inversion F; subst. split; [apply H; simpl; auto|].
    rewrite local_is_html in L. apply is_html_element in L. apply is_element_container; auto.
  - apply (IHfuel _ _) in F; auto. intros x Hx. apply in_app_iff in Hx. destruct Hx as [Hx|Hx].
    + eapply (i_kids_lt s I); eauto.
    + apply H; simpl; auto.
Qed.

(* ---------- a state that extends another one ---------- *)
Definition Ext (s s' : rc) : Prop :=
  rsize s <= rsize s' /\ r_names s' = r_names s /\ r_quirks s' = r_quirks s /\
  forall m, m < rsize s -> nth m (r_nodes s') rdflt = nth m (r_nodes s) rdflt.

Lemma Ext_refl s : Ext s s.
Proof. repeat split; auto. Qed.
Lemma Ext_trans a b c : Ext a b -> Ext b c -> Ext a c.
Proof.
  intros [A1 [A2 [A3 A4]]] [B1 [B2 [B3 B4]]]. repeat split; try congruence; try lia.
  intros m H. rewrite B4 by lia. apply A4; auto.
Qed.
Lemma Ext_rdata s s' m : Ext s s' -> m < rsize s -> rdata s' m = rdata s m.
Proof. intros [_ [_ [_ E]]] H. unfold rdata. rewrite E; auto. Qed.
Lemma Ext_rkids s s' m : Ext s s' -> m < rsize s -> rkids s' m = rkids s m.
Proof. intros [_ [_ [_ E]]] H. unfold rkids. rewrite E; auto. Qed.
Lemma Ext_rparent s s' m : Ext s s' -> m < rsize s -> rparent s' m = rparent s m.
Proof. intros [_ [_ [_ E]]] H. unfold rparent. rewrite E; auto. Qed.
Lemma Ext_size s s' : Ext s s' -> rsize s <= rsize s'.
Proof. intros [E _]; auto. Qed.

Lemma Ext_ralloc s x p ks : Ext s (ralloc s x p ks).
Proof.
  repeat split; auto.
  - rewrite rsize_ralloc. lia.
  - intros m H. apply rnth_ralloc_old. lia.
Qed.

Lemma Ext_set_parent s0 s k p : Ext s0 s -> rsize s0 <= k -> Ext s0 (set_parent s k p).
Proof.
  intros [A1 [A2 [A3 A4]]] H. repeat split; auto.
  - rewrite rsize_set_parent; auto.
  - intros m Hm. unfold set_parent; simpl. rewrite nth_upd_neq by lia. apply A4; auto.
Qed.

(* ---------- setting the parent of a list of nodes ---------- *)
Definition set_parents (p : option nid) (l : list nid) (st : rc) : rc :=
  fold_left (fun acc k => set_parent acc k p) l st.

Lemma set_parents_spec p l : forall st,
  (forall k, In k l -> k < rsize st) ->
  rsize (set_parents p l st) = rsize st /\ r_names (set_parents p l st) = r_names st /\
  r_quirks (set_parents p l st) = r_quirks st /\
  (forall m, rdata (set_parents p l st) m = rdata st m) /\
  (forall m, rkids (set_parents p l st) m = rkids st m) /\
  (forall m, rparent (set_parents p l st) m = if mem m l then p else rparent st m) /\
  abs (set_parents p l st) = abs st.
Proof.
  induction l as [|k l IH]; intros st H; simpl.
  - repeat split; auto.
  - destruct (IH (set_parent st k p)) as [E1 [E2 [E3 [E4 [E5 [E6 E7]]]]]].
    { intros x Hx. rewrite rsize_set_parent. apply H; simpl; auto. }
    unfold set_parents in *. rewrite rsize_set_parent in E1.
    split; auto. split; auto. split; auto.
    split; [intros; rewrite E4; apply rdata_set_parent|].
    split; [intros; rewrite E5; apply rkids_set_parent|].
    split; [|rewrite E7; apply abs_set_parent].
    intros m. rewrite E6. unfold mem at 2. simpl. fold (mem m l).
    destruct (mem m l); [rewrite orb_true_r; auto|]. rewrite orb_false_r.
    destruct (Nat.eqb m k) eqn:Q.
    + apply Nat.eqb_eq in Q. subst. apply rparent_set_parent_eq. apply H; simpl; auto.
    + apply Nat.eqb_neq in Q. apply rparent_set_parent_neq; auto.
Qed.

Lemma Ext_set_parents s0 p l : forall st,
  Ext s0 st -> (forall k, In k l -> rsize s0 <= k) -> Ext s0 (set_parents p l st).
Proof.
  induction l as [|k l IH]; intros st E H; simpl; auto.
  apply IH; [apply Ext_set_parent; auto; apply H; simpl; auto|intros; apply H; simpl; auto].
Qed.

(* ---------- ancestors when several nodes lose / get a parent ---------- *)
Lemma anc_detach_many par par' old :
  (forall n, par' n = if mem n old then None else par n) ->
  forall a n, anc par' a n -> anc par a n.
Proof.
  intros E a n H. induction H.
  - rewrite E in H. destruct (mem n old); [discriminate|]. apply anc_parent; auto.
  - rewrite E in H. destruct (mem n old); [discriminate|]. eapply anc_step; eauto.
Qed.

Lemma anc_attach_many par par' ks b :
  (forall n, par' n = if mem n ks then Some b else par n) ->
  (forall k, In k ks -> ~ ancs par k b) ->
  forall a n, anc par' a n ->
  anc par a n \/ (exists k, In k ks /\ ancs par k n /\ ancs par a b).
Proof.
  intros E Hk a n H. induction H as [a n H|a m n H H1 IH].
  - rewrite E in H. destruct (mem n ks) eqn:Q.
    + apply mem_In in Q. inversion H; subst. right. exists n. split; [auto|]. split; left; auto.
    + left. apply anc_parent; auto.
  - rewrite E in H. destruct (mem n ks) eqn:Q.
    + apply mem_In in Q. inversion H; subst.
      destruct IH as [I|[k [K1 [K2 _]]]].
      * right. exists n. split; [auto|]. split; [left; auto|right; auto].
      * exfalso. eapply Hk; eauto.
    + destruct IH as [I|[k [K1 [K2 K3]]]].
      * left. eapply anc_step; eauto.
      * right. exists k. split; [auto|]. split; [right; eapply ancs_up; eauto|auto].
Qed.

Lemma acyclic_attach_many par par' ks b :
  (forall n, par' n = if mem n ks then Some b else par n) ->
  (forall k, In k ks -> ~ ancs par k b) ->
  (forall n, ~ anc par n n) -> forall n, ~ anc par' n n.
Proof.
  intros E Hk Hac n H.
  destruct (anc_attach_many par par' ks b E Hk n n H) as [I|[k [K1 [K2 K3]]]].
  - exact (Hac n I).
  - apply (Hk k K1). eapply ancs_trans; eauto.
Qed.

(* ---------- the children of [b] are replaced by parentless nodes ---------- *)
Lemma inv_attach_many s s' b ks :
  Inv s ->
  rsize s' = rsize s -> r_names s' = r_names s -> (forall m, rdata s' m = rdata s m) ->
  (forall m, rparent s' m = if mem m (rkids s b) then None else if mem m ks then Some b else rparent s m) ->
  (forall m, m <> b -> rkids s' m = rkids s m) -> rkids s' b = ks ->
  NoDup ks ->
  (forall k, In k ks -> k < rsize s /\ rparent s k = None /\ rdata s k <> Document /\ ~ AncS s k b) ->
  b < rsize s -> (ks <> [] -> is_container (rdata s b) = true) ->
  Inv s'.
Proof.
  intros I Hsz Hnm Hd Hp Hk Hkb ND Hks Hb Hcont.
  set (old := rkids s b) in *.
  assert (Hold : forall n, In n old -> rparent s n = Some b) by (intros n H; apply (i_parent s I); auto).
  assert (Hnew : forall k q, In k ks -> ~ In k (rkids s q)).
  { intros k q H1 H2. apply (i_parent s I) in H2. destruct (Hks k H1) as [_ [P _]]. congruence. }
  constructor.
  - rewrite Hsz. apply (i_size s I).
  - rewrite Hd. apply (i_doc0 s I).
  - intros q x H. rewrite Hsz. destruct (Nat.eq_dec q b) as [->|N].
    + rewrite Hkb in H. apply Hks; auto.
    + rewrite Hk in H by auto. eapply (i_kids_lt s I); eauto.
  - intros n q. rewrite Hp. destruct (mem n old) eqn:Mo.
    + apply mem_In in Mo. split; [discriminate|]. intros H. exfalso.
      destruct (Nat.eq_dec q b) as [->|N].
      * rewrite Hkb in H. eapply Hnew; eauto.
      * rewrite Hk in H by auto. apply (i_parent s I) in H. rewrite (Hold n Mo) in H. congruence.
    + apply mem_false in Mo. destruct (mem n ks) eqn:Mk.
      * apply mem_In in Mk. split.
        -- intros H. injection H as <-. rewrite Hkb. auto.
        -- intros H. destruct (Nat.eq_dec q b) as [->|N]; auto.
           rewrite Hk in H by auto. exfalso. eapply Hnew; eauto.
      * apply mem_false in Mk. rewrite (i_parent s I).
        destruct (Nat.eq_dec q b) as [->|N].
        -- rewrite Hkb. fold old. tauto.
        -- rewrite Hk by auto. tauto.
  - intros q. destruct (Nat.eq_dec q b) as [->|N]; [rewrite Hkb; auto|].
    rewrite Hk by auto. apply (i_nodup s I).
  - intros h n H. rewrite Hnm in H. rewrite Hsz. eapply (i_names s I); eauto.
  - intros n nm a x ip H. rewrite Hd in H. rewrite Hsz. eapply (i_tmpl s I); eauto.
  - intros q x H. rewrite Hd. destruct (Nat.eq_dec q b) as [->|N].
    + rewrite Hkb in H. apply Hcont. intros E. rewrite E in H. destruct H.
    + rewrite Hk in H by auto. eapply (i_container s I); eauto.
  - intros q x H. rewrite Hd. destruct (Nat.eq_dec q b) as [->|N].
    + rewrite Hkb in H. apply Hks; auto.
    + rewrite Hk in H by auto. eapply (i_child s I); eauto.
  - set (par1 := fun n => if mem n old then None else rparent s n).
    assert (S1 : forall a n, anc par1 a n -> anc (rparent s) a n).
    { apply (anc_detach_many (rparent s) par1 old). reflexivity. }
    apply (acyclic_attach_many par1 (rparent s') ks b).
    + intros n. rewrite Hp. unfold par1. destruct (mem n ks) eqn:Mk; auto.
      apply mem_In in Mk. replace (mem n old) with false; auto.
      symmetry. apply mem_false. intros Ho. eapply Hnew; eauto.
    + intros k Hkin [E|A].
      * destruct (Hks k Hkin) as [_ [_ [_ NA]]]. apply NA. left; auto.
      * destruct (Hks k Hkin) as [_ [_ [_ NA]]]. apply NA. right. apply S1; auto.
    + intros n A. apply (i_acyclic s I n). apply S1; auto.
Qed.

(* ---------- abstraction of the copy ---------- *)
Definition FC (g : nat) (acc : rc * list nid) (k : nid) : rc * list nid :=
  let '(s', k') := clone_sub g (fst acc) k in (s', snd acc ++ [k']).
Definition FD (g : nat) (acc : dom * list nid) (k : nid) : dom * list nid :=
  let '(d', k') := copy g (fst acc) k in (d', snd acc ++ [k']).

Lemma abs_set_parents p l : forall st, abs (set_parents p l st) = abs st.
Proof.
  induction l; intros st; simpl; auto. unfold set_parents in *. rewrite IHl. apply abs_set_parent.
Qed.

Definition abs_pair {A} (r : rc * A) : dom * A := (abs (fst r), snd r).

Lemma abs_fold g :
  (forall s k, abs_pair (clone_sub g s k) = copy g (abs s) k) ->
  forall l s acc, abs_pair (fold_left (FC g) l (s, acc)) = fold_left (FD g) l (abs s, acc).
Proof.
  intros H l. induction l as [|k l IH]; intros s acc; simpl; auto.
  unfold FC at 2, FD at 2. simpl. rewrite <- H.
  destruct (clone_sub g s k) as [s' k']. unfold abs_pair at 2. simpl. apply IH.
Qed.

Lemma abs_fold_set_parent p l st : abs (fold_left (fun acc k => set_parent acc k p) l st) = abs st.
Proof. exact (abs_set_parents p l st). Qed.

Lemma abs_finish s2 x ks :
  abs_pair (fold_left (fun acc k => set_parent acc k (Some (rsize s2))) ks (ralloc s2 x None ks), rsize s2)
  = (alloc (abs s2) x ks, size (abs s2)).
Proof.
  unfold abs_pair; simpl.
  rewrite (abs_fold_set_parent (Some (rsize s2)) ks), abs_ralloc, size_abs. reflexivity.
Qed.

Lemma abs_clone_sub f : forall s n, abs_pair (clone_sub f s n) = copy f (abs s) n.
Proof.
  induction f; intros s n; [reflexivity|].
  simpl. fold (FC f) (FD f). rewrite kids_abs, data_abs.
  rewrite <- (abs_fold f IHf).
  destruct (fold_left (FC f) (rkids s n) (s, [])) as [s1 ks]. unfold abs_pair at 2. simpl.
  destruct (rdata s n) as [| | | |nm at_ [t|] ip|]; try apply abs_finish.
  rewrite <- IHf. destruct (clone_sub f s1 t) as [s2 t']. unfold abs_pair at 2. simpl.
  apply abs_finish.
Qed.

(* ---------- the copy preserves the invariant ---------- *)
Lemma rdata_ralloc_any s x p ks p' ks' m : rdata (ralloc s x p ks) m = rdata (ralloc s x p' ks') m.
Proof.
  destruct (Nat.eq_dec m (rsize s)) as [->|N].
  - rewrite !rdata_ralloc_new. reflexivity.
  - rewrite !rdata_ralloc_old by auto. reflexivity.
Qed.

Section Copy.
Variable s0 : rc.
Hypothesis I0 : Inv s0.

(* fresh, still parentless copies made so far *)
Definition good (lo : nat) (s : rc) (ks : list nid) : Prop :=
  NoDup ks /\ forall k, In k ks -> lo <= k /\ k < rsize s /\ rparent s k = None /\ rdata s k <> Document.

Definition clone_post (s : rc) (src : nid) (r : rc * nid) : Prop :=
  Inv (fst r) /\ Ext s (fst r) /\ rsize s <= snd r /\ snd r < rsize (fst r) /\
  rparent (fst r) (snd r) = None /\ (rdata s0 src <> Document -> rdata (fst r) (snd r) <> Document).

Definition clone_spec (g : nat) : Prop :=
  forall s n, Inv s -> Ext s0 s -> n < rsize s0 -> closed g (abs s0) n = true ->
              clone_post s n (clone_sub g s n).

Lemma clone_fold g (Hg : clone_spec g) lo : forall l s acc,
  Inv s -> Ext s0 s -> lo <= rsize s ->
  (forall k, In k l -> k < rsize s0 /\ closed g (abs s0) k = true /\ rdata s0 k <> Document) ->
  good lo s acc ->
  let r := fold_left (FC g) l (s, acc) in
  Inv (fst r) /\ Ext s (fst r) /\ good lo (fst r) (snd r).
Proof.
  induction l as [|k l IH]; intros s acc I E L H G; simpl.
  - split; auto. split; auto. apply Ext_refl.
  - destruct (H k (or_introl eq_refl)) as [H1 [H2 H3]].
    pose proof (Hg s k I E H1 H2) as P.
    assert (Q : FC g (s, acc) k = (fst (clone_sub g s k), acc ++ [snd (clone_sub g s k)]))
      by (unfold FC; simpl; destruct (clone_sub g s k); reflexivity).
    rewrite Q. clear Q. unfold clone_post in P.
    set (s' := fst (clone_sub g s k)) in *. set (k' := snd (clone_sub g s k)) in *.
    destruct P as [P1 [P2 [P3 [P4 [P5 P6]]]]].
    pose proof (Ext_size _ _ P2) as Sz.
    assert (A1 : Ext s0 s') by (eapply Ext_trans; eauto).
    assert (A2 : lo <= rsize s') by lia.
    assert (A3 : forall x, In x l -> x < rsize s0 /\ closed g (abs s0) x = true /\ rdata s0 x <> Document)
      by (intros x Hx; apply H; simpl; auto).
    assert (A4 : good lo s' (acc ++ [k'])).
    { destruct G as [G1 G2]. split.
      * apply NoDup_app'; auto.
        -- constructor; [simpl; tauto|constructor].
        -- intros x Hx [Q|[]]. destruct (G2 x Hx) as [_ [Lt _]]. lia.
      * intros x Hx. apply in_app_iff in Hx. destruct Hx as [Hx|[<-|[]]].
        -- destruct (G2 x Hx) as [A [B [C D]]].
           rewrite (Ext_rparent _ _ _ P2 B), (Ext_rdata _ _ _ P2 B). repeat split; auto. lia.
        -- repeat split; auto. lia. }
    destruct (IH s' (acc ++ [k']) P1 A1 A2 A3 A4) as [R1 [R2 R3]].
    split; [exact R1|]. split; [eapply Ext_trans; eauto|exact R3].
Qed.

Lemma clone_sub_spec f : clone_spec f.
Proof.
  induction f as [|f IHf]; intros s n I E Hn C; [discriminate|].
  simpl in C. apply andb_true_iff in C. destruct C as [C1 C2].
  rewrite kids_abs in C1. rewrite data_abs in C2. rewrite forallb_forall in C1.
  simpl. fold (FC f). rewrite (Ext_rkids _ _ _ E Hn), (Ext_rdata _ _ _ E Hn).
  (* the children *)
  assert (Hkids : forall k, In k (rkids s0 n) ->
                            k < rsize s0 /\ closed f (abs s0) k = true /\ rdata s0 k <> Document).
  { intros k Hk. split; [eapply (i_kids_lt s0 I0); eauto|]. split; [apply C1; auto|eapply (i_child s0 I0); eauto]. }
  assert (G0 : good (rsize s) s []).
  { split; [constructor|]. intros k []. }
  pose proof (clone_fold f IHf (rsize s) (rkids s0 n) s [] I E (le_n _) Hkids G0) as F.
  assert (Hcont : snd (fold_left (FC f) (rkids s0 n) (s, [])) <> [] -> is_container (rdata s0 n) = true).
  { destruct (rkids s0 n) as [|k l] eqn:K; [simpl; congruence|].
    intros _. eapply (i_container s0 I0). rewrite K. simpl. eauto. }
  destruct (fold_left (FC f) (rkids s0 n) (s, [])) as [s1 ks]. simpl in F, Hcont.
  destruct F as [I1 [E1 [ND G1]]].
  (* the template contents *)
  assert (T : exists s2 x,
             (match rdata s0 n with
              | Element nm at_ (Some t) ip => let '(s', t') := clone_sub f s1 t in (s', Element nm at_ (Some t') ip)
              | x => (s1, x)
              end) = (s2, x) /\
             Inv s2 /\ Ext s1 s2 /\
             (forall nm a c ip, x = Element nm a (Some c) ip -> c < S (rsize s2)) /\
             is_container x = is_container (rdata s0 n) /\ (x = Document <-> rdata s0 n = Document)).
  { destruct (rdata s0 n) as [| | | |nm at_ [t|] ip|] eqn:D;
      try (eexists; eexists; split; [reflexivity|]; split; [auto|]; split; [apply Ext_refl|];
           split; [intros; discriminate|]; split; [reflexivity|tauto]).
    assert (Ht : t < rsize s0) by (eapply (i_tmpl s0 I0); eauto).
    pose proof (IHf s1 t I1 (Ext_trans _ _ _ E E1) Ht C2) as P.
    destruct (clone_sub f s1 t) as [s2 t']. destruct P as [P1 [P2 [P3 [P4 _]]]]. simpl in *.
    eexists; eexists; split; [reflexivity|]. split; [auto|]. split; [auto|].
    split; [|split; [reflexivity|split; discriminate]].
    intros nm' a c ip' Q. inversion Q; subst. lia. }
  destruct T as [s2 [x [Tq [I2 [E2 [Tt [Tc Td]]]]]]]. rewrite Tq.
  pose proof (Ext_size _ _ E1) as Sz1. pose proof (Ext_size _ _ E2) as Sz2.
  assert (G2 : forall k, In k ks -> rsize s <= k /\ k < rsize s2 /\ rparent s2 k = None /\ rdata s2 k <> Document).
  { intros k Hk. destruct (G1 k Hk) as [A [B [C D]]].
    rewrite (Ext_rparent _ _ _ E2 B), (Ext_rdata _ _ _ E2 B). repeat split; auto. lia. }
  set (me := rsize s2).
  set (sA := ralloc s2 x None []).
  set (sB := ralloc s2 x None ks).
  assert (IA : Inv sA) by (apply inv_ralloc; auto).
  assert (HksB : forall k, In k ks -> k < rsize sB).
  { intros k Hk. unfold sB. rewrite rsize_ralloc. destruct (G2 k Hk) as [_ [B _]]. lia. }
  destruct (set_parents_spec (Some me) ks sB HksB) as [Q1 [Q2 [Q3 [Q4 [Q5 [Q6 Q7]]]]]].
  change (fold_left (fun acc k => set_parent acc k (Some me)) ks sB) with (set_parents (Some me) ks sB).
  set (s3 := set_parents (Some me) ks sB) in *.
  assert (Hme : forall k, In k ks -> k <> me).
  { intros k Hk. destruct (G2 k Hk) as [_ [B _]]. unfold me. lia. }
  assert (I3 : Inv s3).
  { apply (inv_attach_many sA s3 me ks IA); auto.
    - rewrite Q1. unfold sA, sB. rewrite !rsize_ralloc. reflexivity.
    - intros m. rewrite Q4. apply rdata_ralloc_any.
    - intros m. rewrite Q6. unfold sA at 1. unfold me at 1. rewrite rkids_ralloc_new. simpl.
      destruct (mem m ks); auto. unfold sA, sB.
      destruct (Nat.eq_dec m (rsize s2)) as [->|N].
      + rewrite !rparent_ralloc_new. reflexivity.
      + rewrite !rparent_ralloc_old by auto. reflexivity.
    - intros m N. rewrite Q5. unfold sA, sB. rewrite !rkids_ralloc_old by auto. reflexivity.
    - rewrite Q5. apply rkids_ralloc_new.
    - intros k Hk. destruct (G2 k Hk) as [A [B [C D]]]. pose proof (Hme k Hk) as N.
      unfold sA. rewrite rsize_ralloc, rparent_ralloc_old, rdata_ralloc_old by auto.
      repeat split; auto; try lia.
      intros [Q|Q]; [congruence|]. inversion Q; subst.
      + rewrite rparent_ralloc_new in H. discriminate.
      + rewrite rparent_ralloc_new in H. discriminate.
    - unfold sA. rewrite rsize_ralloc. unfold me. lia.
    - intros N. unfold sA, me. rewrite rdata_ralloc_new, Tc. auto. }
  unfold clone_post. simpl. split; [exact I3|]. split.
  - unfold s3. apply Ext_set_parents.
    + eapply Ext_trans; [exact E1|]. eapply Ext_trans; [exact E2|]. apply Ext_ralloc.
    + intros k Hk. apply (G2 k Hk).
  - split; [unfold me; lia|]. split; [rewrite Q1; unfold sB; rewrite rsize_ralloc; unfold me; lia|].
    split.
    + rewrite Q6. replace (mem me ks) with false.
      * apply rparent_ralloc_new.
      * symmetry. apply mem_false. intros H. apply (Hme me H). reflexivity.
    + intros ND0. rewrite Q4. unfold sB, me. rewrite rdata_ralloc_new. intros Q. apply ND0. apply Td; auto.
Qed.
End Copy.

(* ---------- Node::clone_an_option_into_selectedcontent ---------- *)
Lemma anc_old s s1 : Inv s -> Ext s s1 -> forall a m, Anc s1 a m -> m < rsize s -> a < rsize s.
Proof.
  intros I E a m A. induction A as [a n P|a m n P A IH]; intros H.
  - rewrite (Ext_rparent _ _ _ E H) in P. apply (i_parent s I) in P. eapply rkids_lt; eauto.
  - apply IH. rewrite (Ext_rparent _ _ _ E H) in P. apply (i_parent s I) in P. eapply rkids_lt; eauto.
Qed.

Lemma rc_clone_into_ok s opt sc :
  Inv s -> opt < rsize s -> sc < rsize s -> is_container (rdata s sc) = true ->
  forallb (closed (S (rsize s)) (abs s)) (rkids s opt) = true ->
  Inv (rc_clone_into s opt sc) /\
  abs (rc_clone_into s opt sc) = (let '(d1, ks) := copy_all (abs s) (kids (abs s) opt) in set_kids d1 sc ks).
Proof.
  intros I Ho Hsc Hcont C. rewrite forallb_forall in C.
  unfold rc_clone_into. fold (FC (S (rsize s))).
  assert (Hkids : forall k, In k (rkids s opt) ->
                            k < rsize s /\ closed (S (rsize s)) (abs s) k = true /\ rdata s k <> Document).
  { intros k Hk. split; [eapply (i_kids_lt s I); eauto|]. split; [apply C; auto|eapply (i_child s I); eauto]. }
  assert (G0 : good (rsize s) s []) by (split; [constructor|intros k []]).
  pose proof (clone_fold s (S (rsize s)) (clone_sub_spec s I _) (rsize s) (rkids s opt) s [] I
                         (Ext_refl s) (le_n _) Hkids G0) as F.
  pose proof (abs_fold (S (rsize s)) (abs_clone_sub _) (rkids s opt) s []) as A.
  unfold copy_all. rewrite size_abs, kids_abs. fold (FD (S (rsize s))). rewrite <- A. clear A.
  destruct (fold_left (FC (S (rsize s))) (rkids s opt) (s, [])) as [s1 ks]. unfold abs_pair. simpl in *.
  destruct F as [I1 [E1 [ND G1]]].
  pose proof (Ext_size _ _ E1) as Sz.
  set (old := rkids s1 sc).
  assert (Hold : forall k, In k old -> k < rsize s1).
  { intros k Hk. eapply (i_kids_lt s1 I1); eauto. }
  assert (Hks : forall k, In k ks -> k < rsize s1) by (intros k Hk; apply (G1 k Hk)).
  change (fold_left (fun acc k => set_parent acc k (Some sc)) ks s1) with (set_parents (Some sc) ks s1).
  destruct (set_parents_spec (Some sc) ks s1 Hks) as [Q1 [Q2 [Q3 [Q4 [Q5 [Q6 Q7]]]]]].
  set (s2 := set_parents (Some sc) ks s1) in *.
  set (s3 := set_rkids s2 sc ks).
  change (fold_left (fun acc k => set_parent acc k None) old s3) with (set_parents None old s3).
  assert (Hold3 : forall k, In k old -> k < rsize s3).
  { intros k Hk. unfold s3. rewrite rsize_set_rkids, Q1. auto. }
  destruct (set_parents_spec None old s3 Hold3) as [R1 [R2 [R3 [R4 [R5 [R6 R7]]]]]].
  set (s4 := set_parents None old s3) in *.
  split.
  - apply (inv_attach_many s1 s4 sc ks I1); auto.
    + rewrite R1. unfold s3. rewrite rsize_set_rkids. auto.
    + rewrite R2. unfold s3. simpl. auto.
    + intros m. rewrite R4. unfold s3. rewrite rdata_set_rkids. auto.
    + intros m. rewrite R6. fold old. destruct (mem m old); auto.
      unfold s3. rewrite rparent_set_rkids. apply Q6.
    + intros m N. rewrite R5. unfold s3. rewrite rkids_set_rkids_neq by auto. apply Q5.
    + rewrite R5. unfold s3. apply rkids_set_rkids_eq. rewrite Q1. lia.
    + intros k Hk. destruct (G1 k Hk) as [A [B [C1 D]]]. repeat split; auto.
      intros [Q|Q]; [lia|]. pose proof (anc_old s s1 I E1 _ _ Q Hsc). lia.
    + lia.
    + intros _. rewrite (Ext_rdata _ _ _ E1 Hsc). auto.
  - rewrite R7. unfold s3. rewrite abs_set_rkids, Q7. reflexivity.
Qed.

(* ---------- TreeSink::maybe_clone_an_option_into_selectedcontent, repaired ---------- *)
Lemma rc_clone_option_ok s n :
  Inv s -> n < rsize s -> is_html (rdata s n) s_option = true ->
  forallb (closed (S (rsize s)) (abs s)) (rkids s n) = true ->
  exists s', rc_clone_option true s n = Ok s' /\ Inv s' /\ abs s' = clone_option (abs s) n.
Proof.
  intros I Hn Ho C. unfold rc_clone_option, clone_option.
  rewrite (is_html_element _ _ Ho). cbn [negb].
  rewrite size_abs, (parent_of_abs s n I).
  assert (E : nearest_select (abs s) (S (rsize s)) (rparent s n) false =
              match rparent s n with Some p => rc_nearest_select s (S (rsize s)) p false | None => None end).
  { destruct (rparent s n); [apply nearest_select_abs; auto|reflexivity]. }
  rewrite E. clear E.
  destruct (match rparent s n with Some p => rc_nearest_select s (S (rsize s)) p false | None => None end)
    as [sel|]; [|eauto].
  rewrite !data_abs.
  destruct (has_attr_local s_multiple (attrs_of (rdata s sel))); [eauto|].
  rewrite kids_abs, find_selectedcontent_abs, find_selectedcontent_sel.
  destruct (rc_find_selectedcontent true s 0 (S (rsize s)) (rkids s sel)) as [sc|] eqn:F; [|eauto].
  destruct (has_attr_local s_selected (attrs_of (rdata s n))); [|eauto].
  destruct (find_selectedcontent_found s I _ _ _ (fun x H => i_kids_lt s I _ _ H) F) as [Hsc Hc].
  destruct (rc_clone_into_ok s n sc I Hn Hsc Hc C) as [A B].
  eexists. split; [reflexivity|]. split; auto.
Qed.

(* ---------- every operation, repaired code ---------- *)
Lemma step_ok_fixed s op :
  Inv s -> contract_ok (abs s) op = true -> clone_finite_op (abs s) op = true ->
  exists s', rapply true s op = Ok s' /\ Inv s' /\ abs s' = apply (abs s) op.
Proof.
  intros I H C. destruct op; try exact (step_ok s _ I H).
  simpl in *. unfold rwith1, with1. rewrite resolve_abs in *.
  destruct (rresolve s opt) as [n|] eqn:R; [|discriminate].
  rewrite data_abs in H. rewrite size_abs, kids_abs in C.
  apply rc_clone_option_ok; auto. eapply (i_names s I); eauto.
Qed.

Theorem refines_from_fixed ops : forall s,
  Inv s -> contract_run (abs s) ops = true -> clone_finite_run (abs s) ops = true ->
  exists s', rrun_from true s ops = Ok s' /\ Inv s' /\ abs s' = run_from (abs s) ops.
Proof.
  induction ops as [|op t IH]; intros s I C F; simpl in *.
  - exists s. auto.
  - apply andb_true_iff in C. destruct C as [C1 C2].
    apply andb_true_iff in F. destruct F as [F1 F2].
    destruct (step_ok_fixed s op I C1 F1) as [s1 [E1 [I1 E2]]].
    rewrite E1. rewrite <- E2 in *. apply IH; auto.
Qed.

(* THE refinement theorem for the repaired code: every operation, cloning included *)
Theorem refines ops :
  contract_run init ops = true -> clone_finite_run init ops = true ->
  exists s, rrun true ops = Ok s /\ Inv s /\ abs s = run ops.
Proof.
  intros C F. rewrite <- abs_rinit in *. apply refines_from_fixed; auto. apply inv_rinit.
Qed.

(* sequences without a clone request need no finiteness premise *)
Lemma no_clone_finite ops : forall d, no_clone ops = true -> clone_finite_run d ops = true.
Proof.
  induction ops as [|op t IH]; intros d H; simpl in *; auto.
  destruct op; try discriminate; simpl; auto.
Qed.
