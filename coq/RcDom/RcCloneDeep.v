(* C20: with the repaired code the first selectedcontent descendant (tree order)
   of the option's nearest ancestor select receives deep copies of the option's
   children - the positive form of the property that is refuted for the pinned
   commit (RcClone.selectedcontent_refuted). *)
From Coq Require Import List NArith Bool Arith Lia.
From HV Require Import Dom.DomSpec Dom.DomLemmas Dom.DomCopy Dom.DomCopyProofs
                       RcDom.RcModel RcDom.RcBasics RcDom.RcInv RcDom.RcProofs RcDom.RcClone RcDom.RcCloneProofs.
Import ListNotations.

Lemma dom_closed_abs s : Inv s -> dom_closed (abs s).
Proof. intros I p c H. rewrite kids_abs in H. rewrite size_abs. eapply (i_kids_lt s I); eauto. Qed.

Theorem selectedcontent_filled_repaired s0 n s1 :
  Inv s0 -> n < rsize s0 -> is_html (rdata s0 n) s_option = true ->
  forallb (closed (S (rsize s0)) (abs s0)) (rkids s0 n) = true ->
  rc_clone_option true s0 n = Ok s1 ->
  selectedcontent_filled s0 s1 n.
Proof.
  intros I Hn Ho Cl R.
  destruct (rc_clone_option_ok s0 n I Hn Ho Cl) as [s' [R' [_ A]]].
  rewrite R in R'. inversion R'; subst s'. clear R'.
  unfold selectedcontent_filled.
  destruct (nearest_select (abs s0) (S (size (abs s0))) (parent_of (abs s0) n) false) as [sel|] eqn:E1; auto.
  destruct (has_attr_local s_multiple (attrs_of (data_of (abs s0) sel))) eqn:E2; auto.
  destruct (first_in_tree_order (abs s0) (fun x => is_html x s_selectedcontent) (S (size (abs s0)))
                                (kids (abs s0) sel)) as [sc|] eqn:E3; auto.
  destruct (has_attr_local s_selected (attrs_of (data_of (abs s0) n))) eqn:E4; auto.
  assert (Hsc : sc < size (abs s0)).
  { rewrite size_abs. pose proof E3 as F. rewrite find_selectedcontent_abs, kids_abs, size_abs in F.
    eapply (find_selectedcontent_found s0 I); [|exact F].
    intros x Hx. eapply (i_kids_lt s0 I); eauto. }
  destruct (clone_option_deep (abs s0) (dom_closed_abs s0 I)
              (fun m nm a t ip H => eq_ind_r (fun k => t < k) (i_tmpl s0 I m nm a t ip (eq_trans (eq_sym (data_abs s0 m)) H)) (size_abs s0))
              n sel sc E1 E2 E3 E4 Hsc) as [ts1 [ts2 [T1 [T2 T3]]]].
  { rewrite size_abs, kids_abs. exact Cl. }
  exists (S (size (abs s0))), ts1, ts2. rewrite A, <- kids_abs, A. auto.
Qed.

Lemma contract_run_app a : forall d b,
  contract_run d (a ++ b) = contract_run d a && contract_run (run_from d a) b.
Proof.
  induction a as [|op t IH]; intros d b; simpl; auto.
  rewrite IH. unfold run_from at 2. simpl. rewrite andb_assoc. reflexivity.
Qed.
Lemma clone_finite_run_app a : forall d b,
  clone_finite_run d (a ++ b) = clone_finite_run d a && clone_finite_run (run_from d a) b.
Proof.
  induction a as [|op t IH]; intros d b; simpl; auto.
  rewrite IH. unfold run_from at 2. simpl. rewrite andb_assoc. reflexivity.
Qed.

(* the property of RcClone.v (there without the finiteness premise, which no tree builder violates) *)
Theorem selectedcontent_property_repaired :
  forall ops o s0 s1 n,
    contract_run init (ops ++ [OpCloneOption o]) = true ->
    clone_finite_run init (ops ++ [OpCloneOption o]) = true ->
    rrun true ops = Ok s0 -> rresolve s0 o = Some n ->
    rapply true s0 (OpCloneOption o) = Ok s1 ->
    selectedcontent_filled s0 s1 n.
Proof.
  intros ops o s0 s1 n C F R N A.
  rewrite contract_run_app in C. apply andb_true_iff in C. destruct C as [C1 C2].
  rewrite clone_finite_run_app in F. apply andb_true_iff in F. destruct F as [F1 F2].
  destruct (refines ops C1 F1) as [s [R' [I E]]]. rewrite R in R'. inversion R'; subst s. clear R'.
  fold (run ops) in C2, F2. rewrite <- E in C2, F2.
  simpl in C2, F2. rewrite resolve_abs, N in C2, F2. rewrite andb_true_r in C2, F2.
  rewrite data_abs in C2. rewrite size_abs, kids_abs in F2.
  simpl in A. unfold rwith1 in A. rewrite N in A.
  apply selectedcontent_filled_repaired; auto. eapply (i_names s0 I); eauto.
Qed.
