(* C20: the finiteness premise of the refinement theorem for the repaired
   cloning cannot be dropped.  DomSpec.contract_ok looks at parent chains only,
   so it lets a template be inserted (through a select and an option) into its
   own contents; deep-copying that option never ends (rcdom's clone_with_subtree
   recurses for ever; the fuelled model runs out of fuel and hands back an
   original node as its own "copy", which then has two parents).  No tree builder
   builds such a template.  Witness evaluated with vm_compute. *)
From Coq Require Import List NArith Bool Arith.
From HV Require Import Dom.DomSpec Dom.DomCopy RcDom.RcModel RcDom.RcProofs RcDom.RcClone.
Import ListNotations.

Definition s_template : str := [116;101;109;112;108;97;116;101]%N.

(* template T (h1), its contents C (h2) hold select (h3) > [selectedcontent (h4),
   option selected (h5)], and T is appended to the option *)
Definition wcyc : list sinkop :=
  [ OpCreateElement 1 (hq s_template) [] true false false ; OpGetTemplateContents 1 2 ;
    el 3 s_select ; OpAppend 2 (inl 3) ; el 4 s_selectedcontent ; OpAppend 3 (inl 4) ;
    OpCreateElement 5 (hq s_option) [a_selected] false false false ; OpAppend 3 (inl 5) ;
    OpAppend 5 (inl 1) ; OpCloneOption 5 ].

Theorem finiteness_premise_needed :
  exists ops s,
    contract_run init ops = true /\ clone_finite_run init ops = false /\ rrun true ops = Ok s /\
    exists n p, In n (rkids s p) /\ rparent s n <> Some p.
Proof.
  exists wcyc, (state_of (rrun true wcyc)).
  split; [vm_compute; reflexivity|]. split; [vm_compute; reflexivity|]. split; [vm_compute; reflexivity|].
  exists 4, 3. split; vm_compute; [auto|discriminate].
Qed.
