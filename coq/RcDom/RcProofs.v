(* C20: the RcDom model refines the abstract DOM for contract-respecting
   operation sequences, and keeps parent links and child lists consistent. *)
From Coq Require Import List NArith Bool Arith Lia.
From HV Require Import Dom.DomSpec Dom.DomLemmas RcDom.RcModel RcDom.RcBasics RcDom.RcInv.
Import ListNotations.

Lemma ancs_abs' s c p : Inv s -> AncS s c p -> ancs (parent_of (abs s)) c p.
Proof.
  intros I [->|H]; [left; auto|]. right.
  eapply anc_ext; [|exact H]. intros x. symmetry. apply parent_of_abs; auto.
Qed.

(* what the contract guarantees about a child handed over for insertion below [p] *)
Definition child_ok (s : rc) (p : nid) (cc : nid + str) : Prop :=
  match cc with
  | inl n => n < rsize s /\ rparent s n = None /\ rdata s n <> Document /\ ~ AncS s n p
  | inr _ => True
  end.

Lemma child_resolve s p c :
  Inv s -> insertable (abs s) p c = true ->
  exists cc, child_ok s p cc /\
             (forall k, rwith_child s c k = k cc) /\ (forall k, with_child (abs s) c k = k cc).
Proof.
  intros I H. destruct c as [h|t]; simpl in *.
  - rewrite resolve_abs in *. destruct (rresolve s h) as [n|] eqn:R; [|discriminate].
    exists (inl n). apply andb_true_iff in H. destruct H as [H H3].
    apply andb_true_iff in H. destruct H as [H1 H2].
    rewrite data_abs in H1. rewrite parent_of_abs in H2 by auto.
    split; [|split; intros; rewrite ?resolve_abs, ?R; reflexivity].
    simpl. repeat split.
    + eapply (i_names s I); eauto.
    + destruct (rparent s n); [discriminate|reflexivity].
    + intros E. rewrite E in H1. discriminate.
    + intros A. apply negb_true_iff in H3. unfold in_subtree in H3.
      apply reaches_up_sound in H3. apply H3. apply ancs_abs'; auto.
  - exists (inr t). simpl. auto.
Qed.

Lemma insert_at_eq sib c l i : index_of sib l = Some i -> insert_at i c l = insert_before sib c l.
Proof. exact (insert_at_before sib c l i). Qed.
Lemma remove_at_eq t l i : NoDup l -> index_of t l = Some i -> remove_at i l = remove_all t l.
Proof. exact (remove_at_all t l i). Qed.

(* ---------- fn append ---------- *)
Lemma link_ok s p c :
  Inv s -> p < rsize s -> c < rsize s -> rparent s c = None ->
  is_container (rdata s p) = true -> rdata s c <> Document -> ~ AncS s c p ->
  exists s', link s p c = Ok s' /\ Inv s' /\ abs s' = append_node (abs s) p c.
Proof.
  intros I Hp Hc Hpc Hcont Hdoc Hanc. unfold link. rewrite Hpc.
  eexists. split; [reflexivity|]. split.
  - apply (inv_attach s _ p c I); auto.
    + rewrite rsize_set_rkids, rsize_set_parent. reflexivity.
    + intros m. rewrite rdata_set_rkids, rdata_set_parent. reflexivity.
    + intros m. rewrite rparent_set_rkids. destruct (Nat.eqb m c) eqn:Q.
      * apply Nat.eqb_eq in Q. subst. apply rparent_set_parent_eq; auto.
      * apply Nat.eqb_neq in Q. apply rparent_set_parent_neq; auto.
    + intros m N. rewrite rkids_set_rkids_neq by auto. apply rkids_set_parent.
    + intros x. rewrite rkids_set_rkids_eq by (rewrite rsize_set_parent; auto).
      rewrite rkids_set_parent, in_app_iff. simpl. intuition.
    + rewrite rkids_set_rkids_eq by (rewrite rsize_set_parent; auto).
      rewrite rkids_set_parent. apply NoDup_app'.
      * apply (i_nodup s I).
      * constructor; [simpl; tauto|constructor].
      * intros x H [<-|[]]. apply (i_parent s I) in H. congruence.
  - rewrite abs_set_rkids, abs_set_parent, rkids_set_parent.
    unfold append_node. rewrite kids_abs. reflexivity.
Qed.

(* ---------- fn remove_from_parent ---------- *)
Lemma unlink_noparent s t : rparent s t = None -> unlink s t = Ok s.
Proof. intros H. unfold unlink, get_parent_and_index. rewrite H. reflexivity. Qed.

Lemma unlink_ok s t :
  Inv s -> exists s', unlink s t = Ok s' /\ Inv s' /\ abs s' = detach (abs s) t.
Proof.
  intros I. unfold detach. rewrite parent_of_abs by auto.
  destruct (rparent s t) as [p|] eqn:E.
  - unfold unlink, get_parent_and_index. rewrite E.
    assert (Hin : In t (rkids s p)) by (apply (i_parent s I); auto).
    destruct (index_of_In _ _ Hin) as [i Hi]. rewrite Hi.
    pose proof (rkids_lt _ _ _ Hin) as Hp.
    assert (Hrm : remove_at i (rkids s p) = remove_all t (rkids s p)).
    { apply remove_at_eq; auto. apply (i_nodup s I). }
    eexists. split; [reflexivity|]. split.
    + apply (inv_detach s _ p t I); auto.
      * rewrite rsize_set_parent, rsize_set_rkids. reflexivity.
      * intros m. rewrite rdata_set_parent, rdata_set_rkids. reflexivity.
      * intros m. destruct (Nat.eqb m t) eqn:Q.
        -- apply Nat.eqb_eq in Q. subst. apply rparent_set_parent_eq.
           rewrite rsize_set_rkids. eapply (i_kids_lt s I); eauto.
        -- apply Nat.eqb_neq in Q. rewrite rparent_set_parent_neq by auto. apply rparent_set_rkids.
      * intros m N. rewrite rkids_set_parent. apply rkids_set_rkids_neq; auto.
      * rewrite rkids_set_parent, rkids_set_rkids_eq by auto. exact Hrm.
    + rewrite abs_set_parent, abs_set_rkids, Hrm, kids_abs. reflexivity.
  - rewrite unlink_noparent by auto. eauto.
Qed.

(* ---------- the tail of append_before_sibling ---------- *)
Lemma place_at_ok s p sib i c :
  Inv s -> index_of sib (rkids s p) = Some i ->
  c < rsize s -> rparent s c = None ->
  is_container (rdata s p) = true -> rdata s c <> Document -> ~ AncS s c p ->
  exists s', place_at s p i c = Ok s' /\ Inv s' /\
             abs s' = set_kids (abs s) p (insert_before sib c (rkids s p)).
Proof.
  intros I Hi Hc Hpc Hcont Hdoc Hanc.
  destruct (index_of_Some _ _ _ Hi) as [Hlt [_ Hin]].
  pose proof (rkids_lt _ _ _ Hin) as Hp.
  unfold place_at. rewrite unlink_noparent by auto.
  rewrite rkids_set_parent.
  replace (Nat.ltb (length (rkids s p)) i) with false by (symmetry; apply Nat.ltb_ge, Nat.lt_le_incl, Hlt).
  rewrite (insert_at_eq sib c _ i Hi).
  assert (Hnc : ~ In c (rkids s p)).
  { intros H. apply (i_parent s I) in H. congruence. }
  eexists. split; [reflexivity|]. split.
  - apply (inv_attach s _ p c I); auto.
    + rewrite rsize_set_rkids, rsize_set_parent. reflexivity.
    + intros m. rewrite rdata_set_rkids, rdata_set_parent. reflexivity.
    + intros m. rewrite rparent_set_rkids. destruct (Nat.eqb m c) eqn:Q.
      * apply Nat.eqb_eq in Q. subst. apply rparent_set_parent_eq; auto.
      * apply Nat.eqb_neq in Q. apply rparent_set_parent_neq; auto.
    + intros m N. rewrite rkids_set_rkids_neq by auto. apply rkids_set_parent.
    + intros x. rewrite rkids_set_rkids_eq by (rewrite rsize_set_parent; auto).
      apply In_insert_before; auto.
    + rewrite rkids_set_rkids_eq by (rewrite rsize_set_parent; auto).
      apply NoDup_insert_before; auto. apply (i_nodup s I).
  - rewrite abs_set_rkids, abs_set_parent. reflexivity.
Qed.

(* ---------- a fresh text node ---------- *)
Lemma fresh_text s t p :
  Inv s -> p < rsize s ->
  let s1 := ralloc s (Text t) None [] in
  Inv s1 /\ rsize s < rsize s1 /\ rparent s1 (rsize s) = None /\
  rdata s1 (rsize s) <> Document /\ ~ AncS s1 (rsize s) p /\
  rdata s1 p = rdata s p /\ rkids s1 p = rkids s p.
Proof.
  intros I Hp s1.
  assert (I1 : Inv s1) by (apply inv_ralloc; auto; intros; discriminate).
  split; auto. subst s1. rewrite rsize_ralloc, rparent_ralloc_new, rdata_ralloc_new.
  rewrite rdata_ralloc_old, rkids_ralloc_old by lia.
  repeat split; auto; try discriminate.
  intros [E|A]; [lia|].
  eapply (no_kids_no_anc _ _ _ I1); [|exact A]. apply rkids_ralloc_new.
Qed.

Lemma last_some_In (l : list nid) h : last (map Some l) None = Some h -> In h l.
Proof.
  induction l as [|a l IH]; simpl; [discriminate|].
  destruct l as [|b l]; simpl in *.
  - intros H; inversion H; auto.
  - intros H. right. apply IH. exact H.
Qed.

(* ---------- TreeSink::append ---------- *)
Lemma rc_append_ok s p cc :
  Inv s -> p < rsize s -> is_container (rdata s p) = true -> child_ok s p cc ->
  exists s', rc_append s p cc = Ok s' /\ Inv s' /\ abs s' = do_append (abs s) p cc.
Proof.
  intros I Hp Hcont Hc. destruct cc as [n|t]; simpl in *.
  - destruct Hc as [A [B [C D]]]. apply link_ok; auto.
  - unfold append_text. rewrite kids_abs.
    assert (Hfresh : exists s', new_text_under s p t = Ok s' /\ Inv s' /\
                                abs s' = append_node (alloc (abs s) (Text t) []) p (size (abs s))).
    { destruct (fresh_text s t p I Hp) as [I1 [F1 [F2 [F3 [F4 [F5 F6]]]]]].
      unfold new_text_under.
      destruct (link_ok _ p (rsize s) I1) as [s' [E1 [E2 E3]]]; auto.
      - rewrite rsize_ralloc; lia.
      - rewrite F5; auto.
      - exists s'. split; [auto|]. split; [auto|]. rewrite E3, abs_ralloc, size_abs. reflexivity. }
    destruct (last (map Some (rkids s p)) None) as [h|] eqn:L; [|exact Hfresh].
    rewrite data_abs. destruct (rdata s h) eqn:D; try exact Hfresh.
    apply last_some_In in L. pose proof (i_kids_lt s I _ _ L) as Hh.
    eexists. split; [reflexivity|]. split.
    + apply inv_set_rdata; auto; try rewrite D; simpl; auto.
      * split; discriminate.
      * intros; discriminate.
    + apply abs_set_rdata.
Qed.

(* ---------- TreeSink::append_before_sibling ---------- *)
Lemma rc_before_ok s sn p cc :
  Inv s -> rparent s sn = Some p -> child_ok s p cc ->
  exists s', rc_before s sn cc = Ok s' /\ Inv s' /\ abs s' = do_before (abs s) sn cc.
Proof.
  intros I Hsp Hc.
  assert (Hin : In sn (rkids s p)) by (apply (i_parent s I); auto).
  destruct (index_of_In _ _ Hin) as [i Hi].
  pose proof (rkids_lt _ _ _ Hin) as Hp.
  pose proof (i_container s I _ _ Hin) as Hcont.
  unfold rc_before, get_parent_and_index. rewrite Hsp, Hi.
  destruct cc as [n|t]; simpl in *.
  - destruct Hc as [A [B [C D]]].
    unfold before_node, detach. rewrite (parent_of_abs s n I), B.
    rewrite (parent_of_abs s sn I), Hsp, kids_abs.
    eapply place_at_ok; eauto.
  - unfold before_text. rewrite (parent_of_abs s sn I), Hsp, kids_abs.
    rewrite (prev_of_index _ _ _ Hi).
    assert (Hfresh : exists s', place_at (ralloc s (Text t) None []) p i (rsize s) = Ok s' /\ Inv s' /\
              abs s' = set_kids (alloc (abs s) (Text t) []) p (insert_before sn (size (abs s)) (rkids s p))).
    { destruct (fresh_text s t p I Hp) as [I1 [F1 [F2 [F3 [F4 [F5 F6]]]]]].
      destruct (place_at_ok _ p sn i (rsize s) I1) as [s' [E1 [E2 E3]]]; auto.
      - rewrite F6; auto.
      - rewrite F5; auto.
      - exists s'. split; [auto|]. split; [auto|]. rewrite E3, abs_ralloc, size_abs, F6. reflexivity. }
    destruct i as [|j]; [exact Hfresh|].
    rewrite data_abs. unfold nid in *.
    match goal with |- context [match rdata s ?x with _ => _ end] => destruct (rdata s x) eqn:D end; try exact Hfresh.
    destruct (index_of_Some _ _ _ Hi) as [Hlt _].
    assert (Hq : In (nth j (rkids s p) 0) (rkids s p)) by (apply nth_In, Nat.lt_succ_l, Hlt).
    pose proof (i_kids_lt s I _ _ Hq) as Hh.
    eexists. split; [reflexivity|]. split.
    + apply inv_set_rdata; auto; try rewrite D; simpl; auto.
      * split; discriminate.
      * intros; discriminate.
    + apply abs_set_rdata.
Qed.

(* ---------- TreeSink::reparent_children ---------- *)
Lemma reparent_loop_ok a b l : forall s,
  NoDup l -> (forall c, In c l -> rparent s c = Some a /\ c < rsize s) ->
  exists s1, reparent_loop s a b l = Ok s1 /\ rsize s1 = rsize s /\ r_names s1 = r_names s /\
             (forall m, rdata s1 m = rdata s m) /\ (forall m, rkids s1 m = rkids s m) /\
             (forall m, rparent s1 m = if mem m l then Some b else rparent s m) /\
             abs s1 = abs s.
Proof.
  induction l as [|c l IH]; intros s ND H; simpl.
  - exists s. simpl. repeat split; auto.
  - inversion ND; subst. destruct (H c (or_introl eq_refl)) as [Hc Hlt].
    rewrite Hc, Nat.eqb_refl.
    destruct (IH (set_parent s c (Some b))) as [s1 [E1 [E2 [E3 [E4 [E5 [E6 E7]]]]]]]; auto.
    { intros x Hx. rewrite rsize_set_parent. rewrite rparent_set_parent_neq.
      - apply H; simpl; auto.
      - intros ->. tauto. }
    exists s1. split; auto. rewrite rsize_set_parent in E2. split; auto. split; auto.
    split; [intros; rewrite E4; apply rdata_set_parent|].
    split; [intros; rewrite E5; apply rkids_set_parent|].
    split; [|rewrite E7; apply abs_set_parent].
    intros m. rewrite E6. unfold mem at 2. simpl.
    destruct (Nat.eqb m c) eqn:Q; simpl.
    + apply Nat.eqb_eq in Q. subst.
      replace (mem c l) with false by (symmetry; apply mem_false; auto).
      apply rparent_set_parent_eq; auto.
    + apply Nat.eqb_neq in Q. fold (mem m l). destruct (mem m l); auto.
      apply rparent_set_parent_neq; auto.
Qed.

Lemma rc_reparent_ok s a b :
  Inv s -> a < rsize s -> b < rsize s -> a <> b ->
  is_container (rdata s b) = true -> ~ AncS s a b ->
  exists s', rc_reparent s a b = Ok s' /\ Inv s' /\ abs s' = reparent (abs s) a b.
Proof.
  intros I Ha Hb Hab Hcont Hanc. unfold rc_reparent.
  replace (Nat.eqb a b) with false by (symmetry; apply Nat.eqb_neq; auto).
  destruct (reparent_loop_ok a b (rkids s a) s) as [s1 [E1 [E2 [E3 [E4 [E5 [E6 E7]]]]]]].
  { apply (i_nodup s I). }
  { intros c H. split; [apply (i_parent s I); auto|eapply (i_kids_lt s I); eauto]. }
  rewrite E1. eexists. split; [reflexivity|]. split.
  - apply (inv_reparent s _ a b I); auto.
    + rewrite !rsize_set_rkids. auto.
    + intros m. rewrite !rdata_set_rkids. auto.
    + intros m. rewrite !rparent_set_rkids. auto.
    + intros m Na Nb. rewrite !rkids_set_rkids_neq by auto. auto.
    + apply rkids_set_rkids_eq. rewrite rsize_set_rkids. lia.
    + rewrite rkids_set_rkids_neq by auto. rewrite rkids_set_rkids_eq by lia.
      rewrite !E5. reflexivity.
  - rewrite !abs_set_rkids, E7, !E5. unfold reparent. rewrite !kids_abs. reflexivity.
Qed.

(* ---------- the option->selectedcontent code of the pinned commit never clones ---------- *)
Lemma nearest_select_is_select s fuel : forall cur seen sel,
  rc_nearest_select s fuel cur seen = Some sel -> local_is (rdata s sel) s_select = true.
Proof.
  induction fuel; simpl; intros cur seen sel H; [discriminate|].
  assert (Hnext : forall sn, match rparent s cur with
                             | Some a => rc_nearest_select s fuel a sn
                             | None => None
                             end = Some sel -> local_is (rdata s sel) s_select = true).
  { intros sn E. destruct (rparent s cur); [eapply IHfuel; eauto|discriminate]. }
  destruct (is_element (rdata s cur)); [|eapply Hnext; eauto].
  destruct (local_is (rdata s cur) s_datalist || local_is (rdata s cur) s_hr || local_is (rdata s cur) s_option);
    [discriminate|].
  destruct (local_is (rdata s cur) s_optgroup).
  - destruct seen; [discriminate|eapply Hnext; eauto].
  - destruct (local_is (rdata s cur) s_select) eqn:E.
    + inversion H; subst. exact E.
    + eapply Hnext; eauto.
Qed.

Lemma find_selectedcontent_self_data s sel fuel : forall q,
  local_is (rdata s sel) s_selectedcontent = false ->
  rc_find_selectedcontent false s sel fuel q = None.
Proof.
  induction fuel; simpl; intros q H; auto.
  destruct q; auto. rewrite H. apply IHfuel; auto.
Qed.

Lemma select_not_selectedcontent x :
  local_is x s_select = true -> local_is x s_selectedcontent = false.
Proof.
  destruct x; simpl; auto. intros H. apply andb_true_iff in H. destruct H as [_ H].
  apply str_eqb_eq in H. rewrite H. apply andb_false_r.
Qed.

Lemma rc_clone_option_noop s n :
  is_element (rdata s n) = true -> rc_clone_option false s n = Ok s.
Proof.
  intros H. unfold rc_clone_option. rewrite H. cbn [negb].
  destruct (match rparent s n with
            | Some p => rc_nearest_select s (S (rsize s)) p false
            | None => None
            end) as [sel|] eqn:E; auto.
  assert (Hs : local_is (rdata s sel) s_select = true).
  { destruct (rparent s n); [|discriminate]. eapply nearest_select_is_select; eauto. }
  destruct (has_attr_local s_multiple (attrs_of (rdata s sel))); auto.
  rewrite find_selectedcontent_self_data; auto.
  apply select_not_selectedcontent; auto.
Qed.

Lemma size_alloc d x ks : size (alloc d x ks) = S (size d).
Proof. unfold size, alloc; simpl. rewrite app_length; simpl; lia. Qed.

(* ---------- one operation ---------- *)
Lemma elem_h_facts s h :
  Inv s -> elem_h (abs s) h = true ->
  exists n, rresolve s h = Some n /\ n < rsize s /\ is_element (rdata s n) = true.
Proof.
  intros I H. unfold elem_h in H. rewrite resolve_abs in H.
  destruct (rresolve s h) as [n|] eqn:R; [|discriminate].
  rewrite data_abs in H. exists n. repeat split; auto. eapply (i_names s I); eauto.
Qed.

Lemma is_element_container x : is_element x = true -> is_container x = true.
Proof. destruct x; simpl; auto. Qed.

Lemma append_ok_facts s pn c :
  Inv s -> pn < rsize s -> append_ok (abs s) pn c = true ->
  exists cc, is_container (rdata s pn) = true /\ child_ok s pn cc /\
             (forall k, rwith_child s c k = k cc) /\ (forall k, with_child (abs s) c k = k cc).
Proof.
  intros I Hp H. unfold append_ok in H. apply andb_true_iff in H. destruct H as [H1 H2].
  rewrite data_abs in H1. destruct (child_resolve s pn c I H2) as [cc [A [B C]]].
  exists cc. auto.
Qed.

Lemma before_ok_facts s sn c :
  Inv s -> before_ok (abs s) sn c = true ->
  exists p cc, rparent s sn = Some p /\ child_ok s p cc /\
               (forall k, rwith_child s c k = k cc) /\ (forall k, with_child (abs s) c k = k cc).
Proof.
  intros I H. unfold before_ok in H. apply andb_true_iff in H. destruct H as [_ H].
  rewrite parent_of_abs in H by auto. destruct (rparent s sn) as [p|] eqn:E; [|discriminate].
  destruct (child_resolve s p c I H) as [cc [A [B C]]]. exists p, cc. auto.
Qed.

Lemma step_ok s op :
  Inv s -> contract_ok (abs s) op = true ->
  exists s', rapply false s op = Ok s' /\ Inv s' /\
             match op with
             | OpCloneOption _ => abs s' = abs s
             | _ => abs s' = apply (abs s) op
             end.
Proof.
  intros I H. destruct op; simpl in H |- *.
  - (* create_element *)
    apply andb_true_iff in H. destruct H as [_ _].
    destruct template.
    + eexists. split; [reflexivity|]. split.
      * apply inv_radd_name.
        -- apply inv_ralloc; [apply inv_ralloc; auto; intros; discriminate|].
           intros nm a c ip E. inversion E; subst. rewrite rsize_ralloc. lia.
        -- rewrite !rsize_ralloc. lia.
      * rewrite abs_radd_name, !abs_ralloc, size_alloc, !size_abs, rsize_ralloc. reflexivity.
    + eexists. split; [reflexivity|]. split.
      * apply inv_radd_name; [apply inv_ralloc; auto; intros; discriminate|].
        rewrite rsize_ralloc. lia.
      * rewrite abs_radd_name, abs_ralloc, size_abs. reflexivity.
  - (* create_comment *)
    eexists. split; [reflexivity|]. split.
    + apply inv_radd_name; [apply inv_ralloc; auto; intros; discriminate|].
      rewrite rsize_ralloc. lia.
    + rewrite abs_radd_name, abs_ralloc, size_abs. reflexivity.
  - (* create_pi *)
    eexists. split; [reflexivity|]. split.
    + apply inv_radd_name; [apply inv_ralloc; auto; intros; discriminate|].
      rewrite rsize_ralloc. lia.
    + rewrite abs_radd_name, abs_ralloc, size_abs. reflexivity.
  - (* append *)
    unfold rwith1, with1. rewrite resolve_abs in *.
    destruct (rresolve s parent) as [pn|] eqn:R; [|discriminate].
    pose proof (i_names s I _ _ R) as Hp.
    destruct (append_ok_facts s pn c I Hp H) as [cc [A [B [C D]]]].
    rewrite C, D. apply rc_append_ok; auto.
  - (* append_before_sibling *)
    unfold rwith1, with1. rewrite resolve_abs in *.
    destruct (rresolve s sibling) as [sn|] eqn:R; [|discriminate].
    destruct (before_ok_facts s sn c I H) as [p [cc [A [B [C D]]]]].
    rewrite C, D. eapply rc_before_ok; eauto.
  - (* append_based_on_parent_node *)
    apply andb_true_iff in H. destruct H as [H H3].
    apply andb_true_iff in H. destruct H as [H1 H2].
    destruct (elem_h_facts s element I H1) as [en [Re [Le Ee]]].
    destruct (elem_h_facts s prev_element I H2) as [pn [Rp [Lp Ep]]].
    unfold rwith1, with1. rewrite !resolve_abs in *. rewrite Re, Rp in *.
    unfold rc_based. rewrite parent_of_abs in * by auto.
    destruct (rparent s en) as [q|] eqn:Q.
    + destruct (before_ok_facts s en c I H3) as [p [cc [A [B [C D]]]]].
      rewrite C, D. eapply rc_before_ok; eauto.
    + destruct (append_ok_facts s pn c I Lp H3) as [cc [A [B [C D]]]].
      rewrite C, D. apply rc_append_ok; auto.
  - (* append_doctype_to_document *)
    pose proof (i_size s I) as H0.
    assert (I1 : Inv (ralloc s (Doctype name pub sys) None [])) by (apply inv_ralloc; auto; intros; discriminate).
    destruct (link_ok _ 0 (rsize s) I1) as [s' [E1 [E2 E3]]].
    + rewrite rsize_ralloc. lia.
    + rewrite rsize_ralloc. lia.
    + apply rparent_ralloc_new.
    + rewrite rdata_ralloc_old by lia. rewrite (i_doc0 s I). reflexivity.
    + rewrite rdata_ralloc_new. discriminate.
    + intros [E|A]; [lia|]. eapply (no_kids_no_anc _ _ _ I1); [|exact A]. apply rkids_ralloc_new.
    + exists s'. split; [auto|]. split; [auto|]. rewrite E3, abs_ralloc, size_abs. reflexivity.
  - (* add_attrs_if_missing *)
    apply andb_true_iff in H. destruct H as [H1 H2].
    destruct (elem_h_facts s target I H1) as [tn [Rt [Lt Et]]].
    unfold rwith1, with1. rewrite resolve_abs, Rt. unfold rc_add_attrs. rewrite data_abs.
    destruct (rdata s tn) eqn:D; try discriminate.
    eexists. split; [reflexivity|]. split.
    + apply inv_set_rdata; auto; try rewrite D; simpl; auto.
      * split; discriminate.
      * intros nm a c ip E. inversion E; subst. eapply (i_tmpl s I); eauto.
    + rewrite abs_set_rdata, add_missing_filter by auto. reflexivity.
  - (* remove_from_parent *)
    unfold rwith1, with1. rewrite resolve_abs in *.
    destruct (rresolve s target) as [tn|] eqn:R; [|discriminate].
    apply unlink_ok; auto.
  - (* reparent_children *)
    unfold rwith1, with1. rewrite !resolve_abs in *.
    destruct (rresolve s nd) as [an|] eqn:Ra; [|discriminate].
    destruct (rresolve s new_parent) as [bn|] eqn:Rb; [|discriminate].
    apply andb_true_iff in H. destruct H as [H H3].
    apply andb_true_iff in H. destruct H as [H1 H2].
    rewrite data_abs in *.
    apply negb_true_iff in H3. unfold in_subtree in H3. apply reaches_up_sound in H3.
    apply rc_reparent_ok; auto.
    + eapply (i_names s I); eauto.
    + eapply (i_names s I); eauto.
    + intros ->. apply H3. left. reflexivity.
    + intros A. apply H3. apply ancs_abs'; auto.
  - (* get_template_contents *)
    unfold rwith1, with1. rewrite resolve_abs in *.
    destruct (rresolve s target) as [tn|] eqn:R; [|discriminate].
    rewrite data_abs in *. destruct (rdata s tn) eqn:D; try discriminate.
    destruct tmpl as [c|]; [|discriminate].
    eexists. split; [reflexivity|]. simpl.
    destruct (Nat.eqb result (length (r_names s))); split; auto.
    apply inv_radd_name; auto. eapply (i_tmpl s I); eauto.
  - (* mark_script_already_started *)
    destruct (elem_h_facts s h I H) as [n [R _]]. unfold rwith1. rewrite R. eauto.
  - (* pop *)
    destruct (elem_h_facts s h I H) as [n [R _]]. unfold rwith1. rewrite R. eauto.
  - (* set_quirks_mode *)
    eexists. split; [reflexivity|]. split; [|reflexivity].
    destruct I. constructor; auto.
  - (* set_current_line *)
    eauto.
  - (* associate_with_form *)
    apply andb_true_iff in H. destruct H as [H H4].
    apply andb_true_iff in H. destruct H as [H H3].
    apply andb_true_iff in H. destruct H as [H1 H2].
    destruct (elem_h_facts s target I H1) as [n1 [R1 _]].
    destruct (elem_h_facts s form I H2) as [n2 [R2 _]].
    destruct (elem_h_facts s element I H3) as [n3 [R3 _]].
    unfold rwith1. rewrite R1, R2, R3.
    destruct prev as [x|]; [|eauto].
    destruct (elem_h_facts s x I H4) as [n4 [R4 _]]. rewrite R4. eauto.
  - (* maybe_clone_an_option_into_selectedcontent *)
    unfold rwith1. rewrite resolve_abs in H.
    destruct (rresolve s opt) as [n|] eqn:R; [|discriminate].
    rewrite data_abs in H.
    rewrite rc_clone_option_noop; eauto.
    destruct (rdata s n); simpl in *; try discriminate; auto.
  - (* elem_name *)
    destruct (elem_h_facts s h I H) as [n [R [_ E]]]. unfold rwith1. rewrite R, E. eauto.
  - (* is_mathml_annotation_xml_integration_point *)
    destruct (elem_h_facts s h I H) as [n [R [_ E]]]. unfold rwith1. rewrite R, E. eauto.
  - (* parse_error *)
    eauto.
Qed.

(* ---------- the initial state ---------- *)
Lemma rinit_nth n : nth n (r_nodes rinit) rdflt = rdflt.
Proof. destruct n as [|[|n]]; reflexivity. Qed.

Lemma inv_rinit : Inv rinit.
Proof.
  assert (K : forall p, rkids rinit p = []) by (intros p; unfold rkids; rewrite rinit_nth; reflexivity).
  assert (P : forall p, rparent rinit p = None) by (intros p; unfold rparent; rewrite rinit_nth; reflexivity).
  assert (D : forall p, rdata rinit p = Document) by (intros p; unfold rdata; rewrite rinit_nth; reflexivity).
  constructor.
  - unfold rsize; simpl; lia.
  - apply D.
  - intros p c H. rewrite K in H. destruct H.
  - intros n p. rewrite P, K. simpl. split; [discriminate|tauto].
  - intros p. rewrite K. constructor.
  - intros h n H. destruct h as [|[|h]]; simpl in H; try discriminate. inversion H. unfold rsize; simpl; lia.
  - intros n nm a c ip H. rewrite D in H. discriminate.
  - intros p c H. rewrite K in H. destruct H.
  - intros p c H. rewrite K in H. destruct H.
  - intros n A. inversion A; subst; rewrite P in H; discriminate.
Qed.

Lemma abs_rinit : abs rinit = init.
Proof. reflexivity. Qed.

(* ---------- sequences ---------- *)

(* the clone operations of the sequence are ones for which the specification
   itself changes nothing (no select ancestor, no selectedcontent, option not
   selected, ...): outside the defect class of the option->selectedcontent code *)
Fixpoint clone_trivial (d : dom) (ops : list sinkop) : Prop :=
  match ops with
  | [] => True
  | op :: t =>
    match op with OpCloneOption _ => apply d op = d | _ => True end /\ clone_trivial (apply d op) t
  end.

Theorem refines_from ops : forall s,
  Inv s -> contract_run (abs s) ops = true -> clone_trivial (abs s) ops ->
  exists s', rrun_from false s ops = Ok s' /\ Inv s' /\ abs s' = run_from (abs s) ops.
Proof.
  induction ops as [|op t IH]; intros s I C T; simpl in *.
  - exists s. auto.
  - apply andb_true_iff in C. destruct C as [C1 C2]. destruct T as [T1 T2].
    destruct (step_ok s op I C1) as [s1 [E1 [I1 E2]]].
    rewrite E1.
    assert (E : abs s1 = apply (abs s) op).
    { destruct op; auto. rewrite T1. exact E2. }
    rewrite <- E in *. apply IH; auto.
Qed.

Theorem refines_outside_finding ops :
  contract_run init ops = true -> clone_trivial init ops ->
  exists s, rrun false ops = Ok s /\ Inv s /\ abs s = run ops.
Proof.
  intros C T. rewrite <- abs_rinit in *. apply refines_from; auto. apply inv_rinit.
Qed.

Fixpoint no_clone (ops : list sinkop) : bool :=
  match ops with
  | [] => true
  | OpCloneOption _ :: _ => false
  | _ :: t => no_clone t
  end.

Lemma no_clone_trivial ops : forall d, no_clone ops = true -> clone_trivial d ops.
Proof.
  induction ops as [|op t IH]; intros d H; simpl in *; auto.
  destruct op; try discriminate; split; auto.
Qed.

Corollary refines_without_clone ops :
  contract_run init ops = true -> no_clone ops = true ->
  exists s, rrun false ops = Ok s /\ Inv s /\ abs s = run ops.
Proof. intros C N. apply refines_outside_finding; auto. apply no_clone_trivial; auto. Qed.

(* the contract judged on the model's own states *)
Fixpoint rc_contract_run (fixed : bool) (s : rc) (ops : list sinkop) : bool :=
  match ops with
  | [] => true
  | op :: t =>
    contract_ok (abs s) op &&
    match rapply fixed s op with
    | Ok s1 => rc_contract_run fixed s1 t
    | Panic _ => false
    end
  end.

Theorem parent_links_from ops : forall s,
  Inv s -> rc_contract_run false s ops = true ->
  exists s', rrun_from false s ops = Ok s' /\ Inv s'.
Proof.
  induction ops as [|op t IH]; intros s I C; simpl in *.
  - exists s. auto.
  - apply andb_true_iff in C. destruct C as [C1 C2].
    destruct (step_ok s op I C1) as [s1 [E1 [I1 _]]].
    rewrite E1 in *. apply IH; auto.
Qed.

Theorem parent_links ops :
  rc_contract_run false rinit ops = true -> exists s, rrun false ops = Ok s /\ Inv s.
Proof. apply parent_links_from. apply inv_rinit. Qed.
