(* C20: the Serialize traversal of the RcDom model emits the pre-order of the
   tree reachable through the child lists, each node exactly once. *)
From Coq Require Import List NArith Bool Arith Lia.
From HV Require Import Dom.DomSpec Dom.DomLemmas RcDom.RcModel RcDom.RcBasics RcDom.RcInv.
Import ListNotations.

(* the visitor events a tree prescribes: open, children in order, close *)
Fixpoint events (t : tree) : list sev :=
  match t with
  | T n x ks =>
    match x with
    | Element nm _ _ _ => EOpen n :: flat_map events ks ++ [EClose nm]
    | _ => [EOpen n]
    end
  end.

Definition opens (l : list sev) : list nid :=
  flat_map (fun e => match e with EOpen n => [n] | EClose _ => [] end) l.

Definition sapp (l : list sev) (r : sres) : sres := fold_right scons r l.

Lemma sapp_app l1 l2 r : sapp (l1 ++ l2) r = sapp l1 (sapp l2 r).
Proof. unfold sapp. apply fold_right_app. Qed.
Lemma sapp_ok l : sapp l (SerOk []) = SerOk l.
Proof. induction l; simpl; auto. rewrite IHl. reflexivity. Qed.

Lemma all_some_Forall2 {A B} (f : A -> option B) l ts :
  all_some f l = Some ts -> Forall2 (fun k t => f k = Some t) l ts.
Proof.
  revert ts; induction l; simpl; intros ts H.
  - inversion H. constructor.
  - destruct (f a) eqn:E; [|discriminate]. destruct (all_some f l); [|discriminate].
    inversion H; subst. constructor; auto.
Qed.

Lemma all_some_total {A B} (f : A -> option B) l :
  (forall k, In k l -> exists t, f k = Some t) -> exists ts, all_some f l = Some ts.
Proof.
  induction l; simpl; intros H; eauto.
  destruct (H a (or_introl eq_refl)) as [t E]. rewrite E.
  destruct IHl as [ts E2]; auto. rewrite E2. eauto.
Qed.

Lemma Forall2_impl_In {A B} (R P : A -> B -> Prop) l ts :
  (forall k t, In k l -> R k t -> P k t) -> Forall2 R l ts -> Forall2 P l ts.
Proof.
  intros H F. induction F; constructor.
  - apply H; simpl; auto.
  - apply IHF. intros k t Hk. apply H; simpl; auto.
Qed.

Lemma ser_loop_close s f nm rest :
  ser_loop (S f) s (SClose nm :: rest) = scons (EClose nm) (ser_loop f s rest).
Proof. reflexivity. Qed.
Lemma ser_loop_open_elem s f n rest nm a tm ip :
  rdata s n = Element nm a tm ip ->
  ser_loop (S f) s (SOpen n :: rest) =
  scons (EOpen n) (ser_loop f s (map SOpen (rkids s n) ++ SClose nm :: rest)).
Proof. intros D. simpl. rewrite D. reflexivity. Qed.
Lemma ser_loop_open_leaf s f n rest :
  is_element (rdata s n) = false -> rdata s n <> Document ->
  ser_loop (S f) s (SOpen n :: rest) = scons (EOpen n) (ser_loop f s rest).
Proof. intros E D. simpl. destruct (rdata s n); simpl in *; try discriminate; try reflexivity. congruence. Qed.

Section Ser.
Variable s : rc.
Hypothesis I : Inv s.

Definition ser_spec (n : nid) (t : tree) : Prop :=
  forall g rest, ser_loop (length (events t) + g) s (SOpen n :: rest) = sapp (events t) (ser_loop g s rest).

Lemma ser_forest ks ts :
  Forall2 ser_spec ks ts ->
  forall g rest, ser_loop (length (flat_map events ts) + g) s (map SOpen ks ++ rest)
                 = sapp (flat_map events ts) (ser_loop g s rest).
Proof.
  induction 1; intros g rest; simpl; auto.
  rewrite app_length, <- Nat.add_assoc, H, sapp_app, IHForall2. reflexivity.
Qed.

Lemma ser_tree fuel : forall n t,
  to_tree fuel (abs s) n = Some t -> rdata s n <> Document -> ser_spec n t.
Proof.
  induction fuel; simpl; intros n t H ND; [discriminate|].
  destruct (all_some (to_tree fuel (abs s)) (kids (abs s) n)) as [ts|] eqn:E; [|discriminate].
  inversion H; subst; clear H. rewrite data_abs. rewrite kids_abs in E.
  apply all_some_Forall2 in E.
  assert (F : Forall2 ser_spec (rkids s n) ts).
  { eapply Forall2_impl_In; [|exact E]. intros k t Hk Ht.
    apply IHfuel; auto. eapply (i_child s I); eauto. }
  intros g rest. destruct (rdata s n) eqn:D; try congruence;
    try (simpl events; change (length [EOpen n] + g) with (S g);
         rewrite ser_loop_open_leaf by (rewrite D; simpl; congruence); reflexivity).
  simpl events. simpl length. rewrite app_length. simpl length.
  simpl plus. rewrite (ser_loop_open_elem _ _ _ _ _ _ _ _ D).
  rewrite <- Nat.add_assoc. rewrite (ser_forest _ _ F).
  simpl plus. rewrite ser_loop_close.
  simpl sapp. rewrite sapp_app. reflexivity.
Qed.

(* ---------- the tree is the set of descendants, each once ---------- *)
Lemma anc_first_step a y : Anc s a y -> exists k, rparent s k = Some a /\ AncS s k y.
Proof.
  induction 1.
  - exists n. split; auto. left; auto.
  - destruct IHanc as [k [K1 K2]]. exists k. split; auto. right. eapply ancs_up; eauto.
Qed.

Lemma ancs_linear a y : AncS s a y -> forall b, AncS s b y -> AncS s a b \/ AncS s b a.
Proof.
  intros [->|A].
  - intros b B. right. exact B.
  - induction A as [a y P|a m y P A IH]; intros b [->|B].
    + left. right. apply anc_parent; auto.
    + inversion B; subst.
      * left. left. congruence.
      * right. right. congruence.
    + left. right. eapply anc_step; eauto.
    + inversion B; subst.
      * apply IH. left. congruence.
      * apply IH. right. congruence.
Qed.

Lemma sibling_not_anc n k k' : rparent s k = Some n -> rparent s k' = Some n -> ~ Anc s k k'.
Proof.
  intros Pk Pk' A.
  assert (H : AncS s k n).
  { inversion A as [? ? P|? m ? P A']; subst.
    - left. congruence.
    - right. assert (m = n) by congruence. subst. exact A'. }
  apply (i_acyclic s I k). destruct H as [->|H].
  - apply anc_parent; auto.
  - eapply anc_trans; [exact H|apply anc_parent; auto].
Qed.

Definition ids_spec (n : nid) (t : tree) : Prop :=
  NoDup (tree_ids t) /\ (forall y, In y (tree_ids t) <-> AncS s n y).

Lemma ids_forest n ks ts :
  NoDup ks -> (forall k, In k ks -> rparent s k = Some n) ->
  Forall2 ids_spec ks ts ->
  NoDup (flat_map tree_ids ts) /\
  (forall y, In y (flat_map tree_ids ts) <-> exists k, In k ks /\ AncS s k y).
Proof.
  intros ND HP F. induction F as [|k t ks ts [N1 M1] F IH]; simpl.
  - split; [constructor|]. intros y. split; [tauto|]. intros [k [[] _]].
  - inversion ND; subst.
    destruct IH as [N2 M2]; auto. { intros; apply HP; simpl; auto. }
    split.
    + apply NoDup_app'; auto. intros y Y1 Y2.
      apply M1 in Y1. apply M2 in Y2. destruct Y2 as [k' [K1 K2]].
      assert (Hne : k <> k') by (intros ->; tauto).
      assert (Pk : rparent s k = Some n) by (apply HP; simpl; auto).
      assert (Pk' : rparent s k' = Some n) by (apply HP; simpl; auto).
      destruct (ancs_linear _ _ Y1 _ K2) as [[E|A]|[E|A]]; try congruence.
      * exact (sibling_not_anc n k k' Pk Pk' A).
      * exact (sibling_not_anc n k' k Pk' Pk A).
    + intros y. rewrite in_app_iff, M1, M2. split.
      * intros [H|[k' [K1 K2]]]; [exists k; auto|exists k'; auto].
      * intros [k' [[->|K1] K2]]; [left; auto|right; eauto].
Qed.

Lemma ids_tree fuel : forall n t, to_tree fuel (abs s) n = Some t -> ids_spec n t.
Proof.
  induction fuel; simpl; intros n t H; [discriminate|].
  destruct (all_some (to_tree fuel (abs s)) (kids (abs s) n)) as [ts|] eqn:E; [|discriminate].
  inversion H; subst; clear H. rewrite kids_abs in E.
  apply all_some_Forall2 in E.
  assert (F : Forall2 ids_spec (rkids s n) ts).
  { eapply Forall2_impl_In; [|exact E]. intros k t Hk Ht. apply IHfuel; auto. }
  destruct (ids_forest n _ _ (i_nodup s I n) (fun k H => proj2 (i_parent s I k n) H) F) as [N M].
  split; simpl.
  - constructor; auto. intros Y. apply M in Y. destruct Y as [k [K1 K2]].
    apply (i_parent s I) in K1. apply (i_acyclic s I n). eapply anc_down; eauto.
  - intros y. rewrite M. split.
    + intros [->|[k [K1 K2]]]; [left; auto|].
      right. apply (i_parent s I) in K1. eapply anc_down; eauto.
    + intros [->|A]; auto. right.
      destruct (anc_first_step _ _ A) as [k [K1 K2]]. exists k. split; auto.
      apply (i_parent s I); auto.
Qed.

(* ---------- only elements have children below the root: opens = pre-order ---------- *)
Lemma opens_app l1 l2 : opens (l1 ++ l2) = opens l1 ++ opens l2.
Proof. unfold opens. apply flat_map_app. Qed.

Lemma opens_forest ks ts :
  Forall2 (fun (k : nid) t => opens (events t) = tree_ids t) ks ts ->
  opens (flat_map events ts) = flat_map tree_ids ts.
Proof.
  induction 1; simpl; auto. rewrite opens_app, H, IHForall2. reflexivity.
Qed.

Lemma opens_tree fuel : forall n t,
  to_tree fuel (abs s) n = Some t -> rdata s n <> Document -> opens (events t) = tree_ids t.
Proof.
  induction fuel; simpl; intros n t H ND; [discriminate|].
  destruct (all_some (to_tree fuel (abs s)) (kids (abs s) n)) as [ts|] eqn:E; [|discriminate].
  inversion H; subst; clear H. rewrite data_abs. rewrite kids_abs in E.
  assert (F : Forall2 (fun (k : nid) t => opens (events t) = tree_ids t) (rkids s n) ts).
  { eapply Forall2_impl_In; [|apply all_some_Forall2; exact E]. intros k t Hk Ht.
    apply (IHfuel k t Ht). eapply (i_child s I); eauto. }
  assert (L : is_container (rdata s n) = false -> ts = []).
  { intros C. destruct (rkids s n) eqn:K.
    - simpl in E. inversion E; auto.
    - assert (is_container (rdata s n) = true) by (eapply (i_container s I); rewrite K; simpl; eauto).
      congruence. }
  destruct (rdata s n) eqn:D; try congruence; try (rewrite L by reflexivity; reflexivity).
  simpl. rewrite opens_app, (opens_forest _ _ F). simpl. rewrite app_nil_r. reflexivity.
Qed.

(* ---------- enough fuel: the arena is a finite tree ---------- *)
Lemma to_tree_total fuel : forall n visited,
  (forall v, In v visited -> Anc s v n) -> NoDup visited ->
  rsize s < length visited + fuel ->
  exists t, to_tree fuel (abs s) n = Some t.
Proof.
  induction fuel; intros n visited HV ND L.
  - exfalso.
    assert (incl visited (seq 0 (rsize s))).
    { intros v Hv. apply in_seq. apply HV in Hv.
      destruct (anc_first_step _ _ Hv) as [k [K _]].
      apply (i_parent s I) in K. apply rkids_lt in K. lia. }
    pose proof (NoDup_incl_length ND H) as B. rewrite seq_length in B. lia.
  - simpl. rewrite kids_abs.
    destruct (all_some_total (to_tree fuel (abs s)) (rkids s n)) as [ts E].
    + intros k Hk. apply (IHfuel k (n :: visited)).
      * intros v [<-|Hv].
        -- apply anc_parent. apply (i_parent s I); auto.
        -- eapply anc_step; [apply (i_parent s I); eauto|]. apply HV; auto.
      * constructor; auto. intros Hn. apply (i_acyclic s I n). apply HV; auto.
      * simpl. lia.
    + rewrite E. eauto.
Qed.

(* ---------- the theorem ---------- *)
Theorem serialize_preorder :
  exists ts,
    to_tree (S (rsize s)) (abs s) 0 = Some (T 0 Document ts) /\
    (* the visitor events are those of the tree, in order *)
    serialize (S (length (flat_map events ts))) s 0 false = SerOk (flat_map events ts) /\
    (* the nodes opened are the pre-order of the tree below the document *)
    opens (flat_map events ts) = flat_map tree_ids ts /\
    (* each once, and exactly the proper descendants of the document through the child lists *)
    NoDup (flat_map tree_ids ts) /\
    (forall y, In y (flat_map tree_ids ts) <-> Anc s 0 y).
Proof.
  destruct (to_tree_total (S (rsize s)) 0 []) as [t Ht];
    [simpl; intros; tauto|constructor|simpl; lia|].
  pose proof Ht as Ht0. simpl in Ht.
  destruct (all_some (to_tree (rsize s) (abs s)) (kids (abs s) 0)) as [ts|] eqn:E; [|discriminate].
  rewrite data_abs, (i_doc0 s I) in Ht. inversion Ht; subst; clear Ht.
  exists ts. split; [exact Ht0|].
  rewrite kids_abs in E. pose proof (all_some_Forall2 _ _ _ E) as F.
  assert (Hc : forall k, In k (rkids s 0) -> rdata s k <> Document) by (intros; eapply (i_child s I); eauto).
  split; [|split].
  - unfold serialize.
    assert (F1 : Forall2 ser_spec (rkids s 0) ts).
    { eapply Forall2_impl_In; [|exact F]. intros k t Hk Hkt. apply (ser_tree _ _ _ Hkt). apply Hc; auto. }
    pose proof (ser_forest _ _ F1 1 []) as S1. rewrite app_nil_r in S1.
    replace (S (length (flat_map events ts))) with (length (flat_map events ts) + 1) by lia.
    rewrite S1. simpl ser_loop. apply sapp_ok.
  - apply (opens_forest (rkids s 0)). eapply Forall2_impl_In; [|exact F]. intros k t Hk Hkt. apply (opens_tree _ _ _ Hkt). apply Hc; auto.
  - destruct (ids_tree _ _ _ Ht0) as [N M]. simpl in N, M. inversion N; subst. split; auto.
    intros y. split.
    + intros Hy. destruct (proj1 (M y) (or_intror Hy)) as [<-|A]; [tauto|exact A].
    + intros A. destruct (proj2 (M y) (or_intror A)) as [<-|Hy]; auto.
      exfalso. apply (i_acyclic s I 0). exact A.
Qed.
End Ser.
