(* ========================================================================
   RcModel.v - executable mirror of /repo/rcdom/lib.rs as it is.

   Nodes carry a parent link (Cell<Option<Weak<Node>>>) and a child list
   (RefCell<Vec<Rc<Node>>>); an Rc pointer is an arena index.  Every TreeSink
   method of `impl TreeSink for RcDom` is transcribed with its order of
   operations, and every place where the Rust code can panic returns
   [Panic site].  (What the tree looks like after a panic is not modelled.)

   Not modelled: reference counts / Drop (a weak parent link is assumed to
   upgrade), the `errors` vector, `finish`.

   [fixed] selects the node whose data `get_a_selects_enabled_selectedcontent`
   inspects: false = `self.data` (the code at the pinned commit), true =
   `node.data` (the obvious repair); everything else is identical.

   Panic sites: 1 append: child already has a parent      2 get_parent_and_index: not in parent's children
                3 append_before_sibling: no parent        4 Vec::insert index out of bounds
                5 get_template_contents: not a template   6 add_attrs_if_missing: not an element
                7 reparent_children: node == new_parent (RefCell already borrowed)
                8 reparent_children: child's parent is not node
                9 maybe_clone_an_option_into_selectedcontent: not an element
                11 a handle of the trace does not exist (harness error, not a Rust panic)
                13 elem_name: not an element              14 is_mathml_annotation_xml_integration_point: not an element
   No proofs in this file.
   ======================================================================== *)
From Coq Require Import List NArith Bool Arith.
From HV Require Import Dom.DomSpec.
Import ListNotations.

Record rnode := { r_data : data ; r_parent : option nid ; r_kids : list nid }.
Record rc := { r_nodes : list rnode ; r_names : list nid ; r_quirks : N }.
Inductive result := Ok (s : rc) | Panic (site : N).

(* RcDom::default() *)
Definition rinit : rc :=
  {| r_nodes := [ {| r_data := Document ; r_parent := None ; r_kids := [] |} ] ;
     r_names := [0] ; r_quirks := 2%N |}.

Definition rdflt : rnode := {| r_data := Document ; r_parent := None ; r_kids := [] |}.
Definition rsize (s : rc) : nat := length (r_nodes s).
Definition rdata (s : rc) (n : nid) : data := r_data (nth n (r_nodes s) rdflt).
Definition rparent (s : rc) (n : nid) : option nid := r_parent (nth n (r_nodes s) rdflt).
Definition rkids (s : rc) (n : nid) : list nid := r_kids (nth n (r_nodes s) rdflt).
Definition rresolve (s : rc) (h : handle) : option nid := nth_error (r_names s) h.

Definition rset_nodes (s : rc) (l : list rnode) : rc :=
  {| r_nodes := l ; r_names := r_names s ; r_quirks := r_quirks s |}.
Definition set_parent (s : rc) (n : nid) (p : option nid) : rc :=
  rset_nodes s (upd n (fun x => {| r_data := r_data x ; r_parent := p ; r_kids := r_kids x |}) (r_nodes s)).
Definition set_rkids (s : rc) (n : nid) (l : list nid) : rc :=
  rset_nodes s (upd n (fun x => {| r_data := r_data x ; r_parent := r_parent x ; r_kids := l |}) (r_nodes s)).
Definition set_rdata (s : rc) (n : nid) (d : data) : rc :=
  rset_nodes s (upd n (fun x => {| r_data := d ; r_parent := r_parent x ; r_kids := r_kids x |}) (r_nodes s)).
(* Node::new / Rc::new: a new arena slot, its index is the old size *)
Definition ralloc (s : rc) (d : data) (p : option nid) (ks : list nid) : rc :=
  rset_nodes s (r_nodes s ++ [ {| r_data := d ; r_parent := p ; r_kids := ks |} ]).
Definition radd_name (s : rc) (n : nid) : rc :=
  {| r_nodes := r_nodes s ; r_names := r_names s ++ [n] ; r_quirks := r_quirks s |}.

(* Vec::insert / Vec::remove *)
Definition insert_at (i : nat) (x : nid) (l : list nid) : list nid := firstn i l ++ x :: skipn i l.
Definition remove_at (i : nat) (l : list nid) : list nid := firstn i l ++ skipn (S i) l.

(* fn append(new_parent, child) *)
Definition link (s : rc) (new_parent child : nid) : result :=
  match rparent s child with
  | Some _ => Panic 1
  | None =>
    let s1 := set_parent s child (Some new_parent) in
    Ok (set_rkids s1 new_parent (rkids s1 new_parent ++ [child]))
  end.

(* fn get_parent_and_index(target) *)
Inductive pidx := NoParent | Found (p : nid) (i : nat) | Lost.
Definition get_parent_and_index (s : rc) (t : nid) : pidx :=
  match rparent s t with
  | None => NoParent
  | Some p =>
    match index_of t (rkids s p) with
    | Some i => Found p i
    | None => Lost
    end
  end.

(* fn remove_from_parent(target) *)
Definition unlink (s : rc) (t : nid) : result :=
  match get_parent_and_index s t with
  | NoParent => Ok s
  | Lost => Panic 2
  | Found p i => Ok (set_parent (set_rkids s p (remove_at i (rkids s p))) t None)
  end.

(* Node::new(NodeData::Text{..}) followed by append(parent, node) *)
Definition new_text_under (s : rc) (p : nid) (text : str) : result :=
  link (ralloc s (Text text) None []) p (rsize s).

(* TreeSink::append *)
Definition rc_append (s : rc) (p : nid) (c : nid + str) : result :=
  match c with
  | inr text =>
    match last (map Some (rkids s p)) None with
    | Some h =>
      match rdata s h with
      | Text t => Ok (set_rdata s h (Text (t ++ text)))       (* append_to_existing_text *)
      | _ => new_text_under s p text
      end
    | None => new_text_under s p text
    end
  | inl n => link s p n
  end.

(* tail of append_before_sibling: remove_from_parent(&child); child.parent.set(parent);
   parent.children.insert(i, child) -- with the index [i] computed BEFORE the removal *)
Definition place_at (s : rc) (parent : nid) (i : nat) (child : nid) : result :=
  match unlink s child with
  | Panic k => Panic k
  | Ok s1 =>
    let s2 := set_parent s1 child (Some parent) in
    if Nat.ltb (length (rkids s2 parent)) i then Panic 4
    else Ok (set_rkids s2 parent (insert_at i child (rkids s2 parent)))
  end.

(* TreeSink::append_before_sibling *)
Definition rc_before (s : rc) (sib : nid) (c : nid + str) : result :=
  match get_parent_and_index s sib with
  | NoParent => Panic 3
  | Lost => Panic 2
  | Found parent i =>
    match c with
    | inr text =>
      let fresh := place_at (ralloc s (Text text) None []) parent i (rsize s) in
      match i with
      | 0 => fresh
      | S j =>
        match rdata s (nth j (rkids s parent) 0) with
        | Text t => Ok (set_rdata s (nth j (rkids s parent) 0) (Text (t ++ text)))
        | _ => fresh
        end
      end
    | inl n => place_at s parent i n
    end
  end.

(* TreeSink::append_based_on_parent_node: tests element.parent.is_some() *)
Definition rc_based (s : rc) (elem prev : nid) (c : nid + str) : result :=
  match rparent s elem with
  | Some _ => rc_before s elem c
  | None => rc_append s prev c
  end.

(* TreeSink::add_attrs_if_missing: the set of existing names is computed once *)
Definition rc_add_attrs (s : rc) (t : nid) (new : list dattr) : result :=
  match rdata s t with
  | Element nm existing tm ip =>
    Ok (set_rdata s t (Element nm (existing ++ filter (fun a => negb (has_attr (d_name a) existing)) new) tm ip))
  | _ => Panic 6
  end.

(* TreeSink::reparent_children *)
Fixpoint reparent_loop (s : rc) (nd newp : nid) (l : list nid) : result :=
  match l with
  | [] => Ok s
  | c :: t =>
    match rparent s c with
    | Some q => if Nat.eqb q nd then reparent_loop (set_parent s c (Some newp)) nd newp t else Panic 8
    | None => Panic 8
    end
  end.
Definition rc_reparent (s : rc) (nd newp : nid) : result :=
  if Nat.eqb nd newp then Panic 7
  else
    match reparent_loop s nd newp (rkids s nd) with
    | Panic k => Panic k
    | Ok s1 =>
      let ks := rkids s1 nd in
      let s2 := set_rkids s1 newp (rkids s1 newp ++ ks) in
      Ok (set_rkids s2 nd [])
    end.

(* ----- option -> selectedcontent ----- *)

(* an HTML element with that local name (name.expanded() == expanded_name!(html "..."); before the repair in /repo
   the namespace was not looked at) *)
Definition local_is (x : data) (l : str) : bool :=
  match x with Element nm _ _ _ => str_eqb (q_ns nm) s_ns_html && str_eqb (q_local nm) l | _ => false end.

(* Node::get_option_element_nearest_ancestor_select, the loop from [cur] upwards
   (HTML elements only) *)
Fixpoint rc_nearest_select (s : rc) (fuel : nat) (cur : nid) (seen_optgroup : bool) : option nid :=
  match fuel with
  | 0 => None
  | S f =>
    let x := rdata s cur in
    let next seen := match rparent s cur with
                     | Some a => rc_nearest_select s f a seen
                     | None => None
                     end in
    if is_element x then
      if local_is x s_datalist || local_is x s_hr || local_is x s_option then None
      else if local_is x s_optgroup then (if seen_optgroup then None else next true)
      else if local_is x s_select then Some cur
      else next seen_optgroup
    else next seen_optgroup
  end.

(* Node::get_a_selects_enabled_selectedcontent: the stack of nodes still to visit, next one first - tree order
   (before the repair in /repo: a VecDeque, breadth first); the data inspected is the select's own ([fixed] = false,
   the code before fix fade576) or the node's *)
Fixpoint rc_find_selectedcontent (fixed : bool) (s : rc) (sel : nid) (fuel : nat) (stack : list nid) : option nid :=
  match fuel, stack with
  | S f, nd :: rest =>
    if local_is (rdata s (if fixed then nd else sel)) s_selectedcontent then Some nd
    else rc_find_selectedcontent fixed s sel f (rkids s nd ++ rest)
  | _, _ => None
  end.

(* Node::clone_with_subtree: the children are cloned first, then the node itself is allocated (no parent yet: the
   clone is not inserted anywhere) and the cloned children are pointed at it.  [Before fix: in /repo the clone carried the ORIGINAL's parent link.] *)
Fixpoint clone_sub (fuel : nat) (s : rc) (n : nid) : rc * nid :=
  match fuel with
  | 0 => (s, n)
  | S f =>
    let '(s1, ks) :=
      fold_left (fun (acc : rc * list nid) k =>
                   let '(s', k') := clone_sub f (fst acc) k in (s', snd acc ++ [k']))
                (rkids s n) (s, []) in
    (* the contents of a template are cloned too (before fix: in /repo the clone shared them with the original);
       the contents fragment has no parent *)
    let '(s2, x) :=
      match rdata s n with
      | Element nm at_ (Some t) ip => let '(s', t') := clone_sub f s1 t in (s', Element nm at_ (Some t') ip)
      | x => (s1, x)
      end in
    let me := rsize s2 in
    (fold_left (fun acc k => set_parent acc k (Some me)) ks (ralloc s2 x None ks), me)
  end.

(* Node::clone_an_option_into_selectedcontent: the clones of the option's children become the children of the
   selectedcontent (parent links included); the children they replace are detached *)
Definition rc_clone_into (s : rc) (opt sc : nid) : rc :=
  let '(s1, ks) :=
    fold_left (fun (acc : rc * list nid) k =>
                 let '(s', k') := clone_sub (S (rsize s)) (fst acc) k in (s', snd acc ++ [k']))
              (rkids s opt) (s, []) in
  let old := rkids s1 sc in
  let s2 := fold_left (fun acc k => set_parent acc k (Some sc)) ks s1 in
  let s3 := set_rkids s2 sc ks in
  fold_left (fun acc k => set_parent acc k None) old s3.

(* TreeSink::maybe_clone_an_option_into_selectedcontent *)
Definition rc_clone_option (fixed : bool) (s : rc) (opt : nid) : result :=
  if negb (is_element (rdata s opt)) then Panic 9
  else
    let select :=
      match rparent s opt with
      | Some p => rc_nearest_select s (S (rsize s)) p false
      | None => None
      end in
    match select with
    | None => Ok s
    | Some sel =>
      if has_attr_local s_multiple (attrs_of (rdata s sel)) then Ok s
      else
        match rc_find_selectedcontent fixed s sel (S (rsize s)) (rkids s sel) with
        | None => Ok s
        | Some sc =>
          if has_attr_local s_selected (attrs_of (rdata s opt)) then Ok (rc_clone_into s opt sc)
          else Ok s
        end
    end.

(* ----- the interpreter over trace handles ----- *)
Definition rwith1 (s : rc) (h : handle) (k : nid -> result) : result :=
  match rresolve s h with Some n => k n | None => Panic 11 end.
Definition rwith_child (s : rc) (c : child) (k : nid + str -> result) : result :=
  match c with
  | inl h => match rresolve s h with Some n => k (inl n) | None => Panic 11 end
  | inr t => k (inr t)
  end.

Definition rapply (fixed : bool) (s : rc) (op : sinkop) : result :=
  match op with
  | OpCreateElement _ nm at_ template ip _ =>
    if template then
      let s1 := ralloc s Document None [] in
      Ok (radd_name (ralloc s1 (Element nm at_ (Some (rsize s)) ip) None []) (rsize s1))
    else Ok (radd_name (ralloc s (Element nm at_ None ip) None []) (rsize s))
  | OpCreateComment _ t => Ok (radd_name (ralloc s (Comment t) None []) (rsize s))
  | OpCreatePi _ t x => Ok (radd_name (ralloc s (PI t x) None []) (rsize s))
  | OpAppend p c => rwith1 s p (fun pn => rwith_child s c (rc_append s pn))
  | OpAppendBeforeSibling b c => rwith1 s b (fun bn => rwith_child s c (rc_before s bn))
  | OpAppendBasedOnParent e pe c =>
    rwith1 s e (fun en => rwith1 s pe (fun pn => rwith_child s c (rc_based s en pn)))
  | OpAppendDoctype n p y => link (ralloc s (Doctype n p y) None []) 0 (rsize s)
  | OpAddAttrsIfMissing t new => rwith1 s t (fun tn => rc_add_attrs s tn new)
  | OpRemoveFromParent t => rwith1 s t (unlink s)
  | OpReparentChildren a b => rwith1 s a (fun an => rwith1 s b (fun bn => rc_reparent s an bn))
  | OpGetTemplateContents t r =>
    rwith1 s t (fun tn =>
      match rdata s tn with
      | Element _ _ (Some c) _ => Ok (if Nat.eqb r (length (r_names s)) then radd_name s c else s)
      | _ => Panic 5
      end)
  | OpSetQuirks q => Ok {| r_nodes := r_nodes s ; r_names := r_names s ; r_quirks := q |}
  | OpCloneOption o => rwith1 s o (rc_clone_option fixed s)
  | OpElemName h => rwith1 s h (fun n => if is_element (rdata s n) then Ok s else Panic 13)
  | OpIsMathmlIp h => rwith1 s h (fun n => if is_element (rdata s n) then Ok s else Panic 14)
  | OpMarkScriptStarted h | OpPop h => rwith1 s h (fun _ => Ok s)
  | OpAssociateForm t f e pe =>
    rwith1 s t (fun _ => rwith1 s f (fun _ => rwith1 s e (fun _ =>
      match pe with Some x => rwith1 s x (fun _ => Ok s) | None => Ok s end)))
  | OpSetLine _ | OpParseError => Ok s
  end.

Fixpoint rrun_from (fixed : bool) (s : rc) (ops : list sinkop) : result :=
  match ops with
  | [] => Ok s
  | op :: t =>
    match rapply fixed s op with
    | Ok s1 => rrun_from fixed s1 t
    | Panic k => Panic k
    end
  end.
Definition rrun (fixed : bool) (ops : list sinkop) : result := rrun_from fixed rinit ops.

(* forget the parent links *)
Definition abs (s : rc) : dom :=
  {| d_nodes := map (fun x => {| n_data := r_data x ; n_kids := r_kids x |}) (r_nodes s) ;
     d_names := r_names s ; d_quirks := r_quirks s |}.

(* ----- impl Serialize for SerializableHandle ----- *)
Inductive sop := SOpen (n : nid) | SClose (nm : qualname).
Inductive sev := EOpen (n : nid) | EClose (nm : qualname).
Inductive sres := SerOk (l : list sev) | SerPanic | SerFuel.

Definition scons (e : sev) (r : sres) : sres :=
  match r with SerOk l => SerOk (e :: l) | x => x end.

(* the `while let Some(op) = ops.pop_front()` loop *)
Fixpoint ser_loop (fuel : nat) (s : rc) (ops : list sop) : sres :=
  match fuel with
  | 0 => SerFuel
  | S f =>
    match ops with
    | [] => SerOk []
    | SClose nm :: t => scons (EClose nm) (ser_loop f s t)
    | SOpen n :: t =>
      match rdata s n with
      | Element nm _ _ _ =>
        (* push_front(Close); for child in children.rev() { push_front(Open(child)) } *)
        scons (EOpen n) (ser_loop f s (map SOpen (rkids s n) ++ SClose nm :: t))
      | Document => SerPanic
      | _ => scons (EOpen n) (ser_loop f s t)
      end
    end
  end.

(* include_node = true: TraversalScope::IncludeNode, false: ChildrenOnly(_) *)
Definition serialize (fuel : nat) (s : rc) (root : nid) (include_node : bool) : sres :=
  ser_loop fuel s (if include_node then [SOpen root] else map SOpen (rkids s root)).

(* the Serializer method each event calls *)
Inductive vcall :=
| VStart (nm : qualname) (attrs : list dattr) | VEnd (nm : qualname)
| VText (t : str) | VComment (t : str) | VDoctype (name : str) | VPI (target d : str)
| VNone.
Definition call_of (s : rc) (e : sev) : vcall :=
  match e with
  | EClose nm => VEnd nm
  | EOpen n =>
    match rdata s n with
    | Element nm a _ _ => VStart nm a
    | Text t => VText t
    | Comment t => VComment t
    | Doctype nm _ _ => VDoctype nm
    | PI t x => VPI t x
    | Document => VNone
    end
  end.
