(* Executable model of markup5ever/util/buffer_queue.rs and smallcharset.rs.
   A queue is the VecDeque of StrTendrils, front first, each buffer a list of
   BYTES (the Rust code indexes bytes in eat / nonmember_prefix_len).
   No proofs here: this file is what the correspondence run executes. *)
From Coq Require Import List NArith Bool.
From HV Require Import Base.Utf8.
Import ListNotations.
Local Open Scope N_scope.

Definition bq := list (list N).

Inductive op :=
| PushBack (b : list N) | PushFront (b : list N)
| Next | Peek | PopExcept (mask : N) | Eat (pat : list N) (ic : bool).

Inductive out :=
| ONone | OChar (c : N) | OSet (c : N) | ORun (r : list N)
| OBool (b : bool) | OUnit | OPanic.

(* push_front / push_back: empty buffers are skipped *)
Definition push_back (q : bq) (b : list N) : bq :=
  match b with [] => q | _ => q ++ [b] end.
Definition push_front (q : bq) (b : list N) : bq :=
  match b with [] => q | _ => b :: q end.

(* "if now_empty { pop_front }" *)
Definition put_back (r : list N) (t : bq) : bq :=
  match r with [] => t | _ => r :: t end.

(* peek: front().map(|b| b.chars().next().unwrap()) *)
Definition peek (q : bq) : out :=
  match q with
  | [] => ONone
  | b :: _ => match dec1 b with Some (c, _) => OChar c | None => OPanic end
  end.

(* next: pop_front_char().expect(..), drop the buffer when it became empty *)
Definition next (q : bq) : bq * out :=
  match q with
  | [] => ([], ONone)
  | b :: t =>
    match dec1 b with
    | Some (c, r) => (put_back r t, OChar c)
    | None => (q, OPanic)
    end
  end.

(* SmallCharSet::contains on a byte below 64 *)
Definition contains (mask : N) (b : N) : bool := N.testbit mask b.

(* SmallCharSet::nonmember_prefix_len: a BYTE loop *)
Fixpoint npl (mask : N) (buf : list N) : nat :=
  match buf with
  | [] => O
  | b :: t => if (64 <=? b) || negb (contains mask b) then S (npl mask t) else O
  end.

Definition pop_except_from (mask : N) (q : bq) : bq * out :=
  match q with
  | [] => ([], ONone)
  | b :: t =>
    match npl mask b with
    | O => match dec1 b with
           | Some (c, r) => (put_back r t, OSet c)
           | None => (q, OPanic)
           end
    | n => (put_back (skipn n b) t, ORun (firstn n b))
    end
  end.

(* the comparison closures used by the tokenizers *)
Definition lowerb (b : N) : N := if (65 <=? b) && (b <=? 90) then b + 32 else b.
Definition eqb_of (ic : bool) (x y : N) : bool :=
  if ic then lowerb x =? lowerb y else x =? y.

Inductive eat_out := ENone | EFalse | EMatch (be cfl : nat) | EPanic.

(* first pass of eat(): [rest] = buffers from index buffers_exhausted on,
   [cfl] = consumed_from_last *)
Fixpoint eat_loop (eqf : N -> N -> bool) (pat : list N) (rest : bq)
         (be cfl : nat) : eat_out :=
  match pat with
  | [] => EMatch be cfl
  | p :: pt =>
    match rest with
    | [] => ENone
    | buf :: more =>
      match nth_error buf cfl with
      | None => EPanic                         (* buf.as_bytes()[i] out of range *)
      | Some b =>
        if eqf b p then
          if Nat.ltb (S cfl) (length buf) then eat_loop eqf pt rest be (S cfl)
          else eat_loop eqf pt more (S be) O
        else EFalse
      end
    end
  end.

(* second pass: pop the exhausted buffers, pop_front(consumed_from_last) *)
Definition eat (eqf : N -> N -> bool) (pat : list N) (q : bq) : bq * out :=
  match q with
  | [] => ([], ONone)                          (* self.buffers.borrow().front()?; *)
  | _ =>
    match eat_loop eqf pat q O O with
    | ENone => (q, ONone)
    | EFalse => (q, OBool false)
    | EPanic => (q, OPanic)
    | EMatch be cfl =>
      match skipn be q with
      | [] => if Nat.eqb cfl O then ([], OBool true) else (q, OPanic)   (* assert_eq! *)
      | buf :: t => (skipn cfl buf :: t, OBool true)
      end
    end
  end.

Definition step (q : bq) (o : op) : bq * out :=
  match o with
  | PushBack b => (push_back q b, OUnit)
  | PushFront b => (push_front q b, OUnit)
  | Next => next q
  | Peek => (q, peek q)
  | PopExcept mask => pop_except_from mask q
  | Eat pat ic => eat (eqb_of ic) pat q
  end.

Fixpoint run (q : bq) (ops : list op) : bq * list out :=
  match ops with
  | [] => (q, [])
  | o :: os => let '(q1, r) := step q o in
               let '(q2, rs) := run q1 os in (q2, r :: rs)
  end.
