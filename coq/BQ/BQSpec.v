(* Abstract specification of BufferQueue: ONE flat list of characters. *)
From Coq Require Import List NArith Bool.
From HV Require Import Base.Utf8.
Import ListNotations.
Local Open Scope N_scope.

(* char-level operations (what a user of the queue thinks in) *)
Inductive cop :=
| CPushBack (s : list N) | CPushFront (s : list N)
| CNext | CPeek | CPopExcept (mask : N) | CEat (pat : list N) (ic : bool).

Inductive cout :=
| CNone | CChar (c : N) | CSet (c : N) | CRun (r : list N) | CBool (b : bool) | CUnit.

(* membership of a character in a SmallCharSet *)
Definition mem (mask : N) (c : N) : bool := (c <? 64) && N.testbit mask c.

Definition lowerc (c : N) : N := if (65 <=? c) && (c <=? 90) then c + 32 else c.
Definition eqc_of (ic : bool) (x y : N) : bool :=
  if ic then lowerc x =? lowerc y else x =? y.

(* three-way prefix comparison of a pattern with the available text *)
Inductive cmp3 := FNone | FFalse | FMatch (rest : list N).
Fixpoint eat_flat (eqf : N -> N -> bool) (pat flat : list N) : cmp3 :=
  match pat with
  | [] => FMatch flat
  | p :: pt =>
    match flat with
    | [] => FNone
    | f :: ft => if eqf f p then eat_flat eqf pt ft else FFalse
    end
  end.

(* the specification: effect of an operation on the flat text *)
Definition spec_step (flat : list N) (o : cop) (r : cout) (flat' : list N) : Prop :=
  match o with
  | CPushBack s => r = CUnit /\ flat' = flat ++ s
  | CPushFront s => r = CUnit /\ flat' = s ++ flat
  | CNext => match flat with
             | [] => r = CNone /\ flat' = []
             | c :: t => r = CChar c /\ flat' = t
             end
  | CPeek => flat' = flat /\
             match flat with [] => r = CNone | c :: _ => r = CChar c end
  | CPopExcept mask =>
      match flat with
      | [] => r = CNone /\ flat' = []
      | c :: t =>
        if mem mask c then r = CSet c /\ flat' = t
        else exists run, r = CRun run /\ run <> [] /\ flat = run ++ flat' /\
                         forallb (fun x => negb (mem mask x)) run = true
      end
  | CEat pat ic =>
      match flat with
      | [] => r = CNone /\ flat' = []               (* documented quirk: empty queue => None *)
      | _ => match eat_flat (eqc_of ic) pat flat with
             | FMatch rest => r = CBool true /\ flat' = rest
             | FNone => r = CNone /\ flat' = flat
             | FFalse => r = CBool false /\ flat' = flat
             end
      end
  end.

(* eat_flat really is the prefix comparison of the concatenation *)
Definition eq_list (eqf : N -> N -> bool) (a b : list N) : Prop := Forall2 (fun x y => eqf x y = true) a b.
