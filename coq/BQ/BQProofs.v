(* C13: the byte-level BufferQueue model refines the flat character stream. *)
From Coq Require Import List NArith Bool Lia Arith ZifyBool ZifyN ZifyNat.
From HV Require Import Base.Utf8 BQ.BQModel BQ.BQSpec.
Import ListNotations.
Local Open Scope N_scope.

(* ---------- abstraction ---------- *)
Definition wfc (cs : list (list N)) : Prop :=
  Forall (fun c => c <> [] /\ scalars c) cs.
Definition encq (cs : list (list N)) : bq := map encs cs.

Definition enc_op (o : cop) : op :=
  match o with
  | CPushBack s => PushBack (encs s) | CPushFront s => PushFront (encs s)
  | CNext => Next | CPeek => Peek | CPopExcept m => PopExcept m
  | CEat p ic => Eat (encs p) ic
  end.
Definition enc_out (r : cout) : out :=
  match r with
  | CNone => ONone | CChar c => OChar c | CSet c => OSet c
  | CRun r => ORun (encs r) | CBool b => OBool b | CUnit => OUnit
  end.
Definition valid_op (o : cop) : Prop :=
  match o with
  | CPushBack s | CPushFront s => scalars s
  | CEat p _ => scalars p
  | _ => True
  end.

(* ---------- small list facts ---------- *)
Lemma firstn_len_app {A} (a b : list A) : firstn (length a) (a ++ b) = a.
Proof. induction a; cbn; [destruct b; reflexivity|f_equal; auto]. Qed.
Lemma skipn_len_app {A} (a b : list A) : skipn (length a) (a ++ b) = b.
Proof. induction a; cbn; auto. Qed.
Lemma skipn_app_lt {A} n (a b : list A) : (n <= length a)%nat -> skipn n (a ++ b) = skipn n a ++ b.
Proof. revert a; induction n; intros a H; [reflexivity|]. destruct a; cbn in *; [lia|]. apply IHn; lia. Qed.
Lemma nth_error_skipn {A} n (l : list A) x : nth_error l n = Some x -> skipn n l = x :: skipn (S n) l.
Proof. revert l; induction n; intros [|y l] H; cbn in *; try discriminate; [now inversion H|auto]. Qed.
Lemma app_self_nil {A} (x r : list A) : x ++ r = r -> x = [].
Proof. intros H. apply (f_equal (@length A)) in H. rewrite app_length in H. destruct x; [reflexivity|cbn in H; lia]. Qed.

Lemma scalars_app a b : scalars (a ++ b) <-> scalars a /\ scalars b.
Proof. unfold scalars. apply Forall_app. Qed.
Lemma scalars_concat cs : wfc cs -> scalars (concat cs).
Proof. induction 1 as [|c cs [_ Hc] _ IH]; cbn; [constructor|]. apply scalars_app; auto. Qed.

Lemma encs_nonnil s : s <> [] -> encs s <> [].
Proof. intros H E. apply encs_nil_inv in E. contradiction. Qed.

Lemma put_back_enc c t :
  put_back (encs c) (encq t) = encq (match c with [] => t | _ => c :: t end).
Proof.
  destruct c as [|x c]; [reflexivity|]. unfold put_back.
  destruct (encs (x :: c)) eqn:E; [apply encs_nil_inv in E; discriminate|]. rewrite <- E. reflexivity.
Qed.

Lemma concat_encq cs : concat (encq cs) = encs (concat cs).
Proof. induction cs; cbn; [reflexivity|]. rewrite encs_app. f_equal; auto. Qed.

(* prefix code, string level *)
Lemma encs_prefix x : scalars x -> forall y r, scalars y -> encs x ++ r = encs y ->
  exists z, y = x ++ z /\ r = encs z.
Proof.
  induction 1 as [|a x Ha Hx IH]; intros y r Hy H; cbn in *; [eauto|].
  destruct Hy as [|b y Hb Hy].
  - cbn in H. apply app_eq_nil in H. destruct H as [H _]. apply app_eq_nil in H.
    destruct H as [H _]. now apply enc_nonempty in H.
  - rewrite encs_cons in H. rewrite <- app_assoc in H.
    apply enc_prefix_code in H; auto. destruct H as [-> H].
    destruct (IH y r Hy H) as [z [-> ->]]. eauto.
Qed.

(* ---------- pop_except_from ---------- *)
Fixpoint runlen (mask : N) (s : list N) : nat :=
  match s with [] => O | c :: t => if mem mask c then O else S (runlen mask t) end.

Lemma npl_all mask l r :
  Forall (fun b => (64 <=? b) || negb (contains mask b) = true) l ->
  npl mask (l ++ r) = (length l + npl mask r)%nat.
Proof. induction 1 as [|b l Hb _ IH]; cbn; [reflexivity|]. rewrite Hb, IH. reflexivity. Qed.

Lemma npl_encs mask s : scalars s ->
  npl mask (encs s) = length (encs (firstn (runlen mask s) s)).
Proof.
  induction 1 as [|c s Hc Hs IH]; [reflexivity|].
  rewrite encs_cons. cbn [runlen]. unfold mem.
  destruct (c <? 64) eqn:H64.
  - rewrite enc_ascii by lia. cbn [app npl]. unfold contains.
    replace (64 <=? c) with false by lia. cbn [orb andb].
    destruct (N.testbit mask c); cbn [negb firstn]; [reflexivity|].
    rewrite encs_cons, enc_ascii by lia. cbn [app length]. f_equal. exact IH.
  - cbn [andb firstn]. rewrite encs_cons, app_length.
    rewrite npl_all; [f_equal; exact IH|].
    apply Forall_forall. intros b Hb.
    destruct (c <? 0x80) eqn:H80.
    + rewrite enc_ascii in Hb by lia. destruct Hb as [<-|[]]. replace (64 <=? c) with true by lia. reflexivity.
    + apply enc_high in Hb; [|lia]. replace (64 <=? b) with true by lia. reflexivity.
Qed.

Lemma runlen_forallb mask s :
  forallb (fun x => negb (mem mask x)) (firstn (runlen mask s) s) = true.
Proof. induction s as [|c s IH]; [reflexivity|]. cbn [runlen]. destruct (mem mask c) eqn:E; [reflexivity|]. cbn. rewrite E. exact IH. Qed.

(* maximality: the run stops at the end of the buffer or right before a member *)
Lemma runlen_maximal mask s :
  match skipn (runlen mask s) s with [] => True | c :: _ => mem mask c = true end.
Proof. induction s as [|c s IH]; [exact I|]. cbn [runlen]. destruct (mem mask c) eqn:E; [exact E|exact IH]. Qed.

(* ---------- eat ---------- *)
Lemma lowerb_lowerc x : lowerb x = lowerc x. Proof. reflexivity. Qed.
Lemma eqb_eqc ic x y : eqb_of ic x y = eqc_of ic x y. Proof. reflexivity. Qed.

Definition norm (ic : bool) (c : N) : N := if ic then lowerc c else c.
Lemma eqc_norm ic x y : eqc_of ic x y = (norm ic x =? norm ic y).
Proof. destruct ic; reflexivity. Qed.

Lemma norm_scalar ic c : is_scalar c = true -> is_scalar (norm ic c) = true.
Proof. destruct ic; cbn; [|auto]. unfold lowerc, is_scalar. intros H. destruct ((65 <=? c) && (c <=? 90)) eqn:E; lia. Qed.

Lemma map_norm_enc ic c : is_scalar c = true -> map (norm ic) (enc c) = enc (norm ic c).
Proof.
  intros Hc. destruct ic; cbn [norm]; [|apply map_id].
  destruct ((65 <=? c) && (c <=? 90)) eqn:E.
  - assert (L : lowerc c = c + 32) by (unfold lowerc; rewrite E; reflexivity).
    rewrite L. rewrite !enc_ascii by lia. cbn. rewrite L. reflexivity.
  - assert (L : lowerc c = c) by (unfold lowerc; rewrite E; reflexivity).
    rewrite L. destruct (c <? 0x80) eqn:H80.
    + rewrite enc_ascii by lia. cbn. rewrite L. reflexivity.
    + rewrite <- (map_id (enc c)) at 2. apply map_ext_in. intros b Hb.
      apply enc_high in Hb; [|lia]. cbn [norm]. unfold lowerc. replace ((65 <=? b) && (b <=? 90)) with false by lia. reflexivity.
Qed.

Lemma eat_flat_app_eq eqf Y0 X0 P F :
  Forall2 (fun y x => eqf y x = true) Y0 X0 ->
  eat_flat eqf (X0 ++ P) (Y0 ++ F) = eat_flat eqf P F.
Proof. induction 1 as [|y x Y0 X0 H _ IH]; [reflexivity|]. cbn. rewrite H. exact IH. Qed.

Lemma map_eq_Forall2 ic X Y : map (norm ic) Y = map (norm ic) X ->
  Forall2 (fun y x => eqc_of ic y x = true) Y X.
Proof.
  revert X; induction Y as [|y Y IH]; intros [|x X] H; cbn in H; try discriminate; constructor.
  - rewrite eqc_norm. inversion H. lia.
  - inversion H. auto.
Qed.

Lemma eqc_norm_moved : True. Proof. exact I. Qed.
Lemma cmp_not_false ic X : forall Y, eat_flat (eqc_of ic) X Y <> FFalse ->
  exists r, map (norm ic) Y = map (norm ic) X ++ r \/ map (norm ic) X = map (norm ic) Y ++ r.
Proof.
  induction X as [|x X IH]; intros Y H; cbn in *; [eauto|].
  destruct Y as [|y Y]; [cbn; eauto|].
  rewrite eqc_norm in H. destruct (norm ic y =? norm ic x) eqn:E; [|contradiction].
  destruct (IH Y H) as [r [Hr|Hr]]; exists r; cbn; [left|right]; f_equal; auto; lia.
Qed.

Lemma map_norm_encs ic s : scalars s -> map (norm ic) (encs s) = encs (map (norm ic) s).
Proof.
  induction 1 as [|c s Hc _ IH]; [reflexivity|]. rewrite encs_cons, map_app, map_norm_enc, IH by assumption. reflexivity.
Qed.

Definition lift3 (c : cmp3) : cmp3 :=
  match c with FMatch r => FMatch (encs r) | o => o end.

Lemma eat_flat_encs ic p : scalars p -> forall f, scalars f ->
  eat_flat (eqb_of ic) (encs p) (encs f) = lift3 (eat_flat (eqc_of ic) p f).
Proof.
  induction 1 as [|a p Ha Hp IH]; intros f Hf; [reflexivity|].
  destruct Hf as [|b f Hb Hf].
  - rewrite encs_cons. change (encs []) with (@nil N). destruct (enc a) eqn:E; [now apply enc_nonempty in E|]. reflexivity.
  - cbn [eat_flat]. rewrite !encs_cons. rewrite eqc_norm.
    destruct (norm ic b =? norm ic a) eqn:E.
    + rewrite <- IH by assumption.
      change (eqb_of ic) with (eqc_of ic).
      apply eat_flat_app_eq.
      assert (H : map (norm ic) (enc b) = map (norm ic) (enc a)).
      { rewrite !map_norm_enc by assumption. f_equal. lia. }
      apply map_eq_Forall2 in H. exact H.
    + cbn [lift3].
      destruct (eat_flat (eqb_of ic) (enc a ++ encs p) (enc b ++ encs f)) eqn:R; try reflexivity; exfalso.
      all: change (eqb_of ic) with (eqc_of ic) in R;
        assert (NF : eat_flat (eqc_of ic) (enc a ++ encs p) (enc b ++ encs f) <> FFalse) by (rewrite R; discriminate);
        apply cmp_not_false in NF; destruct NF as [r NF];
        rewrite !map_app, !map_norm_enc in NF by assumption;
        rewrite <- !app_assoc in NF;
        destruct NF as [NF|NF]; apply enc_prefix_code in NF; try (apply norm_scalar; assumption);
        destruct NF as [NF _]; lia.
Qed.

(* eat_flat is the prefix comparison: exact case characterisation *)
Lemma eat_flat_match_exact p f r : eat_flat (eqc_of false) p f = FMatch r <-> f = p ++ r.
Proof.
  revert f; induction p as [|a p IH]; intros f; cbn.
  - split; [now inversion 1|now intros ->].
  - destruct f as [|b f]; [split; discriminate|]. cbn.
    destruct (b =? a) eqn:E.
    + rewrite IH. split; [intros ->; f_equal; lia|]. inversion 1. reflexivity.
    + split; [discriminate|]. inversion 1. lia.
Qed.
Lemma eat_flat_none_exact p f : eat_flat (eqc_of false) p f = FNone <-> exists x, x <> [] /\ p = f ++ x.
Proof.
  revert f; induction p as [|a p IH]; intros f; cbn.
  - split; [discriminate|]. intros [x [Hx H]]. symmetry in H. apply app_eq_nil in H. destruct H; contradiction.
  - destruct f as [|b f]; cbn.
    + split; [intros _; exists (a :: p); split; [discriminate|reflexivity]|reflexivity].
    + destruct (b =? a) eqn:E.
      * rewrite IH. split; intros [x [Hx H]]; exists x; split; auto; [f_equal; [lia|exact H]|now inversion H].
      * split; [discriminate|]. intros [x [_ H]]. inversion H. lia.
Qed.

(* match consumes exactly |pat| characters and those compare equal *)
Lemma eat_flat_match_gen ic p : forall f r, eat_flat (eqc_of ic) p f = FMatch r ->
  exists f1, f = f1 ++ r /\ length f1 = length p /\ Forall2 (fun y x => eqc_of ic y x = true) f1 p.
Proof.
  induction p as [|a p IH]; intros f r H; cbn in H.
  - inversion H. exists []. repeat split. constructor.
  - destruct f as [|b f]; [discriminate|]. destruct (eqc_of ic b a) eqn:E; [|discriminate].
    destruct (IH _ _ H) as [f1 [-> [L F2]]]. exists (b :: f1). repeat split; cbn; auto.
Qed.

Definition posok (rest : bq) (cfl : nat) : Prop :=
  match rest with [] => cfl = O | b :: _ => (cfl < length b)%nat end.

Lemma eat_loop_spec eqf pat : forall rest be cfl,
  Forall (fun b => b <> []) rest -> posok rest cfl ->
  match eat_loop eqf pat rest be cfl with
  | EPanic => False
  | ENone => eat_flat eqf pat (skipn cfl (concat rest)) = FNone
  | EFalse => eat_flat eqf pat (skipn cfl (concat rest)) = FFalse
  | EMatch be' cfl' =>
      exists k, be' = (be + k)%nat /\ posok (skipn k rest) cfl' /\
        eat_flat eqf pat (skipn cfl (concat rest)) = FMatch (skipn cfl' (concat (skipn k rest)))
  end.
Proof.
  induction pat as [|p pt IH]; intros rest be cfl Hne Hpos; cbn [eat_loop].
  - exists O. rewrite Nat.add_0_r. cbn [skipn]. auto.
  - destruct rest as [|buf more].
    + cbn in Hpos. subst. reflexivity.
    + cbn in Hpos. cbn [concat].
      destruct (nth_error buf cfl) as [b|] eqn:Hn; [|apply nth_error_None in Hn; lia].
      assert (Hs : skipn cfl (buf ++ concat more) = b :: skipn (S cfl) (buf ++ concat more)).
      { apply nth_error_skipn. rewrite nth_error_app1 by lia. exact Hn. }
      rewrite Hs. cbn [eat_flat].
      destruct (eqf b p); [|reflexivity].
      destruct (Nat.ltb (S cfl) (length buf)) eqn:Hl.
      * apply Nat.ltb_lt in Hl. specialize (IH (buf :: more) be (S cfl) Hne Hl). exact IH.
      * apply Nat.ltb_ge in Hl.
        assert (Hmore : Forall (fun b => b <> []) more) by (inversion Hne; assumption).
        assert (Hp0 : posok more O).
        { destruct more as [|m more']; cbn; [reflexivity|]. inversion Hmore as [|? ? Hm _]. destruct m; [contradiction|cbn; lia]. }
        specialize (IH more (S be) O Hmore Hp0).
        assert (Hsk : skipn (S cfl) (buf ++ concat more) = skipn 0 (concat more)).
        { replace (S cfl) with (length buf) by lia. apply skipn_len_app. }
        rewrite Hsk.
        destruct (eat_loop eqf pt more (S be) 0); auto.
        destruct IH as [k [-> [Hp Hf]]]. exists (S k). split; [lia|]. cbn [skipn]. auto.
Qed.

(* ---------- the one-step refinement ---------- *)
Theorem step_refines cs o :
  wfc cs -> valid_op o ->
  exists cs' r, step (encq cs) (enc_op o) = (encq cs', enc_out r) /\ wfc cs' /\
                spec_step (concat cs) o r (concat cs').
Proof.
  intros Hwf Hv. destruct o as [s|s| | |mask|pat ic]; cbn [enc_op step valid_op] in *.
  - (* push_back *)
    destruct s as [|x s].
    + exists cs, CUnit. cbn. rewrite app_nil_r. auto.
    + exists (cs ++ [x :: s]), CUnit. unfold push_back.
      destruct (encs (x :: s)) eqn:E; [apply encs_nil_inv in E; discriminate|]. rewrite <- E.
      split; [unfold encq; rewrite map_app; reflexivity|]. split.
      * apply Forall_app. split; [assumption|]. constructor; [|constructor]. split; [discriminate|assumption].
      * cbn. rewrite concat_app. cbn. rewrite app_nil_r. auto.
  - (* push_front *)
    destruct s as [|x s].
    + exists cs, CUnit. cbn. auto.
    + exists ((x :: s) :: cs), CUnit. unfold push_front.
      destruct (encs (x :: s)) eqn:E; [apply encs_nil_inv in E; discriminate|]. rewrite <- E.
      split; [reflexivity|]. split; [constructor; [split; [discriminate|assumption]|assumption]|]. cbn. auto.
  - (* next *)
    destruct Hwf as [|c cs [Hne Hc] Hwf]; [exists [], CNone; cbn; repeat split; constructor|].
    destruct c as [|a c]; [contradiction|]. inversion Hc as [|? ? Ha Hc']; subst.
    exists (match c with [] => cs | _ => c :: cs end), (CChar a).
    cbn [encq map next]. rewrite encs_cons, dec1_enc by assumption.
    rewrite put_back_enc. split; [reflexivity|]. split.
    + destruct c; [assumption|]. constructor; [split; [discriminate|assumption]|assumption].
    + cbn. destruct c; cbn; auto.
  - (* peek *)
    exists cs. destruct Hwf as [|c cs [Hne Hc] Hwf]; [exists CNone; cbn; repeat split; constructor|].
    destruct c as [|a c]; [contradiction|]. inversion Hc as [|? ? Ha Hc']; subst.
    exists (CChar a). cbn [encq map peek]. rewrite encs_cons, dec1_enc by assumption.
    split; [reflexivity|]. split; [constructor; [split|]; assumption|]. cbn. auto.
  - (* pop_except_from *)
    destruct Hwf as [|c cs [Hne Hc] Hwf]; [exists [], CNone; cbn; repeat split; constructor|].
    destruct c as [|a c]; [contradiction|]. inversion Hc as [|? ? Ha Hc']; subst.
    cbn [encq map pop_except_from]. fold (encq cs).
    pose proof (npl_encs mask (a :: c) Hc) as Hn.
    cbn [concat app]. cbn [runlen] in Hn.
    destruct (mem mask a) eqn:Hm.
    + change (npl mask (encs (a :: c)) = 0%nat) in Hn.
      rewrite Hn. rewrite encs_cons, dec1_enc by assumption. rewrite put_back_enc.
      exists (match c with [] => cs | _ => c :: cs end), (CSet a). split; [reflexivity|]. split.
      * destruct c; [assumption|]. constructor; [split; [discriminate|assumption]|assumption].
      * cbn [spec_step]. rewrite Hm. destruct c; cbn; auto.
    + set (k := S (runlen mask c)) in *.
      set (run := firstn k (a :: c)) in *. set (rest := skipn k (a :: c)).
      assert (Hsplit : a :: c = run ++ rest) by (symmetry; apply firstn_skipn).
      assert (Hrun : run <> []) by (unfold run, k; cbn; discriminate).
      destruct (npl mask (encs (a :: c))) as [|n] eqn:En.
      { symmetry in Hn. apply length_zero_iff_nil in Hn. apply encs_nil_inv in Hn. contradiction. }
      rewrite Hn. replace (encs (a :: c)) with (encs run ++ encs rest) by (rewrite <- encs_app, <- Hsplit; reflexivity).
      rewrite firstn_len_app, skipn_len_app.
      rewrite put_back_enc.
      exists (match rest with [] => cs | _ => rest :: cs end), (CRun run). split; [reflexivity|]. split.
      * assert (Hr : scalars rest).
        { rewrite Hsplit in Hc. apply scalars_app in Hc. tauto. }
        destruct rest eqn:Er; [assumption|]. constructor; [split; [discriminate|assumption]|assumption].
      * cbn [spec_step]. rewrite Hm. exists run. split; [reflexivity|]. split; [assumption|]. split.
        -- rewrite app_comm_cons, Hsplit. destruct rest; cbn [concat]; rewrite <- ?app_assoc, ?app_nil_r; reflexivity.
        -- pose proof (runlen_forallb mask (a :: c)) as Hf. cbn [runlen] in Hf. rewrite Hm in Hf. exact Hf.
  - (* eat *)
    destruct cs as [|c0 cs0] eqn:Ecs; [exists [], CNone; cbn; repeat split; constructor|]. rewrite <- Ecs in *.
    assert (Hq : encq cs <> []) by (rewrite Ecs; discriminate).
    assert (Hflat : concat cs <> []).
    { rewrite Ecs. inversion Hwf as [|? ? [Hne _] _]; subst; [discriminate|]. inversion H; subst. destruct c0; [contradiction|discriminate]. }
    assert (Hnee : Forall (fun b => b <> []) (encq cs)).
    { unfold encq. apply Forall_map. eapply Forall_impl; [|exact Hwf]. intros x [Hx _]. now apply encs_nonnil. }
    assert (Hp0 : posok (encq cs) O).
    { rewrite Ecs. cbn. inversion Hnee as [|? ? Hb _]; [rewrite Ecs in *; discriminate|]. rewrite Ecs in H. inversion H; subst. destruct (encs c0); [contradiction|cbn; lia]. }
    pose proof (eat_loop_spec (eqb_of ic) (encs pat) (encq cs) O O Hnee Hp0) as HL.
    cbn [skipn] in HL. rewrite concat_encq in HL.
    pose proof (scalars_concat cs Hwf) as Hsc.
    rewrite eat_flat_encs in HL by assumption.
    unfold eat. destruct (encq cs) as [|b0 q0] eqn:Eq; [contradiction|]. rewrite <- Eq in *.
    cbn [spec_step]. destruct (concat cs) as [|f0 fl] eqn:Efl; [contradiction|]. rewrite <- Efl in *.
    destruct (eat_loop (eqb_of ic) (encs pat) (encq cs) 0 0) as [| |be cfl|].
    + destruct (eat_flat (eqc_of ic) pat (concat cs)) eqn:R; try discriminate.
      exists cs, CNone. auto.
    + destruct (eat_flat (eqc_of ic) pat (concat cs)) eqn:R; try discriminate.
      exists cs, (CBool false). auto.
    + destruct HL as [k [Hk [Hpos HL]]]. cbn in Hk. subst k.
      destruct (eat_flat (eqc_of ic) pat (concat cs)) as [| |frest] eqn:R; try discriminate.
      cbn [lift3] in HL. injection HL as HL.
      destruct (eat_flat_match_gen _ _ _ _ R) as [f1 [Hf [_ _]]].
      assert (Hfr : scalars frest) by (rewrite Hf in Hsc; apply scalars_app in Hsc; tauto).
      unfold encq in HL, Hpos |- *. rewrite skipn_map in HL, Hpos |- *.
      pose proof (firstn_skipn be cs) as Hfs.
      assert (Hwf2 : wfc (skipn be cs)).
      { unfold wfc in *. rewrite <- Hfs in Hwf. apply Forall_app in Hwf. tauto. }
      destruct (skipn be cs) as [|c t] eqn:Esk; cbn [map] in *.
      * cbn in Hpos. subst cfl. cbn in HL. apply encs_nil_inv in HL. subst frest.
        exists [], (CBool true). cbn. repeat split. constructor.
      * cbn [posok] in Hpos. cbn [concat] in HL. fold (encq t) in HL. rewrite concat_encq in HL.
        rewrite skipn_app_lt in HL by lia.
        (* char-level split of the remaining text *)
        assert (Hcc : concat cs = concat (firstn be cs) ++ c ++ concat t).
        { rewrite <- Hfs at 1. rewrite concat_app. reflexivity. }
        rewrite Hf in Hcc. rewrite app_assoc in Hcc.
        apply app_eq_app in Hcc. destruct Hcc as [l [[H1 H2]|[H1 H2]]].
        -- (* f1 reaches past chunk c: impossible, cfl < |c| *)
           exfalso. rewrite H2 in HL. rewrite encs_app in HL. rewrite app_assoc in HL.
           symmetry in HL. apply app_self_nil in HL. apply app_eq_nil in HL. destruct HL as [HL _].
           apply (f_equal (@length N)) in HL. rewrite skipn_length in HL. cbn in HL. lia.
        -- rewrite H2 in HL. rewrite encs_app in HL. apply app_inv_tail in HL.
           assert (Hl : l <> []).
           { intros ->. cbn in HL. apply (f_equal (@length N)) in HL. rewrite skipn_length in HL. cbn in HL. lia. }
           exists (l :: t), (CBool true). rewrite <- HL. split; [reflexivity|]. split.
           ++ inversion Hwf2 as [|? ? _ Hwt]. constructor; [|exact Hwt]. split; [exact Hl|].
              rewrite H2 in Hfr. apply scalars_app in Hfr. tauto.
           ++ cbn. rewrite <- H2. auto.
    + contradiction.
Qed.

(* ---------- lifting to every operation sequence ---------- *)
Inductive spec_run : list N -> list cop -> list cout -> list N -> Prop :=
| sr_nil f : spec_run f [] [] f
| sr_cons f o r f1 os rs f2 :
    spec_step f o r f1 -> spec_run f1 os rs f2 -> spec_run f (o :: os) (r :: rs) f2.

Theorem run_refines ops : forall cs,
  wfc cs -> Forall valid_op ops ->
  exists cs' rs, run (encq cs) (map enc_op ops) = (encq cs', map enc_out rs) /\ wfc cs' /\
                 spec_run (concat cs) ops rs (concat cs').
Proof.
  induction ops as [|o ops IH]; intros cs Hwf Hv.
  - exists cs, []. cbn. repeat split; [assumption|constructor].
  - inversion Hv as [|? ? Hvo Hvs]; subst.
    destruct (step_refines cs o Hwf Hvo) as [cs1 [r [Hs [Hwf1 Hsp]]]].
    destruct (IH cs1 Hwf1 Hvs) as [cs2 [rs [Hr [Hwf2 Hsr]]]].
    exists cs2, (r :: rs). cbn [map run]. rewrite Hs, Hr. repeat split; [assumption|].
    econstructor; eassumption.
Qed.

(* no panic on any history of valid operations *)
Corollary run_no_panic ops : Forall valid_op ops ->
  ~ In OPanic (snd (run [] (map enc_op ops))).
Proof.
  intros Hv. destruct (run_refines ops [] (Forall_nil _) Hv) as [cs' [rs [Hr _]]].
  change (encq []) with (@nil (list N)) in Hr. rewrite Hr. cbn [snd].
  intros Hin. apply in_map_iff in Hin. destruct Hin as [r [Hr' _]]. destruct r; discriminate.
Qed.

(* nothing lost, duplicated or reordered: what was delivered ++ what is left
   is what was pushed (for histories of push_back / consuming operations) *)
Definition delivered (o : cop) (r : cout) : list N :=
  match o, r with
  | CNext, CChar c => [c]
  | CPopExcept _, CSet c => [c]
  | CPopExcept _, CRun s => s
  | _, _ => []
  end.

(* runs returned by pop_except_from never cross a buffer join and are maximal
   within the first buffer *)
Theorem pop_run_within_first_buffer mask c cs :
  wfc (c :: cs) ->
  match snd (pop_except_from mask (encq (c :: cs))) with
  | ORun r => exists run rest, r = encs run /\ c = run ++ rest /\ run <> [] /\
                forallb (fun x => negb (mem mask x)) run = true /\
                match rest with [] => True | x :: _ => mem mask x = true end
  | OSet x => exists rest, c = x :: rest /\ mem mask x = true
  | _ => False
  end.
Proof.
  intros Hwf. inversion Hwf as [|? ? [Hne Hc] Hwf']; subst.
  cbn [encq map pop_except_from].
  pose proof (npl_encs mask c Hc) as Hn.
  destruct (npl mask (encs c)) as [|n] eqn:En.
  - symmetry in Hn. apply length_zero_iff_nil in Hn. apply encs_nil_inv in Hn.
    destruct c as [|a c]; [contradiction|]. cbn [runlen] in Hn.
    destruct (mem mask a) eqn:Hm; [|cbn in Hn; discriminate].
    inversion Hc; subst. rewrite encs_cons, dec1_enc by assumption. cbn. eauto.
  - cbn [snd]. rewrite Hn.
    pose proof (firstn_skipn (runlen mask c) c) as Hfs.
    replace (encs c) with (encs (firstn (runlen mask c) c) ++ encs (skipn (runlen mask c) c))
      by (rewrite <- encs_app, Hfs; reflexivity).
    rewrite firstn_len_app.
    exists (firstn (runlen mask c) c), (skipn (runlen mask c) c).
    split; [reflexivity|]. split; [auto|]. split.
    + intros E. rewrite E in Hn. cbn in Hn. discriminate.
    + split; [apply runlen_forallb|apply runlen_maximal].
Qed.

Fixpoint delivered_all (ops : list cop) (rs : list cout) : list N :=
  match ops, rs with
  | o :: os, r :: rs' => delivered o r ++ delivered_all os rs'
  | _, _ => []
  end.
Fixpoint pushed (ops : list cop) : list N :=
  match ops with
  | CPushBack s :: os => s ++ pushed os
  | _ :: os => pushed os
  | [] => []
  end.
Definition consuming (o : cop) : Prop :=
  match o with CPushFront _ | CEat _ _ => False | _ => True end.

Lemma spec_no_loss f ops rs f' :
  spec_run f ops rs f' -> Forall consuming ops ->
  delivered_all ops rs ++ f' = f ++ pushed ops.
Proof.
  induction 1 as [f|f o r f1 os rs f2 Hs Hr IH]; intros Hc.
  - cbn. now rewrite app_nil_r.
  - inversion Hc as [|? ? Ho Hos]; subst. specialize (IH Hos).
    destruct o as [s|s| | |mask|p ic]; cbn [spec_step consuming] in *; try contradiction.
    + destruct Hs as [-> ->]. cbn. rewrite IH, app_assoc. reflexivity.
    + destruct f as [|c t]; destruct Hs as [-> ->]; cbn; rewrite IH; reflexivity.
    + destruct Hs as [-> Hs]. destruct f as [|c t]; subst r; cbn; exact IH.
    + destruct f as [|c t]; [destruct Hs as [-> ->]; cbn; exact IH|].
      destruct (mem mask c).
      * destruct Hs as [-> ->]. cbn. rewrite IH. reflexivity.
      * destruct Hs as [run [-> [_ [Hf _]]]]. cbn [delivered_all delivered pushed].
        rewrite <- app_assoc, IH, Hf, app_assoc. reflexivity.
Qed.
