(* Format level: the validators the implementation uses (vprefix / vsuffix /
   vsubseq via futf::classify) decide validity of the RESULT, given that the
   parent string is valid; validity is preserved by the string operations. *)
From Coq Require Import List NArith Bool Lia Arith.
From HV Require Import Base.Utf8 Tendril.Heap Tendril.TModel Tendril.TSpec Tendril.TUtf8 Tendril.TWtf8 Tendril.TInv.
Import ListNotations.
Local Open Scope N_scope.

Lemma validate_fvalid f b : validate f b = fvalid f b.
Proof. destruct f; try reflexivity. apply wtf8_validate_ok. Qed.

Lemma fvalid_utf8 b : fvalid FUtf8 b = uvalid b.
Proof. reflexivity. Qed.

Lemma forallb_firstn {A} (p : A -> bool) n l : forallb p l = true -> forallb p (firstn n l) = true.
Proof.
  revert l; induction n; intros l H; [reflexivity|]. destruct l; [reflexivity|].
  cbn in *. apply andb_true_iff in H. destruct H. apply andb_true_iff. auto.
Qed.
Lemma forallb_skipn {A} (p : A -> bool) n l : forallb p l = true -> forallb p (skipn n l) = true.
Proof.
  revert l; induction n; intros l H; [exact H|]. destruct l; [reflexivity|].
  cbn in *. apply andb_true_iff in H. destruct H. auto.
Qed.

Lemma ascii_slice x off len : fvalid FAscii x = true -> fvalid FAscii (slice x off len) = true.
Proof. intros H. unfold slice. apply forallb_firstn, forallb_skipn, H. Qed.

Lemma subseq_ok f x off len : fvalid_inv f x = true ->
  vsubseq f (slice x off len) = sub_ok f (slice x off len).
Proof.
  intros H. destruct f; try reflexivity.
  - apply utf8_subseq_ok. exact H.
  - unfold sub_ok. rewrite ascii_slice by exact H. reflexivity.
  - apply wtf8_subseq_ok. exact H.
Qed.

Lemma suffix_ok_eq f x n : fvalid_inv f x = true ->
  vsuffix f (slice x n (llen x - n)) = suffix_ok f (slice x n (llen x - n)).
Proof.
  intros H. destruct f; try reflexivity.
  - rewrite slice_to_end. apply utf8_suffix_ok. exact H.
  - unfold suffix_ok. rewrite ascii_slice by exact H. reflexivity.
  - rewrite slice_to_end. apply wtf8_suffix_ok. exact H.
Qed.

Lemma prefix_ok_eq f x k : fvalid_inv f x = true ->
  vprefix f (slice x 0 k) = prefix_ok f (slice x 0 k).
Proof.
  intros H. destruct f; try reflexivity.
  - rewrite slice_0. apply utf8_prefix_ok. exact H.
  - unfold prefix_ok. rewrite ascii_slice by exact H. reflexivity.
  - rewrite slice_0. apply wtf8_prefix_ok. exact H.
Qed.

(* validity of results *)
Lemma sub_ok_valid f b : sub_ok f b = true -> fvalid_inv f b = true.
Proof. destruct f; auto. Qed.
Lemma suffix_ok_valid f b : suffix_ok f b = true -> fvalid_inv f b = true.
Proof. destruct f; auto. Qed.
Lemma prefix_ok_valid f b : prefix_ok f b = true -> fvalid_inv f b = true.
Proof. destruct f; auto. Qed.

Lemma fvalid_inv_nil f : fvalid_inv f [] = true.
Proof. destruct f; reflexivity. Qed.

Lemma fvalid_inv_of f b : fvalid f b = true -> fvalid_inv f b = true.
Proof. destruct f; auto. Qed.

Lemma pushed_plain f a b : f <> FWtf8 -> pushed f a b = a ++ b.
Proof.
  intros H. unfold pushed. destruct f; try congruence; cbn [fixup];
    rewrite N.sub_0_r; cbn [N.to_nat skipn app]; unfold llen; rewrite Nat2N.id, firstn_all; reflexivity.
Qed.

Lemma pushed_sconcat f a b : fvalid_inv f a = true -> fvalid f b = true -> pushed f a b = sconcat f a b.
Proof. intros Ha Hb. destruct f; try (apply pushed_plain; discriminate). apply wtf8_pushed_sconcat; assumption. Qed.

Lemma fvalid_app f a b : f <> FWtf8 -> fvalid f a = true -> fvalid f b = true -> fvalid f (a ++ b) = true.
Proof.
  destruct f; intros Hf Ha Hb; try reflexivity; try congruence.
  - apply uvalid_app; assumption.
  - cbn [fvalid] in *. rewrite forallb_app, Ha, Hb. reflexivity.
Qed.

Lemma pushed_valid f a b : fvalid_inv f a = true -> fvalid f b = true -> fvalid_inv f (pushed f a b) = true.
Proof.
  intros Ha Hb. destruct f; try reflexivity.
  - rewrite pushed_plain by discriminate. apply fvalid_app; auto. discriminate.
  - rewrite pushed_plain by discriminate. apply fvalid_app; auto. discriminate.
  - unfold fvalid_inv, fvalid in *. rewrite wtf8_pushed_sconcat by assumption. apply wtf8_sconcat_valid; assumption.
Qed.

Lemma encode_char_valid f c e : is_scalar c = true -> encode_char f c = Some e -> fvalid f e = true.
Proof.
  intros Hc. destruct f; cbn [encode_char]; try discriminate.
  - intros [= <-]. apply uvalid_enc, Hc.
  - destruct (N.ltb_spec 0x7F c); [discriminate|]. intros [= <-]. cbn.
    rewrite andb_true_r. apply N.leb_le. lia.
  - destruct (0xFF <? c); [discriminate|]. intros [= <-]. reflexivity.
Qed.

Lemma upper_valid f x : f <> FWtf8 -> fvalid_inv f x = true -> fvalid_inv f (map upper x) = true.
Proof.
  destruct f; intros Hf H; try reflexivity; try congruence.
  - apply uvalid_upper, H.
  - cbn [fvalid_inv fvalid] in *. rewrite forallb_forall in *. intros y Hy.
    apply in_map_iff in Hy. destruct Hy as [z [<- Hz]]. specialize (H z Hz).
    apply N.leb_le in H. apply N.leb_le. unfold upper.
    destruct ((97 <=? z) && (z <=? 122)); lia.
Qed.

(* ---------------------------------------------------------------- chars *)
Lemma first_char_ok f x : is_charfmt f = true -> fvalid_inv f x = true ->
  match first_char f x with
  | None => x = []
  | Some None => False
  | Some (Some (c, w)) => 1 <= w /\ w <= llen x /\
                          fvalid_inv f (firstn (N.to_nat w) x) = true /\
                          fvalid_inv f (skipn (N.to_nat w) x) = true
  end.
Proof.
  intros Hf Hv. destruct x as [|b r]; [reflexivity|].
  destruct f; try discriminate.
  - destruct (uvalid_first (b :: r) Hv) as [c [r' [Hd [Hr [Hl [Hs Hp]]]]]]; [discriminate|].
    rewrite first_char_utf8 by discriminate. rewrite Hd.
    assert (Hw : N.to_nat (llen (b :: r) - llen r') = (length (b :: r) - length r')%nat) by (unfold llen; lia).
    rewrite Hw. split; [unfold llen; lia|]. split; [lia|]. split; [exact Hp|]. rewrite Hs. exact Hr.
  - cbn [first_char]. split; [lia|]. split; [rewrite llen_cons; lia|].
    cbn [fvalid_inv fvalid] in *. split; [apply forallb_firstn, Hv|apply forallb_skipn, Hv].
  - cbn [first_char]. split; [lia|]. split; [rewrite llen_cons; lia|]. split; reflexivity.
Qed.

Lemma find_mismatch_single f kind m class : f = FAscii \/ f = FLatin1 ->
  forall fuel y pos, (length y <= fuel)%nat ->
  exists r, find_mismatch fuel f kind m class y pos = Some r /\
    match r with
    | None => True
    | Some idx => exists j, idx = pos + N.of_nat j /\ (j < length y)%nat
    end.
Proof.
  intros Hf. induction fuel as [|fu IH]; intros y pos Hl.
  - destruct y; [|cbn in Hl; lia]. exists None. split; [reflexivity|exact I].
  - destruct y as [|b r].
    + exists None. split; [reflexivity|exact I].
    + assert (Hfc : first_char f (b :: r) = Some (Some (b, 1))) by (destruct Hf as [-> | ->]; reflexivity).
      cbn [find_mismatch]. rewrite Hfc.
      destruct (negb (classify_char kind m b =? class)).
      * eexists. split; [reflexivity|]. exists 0%nat. split; [lia|cbn; lia].
      * cbn [N.to_nat Pos.to_nat Pos.iter_op skipn]. change (skipn (Pos.to_nat 1) (b :: r)) with r.
        destruct (IH r (pos + 1)) as [res [Hres Hm]]; [cbn in Hl; lia|].
        exists res. split; [exact Hres|]. destruct res as [idx|]; auto.
        destruct Hm as [j [-> Hj]]. exists (S j). split; [lia|cbn; lia].
Qed.

Lemma find_mismatch_gen f kind m class fuel y pos :
  is_charfmt f = true -> fvalid_inv f y = true -> (length y <= fuel)%nat ->
  exists r, find_mismatch fuel f kind m class y pos = Some r /\
    match r with
    | None => True
    | Some idx => exists j, idx = pos + N.of_nat j /\ (j < length y)%nat /\
                  fvalid_inv f (firstn j y) = true /\ fvalid_inv f (skipn j y) = true
    end.
Proof.
  intros Hf Hv Hl. destruct f; try discriminate.
  - apply find_mismatch_ok; auto.
  - destruct (find_mismatch_single FAscii kind m class (or_introl eq_refl) fuel y pos Hl) as [r [Hr Hm]].
    exists r. split; auto. destruct r; auto. destruct Hm as [j [-> Hj]]. exists j.
    repeat split; auto; cbn [fvalid_inv fvalid] in *; [apply forallb_firstn, Hv|apply forallb_skipn, Hv].
  - destruct (find_mismatch_single FLatin1 kind m class (or_intror eq_refl) fuel y pos Hl) as [r [Hr Hm]].
    exists r. split; auto. destruct r; auto. destruct Hm as [j [-> Hj]]. exists j. repeat split; auto.
Qed.
