(* Heap model for tendril (C11/C12): buffers, tendril representations,
   allocation events, the state/exception/trace monad and the Buf32 primitives
   (tendril/src/buf32.rs).  Definitions only. *)
From Coq Require Import List NArith Bool.
Import ListNotations.
Local Open Scope N_scope.

Notation byte := N (only parsing).
Definition bufid := N.

(* One heap allocation made by Buf32::with_capacity.
   rc   : Header.refcount
   hcap : Header.cap  (0 until make_buf_shared stores the capacity there)
   acap : the capacity in bytes the allocation really has (ghost: the code keeps
          it in the owning tendril's aux field while owned, in hcap once shared)
   data : the initialised prefix of the payload area *)
Record buffer := mkBuf { rc : N; hcap : N; acap : N; data : list byte }.

Definition heap := bufid -> option buffer.
Definition hempty : heap := fun _ => None.
Definition hupd (h : heap) (id : bufid) (v : option buffer) : heap :=
  fun j => if j =? id then v else h j.

(* buffer ids are never reused: an id names an allocation, not an address *)
Record st := mkSt { hp : heap; nxt : bufid }.
Definition st0 : st := mkSt hempty 0.

(* tendril.rs: ptr <= 0xF inline (EMPTY_TAG = 0xF for len 0, else len <= 8);
   otherwise header pointer, bit 0 = shared.
   Owned: Heap{len, aux = capacity}; Shared: Heap{len, aux = offset}. *)
Inductive tendril :=
| Inline (bs : list byte)
| Owned (id : bufid) (len cap : N)
| Shared (id : bufid) (off len : N).

Inductive event :=
| Alloc (id : bufid) (cap : N)
| Realloc (id : bufid) (cap : N)
| Free (id : bufid) (cap : N)       (* cap = the capacity the code passes to Vec::from_raw_parts *)
| RdEv (id : bufid) (lo hi : N)     (* a byte slice [lo,hi) of the payload is formed / read *)
| WrEv (id : bufid) (lo hi : N).

(* Err   : the Rust function returned Err (or, for the unwrap() variants, panicked
           on that Err) before touching anything
   Panic : the documented "tendril: overflow in buffer arithmetic" panic or a
           failed assert!; terminal for a history
   UB    : the model detected a dangling / out-of-protocol access; proved unreachable *)
Inductive res (A : Type) :=
| Ok (a : A) | Err (e : N) | Panic (site : N) | UB (site : N).
Arguments Ok {A} a. Arguments Err {A} e. Arguments Panic {A} site. Arguments UB {A} site.

Definition M (A : Type) := st -> res (A * st * list event).
Definition ret {A} (a : A) : M A := fun s => Ok (a, s, []).
Definition bind {A B} (m : M A) (f : A -> M B) : M B := fun s =>
  match m s with
  | Ok (a, s1, e1) =>
    match f a s1 with
    | Ok (b, s2, e2) => Ok (b, s2, e1 ++ e2)
    | Err e => Err e | Panic k => Panic k | UB k => UB k
    end
  | Err e => Err e | Panic k => Panic k | UB k => UB k
  end.
Notation "x <- m ;; f" := (bind m (fun x => f)) (at level 61, m at next level, right associativity).
Notation "m ;;; f" := (bind m (fun _ => f)) (at level 61, right associativity).
Definition err {A} (e : N) : M A := fun _ => Err e.
Definition panic {A} (k : N) : M A := fun _ => Panic k.
Definition ub {A} (k : N) : M A := fun _ => UB k.
Definition emit (e : event) : M unit := fun s => Ok (tt, s, [e]).

Definition MAXU32 : N := 4294967295.
Definition MAX_INLINE_LEN : N := 8.
Definition MIN_CAP : N := 16.
Definition HEADER : N := 16.     (* size_of::<Header<A>>() on 64-bit: usize + u32, padded *)

Definition llen {A} (l : list A) : N := N.of_nat (length l).
Definition slice {A} (l : list A) (off len : N) : list A :=
  firstn (N.to_nat len) (skipn (N.to_nat off) l).

(* vec_capacity_to_bytes (bytes_to_vec_capacity x): x rounded up to a multiple
   of the header size *)
Definition round16 (x : N) : N := ((x + (HEADER - 1)) / HEADER) * HEADER.

(* u32::checked_next_power_of_two *)
Definition next_pow2 (x : N) : N := 2 ^ N.log2_up x.

(* Buf32::with_capacity(cap, Header::new()) *)
Definition with_capacity (cap : N) : M (bufid * N) := fun s =>
  let c := round16 (N.max cap MIN_CAP) in
  if MAXU32 <? c then Panic 1
  else let id := nxt s in
       Ok ((id, c), mkSt (hupd (hp s) id (Some (mkBuf 1 0 c []))) (id + 1), [Alloc id c]).

(* Buf32::grow: no-op when new_cap <= cap, else realloc to the next power of two *)
Definition grow (id : bufid) (cap new_cap : N) : M N := fun s =>
  if new_cap <=? cap then Ok (cap, s, [])
  else
    let p := next_pow2 new_cap in
    if 2147483648 <? p then Panic 2
    else
      let c := round16 p in
      if MAXU32 <? c then Panic 3
      else match hp s id with
           | None => UB 1
           | Some b => Ok (c, mkSt (hupd (hp s) id (Some (mkBuf (rc b) (hcap b) c (data b)))) (nxt s),
                           [Realloc id c])
           end.

(* Buf32::destroy with the capacity the caller believes *)
Definition destroy (id : bufid) (cap : N) : M unit := fun s =>
  match hp s id with
  | None => UB 2
  | Some _ => Ok (tt, mkSt (hupd (hp s) id None) (nxt s), [Free id cap])
  end.

(* overwrite the payload from position [pos] with [bs] (copy_and_advance chain);
   everything before pos is kept, the initialised prefix then ends after bs *)
Definition write_at (id : bufid) (pos : N) (bs : list byte) : M unit := fun s =>
  match hp s id with
  | None => UB 3
  | Some b =>
    Ok (tt, mkSt (hupd (hp s) id (Some (mkBuf (rc b) (hcap b) (acap b)
                                               (firstn (N.to_nat pos) (data b) ++ bs)))) (nxt s),
        [WrEv id pos (pos + llen bs)])
  end.

(* the byte slice a tendril denotes (as_byte_slice); total *)
Definition view (s : st) (t : tendril) : list byte :=
  match t with
  | Inline bs => bs
  | Owned id len _ => match hp s id with Some b => slice (data b) 0 len | None => [] end
  | Shared id off len => match hp s id with Some b => slice (data b) off len | None => [] end
  end.

Definition tlen (t : tendril) : N :=
  match t with Inline bs => llen bs | Owned _ len _ => len | Shared _ _ len => len end.

(* as_byte_slice, with the slice formation recorded *)
Definition bytes_of (t : tendril) : M (list byte) := fun s =>
  match t with
  | Inline bs => Ok (bs, s, [])
  | Owned id len _ =>
    match hp s id with Some b => Ok (slice (data b) 0 len, s, [RdEv id 0 len]) | None => UB 4 end
  | Shared id off len =>
    match hp s id with Some b => Ok (slice (data b) off len, s, [RdEv id off (off + len)]) | None => UB 5 end
  end.
