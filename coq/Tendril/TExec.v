(* Every operation of a history preserves the invariant, emits a well-formed
   allocator trace and does to the abstract pool exactly what the
   independent-strings specification says. *)
From Coq Require Import List NArith Bool Lia Arith Permutation.
From HV Require Import Base.Utf8 Tendril.Heap Tendril.TModel Tendril.TSpec Tendril.TUtf8 Tendril.TWtf8 Tendril.TInv
     Tendril.TPrim Tendril.TFmt Tendril.TOps Tendril.TPool.
Import ListNotations.
Local Open Scope N_scope.

Definition step_post (o : op) (s : st) (p : pool) : outcome * pool -> st -> list event -> Prop :=
  fun r s' ev => PInv s' (snd r) /\ trace_ok s ev s' /\ length (snd r) = length p /\ nxt s <= nxt s' /\
                 spec_op o (abs s p) = (fst r, abs s' (snd r)).

Lemma same_post o s p out : PInv s p -> spec_op o (abs s p) = (out, abs s p) ->
  step_post o s p (out, p) s [].
Proof.
  intros HP Hs. split; [exact HP|]. split; [apply trace_refl|]. split; [reflexivity|]. split; [lia|].
  exact Hs.
Qed.

Lemma wp_try {A} (m : M A) s (Q : A -> st -> list event -> Prop) (Ee E' : N -> Prop) :
  wp m s Q Ee ->
  wp (try_ m) s (fun r s' ev => match r with
                                | inl a => Q a s' ev
                                | inr e => Ee e /\ s' = s /\ ev = []
                                end) E'.
Proof. unfold wp, try_. destruct (m s) as [[[a s1] e1]| | |]; auto. Qed.

Ltac bad_case HP := apply wp_ret; apply same_post; [exact HP|].

(* in-place update of slot i *)
Lemma inplace_post o s p i f t f' t' s' ev out X :
  PInv s p -> get p i = Some (f, t) ->
  post1 s (tendrils (set_nth i None p)) X t' s' ev ->
  fvalid_inv f' X = true ->
  spec_op o (abs s p) = (out, set_nth i (Some (f', X)) (abs s p)) ->
  step_post o s p (out, set_nth i (Some (f', t')) p) s' ev.
Proof.
  intros [HI PV] G [A1 [A2 [A3 [A4 A5]]]] Hv Hs.
  pose proof (get_in_range _ _ _ G) as R.
  destruct (slot_update s s' p i f' t' X R A1 A2 A4) as [B1 B2].
  unfold step_post, PInv. cbn [fst snd]. split; [split; [exact B1|rewrite B2; apply pool_valid_set; auto]|].
  split; [exact A3|]. split; [apply set_nth_length|]. split; [exact A5|].
  rewrite B2. exact Hs.
Qed.

Lemma exec_new s p d f bs : PInv s p -> wp (exec_op (ONew d f bs) p) s (step_post (ONew d f bs) s p) noerr.
Proof.
  intros HP. pose proof HP as [HI PV]. cbn [exec_op].
  destruct (in_range p d) eqn:R; cbn [negb].
  2:{ bad_case HP. cbn [spec_op]. rewrite sin_range_abs, R. reflexivity. }
  rewrite validate_fvalid. destruct (fvalid f bs) eqn:V; cbn [negb].
  2:{ bad_case HP. cbn [spec_op]. rewrite sin_range_abs, R, V. reflexivity. }
  step ltac:(apply from_bytes_ok; exact HI).
  intros t s1 e1 [A1 [A2 [A3 [A4 A5]]]].
  step ltac:(apply assign_ok; [exact R|exact A1]).
  intros p' s2 e2 [B1 [B2 [B3 [B4 B5]]]]. apply wp_ret. unfold step_post, PInv. cbn [fst snd].
  rewrite A4, (abs_frame s s1 p A2) in B4.
  split; [split; [exact B1|rewrite B4; apply pool_valid_set; auto; apply fvalid_inv_of, V]|].
  split; [eapply trace_trans; [exact A3|]; rewrite app_nil_r; exact B2|]. split; [exact B3|]. split; [lia|].
  cbn [spec_op]. rewrite sin_range_abs, R, V. cbn [negb]. rewrite B4. reflexivity.
Qed.

Lemma exec_withcap s p d f n : PInv s p -> wp (exec_op (OWithCap d f n) p) s (step_post (OWithCap d f n) s p) noerr.
Proof.
  intros HP. pose proof HP as [HI PV]. cbn [exec_op].
  destruct (in_range p d) eqn:R; cbn [negb].
  2:{ bad_case HP. cbn [spec_op]. rewrite sin_range_abs, R. reflexivity. }
  step ltac:(apply t_with_capacity_ok; exact HI).
  intros t s1 e1 [A1 [A2 [A3 [A4 A5]]]].
  step ltac:(apply assign_ok; [exact R|exact A1]).
  intros p' s2 e2 [B1 [B2 [B3 [B4 B5]]]]. apply wp_ret. unfold step_post, PInv. cbn [fst snd].
  rewrite A4, (abs_frame s s1 p A2) in B4.
  split; [split; [exact B1|rewrite B4; apply pool_valid_set; auto; apply fvalid_inv_nil]|].
  split; [eapply trace_trans; [exact A3|]; rewrite app_nil_r; exact B2|]. split; [exact B3|]. split; [lia|].
  cbn [spec_op]. rewrite sin_range_abs, R. cbn [negb]. rewrite B4. reflexivity.
Qed.

Lemma exec_drop s p i : PInv s p -> wp (exec_op (ODrop i) p) s (step_post (ODrop i) s p) noerr.
Proof.
  intros HP. pose proof HP as [HI PV]. cbn [exec_op].
  destruct (get p i) as [[f t]|] eqn:G.
  2:{ bad_case HP. cbn [spec_op]. rewrite sget_abs, G. reflexivity. }
  step ltac:(apply drop_ok; apply (HInv_get _ _ _ _ _ HI G)).
  intros _ s1 e1 [A1 [A2 [A3 A4]]]. apply wp_ret. unfold step_post, PInv. cbn [fst snd].
  pose proof (slot_clear s s1 p i A2) as B.
  split; [split; [exact A1|rewrite B; apply pool_valid_set_none, PV]|].
  split; [rewrite app_nil_r; exact A3|]. split; [apply set_nth_length|]. split; [lia|].
  cbn [spec_op]. rewrite sget_abs, G, B. reflexivity.
Qed.

Lemma exec_clear s p i : PInv s p -> wp (exec_op (OClear i) p) s (step_post (OClear i) s p) noerr.
Proof.
  intros HP. pose proof HP as [HI PV]. cbn [exec_op].
  destruct (get p i) as [[f t]|] eqn:G.
  2:{ bad_case HP. cbn [spec_op]. rewrite sget_abs, G. reflexivity. }
  step ltac:(apply clear_ok; apply (HInv_get _ _ _ _ _ HI G)).
  intros t' s1 e1 A. apply wp_ret. rewrite app_nil_r.
  eapply inplace_post; eauto; [apply fvalid_inv_nil|].
  cbn [spec_op]. rewrite sget_abs, G. reflexivity.
Qed.

Lemma abs_same_slot s p i f t : get p i = Some (f, t) -> set_nth i (Some (f, view s t)) (abs s p) = abs s p.
Proof.
  intros G. apply set_nth_same. unfold abs. rewrite nth_error_map. unfold get in G.
  destruct (nth_error p i) as [[e|]|]; cbn in *; try discriminate. injection G as ->. reflexivity.
Qed.

Lemma fmt_eqb_eq f g : fmt_eqb f g = true -> f = g.
Proof. destruct f, g; cbn; congruence. Qed.

Lemma exec_push s p i bs : PInv s p -> wp (exec_op (OPush i bs) p) s (step_post (OPush i bs) s p) noerr.
Proof.
  intros HP. pose proof HP as [HI PV]. cbn [exec_op].
  destruct (get p i) as [[f t]|] eqn:G.
  2:{ bad_case HP. cbn [spec_op]. rewrite sget_abs, G. reflexivity. }
  step ltac:(apply wp_try; apply try_push_bytes_ok; apply (HInv_get _ _ _ _ _ HI G)).
  intros [t'|e] s1 e1 Hr.
  - destruct Hr as [A V]. apply wp_ret. rewrite app_nil_r. rewrite validate_fvalid in V.
    pose proof (pool_valid_get _ _ _ _ _ PV G) as Vt.
    eapply inplace_post; eauto.
    + apply pushed_valid; [exact Vt|exact V].
    + cbn [spec_op]. rewrite sget_abs, G, V, (pushed_sconcat f _ _ Vt V). reflexivity.
  - destruct Hr as [[-> V] [-> ->]]. apply wp_ret. rewrite validate_fvalid in V. apply same_post; [exact HP|].
    cbn [spec_op]. rewrite sget_abs, G, V. reflexivity.
Qed.

Lemma exec_pusht s p d i : PInv s p -> wp (exec_op (OPushT d i) p) s (step_post (OPushT d i) s p) noerr.
Proof.
  intros HP. pose proof HP as [HI PV]. cbn [exec_op].
  destruct (get p d) as [[f t]|] eqn:G.
  2:{ bad_case HP. cbn [spec_op]. rewrite sget_abs, G. reflexivity. }
  destruct (get p i) as [[g o]|] eqn:G2.
  2:{ bad_case HP. cbn [spec_op]. rewrite !sget_abs, G, G2. reflexivity. }
  destruct (Nat.eqb_spec d i) as [Hdi|Hdi]; cbn [orb].
  { bad_case HP. cbn [spec_op]. rewrite !sget_abs, G, G2. subst. rewrite Nat.eqb_refl. reflexivity. }
  destruct (fmt_eqb f g) eqn:Hfg; cbn [negb].
  2:{ bad_case HP. cbn [spec_op]. rewrite !sget_abs, G, G2, Hfg.
      destruct (Nat.eqb_spec d i); [congruence|]. reflexivity. }
  apply fmt_eqb_eq in Hfg. subst g.
  step ltac:(apply push_tendril_ok with (fr := tendrils (set_nth d None p));
             [apply (HInv_get _ _ _ _ _ HI G)|eapply get_other_in; eauto]).
  intros t' s1 e1 A. apply wp_ret. rewrite app_nil_r.
  pose proof (pool_valid_get _ _ _ _ _ PV G) as Vt. pose proof (pool_valid_get _ _ _ _ _ PV G2) as Vo.
  eapply inplace_post; eauto.
  - apply pushed_valid; [exact Vt|exact Vo].
  - cbn [spec_op]. rewrite !sget_abs, G, G2.
    destruct (Nat.eqb_spec d i); [congruence|]. cbn [orb].
    replace (fmt_eqb f f) with true by (destruct f; reflexivity). cbn [negb].
    rewrite (pushed_sconcat f _ _ Vt Vo). reflexivity.
Qed.

Lemma assign_after_update s s1 p i d f t1 t2 E :
  in_range p i = true -> in_range p d = true ->
  HInv s1 (t1 :: t2 :: tendrils (set_nth i None p)) -> frame s s1 (tendrils (set_nth i None p)) ->
  wp (assign (set_nth i (Some (f, t1)) p) d (f, t2)) s1
     (fun p' s' ev => HInv s' (tendrils p') /\ trace_ok s1 ev s' /\ length p' = length p /\ nxt s1 <= nxt s' /\
        abs s' p' = set_nth d (Some (f, view s1 t2)) (set_nth i (Some (f, view s1 t1)) (abs s p))) E.
Proof.
  intros Ri Rd HI F.
  assert (HI1 : HInv s1 (t2 :: tendrils (set_nth i (Some (f, t1)) p))).
  { eapply HInv_perm; [|exact HI].
    etransitivity; [apply perm_swap|]. apply perm_skip. symmetry.
    apply (tendrils_set p i (Some (f, t1)) Ri). }
  eapply wp_conseq; [apply assign_ok; [rewrite in_range_set; exact Rd|exact HI1]|].
  intros p' s' ev [B1 [B2 [B3 [B4 B5]]]].
  split; [exact B1|]. split; [exact B2|]. split; [rewrite B3; apply set_nth_length|]. split; [exact B5|].
  rewrite B4. f_equal. rewrite abs_set. cbn [aslot]. apply set_abs_frame. exact F.
Qed.

Lemma exec_clone s p d i : PInv s p -> wp (exec_op (OClone d i) p) s (step_post (OClone d i) s p) noerr.
Proof.
  intros HP. pose proof HP as [HI PV]. cbn [exec_op].
  destruct (get p i) as [[f t]|] eqn:G.
  2:{ bad_case HP. cbn [spec_op]. rewrite sget_abs, G. reflexivity. }
  destruct (in_range p d) eqn:R; cbn [negb].
  2:{ bad_case HP. cbn [spec_op]. rewrite sget_abs, G, sin_range_abs, R. reflexivity. }
  step ltac:(apply clone_ok; apply (HInv_get _ _ _ _ _ HI G)).
  intros [t1 t2] s1 e1 [A1 [A2 [A3 [A4 [A5 A6]]]]]. cbn [fst snd] in *.
  step ltac:(apply (assign_after_update s s1 p i d f t1 t2); [eapply get_in_range; eauto|exact R|exact A1|exact A2]).
  intros p' s2 e2 [B1 [B2 [B3 [B4 B5]]]]. apply wp_ret. unfold step_post, PInv. cbn [fst snd].
  rewrite A4, A5, (abs_same_slot s p i f t G) in B5.
  split; [split; [exact B1|rewrite B5; apply pool_valid_set; auto; eapply pool_valid_get; eauto]|].
  split; [eapply trace_trans; [exact A3|]; rewrite app_nil_r; exact B2|]. split; [exact B3|]. split; [lia|].
  cbn [spec_op]. rewrite sget_abs, G, sin_range_abs, R. cbn [negb]. rewrite B5. reflexivity.
Qed.

Lemma bounds_flip l off len : (l <? off) || (l - off <? len) = negb (in_bounds l off len).
Proof. unfold in_bounds. now rewrite negb_involutive. Qed.

Lemma exec_sub s p uw d i off len :
  PInv s p -> wp (exec_op (OSub uw d i off len) p) s (step_post (OSub uw d i off len) s p) noerr.
Proof.
  intros HP. pose proof HP as [HI PV]. cbn [exec_op].
  destruct (get p i) as [[f t]|] eqn:G.
  2:{ bad_case HP. cbn [spec_op]. rewrite sget_abs, G. reflexivity. }
  destruct (in_range p d) eqn:R; cbn [negb].
  2:{ bad_case HP. cbn [spec_op]. rewrite sget_abs, G, sin_range_abs, R. reflexivity. }
  pose proof (HInv_get _ _ _ _ _ HI G) as HIt.
  pose proof (view_len _ _ (HInv_head _ _ _ HIt)) as Hlen.
  pose proof (pool_valid_get _ _ _ _ _ PV G) as Vt.
  step ltac:(apply wp_try; apply try_subtendril_ok; exact HIt).
  intros [[t1 t2]|e] s1 e1 Hr.
  - destruct Hr as [[A1 [A2 [A3 [A4 [A5 A6]]]]] [Hb Hv]]. cbn [fst snd] in *.
    step ltac:(apply (assign_after_update s s1 p i d f t1 t2); [eapply get_in_range; eauto|exact R|exact A1|exact A2]).
    intros p' s2 e2 [B1 [B2 [B3 [B4 B5]]]]. apply wp_ret. unfold step_post, PInv. cbn [fst snd].
    rewrite A4, A5, (abs_same_slot s p i f t G) in B5.
    rewrite (subseq_ok f _ off len Vt) in Hv.
    split; [split; [exact B1|rewrite B5; apply pool_valid_set; auto; apply sub_ok_valid, Hv]|].
    split; [eapply trace_trans; [exact A3|]; rewrite app_nil_r; exact B2|]. split; [exact B3|]. split; [lia|].
    cbn [spec_op]. rewrite sget_abs, G, sin_range_abs, R. cbn [negb].
    rewrite Hlen, bounds_flip, Hb, Hv. cbn [negb]. rewrite B5. reflexivity.
  - destruct Hr as [Hr [-> ->]]. apply wp_ret. apply same_post; [exact HP|].
    cbn [spec_op]. rewrite sget_abs, G, sin_range_abs, R. cbn [negb]. rewrite Hlen, bounds_flip.
    destruct Hr as [[-> Hb]|[-> [Hb Hv]]].
    + rewrite Hb. reflexivity.
    + rewrite (subseq_ok f _ off len Vt) in Hv. rewrite Hb, Hv. reflexivity.
Qed.

Lemma exec_popf s p uw i n :
  PInv s p -> wp (exec_op (OPopF uw i n) p) s (step_post (OPopF uw i n) s p) noerr.
Proof.
  intros HP. pose proof HP as [HI PV]. cbn [exec_op].
  destruct (get p i) as [[f t]|] eqn:G.
  2:{ bad_case HP. cbn [spec_op]. rewrite sget_abs, G. reflexivity. }
  pose proof (HInv_get _ _ _ _ _ HI G) as HIt.
  pose proof (view_len _ _ (HInv_head _ _ _ HIt)) as Hlen.
  pose proof (pool_valid_get _ _ _ _ _ PV G) as Vt.
  step ltac:(apply wp_try; apply try_pop_front_ok; exact HIt).
  intros [t'|e] s1 e1 Hr.
  - destruct Hr as [A Hc]. apply wp_ret. rewrite app_nil_r. rewrite <- Hlen in *.
    assert (Hval : fvalid_inv f (slice (view s t) n (llen (view s t) - n)) = true).
    { destruct Hc as [->|[Hn Hv]].
      - rewrite N.sub_0_r, slice_full. exact Vt.
      - rewrite (suffix_ok_eq f _ n Vt) in Hv. apply suffix_ok_valid, Hv. }
    eapply inplace_post; eauto.
    cbn [spec_op]. rewrite sget_abs, G.
    destruct Hc as [->|[Hn Hv]].
    + cbn [N.eqb]. rewrite N.sub_0_r, slice_full, (abs_same_slot s p i f t G). reflexivity.
    + rewrite (suffix_ok_eq f _ n Vt) in Hv.
      destruct (N.eqb_spec n 0) as [->|Hn0].
      * rewrite N.sub_0_r, slice_full, (abs_same_slot s p i f t G). reflexivity.
      * destruct (N.ltb_spec (llen (view s t)) n); [lia|]. rewrite Hv. reflexivity.
  - destruct Hr as [[Hn0 Hr] [-> ->]]. apply wp_ret. apply same_post; [exact HP|].
    cbn [spec_op]. rewrite sget_abs, G. rewrite <- Hlen in *.
    destruct (N.eqb_spec n 0); [congruence|].
    destruct Hr as [[-> Hb]|[-> [Hb Hv]]].
    + destruct (N.ltb_spec (llen (view s t)) n); [reflexivity|lia].
    + destruct (N.ltb_spec (llen (view s t)) n); [lia|].
      rewrite (suffix_ok_eq f _ n Vt) in Hv. rewrite Hv. reflexivity.
Qed.

Lemma exec_popb s p uw i n :
  PInv s p -> wp (exec_op (OPopB uw i n) p) s (step_post (OPopB uw i n) s p) noerr.
Proof.
  intros HP. pose proof HP as [HI PV]. cbn [exec_op].
  destruct (get p i) as [[f t]|] eqn:G.
  2:{ bad_case HP. cbn [spec_op]. rewrite sget_abs, G. reflexivity. }
  pose proof (HInv_get _ _ _ _ _ HI G) as HIt.
  pose proof (view_len _ _ (HInv_head _ _ _ HIt)) as Hlen.
  pose proof (pool_valid_get _ _ _ _ _ PV G) as Vt.
  step ltac:(apply wp_try; apply try_pop_back_ok; exact HIt).
  intros [t'|e] s1 e1 Hr.
  - destruct Hr as [A Hc]. apply wp_ret. rewrite app_nil_r. rewrite <- Hlen in *.
    assert (Hval : fvalid_inv f (slice (view s t) 0 (llen (view s t) - n)) = true).
    { destruct Hc as [->|[Hn Hv]].
      - rewrite N.sub_0_r, slice_full. exact Vt.
      - rewrite (prefix_ok_eq f _ _ Vt) in Hv. apply prefix_ok_valid, Hv. }
    eapply inplace_post; eauto.
    cbn [spec_op]. rewrite sget_abs, G.
    destruct Hc as [->|[Hn Hv]].
    + cbn [N.eqb]. rewrite N.sub_0_r, slice_full, (abs_same_slot s p i f t G). reflexivity.
    + rewrite (prefix_ok_eq f _ _ Vt) in Hv.
      destruct (N.eqb_spec n 0) as [->|Hn0].
      * rewrite N.sub_0_r, slice_full, (abs_same_slot s p i f t G). reflexivity.
      * destruct (N.ltb_spec (llen (view s t)) n); [lia|]. rewrite Hv. reflexivity.
  - destruct Hr as [[Hn0 Hr] [-> ->]]. apply wp_ret. apply same_post; [exact HP|].
    cbn [spec_op]. rewrite sget_abs, G. rewrite <- Hlen in *.
    destruct (N.eqb_spec n 0); [congruence|].
    destruct Hr as [[-> Hb]|[-> [Hb Hv]]].
    + destruct (N.ltb_spec (llen (view s t)) n); [reflexivity|lia].
    + destruct (N.ltb_spec (llen (view s t)) n); [lia|].
      rewrite (prefix_ok_eq f _ _ Vt) in Hv. rewrite Hv. reflexivity.
Qed.

Lemma exec_popchar s p i : PInv s p -> wp (exec_op (OPopChar i) p) s (step_post (OPopChar i) s p) noerr.
Proof.
  intros HP. pose proof HP as [HI PV]. cbn [exec_op].
  destruct (get p i) as [[f t]|] eqn:G.
  2:{ bad_case HP. cbn [spec_op]. rewrite sget_abs, G. reflexivity. }
  destruct (is_charfmt f) eqn:Hf; cbn [negb].
  2:{ bad_case HP. cbn [spec_op]. rewrite sget_abs, G, Hf. reflexivity. }
  pose proof (pool_valid_get _ _ _ _ _ PV G) as Vt.
  step ltac:(apply pop_front_char_ok; [apply (HInv_get _ _ _ _ _ HI G)|exact Hf|exact Vt]).
  intros [t' c] s1 e1 Hr. apply wp_ret. rewrite app_nil_r. cbn [fst snd] in *.
  pose proof (first_char_ok f (view s t) Hf Vt) as FC.
  unfold spop_char in Hr.
  assert (Hs : spec_op (OPopChar i) (abs s p) =
               match spop_char f (view s t) with
               | Some (c, r) => (RChar (Some c), set_nth i (Some (f, r)) (abs s p))
               | None => (RChar None, set_nth i (Some (f, [])) (abs s p))
               end).
  { cbn [spec_op]. rewrite sget_abs, G, Hf. reflexivity. }
  unfold spop_char in Hs.
  destruct (first_char f (view s t)) as [[[c0 w]|]|]; [|contradiction|].
  - destruct Hr as [-> A]. destruct FC as [_ [_ [_ Hv]]].
    eapply inplace_post; eauto.
  - destruct Hr as [-> A]. eapply inplace_post; eauto. apply fvalid_inv_nil.
Qed.

Lemma exec_poprun s p d i kind m :
  PInv s p -> wp (exec_op (OPopRun d i kind m) p) s (step_post (OPopRun d i kind m) s p) noerr.
Proof.
  intros HP. pose proof HP as [HI PV]. cbn [exec_op].
  destruct (get p i) as [[f t]|] eqn:G.
  2:{ bad_case HP. cbn [spec_op]. rewrite sget_abs, G. reflexivity. }
  destruct (negb (is_charfmt f) || negb (in_range p d)) eqn:C.
  { bad_case HP. cbn [spec_op]. rewrite sget_abs, G, sin_range_abs, C. reflexivity. }
  apply orb_false_iff in C. destruct C as [Hf R]. apply negb_false_iff in Hf, R.
  pose proof (pool_valid_get _ _ _ _ _ PV G) as Vt.
  step ltac:(apply pop_front_char_run_ok; [apply (HInv_get _ _ _ _ _ HI G)|exact Hf|exact Vt]).
  intros [t1 r] s1 e1 Hr. cbv zeta in Hr. cbn [fst snd] in *.
  assert (Hs : spec_op (OPopRun d i kind m) (abs s p) =
               match srun f kind m (view s t) with
               | Some (idx, class) =>
                 (RClass (Some class),
                  set_nth d (Some (f, slice (view s t) 0 idx))
                    (set_nth i (Some (f, slice (view s t) idx (llen (view s t) - idx))) (abs s p)))
               | None => (RClass None, abs s p)
               end).
  { cbn [spec_op]. rewrite sget_abs, G, sin_range_abs, Hf, R. reflexivity. }
  destruct (srun f kind m (view s t)) as [[idx class]|].
  - destruct Hr as [sub [-> [Hidx [A1 [A2 [A3 [A4 [A5 [A6 [A7 A8]]]]]]]]]].
    step ltac:(apply (assign_after_update s s1 p i d f t1 sub); [eapply get_in_range; eauto|exact R|exact A1|exact A2]).
    intros p' s2 e2 [B1 [B2 [B3 [B4 B5]]]]. apply wp_ret. unfold step_post, PInv. cbn [fst snd].
    rewrite A5, A6 in B5.
    split; [split; [exact B1|rewrite B5; apply pool_valid_set; auto; apply pool_valid_set; auto]|].
    split; [eapply trace_trans; [exact A3|]; rewrite app_nil_r; exact B2|]. split; [exact B3|]. split; [lia|].
    rewrite Hs, B5. reflexivity.
  - destruct Hr as [-> [-> [-> T]]]. apply wp_ret. rewrite app_nil_r.
    split; [exact HP|]. split; [exact T|]. split; [reflexivity|]. split; [lia|]. exact Hs.
Qed.

Lemma exec_pushchar s p i c :
  PInv s p -> wp (exec_op (OPushChar i c) p) s (step_post (OPushChar i c) s p) noerr.
Proof.
  intros HP. pose proof HP as [HI PV]. cbn [exec_op].
  destruct (get p i) as [[f t]|] eqn:G.
  2:{ bad_case HP. cbn [spec_op]. rewrite sget_abs, G. reflexivity. }
  destruct (negb (is_charfmt f) || negb (is_scalar c)) eqn:C.
  { bad_case HP. cbn [spec_op]. rewrite sget_abs, G, C. reflexivity. }
  apply orb_false_iff in C. destruct C as [Hf Hc]. apply negb_false_iff in Hf, Hc.
  pose proof (pool_valid_get _ _ _ _ _ PV G) as Vt.
  step ltac:(apply wp_try; apply try_push_char_ok; apply (HInv_get _ _ _ _ _ HI G)).
  intros [t'|e] s1 e1 Hr.
  - destruct Hr as [enc [He A]]. apply wp_ret. rewrite app_nil_r.
    pose proof (encode_char_valid f c enc Hc He) as Ve.
    eapply inplace_post; eauto.
    + apply pushed_valid; [exact Vt|exact Ve].
    + cbn [spec_op]. rewrite sget_abs, G, Hf, Hc, He, (pushed_sconcat f _ _ Vt Ve). reflexivity.
  - destruct Hr as [[-> He] [-> ->]]. apply wp_ret. apply same_post; [exact HP|].
    cbn [spec_op]. rewrite sget_abs, G, Hf, Hc, He. reflexivity.
Qed.

Lemma exec_ext s p i n b : PInv s p -> wp (exec_op (OExt i n b) p) s (step_post (OExt i n b) s p) noerr.
Proof.
  intros HP. pose proof HP as [HI PV]. cbn [exec_op].
  destruct (get p i) as [[f t]|] eqn:G.
  2:{ bad_case HP. cbn [spec_op]. rewrite sget_abs, G. reflexivity. }
  destruct f; try (bad_case HP; cbn [spec_op]; rewrite sget_abs, G; reflexivity).
  step ltac:(apply extend_ok; apply (HInv_get _ _ _ _ _ HI G)).
  intros t' s1 e1 A. apply wp_ret. rewrite app_nil_r.
  eapply inplace_post; eauto.
  cbn [spec_op]. rewrite sget_abs, G. reflexivity.
Qed.

Lemma exec_send s p d i : PInv s p -> wp (exec_op (OSend d i) p) s (step_post (OSend d i) s p) noerr.
Proof.
  intros HP. pose proof HP as [HI PV]. cbn [exec_op].
  destruct (get p i) as [[f t]|] eqn:G.
  2:{ bad_case HP. cbn [spec_op]. rewrite sget_abs, G. reflexivity. }
  destruct (in_range p d) eqn:R; cbn [negb].
  2:{ bad_case HP. cbn [spec_op]. rewrite sget_abs, G, sin_range_abs, R. reflexivity. }
  step ltac:(apply into_send_ok; apply (HInv_get _ _ _ _ _ HI G)).
  intros t' s1 e1 [A1 [A2 [A3 [A4 A5]]]].
  step ltac:(apply assign_ok; [rewrite in_range_set; exact R|exact A1]).
  intros p' s2 e2 [B1 [B2 [B3 [B4 B5]]]]. apply wp_ret. unfold step_post, PInv. cbn [fst snd].
  rewrite A4, (slot_clear s s1 p i A2) in B4.
  split; [split; [exact B1|rewrite B4; apply pool_valid_set; [apply pool_valid_set_none, PV|eapply pool_valid_get; eauto]]|].
  split; [eapply trace_trans; [exact A3|]; rewrite app_nil_r; exact B2|].
  split; [rewrite B3; apply set_nth_length|]. split; [lia|].
  cbn [spec_op]. rewrite sget_abs, G, sin_range_abs, R. cbn [negb]. rewrite B4. reflexivity.
Qed.

Lemma exec_reint s p i g : PInv s p -> wp (exec_op (OReint i g) p) s (step_post (OReint i g) s p) noerr.
Proof.
  intros HP. pose proof HP as [HI PV]. cbn [exec_op].
  destruct (get p i) as [[f t]|] eqn:G.
  2:{ bad_case HP. cbn [spec_op]. rewrite sget_abs, G. reflexivity. }
  pose proof (HInv_get _ _ _ _ _ HI G) as HIt.
  step ltac:(apply bytes_of_ok with (ts := t :: tendrils (set_nth i None p)); [exact HIt|now left]).
  intros x s1 e1 [-> [-> T1]]. rewrite validate_fvalid.
  destruct (fvalid g (view s t)) eqn:V.
  - apply wp_ret. rewrite app_nil_r.
    apply (inplace_post (OReint i g) s p i f t g t s e1 ROk (view s t) HP G).
    + split; [exact HIt|]. split; [apply frame_refl|]. split; [exact T1|]. split; [reflexivity|lia].
    + apply fvalid_inv_of, V.
    + cbn [spec_op]. rewrite sget_abs, G, V. reflexivity.
  - apply wp_ret. rewrite app_nil_r.
    split; [exact HP|]. split; [exact T1|]. split; [reflexivity|]. split; [lia|].
    cbn [spec_op]. rewrite sget_abs, G, V. reflexivity.
Qed.

Lemma exec_reserve s p i n : PInv s p -> wp (exec_op (OReserve i n) p) s (step_post (OReserve i n) s p) noerr.
Proof.
  intros HP. pose proof HP as [HI PV]. cbn [exec_op].
  destruct (get p i) as [[f t]|] eqn:G.
  2:{ bad_case HP. cbn [spec_op]. rewrite sget_abs, G. reflexivity. }
  step ltac:(apply reserve_ok; apply (HInv_get _ _ _ _ _ HI G)).
  intros t' s1 e1 A. apply wp_ret. rewrite app_nil_r.
  eapply inplace_post; eauto; [eapply pool_valid_get; eauto|].
  cbn [spec_op]. rewrite sget_abs, G, (abs_same_slot s p i f t G). reflexivity.
Qed.

Lemma set_nth_byte_len i b (x : list N) : i < llen x -> llen (set_nth_byte i b x) = llen x.
Proof.
  intros H. unfold set_nth_byte. rewrite llen_app, llen_cons, llen_firstn, llen_skipn. unfold llen in *. lia.
Qed.

Lemma exec_setbyte s p i k b : PInv s p -> wp (exec_op (OSetByte i k b) p) s (step_post (OSetByte i k b) s p) noerr.
Proof.
  intros HP. pose proof HP as [HI PV]. cbn [exec_op].
  destruct (get p i) as [[f t]|] eqn:G.
  2:{ bad_case HP. cbn [spec_op]. rewrite sget_abs, G. reflexivity. }
  destruct f; try (bad_case HP; cbn [spec_op]; rewrite sget_abs, G; reflexivity).
  pose proof (HInv_get _ _ _ _ _ HI G) as HIt.
  pose proof (view_len _ _ (HInv_head _ _ _ HIt)) as Hlen.
  destruct ((tlen t <=? k) || (255 <? b)) eqn:C.
  { bad_case HP. cbn [spec_op]. rewrite sget_abs, G, Hlen, C. reflexivity. }
  apply orb_false_iff in C. destruct C as [C1 C2]. apply N.leb_gt in C1.
  step ltac:(apply overwrite_ok; [exact HIt|apply set_nth_byte_len; lia]).
  intros t' s1 e1 A. apply wp_ret. rewrite app_nil_r.
  eapply inplace_post; eauto.
  cbn [spec_op]. rewrite sget_abs, G, Hlen. replace (tlen t <=? k) with false by (symmetry; apply N.leb_gt; lia).
  rewrite C2. reflexivity.
Qed.

Lemma exec_upper s p i : PInv s p -> wp (exec_op (OUpper i) p) s (step_post (OUpper i) s p) noerr.
Proof.
  intros HP. pose proof HP as [HI PV]. cbn [exec_op].
  destruct (get p i) as [[f t]|] eqn:G.
  2:{ bad_case HP. cbn [spec_op]. rewrite sget_abs, G. reflexivity. }
  pose proof (HInv_get _ _ _ _ _ HI G) as HIt.
  pose proof (pool_valid_get _ _ _ _ _ PV G) as Vt.
  destruct f; try (bad_case HP; cbn [spec_op]; rewrite sget_abs, G; reflexivity).
  - step ltac:(apply overwrite_ok; [exact HIt|apply llen_map]).
    intros t' s1 e1 A. apply wp_ret. rewrite app_nil_r.
    eapply inplace_post; eauto.
    cbn [spec_op]. rewrite sget_abs, G. reflexivity.
  - step ltac:(apply overwrite_ok; [exact HIt|apply llen_map]).
    intros t' s1 e1 A. apply wp_ret. rewrite app_nil_r.
    eapply inplace_post; eauto; [apply (upper_valid FUtf8); [discriminate|exact Vt]|].
    cbn [spec_op]. rewrite sget_abs, G. reflexivity.
Qed.

(* ---------------------------------------------------------------- all operations *)
Theorem exec_ok o p s : PInv s p -> wp (exec_op o p) s (step_post o s p) noerr.
Proof.
  destruct o.
  - apply exec_new.
  - apply exec_withcap.
  - apply exec_clone.
  - apply exec_drop.
  - apply exec_clear.
  - apply exec_push.
  - apply exec_pusht.
  - apply exec_sub.
  - apply exec_popf.
  - apply exec_popb.
  - apply exec_popchar.
  - apply exec_poprun.
  - apply exec_pushchar.
  - apply exec_ext.
  - apply exec_send.
  - apply exec_reint.
  - apply exec_reserve.
  - apply exec_setbyte.
  - apply exec_upper.
Qed.
