(* Heap invariant, trace judgement and the weakest-precondition rules for the
   primitives of the tendril model (used by TOps.v / TProofs.v). *)
From Coq Require Import List NArith Bool Lia Arith Permutation.
From HV Require Import Base.Utf8 Tendril.Heap Tendril.TModel Tendril.TSpec.
Import ListNotations.
Local Open Scope N_scope.

(* ------------------------------------------------------------------ lists *)
Lemma llen_nil {A} : llen (@nil A) = 0.
Proof. reflexivity. Qed.
Lemma llen_app {A} (a b : list A) : llen (a ++ b) = llen a + llen b.
Proof. unfold llen. rewrite app_length. lia. Qed.
Lemma llen_cons {A} (x : A) l : llen (x :: l) = 1 + llen l.
Proof. unfold llen. cbn [length]. lia. Qed.
Lemma llen_firstn {A} n (l : list A) : llen (firstn n l) = N.min (N.of_nat n) (llen l).
Proof. unfold llen. rewrite firstn_length. lia. Qed.
Lemma llen_skipn {A} n (l : list A) : llen (skipn n l) = llen l - N.of_nat n.
Proof. unfold llen. rewrite skipn_length. lia. Qed.
Lemma llen_repeat {A} (x : A) n : llen (repeat x n) = N.of_nat n.
Proof. unfold llen. now rewrite repeat_length. Qed.
Lemma llen_map {A B} (g : A -> B) l : llen (map g l) = llen l.
Proof. unfold llen. now rewrite map_length. Qed.

Lemma llen_slice {A} (x : list A) off len : off + len <= llen x -> llen (slice x off len) = len.
Proof. unfold slice. intros H. rewrite llen_firstn, llen_skipn. lia. Qed.

Lemma slice_0 {A} (x : list A) len : slice x 0 len = firstn (N.to_nat len) x.
Proof. reflexivity. Qed.

Lemma slice_full {A} (x : list A) : slice x 0 (llen x) = x.
Proof. unfold slice, llen. cbn [N.to_nat skipn]. rewrite Nat2N.id. apply firstn_all. Qed.

Lemma slice_nil {A} (x : list A) off : slice x off 0 = [].
Proof. reflexivity. Qed.

Lemma skipn_add {A} (l : list A) a b : skipn a (skipn b l) = skipn (b + a) l.
Proof.
  revert l; induction b as [|b IH]; intros l; cbn [Nat.add]; [reflexivity|].
  destruct l; cbn [skipn]; [now rewrite skipn_nil|apply IH].
Qed.

Lemma slice_slice {A} (x : list A) o l off len :
  off + len <= l -> slice (slice x o l) off len = slice x (o + off) len.
Proof.
  unfold slice. intros H.
  rewrite N2Nat.inj_add.
  rewrite skipn_firstn_comm, firstn_firstn, skipn_add.
  f_equal. lia.
Qed.

Lemma slice_prefix {A} (x : list A) l len : len <= l -> slice (slice x 0 l) 0 len = slice x 0 len.
Proof. intros. rewrite slice_slice by lia. reflexivity. Qed.

Lemma slice_app_l {A} (x y : list A) : slice (x ++ y) 0 (llen x) = x.
Proof.
  unfold slice, llen. cbn [N.to_nat skipn]. rewrite Nat2N.id.
  rewrite firstn_app, Nat.sub_diag, firstn_all. cbn. apply app_nil_r.
Qed.

Lemma firstn_N_all {A} (x : list A) n : llen x <= n -> firstn (N.to_nat n) x = x.
Proof. unfold llen. intros. apply firstn_all2. lia. Qed.

Lemma slice_to_end {A} (x : list A) n : slice x n (llen x - n) = skipn (N.to_nat n) x.
Proof.
  unfold slice. apply firstn_all2. rewrite skipn_length. unfold llen. lia.
Qed.

(* ------------------------------------------------------------------ arithmetic of capacities *)
Lemma round16_ge x : x <= round16 x.
Proof. unfold round16, HEADER. lia. Qed.

Lemma next_pow2_ge x : x <= next_pow2 x.
Proof.
  unfold next_pow2. destruct (N.le_gt_cases x 1) as [H|H].
  - pose proof (N.pow_nonzero 2 (N.log2_up x)). lia.
  - apply N.log2_up_spec in H. lia.
Qed.

(* ------------------------------------------------------------------ references and the invariant *)
Definition tid (t : tendril) : option bufid :=
  match t with Inline _ => None | Owned id _ _ => Some id | Shared id _ _ => Some id end.
Definition refs_own (id : bufid) (t : tendril) : nat :=
  match t with Owned i _ _ => if i =? id then 1%nat else 0%nat | _ => 0%nat end.
Definition refs_sh (id : bufid) (t : tendril) : nat :=
  match t with Shared i _ _ => if i =? id then 1%nat else 0%nat | _ => 0%nat end.
Definition nown (id : bufid) (ts : list tendril) : nat := list_sum (map (refs_own id) ts).
Definition nsh (id : bufid) (ts : list tendril) : nat := list_sum (map (refs_sh id) ts).

Definition buf_ok (b : buffer) (no ns : nat) : Prop :=
  llen (data b) <= acap b /\
  ((no = 1%nat /\ ns = 0%nat /\ rc b = 1) \/
   (no = 0%nat /\ (0 < ns)%nat /\ rc b = N.of_nat ns /\ hcap b = acap b)).

Definition wf_t (s : st) (t : tendril) : Prop :=
  match t with
  | Inline bs => llen bs <= MAX_INLINE_LEN
  | Owned id len cap => exists b, hp s id = Some b /\ acap b = cap /\ len <= llen (data b)
  | Shared id off len => exists b, hp s id = Some b /\ off + len <= llen (data b)
  end.

(* every buffer: one owner with refcount 1 and no sharer, or no owner and
   refcount = number of sharers > 0; no dangling id; ids below the fresh counter *)
Definition HInv (s : st) (ts : list tendril) : Prop :=
  (forall id, match hp s id with
              | Some b => id < nxt s /\ buf_ok b (nown id ts) (nsh id ts)
              | None => nown id ts = 0%nat /\ nsh id ts = 0%nat
              end) /\
  Forall (wf_t s) ts.

Lemma nown_cons id t ts : nown id (t :: ts) = (refs_own id t + nown id ts)%nat.
Proof. reflexivity. Qed.
Lemma nsh_cons id t ts : nsh id (t :: ts) = (refs_sh id t + nsh id ts)%nat.
Proof. reflexivity. Qed.
Lemma nown_app id a b : nown id (a ++ b) = (nown id a + nown id b)%nat.
Proof. unfold nown. now rewrite map_app, list_sum_app. Qed.
Lemma nsh_app id a b : nsh id (a ++ b) = (nsh id a + nsh id b)%nat.
Proof. unfold nsh. now rewrite map_app, list_sum_app. Qed.

Lemma list_sum_perm l l' : Permutation l l' -> list_sum l = list_sum l'.
Proof.
  induction 1; unfold list_sum in *; cbn [fold_right] in *; try lia.
Qed.
Lemma nown_perm id a b : Permutation a b -> nown id a = nown id b.
Proof. intros. apply list_sum_perm. now apply Permutation_map. Qed.
Lemma nsh_perm id a b : Permutation a b -> nsh id a = nsh id b.
Proof. intros. apply list_sum_perm. now apply Permutation_map. Qed.

Lemma HInv_perm s a b : Permutation a b -> HInv s a -> HInv s b.
Proof.
  intros P [H1 H2]. split.
  - intros id. specialize (H1 id). rewrite <- (nown_perm id a b P), <- (nsh_perm id a b P). exact H1.
  - eapply Permutation_Forall; eauto.
Qed.

Lemma norefs_not_in id ts u :
  nown id ts = 0%nat -> nsh id ts = 0%nat -> In u ts -> tid u <> Some id.
Proof.
  induction ts as [|t ts IH]; [contradiction|].
  rewrite nown_cons, nsh_cons. intros Ho Hs [->|Hin].
  - destruct u; cbn in *; try discriminate;
      intros [= ->]; rewrite N.eqb_refl in *; lia.
  - apply IH; auto; lia.
Qed.

Lemma refs_own_other id t : tid t <> Some id -> refs_own id t = 0%nat.
Proof. destruct t; cbn; auto. intros H. destruct (N.eqb_spec id0 id); [subst; congruence|reflexivity]. Qed.
Lemma refs_sh_other id t : tid t <> Some id -> refs_sh id t = 0%nat.
Proof. destruct t; cbn; auto. intros H. destruct (N.eqb_spec id0 id); [subst; congruence|reflexivity]. Qed.

(* views and well-formedness only depend on the buffers a tendril names *)
Lemma view_ext s s' t :
  (forall id, tid t = Some id -> option_map data (hp s' id) = option_map data (hp s id)) ->
  view s' t = view s t.
Proof.
  destruct t as [bs|id len cap|id off len]; cbn; intros H; auto.
  - specialize (H id eq_refl). destruct (hp s' id), (hp s id); cbn in H; congruence.
  - specialize (H id eq_refl). destruct (hp s' id), (hp s id); cbn in H; congruence.
Qed.

Lemma wf_t_ext s s' t :
  (forall id, tid t = Some id -> hp s' id = hp s id) -> wf_t s t -> wf_t s' t.
Proof.
  destruct t as [bs|id len cap|id off len]; cbn; intros H; auto.
  - rewrite (H id eq_refl). auto.
  - rewrite (H id eq_refl). auto.
Qed.

Definition frame (s s' : st) (fr : list tendril) : Prop :=
  forall u, In u fr -> view s' u = view s u.

Lemma frame_refl s fr : frame s s fr.
Proof. intros u _. reflexivity. Qed.
Lemma frame_trans s1 s2 s3 fr : frame s1 s2 fr -> frame s2 s3 fr -> frame s1 s3 fr.
Proof. intros A B u Hu. rewrite (B u Hu). apply A, Hu. Qed.
Lemma frame_sub s s' fr fr' : (forall u, In u fr' -> In u fr) -> frame s s' fr -> frame s s' fr'.
Proof. intros H F u Hu. apply F, H, Hu. Qed.

(* ------------------------------------------------------------------ traces *)
Definition sh_of (s : st) : shadow := (fun id => option_map acap (hp s id), nxt s).
Definition sh_eq (a b : shadow) : Prop := (forall id, fst a id = fst b id) /\ snd a = snd b.

Lemma sh_eq_refl a : sh_eq a a.
Proof. split; auto. Qed.
Lemma sh_eq_sym a b : sh_eq a b -> sh_eq b a.
Proof. intros [A B]; split; auto. Qed.
Lemma sh_eq_trans a b c : sh_eq a b -> sh_eq b c -> sh_eq a c.
Proof. intros [A B] [C D]; split; [intros; rewrite A; apply C|congruence]. Qed.

Lemma ev_step_proper a b e : sh_eq a b ->
  match ev_step a e, ev_step b e with
  | Some a', Some b' => sh_eq a' b'
  | None, None => True
  | _, _ => False
  end.
Proof.
  destruct a as [m nx], b as [m' nx']. intros [H1 H2]. cbn in H1, H2. subst nx'.
  destruct e; cbn [ev_step].
  - destruct (nx <=? id); auto. split; cbn; auto. intros j. destruct (j =? id); auto.
  - rewrite <- H1. destruct (m id); auto. split; cbn; auto. intros j. destruct (j =? id); auto.
  - rewrite <- H1. destruct (m id); auto. destruct (n =? cap); auto.
    split; cbn; auto. intros j. destruct (j =? id); auto.
  - rewrite <- H1. destruct (m id); auto. destruct ((lo <=? hi) && (hi <=? n)); auto. split; auto.
  - rewrite <- H1. destruct (m id); auto. destruct ((lo <=? hi) && (hi <=? n)); auto. split; auto.
Qed.

Lemma replay_proper evs : forall a b, sh_eq a b ->
  match replay a evs, replay b evs with
  | Some a', Some b' => sh_eq a' b'
  | None, None => True
  | _, _ => False
  end.
Proof.
  induction evs as [|e r IH]; intros a b H; cbn [replay]; auto.
  pose proof (ev_step_proper a b e H) as P.
  destruct (ev_step a e) as [a1|], (ev_step b e) as [b1|]; try contradiction; [apply IH, P|exact I].
Qed.

Lemma replay_app a e1 e2 :
  replay a (e1 ++ e2) = match replay a e1 with Some a1 => replay a1 e2 | None => None end.
Proof.
  revert a; induction e1 as [|e r IH]; intros a; cbn [replay app]; auto.
  destruct (ev_step a e); auto.
Qed.

Definition trace_ok (s : st) (ev : list event) (s' : st) : Prop :=
  exists a', replay (sh_of s) ev = Some a' /\ sh_eq a' (sh_of s').

Lemma trace_nil s s' : sh_eq (sh_of s) (sh_of s') -> trace_ok s [] s'.
Proof. intros H. exists (sh_of s). split; auto. Qed.
Lemma trace_refl s : trace_ok s [] s.
Proof. apply trace_nil, sh_eq_refl. Qed.

Lemma trace_trans s1 e1 s2 e2 s3 :
  trace_ok s1 e1 s2 -> trace_ok s2 e2 s3 -> trace_ok s1 (e1 ++ e2) s3.
Proof.
  intros [a1 [R1 E1]] [a2 [R2 E2]]. unfold trace_ok. rewrite replay_app, R1.
  pose proof (replay_proper e2 a1 (sh_of s2) E1) as P. rewrite R2 in P.
  destruct (replay a1 e2) as [a3|]; [|contradiction].
  exists a3. split; auto. eapply sh_eq_trans; eauto.
Qed.

(* ------------------------------------------------------------------ weakest preconditions *)
Definition wp {A} (m : M A) (s : st) (Q : A -> st -> list event -> Prop) (E : N -> Prop) : Prop :=
  match m s with
  | Ok (a, s', ev) => Q a s' ev
  | Err e => E e
  | Panic _ => True
  | UB _ => False
  end.

Definition noerr : N -> Prop := fun _ => False.

Lemma wp_ret {A} (a : A) s (Q : A -> st -> list event -> Prop) E : Q a s [] -> wp (ret a) s Q E.
Proof. auto. Qed.

Lemma wp_bind {A B} (m : M A) (f : A -> M B) s Q E :
  wp m s (fun a s1 e1 => wp (f a) s1 (fun b s2 e2 => Q b s2 (e1 ++ e2)) E) E ->
  wp (bind m f) s Q E.
Proof.
  unfold wp, bind. destruct (m s) as [[[a s1] e1]| | |]; auto.
  destruct (f a s1) as [[[b s2] e2]| | |]; auto.
Qed.

Lemma wp_mono {A} (m : M A) s (Q Q' : A -> st -> list event -> Prop) (E E' : N -> Prop) :
  wp m s Q E -> (forall a s' ev, Q a s' ev -> Q' a s' ev) -> (forall e, E e -> E' e) -> wp m s Q' E'.
Proof. unfold wp. destruct (m s) as [[[a s1] e1]| | |]; auto. Qed.

Lemma wp_err {A} e s (Q : A -> st -> list event -> Prop) (E : N -> Prop) : E e -> wp (err e) s Q E.
Proof. auto. Qed.
Lemma wp_panic {A} k s (Q : A -> st -> list event -> Prop) E : wp (panic k) s Q E.
Proof. exact I. Qed.
