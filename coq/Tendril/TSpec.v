(* The specification side of C11/C12.
   C11: a pool of INDEPENDENT byte strings (Vec<u8> / String): no heap, no
        sharing, no representation.  Checked operations fail exactly when the
        request is out of bounds or the RESULTING byte string would be invalid
        in the format.
   C12: an allocator that judges an event trace on its own (no access to the
        tendril model's heap). *)
From Coq Require Import List NArith Bool.
From HV Require Import Base.Utf8 Tendril.Heap Tendril.TModel.
Import ListNotations.
Local Open Scope N_scope.

(* ------------------------------------------------------------------ C11 *)
Definition sentry := (fmt * list byte)%type.
Definition spool := list (option sentry).

(* generalised UTF-8: like the strict decoder of Base/Utf8.v, but the surrogate
   code points U+D800..U+DFFF (ED A0..BF xx) are decoded too *)
Definition dec1g (bs : list N) : option (N * list N) :=
  match bs with
  | [] => None
  | b0 :: t =>
    if b0 <? 0x80 then Some (b0, t)
    else if b0 <? 0xC2 then None
    else if b0 <? 0xE0 then
      match t with
      | b1 :: t1 => if is_cont b1 then Some ((b0 - 0xC0) * 64 + (b1 - 0x80), t1) else None
      | _ => None
      end
    else if b0 <? 0xF0 then
      match t with
      | b1 :: b2 :: t2 =>
        if is_cont b1 && is_cont b2 && (negb (b0 =? 0xE0) || (0xA0 <=? b1))
        then Some ((b0 - 0xE0) * 4096 + (b1 - 0x80) * 64 + (b2 - 0x80), t2) else None
      | _ => None
      end
    else if b0 <? 0xF5 then
      match t with
      | b1 :: b2 :: b3 :: t3 =>
        if is_cont b1 && is_cont b2 && is_cont b3
           && (negb (b0 =? 0xF0) || (0x90 <=? b1)) && (negb (b0 =? 0xF4) || (b1 <? 0x90))
        then Some ((b0 - 0xF0) * 262144 + (b1 - 0x80) * 4096 + (b2 - 0x80) * 64 + (b3 - 0x80), t3)
        else None
      | _ => None
      end
    else None
  end.

Definition is_lead_cp (c : N) : bool := (0xD800 <=? c) && (c <=? 0xDBFF).
Definition is_trail_cp (c : N) : bool := (0xDC00 <=? c) && (c <=? 0xDFFF).

(* WTF-8: generalised UTF-8 in which no lead surrogate is directly followed by a
   trail surrogate (such a pair has to be written as one 4-byte sequence) *)
Fixpoint wtf8_spec_fuel (fuel : nat) (prev_lead : bool) (bs : list N) : bool :=
  match bs with
  | [] => true
  | _ =>
    match fuel with
    | O => false
    | S f =>
      match dec1g bs with
      | Some (c, r) => if prev_lead && is_trail_cp c then false else wtf8_spec_fuel f (is_lead_cp c) r
      | None => false
      end
    end
  end.
Definition wtf8_spec (bs : list N) : bool := wtf8_spec_fuel (length bs) false bs.

(* validity of a byte string in a format: UTF-8 = the strict decoder of
   Base/Utf8.v accepts it *)
Definition fvalid (f : fmt) (b : list byte) : bool :=
  match f with
  | FBytes | FLatin1 => true
  | FAscii => forallb (fun x => x <=? 127) b
  | FUtf8 => match decs b with Some _ => true | None => false end
  | FWtf8 => wtf8_spec b
  end.

Definition fvalid_inv (f : fmt) (b : list byte) : bool := fvalid f b.

(* a slice / a remainder is accepted iff it is valid in the format *)
Definition sub_ok (f : fmt) (b : list byte) : bool := fvalid f b.
Definition suffix_ok (f : fmt) (b : list byte) : bool := fvalid f b.
Definition prefix_ok (f : fmt) (b : list byte) : bool := fvalid f b.

(* 10-bit index of a lead surrogate ending a / of a trail surrogate starting b *)
Definition lead_of (a : list byte) : option N :=
  match rev a with
  | b2 :: b1 :: b0 :: _ =>
    if (b0 =? 0xED) && (0xA0 <=? b1) && (b1 <? 0xB0) && is_cont b2
    then Some ((b1 - 0xA0) * 64 + (b2 - 0x80)) else None
  | _ => None
  end.
Definition trail_of (b : list byte) : option N :=
  match b with
  | b0 :: b1 :: b2 :: _ =>
    if (b0 =? 0xED) && (0xB0 <=? b1) && (b1 <? 0xC0) && is_cont b2
    then Some ((b1 - 0xB0) * 64 + (b2 - 0x80)) else None
  | _ => None
  end.

(* concatenation; WTF-8 joins a trailing lead surrogate with a leading trail
   surrogate into the supplementary code point they denote *)
Definition sconcat (f : fmt) (a b : list byte) : list byte :=
  match f with
  | FWtf8 =>
    match lead_of a, trail_of b with
    | Some hi, Some lo => firstn (length a - 3) a ++ enc (0x10000 + hi * 1024 + lo) ++ skipn 3 b
    | _, _ => a ++ b
    end
  | _ => a ++ b
  end.

(* what push_bytes_without_validating leaves in the tendril (Format::fixup applied) *)
Definition pushed (f : fmt) (a b : list N) : list N :=
  let '(dl, dr, ins) := fixup f a b in
  firstn (N.to_nat (llen a - dl)) a ++ ins ++ skipn (N.to_nat dr) b.

Definition sget (p : spool) (i : nat) : option sentry :=
  match nth_error p i with Some (Some e) => Some e | _ => None end.
Definition sin_range (p : spool) (i : nat) : bool := Nat.ltb i (length p).

(* the first char and what follows it *)
Definition spop_char (f : fmt) (x : list byte) : option (N * list byte) :=
  match first_char f x with
  | Some (Some (c, w)) => Some (c, skipn (N.to_nat w) x)
  | _ => None
  end.

(* length in bytes of the maximal run of chars classified like the first one *)
Definition srun (f : fmt) (kind m : N) (x : list byte) : option (N * N) :=
  match first_char f x with
  | Some (Some (c, w)) =>
    let class := classify_char kind m c in
    match find_mismatch (length x) f kind m class (skipn (N.to_nat w) x) w with
    | Some (Some idx) => Some (idx, class)
    | Some None => Some (llen x, class)
    | None => None
    end
  | _ => None
  end.

Definition spec_op (o : op) (p : spool) : outcome * spool :=
  match o with
  | ONew d f bs =>
    if negb (sin_range p d) then (RBad, p)
    else if negb (fvalid f bs) then (RErr false 0, p)
    else (ROk, set_nth d (Some (f, bs)) p)
  | OWithCap d f n =>
    if negb (sin_range p d) then (RBad, p) else (ROk, set_nth d (Some (f, [])) p)
  | OClone d s =>
    match sget p s with
    | Some e => if negb (sin_range p d) then (RBad, p) else (ROk, set_nth d (Some e) p)
    | None => (RBad, p)
    end
  | ODrop s =>
    match sget p s with Some _ => (ROk, set_nth s None p) | None => (RBad, p) end
  | OClear s =>
    match sget p s with Some (f, _) => (ROk, set_nth s (Some (f, [])) p) | None => (RBad, p) end
  | OPush s bs =>
    match sget p s with
    | Some (f, x) =>
      if fvalid f bs then (ROk, set_nth s (Some (f, sconcat f x bs)) p) else (RErr false 0, p)
    | None => (RBad, p)
    end
  | OPushT d s =>
    match sget p d, sget p s with
    | Some (f, x), Some (g, y) =>
      if Nat.eqb d s || negb (fmt_eqb f g) then (RBad, p)
      else (ROk, set_nth d (Some (f, sconcat f x y)) p)
    | _, _ => (RBad, p)
    end
  | OSub uw d s off len =>
    match sget p s with
    | Some (f, x) =>
      if negb (sin_range p d) then (RBad, p)
      else if (llen x <? off) || (llen x - off <? len) then (RErr uw 1, p)
      else if negb (sub_ok f (slice x off len)) then (RErr uw 2, p)
      else (ROk, set_nth d (Some (f, slice x off len)) p)
    | None => (RBad, p)
    end
  | OPopF uw s n =>
    match sget p s with
    | Some (f, x) =>
      if n =? 0 then (ROk, p)
      else if llen x <? n then (RErr uw 1, p)
      else if negb (suffix_ok f (slice x n (llen x - n))) then (RErr uw 2, p)
      else (ROk, set_nth s (Some (f, slice x n (llen x - n))) p)
    | None => (RBad, p)
    end
  | OPopB uw s n =>
    match sget p s with
    | Some (f, x) =>
      if n =? 0 then (ROk, p)
      else if llen x <? n then (RErr uw 1, p)
      else if negb (prefix_ok f (slice x 0 (llen x - n))) then (RErr uw 2, p)
      else (ROk, set_nth s (Some (f, slice x 0 (llen x - n))) p)
    | None => (RBad, p)
    end
  | OPopChar s =>
    match sget p s with
    | Some (f, x) =>
      if negb (is_charfmt f) then (RBad, p)
      else match spop_char f x with
           | Some (c, r) => (RChar (Some c), set_nth s (Some (f, r)) p)
           | None => (RChar None, set_nth s (Some (f, [])) p)
           end
    | None => (RBad, p)
    end
  | OPopRun d s kind m =>
    match sget p s with
    | Some (f, x) =>
      if negb (is_charfmt f) || negb (sin_range p d) then (RBad, p)
      else match srun f kind m x with
           | Some (idx, class) =>
             (RClass (Some class),
              set_nth d (Some (f, slice x 0 idx)) (set_nth s (Some (f, slice x idx (llen x - idx))) p))
           | None => (RClass None, p)
           end
    | None => (RBad, p)
    end
  | OPushChar s c =>
    match sget p s with
    | Some (f, x) =>
      if negb (is_charfmt f) || negb (is_scalar c) then (RBad, p)
      else match encode_char f c with
           | Some e => (ROk, set_nth s (Some (f, sconcat f x e)) p)
           | None => (RErr false 0, p)
           end
    | None => (RBad, p)
    end
  | OExt s n b =>
    match sget p s with
    | Some (FBytes, x) => (ROk, set_nth s (Some (FBytes, x ++ repeat b (N.to_nat n))) p)
    | _ => (RBad, p)
    end
  | OSend d s =>
    match sget p s with
    | Some e => if negb (sin_range p d) then (RBad, p) else (ROk, set_nth d (Some e) (set_nth s None p))
    | None => (RBad, p)
    end
  | OReint s g =>
    match sget p s with
    | Some (f, x) => if fvalid g x then (ROk, set_nth s (Some (g, x)) p) else (RErr false 0, p)
    | None => (RBad, p)
    end
  | OReserve s n =>
    match sget p s with Some _ => (ROk, p) | None => (RBad, p) end
  | OSetByte s i b =>
    match sget p s with
    | Some (FBytes, x) =>
      if (llen x <=? i) || (255 <? b) then (RBad, p)
      else (ROk, set_nth s (Some (FBytes, set_nth_byte i b x)) p)
    | _ => (RBad, p)
    end
  | OUpper s =>
    match sget p s with
    | Some (f, x) =>
      match f with
      | FBytes | FUtf8 => (ROk, set_nth s (Some (f, map upper x)) p)
      | _ => (RBad, p)
      end
    | None => (RBad, p)
    end
  end.

Fixpoint spec_run (ops : list op) (p : spool) : list (outcome * spool) :=
  match ops with
  | [] => []
  | o :: r => let '(out, p') := spec_op o p in (out, p') :: spec_run r p'
  end.

(* slots an operation may change; every other slot keeps its string *)
Definition targets (o : op) : list nat :=
  match o with
  | ONew d _ _ | OWithCap d _ _ => [d]
  | OClone d _ => [d]
  | ODrop s | OClear s | OPush s _ | OPopF _ s _ | OPopB _ s _ | OPopChar s | OPushChar s _
  | OExt s _ _ | OReint s _ | OReserve s _ | OSetByte s _ _ | OUpper s => [s]
  | OPushT d _ => [d]
  | OSub _ d _ _ _ => [d]
  | OPopRun d s _ _ => [d; s]
  | OSend d s => [d; s]
  end.

Definition pool_valid (p : spool) : Prop :=
  forall i f x, sget p i = Some (f, x) -> fvalid_inv f x = true.

(* ------------------------------------------------------------------ C12 *)
(* an allocator judging a trace: live id -> capacity, and the next fresh id
   (ids name allocations and are never reused) *)
Definition shadow := ((bufid -> option N) * N)%type.
Definition shadow0 : shadow := (fun _ => None, 0).

Definition ev_step (a : shadow) (e : event) : option shadow :=
  let '(m, nx) := a in
  match e with
  | Alloc id cap =>
    if nx <=? id then Some (fun j => if j =? id then Some cap else m j, id + 1) else None
  | Realloc id cap =>
    match m id with
    | Some _ => Some (fun j => if j =? id then Some cap else m j, nx)
    | None => None
    end
  | Free id cap =>
    match m id with
    | Some c => if c =? cap then Some (fun j => if j =? id then None else m j, nx) else None
    | None => None
    end
  | RdEv id lo hi | WrEv id lo hi =>
    match m id with
    | Some c => if (lo <=? hi) && (hi <=? c) then Some a else None
    | None => None
    end
  end.

Fixpoint replay (a : shadow) (evs : list event) : option shadow :=
  match evs with
  | [] => Some a
  | e :: r => match ev_step a e with Some a' => replay a' r | None => None end
  end.

Definition freed (evs : list event) : list bufid :=
  flat_map (fun e => match e with Free id _ => [id] | _ => [] end) evs.
Definition allocated (evs : list event) : list bufid :=
  flat_map (fun e => match e with Alloc id _ => [id] | _ => [] end) evs.
