(* Corollaries used by Props/C11.v and Props/C12.v. *)
From Coq Require Import List NArith Bool Lia Arith Permutation.
From HV Require Import Base.Utf8 Tendril.Heap Tendril.TModel Tendril.TSpec Tendril.TUtf8 Tendril.TWtf8 Tendril.TInv
     Tendril.TPrim Tendril.TFmt Tendril.TOps Tendril.TPool Tendril.TExec Tendril.TProofs.
Import ListNotations.
Local Open Scope N_scope.

(* ------------------------------------------------------------------ every observation is well formed *)
Theorem run_snap_ok : forall ops s p, PInv s p ->
  forall o, In o (fst (run ops s p)) -> match o with SOk _ _ snap => snap_ok snap | _ => True end.
Proof.
  induction ops as [|o r IH]; intros s p HP x Hx; [destruct Hx|].
  cbn [run] in Hx. pose proof (exec_cases o p s HP) as H.
  destruct (exec_op o p s) as [[[[out p'] s'] ev]| e | k | k]; try contradiction.
  - destruct H as [HP' _]. cbn [snd] in HP'. specialize (IH s' p' HP').
    destruct (run r s' p') as [outs fin]. cbn [fst] in *.
    destruct Hx as [<-|Hx]; [apply snapshot_ok, HP'|apply IH, Hx].
  - destruct Hx as [<-|[]]. exact I.
Qed.

Theorem history_snap_ok npool ops :
  forall o, In o (fst (run_history npool ops)) -> match o with SOk _ _ snap => snap_ok snap | _ => True end.
Proof.
  unfold run_history. pose proof (run_snap_ok ops st0 (pool0 npool) (PInv_init npool)) as H.
  destruct (run ops st0 (pool0 npool)) as [outs [[s p]|]]; cbn [fst] in *; auto.
  destruct (drop_all p s) as [[[u s'] ev]| | |]; cbn [fst]; exact H.
Qed.

Lemma abs_pool0 n : abs st0 (pool0 n) = repeat None n.
Proof. unfold abs, pool0. induction n; cbn; congruence. Qed.

(* ------------------------------------------------------------------ copy on write, at the specification level *)
Lemma spec_op_frame o sp j : ~ In j (targets o) -> nth_error (snd (spec_op o sp)) j = nth_error sp j.
Proof.
  intros Hj.
  assert (S1 : forall i e l, i <> j -> nth_error (set_nth i e l) j = nth_error (A:=option sentry) l j).
  { intros i e l Hi. rewrite nth_error_set_nth. destruct (Nat.eqb_spec i j); congruence. }
  destruct o; cbn [spec_op targets In] in *;
    repeat match goal with
           | |- context [sget sp ?i] => destruct (sget sp i) as [[? ?]|]
           | |- context [if ?b then _ else _] => destruct b
           | |- context [match ?f with FBytes => _ | _ => _ end] => destruct f
           | |- context [match spop_char ?f ?x with _ => _ end] => destruct (spop_char f x) as [[? ?]|]
           | |- context [match srun ?f ?k ?m ?x with _ => _ end] => destruct (srun f k m x) as [[? ?]|]
           | |- context [match encode_char ?f ?c with _ => _ end] => destruct (encode_char f c)
           end; cbn [snd]; auto; rewrite ?S1; auto; intros ->; apply Hj; auto.
Qed.

(* mutating one tendril never changes another: at the level of the heap model *)
Theorem exec_frame o p s out p' s' ev j : PInv s p ->
  exec_op o p s = Ok ((out, p'), s', ev) -> ~ In j (targets o) ->
  sget (abs s' p') j = sget (abs s p) j.
Proof.
  intros HP He Hj. pose proof (exec_cases o p s HP) as H. rewrite He in H.
  destruct H as [_ [_ [_ [_ Hs]]]]. cbn [fst snd] in Hs.
  unfold sget. rewrite <- (spec_op_frame o (abs s p) j Hj), Hs. reflexivity.
Qed.

(* ------------------------------------------------------------------ accesses are inside live buffers *)
Lemma replay_split a e1 e2 a' : replay a (e1 ++ e2) = Some a' ->
  exists a1, replay a e1 = Some a1 /\ replay a1 e2 = Some a'.
Proof. rewrite replay_app. destruct (replay a e1) as [a1|]; [eauto|discriminate]. Qed.

Theorem replay_access_in_bounds a e1 e e2 a' : replay a (e1 ++ e :: e2) = Some a' ->
  exists a1, replay a e1 = Some a1 /\
    match e with
    | RdEv id lo hi | WrEv id lo hi => exists c, fst a1 id = Some c /\ lo <= hi /\ hi <= c
    | Free id cap => fst a1 id = Some cap
    | Realloc id _ => fst a1 id <> None
    | Alloc id _ => fst a1 id = None \/ snd a1 <= id
    end.
Proof.
  intros H. destruct (replay_split _ _ _ _ H) as [a1 [R1 R2]]. exists a1. split; [exact R1|].
  cbn [replay] in R2. destruct (ev_step a1 e) eqn:E; [|discriminate]. destruct a1 as [m nx].
  destruct e; cbn [ev_step fst snd] in *.
  - destruct (N.leb_spec nx id); [right; lia|discriminate].
  - destruct (m id); [discriminate|discriminate].
  - destruct (m id) as [c|]; [|discriminate]. destruct (N.eqb_spec c cap); [congruence|discriminate].
  - destruct (m id) as [c|]; [|discriminate]. destruct (N.leb_spec lo hi); [|discriminate].
    destruct (N.leb_spec hi c); [|discriminate]. eauto.
  - destruct (m id) as [c|]; [|discriminate]. destruct (N.leb_spec lo hi); [|discriminate].
    destruct (N.leb_spec hi c); [|discriminate]. eauto.
Qed.

(* ------------------------------------------------------------------ refcounts *)
Theorem refcount_meaning s ts id b : HInv s ts -> hp s id = Some b ->
  (nown id ts = 1%nat /\ nsh id ts = 0%nat /\ rc b = 1) \/
  (nown id ts = 0%nat /\ (0 < nsh id ts)%nat /\ rc b = N.of_nat (nsh id ts)).
Proof.
  intros HI Hb. destruct (HInv_buf _ _ _ _ HI Hb) as [_ [_ [H|[H1 [H2 [H3 _]]]]]]; auto.
Qed.

(* ------------------------------------------------------------------ WTF-8 *)
(* the validator of the implementation (WTF8::validate over futf::classify, as
   repaired) accepts exactly the WTF-8 of the specification *)
Theorem wtf8_validate_exact b : validate FWtf8 b = wtf8_spec b.
Proof. apply wtf8_validate_ok. Qed.

(* a stray continuation byte after a complete sequence, garbage after it, and a
   surrogate pair written as two 3-byte sequences are rejected; an unpaired
   surrogate and a reversed pair are accepted *)
Theorem wtf8_validate_witnesses :
  validate FWtf8 [0xC3; 0xA9; 0x80] = false /\
  validate FWtf8 [0xE2; 0xA9; 0x80; 0x82; 0xC0; 0x41] = false /\
  validate FWtf8 [0xED; 0xA0; 0x80; 0xED; 0xB0; 0x80] = false /\
  validate FWtf8 [0xED; 0xA0; 0x80] = true /\
  validate FWtf8 [0xED; 0xB0; 0x80; 0xED; 0xA0; 0x80] = true.
Proof. repeat split; vm_compute; reflexivity. Qed.
