(* Corollaries used by Props/C11.v and Props/C12.v. *)
From Coq Require Import List NArith Bool Lia Arith Permutation.
From HV Require Import Base.Utf8 Tendril.Heap Tendril.TModel Tendril.TSpec Tendril.TUtf8 Tendril.TInv
     Tendril.TPrim Tendril.TFmt Tendril.TOps Tendril.TPool Tendril.TExec Tendril.TProofs.
Import ListNotations.
Local Open Scope N_scope.

(* ------------------------------------------------------------------ every observation is well formed *)
Theorem run_snap_ok : forall ops s p, PInv s p ->
  forall o, In o (fst (run ops s p)) -> match o with SOk _ _ snap => snap_ok snap | _ => True end.
Proof.
  induction ops as [|o r IH]; intros s p HP x Hx; [destruct Hx|].
  cbn [run] in Hx. pose proof (exec_cases o p s HP) as H.
  destruct (exec_op o p s) as [[[[out p'] s'] ev]| e | k | k]; try contradiction.
  - destruct H as [HP' _]. cbn [snd] in HP'. specialize (IH s' p' HP').
    destruct (run r s' p') as [outs fin]. cbn [fst] in *.
    destruct Hx as [<-|Hx]; [apply snapshot_ok, HP'|apply IH, Hx].
  - destruct Hx as [<-|[]]. exact I.
Qed.

Theorem history_snap_ok npool ops :
  forall o, In o (fst (run_history npool ops)) -> match o with SOk _ _ snap => snap_ok snap | _ => True end.
Proof.
  unfold run_history. pose proof (run_snap_ok ops st0 (pool0 npool) (PInv_init npool)) as H.
  destruct (run ops st0 (pool0 npool)) as [outs [[s p]|]]; cbn [fst] in *; auto.
  destruct (drop_all p s) as [[[u s'] ev]| | |]; cbn [fst]; exact H.
Qed.

Lemma abs_pool0 n : abs st0 (pool0 n) = repeat None n.
Proof. unfold abs, pool0. induction n; cbn; congruence. Qed.

(* ------------------------------------------------------------------ histories without WTF-8 *)
Definition op_wtf8 (o : op) : bool :=
  match o with
  | ONew _ FWtf8 _ | OWithCap _ FWtf8 _ | OReint _ FWtf8 => true
  | _ => false
  end.

Definition pool_nowtf8 (sp : spool) : Prop := forall i f x, sget sp i = Some (f, x) -> f <> FWtf8.

Lemma nowtf8_set sp i f x : pool_nowtf8 sp -> f <> FWtf8 -> pool_nowtf8 (set_nth i (Some (f, x)) sp).
Proof.
  intros H Hf j g y. unfold sget. rewrite nth_error_set_nth. destruct (Nat.eqb i j).
  - destruct (Nat.ltb i (length sp)); [|discriminate]. intros [= <- <-]. exact Hf.
  - apply H.
Qed.
Lemma nowtf8_set_none sp i : pool_nowtf8 sp -> pool_nowtf8 (set_nth i None sp).
Proof.
  intros H j g y. unfold sget. rewrite nth_error_set_nth. destruct (Nat.eqb i j).
  - destruct (Nat.ltb i (length sp)); discriminate.
  - apply H.
Qed.

Lemma spec_op_nowtf8 o sp : pool_nowtf8 sp -> op_wtf8 o = false -> pool_nowtf8 (snd (spec_op o sp)).
Proof.
  intros H Ho.
  destruct o; cbn [spec_op];
    repeat match goal with
           | |- context [sget sp ?i] =>
             let E := fresh "E" in destruct (sget sp i) as [[? ?]|] eqn:E; [apply H in E|]
           | |- context [if ?b then _ else _] => destruct b
           | |- context [match ?f with FBytes => _ | _ => _ end] => destruct f
           | |- context [match spop_char ?f ?x with _ => _ end] => destruct (spop_char f x) as [[? ?]|]
           | |- context [match srun ?f ?k ?m ?x with _ => _ end] => destruct (srun f k m x) as [[? ?]|]
           | |- context [match encode_char ?f ?c with _ => _ end] => destruct (encode_char f c)
           end; cbn [snd]; auto;
    repeat first [apply nowtf8_set | apply nowtf8_set_none]; auto; try discriminate; try congruence;
    match goal with |- ?f <> FWtf8 => destruct f; cbn in Ho; congruence end.
Qed.

Lemma nowtf8_no_corner ops : forall sp, pool_nowtf8 sp -> forallb (fun o => negb (op_wtf8 o)) ops = true ->
  no_corner ops sp = true.
Proof.
  induction ops as [|o r IH]; intros sp H Ho; [reflexivity|].
  cbn [forallb] in Ho. apply andb_true_iff in Ho. destruct Ho as [Ho Hr]. apply negb_true_iff in Ho.
  cbn [no_corner]. apply andb_true_iff. split.
  - destruct o; try reflexivity. cbn. destruct (sget sp d) as [[f x]|] eqn:E; auto.
    apply H in E. destruct f; auto.
  - apply IH; auto. apply spec_op_nowtf8; auto.
Qed.

Lemma nowtf8_repeat n : pool_nowtf8 (repeat None n).
Proof.
  intros i f x. unfold sget. destruct (nth_error (repeat None n) i) as [e|] eqn:E; [|discriminate].
  apply nth_error_In, repeat_spec in E. subst. discriminate.
Qed.

(* ------------------------------------------------------------------ copy on write, at the specification level *)
Lemma spec_op_frame o sp j : ~ In j (targets o) -> nth_error (snd (spec_op o sp)) j = nth_error sp j.
Proof.
  intros Hj.
  assert (S1 : forall i e l, i <> j -> nth_error (set_nth i e l) j = nth_error (A:=option sentry) l j).
  { intros i e l Hi. rewrite nth_error_set_nth. destruct (Nat.eqb_spec i j); congruence. }
  destruct o; cbn [spec_op targets In] in *;
    repeat match goal with
           | |- context [sget sp ?i] => destruct (sget sp i) as [[? ?]|]
           | |- context [if ?b then _ else _] => destruct b
           | |- context [match ?f with FBytes => _ | _ => _ end] => destruct f
           | |- context [match spop_char ?f ?x with _ => _ end] => destruct (spop_char f x) as [[? ?]|]
           | |- context [match srun ?f ?k ?m ?x with _ => _ end] => destruct (srun f k m x) as [[? ?]|]
           | |- context [match encode_char ?f ?c with _ => _ end] => destruct (encode_char f c)
           end; cbn [snd]; auto; rewrite ?S1; auto; intros ->; apply Hj; auto.
Qed.

(* mutating one tendril never changes another: at the level of the heap model *)
Theorem exec_frame o p s out p' s' ev j : PInv s p -> wtf8_corner o p = false ->
  exec_op o p s = Ok ((out, p'), s', ev) -> ~ In j (targets o) ->
  sget (abs s' p') j = sget (abs s p) j.
Proof.
  intros HP Hc He Hj. pose proof (exec_cases o p s HP) as H. rewrite He in H.
  destruct H as [_ [_ [_ [_ Hs]]]]. specialize (Hs Hc). cbn [fst snd] in Hs.
  unfold sget. rewrite <- (spec_op_frame o (abs s p) j Hj), Hs. reflexivity.
Qed.

(* ------------------------------------------------------------------ accesses are inside live buffers *)
Lemma replay_split a e1 e2 a' : replay a (e1 ++ e2) = Some a' ->
  exists a1, replay a e1 = Some a1 /\ replay a1 e2 = Some a'.
Proof. rewrite replay_app. destruct (replay a e1) as [a1|]; [eauto|discriminate]. Qed.

Theorem replay_access_in_bounds a e1 e e2 a' : replay a (e1 ++ e :: e2) = Some a' ->
  exists a1, replay a e1 = Some a1 /\
    match e with
    | RdEv id lo hi | WrEv id lo hi => exists c, fst a1 id = Some c /\ lo <= hi /\ hi <= c
    | Free id cap => fst a1 id = Some cap
    | Realloc id _ => fst a1 id <> None
    | Alloc id _ => fst a1 id = None \/ snd a1 <= id
    end.
Proof.
  intros H. destruct (replay_split _ _ _ _ H) as [a1 [R1 R2]]. exists a1. split; [exact R1|].
  cbn [replay] in R2. destruct (ev_step a1 e) eqn:E; [|discriminate]. destruct a1 as [m nx].
  destruct e; cbn [ev_step fst snd] in *.
  - destruct (N.leb_spec nx id); [right; lia|discriminate].
  - destruct (m id); [discriminate|discriminate].
  - destruct (m id) as [c|]; [|discriminate]. destruct (N.eqb_spec c cap); [congruence|discriminate].
  - destruct (m id) as [c|]; [|discriminate]. destruct (N.leb_spec lo hi); [|discriminate].
    destruct (N.leb_spec hi c); [|discriminate]. eauto.
  - destruct (m id) as [c|]; [|discriminate]. destruct (N.leb_spec lo hi); [|discriminate].
    destruct (N.leb_spec hi c); [|discriminate]. eauto.
Qed.

(* ------------------------------------------------------------------ refcounts *)
Theorem refcount_meaning s ts id b : HInv s ts -> hp s id = Some b ->
  (nown id ts = 1%nat /\ nsh id ts = 0%nat /\ rc b = 1) \/
  (nown id ts = 0%nat /\ (0 < nsh id ts)%nat /\ rc b = N.of_nat (nsh id ts)).
Proof.
  intros HI Hb. destruct (HInv_buf _ _ _ _ HI Hb) as [_ [_ [H|[H1 [H2 [H3 _]]]]]]; auto.
Qed.

(* ------------------------------------------------------------------ WTF-8: the validator is wrong *)
(* generalised UTF-8 (surrogates allowed), strict otherwise *)
Definition dec1g (bs : list N) : option (N * list N) :=
  match bs with
  | [] => None
  | b0 :: t =>
    if b0 <? 0x80 then Some (b0, t)
    else if b0 <? 0xC2 then None
    else if b0 <? 0xE0 then
      match t with
      | b1 :: t1 => if is_cont b1 then Some ((b0 - 0xC0) * 64 + (b1 - 0x80), t1) else None
      | _ => None
      end
    else if b0 <? 0xF0 then
      match t with
      | b1 :: b2 :: t2 =>
        if is_cont b1 && is_cont b2 && (negb (b0 =? 0xE0) || (0xA0 <=? b1))
        then Some ((b0 - 0xE0) * 4096 + (b1 - 0x80) * 64 + (b2 - 0x80), t2) else None
      | _ => None
      end
    else if b0 <? 0xF5 then
      match t with
      | b1 :: b2 :: b3 :: t3 =>
        if is_cont b1 && is_cont b2 && is_cont b3
           && (negb (b0 =? 0xF0) || (0x90 <=? b1)) && (negb (b0 =? 0xF4) || (b1 <? 0x90))
        then Some ((b0 - 0xF0) * 262144 + (b1 - 0x80) * 4096 + (b2 - 0x80) * 64 + (b3 - 0x80), t3)
        else None
      | _ => None
      end
    else None
  end.

Fixpoint wtf8_spec_fuel (fuel : nat) (prev_lead : bool) (bs : list N) : bool :=
  match bs with
  | [] => true
  | _ =>
    match fuel with
    | O => false
    | S f =>
      match dec1g bs with
      | Some (c, r) =>
        let lead := (0xD800 <=? c) && (c <=? 0xDBFF) in
        let trail := (0xDC00 <=? c) && (c <=? 0xDFFF) in
        if prev_lead && trail then false else wtf8_spec_fuel f lead r
      | None => false
      end
    end
  end.
Definition wtf8_spec (bs : list N) : bool := wtf8_spec_fuel (length bs) false bs.

Theorem wtf8_validate_refuted :
  exists b, validate FWtf8 b = true /\ wtf8_spec b = false.
Proof. exists [0xC3; 0xA9; 0x80]. split; vm_compute; reflexivity. Qed.
