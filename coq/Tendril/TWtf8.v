(* WTF-8 validity (the independent specification wtf8_spec of TSpec.v) versus
   WTF8::validate, validate_prefix / validate_suffix / validate_subseq and
   Format::fixup of tendril::fmt. *)
From Coq Require Import List NArith Bool Lia Arith.
From HV Require Import Base.Utf8 Tendril.Heap Tendril.TModel Tendril.TSpec Tendril.TUtf8.
Import ListNotations.
Local Open Scope N_scope.

(* ---------------------------------------------------------------- one code point *)
(* the byte shapes accepted by dec1g, with the decoded code point *)
Inductive gchr : list N -> N -> Prop :=
| gchr1 b0 : b0 < 0x80 -> gchr [b0] b0
| gchr2 b0 b1 : 0xC2 <= b0 -> b0 < 0xE0 -> 0x80 <= b1 -> b1 < 0xC0 ->
    gchr [b0; b1] ((b0 - 0xC0) * 64 + (b1 - 0x80))
| gchr3 b0 b1 b2 : 0xE0 <= b0 -> b0 < 0xF0 -> 0x80 <= b1 -> b1 < 0xC0 ->
    0x80 <= b2 -> b2 < 0xC0 -> (b0 = 0xE0 -> 0xA0 <= b1) ->
    gchr [b0; b1; b2] ((b0 - 0xE0) * 4096 + (b1 - 0x80) * 64 + (b2 - 0x80))
| gchr4 b0 b1 b2 b3 : 0xF0 <= b0 -> b0 < 0xF5 -> 0x80 <= b1 -> b1 < 0xC0 ->
    0x80 <= b2 -> b2 < 0xC0 -> 0x80 <= b3 -> b3 < 0xC0 ->
    (b0 = 0xF0 -> 0x90 <= b1) -> (b0 = 0xF4 -> b1 < 0x90) ->
    gchr [b0; b1; b2; b3]
        ((b0 - 0xF0) * 262144 + (b1 - 0x80) * 4096 + (b2 - 0x80) * 64 + (b3 - 0x80)).

Lemma dec1g_inv x c r : dec1g x = Some (c, r) -> exists ch, x = ch ++ r /\ gchr ch c.
Proof.
  unfold dec1g. destruct x as [|b0 t]; [discriminate|].
  destruct (b0 <? 0x80) eqn:H1.
  { intros H; inversion H; subst. exists [c]. split; [reflexivity|constructor; lia]. }
  destruct (b0 <? 0xC2) eqn:H2; [discriminate|].
  destruct (b0 <? 0xE0) eqn:H3.
  { destruct t as [|b1 t1]; [discriminate|].
    destruct (is_cont b1) eqn:C1; [|discriminate].
    intros H; inversion H; subst. exists [b0; b1]. split; [reflexivity|].
    unfold is_cont in C1. constructor; lia. }
  destruct (b0 <? 0xF0) eqn:H4.
  { destruct t as [|b1 [|b2 t2]]; try discriminate.
    match goal with |- (if ?b then _ else _) = _ -> _ => destruct b eqn:C end; [|discriminate].
    intros H; inversion H; subst. exists [b0; b1; b2]. split; [reflexivity|].
    unfold is_cont in C. constructor; lia. }
  destruct (b0 <? 0xF5) eqn:H5; [|discriminate].
  destruct t as [|b1 [|b2 [|b3 t3]]]; try discriminate.
  match goal with |- (if ?b then _ else _) = _ -> _ => destruct b eqn:C end; [|discriminate].
  intros H; inversion H; subst. exists [b0; b1; b2; b3]. split; [reflexivity|].
  unfold is_cont in C. constructor; lia.
Qed.

Lemma gchr_dec1g ch c r : gchr ch c -> dec1g (ch ++ r) = Some (c, r).
Proof.
  intros H; destruct H; cbn [app dec1g]; unfold is_cont; btest; reflexivity.
Qed.

Lemma gchr_len ch c : gchr ch c -> (1 <= length ch <= 4)%nat.
Proof. intros H; destruct H; cbn [length]; lia. Qed.

Lemma gchr_nonnil ch c : gchr ch c -> ch <> [].
Proof. intros H; destruct H; discriminate. Qed.

Lemma gchr_app_nonnil ch c r : gchr ch c -> ch ++ r <> [].
Proof.
  intros H E. apply app_eq_nil in E. destruct E as [E _]. now apply gchr_nonnil in H.
Qed.

Lemma chr_gchr ch c : chr ch c -> gchr ch c.
Proof. intros H; destruct H; constructor; assumption. Qed.

Lemma dec1g_shorter x c r : dec1g x = Some (c, r) -> (length r < length x)%nat.
Proof.
  intros H. apply dec1g_inv in H. destruct H as (ch & -> & H).
  apply gchr_len in H. rewrite app_length. lia.
Qed.

Lemma gchr_head ch c : gchr ch c -> exists b t, ch = b :: t /\ is_contb b = false.
Proof.
  intros H; destruct H; eexists; eexists; (split; [reflexivity|]);
    rewrite is_contb_cont; unfold is_cont; lia.
Qed.

Lemma lead_trail_excl c : is_lead_cp c = true -> is_trail_cp c = false.
Proof. unfold is_lead_cp, is_trail_cp. lia. Qed.

Lemma gchr_lead_len ch c : gchr ch c -> is_lead_cp c = true -> length ch = 3%nat.
Proof. intros H; destruct H; unfold is_lead_cp; intros; try reflexivity; lia. Qed.

Lemma gchr_trail_len ch c : gchr ch c -> is_trail_cp c = true -> length ch = 3%nat.
Proof. intros H; destruct H; unfold is_trail_cp; intros; try reflexivity; lia. Qed.

(* ---------------------------------------------------------------- fuel *)
Lemma wfuel_indep : forall f1 f2 pl x, (length x <= f1)%nat -> (length x <= f2)%nat ->
  wtf8_spec_fuel f1 pl x = wtf8_spec_fuel f2 pl x.
Proof.
  induction f1 as [|f1 IH]; intros f2 pl x H1 H2.
  - destruct x; [|cbn [length] in H1; lia]. destruct f2; reflexivity.
  - destruct x as [|b t]; [destruct f2; reflexivity|].
    destruct f2 as [|f2]; [cbn [length] in H2; lia|].
    cbn [wtf8_spec_fuel]. destruct (dec1g (b :: t)) as [[c r]|] eqn:E; [|reflexivity].
    apply dec1g_shorter in E. cbn [length] in *.
    destruct (pl && is_trail_cp c); [reflexivity|]. apply IH; lia.
Qed.

Definition W (pl : bool) (x : list N) : bool := wtf8_spec_fuel (length x) pl x.

Lemma wtf8_spec_W x : wtf8_spec x = W false x.
Proof. reflexivity. Qed.

Lemma W_nil pl : W pl [] = true.
Proof. reflexivity. Qed.

Lemma W_unfold pl x : x <> [] ->
  W pl x = match dec1g x with
           | Some (c, r) => if pl && is_trail_cp c then false else W (is_lead_cp c) r
           | None => false
           end.
Proof.
  intros Hx. unfold W. destruct x as [|b t]; [congruence|].
  cbn [length wtf8_spec_fuel]. destruct (dec1g (b :: t)) as [[c r]|] eqn:E; [|reflexivity].
  apply dec1g_shorter in E. cbn [length] in E.
  destruct (pl && is_trail_cp c); [reflexivity|]. apply wfuel_indep; lia.
Qed.

Lemma W_gchr_app pl ch c r : gchr ch c ->
  W pl (ch ++ r) = if pl && is_trail_cp c then false else W (is_lead_cp c) r.
Proof.
  intros H. rewrite W_unfold by (eapply gchr_app_nonnil; eassumption).
  rewrite (gchr_dec1g ch c r H). reflexivity.
Qed.

Lemma wtf8_nil : wtf8_spec [] = true.
Proof. reflexivity. Qed.

(* validity with the surrogate state before and after *)
Inductive WVE : bool -> list N -> bool -> Prop :=
| WVE_nil pl : WVE pl [] pl
| WVE_cons pl ch c r e : gchr ch c -> pl && is_trail_cp c = false ->
    WVE (is_lead_cp c) r e -> WVE pl (ch ++ r) e.

Lemma WVE_W pl x e : WVE pl x e -> W pl x = true.
Proof.
  induction 1 as [|pl ch c r e H Hp Hr IH]; [reflexivity|].
  rewrite (W_gchr_app pl ch c r H), Hp. exact IH.
Qed.

Lemma W_WVE_len : forall n pl x, (length x <= n)%nat -> W pl x = true -> exists e, WVE pl x e.
Proof.
  induction n as [|n IH]; intros pl x Hl Hv.
  - destruct x; [eexists; constructor|cbn [length] in Hl; lia].
  - destruct x as [|b t]; [eexists; constructor|].
    rewrite W_unfold in Hv by discriminate.
    destruct (dec1g (b :: t)) as [[c r]|] eqn:E; [|discriminate].
    pose proof (dec1g_shorter _ _ _ E) as Hs.
    apply dec1g_inv in E. destruct E as (ch & E & Hc). rewrite E.
    destruct (pl && is_trail_cp c) eqn:Hp; [discriminate|].
    destruct (IH (is_lead_cp c) r) as [e He]; [lia|exact Hv|].
    exists e. econstructor; eassumption.
Qed.

Lemma W_WVE pl x : W pl x = true -> exists e, WVE pl x e.
Proof. apply (W_WVE_len (length x)). lia. Qed.

Lemma WVE_app pl u e v e' : WVE pl u e -> WVE e v e' -> WVE pl (u ++ v) e'.
Proof.
  induction 1 as [|pl ch c r e H Hp Hr IH]; intros Hv; [exact Hv|].
  rewrite <- app_assoc. econstructor; [exact H|exact Hp|auto].
Qed.

(* a weaker start state is always fine *)
Lemma WVE_relax pl x e : WVE pl x e -> exists e', WVE false x e'.
Proof.
  intros H; destruct H as [|pl ch c r e H Hp Hr]; [eexists; constructor|].
  exists e. econstructor; [exact H|reflexivity|exact Hr].
Qed.

(* the last code point *)
Lemma WVE_snoc pl x e : WVE pl x e ->
  (x = [] /\ e = pl) \/
  exists x' ch c e0, x = x' ++ ch /\ gchr ch c /\ WVE pl x' e0 /\
                     e0 && is_trail_cp c = false /\ e = is_lead_cp c.
Proof.
  induction 1 as [|pl ch c r e H Hp Hr IH]; [left; split; reflexivity|right].
  destruct IH as [[-> ->]|(x' & ch' & c' & e0 & -> & H' & Hx' & Hp' & ->)].
  - exists [], ch, c, pl. rewrite app_nil_r. cbn [app].
    repeat split; try assumption. constructor.
  - exists (ch ++ x'), ch', c', e0. rewrite app_assoc.
    repeat split; try assumption. econstructor; eassumption.
Qed.

(* ---------------------------------------------------------------- futf::classify *)
Definition mean (c : N) : meaning :=
  if is_lead_cp c then MLead (c - 0xD800)
  else if is_trail_cp c then MTrail (c - 0xDC00)
  else MWhole c.

Lemma mean_whole c : is_lead_cp c = false -> is_trail_cp c = false -> mean c = MWhole c.
Proof. intros H1 H2. unfold mean. rewrite H1, H2. reflexivity. Qed.

Lemma decode3g b0 b1 b2 : 0xE0 <= b0 -> b0 < 0xF0 -> 0x80 <= b1 -> b1 < 0xC0 ->
  0x80 <= b2 -> b2 < 0xC0 -> (b0 = 0xE0 -> 0xA0 <= b1) ->
  decode [b0; b1; b2] = Some (mean ((b0 - 0xE0) * 4096 + (b1 - 0x80) * 64 + (b2 - 0x80))).
Proof.
  intros. unfold decode.
  assert (E0 : b0 mod 16 = b0 - 0xE0) by lia.
  assert (E1 : b1 mod 64 = b1 - 0x80) by lia.
  assert (E2 : b2 mod 64 = b2 - 0x80) by lia.
  rewrite E0, E1, E2. cbv zeta.
  match goal with |- context [if ?b then None else _] => replace b with false by lia end.
  unfold mean, is_lead_cp, is_trail_cp.
  destruct (_ && _); [reflexivity|]. destruct (_ && _); reflexivity.
Qed.

Lemma wtf8_meaningful_mean s n c : wtf8_meaningful (Some (s, n, mean c)) = true.
Proof. unfold mean. destruct (is_lead_cp c); [reflexivity|]. destruct (is_trail_cp c); reflexivity. Qed.

Lemma classify_gchr0 ch c r : gchr ch c ->
  classify (ch ++ r) 0 = Some (0%nat, length ch, mean c).
Proof.
  intros H; destruct H; unfold classify; cbn [app length Nat.leb nth].
  - rewrite bc_ascii by assumption. rewrite mean_whole; [reflexivity| |];
      unfold is_lead_cp, is_trail_cp; lia.
  - rewrite bc_2 by lia. cbn [Nat.sub Nat.leb nslice skipn firstn all_cont forallb].
    rewrite is_contb_true by assumption. cbn [andb negb].
    rewrite decode2 by assumption. rewrite mean_whole; [reflexivity| |];
      unfold is_lead_cp, is_trail_cp; lia.
  - rewrite bc_3 by lia. cbn [Nat.sub Nat.leb nslice skipn firstn all_cont forallb].
    rewrite !is_contb_true by assumption. cbn [andb negb].
    rewrite decode3g by assumption. reflexivity.
  - rewrite bc_4 by lia. cbn [Nat.sub Nat.leb nslice skipn firstn all_cont forallb].
    rewrite !is_contb_true by assumption. cbn [andb negb].
    rewrite decode4 by assumption. rewrite mean_whole; [reflexivity| |];
      unfold is_lead_cp, is_trail_cp; lia.
Qed.

(* the same code point seen from its last byte *)
Lemma classify_gchr_last ch c : gchr ch c ->
  classify ch (length ch - 1) = Some (0%nat, length ch, mean c).
Proof.
  intros H; destruct H; unfold classify; do 5 cstep.
  - rewrite mean_whole; [reflexivity| |]; unfold is_lead_cp, is_trail_cp; lia.
  - rewrite decode2 by assumption. rewrite mean_whole; [reflexivity| |];
      unfold is_lead_cp, is_trail_cp; lia.
  - rewrite decode3g by assumption. reflexivity.
  - rewrite decode4 by assumption. rewrite mean_whole; [reflexivity| |];
      unfold is_lead_cp, is_trail_cp; lia.
Qed.

Lemma gchr_mid_skip ch c r n : gchr ch c -> (0 < n < length ch)%nat ->
  exists b t, skipn n (ch ++ r) = b :: t /\ is_cont b = true.
Proof.
  intros H Hn; destruct H; cbn [length] in Hn;
    destruct n as [|[|[|[|n]]]]; try lia; cbn [app skipn];
    eexists; eexists; (split; [reflexivity|]); unfold is_cont; lia.
Qed.

Lemma cont_head_bad_w b t pl : is_cont b = true ->
  vsuffix FWtf8 (b :: t) = false /\ W pl (b :: t) = false.
Proof.
  intros H. split.
  - cbn [vsuffix]. unfold classify. cbn [length Nat.leb nth].
    unfold is_cont in H. rewrite bc_cont by lia. reflexivity.
  - rewrite W_unfold by discriminate. unfold is_cont in H. cbn [dec1g]. btest. reflexivity.
Qed.

Lemma gchr_strict_prefix ch c k pl : gchr ch c -> (0 < k < length ch)%nat ->
  vprefix FWtf8 (firstn k ch) = false /\ W pl (firstn k ch) = false.
Proof.
  intros H Hk; destruct H; cbn [length] in Hk;
    destruct k as [|[|[|[|k]]]]; try lia; (split;
    [ cbn [firstn vprefix]; unfold classify; do 5 cstep; reflexivity
    | cbn [firstn]; rewrite W_unfold by discriminate; cbn [dec1g]; btest; reflexivity ]).
Qed.

(* ---------------------------------------------------------------- suffix *)
Lemma WVE_vsuffix pl y e : WVE pl y e -> vsuffix FWtf8 y = true.
Proof.
  intros H; destruct H as [|pl ch c r e H Hp Hr]; [reflexivity|].
  cbn [vsuffix]. rewrite (classify_gchr0 ch c r H), wtf8_meaningful_mean.
  destruct (ch ++ r); reflexivity.
Qed.

Lemma WVE_skipn pl x e : WVE pl x e -> forall n,
  (exists e', WVE false (skipn n x) e') \/ exists b t, skipn n x = b :: t /\ is_cont b = true.
Proof.
  induction 1 as [|pl ch c r e H Hp Hr IH]; intros n.
  - left. rewrite skipn_nil. eexists; constructor.
  - destruct n as [|n].
    { left. cbn [skipn]. exists e. econstructor; [exact H|reflexivity|exact Hr]. }
    destruct (Nat.lt_ge_cases (S n) (length ch)) as [Hl|Hl].
    + right. apply (gchr_mid_skip ch c r (S n) H). lia.
    + rewrite skipn_app, skipn_all2 by exact Hl. cbn [app]. apply IH.
Qed.

Lemma wtf8_skipn_dich x n : wtf8_spec x = true ->
  wtf8_spec (skipn n x) = true \/ exists b t, skipn n x = b :: t /\ is_cont b = true.
Proof.
  intros H. rewrite wtf8_spec_W in H. apply W_WVE in H. destruct H as [e H].
  destruct (WVE_skipn _ _ _ H n) as [[e' H1]|H1]; [left|right; exact H1].
  rewrite wtf8_spec_W. eapply WVE_W; eassumption.
Qed.

Lemma wtf8_suffix_ok x n : wtf8_spec x = true ->
  vsuffix FWtf8 (skipn n x) = wtf8_spec (skipn n x).
Proof.
  intros H. rewrite wtf8_spec_W in H. apply W_WVE in H. destruct H as [e H].
  rewrite wtf8_spec_W.
  destruct (WVE_skipn _ _ _ H n) as [[e' H1]|(b & t & E & Hb)].
  - rewrite (WVE_vsuffix _ _ _ H1), (WVE_W _ _ _ H1). reflexivity.
  - rewrite E. destruct (cont_head_bad_w b t false Hb) as [-> ->]. reflexivity.
Qed.

(* ---------------------------------------------------------------- prefix / subseq *)
Lemma wtf8_meaningful_shift k r : wtf8_meaningful (shift k r) = wtf8_meaningful r.
Proof. destruct r as [[[s n] m]|]; reflexivity. Qed.

Lemma WVE_head_nc pl r e b t : WVE pl r e -> r = b :: t -> is_contb b = false.
Proof.
  intros H E. destruct H as [|pl ch c r' e H Hp Hr]; [discriminate|].
  destruct (gchr_head ch c H) as (b' & t' & -> & Hb).
  cbn [app] in E. inversion E; subst. exact Hb.
Qed.

Lemma vprefix_gchr_app ch c y : gchr ch c -> y <> [] -> is_contb (nth 0 y 0) = false ->
  vprefix FWtf8 (ch ++ y) = vprefix FWtf8 y.
Proof.
  intros H Hy H0. cbn [vprefix].
  destruct (ch ++ y) eqn:E; [exfalso; eapply gchr_app_nonnil; eassumption|].
  rewrite <- E. clear E.
  destruct y as [|b t]; [congruence|].
  rewrite app_length.
  replace (length ch + length (b :: t) - 1)%nat
    with (length ch + (length (b :: t) - 1))%nat by (cbn [length]; lia).
  rewrite classify_shift; [apply wtf8_meaningful_shift|exact H0|cbn [length]; lia].
Qed.

Lemma gchr_vprefix ch c : gchr ch c -> vprefix FWtf8 ch = true.
Proof.
  intros H. cbn [vprefix]. rewrite (classify_gchr_last ch c H), wtf8_meaningful_mean.
  destruct ch; reflexivity.
Qed.

Lemma WVE_prefix_ok pl x e : WVE pl x e ->
  forall k, vprefix FWtf8 (firstn k x) = W pl (firstn k x).
Proof.
  induction 1 as [|pl ch c r e H Hp Hr IH]; intros k.
  - rewrite firstn_nil. reflexivity.
  - destruct k as [|k]; [reflexivity|].
    rewrite firstn_app.
    destruct (Nat.lt_ge_cases (S k) (length ch)) as [Hl|Hl].
    + replace (S k - length ch)%nat with 0%nat by lia. rewrite firstn_O, app_nil_r.
      destruct (gchr_strict_prefix ch c (S k) pl H) as [-> ->]; [lia|reflexivity].
    + rewrite firstn_all2 by exact Hl.
      rewrite (W_gchr_app pl ch c _ H), Hp.
      destruct (firstn (S k - length ch) r) as [|b t] eqn:Ey.
      * rewrite app_nil_r. rewrite (gchr_vprefix ch c H). reflexivity.
      * rewrite (vprefix_gchr_app ch c (b :: t) H); [|discriminate|].
        -- rewrite <- Ey. apply IH.
        -- cbn [nth]. destruct r as [|b' t']; [rewrite firstn_nil in Ey; discriminate|].
           destruct (S k - length ch)%nat; [discriminate|].
           cbn [firstn] in Ey. inversion Ey; subst.
           eapply WVE_head_nc; [exact Hr|reflexivity].
Qed.

Lemma wtf8_prefix_ok x k : wtf8_spec x = true ->
  vprefix FWtf8 (firstn k x) = wtf8_spec (firstn k x).
Proof.
  intros H. rewrite wtf8_spec_W in H. apply W_WVE in H. destruct H as [e H].
  rewrite wtf8_spec_W. eapply WVE_prefix_ok; eassumption.
Qed.

Lemma wtf8_subseq_ok x off len : wtf8_spec x = true ->
  vsubseq FWtf8 (firstn len (skipn off x)) = wtf8_spec (firstn len (skipn off x)).
Proof.
  intros H. unfold vsubseq.
  destruct (wtf8_skipn_dich x off H) as [Hy|(b & t & E & Hb)].
  - rewrite (wtf8_prefix_ok _ len Hy).
    destruct (wtf8_spec (firstn len (skipn off x))) eqn:Ev; [|reflexivity].
    rewrite wtf8_spec_W in Ev. apply W_WVE in Ev. destruct Ev as [e Ev].
    rewrite (WVE_vsuffix _ _ _ Ev). reflexivity.
  - rewrite E. destruct len as [|len]; [reflexivity|]. cbn [firstn].
    rewrite wtf8_spec_W.
    destruct (cont_head_bad_w b (firstn len t) false Hb) as [-> ->]. apply andb_false_r.
Qed.

(* ---------------------------------------------------------------- WTF8::validate *)
Lemma scan_back_st : forall fuel buf idx back st n m,
  scan_back fuel buf idx back = Some (st, n, m) -> (st < idx)%nat \/ m = MSuffix.
Proof.
  induction fuel as [|f IH]; intros buf idx back st n m H;
    rewrite scan_back_eq in H; cbv zeta in H;
    (destruct (Nat.eqb (idx - back) 0) eqn:E0; [inversion H; right; reflexivity|]);
    apply Nat.eqb_neq in E0;
    (destruct (byte_class (nth (idx - back - 1) buf 0)); try discriminate;
     [ destruct (Nat.leb n0 (length buf - (idx - back - 1)));
       [ destruct (Nat.ltb (S back) n0 && _); [discriminate|];
         destruct (decode _); [|discriminate]; inversion H; left; lia
       | inversion H; left; lia ]
     | destruct (Nat.leb 3 (S back)); [discriminate|] ]).
  - discriminate.
  - eapply IH; eassumption.
Qed.

Ltac ifs := repeat match goal with |- context [if ?b then _ else _] => destruct b eqn:? end.

(* where the generalised decoder fails, classify finds no code point *)
Lemma classify_dec1g_none y : dec1g y = None -> wtf8_meaningful (classify y 0) = false.
Proof.
  destruct y as [|b0 t]; [reflexivity|].
  assert (Hr : b0 < 0x80 \/ (0x80 <= b0 /\ b0 < 0xC0) \/ (0xC0 <= b0 /\ b0 < 0xC2) \/
               (0xC2 <= b0 /\ b0 < 0xE0) \/ (0xE0 <= b0 /\ b0 < 0xF0) \/
               (0xF0 <= b0 /\ b0 < 0xF5) \/ (0xF5 <= b0 /\ b0 < 0xF8) \/ 0xF8 <= b0) by lia.
  unfold classify. cbn [length Nat.leb nth dec1g].
  destruct Hr as [Hr|[Hr|[Hr|[Hr|[Hr|[Hr|[Hr|Hr]]]]]]].
  - replace (b0 <? 0x80) with true by lia. discriminate.
  - intros _. rewrite bc_cont by lia. reflexivity.
  - intros _. rewrite bc_2 by lia. destruct t as [|b1 t1]; [reflexivity|].
    cbn [length Nat.sub Nat.leb nslice firstn skipn all_cont forallb].
    destruct (is_contb b1); cbn [andb negb]; [|reflexivity].
    unfold decode. cbv zeta. ifs; [reflexivity|exfalso; lia].
  - replace (b0 <? 0x80) with false by lia. replace (b0 <? 0xC2) with false by lia.
    replace (b0 <? 0xE0) with true by lia. rewrite bc_2 by lia.
    destruct t as [|b1 t1]; [reflexivity|].
    cbn [length Nat.sub Nat.leb nslice firstn skipn all_cont forallb].
    rewrite is_contb_cont. destruct (is_cont b1); [discriminate|reflexivity].
  - replace (b0 <? 0x80) with false by lia. replace (b0 <? 0xC2) with false by lia.
    replace (b0 <? 0xE0) with false by lia. replace (b0 <? 0xF0) with true by lia.
    rewrite bc_3 by lia.
    destruct t as [|b1 [|b2 t2]]; try reflexivity.
    cbn [length Nat.sub Nat.leb nslice firstn skipn all_cont forallb].
    rewrite !is_contb_cont.
    destruct (is_cont b1) eqn:C1; [|reflexivity].
    destruct (is_cont b2) eqn:C2; [|reflexivity].
    cbn [andb negb].
    destruct (negb (b0 =? 0xE0) || (0xA0 <=? b1)) eqn:C3; [discriminate|]. intros _.
    unfold is_cont in *. unfold decode. cbv zeta. ifs; try reflexivity; exfalso; lia.
  - replace (b0 <? 0x80) with false by lia. replace (b0 <? 0xC2) with false by lia.
    replace (b0 <? 0xE0) with false by lia. replace (b0 <? 0xF0) with false by lia.
    replace (b0 <? 0xF5) with true by lia.
    rewrite bc_4 by lia.
    destruct t as [|b1 [|b2 [|b3 t3]]]; try reflexivity.
    cbn [length Nat.sub Nat.leb nslice firstn skipn all_cont forallb].
    rewrite !is_contb_cont.
    destruct (is_cont b1) eqn:C1; [|reflexivity].
    destruct (is_cont b2) eqn:C2; [|reflexivity].
    destruct (is_cont b3) eqn:C3; [|reflexivity].
    cbn [andb negb].
    destruct ((negb (b0 =? 0xF0) || (0x90 <=? b1)) && (negb (b0 =? 0xF4) || (b1 <? 0x90))) eqn:C4;
      [discriminate|]. intros _.
    unfold is_cont in *. unfold decode. cbv zeta. ifs; try reflexivity; exfalso; lia.
  - intros _. rewrite bc_4 by lia.
    destruct t as [|b1 [|b2 [|b3 t3]]]; try reflexivity.
    cbn [length Nat.sub Nat.leb nslice firstn skipn all_cont forallb].
    rewrite !is_contb_cont.
    destruct (is_cont b1) eqn:C1; [|reflexivity].
    destruct (is_cont b2) eqn:C2; [|reflexivity].
    destruct (is_cont b3) eqn:C3; [|reflexivity].
    cbn [andb negb].
    unfold is_cont in *. unfold decode. cbv zeta. ifs; try reflexivity; exfalso; lia.
  - intros _. unfold byte_class. btest. reflexivity.
Qed.

Lemma wtf8_loop_eq fuel buf i pl :
  wtf8_loop fuel buf i pl =
  if Nat.leb (length buf) i then true
  else match fuel with
       | O => false
       | S f =>
         match classify buf i with
         | Some (st, n, m) =>
           if negb (Nat.eqb st i) then false
           else match m with
                | MWhole _ => wtf8_loop f buf (i + n) false
                | MLead _ => wtf8_loop f buf (i + n) true
                | MTrail _ => if pl then false else wtf8_loop f buf (i + n) false
                | _ => false
                end
         | None => false
         end
       end.
Proof. destruct fuel; reflexivity. Qed.

Lemma loop_spec : forall f1 y p pl f2, (length y <= f1)%nat -> (length y <= f2)%nat ->
  wtf8_loop f1 (p ++ y) (length p) pl = wtf8_spec_fuel f2 pl y.
Proof.
  induction f1 as [|f IH]; intros y p pl f2 H1 H2.
  - destruct y; [|cbn [length] in H1; lia].
    rewrite wtf8_loop_eq, app_nil_r, Nat.leb_refl. destruct f2; reflexivity.
  - destruct y as [|b t].
    { rewrite wtf8_loop_eq, app_nil_r, Nat.leb_refl. destruct f2; reflexivity. }
    destruct f2 as [|f2]; [cbn [length] in H2; lia|].
    rewrite wtf8_loop_eq.
    replace (Nat.leb (length (p ++ b :: t)) (length p)) with false
      by (symmetry; apply Nat.leb_gt; rewrite app_length; cbn [length]; lia).
    cbn [wtf8_spec_fuel].
    destruct (is_contb b) eqn:Hb.
    + assert (Ed : dec1g (b :: t) = None).
      { rewrite is_contb_cont in Hb. unfold is_cont in Hb. cbn [dec1g]. btest. reflexivity. }
      rewrite Ed.
      destruct (classify (p ++ b :: t) (length p)) as [[[st n] m]|] eqn:Ec; [|reflexivity].
      unfold classify in Ec.
      replace (Nat.leb (length (p ++ b :: t)) (length p)) with false in Ec
        by (symmetry; apply Nat.leb_gt; rewrite app_length; cbn [length]; lia).
      rewrite app_nth2, Nat.sub_diag in Ec by lia. cbn [nth] in Ec.
      unfold is_contb in Hb. destruct (byte_class b); try discriminate.
      apply scan_back_st in Ec. destruct Ec as [Ec| ->].
      * replace (Nat.eqb st (length p)) with false by (symmetry; apply Nat.eqb_neq; lia).
        reflexivity.
      * destruct (negb _); reflexivity.
    + replace (classify (p ++ b :: t) (length p))
        with (classify (p ++ b :: t) (length p + 0)) by (rewrite Nat.add_0_r; reflexivity).
      rewrite classify_shift; [|exact Hb|cbn [length]; lia].
      destruct (dec1g (b :: t)) as [[c r]|] eqn:Ed.
      * pose proof (dec1g_shorter _ _ _ Ed) as Hs. cbn [length] in Hs, H1, H2.
        apply dec1g_inv in Ed. destruct Ed as (ch & E & Hc). rewrite E.
        rewrite (classify_gchr0 ch c r Hc). cbn [shift].
        rewrite Nat.add_0_r, Nat.eqb_refl. cbn [negb].
        rewrite app_assoc, <- app_length.
        unfold mean. destruct (is_lead_cp c) eqn:L; [|destruct (is_trail_cp c) eqn:T].
        -- rewrite (lead_trail_excl c L), andb_false_r. apply IH; lia.
        -- destruct pl; cbn [andb]; [reflexivity|]. apply IH; lia.
        -- rewrite andb_false_r. apply IH; lia.
      * apply classify_dec1g_none in Ed.
        destruct (classify (b :: t) 0) as [[[st n] m]|]; cbn [shift]; [|reflexivity].
        destruct m; cbn [wtf8_meaningful] in Ed; try discriminate;
          destruct (negb _); reflexivity.
Qed.

Lemma wtf8_validate_ok x : validate FWtf8 x = wtf8_spec x.
Proof.
  unfold wtf8_spec. cbn [validate].
  apply (loop_spec (S (length x)) x [] false (length x)); lia.
Qed.

(* ---------------------------------------------------------------- Format::fixup *)
Lemma trail_lead_excl c : is_trail_cp c = true -> is_lead_cp c = false.
Proof. unfold is_lead_cp, is_trail_cp. lia. Qed.

Lemma lead_of_snoc a' ch c : gchr ch c ->
  lead_of (a' ++ ch) = if is_lead_cp c then Some (c - 0xD800) else None.
Proof.
  intros H. unfold lead_of. rewrite rev_app_distr.
  destruct H; cbn [rev app].
  - destruct (rev a') as [|x [|y l]]; unfold is_cont, is_lead_cp;
      ifs; try reflexivity; exfalso; lia.
  - destruct (rev a') as [|x l]; unfold is_cont, is_lead_cp;
      ifs; try reflexivity; exfalso; lia.
  - unfold is_cont, is_lead_cp; ifs; try reflexivity; try (exfalso; lia). f_equal. lia.
  - unfold is_cont, is_lead_cp; ifs; try reflexivity; exfalso; lia.
Qed.

Lemma trail_of_cons ch c r : gchr ch c ->
  trail_of (ch ++ r) = if is_trail_cp c then Some (c - 0xDC00) else None.
Proof.
  intros H. unfold trail_of.
  destruct H; cbn [app].
  - destruct r as [|x [|y l]]; unfold is_cont, is_trail_cp;
      ifs; try reflexivity; exfalso; lia.
  - destruct r as [|x l]; unfold is_cont, is_trail_cp;
      ifs; try reflexivity; exfalso; lia.
  - unfold is_cont, is_trail_cp; ifs; try reflexivity; try (exfalso; lia). f_equal. lia.
  - unfold is_cont, is_trail_cp; ifs; try reflexivity; exfalso; lia.
Qed.

Definition joined (ca cb : N) : N := 0x10000 + (ca - 0xD800) * 1024 + (cb - 0xDC00).

Lemma classify_snoc a' ch c : gchr ch c ->
  classify (a' ++ ch) (length (a' ++ ch) - 1) = Some ((length a' + 0)%nat, length ch, mean c).
Proof.
  intros H. pose proof (gchr_len ch c H) as Hl.
  rewrite app_length.
  replace (length a' + length ch - 1)%nat with (length a' + (length ch - 1))%nat by lia.
  rewrite classify_shift.
  - rewrite (classify_gchr_last ch c H). reflexivity.
  - destruct (gchr_head ch c H) as (b & t & -> & Hb). exact Hb.
  - lia.
Qed.

Lemma fixup_chars a' cha ca chb cb r : gchr cha ca -> gchr chb cb ->
  fixup FWtf8 (a' ++ cha) (chb ++ r) =
  if is_lead_cp ca && is_trail_cp cb then (3, 3, enc (joined ca cb)) else (0, 0, []).
Proof.
  intros Ha Hb. cbn [fixup].
  rewrite (classify_snoc a' cha ca Ha), (classify_gchr0 chb cb r Hb).
  destruct (is_lead_cp ca) eqn:La; [destruct (is_trail_cp cb) eqn:Tb|]; cbn [andb].
  - pose proof (gchr_lead_len _ _ Ha La). pose proof (gchr_trail_len _ _ Hb Tb).
    replace (Nat.leb 3 (length (a' ++ cha))) with true
      by (symmetry; apply Nat.leb_le; rewrite app_length; lia).
    replace (Nat.leb 3 (length (chb ++ r))) with true
      by (symmetry; apply Nat.leb_le; rewrite app_length; lia).
    cbn [andb]. unfold mean. rewrite La, Tb, (trail_lead_excl cb Tb). reflexivity.
  - unfold mean. rewrite La, Tb.
    destruct (Nat.leb 3 (length (a' ++ cha)) && Nat.leb 3 (length (chb ++ r))); [|reflexivity].
    destruct (is_lead_cp cb); reflexivity.
  - unfold mean. rewrite La.
    destruct (Nat.leb 3 (length (a' ++ cha)) && Nat.leb 3 (length (chb ++ r))); [|reflexivity].
    destruct (is_trail_cp ca); reflexivity.
Qed.

Lemma sconcat_chars a' cha ca chb cb r : gchr cha ca -> gchr chb cb ->
  sconcat FWtf8 (a' ++ cha) (chb ++ r) =
  if is_lead_cp ca && is_trail_cp cb
  then firstn (length (a' ++ cha) - 3) (a' ++ cha) ++ enc (joined ca cb) ++ skipn 3 (chb ++ r)
  else (a' ++ cha) ++ (chb ++ r).
Proof.
  intros Ha Hb. cbn [sconcat].
  rewrite (lead_of_snoc a' cha ca Ha), (trail_of_cons chb cb r Hb).
  destruct (is_lead_cp ca); [destruct (is_trail_cp cb)|]; reflexivity.
Qed.

Lemma pushed_nojoin a b : fixup FWtf8 a b = (0, 0, []) -> pushed FWtf8 a b = a ++ b.
Proof.
  intros H. unfold pushed. rewrite H. rewrite N.sub_0_r. unfold llen.
  rewrite Nat2N.id, firstn_all. reflexivity.
Qed.

Lemma wtf8_pushed_sconcat a b : wtf8_spec a = true -> wtf8_spec b = true ->
  pushed FWtf8 a b = sconcat FWtf8 a b.
Proof.
  intros Ha Hb. rewrite wtf8_spec_W in Ha, Hb.
  apply W_WVE in Ha. apply W_WVE in Hb. destruct Ha as [ea Ha]. destruct Hb as [eb Hb].
  apply WVE_snoc in Ha.
  destruct Ha as [[-> _]|(a' & cha & ca & e0 & -> & Hca & _ & _ & _)].
  { rewrite pushed_nojoin by reflexivity. reflexivity. }
  destruct Hb as [|pl chb cb r eb Hcb _ _].
  { rewrite pushed_nojoin.
    - cbn [sconcat trail_of]. destruct (lead_of (a' ++ cha)); reflexivity.
    - cbn [fixup length Nat.leb]. rewrite andb_false_r. reflexivity. }
  rewrite (sconcat_chars a' cha ca chb cb r Hca Hcb).
  pose proof (fixup_chars a' cha ca chb cb r Hca Hcb) as Hf.
  destruct (is_lead_cp ca && is_trail_cp cb).
  - unfold pushed. rewrite Hf. f_equal. f_equal. unfold llen. lia.
  - apply pushed_nojoin. exact Hf.
Qed.

Lemma joined_gchr ca cb : is_lead_cp ca = true -> is_trail_cp cb = true ->
  gchr (enc (joined ca cb)) (joined ca cb) /\
  is_lead_cp (joined ca cb) = false /\ is_trail_cp (joined ca cb) = false.
Proof.
  unfold is_lead_cp, is_trail_cp, joined. intros H1 H2.
  split; [|split; lia].
  apply chr_gchr.
  assert (Hs : is_scalar (0x10000 + (ca - 0xD800) * 1024 + (cb - 0xDC00)) = true)
    by (unfold is_scalar; lia).
  pose proof (dec1_enc _ [] Hs) as Hd. apply dec1_inv in Hd.
  destruct Hd as (ch & E & Hc). rewrite !app_nil_r in E. rewrite E. exact Hc.
Qed.

Lemma wtf8_sconcat_valid a b : wtf8_spec a = true -> wtf8_spec b = true ->
  wtf8_spec (sconcat FWtf8 a b) = true.
Proof.
  intros Ha Hb. rewrite wtf8_spec_W in *.
  apply W_WVE in Ha. apply W_WVE in Hb. destruct Ha as [ea Ha]. destruct Hb as [eb Hb].
  pose proof (WVE_snoc _ _ _ Ha) as Hs.
  destruct Hs as [[-> _]|(a' & cha & ca & e0 & -> & Hca & Ha' & Hp & ->)].
  { replace (sconcat FWtf8 [] b) with b by reflexivity. eapply WVE_W; eassumption. }
  destruct Hb as [|pl chb cb r eb Hcb _ Hr].
  { replace (sconcat FWtf8 (a' ++ cha) []) with ((a' ++ cha) ++ [])
      by (cbn [sconcat trail_of]; destruct (lead_of (a' ++ cha)); reflexivity).
    rewrite app_nil_r. eapply WVE_W; eassumption. }
  rewrite (sconcat_chars a' cha ca chb cb r Hca Hcb).
  destruct (is_lead_cp ca) eqn:La; [destruct (is_trail_cp cb) eqn:Tb|]; cbn [andb].
  - pose proof (gchr_lead_len _ _ Hca La) as L1. pose proof (gchr_trail_len _ _ Hcb Tb) as L2.
    destruct (joined_gchr ca cb La Tb) as (Hj & Hjl & Hjt).
    rewrite app_length, L1.
    replace (length a' + 3 - 3)%nat with (length a' + 0)%nat by lia.
    rewrite firstn_app_2, firstn_O, app_nil_r.
    rewrite <- L2, skipn_app, skipn_all, Nat.sub_diag. cbn [app skipn].
    rewrite (trail_lead_excl cb Tb) in Hr.
    eapply WVE_W. eapply WVE_app; [exact Ha'|].
    econstructor; [exact Hj|rewrite Hjt; apply andb_false_r|rewrite Hjl; exact Hr].
  - eapply WVE_W. eapply WVE_app; [exact Ha|].
    econstructor; [exact Hcb|rewrite Tb; apply andb_false_r|exact Hr].
  - eapply WVE_W. eapply WVE_app; [exact Ha|].
    econstructor; [exact Hcb|reflexivity|exact Hr].
Qed.
