(* wp rules for the operations of tendril.rs on one tendril (plus a frame). *)
From Coq Require Import List NArith Bool Lia Arith Permutation.
From HV Require Import Base.Utf8 Tendril.Heap Tendril.TModel Tendril.TSpec Tendril.TUtf8 Tendril.TInv Tendril.TPrim Tendril.TFmt.
Import ListNotations.
Local Open Scope N_scope.

Definition post1 (s : st) (fr : list tendril) (x : list byte) : tendril -> st -> list event -> Prop :=
  fun t' s' ev => HInv s' (t' :: fr) /\ frame s s' fr /\ trace_ok s ev s' /\ view s' t' = x /\ nxt s <= nxt s'.

Lemma view_len s t : wf_t s t -> llen (view s t) = tlen t.
Proof.
  destruct t as [bs|id len c|id off len]; cbn; auto.
  - intros [b [-> [_ H]]]. apply llen_slice. lia.
  - intros [b [-> H]]. apply llen_slice. lia.
Qed.

Lemma HInv_head s t fr : HInv s (t :: fr) -> wf_t s t.
Proof. intros H. eapply HInv_wf; eauto. now left. Qed.

Lemma HInv_tail_wf s t fr u : HInv s (t :: fr) -> In u fr -> wf_t s u.
Proof. intros H Hu. eapply HInv_wf; eauto. now right. Qed.

Lemma wp_conseq {A} (m : M A) s (Q Q' : A -> st -> list event -> Prop) (E : N -> Prop) :
  wp m s Q E -> (forall a s' ev, Q a s' ev -> Q' a s' ev) -> wp m s Q' E.
Proof. intros H HQ. eapply wp_mono; eauto. Qed.

Ltac step L := apply wp_bind; eapply wp_conseq; [L | ].

(* ---------------------------------------------------------------- make_owned *)
Lemma make_owned_ok s fr t E : HInv s (t :: fr) ->
  wp (make_owned t) s (fun t' s' ev => post1 s fr (view s t) t' s' ev /\
                                       exists id c, t' = Owned id (tlen t) c) E.
Proof.
  intros HI. pose proof (view_len _ _ (HInv_head _ _ _ HI)) as Hlen.
  assert (Hgen : wp (x <- bytes_of t ;; t' <- owned_copy x ;; drop_t t ;;; ret t') s
    (fun t' s' ev => post1 s fr (view s t) t' s' ev /\ exists id c, t' = Owned id (tlen t) c) E).
  { step ltac:(apply bytes_of_ok with (ts := t :: fr); [exact HI|now left]).
    intros x s1 e1 [-> [-> T1]].
    step ltac:(apply owned_copy_ok with (fr := t :: fr); exact HI).
    intros t' s2 e2 [id [c [-> [Hc [HI2 [F2 [T2 [V2 N2]]]]]]]].
    step ltac:(apply drop_ok with (fr := Owned id (llen (view s t)) c :: fr) (t := t);
               eapply HInv_perm; [|exact HI2]; apply perm_swap).
    intros _ s3 e3 [HI3 [F3 [T3 N3]]]. apply wp_ret.
    split; [|exists id, c; now rewrite Hlen].
    split; [exact HI3|]. split.
    { eapply frame_trans; [eapply frame_sub; [|exact F2]; intros u Hu; now right|].
      eapply frame_sub; [|exact F3]. intros u Hu; now right. }
    split.
    { eapply trace_trans; [exact T1|]. eapply trace_trans; [exact T2|]. rewrite app_nil_r. exact T3. }
    split; [|lia]. rewrite (F3 _ (or_introl eq_refl)). exact V2. }
  destruct t as [bs|id len c|id off len]; try exact Hgen.
  cbn [make_owned]. apply wp_ret. split.
  - split; [exact HI|]. split; [apply frame_refl|]. split; [apply trace_refl|]. split; [reflexivity|lia].
  - exists id, c. reflexivity.
Qed.

Lemma mowc_ok s fr t cap E : HInv s (t :: fr) ->
  wp (make_owned_with_capacity t cap) s
     (fun t' s' ev => post1 s fr (view s t) t' s' ev /\ exists id c, t' = Owned id (tlen t) c /\ cap <= c) E.
Proof.
  intros HI. unfold make_owned_with_capacity.
  step ltac:(apply make_owned_ok; exact HI).
  intros t1 s1 e1 [[HI1 [F1 [T1 [V1 N1]]]] [id [c ->]]].
  step ltac:(apply grow_ok; exact HI1).
  intros c' s2 e2 [HI2 [F2 [T2 [Hc [Hcap [V2 N2]]]]]]. apply wp_ret.
  split; [|exists id, c'; auto].
  split; [exact HI2|]. split; [eapply frame_trans; eauto|].
  split; [eapply trace_trans; [exact T1|]; rewrite app_nil_r; exact T2|].
  split; [congruence|lia].
Qed.

(* ---------------------------------------------------------------- from_byte_slice *)
Lemma from_bytes_ok s fr x E : HInv s fr -> wp (from_bytes x) s (post1 s fr x) E.
Proof.
  intros HI. unfold from_bytes. destruct (MAXU32 <? llen x); [exact I|].
  destruct (N.leb_spec (llen x) MAX_INLINE_LEN).
  - apply wp_ret. split; [apply HInv_inline; auto|]. split; [apply frame_refl|].
    split; [apply trace_refl|]. split; [reflexivity|lia].
  - eapply wp_conseq; [apply owned_copy_ok; exact HI|].
    intros t s' ev [id [c [-> [Hc [HI2 [F2 [T2 [V2 N2]]]]]]]].
    split; [exact HI2|]. split; [exact F2|]. split; [exact T2|]. split; [exact V2|exact N2].
Qed.

(* ---------------------------------------------------------------- push_bytes_without_validating *)
Lemma enc_len c : llen (enc c) <= 4.
Proof. unfold enc, llen. repeat destruct (_ <? _); cbn; lia. Qed.

Lemma fixup_bounds f l r : fst (fst (fixup f l r)) <= llen l /\ snd (fst (fixup f l r)) <= llen r.
Proof.
  unfold fixup. destruct f; cbn [fst snd]; try lia.
  destruct (Nat.leb 3 (length l) && Nat.leb 3 (length r)) eqn:H; cbn [fst snd]; [|lia].
  apply andb_true_iff in H. destruct H as [H1 H2]. apply Nat.leb_le in H1, H2.
  destruct (classify l (length l - 1)) as [[[? ?] []]|]; cbn [fst snd]; try lia.
  destruct (classify r 0) as [[[? ?] []]|]; cbn [fst snd]; try lia.
  unfold llen. lia.
Qed.

Lemma push_bytes_wv_ok s fr f t buf E : HInv s (t :: fr) ->
  wp (push_bytes_wv f t buf) s (post1 s fr (pushed f (view s t) buf)) E.
Proof.
  intros HI. pose proof (view_len _ _ (HInv_head _ _ _ HI)) as Hlen.
  unfold push_bytes_wv. destruct (MAXU32 <? llen buf); [exact I|].
  step ltac:(apply bytes_of_ok with (ts := t :: fr); [exact HI|now left]).
  intros x s1 e1 [-> [-> T1]].
  unfold pushed. pose proof (fixup_bounds f (view s t) buf) as FB.
  destruct (fixup f (view s t) buf) as [[dl dr] ins]. cbn [fst snd] in FB. destruct FB as [Hdl Hdr].
  destruct (MAXU32 <? tlen t + llen ins - dl + llen buf); [exact I|].
  rewrite Hlen in Hdl |- *.
  assert (Hnl : tlen t + llen ins - dl + llen buf - dr = (tlen t - dl) + llen (ins ++ skipn (N.to_nat dr) buf)).
  { rewrite llen_app, llen_skipn. lia. }
  destruct (N.leb_spec (tlen t + llen ins - dl + llen buf - dr) MAX_INLINE_LEN) as [Hs|Hs].
  - step ltac:(apply drop_ok; exact HI).
    intros _ s2 e2 [HI2 [F2 [T2 N2]]]. apply wp_ret.
    split.
    { apply HInv_inline; auto. rewrite llen_app, llen_firstn.
      rewrite llen_app, llen_skipn in *. lia. }
    split; [exact F2|]. split; [eapply trace_trans; [exact T1|]; rewrite app_nil_r; exact T2|].
    split; [reflexivity|lia].
  - step ltac:(apply mowc_ok; exact HI).
    intros t1 s2 e2 [[HI2 [F2 [T2 [V2 N2]]]] [id [c [-> Hc]]]].
    step ltac:(apply write_ok with (len := tlen t); [exact HI2|lia|lia]).
    intros _ s3 e3 [HI3 [F3 [T3 [V3 N3]]]]. apply wp_ret.
    rewrite Hnl. split; [exact HI3|]. split; [eapply frame_trans; eauto|].
    split; [eapply trace_trans; [exact T1|]; eapply trace_trans; [exact T2|]; rewrite app_nil_r; exact T3|].
    split; [|lia]. rewrite V3, V2. reflexivity.
Qed.

Lemma try_push_bytes_ok s fr f t buf : HInv s (t :: fr) ->
  wp (try_push_bytes f t buf) s
     (fun t' s' ev => post1 s fr (pushed f (view s t) buf) t' s' ev /\ validate f buf = true)
     (fun e => e = 0 /\ validate f buf = false).
Proof.
  intros HI. unfold try_push_bytes. destruct (validate f buf) eqn:V.
  - eapply wp_conseq; [apply push_bytes_wv_ok; exact HI|]. intros; split; auto.
  - apply wp_err. auto.
Qed.

(* ---------------------------------------------------------------- slices of views *)
Lemma view_sub s id o l o2 off len :
  wf_t s (Shared id o l) -> off + len <= l -> o2 = o + off ->
  view s (Shared id o2 len) = slice (view s (Shared id o l)) off len.
Proof.
  intros [b [Hb Hl]] H ->. cbn [view]. rewrite Hb. symmetry. apply slice_slice. exact H.
Qed.

Lemma slice_adj {A} (x : list A) off l1 l2 :
  slice x off (l1 + l2) = slice x off l1 ++ slice x (off + l1) l2.
Proof.
  unfold slice. rewrite !N2Nat.inj_add.
  rewrite <- (firstn_skipn (N.to_nat l1) (firstn (N.to_nat l1 + N.to_nat l2) (skipn (N.to_nat off) x))).
  rewrite firstn_firstn, skipn_firstn_comm, skipn_add. f_equal; f_equal; lia.
Qed.

Lemma inline_short s t : wf_t s t -> MAX_INLINE_LEN < tlen t -> tid t <> None.
Proof. destruct t; cbn; intros; [lia|discriminate|discriminate]. Qed.

(* ---------------------------------------------------------------- subtendril *)
Definition post2 (s : st) (fr : list tendril) (x y : list byte)
  : tendril * tendril -> st -> list event -> Prop :=
  fun ts s' ev => HInv s' (fst ts :: snd ts :: fr) /\ frame s s' fr /\ trace_ok s ev s' /\
                  view s' (fst ts) = x /\ view s' (snd ts) = y /\ nxt s <= nxt s'.

Lemma unsafe_subtendril_ok s fr t off len E : HInv s (t :: fr) -> off + len <= tlen t ->
  wp (unsafe_subtendril t off len (slice (view s t) off len)) s
     (post2 s fr (view s t) (slice (view s t) off len)) E.
Proof.
  intros HI Hb. pose proof (HInv_head _ _ _ HI) as W. pose proof (view_len _ _ W) as Hlen.
  unfold unsafe_subtendril. destruct (N.leb_spec len MAX_INLINE_LEN) as [Hs|Hs].
  - apply wp_ret. split; cbn [fst snd].
    { eapply HInv_perm; [apply perm_swap|]. apply HInv_inline; auto. rewrite llen_slice; lia. }
    split; [apply frame_refl|]. split; [apply trace_refl|]. repeat split; lia.
  - step ltac:(apply mbs_ok; [exact HI|apply (inline_short s); [exact W|lia]]).
    intros t1 s1 e1 [id [o [-> [Ht [Ho [HI1 [V1 [T1 [Vt [N1 ->]]]]]]]]]].
    pose proof (HInv_head _ _ _ HI1) as W1.
    step ltac:(apply incref_ok with (o2 := o + off) (l2 := len); [exact HI1|]).
    { intros b Hbb. destruct W1 as [b' [Hb' Hl']]. rewrite Hbb in Hb'. injection Hb' as <-. lia. }
    intros _ s2 e2 [HI2 [V2 [T2 [N2 ->]]]]. apply wp_ret. split; cbn [fst snd]; [exact HI2|].
    split; [intros u _; rewrite V2, V1; reflexivity|].
    split; [eapply trace_trans; [exact T1|exact T2]|].
    split; [rewrite V2; exact Vt|]. split; [|lia].
    rewrite (view_sub s2 id o (tlen t) (o + off) off len); auto.
    + rewrite V2, Vt. reflexivity.
    + eapply HInv_head; exact HI2.
Qed.

Definition in_bounds (l off len : N) : bool := negb ((l <? off) || (l - off <? len)).

Lemma in_bounds_spec l off len : in_bounds l off len = true <-> off + len <= l.
Proof.
  unfold in_bounds. destruct (N.ltb_spec l off); cbn; [split; [discriminate|lia]|].
  destruct (N.ltb_spec (l - off) len); cbn; split; auto; try lia; discriminate.
Qed.

Lemma try_subtendril_ok s fr f t off len : HInv s (t :: fr) ->
  wp (try_subtendril f t off len) s
     (fun ts s' ev => post2 s fr (view s t) (slice (view s t) off len) ts s' ev /\
                      in_bounds (tlen t) off len = true /\ vsubseq f (slice (view s t) off len) = true)
     (fun e => (e = 1 /\ in_bounds (tlen t) off len = false) \/
               (e = 2 /\ in_bounds (tlen t) off len = true /\ vsubseq f (slice (view s t) off len) = false)).
Proof.
  intros HI. unfold try_subtendril. unfold in_bounds at 1 2 3.
  destruct ((tlen t <? off) || (tlen t - off <? len)) eqn:B; cbn [negb].
  - apply wp_err. auto.
  - assert (Hb : off + len <= tlen t) by (apply in_bounds_spec; unfold in_bounds; now rewrite B).
    step ltac:(apply bytes_of_ok with (ts := t :: fr); [exact HI|now left]).
    intros x s1 e1 [-> [-> T1]].
    destruct (vsubseq f (slice (view s t) off len)) eqn:V; cbn [negb].
    + eapply wp_conseq; [apply unsafe_subtendril_ok; eauto|].
      intros ts s' ev [H1 [H2 [H3 [H4 [H5 H6]]]]]. split; [|auto].
      split; [exact H1|]. split; [exact H2|]. split; [eapply trace_trans; eauto|]. auto.
    + apply wp_err. auto.
Qed.

(* ---------------------------------------------------------------- pop_front / pop_back *)
Lemma unsafe_pop_front_ok s fr t n E : HInv s (t :: fr) -> n <= tlen t ->
  wp (unsafe_pop_front t n) s (post1 s fr (slice (view s t) n (tlen t - n))) E.
Proof.
  intros HI Hn. pose proof (HInv_head _ _ _ HI) as W. pose proof (view_len _ _ W) as Hlen.
  unfold unsafe_pop_front. destruct (N.leb_spec (tlen t - n) MAX_INLINE_LEN) as [Hs|Hs].
  - step ltac:(apply bytes_of_ok with (ts := t :: fr); [exact HI|now left]).
    intros x s1 e1 [-> [-> T1]].
    step ltac:(apply drop_ok; exact HI).
    intros _ s2 e2 [HI2 [F2 [T2 N2]]]. apply wp_ret.
    split; [apply HInv_inline; auto; rewrite llen_slice; lia|].
    split; [exact F2|]. split; [eapply trace_trans; [exact T1|]; rewrite app_nil_r; exact T2|].
    split; [reflexivity|lia].
  - step ltac:(apply mbs_ok; [exact HI|apply (inline_short s); [exact W|lia]]).
    intros t1 s1 e1 [id [o [-> [Ht [Ho [HI1 [V1 [T1 [Vt [N1 ->]]]]]]]]]]. apply wp_ret.
    pose proof (HInv_head _ _ _ HI1) as W1.
    assert (HI2 : HInv s1 (Shared id (o + n) (tlen t - n) :: fr)).
    { eapply HInv_reslice; [exact HI1|]. intros b Hbb.
      destruct W1 as [b' [Hb' Hl']]. rewrite Hbb in Hb'. injection Hb' as <-. lia. }
    split; [exact HI2|]. split; [intros u _; apply V1|]. split; [rewrite app_nil_r; exact T1|].
    split; [|lia]. rewrite (view_sub s1 id o (tlen t) (o + n) n (tlen t - n)); auto; [|lia].
    rewrite Vt. reflexivity.
Qed.

Lemma unsafe_pop_back_ok s fr t n E : HInv s (t :: fr) -> n <= tlen t ->
  wp (unsafe_pop_back t n) s (post1 s fr (slice (view s t) 0 (tlen t - n))) E.
Proof.
  intros HI Hn. pose proof (HInv_head _ _ _ HI) as W. pose proof (view_len _ _ W) as Hlen.
  unfold unsafe_pop_back. destruct (N.leb_spec (tlen t - n) MAX_INLINE_LEN) as [Hs|Hs].
  - step ltac:(apply bytes_of_ok with (ts := t :: fr); [exact HI|now left]).
    intros x s1 e1 [-> [-> T1]].
    step ltac:(apply drop_ok; exact HI).
    intros _ s2 e2 [HI2 [F2 [T2 N2]]]. apply wp_ret.
    split; [apply HInv_inline; auto; rewrite llen_slice; lia|].
    split; [exact F2|]. split; [eapply trace_trans; [exact T1|]; rewrite app_nil_r; exact T2|].
    split; [reflexivity|lia].
  - step ltac:(apply mbs_ok; [exact HI|apply (inline_short s); [exact W|lia]]).
    intros t1 s1 e1 [id [o [-> [Ht [Ho [HI1 [V1 [T1 [Vt [N1 ->]]]]]]]]]]. apply wp_ret.
    pose proof (HInv_head _ _ _ HI1) as W1.
    assert (HI2 : HInv s1 (Shared id o (tlen t - n) :: fr)).
    { eapply HInv_reslice; [exact HI1|]. intros b Hbb.
      destruct W1 as [b' [Hb' Hl']]. rewrite Hbb in Hb'. injection Hb' as <-. lia. }
    split; [exact HI2|]. split; [intros u _; apply V1|]. split; [rewrite app_nil_r; exact T1|].
    split; [|lia]. rewrite (view_sub s1 id o (tlen t) o 0 (tlen t - n)); auto; [|lia|lia].
    rewrite Vt. reflexivity.
Qed.

Lemma try_pop_front_ok s fr f t n : HInv s (t :: fr) ->
  wp (try_pop_front f t n) s
     (fun t' s' ev => post1 s fr (slice (view s t) n (tlen t - n)) t' s' ev /\
                      (n = 0 \/ (n <= tlen t /\ vsuffix f (slice (view s t) n (tlen t - n)) = true)))
     (fun e => n <> 0 /\ ((e = 1 /\ tlen t < n) \/
               (e = 2 /\ n <= tlen t /\ vsuffix f (slice (view s t) n (tlen t - n)) = false))).
Proof.
  intros HI. pose proof (view_len _ _ (HInv_head _ _ _ HI)) as Hlen.
  unfold try_pop_front. destruct (N.eqb_spec n 0) as [->|Hn0].
  - apply wp_ret. split; [|auto]. split; [exact HI|]. split; [apply frame_refl|].
    split; [apply trace_refl|]. split; [|lia]. rewrite N.sub_0_r, <- Hlen. symmetry. apply slice_full.
  - destruct (N.ltb_spec (tlen t) n) as [Hlt|Hge]; [apply wp_err; auto|].
    step ltac:(apply bytes_of_ok with (ts := t :: fr); [exact HI|now left]).
    intros x s1 e1 [-> [-> T1]].
    destruct (vsuffix f (slice (view s t) n (tlen t - n))) eqn:V; cbn [negb]; [|apply wp_err; auto].
    eapply wp_conseq; [apply unsafe_pop_front_ok; eauto|].
    intros t' s' ev [H1 [H2 [H3 [H4 H5]]]]. split; [|auto].
    split; [exact H1|]. split; [exact H2|]. split; [eapply trace_trans; eauto|]. auto.
Qed.

Lemma try_pop_back_ok s fr f t n : HInv s (t :: fr) ->
  wp (try_pop_back f t n) s
     (fun t' s' ev => post1 s fr (slice (view s t) 0 (tlen t - n)) t' s' ev /\
                      (n = 0 \/ (n <= tlen t /\ vprefix f (slice (view s t) 0 (tlen t - n)) = true)))
     (fun e => n <> 0 /\ ((e = 1 /\ tlen t < n) \/
               (e = 2 /\ n <= tlen t /\ vprefix f (slice (view s t) 0 (tlen t - n)) = false))).
Proof.
  intros HI. pose proof (view_len _ _ (HInv_head _ _ _ HI)) as Hlen.
  unfold try_pop_back. destruct (N.eqb_spec n 0) as [->|Hn0].
  - apply wp_ret. split; [|auto]. split; [exact HI|]. split; [apply frame_refl|].
    split; [apply trace_refl|]. split; [|lia]. rewrite N.sub_0_r, <- Hlen. symmetry. apply slice_full.
  - destruct (N.ltb_spec (tlen t) n) as [Hlt|Hge]; [apply wp_err; auto|].
    step ltac:(apply bytes_of_ok with (ts := t :: fr); [exact HI|now left]).
    intros x s1 e1 [-> [-> T1]].
    destruct (vprefix f (slice (view s t) 0 (tlen t - n))) eqn:V; cbn [negb]; [|apply wp_err; auto].
    eapply wp_conseq; [apply unsafe_pop_back_ok; eauto|].
    intros t' s' ev [H1 [H2 [H3 [H4 H5]]]]. split; [|auto].
    split; [exact H1|]. split; [exact H2|]. split; [eapply trace_trans; eauto|]. auto.
Qed.

(* ---------------------------------------------------------------- clear / clone *)
Lemma clear_ok s fr t E : HInv s (t :: fr) -> wp (clear t) s (post1 s fr []) E.
Proof.
  intros HI. destruct t as [bs|id len c|id off len]; cbn [clear].
  - apply wp_ret. split; [apply HInv_inline; [cbn; lia|eapply HInv_uninline; eauto]|].
    split; [apply frame_refl|]. split; [apply trace_refl|]. split; [reflexivity|lia].
  - apply wp_ret.
    split; [eapply HInv_owned_len; [exact HI|]; intros; lia|].
    split; [apply frame_refl|]. split; [apply trace_refl|]. split; [|lia].
    cbn [view]. destruct (hp s id); reflexivity.
  - step ltac:(apply drop_ok; exact HI).
    intros _ s2 e2 [HI2 [F2 [T2 N2]]]. apply wp_ret.
    split; [apply HInv_inline; [cbn; lia|exact HI2]|].
    split; [exact F2|]. split; [rewrite app_nil_r; exact T2|]. split; [reflexivity|lia].
Qed.

Lemma clone_ok s fr t E : HInv s (t :: fr) ->
  wp (clone t) s (post2 s fr (view s t) (view s t)) E.
Proof.
  intros HI. pose proof (HInv_head _ _ _ HI) as W.
  assert (Hgen : tid t <> None ->
    wp (t1 <- make_buf_shared t ;;
        match t1 with Shared id _ _ => incref id ;;; ret (t1, t1) | _ => ub 16 end) s
       (post2 s fr (view s t) (view s t)) E).
  { intros Ht. step ltac:(apply mbs_ok; [exact HI|exact Ht]).
    intros t1 s1 e1 [id [o [-> [Ht' [Ho [HI1 [V1 [T1 [Vt [N1 ->]]]]]]]]]].
    pose proof (HInv_head _ _ _ HI1) as W1.
    step ltac:(apply incref_ok with (o2 := o) (l2 := tlen t); [exact HI1|]).
    { intros b Hbb. destruct W1 as [b' [Hb' Hl']]. rewrite Hbb in Hb'. injection Hb' as <-. lia. }
    intros _ s2 e2 [HI2 [V2 [T2 [N2 ->]]]]. apply wp_ret. split; cbn [fst snd]; [exact HI2|].
    split; [intros u _; rewrite V2, V1; reflexivity|].
    split; [eapply trace_trans; [exact T1|exact T2]|].
    split; [rewrite V2; exact Vt|]. split; [rewrite V2; exact Vt|lia]. }
  destruct t as [bs|id len c|id off len]; cbn [clone].
  - apply wp_ret. split; cbn [fst snd].
    { apply HInv_inline; [exact W|exact HI]. }
    split; [apply frame_refl|]. split; [apply trace_refl|]. repeat split; lia.
  - apply Hgen. discriminate.
  - apply Hgen. discriminate.
Qed.

(* ---------------------------------------------------------------- push_tendril *)
Lemma pushed_none f (a b : list N) : fixup_none (fixup f a b) = true -> pushed f a b = a ++ b.
Proof.
  unfold pushed, fixup_none. destruct (fixup f a b) as [[dl dr] ins]. intros H.
  apply andb_true_iff in H. destruct H as [H H3]. apply andb_true_iff in H. destruct H as [H1 H2].
  apply N.eqb_eq in H1, H2, H3. subst dl dr. destruct ins; [|rewrite llen_cons in H3; lia].
  rewrite N.sub_0_r. cbn [N.to_nat skipn app]. unfold llen. rewrite Nat2N.id, firstn_all. reflexivity.
Qed.

Lemma push_tendril_ok s fr f t o E : HInv s (t :: fr) -> In o fr ->
  wp (push_tendril f t o) s (post1 s fr (pushed f (view s t) (view s o))) E.
Proof.
  intros HI Ho. unfold push_tendril. destruct (MAXU32 <? tlen t + tlen o); [exact I|].
  assert (Hgen : wp (x <- bytes_of o ;; push_bytes_wv f t x) s
                    (post1 s fr (pushed f (view s t) (view s o))) E).
  { step ltac:(apply bytes_of_ok with (ts := t :: fr); [exact HI|now right]).
    intros x s1 e1 [-> [-> T1]].
    eapply wp_conseq; [apply push_bytes_wv_ok; exact HI|].
    intros t' s' ev [H1 [H2 [H3 [H4 H5]]]].
    split; [exact H1|]. split; [exact H2|]. split; [eapply trace_trans; eauto|]. split; auto. }
  destruct t as [bs|i len c|i ot lt]; try exact Hgen.
  destruct o as [bs|j len c|j oo lo]; try exact Hgen.
  destruct ((i =? j) && (oo =? ot + lt)) eqn:Hm; [|exact Hgen].
  apply andb_true_iff in Hm. destruct Hm as [Hi Hoo]. apply N.eqb_eq in Hi, Hoo. subst j oo.
  step ltac:(apply bytes_of_ok with (ts := Shared i ot lt :: fr); [exact HI|now left]).
  intros x s1 e1 [-> [-> T1]].
  step ltac:(apply bytes_of_ok with (ts := Shared i ot lt :: fr); [exact HI|now right]).
  intros y s2 e2 [-> [-> T2]].
  destruct (fixup_none (fixup f (view s (Shared i ot lt)) (view s (Shared i (ot + lt) lo)))) eqn:Hf.
  - apply wp_ret. cbn [tlen].
    pose proof (HInv_tail_wf _ _ _ _ HI Ho) as [bo [Hbo Hlo]].
    split.
    { eapply HInv_reslice; [exact HI|]. intros b Hb. rewrite Hb in Hbo. injection Hbo as <-. lia. }
    split; [apply frame_refl|].
    split; [eapply trace_trans; [exact T1|]; rewrite app_nil_r; exact T2|]. split; [|lia].
    rewrite (pushed_none _ _ _ Hf). cbn [view]. rewrite Hbo. apply slice_adj.
  - eapply wp_conseq; [apply push_bytes_wv_ok; exact HI|].
    intros t' s' ev [H1 [H2 [H3 [H4 H5]]]].
    split; [exact H1|]. split; [exact H2|].
    split; [eapply trace_trans; [exact T1|]; eapply trace_trans; [exact T2|exact H3]|]. split; auto.
Qed.

(* ---------------------------------------------------------------- char operations *)
Lemma pop_front_char_ok s fr f t E : HInv s (t :: fr) ->
  is_charfmt f = true -> fvalid_inv f (view s t) = true ->
  wp (pop_front_char f t) s
     (fun tc s' ev => match spop_char f (view s t) with
                      | Some (c, r) => snd tc = Some c /\ post1 s fr r (fst tc) s' ev
                      | None => snd tc = None /\ post1 s fr [] (fst tc) s' ev
                      end) E.
Proof.
  intros HI Hf Hv. pose proof (view_len _ _ (HInv_head _ _ _ HI)) as Hlen.
  unfold pop_front_char.
  step ltac:(apply bytes_of_ok with (ts := t :: fr); [exact HI|now left]).
  intros x s1 e1 [-> [-> T1]].
  pose proof (first_char_ok f (view s t) Hf Hv) as FC. unfold spop_char.
  destruct (first_char f (view s t)) as [[[c w]|]|]; [|contradiction|].
  - destruct FC as [H1 [H2 [H3 H4]]]. destruct (N.eqb_spec (llen (view s t)) w) as [Hw|Hw].
    + step ltac:(apply clear_ok; exact HI).
      intros t' s2 e2 [A1 [A2 [A3 [A4 A5]]]]. apply wp_ret. cbn [fst snd]. split; [reflexivity|].
      replace (skipn (N.to_nat w) (view s t)) with (@nil N)
        by (symmetry; apply skipn_all2; unfold llen in Hw; lia).
      split; [exact A1|]. split; [exact A2|].
      split; [eapply trace_trans; [exact T1|]; rewrite app_nil_r; exact A3|]. auto.
    + step ltac:(apply unsafe_pop_front_ok; [exact HI|lia]).
      intros t' s2 e2 [A1 [A2 [A3 [A4 A5]]]]. apply wp_ret. cbn [fst snd]. split; [reflexivity|].
      split; [exact A1|]. split; [exact A2|].
      split; [eapply trace_trans; [exact T1|]; rewrite app_nil_r; exact A3|].
      split; [|exact A5]. rewrite A4, <- Hlen. apply slice_to_end.
  - step ltac:(apply clear_ok; exact HI).
    intros t' s2 e2 [A1 [A2 [A3 [A4 A5]]]]. apply wp_ret. cbn [fst snd]. split; [reflexivity|].
    split; [exact A1|]. split; [exact A2|].
    split; [eapply trace_trans; [exact T1|]; rewrite app_nil_r; exact A3|]. auto.
Qed.

Lemma pop_front_char_run_ok s fr f t kind m E : HInv s (t :: fr) ->
  is_charfmt f = true -> fvalid_inv f (view s t) = true ->
  wp (pop_front_char_run f t kind m) s
     (fun r s' ev =>
        let x := view s t in
        match srun f kind m x with
        | Some (idx, class) =>
          exists sub, snd r = Some (sub, class) /\ idx <= llen x /\
            HInv s' (fst r :: sub :: fr) /\ frame s s' fr /\ trace_ok s ev s' /\ nxt s <= nxt s' /\
            view s' (fst r) = slice x idx (llen x - idx) /\ view s' sub = slice x 0 idx /\
            fvalid_inv f (slice x idx (llen x - idx)) = true /\ fvalid_inv f (slice x 0 idx) = true
        | None => snd r = None /\ fst r = t /\ s' = s /\ trace_ok s ev s'
        end) E.
Proof.
  intros HI Hf Hv. pose proof (HInv_head _ _ _ HI) as W. pose proof (view_len _ _ W) as Hlen.
  unfold pop_front_char_run.
  step ltac:(apply bytes_of_ok with (ts := t :: fr); [exact HI|now left]).
  intros x s1 e1 [-> [-> T1]]. cbv zeta.
  pose proof (first_char_ok f (view s t) Hf Hv) as FC. unfold srun.
  destruct (first_char f (view s t)) as [[[c w]|]|]; [|contradiction|].
  2:{ apply wp_ret. cbn [fst snd]. rewrite app_nil_r. auto. }
  destruct FC as [H1 [H2 [H3 H4]]].
  destruct (find_mismatch_gen f kind m (classify_char kind m c) (length (view s t))
              (skipn (N.to_nat w) (view s t)) w Hf H4) as [res [Hres Hm]].
  { rewrite skipn_length. lia. }
  rewrite Hres. destruct res as [idx|].
  - destruct Hm as [j [-> [Hj [Hp Hs]]]].
    rewrite skipn_length in Hj.
    assert (Hidx : w + N.of_nat j <= tlen t) by (rewrite <- Hlen; unfold llen in *; lia).
    step ltac:(apply unsafe_subtendril_ok with (off := 0) (len := w + N.of_nat j); [exact HI|lia]).
    intros [t1 sub] s2 e2 [B1 [B2 [B3 [B4 [B5 B6]]]]]. cbn [fst snd] in *.
    assert (Ht1 : tlen t1 = tlen t).
    { rewrite <- (view_len s2 t1), B4; [exact Hlen|]. eapply HInv_head; exact B1. }
    step ltac:(apply unsafe_pop_front_ok with (n := w + N.of_nat j); [exact B1|lia]).
    intros t2 s3 e3 [C1 [C2 [C3 [C4 C5]]]]. apply wp_ret. cbn [fst snd].
    exists sub. split; [reflexivity|]. split; [rewrite Hlen; exact Hidx|].
    split; [exact C1|].
    split; [eapply frame_trans; [exact B2|]; eapply frame_sub; [|exact C2]; intros u Hu; now right|].
    split; [eapply trace_trans; [exact T1|]; eapply trace_trans; [exact B3|]; rewrite app_nil_r; exact C3|].
    split; [lia|]. split; [rewrite C4, B4, Ht1, Hlen; reflexivity|].
    split; [rewrite (C2 sub (or_introl eq_refl)); exact B5|].
    assert (E1 : N.to_nat (w + N.of_nat j) = (N.to_nat w + j)%nat) by lia.
    split.
    + rewrite slice_to_end, E1, <- skipn_add. exact Hs.
    + rewrite slice_0, E1.
      rewrite <- (firstn_skipn (N.to_nat w) (firstn (N.to_nat w + j) (view s t))).
      rewrite firstn_firstn, skipn_firstn_comm.
      replace (Nat.min (N.to_nat w) (N.to_nat w + j)) with (N.to_nat w) by lia.
      replace (N.to_nat w + j - N.to_nat w)%nat with j by lia.
      destruct f; try discriminate; try reflexivity.
      * apply uvalid_app; assumption.
      * cbn [fvalid_inv fvalid] in *. rewrite forallb_app, H3, Hp. reflexivity.
  - step ltac:(apply clone_ok; exact HI).
    intros [t1 cl] s2 e2 [B1 [B2 [B3 [B4 [B5 B6]]]]]. cbn [fst snd] in *.
    step ltac:(apply clear_ok; exact B1).
    intros t2 s3 e3 [C1 [C2 [C3 [C4 C5]]]]. apply wp_ret. cbn [fst snd].
    exists cl. split; [reflexivity|]. split; [lia|]. split; [exact C1|].
    split; [eapply frame_trans; [exact B2|]; eapply frame_sub; [|exact C2]; intros u Hu; now right|].
    split; [eapply trace_trans; [exact T1|]; eapply trace_trans; [exact B3|]; rewrite app_nil_r; exact C3|].
    split; [lia|]. rewrite N.sub_diag, slice_nil, slice_full.
    split; [exact C4|]. split; [rewrite (C2 cl (or_introl eq_refl)); exact B5|].
    split; [apply fvalid_inv_nil|exact Hv].
Qed.

Lemma try_push_char_ok s fr f t c : HInv s (t :: fr) ->
  wp (try_push_char f t c) s
     (fun t' s' ev => exists e, encode_char f c = Some e /\ post1 s fr (pushed f (view s t) e) t' s' ev)
     (fun e => e = 0 /\ encode_char f c = None).
Proof.
  intros HI. unfold try_push_char. destruct (encode_char f c) as [e|].
  - eapply wp_conseq; [apply push_bytes_wv_ok; exact HI|]. intros; eauto.
  - apply wp_err. auto.
Qed.

(* ---------------------------------------------------------------- writes through deref_mut *)
Lemma overwrite_ok s fr t g E : HInv s (t :: fr) -> llen (g (view s t)) = llen (view s t) ->
  wp (overwrite t g) s (post1 s fr (g (view s t))) E.
Proof.
  intros HI Hg. pose proof (HInv_head _ _ _ HI) as W. pose proof (view_len _ _ W) as Hlen.
  unfold overwrite.
  assert (Hown : forall s1 id len c e1, HInv s1 (Owned id len c :: fr) -> frame s s1 fr -> trace_ok s e1 s1 ->
            view s1 (Owned id len c) = view s t -> nxt s <= nxt s1 ->
            wp (x <- bytes_of (Owned id len c) ;; write_at id 0 (g x) ;;; ret (Owned id len c)) s1
               (fun t' s' ev => post1 s fr (g (view s t)) t' s' (e1 ++ ev)) E).
  { intros s1 id len c e1 HI1 F1 T1 V1 N1.
    pose proof (view_len _ _ (HInv_head _ _ _ HI1)) as Hl1. cbn [tlen] in Hl1.
    rewrite V1 in Hl1.
    destruct (owned_alone _ _ _ _ _ HI1) as [b [Hb [Hc [Hl [Hd _]]]]].
    step ltac:(apply bytes_of_ok with (ts := Owned id len c :: fr); [exact HI1|now left]).
    intros x s2 e2 [-> [-> T2]]. rewrite V1.
    step ltac:(apply write_ok with (len := len) (pos := 0); [exact HI1|lia|rewrite Hg, Hl1; lia]).
    intros _ s3 e3 [C1 [C2 [C3 [C4 C5]]]]. apply wp_ret.
    rewrite Hg, Hl1, N.add_0_l in C1, C4.
    split; [exact C1|]. split; [eapply frame_trans; eauto|].
    split; [eapply trace_trans; [exact T1|]; eapply trace_trans; [exact T2|]; rewrite app_nil_r; exact C3|].
    split; [|lia]. rewrite C4. reflexivity. }
  destruct t as [bs|id len c|id off len].
  - cbn [as_mut]. step ltac:(apply wp_ret with (Q := fun a s' ev => a = Inline bs /\ s' = s /\ ev = []); auto).
    intros t1 s1 e1 [-> [-> ->]]. apply wp_ret.
    split; [apply HInv_inline; [cbn [view] in Hg; rewrite Hg; exact W|eapply HInv_uninline; eauto]|].
    split; [apply frame_refl|]. split; [apply trace_refl|]. split; [reflexivity|lia].
  - cbn [as_mut make_owned].
    step ltac:(apply wp_ret with (Q := fun a s' ev => a = Owned id len c /\ s' = s /\ ev = []); auto).
    intros t1 s1 e1 [-> [-> ->]].
    eapply wp_conseq; [apply (Hown s id len c []); auto|].
    + apply frame_refl.
    + apply trace_refl.
    + lia.
    + intros a s' ev H. exact H.
  - cbn [as_mut].
    step ltac:(apply make_owned_ok; exact HI).
    intros t1 s1 e1 [[A1 [A2 [A3 [A4 A5]]]] [id1 [c1 ->]]].
    eapply wp_conseq; [apply (Hown s1 id1 _ c1 e1); auto|].
    intros a s' ev H. exact H.
Qed.

Lemma extend_ok s fr t n b E : HInv s (t :: fr) ->
  wp (extend_with_byte t n b) s (post1 s fr (view s t ++ repeat b (N.to_nat n))) E.
Proof.
  intros HI. pose proof (HInv_head _ _ _ HI) as W. pose proof (view_len _ _ W) as Hlen.
  unfold extend_with_byte. destruct (MAXU32 <? tlen t + n); [exact I|].
  assert (Hgen : forall k, wp (t1 <- make_owned_with_capacity t (tlen t + n) ;;
                     match t1 with
                     | Owned id len c => write_at id len (repeat b (N.to_nat n)) ;;; ret (Owned id (tlen t + n) c)
                     | _ => ub k
                     end) s (post1 s fr (view s t ++ repeat b (N.to_nat n))) E).
  { intros k. step ltac:(apply mowc_ok; exact HI).
    intros t1 s2 e2 [[HI2 [F2 [T2 [V2 N2]]]] [id [c [-> Hc]]]].
    step ltac:(apply write_ok with (len := tlen t); [exact HI2|lia|rewrite llen_repeat; lia]).
    intros _ s3 e3 [HI3 [F3 [T3 [V3 N3]]]]. apply wp_ret.
    rewrite llen_repeat, N2Nat.id in HI3, V3.
    split; [exact HI3|]. split; [eapply frame_trans; eauto|].
    split; [eapply trace_trans; [exact T2|]; rewrite app_nil_r; exact T3|].
    split; [|lia]. rewrite V3, V2. f_equal. apply firstn_N_all. lia. }
  destruct t as [bs|id len c|id off len].
  - cbn [tlen] in *. destruct (N.leb_spec (llen bs + n) MAX_INLINE_LEN).
    + apply wp_ret. split; [apply HInv_inline; [rewrite llen_app, llen_repeat; lia|eapply HInv_uninline; eauto]|].
      split; [apply frame_refl|]. split; [apply trace_refl|]. split; [reflexivity|lia].
    + apply Hgen.
  - apply Hgen.
  - apply Hgen.
Qed.

Lemma reserve_ok s fr t n E : HInv s (t :: fr) -> wp (reserve t n) s (post1 s fr (view s t)) E.
Proof.
  intros HI. unfold reserve.
  assert (Hid : wp (ret t) s (post1 s fr (view s t)) E).
  { apply wp_ret. split; [exact HI|]. split; [apply frame_refl|]. split; [apply trace_refl|]. split; [reflexivity|lia]. }
  destruct (is_shared t); [exact Hid|].
  destruct (MAXU32 <? tlen t + n); [exact I|].
  destruct (MAX_INLINE_LEN <? tlen t + n); [|exact Hid].
  eapply wp_conseq; [apply mowc_ok; exact HI|]. intros a s' ev [H _]. exact H.
Qed.

Lemma t_with_capacity_ok s fr n E : HInv s fr -> wp (t_with_capacity n) s (post1 s fr []) E.
Proof.
  intros HI. unfold t_with_capacity.
  assert (HI0 : HInv s (Inline [] :: fr)) by (apply HInv_inline; [cbn; lia|exact HI]).
  destruct (MAX_INLINE_LEN <? n).
  - eapply wp_conseq; [apply mowc_ok; exact HI0|]. intros a s' ev [H _]. exact H.
  - apply wp_ret. split; [exact HI0|]. split; [apply frame_refl|]. split; [apply trace_refl|]. split; [reflexivity|lia].
Qed.

Lemma into_send_ok s fr t E : HInv s (t :: fr) -> wp (into_send t) s (post1 s fr (view s t)) E.
Proof.
  intros HI. unfold into_send. eapply wp_conseq; [apply make_owned_ok; exact HI|].
  intros a s' ev [H _]. exact H.
Qed.
