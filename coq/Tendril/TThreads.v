(* C12, threads: clone / drop of atomic tendrils as atomic read-modify-write
   steps on the shared header counter, the free as a separate later step of the
   thread whose fetch_sub returned 1, and ownership transfer of a tendril /
   SendTendril between threads.  Any interleaving (= any list of steps, each
   taken by any thread) is covered.

   What is modelled: sequentially consistent atomic steps.  What is NOT
   modelled: the C11 memory orderings used by the code (fetch_add Relaxed,
   fetch_sub Release, fence Acquire before destroy), the hardware, and the
   byte contents (a thread only reads bytes of a buffer it holds a handle on;
   writes happen only on buffers with a single handle, see TProofs.v). *)
From Coq Require Import List NArith Bool Lia Arith.
Import ListNotations.
Local Open Scope N_scope.

Notation bufid := N (only parsing).
(* a handle = one tendril (or SendTendril) naming a heap buffer, tagged with the
   thread that owns it; threads own disjoint sets of handles *)
Definition handle := (nat * bufid)%type.
Definition heqb (a b : handle) : bool := Nat.eqb (fst a) (fst b) && N.eqb (snd a) (snd b).

Fixpoint hin (x : handle) (l : list handle) : bool :=
  match l with [] => false | y :: r => heqb x y || hin x r end.
Fixpoint remove1 (x : handle) (l : list handle) : list handle :=
  match l with [] => [] | y :: r => if heqb x y then r else y :: remove1 x r end.
(* number of handles on a buffer *)
Definition cid (id : bufid) (l : list handle) : nat :=
  length (filter (fun h => snd h =? id) l).

Record cstate := mkC {
  cnt : bufid -> option N;     (* Header.refcount of every live buffer *)
  hs : list handle;            (* all tendrils of all threads *)
  pend : list handle;          (* (thread, buffer): its fetch_sub returned 1, destroy not yet run *)
  cnext : bufid }.

Definition upd (m : bufid -> option N) (id : bufid) (v : option N) : bufid -> option N :=
  fun j => if j =? id then v else m j.

Inductive cstepk :=
| KAlloc (i : nat)                 (* thread i builds a new owned tendril (from_slice, owned_copy in make_owned) *)
| KClone (i : nat) (id : bufid)    (* refcount.fetch_add(1); the new tendril belongs to thread i *)
| KRead (i : nat) (id : bufid)     (* thread i reads the bytes / header of a buffer through its tendril *)
| KDec (i : nat) (id : bufid)      (* Drop: refcount.fetch_sub(1); the tendril is gone *)
| KFree (i : nat) (id : bufid)     (* ... and if that returned 1: fence; buf.destroy() *)
| KMove (i j : nat) (id : bufid).  (* a tendril / SendTendril moves from thread i to thread j *)

Inductive cres := Enabled (c : cstate) | NotEnabled | Violation.

Definition cstep (c : cstate) (k : cstepk) : cres :=
  match k with
  | KAlloc i =>
    Enabled (mkC (upd (cnt c) (cnext c) (Some 1)) ((i, cnext c) :: hs c) (pend c) (cnext c + 1))
  | KClone i id =>
    if hin (i, id) (hs c) then
      match cnt c id with
      | Some n => if n =? 0 then Violation
                  else Enabled (mkC (upd (cnt c) id (Some (n + 1))) ((i, id) :: hs c) (pend c) (cnext c))
      | None => Violation                      (* use after free *)
      end
    else NotEnabled
  | KRead i id =>
    if hin (i, id) (hs c) then
      match cnt c id with
      | Some n => if n =? 0 then Violation else Enabled c
      | None => Violation
      end
    else NotEnabled
  | KDec i id =>
    if hin (i, id) (hs c) then
      match cnt c id with
      | Some n =>
        if n =? 0 then Violation                (* counter underflow *)
        else Enabled (mkC (upd (cnt c) id (Some (n - 1))) (remove1 (i, id) (hs c))
                          (if n =? 1 then (i, id) :: pend c else pend c) (cnext c))
      | None => Violation
      end
    else NotEnabled
  | KFree i id =>
    if hin (i, id) (pend c) then
      match cnt c id with
      | Some _ => Enabled (mkC (upd (cnt c) id None) (hs c) (remove1 (i, id) (pend c)) (cnext c))
      | None => Violation                      (* double free *)
      end
    else NotEnabled
  | KMove i j id =>
    if hin (i, id) (hs c) then Enabled (mkC (cnt c) ((j, id) :: remove1 (i, id) (hs c)) (pend c) (cnext c))
    else NotEnabled
  end.

(* a schedule: steps that are not enabled are skipped *)
Fixpoint crun (c : cstate) (sched : list cstepk) : option (cstate * list bufid) :=
  match sched with
  | [] => Some (c, [])
  | k :: r =>
    match cstep c k with
    | Violation => None
    | NotEnabled => crun c r
    | Enabled c' =>
      match crun c' r with
      | Some (c2, fr) => Some (c2, match k with KFree _ id => id :: fr | _ => fr end)
      | None => None
      end
    end
  end.

Definition c0 : cstate := mkC (fun _ => None) [] [] 0.

(* the refcount invariant *)
Definition CInv (c : cstate) : Prop :=
  forall id,
    match cnt c id with
    | Some n => id < cnext c /\ n = N.of_nat (cid id (hs c)) /\
                ((n = 0 /\ cid id (pend c) = 1%nat) \/ (0 < n /\ cid id (pend c) = 0%nat))
    | None => cid id (hs c) = 0%nat /\ cid id (pend c) = 0%nat
    end.

Lemma heqb_eq a b : heqb a b = true <-> a = b.
Proof.
  destruct a as [i x], b as [j y]. unfold heqb. cbn. rewrite andb_true_iff, Nat.eqb_eq, N.eqb_eq.
  split; [intros [-> ->]; reflexivity|intros [= -> ->]; auto].
Qed.

Lemma cid_cons id h l : cid id (h :: l) = ((if N.eqb (snd h) id then 1 else 0) + cid id l)%nat.
Proof. unfold cid. cbn [filter]. cbv beta. destruct (N.eqb (snd h) id); reflexivity. Qed.

Lemma cid_remove1 id h l : hin h l = true ->
  (cid id (remove1 h l) + (if N.eqb (snd h) id then 1 else 0) = cid id l)%nat.
Proof.
  induction l as [|y r IH]; [discriminate|]. cbn [hin remove1]. intros H.
  destruct (heqb h y) eqn:E.
  - apply heqb_eq in E. subst y. rewrite cid_cons. lia.
  - cbn in H. rewrite !cid_cons. specialize (IH H). lia.
Qed.

Lemma hin_cid h l : hin h l = true -> (0 < cid (snd h) l)%nat.
Proof.
  intros H. pose proof (cid_remove1 (snd h) h l H) as E. rewrite N.eqb_refl in E. lia.
Qed.

(* a thread holding a handle sees a live buffer with a positive count; a thread
   with a pending destroy sees a live buffer: no step is ever a Violation *)
Lemma cstep_safe c k : CInv c -> cstep c k <> Violation.
Proof.
  intros I. destruct k; cbn [cstep]; try discriminate.
  - destruct (hin (i, id) (hs c)) eqn:H; [|discriminate]. apply hin_cid in H. cbn in H.
    specialize (I id). destruct (cnt c id) as [n|]; [|lia].
    destruct I as [_ [-> _]]. destruct (N.eqb_spec (N.of_nat (cid id (hs c))) 0); [lia|discriminate].
  - destruct (hin (i, id) (hs c)) eqn:H; [|discriminate]. apply hin_cid in H. cbn in H.
    specialize (I id). destruct (cnt c id) as [n|]; [|lia].
    destruct I as [_ [-> _]]. destruct (N.eqb_spec (N.of_nat (cid id (hs c))) 0); [lia|discriminate].
  - destruct (hin (i, id) (hs c)) eqn:H; [|discriminate]. apply hin_cid in H. cbn in H.
    specialize (I id). destruct (cnt c id) as [n|]; [|lia].
    destruct I as [_ [-> _]]. destruct (N.eqb_spec (N.of_nat (cid id (hs c))) 0); [lia|discriminate].
  - destruct (hin (i, id) (pend c)) eqn:H; [|discriminate]. apply hin_cid in H. cbn in H.
    specialize (I id). destruct (cnt c id) as [n|]; [discriminate|lia].
  - destruct (hin (i, id) (hs c)); discriminate.
Qed.

Lemma cstep_inv c k c' : CInv c -> cstep c k = Enabled c' -> CInv c' /\ cnext c <= cnext c'.
Proof.
  intros I H. destruct k; cbn [cstep] in H.
  - injection H as <-. split; [|cbn; lia]. intros id. cbn [cnt hs pend cnext]. unfold upd.
    rewrite cid_cons. cbn [snd].
    destruct (N.eqb_spec id (cnext c)) as [->|Hne].
    + rewrite N.eqb_refl. specialize (I (cnext c)).
      destruct (cnt c (cnext c)) as [n|]; [destruct I; lia|]. destruct I as [I1 I2].
      split; [lia|]. split; [lia|]. right. lia.
    + destruct (N.eqb_spec (cnext c) id); [congruence|]. specialize (I id).
      destruct (cnt c id); [|exact I]. destruct I as [I1 I2]. split; [lia|exact I2].
  - destruct (hin (i, id) (hs c)) eqn:Hh; [|discriminate].
    destruct (cnt c id) as [n|] eqn:Hc; [|discriminate]. destruct (N.eqb_spec n 0); [discriminate|].
    injection H as <-. split; [|cbn; lia]. intros j. cbn [cnt hs pend cnext]. unfold upd.
    rewrite cid_cons. cbn [snd]. specialize (I j).
    destruct (N.eqb_spec j id) as [->|Hne].
    + rewrite N.eqb_refl, Hc in *. destruct I as [I1 [I2 I3]]. split; [exact I1|]. split; [lia|]. right. lia.
    + destruct (N.eqb_spec id j); [congruence|]. exact I.
  - destruct (hin (i, id) (hs c)); [|discriminate]. destruct (cnt c id) as [n|]; [|discriminate].
    destruct (n =? 0); [discriminate|]. injection H as <-. split; [exact I|lia].
  - destruct (hin (i, id) (hs c)) eqn:Hh; [|discriminate].
    destruct (cnt c id) as [n|] eqn:Hc; [|discriminate]. destruct (N.eqb_spec n 0); [discriminate|].
    injection H as <-. split; [|cbn; lia]. intros j. cbn [cnt hs pend cnext]. unfold upd.
    pose proof (cid_remove1 j (i, id) (hs c) Hh) as R. cbn [snd] in R. specialize (I j).
    destruct (N.eqb_spec j id) as [->|Hne].
    + rewrite N.eqb_refl, Hc in *. destruct I as [I1 [I2 I3]]. split; [exact I1|]. split; [lia|].
      destruct (N.eqb_spec n 1) as [->|H1].
      * left. rewrite cid_cons. cbn [snd]. rewrite N.eqb_refl. lia.
      * right. lia.
    + destruct (N.eqb_spec id j); [congruence|]. rewrite Nat.add_0_r in R. rewrite R.
      destruct (n =? 1); [|exact I]. rewrite cid_cons. cbn [snd]. destruct (N.eqb_spec id j); [congruence|]. exact I.
  - destruct (hin (i, id) (pend c)) eqn:Hh; [|discriminate].
    destruct (cnt c id) as [n|] eqn:Hc; [|discriminate].
    injection H as <-. split; [|cbn; lia]. intros j. cbn [cnt hs pend cnext]. unfold upd.
    pose proof (cid_remove1 j (i, id) (pend c) Hh) as R. cbn [snd] in R. specialize (I j).
    destruct (N.eqb_spec j id) as [->|Hne].
    + rewrite N.eqb_refl, Hc in *. destruct I as [I1 [I2 I3]]. apply hin_cid in Hh. cbn [snd] in Hh. lia.
    + destruct (N.eqb_spec id j); [congruence|]. rewrite Nat.add_0_r in R. rewrite R. exact I.
  - destruct (hin (i, id) (hs c)) eqn:Hh; [|discriminate].
    injection H as <-. split; [|cbn; lia]. intros k. cbn [cnt hs pend cnext].
    pose proof (cid_remove1 k (i, id) (hs c) Hh) as R. cbn [snd] in R. rewrite cid_cons. cbn [snd].
    specialize (I k). destruct (id =? k); [|rewrite Nat.add_0_r in R; rewrite R; exact I].
    replace (1 + cid k (remove1 (i, id) (hs c)))%nat with (cid k (hs c)) by lia. exact I.
Qed.

Lemma CInv_c0 : CInv c0.
Proof. intros id. cbn. auto. Qed.

(* C12_any_interleaving, part 1: no schedule ever reaches a use-after-free, a
   counter underflow or a double free, and the refcount invariant holds at the end *)
Theorem crun_safe : forall sched c, CInv c ->
  exists c' fr, crun c sched = Some (c', fr) /\ CInv c' /\ cnext c <= cnext c'.
Proof.
  induction sched as [|k r IH]; intros c I; cbn [crun].
  - exists c, []. split; [reflexivity|]. split; [exact I|lia].
  - pose proof (cstep_safe c k I) as S. destruct (cstep c k) as [c1| |] eqn:E; [| |congruence].
    + destruct (cstep_inv c k c1 I E) as [I1 N1].
      destruct (IH c1 I1) as [c2 [fr [R [I2 N2]]]]. rewrite R.
      eexists _, _. split; [reflexivity|]. split; [exact I2|lia].
    + apply IH, I.
Qed.

(* a released buffer is never counted, held or pending again *)
Lemma dead_forever : forall sched c c' fr id, CInv c -> cnt c id = None -> id < cnext c ->
  crun c sched = Some (c', fr) -> ~ In id fr /\ cnt c' id = None.
Proof.
  induction sched as [|k r IH]; intros c c' fr id I Hd Hlt H; cbn [crun] in H.
  - injection H as <- <-. auto.
  - destruct (cstep c k) as [c1| |] eqn:E; [| |discriminate].
    + destruct (cstep_inv c k c1 I E) as [I1 N1].
      destruct (crun c1 r) as [[c2 fr2]|] eqn:R; [|discriminate]. injection H as <- <-.
      pose proof (I id) as Iid. rewrite Hd in Iid. destruct Iid as [Z1 Z2].
      assert (Hd1 : cnt c1 id = None /\ match k with KFree _ j => j <> id | _ => True end).
      { destruct k; cbn [cstep] in E.
        - injection E as <-. cbn. unfold upd. destruct (N.eqb_spec id (cnext c)); [lia|auto].
        - destruct (hin (i, id0) (hs c)) eqn:Hh; [|discriminate]. destruct (cnt c id0) eqn:Hc; [|discriminate].
          destruct (n =? 0); [discriminate|]. injection E as <-. cbn. unfold upd.
          destruct (N.eqb_spec id id0); [congruence|auto].
        - destruct (hin (i, id0) (hs c)); [|discriminate]. destruct (cnt c id0); [|discriminate].
          destruct (n =? 0); [discriminate|]. injection E as <-. auto.
        - destruct (hin (i, id0) (hs c)) eqn:Hh; [|discriminate]. destruct (cnt c id0) eqn:Hc; [|discriminate].
          destruct (n =? 0); [discriminate|]. injection E as <-. cbn. unfold upd.
          destruct (N.eqb_spec id id0); [congruence|auto].
        - destruct (hin (i, id0) (pend c)) eqn:Hh; [|discriminate]. destruct (cnt c id0) eqn:Hc; [|discriminate].
          injection E as <-. cbn. unfold upd. destruct (N.eqb_spec id id0); [congruence|]. split; auto.
        - destruct (hin (i, id0) (hs c)); [|discriminate]. injection E as <-. auto. }
      destruct Hd1 as [Hd1 Hk].
      destruct (IH c1 c2 fr2 id I1 Hd1 ltac:(lia) R) as [F1 F2]. split; [|exact F2].
      destruct k; auto. intros [->|Hin]; [congruence|auto].
    + eapply IH; eauto.
Qed.

(* C12_any_interleaving, part 2: in every schedule every buffer is destroyed at most once *)
Theorem crun_free_once : forall sched c c' fr, CInv c -> crun c sched = Some (c', fr) -> NoDup fr.
Proof.
  induction sched as [|k r IH]; intros c c' fr I H; cbn [crun] in H.
  - injection H as <- <-. constructor.
  - destruct (cstep c k) as [c1| |] eqn:E; [| |discriminate].
    + destruct (cstep_inv c k c1 I E) as [I1 N1].
      destruct (crun c1 r) as [[c2 fr2]|] eqn:R; [|discriminate]. injection H as <- <-.
      pose proof (IH c1 c2 fr2 I1 R) as ND.
      destruct k; auto. constructor; auto.
      cbn [cstep] in E. destruct (hin (i, id) (pend c)) eqn:Hh; [|discriminate].
      destruct (cnt c id) eqn:Hc; [|discriminate]. injection E as <-.
      pose proof (I id) as Iid. rewrite Hc in Iid. destruct Iid as [Hlt _].
      refine (proj1 (dead_forever r _ c2 fr2 id I1 _ _ R)); cbn; [unfold upd; now rewrite N.eqb_refl|exact Hlt].
    + eapply IH; eauto.
Qed.

(* ... and exactly once when every thread is done: no handle left and no destroy
   pending means no live buffer *)
Theorem cinv_no_leak c : CInv c -> hs c = [] -> pend c = [] -> forall id, cnt c id = None.
Proof.
  intros I Hh Hp id. specialize (I id). destruct (cnt c id) as [n|]; auto.
  rewrite Hh, Hp in I. cbn in I. lia.
Qed.

(* the refcount is the number of tendrils naming the buffer, whatever thread holds them *)
Theorem cinv_refcount c id n : CInv c -> cnt c id = Some n -> n = N.of_nat (cid id (hs c)).
Proof. intros I H. specialize (I id). rewrite H in I. tauto. Qed.
