(* Pools: the live tendrils of a pool, the abstraction to a pool of byte
   strings, and the slot-update / assignment rules. *)
From Coq Require Import List NArith Bool Lia Arith Permutation.
From HV Require Import Base.Utf8 Tendril.Heap Tendril.TModel Tendril.TSpec Tendril.TUtf8 Tendril.TInv
     Tendril.TPrim Tendril.TFmt Tendril.TOps.
Import ListNotations.
Local Open Scope N_scope.

Definition slot_ts (e : option entry) : list tendril :=
  match e with Some (_, t) => [t] | None => [] end.
Definition tendrils (p : pool) : list tendril := flat_map slot_ts p.
Definition aslot (s : st) (e : option entry) : option sentry :=
  match e with Some (f, t) => Some (f, view s t) | None => None end.
Definition abs (s : st) (p : pool) : spool := map (aslot s) p.

Lemma abs_length s p : length (abs s p) = length p.
Proof. apply map_length. Qed.

Lemma set_nth_length {A} i (x : A) l : length (set_nth i x l) = length l.
Proof. revert i; induction l; intros [|i]; cbn; auto. Qed.

Lemma nth_error_set_nth {A} i j (x : A) l :
  nth_error (set_nth i x l) j = if Nat.eqb i j then (if Nat.ltb i (length l) then Some x else None) else nth_error l j.
Proof.
  revert i j; induction l as [|a l IH]; intros i j.
  - cbn. destruct i, j; cbn; auto. destruct (Nat.eqb i j); auto.
  - destruct i, j; cbn [set_nth nth_error Nat.eqb]; auto.
    rewrite IH. destruct (Nat.eqb i j); auto.
Qed.

Lemma set_nth_same {A} i (x : A) l : nth_error l i = Some x -> set_nth i x l = l.
Proof.
  revert i; induction l as [|a l IH]; intros [|i]; cbn; auto.
  - intros [= ->]. reflexivity.
  - intros H. f_equal. auto.
Qed.

Lemma set_nth_twice {A} i (x y : A) l : set_nth i x (set_nth i y l) = set_nth i x l.
Proof. revert i; induction l; intros [|i]; cbn; auto. f_equal. auto. Qed.

Lemma set_nth_comm {A} i j (x y : A) l : i <> j ->
  set_nth i x (set_nth j y l) = set_nth j y (set_nth i x l).
Proof.
  revert i j; induction l; intros [|i] [|j] H; cbn; auto; try congruence. f_equal. auto.
Qed.

Lemma map_set_nth {A B} (g : A -> B) i x l : map g (set_nth i x l) = set_nth i (g x) (map g l).
Proof. revert i; induction l; intros [|i]; cbn; auto. f_equal. auto. Qed.

Lemma get_set_nth p i j e :
  get (set_nth i e p) j = if Nat.eqb i j then (if in_range p i then e else None) else get p j.
Proof.
  unfold get, in_range. rewrite nth_error_set_nth. destruct (Nat.eqb i j); auto.
  destruct (Nat.ltb i (length p)); auto. destruct e; auto.
Qed.

Lemma get_in_range p i e : get p i = Some e -> in_range p i = true.
Proof.
  unfold get, in_range. destruct (nth_error p i) eqn:H; [|discriminate]. intros _.
  apply Nat.ltb_lt. apply (proj1 (nth_error_Some p i)). rewrite H. discriminate.
Qed.

Lemma in_range_set p i j e : in_range (set_nth i e p) j = in_range p j.
Proof. unfold in_range. now rewrite set_nth_length. Qed.

(* ---------------------------------------------------------------- the live tendrils *)
Lemma tendrils_set p i e : in_range p i = true ->
  Permutation (tendrils (set_nth i e p)) (slot_ts e ++ tendrils (set_nth i None p)).
Proof.
  unfold in_range, tendrils. revert i; induction p as [|a p IH]; intros [|i] H; cbn in H; try discriminate.
  - cbn [set_nth flat_map slot_ts app]. reflexivity.
  - cbn [set_nth flat_map]. etransitivity; [apply Permutation_app_head, IH, H|].
    rewrite !app_assoc. apply Permutation_app_tail, Permutation_app_comm.
Qed.

Lemma tendrils_get p i f t : get p i = Some (f, t) ->
  Permutation (tendrils p) (t :: tendrils (set_nth i None p)).
Proof.
  intros H. pose proof (get_in_range _ _ _ H) as R.
  rewrite <- (set_nth_same i (Some (f, t)) p) at 1.
  - apply (tendrils_set p i (Some (f, t)) R).
  - unfold get in H. destruct (nth_error p i) as [[e|]|] eqn:E; cbn in H;
      [injection H as ->; exact E|discriminate|discriminate].
Qed.

Lemma set_none_noop p i : in_range p i = true -> get p i = None -> set_nth i None p = p.
Proof.
  intros R H. apply set_nth_same. unfold get, in_range in *.
  destruct (nth_error p i) as [[e|]|] eqn:E; try congruence.
  apply Nat.ltb_lt in R. apply nth_error_None in E. lia.
Qed.

Lemma in_tendrils_set_none p i u : In u (tendrils (set_nth i None p)) -> In u (tendrils p).
Proof.
  unfold tendrils. revert i; induction p as [|a p IH]; intros [|i]; cbn [set_nth flat_map]; auto.
  - intros H. apply in_or_app. now right.
  - intros H. apply in_app_or in H. apply in_or_app. destruct H; [now left|right; eauto].
Qed.

Lemma get_in_tendrils p i f t : get p i = Some (f, t) -> In t (tendrils p).
Proof.
  intros H. eapply Permutation_in; [symmetry; apply (tendrils_get p i f t H)|]. now left.
Qed.

Lemma get_other_in p i j f t : get p j = Some (f, t) -> i <> j -> In t (tendrils (set_nth i None p)).
Proof.
  intros H Hij. apply (get_in_tendrils _ j f). rewrite get_set_nth.
  destruct (Nat.eqb_spec i j); [congruence|exact H].
Qed.

(* ---------------------------------------------------------------- abstraction *)
Lemma sget_abs s p i : sget (abs s p) i = match get p i with Some (f, t) => Some (f, view s t) | None => None end.
Proof.
  unfold sget, get, abs. rewrite nth_error_map. destruct (nth_error p i) as [[[f t]|]|]; reflexivity.
Qed.

Lemma sin_range_abs s p i : sin_range (abs s p) i = in_range p i.
Proof. unfold sin_range, in_range. now rewrite abs_length. Qed.

Lemma abs_set s p i e : abs s (set_nth i e p) = set_nth i (aslot s e) (abs s p).
Proof. apply map_set_nth. Qed.

Lemma set_abs_frame s s' p i e : frame s s' (tendrils (set_nth i None p)) ->
  set_nth i e (abs s' p) = set_nth i e (abs s p).
Proof.
  unfold frame, tendrils, abs. revert i; induction p as [|a p IH]; intros [|i] F; cbn [set_nth map flat_map] in *; auto.
  - f_equal. cbn [slot_ts app] in F. clear IH.
    induction p as [|b p IH]; cbn [map flat_map] in *; auto. f_equal.
    + destruct b as [[f t]|]; cbn [aslot]; auto. rewrite F; auto. cbn. now left.
    + apply IH. intros u Hu. apply F. apply in_or_app. now right.
  - f_equal.
    + destruct a as [[f t]|]; cbn [aslot]; auto. rewrite F; auto. cbn. now left.
    + apply IH. intros u Hu. apply F. apply in_or_app. now right.
Qed.

Lemma abs_frame s s' p : frame s s' (tendrils p) -> abs s' p = abs s p.
Proof.
  unfold frame, tendrils, abs. induction p as [|a p IH]; intros F; cbn [map flat_map] in *; auto. f_equal.
  - destruct a as [[f t]|]; cbn [aslot]; auto. rewrite F; auto. cbn. now left.
  - apply IH. intros u Hu. apply F. apply in_or_app. now right.
Qed.

(* ---------------------------------------------------------------- validity of pools *)
Lemma pool_valid_set sp i f x : pool_valid sp -> fvalid_inv f x = true -> pool_valid (set_nth i (Some (f, x)) sp).
Proof.
  intros H Hx j g y. unfold sget. rewrite nth_error_set_nth.
  destruct (Nat.eqb i j).
  - destruct (Nat.ltb i (length sp)); [|discriminate]. intros [= <- <-]. exact Hx.
  - apply H.
Qed.

Lemma pool_valid_set_none sp i : pool_valid sp -> pool_valid (set_nth i None sp).
Proof.
  intros H j g y. unfold sget. rewrite nth_error_set_nth.
  destruct (Nat.eqb i j).
  - destruct (Nat.ltb i (length sp)); discriminate.
  - apply H.
Qed.

Lemma pool_valid_get s p i f t : pool_valid (abs s p) -> get p i = Some (f, t) -> fvalid_inv f (view s t) = true.
Proof. intros H G. apply (H i). rewrite sget_abs, G. reflexivity. Qed.

(* ---------------------------------------------------------------- slot update and assignment *)
Definition PInv (s : st) (p : pool) : Prop := HInv s (tendrils p) /\ pool_valid (abs s p).

Lemma HInv_get s p i f t : HInv s (tendrils p) -> get p i = Some (f, t) ->
  HInv s (t :: tendrils (set_nth i None p)).
Proof. intros H G. eapply HInv_perm; [apply (tendrils_get p i f t G)|exact H]. Qed.

Lemma slot_update s s' p i f' t' X :
  in_range p i = true ->
  HInv s' (t' :: tendrils (set_nth i None p)) -> frame s s' (tendrils (set_nth i None p)) ->
  view s' t' = X ->
  HInv s' (tendrils (set_nth i (Some (f', t')) p)) /\
  abs s' (set_nth i (Some (f', t')) p) = set_nth i (Some (f', X)) (abs s p).
Proof.
  intros R HI F V. split.
  - eapply HInv_perm; [symmetry; apply (tendrils_set p i (Some (f', t')) R)|exact HI].
  - rewrite abs_set. cbn [aslot]. rewrite V. apply set_abs_frame. exact F.
Qed.

Lemma slot_clear s s' p i :
  frame s s' (tendrils (set_nth i None p)) ->
  abs s' (set_nth i None p) = set_nth i None (abs s p).
Proof. intros F. rewrite abs_set. cbn [aslot]. apply set_abs_frame. exact F. Qed.

Lemma assign_ok s p d f tnew E : in_range p d = true -> HInv s (tnew :: tendrils p) ->
  wp (assign p d (f, tnew)) s
     (fun p' s' ev => HInv s' (tendrils p') /\ trace_ok s ev s' /\ length p' = length p /\
        abs s' p' = set_nth d (Some (f, view s tnew)) (abs s p) /\ nxt s <= nxt s') E.
Proof.
  intros R HI. unfold assign. destruct (get p d) as [[g old]|] eqn:G.
  - assert (HI1 : HInv s (old :: tnew :: tendrils (set_nth d None p))).
    { eapply HInv_perm; [|exact HI]. etransitivity; [apply perm_skip, (tendrils_get p d g old G)|apply perm_swap]. }
    step ltac:(apply drop_ok; exact HI1).
    intros _ s2 e2 [HI2 [F2 [T2 N2]]]. apply wp_ret.
    destruct (slot_update s s2 p d f tnew (view s tnew) R HI2) as [A B].
    { eapply frame_sub; [|exact F2]. intros u Hu; now right. }
    { apply F2. now left. }
    split; [exact A|]. split; [rewrite app_nil_r; exact T2|]. split; [apply set_nth_length|].
    split; [exact B|lia].
  - apply wp_ret. pose proof (set_none_noop p d R G) as Hn.
    destruct (slot_update s s p d f tnew (view s tnew) R) as [A B]; auto.
    { rewrite Hn. exact HI. }
    { apply frame_refl. }
    split; [exact A|]. split; [apply trace_refl|]. split; [apply set_nth_length|]. split; [exact B|lia].
Qed.
