(* Model of tendril/src/tendril.rs, fmt.rs, futf.rs on the heap of Heap.v.
   Every function mirrors the Rust function of the same name as it is.
   Definitions only; proofs are in TProofs.v. *)
From Coq Require Import List NArith Bool.
From HV Require Import Base.Utf8 Tendril.Heap.
Import ListNotations.
Local Open Scope N_scope.

(* ------------------------------------------------------------------ futf.rs *)
Inductive bytek := BAscii | BStart (n : nat) | BCont | BBad.
Definition byte_class (x : N) : bytek :=
  if x <? 0x80 then BAscii
  else if x <? 0xC0 then BCont
  else if x <? 0xE0 then BStart 2
  else if x <? 0xF0 then BStart 3
  else if x <? 0xF8 then BStart 4
  else BBad.

Inductive meaning :=
| MWhole (c : N) | MLead (n : N) | MTrail (n : N) | MPrefix (k : nat) | MSuffix.

Definition is_contb (x : N) : bool := match byte_class x with BCont => true | _ => false end.
Definition all_cont (l : list N) : bool := forallb is_contb l.

(* futf::decode on a start byte followed by the right number of continuation bytes *)
Definition decode (buf : list N) : option meaning :=
  match buf with
  | [b0; b1] =>
    let n := (b0 mod 32) * 64 + b1 mod 64 in
    if n <? 0x80 then None else Some (MWhole n)
  | [b0; b1; b2] =>
    let n := (b0 mod 16) * 4096 + (b1 mod 64) * 64 + b2 mod 64 in
    if n <? 0x800 then None
    else if (0xD800 <=? n) && (n <=? 0xDBFF) then Some (MLead (n - 0xD800))
    else if (0xDC00 <=? n) && (n <=? 0xDFFF) then Some (MTrail (n - 0xDC00))
    else Some (MWhole n)
  | [b0; b1; b2; b3] =>
    let n := (b0 mod 8) * 262144 + (b1 mod 64) * 4096 + (b2 mod 64) * 64 + b3 mod 64 in
    if n <? 0x10000 then None
    else if 0x10FFFF <? n then None
    else Some (MWhole n)
  | _ => None
  end.

Definition nslice (l : list N) (start len : nat) : list N := firstn len (skipn start l).

(* the backward scan of classify's Byte::Cont arm; [back] = idx - start so far *)
Fixpoint scan_back (fuel : nat) (buf : list N) (idx back : nat) : option (nat * nat * meaning) :=
  let start := (idx - back)%nat in
  if Nat.eqb start 0 then Some (0%nat, S idx, MSuffix)
  else
    let start' := (start - 1)%nat in
    let checked := S back in
    match byte_class (nth start' buf 0) with
    | BBad => None
    | BAscii => None
    | BStart n =>
      let avail := (length buf - start')%nat in
      if Nat.leb n avail then
        let bytes := nslice buf start' n in
        if Nat.ltb checked n && negb (all_cont (nslice bytes checked (n - checked))) then None
        else match decode bytes with Some m => Some (start', n, m) | None => None end
      else Some (start', avail, MPrefix (n - avail))
    | BCont =>
      if Nat.leb 3 checked then None
      else match fuel with O => None | S f => scan_back f buf idx checked end
    end.

(* futf::classify: (start of the code point, number of bytes, meaning) *)
Definition classify (buf : list N) (idx : nat) : option (nat * nat * meaning) :=
  if Nat.leb (length buf) idx then None
  else
    let x := nth idx buf 0 in
    match byte_class x with
    | BBad => None
    | BAscii => Some (idx, 1%nat, MWhole x)
    | BStart n =>
      let avail := (length buf - idx)%nat in
      if Nat.leb n avail then
        let bytes := nslice buf idx n in
        if negb (all_cont (nslice bytes 1 (n - 1))) then None
        else match decode bytes with Some m => Some (idx, n, m) | None => None end
      else Some (idx, avail, MPrefix (n - avail))
    | BCont => scan_back 3 buf idx 0
    end.

(* ------------------------------------------------------------------ fmt.rs *)
Inductive fmt := FBytes | FUtf8 | FAscii | FLatin1 | FWtf8.
Definition fmt_eqb (a b : fmt) : bool :=
  match a, b with
  | FBytes, FBytes | FUtf8, FUtf8 | FAscii, FAscii | FLatin1, FLatin1 | FWtf8, FWtf8 => true
  | _, _ => false
  end.

Definition is_whole (r : option (nat * nat * meaning)) : bool :=
  match r with Some (_, _, MWhole _) => true | _ => false end.
Definition wtf8_meaningful (r : option (nat * nat * meaning)) : bool :=
  match r with Some (_, _, (MWhole _ | MLead _ | MTrail _)) => true | _ => false end.

(* WTF8::validate: the classified code point must start at the scan position
   (rewind = 0), be a scalar value or a surrogate, and a trail surrogate must not
   directly follow a lead surrogate *)
Fixpoint wtf8_loop (fuel : nat) (buf : list N) (i : nat) (prev_lead : bool) : bool :=
  if Nat.leb (length buf) i then true
  else match fuel with
       | O => false
       | S f =>
         match classify buf i with
         | Some (st, n, m) =>
           if negb (Nat.eqb st i) then false
           else match m with
                | MWhole _ => wtf8_loop f buf (i + n) false
                | MLead _ => wtf8_loop f buf (i + n) true
                | MTrail _ => if prev_lead then false else wtf8_loop f buf (i + n) false
                | _ => false
                end
         | None => false
         end
       end.

Definition utf8_ok (buf : list N) : bool :=
  match decs buf with Some _ => forallb (fun b => b <? 256) buf | None => false end.

Definition validate (f : fmt) (buf : list N) : bool :=
  match f with
  | FBytes | FLatin1 => true
  | FAscii => forallb (fun b => b <=? 127) buf
  | FUtf8 => match decs buf with Some _ => true | None => false end
  | FWtf8 => wtf8_loop (S (length buf)) buf 0 false
  end.

Definition vprefix (f : fmt) (buf : list N) : bool :=
  match f with
  | FBytes | FLatin1 | FAscii => true
  | FUtf8 => match buf with [] => true | _ => is_whole (classify buf (length buf - 1)) end
  | FWtf8 => match buf with [] => true | _ => wtf8_meaningful (classify buf (length buf - 1)) end
  end.

Definition vsuffix (f : fmt) (buf : list N) : bool :=
  match f with
  | FBytes | FLatin1 | FAscii => true
  | FUtf8 => match buf with [] => true | _ => is_whole (classify buf 0) end
  | FWtf8 => match buf with [] => true | _ => wtf8_meaningful (classify buf 0) end
  end.

Definition vsubseq (f : fmt) (buf : list N) : bool := vprefix f buf && vsuffix f buf.

(* Fixup: (drop_left, drop_right, insert bytes) *)
Definition fixup (f : fmt) (lhs rhs : list N) : N * N * list N :=
  match f with
  | FWtf8 =>
    if Nat.leb 3 (length lhs) && Nat.leb 3 (length rhs) then
      match classify lhs (length lhs - 1), classify rhs 0 with
      | Some (_, _, MLead hi), Some (_, _, MTrail lo) => (3, 3, enc (0x10000 + hi * 1024 + lo))
      | _, _ => (0, 0, [])
      end
    else (0, 0, [])
  | _ => (0, 0, [])
  end.

(* CharFormat: UTF8, ASCII, Latin1 *)
Definition is_charfmt (f : fmt) : bool :=
  match f with FUtf8 | FAscii | FLatin1 => true | _ => false end.

(* first (char, width) of a buffer already validated for the format; None on
   an empty buffer; Some None where from_utf8_unchecked would be UB *)
Definition first_char (f : fmt) (x : list N) : option (option (N * N)) :=
  match x with
  | [] => None
  | b :: _ =>
    match f with
    | FUtf8 => match dec1 x with
               | Some (c, r) => Some (Some (c, llen x - llen r))
               | None => Some None
               end
    | _ => Some (Some (b, 1))
    end
  end.

Definition encode_char (f : fmt) (c : N) : option (list N) :=
  match f with
  | FUtf8 => Some (enc c)
  | FAscii => if 0x7F <? c then None else Some [c]
  | FLatin1 => if 0xFF <? c then None else Some [c]
  | _ => None
  end.

(* the classifier family used for pop_front_char_run *)
Definition classify_char (kind m c : N) : N :=
  match kind with
  | 0 => c mod (N.max m 1)
  | _ => if c <? m then 1 else 0
  end.

(* index of the first char (after position pos) whose class differs *)
Fixpoint find_mismatch (fuel : nat) (f : fmt) (kind m class : N) (x : list N) (pos : N)
  : option (option N) :=
  match first_char f x with
  | None => Some None
  | Some None => None
  | Some (Some (c, w)) =>
    if negb (classify_char kind m c =? class) then Some (Some pos)
    else match fuel with
         | O => None
         | S fu => find_mismatch fu f kind m class (skipn (N.to_nat w) x) (pos + w)
         end
  end.

(* ------------------------------------------------------------------ tendril.rs, private helpers *)
Definition set_buf (id : bufid) (b : buffer) : M unit := fun s =>
  Ok (tt, mkSt (hupd (hp s) id (Some b)) (nxt s), []).

Definition make_buf_shared (t : tendril) : M tendril := fun s =>
  match t with
  | Owned id len cap =>
    match hp s id with
    | None => UB 6
    | Some b => Ok (Shared id 0 len, mkSt (hupd (hp s) id (Some (mkBuf (rc b) cap (acap b) (data b)))) (nxt s), [])
    end
  | Shared _ _ _ => Ok (t, s, [])
  | Inline _ => UB 7
  end.

Definition incref (id : bufid) : M unit := fun s =>
  match hp s id with
  | None => UB 8
  | Some b => Ok (tt, mkSt (hupd (hp s) id (Some (mkBuf (rc b + 1) (hcap b) (acap b) (data b)))) (nxt s), [])
  end.

(* Drop for Tendril *)
Definition drop_t (t : tendril) : M unit :=
  match t with
  | Inline _ => ret tt
  | Owned id _ cap => destroy id cap
  | Shared id _ _ => fun s =>
    match hp s id with
    | None => UB 9
    | Some b =>
      if rc b =? 0 then UB 10
      else if rc b =? 1 then
        (set_buf id (mkBuf 0 (hcap b) (acap b) (data b)) ;;; destroy id (hcap b)) s
      else set_buf id (mkBuf (rc b - 1) (hcap b) (acap b) (data b)) s
    end
  end.

Definition owned_copy (x : list byte) : M tendril :=
  if MAXU32 <? llen x then panic 4
  else
    idc <- with_capacity (llen x) ;;
    write_at (fst idc) 0 x ;;;
    ret (Owned (fst idc) (llen x) (snd idc)).

Definition make_owned (t : tendril) : M tendril :=
  match t with
  | Owned _ _ _ => ret t
  | _ =>
    x <- bytes_of t ;;
    t' <- owned_copy x ;;
    drop_t t ;;;
    ret t'
  end.

Definition make_owned_with_capacity (t : tendril) (cap : N) : M tendril :=
  t1 <- make_owned t ;;
  match t1 with
  | Owned id len c => c' <- grow id c cap ;; ret (Owned id len c')
  | _ => ub 11
  end.

(* ------------------------------------------------------------------ public operations on one tendril *)
Definition from_bytes (x : list byte) : M tendril :=
  if MAXU32 <? llen x then panic 8
  else if llen x <=? MAX_INLINE_LEN then ret (Inline x) else owned_copy x.

Definition push_bytes_wv (f : fmt) (t : tendril) (buf : list byte) : M tendril :=
  if MAXU32 <? llen buf then panic 5
  else
    old <- bytes_of t ;;
    let '(dl, dr, ins) := fixup f old buf in
    let adj := tlen t + llen ins - dl in
    if MAXU32 <? adj + llen buf then panic 6
    else
      let new_len := adj + llen buf - dr in
      if new_len <=? MAX_INLINE_LEN then
        drop_t t ;;;
        ret (Inline (firstn (N.to_nat (tlen t - dl)) old ++ ins ++ skipn (N.to_nat dr) buf))
      else
        t1 <- make_owned_with_capacity t new_len ;;
        match t1 with
        | Owned id len c =>
          write_at id (len - dl) (ins ++ skipn (N.to_nat dr) buf) ;;;
          ret (Owned id new_len c)
        | _ => ub 12
        end.

Definition try_push_bytes (f : fmt) (t : tendril) (buf : list byte) : M tendril :=
  if validate f buf then push_bytes_wv f t buf else err 0.

Definition unsafe_subtendril (t : tendril) (off len : N) (b : list byte) : M (tendril * tendril) :=
  if len <=? MAX_INLINE_LEN then ret (t, Inline b)
  else
    t1 <- make_buf_shared t ;;
    match t1 with
    | Shared id o _ => incref id ;;; ret (t1, Shared id (o + off) len)
    | _ => ub 13
    end.

Definition try_subtendril (f : fmt) (t : tendril) (off len : N) : M (tendril * tendril) :=
  let sl := tlen t in
  if (sl <? off) || (sl - off <? len) then err 1
  else
    x <- bytes_of t ;;
    let b := slice x off len in
    if negb (vsubseq f b) then err 2 else unsafe_subtendril t off len b.

Definition unsafe_pop_front (t : tendril) (n : N) : M tendril :=
  let new_len := tlen t - n in
  if new_len <=? MAX_INLINE_LEN then
    x <- bytes_of t ;;
    drop_t t ;;;
    ret (Inline (slice x n new_len))
  else
    t1 <- make_buf_shared t ;;
    match t1 with
    | Shared id o l => ret (Shared id (o + n) (l - n))
    | _ => ub 14
    end.

Definition unsafe_pop_back (t : tendril) (n : N) : M tendril :=
  let new_len := tlen t - n in
  if new_len <=? MAX_INLINE_LEN then
    x <- bytes_of t ;;
    drop_t t ;;;
    ret (Inline (slice x 0 new_len))
  else
    t1 <- make_buf_shared t ;;
    match t1 with
    | Shared id o l => ret (Shared id o (l - n))
    | _ => ub 15
    end.

Definition try_pop_front (f : fmt) (t : tendril) (n : N) : M tendril :=
  if n =? 0 then ret t
  else if tlen t <? n then err 1
  else
    x <- bytes_of t ;;
    if negb (vsuffix f (slice x n (tlen t - n))) then err 2 else unsafe_pop_front t n.

Definition try_pop_back (f : fmt) (t : tendril) (n : N) : M tendril :=
  if n =? 0 then ret t
  else if tlen t <? n then err 1
  else
    x <- bytes_of t ;;
    if negb (vprefix f (slice x 0 (tlen t - n))) then err 2 else unsafe_pop_back t n.

Definition clear (t : tendril) : M tendril :=
  match t with
  | Inline _ => ret (Inline [])
  | Shared _ _ _ => drop_t t ;;; ret (Inline [])
  | Owned id _ cap => ret (Owned id 0 cap)
  end.

Definition clone (t : tendril) : M (tendril * tendril) :=
  match t with
  | Inline _ => ret (t, t)
  | _ =>
    t1 <- make_buf_shared t ;;
    match t1 with
    | Shared id _ _ => incref id ;;; ret (t1, t1)
    | _ => ub 16
    end
  end.

Definition fixup_none (fx : N * N * list N) : bool :=
  let '(dl, dr, ins) := fx in (dl =? 0) && (dr =? 0) && (llen ins =? 0).

Definition push_tendril (f : fmt) (t o : tendril) : M tendril :=
  let nl := tlen t + tlen o in
  if MAXU32 <? nl then panic 7
  else
    let generic := (x <- bytes_of o ;; push_bytes_wv f t x) in
    match t, o with
    | Shared i ot lt, Shared j oo _ =>
      if (i =? j) && (oo =? ot + lt) then
        (* adjacent slices of one buffer: joined in place unless the format
           has to fix up the junction *)
        x <- bytes_of t ;;
        y <- bytes_of o ;;
        if fixup_none (fixup f x y) then ret (Shared i ot nl) else push_bytes_wv f t y
      else generic
    | _, _ => generic
    end.

Definition pop_front_char (f : fmt) (t : tendril) : M (tendril * option N) :=
  x <- bytes_of t ;;
  match first_char f x with
  | None => t' <- clear t ;; ret (t', None)
  | Some None => ub 17
  | Some (Some (c, w)) =>
    if llen x =? w then t' <- clear t ;; ret (t', Some c)
    else t' <- unsafe_pop_front t w ;; ret (t', Some c)
  end.

Definition pop_front_char_run (f : fmt) (t : tendril) (kind m : N)
  : M (tendril * option (tendril * N)) :=
  x <- bytes_of t ;;
  match first_char f x with
  | None => ret (t, None)
  | Some None => ub 18
  | Some (Some (c, w)) =>
    let class := classify_char kind m c in
    match find_mismatch (length x) f kind m class (skipn (N.to_nat w) x) w with
    | None => ub 19
    | Some (Some idx) =>
      ts <- unsafe_subtendril t 0 idx (slice x 0 idx) ;;
      t2 <- unsafe_pop_front (fst ts) idx ;;
      ret (t2, Some (snd ts, class))
    | Some None =>
      tc <- clone t ;;
      t2 <- clear (fst tc) ;;
      ret (t2, Some (snd tc, class))
    end
  end.

Definition try_push_char (f : fmt) (t : tendril) (c : N) : M tendril :=
  match encode_char f c with
  | Some bs => push_bytes_wv f t bs
  | None => err 0
  end.

(* as_mut_byte_slice *)
Definition as_mut (t : tendril) : M tendril :=
  match t with Inline _ => ret t | _ => make_owned t end.

Definition upper (b : N) : N := if (97 <=? b) && (b <=? 122) then b - 32 else b.

(* overwrite the whole content (what a write through deref_mut can do) *)
Definition overwrite (t : tendril) (g : list byte -> list byte) : M tendril :=
  t1 <- as_mut t ;;
  match t1 with
  | Inline bs => ret (Inline (g bs))
  | Owned id len c => x <- bytes_of t1 ;; write_at id 0 (g x) ;;; ret t1
  | _ => ub 20
  end.

Definition set_nth_byte (i : N) (b : N) (l : list byte) : list byte :=
  firstn (N.to_nat i) l ++ b :: skipn (S (N.to_nat i)) l.

(* Tendril<Bytes>::extend_with_byte = push_uninitialized + fill through deref_mut *)
Definition extend_with_byte (t : tendril) (n b : N) : M tendril :=
  let new_len := tlen t + n in
  if MAXU32 <? new_len then panic 9
  else
    let fill := repeat b (N.to_nat n) in
    match t with
    | Inline bs =>
      if new_len <=? MAX_INLINE_LEN then ret (Inline (bs ++ fill))
      else
        t1 <- make_owned_with_capacity t new_len ;;
        match t1 with
        | Owned id len c => write_at id len fill ;;; ret (Owned id new_len c)
        | _ => ub 21
        end
    | _ =>
      t1 <- make_owned_with_capacity t new_len ;;
      match t1 with
      | Owned id len c => write_at id len fill ;;; ret (Owned id new_len c)
      | _ => ub 22
      end
    end.

Definition is_shared (t : tendril) : bool := match t with Shared _ _ _ => true | _ => false end.

Definition reserve (t : tendril) (n : N) : M tendril :=
  if is_shared t then ret t
  else
    let new_len := tlen t + n in
    if MAXU32 <? new_len then panic 10
    else if MAX_INLINE_LEN <? new_len then make_owned_with_capacity t new_len else ret t.

Definition t_with_capacity (n : N) : M tendril :=
  if MAX_INLINE_LEN <? n then make_owned_with_capacity (Inline []) n else ret (Inline []).

(* into_send followed by From<SendTendril> *)
Definition into_send (t : tendril) : M tendril := make_owned t.

(* ------------------------------------------------------------------ histories over a pool *)
Definition entry := (fmt * tendril)%type.
Definition pool := list (option entry).

Inductive op :=
| ONew (d : nat) (f : fmt) (bs : list byte)      (* try_from_byte_slice *)
| OWithCap (d : nat) (f : fmt) (n : N)
| OClone (d s : nat)
| ODrop (s : nat)
| OClear (s : nat)
| OPush (s : nat) (bs : list byte)               (* try_push_bytes / push_slice *)
| OPushT (d s : nat)                             (* pool[d].push_tendril(&pool[s]) *)
| OSub (unwrap : bool) (d s : nat) (off len : N) (* try_subtendril / subtendril *)
| OPopF (unwrap : bool) (s : nat) (n : N)
| OPopB (unwrap : bool) (s : nat) (n : N)
| OPopChar (s : nat)
| OPopRun (d s : nat) (kind m : N)
| OPushChar (s : nat) (c : N)
| OExt (s : nat) (n b : N)
| OSend (d s : nat)                              (* pool[d] = Tendril::from(pool[s].take().into_send()) *)
| OReint (s : nat) (f : fmt)                     (* try_reinterpret / into_bytes / superset / subset *)
| OReserve (s : nat) (n : N)
| OSetByte (s : nat) (i b : N)                   (* t[i] = b through DerefMut, i < len *)
| OUpper (s : nat).                              (* make_ascii_uppercase through DerefMut *)

Inductive outcome :=
| ROk | RErr (unwrap : bool) (e : N) | RChar (c : option N) | RClass (k : option N) | RBad.

Definition get (p : pool) (i : nat) : option entry :=
  match nth_error p i with Some (Some e) => Some e | _ => None end.

Fixpoint set_nth {A} (i : nat) (x : A) (l : list A) : list A :=
  match l, i with
  | [], _ => []
  | _ :: t, O => x :: t
  | h :: t, S j => h :: set_nth j x t
  end.

Definition in_range (p : pool) (i : nat) : bool := Nat.ltb i (length p).

(* pool[d] = new : the old value is dropped after the new one was built *)
Definition assign (p : pool) (d : nat) (e : entry) : M pool :=
  match get p d with
  | Some (_, old) => drop_t old ;;; ret (set_nth d (Some e) p)
  | None => ret (set_nth d (Some e) p)
  end.

(* run a fallible operation: an Err leaves the state untouched *)
Definition try_ {A} (m : M A) : M (A + N) := fun s =>
  match m s with
  | Ok (a, s', ev) => Ok (inl a, s', ev)
  | Err e => Ok (inr e, s, [])
  | Panic k => Panic k
  | UB k => UB k
  end.

Definition bad (p : pool) : M (outcome * pool) := ret (RBad, p).

Definition exec_op (o : op) (p : pool) : M (outcome * pool) :=
  match o with
  | ONew d f bs =>
    if negb (in_range p d) then bad p
    else if negb (validate f bs) then ret (RErr false 0, p)
    else t <- from_bytes bs ;; p' <- assign p d (f, t) ;; ret (ROk, p')
  | OWithCap d f n =>
    if negb (in_range p d) then bad p
    else t <- t_with_capacity n ;; p' <- assign p d (f, t) ;; ret (ROk, p')
  | OClone d s =>
    match get p s with
    | Some (f, t) =>
      if negb (in_range p d) then bad p
      else tc <- clone t ;;
           p' <- assign (set_nth s (Some (f, fst tc)) p) d (f, snd tc) ;; ret (ROk, p')
    | None => bad p
    end
  | ODrop s =>
    match get p s with
    | Some (_, t) => drop_t t ;;; ret (ROk, set_nth s None p)
    | None => bad p
    end
  | OClear s =>
    match get p s with
    | Some (f, t) => t' <- clear t ;; ret (ROk, set_nth s (Some (f, t')) p)
    | None => bad p
    end
  | OPush s bs =>
    match get p s with
    | Some (f, t) =>
      r <- try_ (try_push_bytes f t bs) ;;
      match r with
      | inl t' => ret (ROk, set_nth s (Some (f, t')) p)
      | inr e => ret (RErr false e, p)
      end
    | None => bad p
    end
  | OPushT d s =>
    match get p d, get p s with
    | Some (f, t), Some (g, o) =>
      if Nat.eqb d s || negb (fmt_eqb f g) then bad p
      else t' <- push_tendril f t o ;; ret (ROk, set_nth d (Some (f, t')) p)
    | _, _ => bad p
    end
  | OSub uw d s off len =>
    match get p s with
    | Some (f, t) =>
      if negb (in_range p d) then bad p
      else
        r <- try_ (try_subtendril f t off len) ;;
        match r with
        | inl ts => p' <- assign (set_nth s (Some (f, fst ts)) p) d (f, snd ts) ;; ret (ROk, p')
        | inr e => ret (RErr uw e, p)
        end
    | None => bad p
    end
  | OPopF uw s n =>
    match get p s with
    | Some (f, t) =>
      r <- try_ (try_pop_front f t n) ;;
      match r with
      | inl t' => ret (ROk, set_nth s (Some (f, t')) p)
      | inr e => ret (RErr uw e, p)
      end
    | None => bad p
    end
  | OPopB uw s n =>
    match get p s with
    | Some (f, t) =>
      r <- try_ (try_pop_back f t n) ;;
      match r with
      | inl t' => ret (ROk, set_nth s (Some (f, t')) p)
      | inr e => ret (RErr uw e, p)
      end
    | None => bad p
    end
  | OPopChar s =>
    match get p s with
    | Some (f, t) =>
      if negb (is_charfmt f) then bad p
      else tc <- pop_front_char f t ;; ret (RChar (snd tc), set_nth s (Some (f, fst tc)) p)
    | None => bad p
    end
  | OPopRun d s kind m =>
    match get p s with
    | Some (f, t) =>
      if negb (is_charfmt f) || negb (in_range p d) then bad p
      else
        r <- pop_front_char_run f t kind m ;;
        match snd r with
        | None => ret (RClass None, p)
        | Some (sub, class) =>
          p' <- assign (set_nth s (Some (f, fst r)) p) d (f, sub) ;; ret (RClass (Some class), p')
        end
    | None => bad p
    end
  | OPushChar s c =>
    match get p s with
    | Some (f, t) =>
      if negb (is_charfmt f) || negb (is_scalar c) then bad p
      else
        r <- try_ (try_push_char f t c) ;;
        match r with
        | inl t' => ret (ROk, set_nth s (Some (f, t')) p)
        | inr e => ret (RErr false e, p)
        end
    | None => bad p
    end
  | OExt s n b =>
    match get p s with
    | Some (FBytes, t) => t' <- extend_with_byte t n b ;; ret (ROk, set_nth s (Some (FBytes, t')) p)
    | _ => bad p
    end
  | OSend d s =>
    match get p s with
    | Some (f, t) =>
      if negb (in_range p d) then bad p
      else t' <- into_send t ;; p' <- assign (set_nth s None p) d (f, t') ;; ret (ROk, p')
    | None => bad p
    end
  | OReint s g =>
    match get p s with
    | Some (f, t) =>
      x <- bytes_of t ;;
      if validate g x then ret (ROk, set_nth s (Some (g, t)) p) else ret (RErr false 0, p)
    | None => bad p
    end
  | OReserve s n =>
    match get p s with
    | Some (f, t) => t' <- reserve t n ;; ret (ROk, set_nth s (Some (f, t')) p)
    | None => bad p
    end
  | OSetByte s i b =>
    match get p s with
    | Some (FBytes, t) =>
      if (tlen t <=? i) || (255 <? b) then bad p
      else t' <- overwrite t (set_nth_byte i b) ;; ret (ROk, set_nth s (Some (FBytes, t')) p)
    | _ => bad p
    end
  | OUpper s =>
    match get p s with
    | Some (f, t) =>
      match f with
      | FBytes | FUtf8 => t' <- overwrite t (map upper) ;; ret (ROk, set_nth s (Some (f, t')) p)
      | _ => bad p
      end
    | None => bad p
    end
  end.

(* ------------------------------------------------------------------ observation *)
Inductive kind := KInline | KOwned | KShared.
Definition kind_of (t : tendril) : kind :=
  match t with Inline _ => KInline | Owned _ _ _ => KOwned | Shared _ _ _ => KShared end.

Definition snapshot (s : st) (p : pool) : list (option (fmt * kind * N * list byte)) :=
  map (fun e => match e with
                | Some (f, t) => Some (f, kind_of t, tlen t, view s t)
                | None => None
                end) p.

Fixpoint drop_all (p : pool) : M unit :=
  match p with
  | [] => ret tt
  | Some (_, t) :: r => drop_t t ;;; drop_all r
  | None :: r => drop_all r
  end.

Fixpoint live_ids (fuel : nat) (s : st) (id : N) : list (bufid * N) :=
  match fuel with
  | O => []
  | S f => match hp s id with
           | Some b => (id, acap b) :: live_ids f s (id + 1)
           | None => live_ids f s (id + 1)
           end
  end.

Inductive step_out :=
| SOk (r : outcome) (ev : list event) (snap : list (option (fmt * kind * N * list byte)))
| SPanic (k : N) | SUB (k : N).

Fixpoint run (ops : list op) (s : st) (p : pool) : list step_out * option (st * pool) :=
  match ops with
  | [] => ([], Some (s, p))
  | o :: r =>
    match exec_op o p s with
    | Ok ((out, p'), s', ev) =>
      let '(outs, fin) := run r s' p' in (SOk out ev (snapshot s' p') :: outs, fin)
    | Err e => ([SUB 100], None)            (* an uncaught Err would be a model bug *)
    | Panic k => ([SPanic k], None)
    | UB k => ([SUB k], None)
    end
  end.

Definition pool0 (n : nat) : pool := repeat None n.

(* whole history + final drop of every tendril: per-op outputs, the events of
   the final drops, and the buffers still live afterwards (expected: none) *)
Definition run_history (npool : nat) (ops : list op)
  : list step_out * option (list event * list (bufid * N)) :=
  let '(outs, fin) := run ops st0 (pool0 npool) in
  match fin with
  | None => (outs, None)
  | Some (s, p) =>
    match drop_all p s with
    | Ok (_, s', ev) => (outs, Some (ev, live_ids (N.to_nat (nxt s')) s' 0))
    | _ => (outs, None)
    end
  end.
