(* UTF-8 validity of byte buffers versus futf::classify and the
   validate_prefix / validate_suffix / validate_subseq checks of tendril::fmt::UTF8. *)
From Coq Require Import List NArith Bool Lia Arith.
From HV Require Import Base.Utf8 Tendril.Heap Tendril.TModel.
Import ListNotations.
Local Open Scope N_scope.

Definition uvalid (x : list N) : bool := match decs x with Some _ => true | None => false end.

(* ---------------------------------------------------------------- one char *)
(* the byte shapes accepted by dec1, with the decoded scalar value *)
Inductive chr : list N -> N -> Prop :=
| chr1 b0 : b0 < 0x80 -> chr [b0] b0
| chr2 b0 b1 : 0xC2 <= b0 -> b0 < 0xE0 -> 0x80 <= b1 -> b1 < 0xC0 ->
    chr [b0; b1] ((b0 - 0xC0) * 64 + (b1 - 0x80))
| chr3 b0 b1 b2 : 0xE0 <= b0 -> b0 < 0xF0 -> 0x80 <= b1 -> b1 < 0xC0 ->
    0x80 <= b2 -> b2 < 0xC0 -> (b0 = 0xE0 -> 0xA0 <= b1) -> (b0 = 0xED -> b1 < 0xA0) ->
    chr [b0; b1; b2] ((b0 - 0xE0) * 4096 + (b1 - 0x80) * 64 + (b2 - 0x80))
| chr4 b0 b1 b2 b3 : 0xF0 <= b0 -> b0 < 0xF5 -> 0x80 <= b1 -> b1 < 0xC0 ->
    0x80 <= b2 -> b2 < 0xC0 -> 0x80 <= b3 -> b3 < 0xC0 ->
    (b0 = 0xF0 -> 0x90 <= b1) -> (b0 = 0xF4 -> b1 < 0x90) ->
    chr [b0; b1; b2; b3]
        ((b0 - 0xF0) * 262144 + (b1 - 0x80) * 4096 + (b2 - 0x80) * 64 + (b3 - 0x80)).

Lemma dec1_inv x c r : dec1 x = Some (c, r) -> exists ch, x = ch ++ r /\ chr ch c.
Proof.
  unfold dec1. destruct x as [|b0 t]; [discriminate|].
  destruct (b0 <? 0x80) eqn:H1.
  { intros H; inversion H; subst. exists [c]. split; [reflexivity|constructor; lia]. }
  destruct (b0 <? 0xC2) eqn:H2; [discriminate|].
  destruct (b0 <? 0xE0) eqn:H3.
  { destruct t as [|b1 t1]; [discriminate|].
    destruct (is_cont b1) eqn:C1; [|discriminate].
    intros H; inversion H; subst. exists [b0; b1]. split; [reflexivity|].
    unfold is_cont in C1. constructor; lia. }
  destruct (b0 <? 0xF0) eqn:H4.
  { destruct t as [|b1 [|b2 t2]]; try discriminate.
    match goal with |- (if ?b then _ else _) = _ -> _ => destruct b eqn:C end; [|discriminate].
    intros H; inversion H; subst. exists [b0; b1; b2]. split; [reflexivity|].
    unfold is_cont in C. constructor; lia. }
  destruct (b0 <? 0xF5) eqn:H5; [|discriminate].
  destruct t as [|b1 [|b2 [|b3 t3]]]; try discriminate.
  match goal with |- (if ?b then _ else _) = _ -> _ => destruct b eqn:C end; [|discriminate].
  intros H; inversion H; subst. exists [b0; b1; b2; b3]. split; [reflexivity|].
  unfold is_cont in C. constructor; lia.
Qed.

Ltac btest :=
  repeat match goal with
  | |- context [if ?b then _ else _] =>
    first [replace b with true by lia | replace b with false by lia]
  end.

Lemma chr_dec1 ch c r : chr ch c -> dec1 (ch ++ r) = Some (c, r).
Proof.
  intros H; destruct H; cbn [app dec1]; unfold is_cont; btest; reflexivity.
Qed.

Lemma chr_dec1_nil ch c : chr ch c -> dec1 ch = Some (c, []).
Proof. intros H. rewrite <- (app_nil_r ch) at 1. now apply chr_dec1. Qed.

Lemma chr_len ch c : chr ch c -> (1 <= length ch <= 4)%nat.
Proof. intros H; destruct H; cbn [length]; lia. Qed.

Lemma chr_nonnil ch c : chr ch c -> ch <> [].
Proof. intros H; destruct H; discriminate. Qed.

Lemma dec1_shorter x c r : dec1 x = Some (c, r) -> (length r < length x)%nat.
Proof.
  intros H. apply dec1_inv in H. destruct H as (ch & -> & H).
  apply chr_len in H. rewrite app_length. lia.
Qed.

(* ---------------------------------------------------------------- fuel *)
Lemma decs_fuel_indep : forall f1 f2 x, (length x <= f1)%nat -> (length x <= f2)%nat ->
  decs_fuel f1 x = decs_fuel f2 x.
Proof.
  induction f1 as [|f1 IH]; intros f2 x H1 H2.
  - destruct x; [|cbn [length] in H1; lia]. destruct f2; reflexivity.
  - destruct x as [|b t]; [destruct f2; reflexivity|].
    destruct f2 as [|f2]; [cbn [length] in H2; lia|].
    cbn [decs_fuel]. destruct (dec1 (b :: t)) as [[c r]|] eqn:E; [|reflexivity].
    apply dec1_shorter in E. cbn [length] in *. rewrite (IH f2 r) by lia. reflexivity.
Qed.

Lemma uvalid_unfold x : x <> [] ->
  uvalid x = match dec1 x with Some (_, r) => uvalid r | None => false end.
Proof.
  intros Hx. unfold uvalid, decs. destruct x as [|b t]; [congruence|].
  cbn [length decs_fuel]. destruct (dec1 (b :: t)) as [[c r]|] eqn:E; [|reflexivity].
  apply dec1_shorter in E. cbn [length] in E.
  rewrite (decs_fuel_indep (length t) (length r) r) by lia.
  destruct (decs_fuel (length r) r); reflexivity.
Qed.

Lemma uvalid_nil : uvalid [] = true.
Proof. reflexivity. Qed.

Inductive UV : list N -> Prop :=
| UV_nil : UV []
| UV_cons ch c r : chr ch c -> UV r -> UV (ch ++ r).

Lemma uvalid_chr_app ch c r : chr ch c -> uvalid (ch ++ r) = uvalid r.
Proof.
  intros H. rewrite uvalid_unfold.
  - rewrite (chr_dec1 ch c r H). reflexivity.
  - intros E. apply app_eq_nil in E. destruct E as [E _]. now apply chr_nonnil in H.
Qed.

Lemma UV_uvalid x : UV x -> uvalid x = true.
Proof.
  induction 1 as [|ch c r H Hr IH]; [reflexivity|].
  rewrite (uvalid_chr_app ch c r H). exact IH.
Qed.

Lemma uvalid_UV_len : forall n x, (length x <= n)%nat -> uvalid x = true -> UV x.
Proof.
  induction n as [|n IH]; intros x Hl Hv.
  - destruct x; [constructor|cbn [length] in Hl; lia].
  - destruct x as [|b t]; [constructor|].
    rewrite uvalid_unfold in Hv by discriminate.
    destruct (dec1 (b :: t)) as [[c r]|] eqn:E; [|discriminate].
    pose proof (dec1_shorter _ _ _ E) as Hs.
    apply dec1_inv in E. destruct E as (ch & E & Hc). rewrite E.
    econstructor; [exact Hc|]. apply IH; [lia|exact Hv].
Qed.

Lemma uvalid_UV x : uvalid x = true -> UV x.
Proof. apply (uvalid_UV_len (length x)). lia. Qed.

Lemma UV_app a b : UV a -> UV b -> UV (a ++ b).
Proof.
  induction 1 as [|ch c r H Hr IH]; intros Hb; [exact Hb|].
  rewrite <- app_assoc. econstructor; [exact H|auto].
Qed.

Lemma uvalid_app a b : uvalid a = true -> uvalid b = true -> uvalid (a ++ b) = true.
Proof. intros Ha Hb. apply UV_uvalid, UV_app; now apply uvalid_UV. Qed.

Lemma uvalid_enc c : is_scalar c = true -> uvalid (enc c) = true.
Proof.
  intros H. unfold uvalid.
  assert (E : decs (encs [c]) = Some [c]) by (apply decs_encs; repeat constructor; exact H).
  unfold encs in E. cbn [flat_map] in E. rewrite app_nil_r in E. rewrite E. reflexivity.
Qed.

(* ---------------------------------------------------------------- upper *)
Lemma upper_high b : 0x80 <= b -> upper b = b.
Proof. intros H. unfold upper. btest. reflexivity. Qed.

Lemma upper_low b : b < 0x80 -> upper b < 0x80.
Proof.
  intros H. unfold upper. destruct ((97 <=? b) && (b <=? 122)) eqn:E; lia.
Qed.

Lemma chr_upper ch c : chr ch c -> exists c', chr (map upper ch) c'.
Proof.
  intros H; destruct H; cbn [map].
  - eexists. apply chr1. now apply upper_low.
  - rewrite !upper_high by lia. eexists. apply chr2; assumption.
  - rewrite !upper_high by lia. eexists. apply chr3; assumption.
  - rewrite !upper_high by lia. eexists. apply chr4; assumption.
Qed.

Lemma uvalid_upper x : uvalid x = true -> uvalid (map upper x) = true.
Proof.
  intros H. apply uvalid_UV in H. apply UV_uvalid.
  induction H as [|ch c r H Hr IH]; [constructor|].
  rewrite map_app. destruct (chr_upper ch c H) as [c' H'].
  econstructor; eassumption.
Qed.

Lemma uvalid_first x : uvalid x = true -> x <> [] ->
  exists c r, dec1 x = Some (c, r) /\ uvalid r = true /\ (length r < length x)%nat /\
              skipn (length x - length r) x = r /\
              uvalid (firstn (length x - length r) x) = true.
Proof.
  intros H Hx. apply uvalid_UV in H. destruct H as [|ch c r H Hr]; [congruence|].
  exists c, r. pose proof (chr_len ch c H) as Hl.
  rewrite app_length.
  replace (length ch + length r - length r)%nat with (length ch + 0)%nat by lia.
  split; [now apply chr_dec1|]. split; [now apply UV_uvalid|]. split; [lia|].
  split.
  - rewrite skipn_app, Nat.add_0_r, skipn_all, Nat.sub_diag. reflexivity.
  - rewrite firstn_app_2. cbn [firstn]. rewrite app_nil_r.
    apply UV_uvalid. rewrite <- (app_nil_r ch). econstructor; [exact H|constructor].
Qed.

(* ---------------------------------------------------------------- futf::classify *)
Lemma bc_ascii b : b < 0x80 -> byte_class b = BAscii.
Proof. intros H. unfold byte_class. btest. reflexivity. Qed.
Lemma bc_cont b : 0x80 <= b -> b < 0xC0 -> byte_class b = BCont.
Proof. intros H1 H2. unfold byte_class. btest. reflexivity. Qed.
Lemma bc_2 b : 0xC0 <= b -> b < 0xE0 -> byte_class b = BStart 2.
Proof. intros H1 H2. unfold byte_class. btest. reflexivity. Qed.
Lemma bc_3 b : 0xE0 <= b -> b < 0xF0 -> byte_class b = BStart 3.
Proof. intros H1 H2. unfold byte_class. btest. reflexivity. Qed.
Lemma bc_4 b : 0xF0 <= b -> b < 0xF8 -> byte_class b = BStart 4.
Proof. intros H1 H2. unfold byte_class. btest. reflexivity. Qed.

Lemma is_contb_cont b : is_contb b = is_cont b.
Proof.
  unfold is_contb, is_cont, byte_class.
  destruct (b <? 0x80) eqn:H1; [lia|].
  destruct (b <? 0xC0) eqn:H2; [lia|].
  destruct (b <? 0xE0); [lia|]. destruct (b <? 0xF0); [lia|]. destruct (b <? 0xF8); lia.
Qed.

Lemma is_contb_true b : 0x80 <= b -> b < 0xC0 -> is_contb b = true.
Proof. intros. unfold is_contb. rewrite bc_cont by assumption. reflexivity. Qed.

Lemma decode2 b0 b1 : 0xC2 <= b0 -> b0 < 0xE0 -> 0x80 <= b1 -> b1 < 0xC0 ->
  decode [b0; b1] = Some (MWhole ((b0 - 0xC0) * 64 + (b1 - 0x80))).
Proof.
  intros. unfold decode.
  assert (E0 : b0 mod 32 = b0 - 0xC0) by lia.
  assert (E1 : b1 mod 64 = b1 - 0x80) by lia.
  rewrite E0, E1. cbv zeta. btest. reflexivity.
Qed.

Lemma decode3 b0 b1 b2 : 0xE0 <= b0 -> b0 < 0xF0 -> 0x80 <= b1 -> b1 < 0xC0 ->
  0x80 <= b2 -> b2 < 0xC0 -> (b0 = 0xE0 -> 0xA0 <= b1) -> (b0 = 0xED -> b1 < 0xA0) ->
  decode [b0; b1; b2] = Some (MWhole ((b0 - 0xE0) * 4096 + (b1 - 0x80) * 64 + (b2 - 0x80))).
Proof.
  intros. unfold decode.
  assert (E0 : b0 mod 16 = b0 - 0xE0) by lia.
  assert (E1 : b1 mod 64 = b1 - 0x80) by lia.
  assert (E2 : b2 mod 64 = b2 - 0x80) by lia.
  rewrite E0, E1, E2. cbv zeta. btest. reflexivity.
Qed.

Lemma decode4 b0 b1 b2 b3 : 0xF0 <= b0 -> b0 < 0xF5 -> 0x80 <= b1 -> b1 < 0xC0 ->
  0x80 <= b2 -> b2 < 0xC0 -> 0x80 <= b3 -> b3 < 0xC0 ->
  (b0 = 0xF0 -> 0x90 <= b1) -> (b0 = 0xF4 -> b1 < 0x90) ->
  decode [b0; b1; b2; b3] =
  Some (MWhole ((b0 - 0xF0) * 262144 + (b1 - 0x80) * 4096 + (b2 - 0x80) * 64 + (b3 - 0x80))).
Proof.
  intros. unfold decode.
  assert (E0 : b0 mod 8 = b0 - 0xF0) by lia.
  assert (E1 : b1 mod 64 = b1 - 0x80) by lia.
  assert (E2 : b2 mod 64 = b2 - 0x80) by lia.
  assert (E3 : b3 mod 64 = b3 - 0x80) by lia.
  rewrite E0, E1, E2, E3. cbv zeta. btest. reflexivity.
Qed.

Lemma classify_chr0 ch c r : chr ch c ->
  classify (ch ++ r) 0 = Some (0%nat, length ch, MWhole c).
Proof.
  intros H; destruct H; unfold classify; cbn [app length Nat.leb nth].
  - rewrite bc_ascii by assumption. reflexivity.
  - rewrite bc_2 by lia. cbn [Nat.sub Nat.leb nslice skipn firstn all_cont forallb].
    rewrite is_contb_true by assumption. cbn [andb negb].
    rewrite decode2 by assumption. reflexivity.
  - rewrite bc_3 by lia. cbn [Nat.sub Nat.leb nslice skipn firstn all_cont forallb].
    rewrite !is_contb_true by assumption. cbn [andb negb].
    rewrite decode3 by assumption. reflexivity.
  - rewrite bc_4 by lia. cbn [Nat.sub Nat.leb nslice skipn firstn all_cont forallb].
    rewrite !is_contb_true by assumption. cbn [andb negb].
    rewrite decode4 by assumption. reflexivity.
Qed.

(* first byte of a char is not a continuation byte *)
Lemma chr_head ch c : chr ch c -> exists b t, ch = b :: t /\ is_contb b = false.
Proof.
  intros H; destruct H; eexists; eexists; (split; [reflexivity|]);
    rewrite is_contb_cont; unfold is_cont; lia.
Qed.

(* cutting inside a char leaves a continuation byte in front *)
Lemma chr_mid_skip ch c r n : chr ch c -> (0 < n < length ch)%nat ->
  exists b t, skipn n (ch ++ r) = b :: t /\ is_cont b = true.
Proof.
  intros H Hn; destruct H; cbn [length] in Hn;
    destruct n as [|[|[|[|n]]]]; try lia; cbn [app skipn];
    eexists; eexists; (split; [reflexivity|]); unfold is_cont; lia.
Qed.

Lemma cont_head_bad b t : is_cont b = true ->
  vsuffix FUtf8 (b :: t) = false /\ uvalid (b :: t) = false.
Proof.
  intros H. split.
  - cbn [vsuffix]. unfold classify. cbn [length Nat.leb nth].
    unfold is_cont in H. rewrite bc_cont by lia. reflexivity.
  - rewrite uvalid_unfold by discriminate. unfold is_cont in H. cbn [dec1]. btest. reflexivity.
Qed.

Lemma UV_vsuffix y : UV y -> vsuffix FUtf8 y = true.
Proof.
  intros H; destruct H as [|ch c r H Hr]; [reflexivity|].
  cbn [vsuffix]. rewrite (classify_chr0 ch c r H).
  destruct (ch ++ r); reflexivity.
Qed.

Lemma UV_skipn x : UV x -> forall n,
  UV (skipn n x) \/ exists b t, skipn n x = b :: t /\ is_cont b = true.
Proof.
  induction 1 as [|ch c r H Hr IH]; intros n.
  - left. rewrite skipn_nil. constructor.
  - destruct n as [|n]; [left; cbn [skipn]; econstructor; eassumption|].
    destruct (Nat.lt_ge_cases (S n) (length ch)) as [Hl|Hl].
    + right. apply (chr_mid_skip ch c r (S n) H). lia.
    + rewrite skipn_app, skipn_all2 by exact Hl. cbn [app]. apply IH.
Qed.

Lemma uvalid_skipn_dich x n : uvalid x = true ->
  uvalid (skipn n x) = true \/ exists b t, skipn n x = b :: t /\ is_cont b = true.
Proof.
  intros H. apply uvalid_UV in H. destruct (UV_skipn x H n) as [H1|H1]; [left|right; exact H1].
  now apply UV_uvalid.
Qed.

Lemma utf8_suffix_ok x n : uvalid x = true -> vsuffix FUtf8 (skipn n x) = uvalid (skipn n x).
Proof.
  intros H. apply uvalid_UV in H. destruct (UV_skipn x H n) as [H1|(b & t & E & Hb)].
  - rewrite (UV_vsuffix _ H1), (UV_uvalid _ H1). reflexivity.
  - rewrite E. destruct (cont_head_bad b t Hb) as [-> ->]. reflexivity.
Qed.

Ltac cstep :=
  cbn [vprefix firstn length Nat.sub Nat.leb Nat.ltb nth Nat.eqb scan_back nslice skipn
       all_cont forallb andb negb app];
  try first [rewrite bc_ascii by lia | rewrite bc_cont by lia | rewrite bc_2 by lia
            | rewrite bc_3 by lia | rewrite bc_4 by lia];
  try rewrite !is_contb_true by lia.

(* a whole char at the end of a one-char buffer *)
Lemma chr_vprefix ch c : chr ch c -> vprefix FUtf8 ch = true.
Proof.
  intros H; destruct H; cbn [vprefix]; unfold classify; do 5 cstep.
  - reflexivity.
  - rewrite decode2 by assumption. reflexivity.
  - rewrite decode3 by assumption. reflexivity.
  - rewrite decode4 by assumption. reflexivity.
Qed.

(* a strict nonempty prefix of a char *)
Lemma chr_strict_prefix ch c k : chr ch c -> (0 < k < length ch)%nat ->
  vprefix FUtf8 (firstn k ch) = false /\ uvalid (firstn k ch) = false.
Proof.
  intros H Hk; destruct H; cbn [length] in Hk;
    destruct k as [|[|[|[|k]]]]; try lia; (split;
    [ cbn [firstn vprefix]; unfold classify; do 5 cstep; reflexivity
    | cbn [firstn]; rewrite uvalid_unfold by discriminate; cbn [dec1]; btest; reflexivity ]).
Qed.

(* ---------------------------------------------------------------- shifting classify *)
Definition shift (k : nat) (r : option (nat * nat * meaning)) : option (nat * nat * meaning) :=
  match r with Some (s, n, m) => Some ((k + s)%nat, n, m) | None => None end.

Lemma is_whole_shift k r : is_whole (shift k r) = is_whole r.
Proof. destruct r as [[[s n] m]|]; reflexivity. Qed.

Lemma nslice_shift (p y : list N) s n : nslice (p ++ y) (length p + s) n = nslice y s n.
Proof.
  unfold nslice. rewrite skipn_app.
  rewrite skipn_all2 by lia.
  replace (length p + s - length p)%nat with s by lia. reflexivity.
Qed.

Lemma nth_shift (p y : list N) s : nth (length p + s) (p ++ y) 0 = nth s y 0.
Proof. rewrite app_nth2 by lia. f_equal. lia. Qed.

Lemma scan_back_eq fuel buf idx back :
  scan_back fuel buf idx back =
  let start := (idx - back)%nat in
  if Nat.eqb start 0 then Some (0%nat, S idx, MSuffix)
  else
    let start' := (start - 1)%nat in
    let checked := S back in
    match byte_class (nth start' buf 0) with
    | BBad => None
    | BAscii => None
    | BStart n =>
      let avail := (length buf - start')%nat in
      if Nat.leb n avail then
        let bytes := nslice buf start' n in
        if Nat.ltb checked n && negb (all_cont (nslice bytes checked (n - checked))) then None
        else match decode bytes with Some m => Some (start', n, m) | None => None end
      else Some (start', avail, MPrefix (n - avail))
    | BCont =>
      if Nat.leb 3 checked then None
      else match fuel with O => None | S f => scan_back f buf idx checked end
    end.
Proof. destruct fuel; reflexivity. Qed.

Lemma scan_back_shift p y : is_contb (nth 0 y 0) = false ->
  forall fuel idx back, (idx < length y)%nat -> (back <= idx)%nat ->
  is_contb (nth (idx - back) y 0) = true ->
  scan_back fuel (p ++ y) (length p + idx) back = shift (length p) (scan_back fuel y idx back).
Proof.
  intros H0. induction fuel as [|f IH]; intros idx back Hi Hb Hc.
  - rewrite !scan_back_eq. cbv zeta.
    assert (Hne : (idx - back)%nat <> 0%nat) by (intros E; rewrite E in Hc; congruence).
    replace (length p + idx - back - 1)%nat with (length p + (idx - back - 1))%nat by lia.
    replace (Nat.eqb (length p + idx - back) 0) with false
      by (symmetry; apply Nat.eqb_neq; lia).
    replace (Nat.eqb (idx - back) 0) with false by (symmetry; apply Nat.eqb_neq; lia).
    rewrite nth_shift, app_length.
    replace (length p + length y - (length p + (idx - back - 1)))%nat
      with (length y - (idx - back - 1))%nat by lia.
    destruct (byte_class (nth (idx - back - 1) y 0)); try reflexivity.
    + rewrite !nslice_shift.
      destruct (Nat.leb n (length y - (idx - back - 1))); [|reflexivity].
      destruct (Nat.ltb (S back) n && _); [reflexivity|].
      destruct (decode _); reflexivity.
    + destruct (Nat.leb 3 (S back)); reflexivity.
  - rewrite (scan_back_eq (S f)), (scan_back_eq (S f) y). cbv zeta.
    assert (Hne : (idx - back)%nat <> 0%nat) by (intros E; rewrite E in Hc; congruence).
    replace (length p + idx - back - 1)%nat with (length p + (idx - back - 1))%nat by lia.
    replace (Nat.eqb (length p + idx - back) 0) with false
      by (symmetry; apply Nat.eqb_neq; lia).
    replace (Nat.eqb (idx - back) 0) with false by (symmetry; apply Nat.eqb_neq; lia).
    rewrite nth_shift, app_length.
    replace (length p + length y - (length p + (idx - back - 1)))%nat
      with (length y - (idx - back - 1))%nat by lia.
    destruct (byte_class (nth (idx - back - 1) y 0)) eqn:Eb; try reflexivity.
    + rewrite !nslice_shift.
      destruct (Nat.leb n (length y - (idx - back - 1))); [|reflexivity].
      destruct (Nat.ltb (S back) n && _); [reflexivity|].
      destruct (decode _); reflexivity.
    + destruct (Nat.leb 3 (S back)); [reflexivity|].
      apply IH; [exact Hi|lia|].
      replace (idx - S back)%nat with (idx - back - 1)%nat by lia.
      unfold is_contb. rewrite Eb. reflexivity.
Qed.

Lemma classify_shift p y i : is_contb (nth 0 y 0) = false -> (i < length y)%nat ->
  classify (p ++ y) (length p + i) = shift (length p) (classify y i).
Proof.
  intros H0 Hi. unfold classify.
  replace (Nat.leb (length (p ++ y)) (length p + i)) with false
    by (symmetry; apply Nat.leb_gt; rewrite app_length; lia).
  replace (Nat.leb (length y) i) with false by (symmetry; apply Nat.leb_gt; lia).
  rewrite nth_shift, app_length.
  replace (length p + length y - (length p + i))%nat with (length y - i)%nat by lia.
  destruct (byte_class (nth i y 0)) eqn:Eb; try reflexivity.
  - rewrite !nslice_shift. destruct (Nat.leb n (length y - i)); [|reflexivity].
    destruct (negb _); [reflexivity|]. destruct (decode _); reflexivity.
  - apply scan_back_shift; [exact H0|exact Hi|lia|].
    rewrite Nat.sub_0_r. unfold is_contb. rewrite Eb. reflexivity.
Qed.

(* ---------------------------------------------------------------- prefix / subseq *)
Lemma UV_head_nc r b t : UV r -> r = b :: t -> is_contb b = false.
Proof.
  intros H E. destruct H as [|ch c r' H Hr]; [discriminate|].
  destruct (chr_head ch c H) as (b' & t' & -> & Hb).
  cbn [app] in E. inversion E; subst. exact Hb.
Qed.

Lemma vprefix_chr_app ch c y : chr ch c -> y <> [] -> is_contb (nth 0 y 0) = false ->
  vprefix FUtf8 (ch ++ y) = vprefix FUtf8 y.
Proof.
  intros H Hy H0. cbn [vprefix].
  destruct (ch ++ y) eqn:E.
  { apply app_eq_nil in E. destruct E as [E _]. now apply chr_nonnil in H. }
  rewrite <- E. clear E.
  destruct y as [|b t]; [congruence|].
  rewrite app_length.
  replace (length ch + length (b :: t) - 1)%nat
    with (length ch + (length (b :: t) - 1))%nat by (cbn [length]; lia).
  rewrite classify_shift; [apply is_whole_shift|exact H0|cbn [length]; lia].
Qed.

Lemma UV_prefix_ok x : UV x -> forall k, vprefix FUtf8 (firstn k x) = uvalid (firstn k x).
Proof.
  induction 1 as [|ch c r H Hr IH]; intros k.
  - rewrite firstn_nil. reflexivity.
  - destruct k as [|k]; [reflexivity|].
    rewrite firstn_app.
    destruct (Nat.lt_ge_cases (S k) (length ch)) as [Hl|Hl].
    + replace (S k - length ch)%nat with 0%nat by lia. rewrite firstn_O, app_nil_r.
      destruct (chr_strict_prefix ch c (S k) H) as [-> ->]; [lia|reflexivity].
    + rewrite firstn_all2 by exact Hl.
      destruct (firstn (S k - length ch) r) as [|b t] eqn:Ey.
      * rewrite app_nil_r. rewrite (chr_vprefix ch c H).
        rewrite <- (app_nil_r ch). rewrite (uvalid_chr_app ch c [] H). reflexivity.
      * rewrite (uvalid_chr_app ch c _ H).
        rewrite (vprefix_chr_app ch c (b :: t) H); [|discriminate|].
        -- rewrite <- Ey. apply IH.
        -- cbn [nth]. destruct r as [|b' t']; [rewrite firstn_nil in Ey; discriminate|].
           destruct (S k - length ch)%nat; [discriminate|].
           cbn [firstn] in Ey. inversion Ey; subst.
           eapply UV_head_nc; [exact Hr|reflexivity].
Qed.

Lemma utf8_prefix_ok x k : uvalid x = true -> vprefix FUtf8 (firstn k x) = uvalid (firstn k x).
Proof. intros H. apply UV_prefix_ok. now apply uvalid_UV. Qed.

Lemma utf8_subseq_ok x off len : uvalid x = true ->
  vsubseq FUtf8 (firstn len (skipn off x)) = uvalid (firstn len (skipn off x)).
Proof.
  intros H. unfold vsubseq.
  destruct (uvalid_skipn_dich x off H) as [Hy|(b & t & E & Hb)].
  - rewrite (utf8_prefix_ok _ len Hy).
    destruct (uvalid (firstn len (skipn off x))) eqn:Ev; [|reflexivity].
    rewrite (UV_vsuffix _ (uvalid_UV _ Ev)). reflexivity.
  - rewrite E. destruct len as [|len]; [reflexivity|]. cbn [firstn].
    destruct (cont_head_bad b (firstn len t) Hb) as [-> ->]. apply andb_false_r.
Qed.

(* ---------------------------------------------------------------- pop_front_char_run scan *)
Lemma firstn_add_split (l : list N) : forall w j,
  firstn (w + j) l = firstn w l ++ firstn j (skipn w l).
Proof.
  induction l as [|a l IH]; intros w j.
  - rewrite skipn_nil, !firstn_nil. reflexivity.
  - destruct w as [|w]; [reflexivity|]. cbn [Nat.add firstn skipn app]. f_equal. apply IH.
Qed.

Lemma skipn_add_split (l : list N) : forall w j, skipn (w + j) l = skipn j (skipn w l).
Proof.
  induction l as [|a l IH]; intros w j.
  - rewrite !skipn_nil. reflexivity.
  - destruct w as [|w]; [reflexivity|]. cbn [Nat.add skipn]. apply IH.
Qed.

Lemma first_char_utf8 y : y <> [] ->
  first_char FUtf8 y =
  match dec1 y with Some (c, r) => Some (Some (c, llen y - llen r)) | None => Some None end.
Proof. destruct y; [congruence|reflexivity]. Qed.

Lemma find_mismatch_ok kind m class y : forall fuel pos, uvalid y = true -> (length y <= fuel)%nat ->
  exists r, find_mismatch fuel FUtf8 kind m class y pos = Some r /\
    match r with
    | None => True
    | Some idx => exists j, idx = pos + N.of_nat j /\ (j < length y)%nat /\
                  uvalid (firstn j y) = true /\ uvalid (skipn j y) = true
    end.
Proof.
  intros fuel; revert y. induction fuel as [|fu IH]; intros y pos Hv Hl.
  - destruct y; [|cbn [length] in Hl; lia]. exists None. split; [reflexivity|exact I].
  - destruct y as [|b t]; [exists None; split; [reflexivity|exact I]|].
    remember (b :: t) as y eqn:Ey. assert (Hne : y <> []) by (rewrite Ey; discriminate).
    destruct (uvalid_first y Hv Hne) as (c & r & Hd & Hr & Hlt & Hsk & Hfi).
    cbn [find_mismatch]. rewrite (first_char_utf8 y Hne), Hd.
    destruct (negb (classify_char kind m c =? class)).
    + exists (Some pos). split; [reflexivity|]. exists 0%nat.
      split; [lia|]. split; [rewrite Ey; cbn [length]; lia|].
      split; [reflexivity|exact Hv].
    + assert (Ew : N.to_nat (llen y - llen r) = (length y - length r)%nat)
        by (unfold llen; lia).
      rewrite Ew, Hsk.
      destruct (IH r (pos + (llen y - llen r)) Hr) as (res & Hres & Hm); [lia|].
      exists res. split; [exact Hres|].
      destruct res as [idx|]; [|exact I].
      destruct Hm as (j & Hj & Hjl & Hf & Hs).
      exists ((length y - length r) + j)%nat.
      split; [unfold llen in Hj; lia|]. split; [lia|]. split.
      * rewrite firstn_add_split, Hsk. apply uvalid_app; assumption.
      * rewrite skipn_add_split, Hsk. exact Hs.
Qed.
