(* wp rules for the primitives: bytes_of, owned_copy, drop_t, grow, write_at,
   make_buf_shared, incref, and the pure re-slicing steps. *)
From Coq Require Import List NArith Bool Lia Arith Permutation.
From HV Require Import Base.Utf8 Tendril.Heap Tendril.TModel Tendril.TSpec Tendril.TInv.
Import ListNotations.
Local Open Scope N_scope.

Lemma hupd_same h id v : hupd h id v id = v.
Proof. unfold hupd. now rewrite N.eqb_refl. Qed.
Lemma hupd_other h id v j : j <> id -> hupd h id v j = h j.
Proof. unfold hupd. intros H. destruct (N.eqb_spec j id); congruence. Qed.

Lemma HInv_buf s ts id b : HInv s ts -> hp s id = Some b ->
  id < nxt s /\ buf_ok b (nown id ts) (nsh id ts).
Proof. intros [H _] Hb. specialize (H id). now rewrite Hb in H. Qed.

Lemma HInv_wf s ts t : HInv s ts -> In t ts -> wf_t s t.
Proof. intros [_ H] Hin. rewrite Forall_forall in H. auto. Qed.

Lemma HInv_fresh s ts : HInv s ts -> hp s (nxt s) = None.
Proof.
  intros [H _]. specialize (H (nxt s)). destruct (hp s (nxt s)); auto. destruct H. lia.
Qed.

(* ---------------------------------------------------------------- traces of single steps *)
Lemma trace_rd s id b lo hi : hp s id = Some b -> lo <= hi -> hi <= acap b ->
  trace_ok s [RdEv id lo hi] s.
Proof.
  intros Hb H1 H2. exists (sh_of s). split; [|apply sh_eq_refl].
  cbn. rewrite Hb. cbn.
  replace ((lo <=? hi) && (hi <=? acap b)) with true; auto.
  symmetry. apply andb_true_iff. split; apply N.leb_le; auto.
Qed.

Lemma sh_eq_upd s s' id b b' :
  hp s id = Some b -> (forall j, hp s' j = hupd (hp s) id (Some b') j) -> nxt s' = nxt s -> acap b' = acap b ->
  sh_eq (sh_of s) (sh_of s').
Proof.
  intros Hb Hh Hn Hc. split; cbn; auto. intros j. rewrite Hh. unfold hupd.
  destruct (N.eqb_spec j id); subst; auto. rewrite Hb. cbn. congruence.
Qed.

Lemma trace_silent s s' id b b' :
  hp s id = Some b -> (forall j, hp s' j = hupd (hp s) id (Some b') j) -> nxt s' = nxt s -> acap b' = acap b ->
  trace_ok s [] s'.
Proof. intros. apply trace_nil. eapply sh_eq_upd; eauto. Qed.

Lemma trace_wr s s' id b b' lo hi :
  hp s id = Some b -> (forall j, hp s' j = hupd (hp s) id (Some b') j) -> nxt s' = nxt s -> acap b' = acap b ->
  lo <= hi -> hi <= acap b -> trace_ok s [WrEv id lo hi] s'.
Proof.
  intros Hb Hh Hn Hc H1 H2. exists (sh_of s). split; [|eapply sh_eq_upd; eauto].
  cbn. rewrite Hb. cbn.
  replace ((lo <=? hi) && (hi <=? acap b)) with true; auto.
  symmetry. apply andb_true_iff. split; apply N.leb_le; auto.
Qed.

Lemma trace_alloc s s' id b' c :
  id = nxt s -> (forall j, hp s' j = hupd (hp s) id (Some b') j) -> nxt s' = id + 1 -> acap b' = c ->
  trace_ok s [Alloc id c] s'.
Proof.
  intros -> Hh Hn Hc. eexists. split.
  - cbn. rewrite N.leb_refl. reflexivity.
  - split; cbn; auto. intros j. rewrite Hh. unfold hupd. destruct (j =? nxt s); cbn; congruence.
Qed.

Lemma trace_realloc s s' id b b' c :
  hp s id = Some b -> (forall j, hp s' j = hupd (hp s) id (Some b') j) -> nxt s' = nxt s -> acap b' = c ->
  trace_ok s [Realloc id c] s'.
Proof.
  intros Hb Hh Hn Hc. eexists. split.
  - cbn. rewrite Hb. cbn. reflexivity.
  - split; cbn; auto. intros j. rewrite Hh. unfold hupd. destruct (j =? id); cbn; congruence.
Qed.

Lemma trace_free s s' id b c :
  hp s id = Some b -> acap b = c -> (forall j, hp s' j = hupd (hp s) id None j) -> nxt s' = nxt s ->
  trace_ok s [Free id c] s'.
Proof.
  intros Hb Hc Hh Hn. eexists. split.
  - cbn. rewrite Hb. cbn. rewrite Hc, N.eqb_refl. reflexivity.
  - split; cbn; auto. intros j. rewrite Hh. unfold hupd. destruct (j =? id); cbn; congruence.
Qed.

(* ---------------------------------------------------------------- changing one buffer *)
(* tendrils that do not name the buffer are untouched *)
Lemma wf_frame s s' id v fr :
  (forall j, hp s' j = hupd (hp s) id v j) -> (forall u, In u fr -> tid u <> Some id) ->
  Forall (wf_t s) fr -> Forall (wf_t s') fr.
Proof.
  intros Hh Hn H. rewrite Forall_forall in *. intros u Hu.
  eapply wf_t_ext; [|apply H, Hu]. intros j Hj. rewrite Hh. apply hupd_other.
  intros ->. eapply Hn; eauto.
Qed.

Lemma view_frame s s' id v fr :
  (forall j, hp s' j = hupd (hp s) id v j) -> (forall u, In u fr -> tid u <> Some id) -> frame s s' fr.
Proof.
  intros Hh Hn u Hu. apply view_ext. intros j Hj. rewrite Hh, hupd_other; auto.
  intros ->. eapply Hn; eauto.
Qed.

(* the buffer keeps capacity and data (refcount / header cap change): nobody notices *)
Lemma wf_keep s s' id b b' ts :
  hp s id = Some b -> (forall j, hp s' j = hupd (hp s) id (Some b') j) -> acap b' = acap b -> data b' = data b ->
  Forall (wf_t s) ts -> Forall (wf_t s') ts.
Proof.
  intros Hb Hh Hc Hd H. rewrite Forall_forall in *. intros u Hu. specialize (H u Hu).
  destruct u as [bs|i len cap|i off len]; cbn in *; auto.
  - rewrite Hh. unfold hupd. destruct (N.eqb_spec i id); subst; auto.
    destruct H as [b0 [H0 [H1 H2]]]. rewrite Hb in H0. injection H0 as <-.
    exists b'. rewrite Hc, Hd. auto.
  - rewrite Hh. unfold hupd. destruct (N.eqb_spec i id); subst; auto.
    destruct H as [b0 [H0 H1]]. rewrite Hb in H0. injection H0 as <-.
    exists b'. rewrite Hd. auto.
Qed.

Lemma view_keep s s' id b b' t :
  hp s id = Some b -> (forall j, hp s' j = hupd (hp s) id (Some b') j) -> data b' = data b -> view s' t = view s t.
Proof.
  intros Hb Hh Hd. apply view_ext. intros j _. rewrite Hh. unfold hupd.
  destruct (N.eqb_spec j id); subst; auto. rewrite Hb. cbn. congruence.
Qed.

(* first component of the invariant after replacing buffer [id] *)
Lemma HInv_upd s s' id v ts ts' :
  (forall j, hp s' j = hupd (hp s) id v j) -> nxt s <= nxt s' ->
  match v with
  | Some b' => id < nxt s' /\ buf_ok b' (nown id ts') (nsh id ts')
  | None => nown id ts' = 0%nat /\ nsh id ts' = 0%nat
  end ->
  (forall j, j <> id -> nown j ts' = nown j ts /\ nsh j ts' = nsh j ts) ->
  Forall (wf_t s') ts' ->
  HInv s ts -> HInv s' ts'.
Proof.
  intros Hh Hn Hv Hc Hw [H1 _]. split; auto.
  intros j. rewrite Hh. unfold hupd. destruct (N.eqb_spec j id) as [->|Hj]; auto.
  specialize (H1 j). destruct (Hc j Hj) as [-> ->].
  destruct (hp s j); auto. destruct H1. split; auto. lia.
Qed.

(* ---------------------------------------------------------------- bytes_of *)
Lemma bytes_of_ok s ts t E : HInv s ts -> In t ts ->
  wp (bytes_of t) s (fun x s' ev => x = view s t /\ s' = s /\ trace_ok s ev s) E.
Proof.
  intros HI Hin. pose proof (HInv_wf _ _ _ HI Hin) as W.
  destruct t as [bs|id len cap|id off len]; unfold wp; cbn.
  - repeat split. apply trace_refl.
  - destruct W as [b [Hb [Hc Hl]]]. rewrite Hb. repeat split.
    destruct (HInv_buf _ _ _ _ HI Hb) as [_ [Hd _]].
    eapply trace_rd; eauto; lia.
  - destruct W as [b [Hb Hl]]. rewrite Hb. repeat split.
    destruct (HInv_buf _ _ _ _ HI Hb) as [_ [Hd _]].
    eapply trace_rd; eauto; lia.
Qed.

(* ---------------------------------------------------------------- pure steps *)
Lemma HInv_inline s fr bs : llen bs <= MAX_INLINE_LEN -> HInv s fr -> HInv s (Inline bs :: fr).
Proof.
  intros Hl [H1 H2]. split; [|constructor; auto].
  intros id. specialize (H1 id). rewrite nown_cons, nsh_cons. exact H1.
Qed.

Lemma HInv_uninline s fr bs : HInv s (Inline bs :: fr) -> HInv s fr.
Proof.
  intros [H1 H2]. split; [|now inversion H2].
  intros id. specialize (H1 id). rewrite nown_cons, nsh_cons in H1. exact H1.
Qed.

Lemma HInv_reslice s fr id o l o2 l2 :
  HInv s (Shared id o l :: fr) ->
  (forall b, hp s id = Some b -> o2 + l2 <= llen (data b)) ->
  HInv s (Shared id o2 l2 :: fr).
Proof.
  intros [H1 H2] Hb. split.
  - intros j. specialize (H1 j). rewrite nown_cons, nsh_cons in *. exact H1.
  - inversion H2 as [|? ? W F]; subst. constructor; auto.
    destruct W as [b [W1 W2]]. exists b. auto.
Qed.

Lemma HInv_owned_len s fr id len len' c :
  HInv s (Owned id len c :: fr) ->
  (forall b, hp s id = Some b -> len' <= llen (data b)) ->
  HInv s (Owned id len' c :: fr).
Proof.
  intros [H1 H2] Hb. split.
  - intros j. specialize (H1 j). rewrite nown_cons, nsh_cons in *. exact H1.
  - inversion H2 as [|? ? W F]; subst. constructor; auto.
    destruct W as [b [W1 [W2 W3]]]. exists b. auto.
Qed.

(* ---------------------------------------------------------------- owned_copy *)
Lemma norefs_fresh s fr : HInv s fr -> forall u, In u fr -> tid u <> Some (nxt s).
Proof.
  intros HI u Hu. pose proof (HInv_fresh _ _ HI) as Hf.
  destruct HI as [H1 _]. specialize (H1 (nxt s)). rewrite Hf in H1. destruct H1.
  eapply norefs_not_in; eauto.
Qed.

Lemma owned_copy_ok s fr x E : HInv s fr ->
  wp (owned_copy x) s (fun t s' ev => exists id c, t = Owned id (llen x) c /\ llen x <= c /\
        HInv s' (t :: fr) /\ frame s s' fr /\ trace_ok s ev s' /\ view s' t = x /\ nxt s <= nxt s') E.
Proof.
  intros HI. unfold owned_copy. destruct (MAXU32 <? llen x); [exact I|].
  unfold wp, bind, with_capacity.
  remember (round16 (N.max (llen x) MIN_CAP)) as c eqn:Ec.
  destruct (MAXU32 <? c); [exact I|].
  cbn [fst snd]. unfold write_at. cbn [hp nxt]. rewrite hupd_same.
  cbn [ret data rc hcap acap firstn N.to_nat app].
  pose proof (HInv_fresh _ _ HI) as Hf.
  pose proof (norefs_fresh _ _ HI) as Hn.
  set (id := nxt s) in *.
  set (b1 := mkBuf 1 0 c x).
  set (s' := mkSt _ _).
  assert (Hh : forall j, hp s' j = hupd (hp s) id (Some b1) j).
  { intros j. subst s'. cbn [hp]. unfold hupd. destruct (j =? id); reflexivity. }
  assert (Hc : llen x <= c).
  { subst c. pose proof (round16_ge (N.max (llen x) MIN_CAP)). lia. }
  assert (Hz : nown id fr = 0%nat /\ nsh id fr = 0%nat).
  { destruct HI as [H1 _]. specialize (H1 id). now rewrite Hf in H1. }
  exists id, c. split; [reflexivity|]. split; [exact Hc|].
  split; [|split; [|split; [|split]]].
  - refine (HInv_upd s s' id (Some b1) fr _ Hh _ _ _ _ HI).
    + subst s'. cbn. lia.
    + split; [subst s'; cbn; lia|]. split; [exact Hc|].
      left. rewrite nown_cons, nsh_cons. cbn [refs_own refs_sh]. rewrite N.eqb_refl.
      split; [lia|split; [lia|reflexivity]].
    + intros j Hj. rewrite nown_cons, nsh_cons. cbn [refs_own refs_sh].
      destruct (N.eqb_spec id j); [congruence|]. auto.
    + constructor.
      * exists b1. rewrite Hh, hupd_same. repeat split; auto. subst b1; cbn [data]. lia.
      * eapply wf_frame; eauto. now destruct HI.
  - eapply view_frame; eauto.
  - apply (trace_trans s [Alloc id c] (mkSt (hupd (hp s) id (Some (mkBuf 1 0 c []))) (id + 1))
                       [WrEv id 0 (0 + llen x)] s').
    + eapply trace_alloc; cbn [hp nxt acap]; eauto.
    + eapply trace_wr with (b := mkBuf 1 0 c []) (b' := b1); cbn [hp nxt acap].
      * apply hupd_same.
      * intros j. subst s'. cbn [hp]. reflexivity.
      * reflexivity.
      * reflexivity.
      * lia.
      * lia.
  - unfold view. rewrite Hh, hupd_same. subst b1. cbn [data]. apply slice_full.
  - subst s'. cbn. lia.
Qed.

(* ---------------------------------------------------------------- drop_t *)
Lemma drop_ok s fr t E : HInv s (t :: fr) ->
  wp (drop_t t) s (fun _ s' ev => HInv s' fr /\ frame s s' fr /\ trace_ok s ev s' /\ nxt s' = nxt s) E.
Proof.
  intros HI. destruct t as [bs|id len cap|id off len].
  - cbn. unfold wp, ret. split; [eapply HInv_uninline; eauto|]. split; [apply frame_refl|].
    split; [apply trace_refl|reflexivity].
  - pose proof (HInv_wf _ _ _ HI (or_introl eq_refl)) as [b [Hb [Hc Hl]]].
    cbn. unfold wp, destroy. rewrite Hb.
    destruct (HInv_buf _ _ _ _ HI Hb) as [Hlt [Hd Hcase]].
    rewrite nown_cons, nsh_cons in Hcase. cbn [refs_own refs_sh] in Hcase. rewrite N.eqb_refl in Hcase.
    assert (Hz : nown id fr = 0%nat /\ nsh id fr = 0%nat) by lia.
    set (s' := mkSt _ _).
    assert (Hh : forall j, hp s' j = hupd (hp s) id None j) by (intros; reflexivity).
    assert (Hn : forall u, In u fr -> tid u <> Some id).
    { intros u Hu. destruct Hz. eapply norefs_not_in; eauto. }
    split; [|split; [|split]].
    + refine (HInv_upd s s' id None _ fr Hh _ _ _ _ HI).
      * cbn. lia.
      * exact Hz.
      * intros j Hj. rewrite nown_cons, nsh_cons. cbn [refs_own refs_sh].
        destruct (N.eqb_spec id j); [congruence|]. auto.
      * eapply wf_frame; eauto. destruct HI as [_ F]. now inversion F.
    + eapply view_frame; eauto.
    + eapply trace_free; eauto.
    + reflexivity.
  - pose proof (HInv_wf _ _ _ HI (or_introl eq_refl)) as [b [Hb Hl]].
    destruct (HInv_buf _ _ _ _ HI Hb) as [Hlt [Hd Hcase]].
    rewrite nown_cons, nsh_cons in Hcase. cbn [refs_own refs_sh] in Hcase. rewrite N.eqb_refl in Hcase.
    destruct Hcase as [Hcase|[Ho [Hs [Hr Hcap]]]]; [lia|].
    cbn. unfold wp. rewrite Hb.
    destruct (N.eqb_spec (rc b) 0) as [H0|H0]; [lia|].
    destruct (N.eqb_spec (rc b) 1) as [H1|H1].
    + (* last reference: destroy *)
      assert (Hz : nown id fr = 0%nat /\ nsh id fr = 0%nat) by lia.
      unfold bind, set_buf, destroy. cbn [hp nxt]. rewrite hupd_same.
      set (s' := mkSt _ _).
      assert (Hh : forall j, hp s' j = hupd (hp s) id None j).
      { intros j. subst s'. cbn [hp]. unfold hupd. destruct (j =? id); reflexivity. }
      assert (Hn : forall u, In u fr -> tid u <> Some id).
      { intros u Hu. destruct Hz. eapply norefs_not_in; eauto. }
      split; [|split; [|split]].
      * refine (HInv_upd s s' id None _ fr Hh _ _ _ _ HI).
        -- subst s'. cbn. lia.
        -- exact Hz.
        -- intros j Hj. rewrite nown_cons, nsh_cons. cbn [refs_own refs_sh].
           destruct (N.eqb_spec id j); [congruence|]. auto.
        -- eapply wf_frame; eauto. destruct HI as [_ F]. now inversion F.
      * eapply view_frame; eauto.
      * cbn [app]. eapply trace_free; eauto.
      * reflexivity.
    + (* other sharers remain *)
      unfold set_buf. set (b' := mkBuf _ _ _ _). set (s' := mkSt _ _).
      assert (Hh : forall j, hp s' j = hupd (hp s) id (Some b') j) by (intros; reflexivity).
      split; [|split; [|split]].
      * refine (HInv_upd s s' id (Some b') _ fr Hh _ _ _ _ HI).
        -- subst s'. cbn. lia.
        -- split; [subst s'; cbn; lia|]. split; [subst b'; cbn; lia|].
           right. subst b'. cbn [rc hcap acap]. repeat split; try lia.
        -- intros j Hj. rewrite nown_cons, nsh_cons. cbn [refs_own refs_sh].
           destruct (N.eqb_spec id j); [congruence|]. auto.
        -- eapply wf_keep with (b := b) (b' := b'); eauto. destruct HI as [_ F]. now inversion F.
      * intros u _. eapply view_keep; eauto.
      * eapply trace_silent; eauto.
      * reflexivity.
Qed.

(* ---------------------------------------------------------------- an owned buffer has no other user *)
Lemma owned_alone s fr id len c : HInv s (Owned id len c :: fr) ->
  exists b, hp s id = Some b /\ acap b = c /\ len <= llen (data b) /\ llen (data b) <= c /\ rc b = 1 /\
            id < nxt s /\ nown id fr = 0%nat /\ nsh id fr = 0%nat /\ (forall u, In u fr -> tid u <> Some id).
Proof.
  intros HI. pose proof (HInv_wf _ _ _ HI (or_introl eq_refl)) as [b [Hb [Hc Hl]]].
  destruct (HInv_buf _ _ _ _ HI Hb) as [Hlt [Hd Hcase]].
  rewrite nown_cons, nsh_cons in Hcase. cbn [refs_own refs_sh] in Hcase. rewrite N.eqb_refl in Hcase.
  destruct Hcase as [[Ho [Hs Hr]]|[Ho _]]; [|lia].
  exists b. repeat split; auto; try lia.
  intros u Hu. eapply norefs_not_in; eauto; lia.
Qed.

Lemma other_counts id t t' fr :
  (forall j, j <> id -> refs_own j t' = refs_own j t /\ refs_sh j t' = refs_sh j t) ->
  forall j, j <> id -> nown j (t' :: fr) = nown j (t :: fr) /\ nsh j (t' :: fr) = nsh j (t :: fr).
Proof. intros H j Hj. rewrite !nown_cons, !nsh_cons. destruct (H j Hj) as [-> ->]. auto. Qed.

(* ---------------------------------------------------------------- grow *)
Lemma grow_ok s fr id len c cap E : HInv s (Owned id len c :: fr) ->
  wp (grow id c cap) s (fun c' s' ev =>
      HInv s' (Owned id len c' :: fr) /\ frame s s' fr /\ trace_ok s ev s' /\ c <= c' /\ cap <= c' /\
      view s' (Owned id len c') = view s (Owned id len c) /\ nxt s' = nxt s) E.
Proof.
  intros HI. destruct (owned_alone _ _ _ _ _ HI) as [b [Hb [Hc [Hl [Hd [Hr [Hlt [Hzo [Hzs Hn]]]]]]]]].
  unfold wp, grow. destruct (N.leb_spec cap c) as [Hle|Hgt].
  - split; [exact HI|]. split; [apply frame_refl|]. split; [apply trace_refl|]. repeat split; lia.
  - remember (next_pow2 cap) as p eqn:Ep. destruct (2147483648 <? p); [exact I|].
    remember (round16 p) as c' eqn:Ec'. destruct (MAXU32 <? c'); [exact I|]. rewrite Hb.
    assert (Hp : cap <= c'). { subst. pose proof (next_pow2_ge cap). pose proof (round16_ge (next_pow2 cap)). lia. }
    set (b' := mkBuf _ _ _ _). set (s' := mkSt _ _).
    assert (Hh : forall j, hp s' j = hupd (hp s) id (Some b') j) by (intros; reflexivity).
    split; [|split; [|split; [|repeat split; try lia]]].
    + refine (HInv_upd s s' id (Some b') _ _ Hh _ _ _ _ HI).
      * subst s'; cbn; lia.
      * split; [subst s'; cbn; lia|]. split; [subst b'; cbn; lia|].
        left. rewrite nown_cons, nsh_cons. cbn [refs_own refs_sh]. rewrite N.eqb_refl.
        split; [lia|split; [lia|exact Hr]].
      * apply other_counts. intros j Hj. cbn [refs_own refs_sh]. auto.
      * constructor.
        -- exists b'. rewrite Hh, hupd_same. subst b'; cbn [acap data]. auto.
        -- eapply wf_frame; eauto. destruct HI as [_ F]. now inversion F.
    + eapply view_frame; eauto.
    + eapply trace_realloc; eauto.
    + unfold view. rewrite Hh, hupd_same, Hb. reflexivity.
Qed.

(* ---------------------------------------------------------------- write_at on an owned buffer *)
Lemma write_ok s fr id len c pos bs E : HInv s (Owned id len c :: fr) ->
  pos <= len -> pos + llen bs <= c ->
  wp (write_at id pos bs) s (fun _ s' ev =>
      HInv s' (Owned id (pos + llen bs) c :: fr) /\ frame s s' fr /\ trace_ok s ev s' /\
      view s' (Owned id (pos + llen bs) c) = firstn (N.to_nat pos) (view s (Owned id len c)) ++ bs /\
      nxt s' = nxt s) E.
Proof.
  intros HI Hpos Hcap. destruct (owned_alone _ _ _ _ _ HI) as [b [Hb [Hc [Hl [Hd [Hr [Hlt [Hzo [Hzs Hn]]]]]]]]].
  unfold wp, write_at. rewrite Hb.
  set (b' := mkBuf _ _ _ _). set (s' := mkSt _ _).
  assert (Hh : forall j, hp s' j = hupd (hp s) id (Some b') j) by (intros; reflexivity).
  assert (Hlen : llen (data b') = pos + llen bs).
  { subst b'. cbn [data]. rewrite llen_app, llen_firstn. lia. }
  split; [|split; [|split; [|split]]].
  - refine (HInv_upd s s' id (Some b') _ _ Hh _ _ _ _ HI).
    + subst s'; cbn; lia.
    + split; [subst s'; cbn; lia|]. split; [rewrite Hlen; subst b'; cbn [acap]; lia|].
      left. rewrite nown_cons, nsh_cons. cbn [refs_own refs_sh]. rewrite N.eqb_refl.
      split; [lia|split; [lia|exact Hr]].
    + apply other_counts. intros j Hj. cbn [refs_own refs_sh]. auto.
    + constructor.
      * exists b'. rewrite Hh, hupd_same. split; auto. split; [subst b'; cbn [acap]; auto|lia].
      * eapply wf_frame; eauto. destruct HI as [_ F]. now inversion F.
  - eapply view_frame; eauto.
  - eapply trace_wr with (b := b) (b' := b'); eauto; lia.
  - unfold view. rewrite Hh, hupd_same, Hb. rewrite <- Hlen. rewrite slice_full.
    subst b'. cbn [data]. f_equal. rewrite slice_0, firstn_firstn. f_equal. lia.
  - reflexivity.
Qed.

(* ---------------------------------------------------------------- make_buf_shared *)
Lemma mbs_ok s fr t E : HInv s (t :: fr) -> tid t <> None ->
  wp (make_buf_shared t) s (fun t1 s' ev => exists id o, t1 = Shared id o (tlen t) /\ tid t = Some id /\
      (match t with Shared _ o0 _ => o = o0 | _ => o = 0 end) /\
      HInv s' (t1 :: fr) /\ (forall u, view s' u = view s u) /\ trace_ok s ev s' /\
      view s' t1 = view s t /\ nxt s' = nxt s /\ ev = []) E.
Proof.
  intros HI Ht. destruct t as [bs|id len c|id off len]; [cbn in Ht; congruence| |].
  - destruct (owned_alone _ _ _ _ _ HI) as [b [Hb [Hc [Hl [Hd [Hr [Hlt [Hzo [Hzs Hn]]]]]]]]].
    unfold wp, make_buf_shared. rewrite Hb.
    set (b' := mkBuf _ _ _ _). set (s' := mkSt _ _).
    assert (Hh : forall j, hp s' j = hupd (hp s) id (Some b') j) by (intros; reflexivity).
    exists id, 0. split; [reflexivity|]. split; [reflexivity|]. split; [reflexivity|].
    assert (Hv : forall u, view s' u = view s u).
    { intros u. eapply view_keep; eauto. }
    split; [|split; [exact Hv|split; [|split; [|split]]]].
    + refine (HInv_upd s s' id (Some b') _ _ Hh _ _ _ _ HI).
      * subst s'; cbn; lia.
      * split; [subst s'; cbn; lia|]. split; [subst b'; cbn; lia|].
        right. rewrite nown_cons, nsh_cons. cbn [refs_own refs_sh]. rewrite N.eqb_refl.
        subst b'. cbn [rc hcap acap]. repeat split; try lia.
      * apply other_counts. intros j Hj. cbn [refs_own refs_sh]. destruct (N.eqb_spec id j); [congruence|auto].
      * constructor.
        -- exists b'. rewrite Hh, hupd_same. split; auto.
        -- eapply wf_keep with (b := b) (b' := b'); eauto. destruct HI as [_ F]. now inversion F.
    + eapply trace_silent; eauto.
    + unfold view. rewrite Hh, hupd_same, Hb. reflexivity.
    + reflexivity.
    + reflexivity.
  - unfold wp, make_buf_shared. exists id, off. cbn [tlen tid].
    split; [reflexivity|]. split; [reflexivity|]. split; [reflexivity|]. split; [exact HI|].
    split; [reflexivity|]. split; [apply trace_refl|]. repeat split.
Qed.

(* ---------------------------------------------------------------- incref: a second sharer appears *)
Lemma shared_buf s fr id o l : HInv s (Shared id o l :: fr) ->
  exists b, hp s id = Some b /\ o + l <= llen (data b) /\ llen (data b) <= acap b /\
            nown id fr = 0%nat /\ rc b = N.of_nat (S (nsh id fr)) /\ hcap b = acap b /\ id < nxt s.
Proof.
  intros HI. pose proof (HInv_wf _ _ _ HI (or_introl eq_refl)) as [b [Hb Hl]].
  destruct (HInv_buf _ _ _ _ HI Hb) as [Hlt [Hd Hcase]].
  rewrite nown_cons, nsh_cons in Hcase. cbn [refs_own refs_sh] in Hcase. rewrite N.eqb_refl in Hcase.
  destruct Hcase as [[Ho [Hs Hr]]|[Ho [Hs [Hr Hcap]]]]; [lia|].
  exists b. repeat split; auto; lia.
Qed.

Lemma incref_ok s fr id o l o2 l2 E : HInv s (Shared id o l :: fr) ->
  (forall b, hp s id = Some b -> o2 + l2 <= llen (data b)) ->
  wp (incref id) s (fun _ s' ev =>
      HInv s' (Shared id o l :: Shared id o2 l2 :: fr) /\ (forall u, view s' u = view s u) /\
      trace_ok s ev s' /\ nxt s' = nxt s /\ ev = []) E.
Proof.
  intros HI Hb2. destruct (shared_buf _ _ _ _ _ HI) as [b [Hb [Hl [Hd [Hzo [Hr [Hcap Hlt]]]]]]].
  unfold wp, incref. rewrite Hb.
  set (b' := mkBuf _ _ _ _). set (s' := mkSt _ _).
  assert (Hh : forall j, hp s' j = hupd (hp s) id (Some b') j) by (intros; reflexivity).
  split; [|split; [|split; [|split]]].
  - refine (HInv_upd s s' id (Some b') _ _ Hh _ _ _ _ HI).
    + subst s'; cbn; lia.
    + split; [subst s'; cbn; lia|]. split; [subst b'; cbn; lia|].
      right. rewrite !nown_cons, !nsh_cons. cbn [refs_own refs_sh]. rewrite N.eqb_refl.
      subst b'. cbn [rc hcap acap]. repeat split; try lia.
    + intros j Hj. rewrite !nown_cons, !nsh_cons. cbn [refs_own refs_sh].
      destruct (N.eqb_spec id j); [congruence|auto].
    + assert (F : Forall (wf_t s') (Shared id o l :: fr)).
      { eapply wf_keep with (b := b) (b' := b'); eauto. now destruct HI. }
      inversion F; subst. constructor; auto. constructor; auto.
      exists b'. rewrite Hh, hupd_same. split; auto. subst b'; cbn [data]. auto.
  - intros u. eapply view_keep; eauto.
  - eapply trace_silent; eauto.
  - reflexivity.
  - reflexivity.
Qed.
