(* History-level theorems for C11 / C12 (sequential part). *)
From Coq Require Import List NArith Bool Lia Arith Permutation.
From HV Require Import Base.Utf8 Tendril.Heap Tendril.TModel Tendril.TSpec Tendril.TUtf8 Tendril.TInv
     Tendril.TPrim Tendril.TFmt Tendril.TOps Tendril.TPool Tendril.TExec.
Import ListNotations.
Local Open Scope N_scope.

(* ------------------------------------------------------------------ observation = abstraction *)
Definition snap_abs (snap : list (option (fmt * kind * N * list byte))) : spool :=
  map (fun e => match e with Some (f, _, _, v) => Some (f, v) | None => None end) snap.

Lemma snap_abs_snapshot s p : snap_abs (snapshot s p) = abs s p.
Proof.
  unfold snap_abs, snapshot, abs. rewrite map_map. apply map_ext. intros [[f t]|]; reflexivity.
Qed.

Definition snap_ok (snap : list (option (fmt * kind * N * list byte))) : Prop :=
  forall f k l v, In (Some (f, k, l, v)) snap -> l = llen v /\ fvalid_inv f v = true /\
                  (k = KInline -> l <= MAX_INLINE_LEN).

Lemma snapshot_ok s p : PInv s p -> snap_ok (snapshot s p).
Proof.
  intros [HI PV] f k l v Hin. unfold snapshot in Hin. apply in_map_iff in Hin.
  destruct Hin as [[[g t]|] [He Hin]]; [|discriminate]. injection He as <- <- <- <-.
  destruct (In_nth_error _ _ Hin) as [i Hi].
  assert (G : get p i = Some (g, t)).
  { exact (f_equal (fun o : option (option entry) => match o with Some (Some e) => Some e | _ => None end) Hi). }
  pose proof (HInv_wf _ _ _ HI (get_in_tendrils _ _ _ _ G)) as W.
  split; [symmetry; apply view_len, W|]. split; [eapply pool_valid_get; eauto|].
  destruct t; cbn; try discriminate. intros _. exact W.
Qed.

(* model outputs against specification outputs; a Panic (u32 overflow) ends the
   model history early *)
Fixpoint match_outs (outs : list step_out) (sp : list (outcome * spool)) : Prop :=
  match outs, sp with
  | [], [] => True
  | [SPanic _], _ :: _ => True
  | SOk r ev snap :: outs', (r', sp') :: rest =>
    r = r' /\ snap_abs snap = sp' /\ snap_ok snap /\ match_outs outs' rest
  | _, _ => False
  end.

Definition events_of (outs : list step_out) : list event :=
  flat_map (fun o => match o with SOk _ ev _ => ev | _ => [] end) outs.

Definition no_ub (outs : list step_out) : Prop :=
  forall o, In o outs -> match o with SUB _ => False | _ => True end.

Lemma exec_cases o p s : PInv s p ->
  match exec_op o p s with
  | Ok ((out, p'), s', ev) => step_post o s p (out, p') s' ev
  | Err _ => False
  | Panic _ => True
  | UB _ => False
  end.
Proof.
  intros HP. pose proof (exec_ok o p s HP) as H. unfold wp, noerr in H.
  destruct (exec_op o p s) as [[[[out p'] s'] ev]| | |]; auto.
Qed.

(* invariant, trace and no undefined behaviour, for every history *)
Theorem run_safe : forall ops s p, PInv s p ->
  no_ub (fst (run ops s p)) /\
  match snd (run ops s p) with
  | Some (s', p') => PInv s' p' /\ trace_ok s (events_of (fst (run ops s p))) s' /\ length p' = length p
  | None => exists a, replay (sh_of s) (events_of (fst (run ops s p))) = Some a
  end.
Proof.
  induction ops as [|o r IH]; intros s p HP.
  - cbn. split; [intros o []|]. split; [exact HP|]. split; [apply trace_refl|reflexivity].
  - cbn [run]. pose proof (exec_cases o p s HP) as H.
    destruct (exec_op o p s) as [[[[out p'] s'] ev]| e | k | k]; try contradiction.
    + destruct H as [HP' [T [L [N _]]]]. cbn [snd] in *.
      specialize (IH s' p' HP'). destruct (run r s' p') as [outs fin]. cbn [fst snd] in *.
      destruct IH as [U F]. split.
      * intros x [<-|Hx]; [exact I|apply U, Hx].
      * cbn [events_of flat_map]. fold (events_of outs). destruct fin as [[s2 p2]|].
        -- destruct F as [HP2 [T2 L2]]. split; [exact HP2|]. split; [eapply trace_trans; eauto|congruence].
        -- destruct F as [a Ha]. destruct T as [a1 [R1 E1]].
           rewrite replay_app, R1.
           pose proof (replay_proper (events_of outs) a1 (sh_of s') E1) as P. rewrite Ha in P.
           destruct (replay a1 (events_of outs)); [eauto|contradiction].
    + cbn. split; [intros x [<-|[]]; exact I|]. exists (sh_of s). reflexivity.
Qed.

(* refinement of the independent-strings specification *)
Theorem run_refines : forall ops s p, PInv s p ->
  match_outs (fst (run ops s p)) (spec_run ops (abs s p)).
Proof.
  induction ops as [|o r IH]; intros s p HP.
  - cbn. exact I.
  - cbn [run spec_run].
    pose proof (exec_cases o p s HP) as H.
    destruct (exec_op o p s) as [[[[out p'] s'] ev]| e | k | k]; try contradiction.
    + destruct H as [HP' [T [L [N Hs]]]]. cbn [fst snd] in *.
      rewrite Hs in *.
      specialize (IH s' p' HP'). destruct (run r s' p') as [outs fin]. cbn [fst] in *.
      split; [reflexivity|]. split; [apply snap_abs_snapshot|]. split; [apply snapshot_ok, HP'|exact IH].
    + destruct (spec_op o (abs s p)). cbn. exact I.
Qed.

(* ------------------------------------------------------------------ dropping everything *)
Lemma HInv_nil_empty s : HInv s [] -> forall id, hp s id = None.
Proof.
  intros [H _] id. specialize (H id). destruct (hp s id) as [b|]; auto.
  destruct H as [_ [_ [[H _]|[_ [H _]]]]]; cbn in H; lia.
Qed.

Lemma drop_all_ok : forall p s, HInv s (tendrils p) ->
  wp (drop_all p) s (fun _ s' ev => HInv s' [] /\ trace_ok s ev s') noerr.
Proof.
  induction p as [|[[f t]|] p IH]; intros s HI; cbn [drop_all].
  - apply wp_ret. split; [exact HI|apply trace_refl].
  - step ltac:(apply drop_ok with (fr := tendrils p); exact HI).
    intros _ s1 e1 [A1 [A2 [A3 A4]]].
    eapply wp_conseq; [apply IH; exact A1|].
    intros _ s2 e2 [B1 B2]. split; [exact B1|eapply trace_trans; eauto].
  - apply IH. exact HI.
Qed.

Lemma live_ids_empty s : (forall id, hp s id = None) -> forall fuel id, live_ids fuel s id = [].
Proof. intros H. induction fuel; intros id; cbn; auto. rewrite H. auto. Qed.

Lemma PInv_init n : PInv st0 (pool0 n).
Proof.
  assert (T : tendrils (pool0 n) = []).
  { unfold pool0, tendrils. induction n; cbn; auto. }
  split.
  - rewrite T. split; [|constructor]. intros id. cbn. auto.
  - intros i f x. rewrite sget_abs. unfold get, pool0.
    destruct (nth_error (repeat None n) i) as [e|] eqn:E; [|discriminate].
    apply nth_error_In, repeat_spec in E. subst. discriminate.
Qed.

(* whole histories from the empty state, including the final drop of every tendril *)
Theorem history_safe npool ops :
  no_ub (fst (run_history npool ops)) /\
  match snd (run_history npool ops) with
  | Some (ev, live) =>
    live = [] /\
    exists a, replay shadow0 (events_of (fst (run_history npool ops)) ++ ev) = Some a /\
              forall id, fst a id = None
  | None => exists a, replay shadow0 (events_of (fst (run_history npool ops))) = Some a
  end.
Proof.
  unfold run_history.
  pose proof (run_safe ops st0 (pool0 npool) (PInv_init npool)) as [U F].
  destruct (run ops st0 (pool0 npool)) as [outs [[s p]|]]; cbn [fst snd] in *.
  - destruct F as [[HI PV] [T L]].
    pose proof (drop_all_ok p s HI) as D. unfold wp, noerr in D.
    destruct (drop_all p s) as [[[u s'] ev]| | |]; cbn [fst snd]; try contradiction.
    + destruct D as [D1 D2]. split; [exact U|].
      pose proof (HInv_nil_empty _ D1) as Hem.
      split; [apply live_ids_empty, Hem|].
      pose proof (trace_trans _ _ _ _ _ T D2) as [a [R E]].
      exists a. split; [exact R|]. intros id. destruct E as [E _]. rewrite E. cbn. now rewrite Hem.
    + split; [exact U|]. destruct T as [a [R _]]. eauto.
  - split; [exact U|]. exact F.
Qed.

Theorem history_refines npool ops :
  match_outs (fst (run_history npool ops)) (spec_run ops (abs st0 (pool0 npool))).
Proof.
  unfold run_history.
  pose proof (run_refines ops st0 (pool0 npool) (PInv_init npool)) as R.
  destruct (run ops st0 (pool0 npool)) as [outs [[s p]|]]; cbn [fst] in *; auto.
  destruct (drop_all p s) as [[[u s'] ev]| | |]; cbn [fst]; exact R.
Qed.

(* ------------------------------------------------------------------ what a successful replay means *)
Definition sinv (a : shadow) : Prop := forall id c, fst a id = Some c -> id < snd a.

Lemma ev_step_sinv a e a' : sinv a -> ev_step a e = Some a' -> sinv a' /\ snd a <= snd a'.
Proof.
  destruct a as [m nx]. intros S H. destruct e; cbn [ev_step] in H.
  - destruct (N.leb_spec nx id); [|discriminate]. injection H as <-. split; [|cbn; lia].
    intros j c. cbn. destruct (N.eqb_spec j id); [intros; lia|]. intros Hj. specialize (S j c Hj). cbn in S. lia.
  - destruct (m id) eqn:Hm; [|discriminate]. injection H as <-. split; [|cbn; lia].
    intros j c. cbn. destruct (N.eqb_spec j id); [intros _; subst; eapply (S id); eauto|apply S].
  - destruct (m id) eqn:Hm; [|discriminate]. destruct (n =? cap); [|discriminate]. injection H as <-.
    split; [|cbn; lia]. intros j c. cbn. destruct (N.eqb_spec j id); [discriminate|apply S].
  - destruct (m id); [|discriminate]. destruct ((lo <=? hi) && (hi <=? n)); [|discriminate].
    injection H as <-. split; [exact S|lia].
  - destruct (m id); [|discriminate]. destruct ((lo <=? hi) && (hi <=? n)); [|discriminate].
    injection H as <-. split; [exact S|lia].
Qed.

(* a buffer that is dead (id below the fresh counter, not live) is never touched again *)
Lemma dead_stays_dead evs : forall a a' id, sinv a -> fst a id = None -> id < snd a ->
  replay a evs = Some a' -> ~ In id (freed evs) /\ ~ In id (allocated evs) /\ fst a' id = None /\
  (forall e, In e evs -> match e with
                         | RdEv i _ _ | WrEv i _ _ | Realloc i _ => i <> id
                         | _ => True end).
Proof.
  induction evs as [|e r IH]; intros a a' id S Hd Hlt H; cbn [replay] in H.
  - injection H as <-. repeat split; auto. intros e [].
  - destruct (ev_step a e) as [a1|] eqn:E; [|discriminate].
    destruct (ev_step_sinv _ _ _ S E) as [S1 N1].
    assert (Hd1 : fst a1 id = None /\ match e with
                    | Free i _ | Alloc i _ | RdEv i _ _ | WrEv i _ _ | Realloc i _ => i <> id end).
    { destruct a as [m nx]. cbn in Hd, Hlt. destruct e; cbn [ev_step] in E.
      - destruct (N.leb_spec nx id0); [|discriminate]. injection E as <-. cbn.
        destruct (N.eqb_spec id id0); [lia|]. split; auto.
      - destruct (m id0) eqn:Hm; [|discriminate]. injection E as <-. cbn.
        destruct (N.eqb_spec id id0); [congruence|]. split; auto.
      - destruct (m id0) eqn:Hm; [|discriminate]. destruct (n =? cap); [|discriminate]. injection E as <-. cbn.
        destruct (N.eqb_spec id id0); [congruence|]. split; auto.
      - destruct (m id0) eqn:Hm; [|discriminate]. destruct ((lo <=? hi) && (hi <=? n)); [|discriminate].
        injection E as <-. cbn. split; auto. congruence.
      - destruct (m id0) eqn:Hm; [|discriminate]. destruct ((lo <=? hi) && (hi <=? n)); [|discriminate].
        injection E as <-. cbn. split; auto. congruence. }
    destruct Hd1 as [Hd1 Hne].
    destruct (IH a1 a' id S1 Hd1 ltac:(lia) H) as [F1 [F2 [F3 F4]]].
    split; [|split; [|split]].
    + destruct e; cbn [freed flat_map app]; auto. fold (freed r). intros [->|Hin]; [congruence|auto].
    + destruct e; cbn [allocated flat_map app]; auto. fold (allocated r). intros [->|Hin]; [congruence|auto].
    + exact F3.
    + intros e0 [<-|Hin]; [destruct e; auto|apply F4, Hin].
Qed.

(* every buffer is freed at most once, only if it was live (allocated before and
   not yet freed), with the capacity it has; nothing is read, written or
   reallocated after its release; all accesses are inside the live capacity
   (the last point is the definition of [ev_step]) *)
Theorem replay_free_once evs : forall a a', sinv a -> replay a evs = Some a' ->
  NoDup (freed evs) /\
  (forall id, In id (freed evs) -> fst a' id = None /\ (fst a id <> None \/ In id (allocated evs))).
Proof.
  induction evs as [|e r IH]; intros a a' S H; cbn [replay] in H.
  - injection H as <-. split; [constructor|]. intros id [].
  - destruct (ev_step a e) as [a1|] eqn:E; [|discriminate].
    destruct (ev_step_sinv _ _ _ S E) as [S1 N1].
    destruct (IH a1 a' S1 H) as [ND Hf].
    destruct e; cbn [freed allocated flat_map app]; fold (freed r); fold (allocated r).
    + split; [exact ND|]. intros j Hj. destruct (Hf j Hj) as [F1 F2]. split; auto.
      destruct a as [m nx]. cbn [ev_step] in E. destruct (nx <=? id); [|discriminate]. injection E as <-.
      cbn in F2. destruct (N.eqb_spec j id); [subst; right; now left|].
      destruct F2; [now left|right; now right].
    + split; [exact ND|]. intros j Hj. destruct (Hf j Hj) as [F1 F2]. split; auto.
      destruct a as [m nx]. cbn [ev_step] in E. destruct (m id) eqn:Hm; [|discriminate]. injection E as <-.
      cbn in F2. destruct (N.eqb_spec j id); [subst; left; cbn; congruence|]. exact F2.
    + destruct a as [m nx]. cbn [ev_step] in E. destruct (m id) eqn:Hm; [|discriminate].
      destruct (n =? cap); [|discriminate]. injection E as <-.
      assert (Hlt : id < nx) by (eapply (S id); cbn; eauto).
      destruct (dead_stays_dead r _ a' id S1 ltac:(cbn; now rewrite N.eqb_refl) Hlt H) as [D1 [D2 [D3 _]]].
      split; [constructor; auto|].
      intros j [<-|Hj].
      * split; [exact D3|]. left. cbn. congruence.
      * destruct (Hf j Hj) as [F1 F2]. split; auto. cbn in F2.
        destruct (N.eqb_spec j id); [subst; contradiction|]. exact F2.
    + split; [exact ND|]. intros j Hj. destruct (Hf j Hj) as [F1 F2]. split; auto.
      destruct a as [m nx]. cbn [ev_step] in E. destruct (m id); [|discriminate].
      destruct ((lo <=? hi) && (hi <=? n)); [|discriminate]. injection E as <-. exact F2.
    + split; [exact ND|]. intros j Hj. destruct (Hf j Hj) as [F1 F2]. split; auto.
      destruct a as [m nx]. cbn [ev_step] in E. destruct (m id); [|discriminate].
      destruct ((lo <=? hi) && (hi <=? n)); [|discriminate]. injection E as <-. exact F2.
Qed.

Lemma sinv_shadow0 : sinv shadow0.
Proof. intros id c H. discriminate. Qed.

(* no tendril of the pool names a buffer that is not live *)
Theorem no_dangling s p t id : PInv s p -> In t (tendrils p) -> tid t = Some id ->
  exists b, hp s id = Some b /\ tlen t <= acap b.
Proof.
  intros [HI _] Hin Ht. pose proof (HInv_wf _ _ _ HI Hin) as W.
  destruct t as [bs|i len c|i off len]; cbn in Ht; try discriminate; injection Ht as ->.
  - destruct W as [b [Hb [Hc Hl]]]. exists b. split; auto.
    destruct (HInv_buf _ _ _ _ HI Hb) as [_ [Hd _]]. cbn. lia.
  - destruct W as [b [Hb Hl]]. exists b. split; auto.
    destruct (HInv_buf _ _ _ _ HI Hb) as [_ [Hd _]]. cbn. lia.
Qed.
