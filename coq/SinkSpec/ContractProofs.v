(* C05: the contract monitor is sound and complete for the relational contract;
   contract-respecting call sequences keep the abstract DOM well-formed. *)
From Coq Require Import List NArith Bool Arith Lia.
From HV Require Import Dom.DomSpec Dom.DomLemmas RcDom.RcModel RcDom.RcBasics RcDom.RcInv RcDom.RcProofs
                       SinkSpec.Contract SinkSpec.ContractSpec.
Import ListNotations.

(* ---------- the combinators of the monitor ---------- *)
Lemma guard_none b c k : guard b c k = None <-> b = true /\ k = None.
Proof. destruct b; simpl; split; try tauto; try discriminate. intros [H _]; discriminate. Qed.

Lemma with_node_none d h k :
  with_node d h k = None <-> exists n, resolve d h = Some n /\ k n = None.
Proof.
  unfold with_node. destruct (resolve d h) as [n|]; split.
  - intros H. exists n. auto.
  - intros [m [E H]]. inversion E; subst; auto.
  - discriminate.
  - intros [m [E _]]. discriminate.
Qed.

Lemma check_elem_none d h k :
  check_elem d h k = None <->
  (exists n, resolve d h = Some n /\ is_element (data_of d n) = true) /\ k = None.
Proof.
  unfold check_elem. rewrite with_node_none. split.
  - intros [n [R G]]. apply guard_none in G. destruct G. split; eauto.
  - intros [[n [R E]] K]. exists n. split; auto. apply guard_none. auto.
Qed.

Lemma elem_h_iff d h :
  elem_h d h = true <-> exists n, resolve d h = Some n /\ is_element (data_of d n) = true.
Proof.
  unfold elem_h. destruct (resolve d h) as [n|]; split.
  - eauto.
  - intros [m [E H]]. inversion E; subst; auto.
  - discriminate.
  - intros [m [E _]]. discriminate.
Qed.

Lemma is_html_element x l : is_html x l = true -> is_element x = true.
Proof. destruct x; simpl; auto; discriminate. Qed.

Lemma is_html_any_element x ls : is_html_any x ls = true -> is_element x = true.
Proof.
  unfold is_html_any. rewrite existsb_exists. intros [l [_ H]]. eapply is_html_element; eauto.
Qed.

Lemma has_parent_false d n : has_parent d n = false <-> parent_of d n = None.
Proof. unfold has_parent. destruct (parent_of d n); split; congruence. Qed.

(* ---------- acceptance by the monitor implies DomSpec.contract_ok ---------- *)
Lemma check_child_insertable d p c : check_child d p c = None -> insertable d p c = true.
Proof.
  destruct c as [h|s]; simpl; auto.
  rewrite with_node_none. intros [n [R G]]. rewrite R.
  apply guard_none in G. destruct G as [G1 G].
  apply guard_none in G. destruct G as [G2 G].
  apply guard_none in G. destruct G as [G3 _].
  rewrite G1, G3. apply negb_true_iff in G2. apply has_parent_false in G2. rewrite G2. reflexivity.
Qed.

Lemma check_append_ok d pn c : check_append d pn c = None -> append_ok d pn c = true.
Proof.
  unfold check_append, append_ok. rewrite guard_none. intros [A B].
  rewrite A. simpl. apply check_child_insertable; auto.
Qed.

Lemma check_before_ok d sn c : check_before d sn c = None -> before_ok d sn c = true.
Proof.
  unfold check_before, before_ok. rewrite guard_none. intros [A B].
  rewrite A. simpl. destruct (parent_of d sn); [|discriminate]. apply check_child_insertable; auto.
Qed.

Lemma forallb_and {A} (f g : A -> bool) l :
  forallb f l && forallb g l = forallb (fun x => f x && g x) l.
Proof.
  induction l; simpl; auto. rewrite <- IHl.
  destruct (f a), (g a), (forallb f l), (forallb g l); reflexivity.
Qed.

Lemma forallb_ext' {A} (f g : A -> bool) l : (forall x, f x = g x) -> forallb f l = forallb g l.
Proof. intros E. induction l; simpl; auto. rewrite E, IHl. reflexivity. Qed.

Theorem check_op_contract_ok d op : check_op d op = None -> contract_ok d op = true.
Proof.
  destruct op; simpl; intros H.
  - apply guard_none in H. destruct H as [A H]. apply guard_none in H. destruct H as [B _].
    rewrite A, B. reflexivity.
  - apply guard_none in H. tauto.
  - apply guard_none in H. tauto.
  - apply with_node_none in H. destruct H as [n [R H]]. rewrite R. apply check_append_ok; auto.
  - apply with_node_none in H. destruct H as [n [R H]]. rewrite R. apply check_before_ok; auto.
  - apply check_elem_none in H. destruct H as [E1 H].
    apply check_elem_none in H. destruct H as [E2 H].
    rewrite (proj2 (elem_h_iff d element) E1), (proj2 (elem_h_iff d prev_element) E2). simpl.
    apply with_node_none in H. destruct H as [en [R1 H]].
    apply with_node_none in H. destruct H as [pn [R2 H]].
    rewrite R1, R2. unfold has_parent in H. destruct (parent_of d en).
    + apply check_before_ok; auto.
    + apply check_append_ok; auto.
  - apply guard_none in H. destruct H as [A H]. apply guard_none in H. destruct H as [B _].
    unfold no_doctype, no_element in *.
    pose proof (forallb_and (fun k => match data_of d k with Doctype _ _ _ => false | _ => true end)
                            (fun k => negb (is_element (data_of d k))) (kids d 0)) as F.
    rewrite A, B in F. simpl in F. etransitivity; [|symmetry; exact F]. apply forallb_ext'.
    intros k. destruct (data_of d k); reflexivity.
  - apply check_elem_none in H. destruct H as [E H]. apply guard_none in H. destruct H as [A _].
    rewrite (proj2 (elem_h_iff d target) E), A. reflexivity.
  - apply with_node_none in H. destruct H as [n [R _]]. rewrite R. reflexivity.
  - apply with_node_none in H. destruct H as [an [R1 H]].
    apply with_node_none in H. destruct H as [bn [R2 H]]. rewrite R1, R2.
    apply guard_none in H. destruct H as [A H]. apply guard_none in H. destruct H as [B _].
    rewrite A, B. reflexivity.
  - apply with_node_none in H. destruct H as [tn [R H]]. rewrite R.
    apply guard_none in H. destruct H as [_ H].
    destruct (data_of d tn); try discriminate. destruct tmpl; try discriminate.
    apply guard_none in H. tauto.
  - apply with_node_none in H. destruct H as [n [R H]]. apply guard_none in H. destruct H as [A _].
    apply elem_h_iff. exists n. split; auto. eapply is_html_element; eauto.
  - apply check_elem_none in H. apply elem_h_iff. tauto.
  - reflexivity.
  - reflexivity.
  - apply with_node_none in H. destruct H as [tn [R1 H]].
    apply guard_none in H. destruct H as [A H].
    apply with_node_none in H. destruct H as [fn [R2 H]].
    apply guard_none in H. destruct H as [B H].
    apply check_elem_none in H. destruct H as [E3 H].
    assert (T1 : elem_h d target = true).
    { apply elem_h_iff. exists tn. split; auto. exact (is_html_any_element (data_of d tn) form_associatable A). }
    assert (T2 : elem_h d form = true).
    { apply elem_h_iff. exists fn. split; auto. exact (is_html_element _ _ B). }
    rewrite T1, T2, (proj2 (elem_h_iff d element) E3). simpl.
    destruct prev as [x|]; auto. apply check_elem_none in H. apply elem_h_iff. tauto.
  - apply with_node_none in H. destruct H as [n [R H]]. rewrite R. apply guard_none in H. tauto.
  - apply check_elem_none in H. apply elem_h_iff. tauto.
  - apply check_elem_none in H. apply elem_h_iff. tauto.
  - reflexivity.
Qed.

(* ---------- representation invariant: the abstract DOM is the abstraction of a
   pointer structure satisfying the RcDom invariant (parent links = child lists,
   duplicate free, acyclic, in bounds, only containers have children) ---------- *)
Definition Rep (d : dom) : Prop := exists s, Inv s /\ abs s = d.

Lemma rep_init : Rep init.
Proof. exists rinit. split; [apply inv_rinit|apply abs_rinit]. Qed.

Lemma rep_parent d : Rep d -> forall n p, parent_of d n = Some p <-> Child d p n.
Proof.
  intros [s [I <-]] n p. rewrite parent_of_abs by auto. unfold Child. rewrite kids_abs.
  apply (i_parent s I).
Qed.

Lemma rep_has_parent d n : Rep d -> (has_parent d n = true <-> HasParent d n).
Proof.
  intros R. unfold has_parent, HasParent. destruct (parent_of d n) as [p|] eqn:E; split.
  - intros _. exists p. apply (rep_parent d R); auto.
  - auto.
  - discriminate.
  - intros [p H]. apply (rep_parent d R) in H. congruence.
Qed.

Lemma anc_desc d : Rep d -> forall a n, anc (parent_of d) a n <-> Desc d a n.
Proof.
  intros R a n. split; intros H.
  - induction H.
    + apply desc_child. apply (rep_parent d R); auto.
    + eapply desc_step; eauto. apply (rep_parent d R); auto.
  - induction H.
    + apply anc_parent. apply (rep_parent d R); auto.
    + eapply anc_step; eauto. apply (rep_parent d R); auto.
Qed.

(* a chain of nodes each of which has the next one as its parent *)
Fixpoint chain (par : nid -> option nid) (p : nid) (l : list nid) : Prop :=
  match l with
  | [] => True
  | x :: t => x = p /\ exists q, par p = Some q /\ chain par q t
  end.

Lemma reaches_up_true d c : forall fuel p,
  reaches_up d fuel c p = true ->
  ancs (parent_of d) c p \/ exists l, length l = fuel /\ chain (parent_of d) p l.
Proof.
  induction fuel; intros p H.
  - right. exists []. simpl. auto.
  - simpl in H. destruct (Nat.eqb p c) eqn:Q.
    + apply Nat.eqb_eq in Q. left. left. auto.
    + destruct (parent_of d p) as [q|] eqn:P; [|discriminate].
      destruct (IHfuel q H) as [A|[l [L C]]].
      * left. right. eapply ancs_up; eauto.
      * right. exists (p :: l). simpl. split; [lia|]. split; auto. exists q. auto.
Qed.

Lemma chain_anc par : forall l p y, chain par p l -> In y (tl l) -> anc par y p.
Proof.
  induction l as [|x t IH]; intros p y C H; simpl in *; [destruct H|].
  destruct C as [-> [q [P C]]].
  destruct t as [|z t']; [destruct H|].
  simpl in C. destruct C as [-> C']. simpl in H. destruct H as [<-|H].
  - apply anc_parent; auto.
  - eapply anc_step; eauto. apply (IH q y); simpl; auto.
Qed.

Lemma chain_nodup par : (forall n, ~ anc par n n) -> forall l p, chain par p l -> NoDup l.
Proof.
  intros Hac. induction l as [|x t IH]; intros p C; [constructor|].
  pose proof C as C0. simpl in C. destruct C as [-> [q [P C]]]. constructor.
  - intros H. apply (Hac p). apply (chain_anc par (p :: t) p p C0). simpl. auto.
  - eapply IH; eauto.
Qed.

Lemma chain_parent par : forall l p x, chain par p l -> In x l -> exists q, par x = Some q.
Proof.
  induction l as [|y t IH]; intros p x C H; [destruct H|].
  simpl in C. destruct C as [-> [q [P C]]]. destruct H as [<-|H]; eauto.
Qed.

Lemma in_subtree_complete d c p : Rep d -> in_subtree d c p = true -> ancs (parent_of d) c p.
Proof.
  intros R H. unfold in_subtree in H.
  destruct (reaches_up_true d c _ p H) as [A|[l [L C]]]; auto. exfalso.
  destruct R as [s [I E]].
  assert (ND : NoDup l).
  { eapply chain_nodup; eauto. intros n A. apply (i_acyclic s I n).
    eapply anc_ext; [|exact A]. intros x. rewrite <- E. apply parent_of_abs; auto. }
  assert (IN : incl l (seq 0 (size d))).
  { intros x Hx. destruct (chain_parent _ _ _ _ C Hx) as [q Pq].
    rewrite <- E in Pq. rewrite parent_of_abs in Pq by auto.
    apply (i_parent s I) in Pq. apply (i_kids_lt s I) in Pq.
    apply in_seq. rewrite <- E, size_abs. lia. }
  pose proof (NoDup_incl_length ND IN) as Len. rewrite seq_length in Len. lia.
Qed.

Lemma in_subtree_iff d c p : Rep d -> (in_subtree d c p = true <-> c = p \/ Desc d c p).
Proof.
  intros R. split.
  - intros H. destruct (in_subtree_complete d c p R H) as [->|A]; auto.
    right. apply (anc_desc d R); auto.
  - intros H. destruct (in_subtree d c p) eqn:E; auto. exfalso.
    unfold in_subtree in E. apply reaches_up_sound in E. apply E.
    destruct H as [->|H]; [left; auto|right; apply (anc_desc d R); auto].
Qed.

(* ---------- boolean tests and their meaning ---------- *)
Lemma has_attr_map q l : has_attr q l = true <-> In q (map d_name l).
Proof.
  rewrite has_attr_In, in_map_iff. split; intros [a [H1 H2]]; exists a; tauto.
Qed.

Lemma attrs_distinct_iff l : attrs_distinct l = true <-> DistinctNames l.
Proof.
  unfold DistinctNames. induction l as [|a t IH]; simpl.
  - split; auto. intros _. constructor.
  - rewrite andb_true_iff, negb_true_iff, IH. split.
    + intros [H1 H2]. constructor; auto. intros HI. apply has_attr_map in HI. congruence.
    + intros H. inversion H; subst. split; auto.
      destruct (has_attr (d_name a) t) eqn:E; auto. apply has_attr_map in E. tauto.
Qed.

Lemma name_is_iff nm ns loc : name_is nm ns loc = true <-> q_ns nm = ns /\ q_local nm = loc.
Proof. unfold name_is. rewrite andb_true_iff, !str_eqb_eq. tauto. Qed.

Lemma eqb_iff_true a b : Bool.eqb a b = true <-> (a = true <-> b = true).
Proof. destruct a, b; simpl; intuition congruence. Qed.

Lemma implb_iff a b : implb a b = true <-> (a = true -> b = true).
Proof. destruct a, b; simpl; intuition congruence. Qed.

Lemma is_html_any_iff x ls : is_html_any x ls = true <-> exists loc, In loc ls /\ is_html x loc = true.
Proof. unfold is_html_any. apply existsb_exists. Qed.

Lemma check_child_iff d p c : Rep d -> (check_child d p c = None <-> Insertable d p c).
Proof.
  intros R. destruct c as [h|s]; simpl; [|tauto].
  rewrite with_node_none. split.
  - intros [n [Rn G]]. apply guard_none in G. destruct G as [G1 G].
    apply guard_none in G. destruct G as [G2 G].
    apply guard_none in G. destruct G as [G3 _].
    exists n. split; [exact Rn|]. split; [exact G1|].
    apply negb_true_iff in G2. apply negb_true_iff in G3.
    split; [|split].
    + intros HP. apply (rep_has_parent d n R) in HP. congruence.
    + intros ->. assert (in_subtree d p p = true) by (apply in_subtree_iff; auto). congruence.
    + intros HD. assert (in_subtree d n p = true) by (apply in_subtree_iff; auto). congruence.
  - intros [n [Rn [G1 [G2 [G3 G4]]]]]. exists n. split; [exact Rn|].
    apply guard_none. split; auto. apply guard_none. split.
    + apply negb_true_iff. destruct (has_parent d n) eqn:E; auto.
      apply (rep_has_parent d n R) in E. tauto.
    + apply guard_none. split; auto. apply negb_true_iff.
      destruct (in_subtree d n p) eqn:E; auto. apply (in_subtree_iff d n p R) in E. tauto.
Qed.

Lemma check_append_iff d pn c :
  Rep d -> (check_append d pn c = None <-> is_container (data_of d pn) = true /\ Insertable d pn c).
Proof. intros R. unfold check_append. rewrite guard_none, (check_child_iff d pn c R). tauto. Qed.

Lemma check_before_iff d sn c :
  Rep d -> (check_before d sn c = None <->
            is_text (data_of d sn) = false /\ exists p, Child d p sn /\ Insertable d p c).
Proof.
  intros R. unfold check_before. rewrite guard_none, negb_true_iff. split.
  - intros [A B]. split; auto. destruct (parent_of d sn) as [p|] eqn:E; [|discriminate].
    exists p. split; [apply (rep_parent d R); auto|apply (check_child_iff d p c R); auto].
  - intros [A [p [B C]]]. split; auto. apply (rep_parent d R) in B. rewrite B.
    apply (check_child_iff d p c R); auto.
Qed.

Lemma no_doctype_element_iff d :
  no_doctype d = true /\ no_element d = true <->
  forall k, Child d 0 k -> match data_of d k with Doctype _ _ _ | Element _ _ _ _ => False | _ => True end.
Proof.
  unfold no_doctype, no_element, Child. rewrite !forallb_forall. split.
  - intros [A B] k Hk. specialize (A k Hk). specialize (B k Hk).
    destruct (data_of d k); simpl in *; auto; discriminate.
  - intros H. split; intros k Hk; specialize (H k Hk); destruct (data_of d k); simpl; auto; contradiction.
Qed.

Lemma is_elem_iff d h :
  (exists n, resolve d h = Some n /\ is_element (data_of d n) = true) <-> IsElem d h.
Proof. unfold IsElem, Names. tauto. Qed.

(* ---------- one operation: the monitor decides the relational contract ---------- *)
Arguments is_html_any : simpl never.
Theorem check_op_iff d op : Rep d -> (check_op d op = None <-> Allowed d op).
Proof.
  intros R. destruct op; simpl.
  - (* create_element *)
    rewrite !guard_none. unfold fresh_h. rewrite Nat.eqb_eq, attrs_distinct_iff, eqb_iff_true, implb_iff, !name_is_iff.
    tauto.
  - rewrite guard_none. unfold fresh_h. rewrite Nat.eqb_eq. tauto.
  - rewrite guard_none. unfold fresh_h. rewrite Nat.eqb_eq. tauto.
  - (* append *)
    rewrite with_node_none. split.
    + intros [pn [Rp H]]. apply (check_append_iff d pn c R) in H. exists pn. unfold Names. tauto.
    + intros [pn [Rp H]]. exists pn. split; auto. apply (check_append_iff d pn c R). auto.
  - (* append_before_sibling *)
    rewrite with_node_none. split.
    + intros [sn [Rs H]]. apply (check_before_iff d sn c R) in H. destruct H as [A [p [B C]]].
      exists sn, p. unfold Names. auto.
    + intros [sn [p [Rs [A [B C]]]]]. exists sn. split; auto. apply (check_before_iff d sn c R). eauto.
  - (* append_based_on_parent_node *)
    rewrite !check_elem_none. split.
    + intros [[en [Re Ee]] [[pn [Rp Ep]] H]].
      apply with_node_none in H. destruct H as [en' [Re' H]].
      apply with_node_none in H. destruct H as [pn' [Rp' H]].
      rewrite Re in Re'. rewrite Rp in Rp'. inversion Re'; inversion Rp'; subst en' pn'.
      exists en, pn. unfold Names. repeat (split; auto).
      destruct (has_parent d en) eqn:HP.
      * left. apply (check_before_iff d en c R) in H. tauto.
      * right. apply (check_append_iff d pn c R) in H. split; [|tauto].
        intros X. apply (rep_has_parent d en R) in X. congruence.
    + intros [en [pn [Re [Rp [Ee [Ep H]]]]]]. split; [eauto|]. split; [eauto|].
      apply with_node_none. exists en. split; auto. apply with_node_none. exists pn. split; auto.
      destruct H as [[p [A B]]|[A B]].
      * assert (HP : has_parent d en = true) by (apply (rep_has_parent d en R); exists p; auto).
        rewrite HP. apply (check_before_iff d en c R). split; eauto.
        destruct (data_of d en); simpl in *; auto; discriminate.
      * assert (HP : has_parent d en = false).
        { destruct (has_parent d en) eqn:E; auto. apply (rep_has_parent d en R) in E. tauto. }
        rewrite HP. apply (check_append_iff d pn c R). split; auto.
        destruct (data_of d pn); simpl in *; auto; discriminate.
  - (* append_doctype_to_document *)
    rewrite !guard_none. rewrite <- no_doctype_element_iff. tauto.
  - (* add_attrs_if_missing *)
    rewrite check_elem_none, guard_none, attrs_distinct_iff, is_elem_iff. tauto.
  - (* remove_from_parent *)
    rewrite with_node_none. unfold Names. split; intros [n H]; exists n; tauto.
  - (* reparent_children *)
    rewrite with_node_none. split.
    + intros [an [Ra H]]. apply with_node_none in H. destruct H as [bn [Rb H]].
      apply guard_none in H. destruct H as [A H]. apply guard_none in H. destruct H as [B _].
      apply andb_true_iff in A. destruct A as [A1 A2]. apply negb_true_iff in B.
      exists an, bn. unfold Names. repeat (split; auto).
      * intros ->. assert (in_subtree d bn bn = true) by (apply in_subtree_iff; auto). congruence.
      * intros HD. assert (in_subtree d an bn = true) by (apply in_subtree_iff; auto). congruence.
    + intros [an [bn [Ra [Rb [A1 [A2 [N D]]]]]]]. exists an. split; auto.
      apply with_node_none. exists bn. split; auto.
      apply guard_none. split; [rewrite A1, A2; reflexivity|].
      apply guard_none. split; auto. apply negb_true_iff.
      destruct (in_subtree d an bn) eqn:E; auto. apply (in_subtree_iff d an bn R) in E. tauto.
  - (* get_template_contents *)
    rewrite with_node_none. split.
    + intros [tn [Rt H]]. apply guard_none in H. destruct H as [A H].
      destruct (data_of d tn) as [| | | |nm at_ tm ip|] eqn:D; try discriminate.
      destruct tm as [c|]; [|discriminate]. apply guard_none in H. destruct H as [B _].
      exists tn, nm, at_, c, ip. simpl in A. apply andb_true_iff in A. destruct A as [A1 A2].
      apply str_eqb_eq in A1. apply str_eqb_eq in A2.
      unfold Names, ResultNumber. repeat (split; auto).
      destruct (index_of c (d_names d)); [apply Nat.eqb_eq; auto|].
      unfold fresh_h in B. apply Nat.eqb_eq; auto.
    + intros [tn [nm [at_ [c [ip [Rt [D [N1 [N2 RN]]]]]]]]]. exists tn. split; auto.
      rewrite D. simpl. rewrite N1, N2.
      assert (E1 : str_eqb s_ns_html s_ns_html = true) by (apply str_eqb_eq; auto).
      assert (E2 : str_eqb s_template s_template = true) by (apply str_eqb_eq; auto).
      rewrite E1, E2. simpl. apply guard_none. split; auto.
      unfold ResultNumber in RN. destruct (index_of c (d_names d)); [apply Nat.eqb_eq; auto|].
      unfold fresh_h. apply Nat.eqb_eq; auto.
  - (* mark_script_already_started *)
    rewrite with_node_none. unfold IsHtml, Names. split.
    + intros [n [Rn H]]. apply guard_none in H. exists n. tauto.
    + intros [n [Rn H]]. exists n. split; auto. apply guard_none. auto.
  - rewrite check_elem_none, is_elem_iff. tauto.
  - tauto.
  - tauto.
  - (* associate_with_form *)
    rewrite with_node_none. split.
    + intros [tn [Rt H]]. apply guard_none in H. destruct H as [A H].
      apply with_node_none in H. destruct H as [fn [Rf H]].
      apply guard_none in H. destruct H as [B H].
      apply check_elem_none in H. destruct H as [E H].
      apply is_html_any_iff in A. destruct A as [loc [L1 L2]].
      split; [exists loc; split; auto; exists tn; split; auto|].
      split; [exists fn; split; auto|]. split; [apply is_elem_iff; auto|].
      intros x ->. apply check_elem_none in H. apply is_elem_iff. tauto.
    + intros [[loc [L1 [tn [Rt L2]]]] [[fn [Rf F]] [E P]]].
      exists tn. split; auto. apply guard_none. split; [apply is_html_any_iff; exists loc; split; [exact L1|exact L2]|].
      apply with_node_none. exists fn. split; auto. apply guard_none. split; auto.
      apply check_elem_none. split; [apply is_elem_iff; auto|].
      destruct prev as [x|]; auto. apply check_elem_none. split; auto. apply is_elem_iff. auto.
  - (* maybe_clone_an_option_into_selectedcontent *)
    rewrite with_node_none. unfold IsHtml, Names. split.
    + intros [n [Rn H]]. apply guard_none in H. destruct H as [A H].
      apply guard_none in H. destruct H as [B _]. split; eauto.
    + intros [[n [Rn A]] B]. exists n. split; auto. apply guard_none. split; auto.
      apply guard_none. auto.
  - rewrite check_elem_none, is_elem_iff. tauto.
  - rewrite check_elem_none, is_elem_iff. tauto.
  - tauto.
Qed.

(* ---------- the boolean arena check [wf_b] establishes the representation invariant ---------- *)
Fixpoint lift_nodes (d : dom) (i : nat) (l : list node) : list rnode :=
  match l with
  | [] => []
  | x :: t => {| r_data := n_data x ; r_parent := parent_of d i ; r_kids := n_kids x |} :: lift_nodes d (S i) t
  end.
Definition lift (d : dom) : rc :=
  {| r_nodes := lift_nodes d 0 (d_nodes d) ; r_names := d_names d ; r_quirks := d_quirks d |}.

Lemma forget_lift_nodes d : forall l i,
  map (fun x => {| n_data := r_data x ; n_kids := r_kids x |}) (lift_nodes d i l) = l.
Proof. induction l as [|x t IH]; intros i; simpl; auto. rewrite IH. destruct x; reflexivity. Qed.

Lemma abs_lift d : abs (lift d) = d.
Proof. unfold abs, lift; simpl. rewrite forget_lift_nodes. destruct d; reflexivity. Qed.

Lemma lift_nodes_length d : forall l i, length (lift_nodes d i l) = length l.
Proof. induction l; intros i; simpl; auto. Qed.

Lemma lift_nodes_parent d : forall l i n,
  n < length l -> r_parent (nth n (lift_nodes d i l) rdflt) = parent_of d (i + n).
Proof.
  induction l as [|x t IH]; intros i n H; simpl in *; [lia|].
  destruct n as [|n]; simpl.
  - rewrite Nat.add_0_r. reflexivity.
  - rewrite IH by lia. f_equal. lia.
Qed.

Lemma rsize_lift d : rsize (lift d) = size d.
Proof. rewrite <- size_abs, abs_lift. reflexivity. Qed.
Lemma rkids_lift d n : rkids (lift d) n = kids d n.
Proof. rewrite <- kids_abs, abs_lift. reflexivity. Qed.
Lemma rdata_lift d n : rdata (lift d) n = data_of d n.
Proof. rewrite <- data_abs, abs_lift. reflexivity. Qed.
Lemma rparent_lift d n : n < size d -> rparent (lift d) n = parent_of d n.
Proof. intros H. unfold rparent, lift; simpl. rewrite lift_nodes_parent; auto. Qed.

Lemma kids_oob d p : size d <= p -> kids d p = [].
Proof. intros H. unfold kids. rewrite nth_overflow; auto. Qed.

Lemma nodup_b_sound l : nodup_b l = true -> NoDup l.
Proof.
  induction l as [|x t IH]; simpl; intros H; [constructor|].
  apply andb_true_iff in H. destruct H as [A B]. apply negb_true_iff in A.
  constructor; auto. apply mem_false; auto.
Qed.

Lemma NoDup_app_inv {A} (l1 l2 : list A) :
  NoDup (l1 ++ l2) -> NoDup l1 /\ NoDup l2 /\ forall x, In x l1 -> ~ In x l2.
Proof.
  induction l1 as [|a t IH]; simpl; intros H.
  - repeat split; auto. constructor.
  - inversion H; subst. destruct (IH H3) as [N1 [N2 N3]]. repeat split; auto.
    + constructor; auto. intros HI. apply H2. apply in_app_iff. auto.
    + intros x [<-|Hx] HI.
      * apply H2. apply in_app_iff. auto.
      * apply (N3 x); auto.
Qed.

Lemma flat_map_unique {A} (f : A -> list nat) : forall l a b x,
  NoDup (flat_map f l) -> In a l -> In b l -> In x (f a) -> In x (f b) -> a = b \/ False.
Proof.
  induction l as [|h t IH]; intros a b x ND Ha Hb Xa Xb; [destruct Ha|].
  simpl in ND. apply NoDup_app_inv in ND. destruct ND as [N1 [N2 N3]].
  destruct Ha as [<-|Ha], Hb as [<-|Hb]; auto.
  - exfalso. apply (N3 x Xa). apply in_flat_map. eauto.
  - exfalso. apply (N3 x Xb). apply in_flat_map. eauto.
  - eapply IH; eauto.
Qed.

Lemma flat_map_nodup_each {A} (f : A -> list nat) : forall l a,
  NoDup (flat_map f l) -> In a l -> NoDup (f a).
Proof.
  induction l as [|h t IH]; intros a ND Ha; [destruct Ha|].
  simpl in ND. apply NoDup_app_inv in ND. destruct ND as [N1 [N2 _]].
  destruct Ha as [<-|Ha]; auto.
Qed.

Lemma walks_out_cycle d : forall fuel m, anc (parent_of d) m m -> walks_out d fuel m = false.
Proof.
  induction fuel; intros m H; simpl; auto.
  assert (exists q, parent_of d m = Some q /\ anc (parent_of d) q q) as [q [P C]].
  { inversion H; subst.
    - exists m. auto.
    - exists m0. split; auto. eapply anc_trans; [apply anc_parent; eauto|]. auto. }
  rewrite P. apply IHfuel; auto.
Qed.

Theorem wf_b_sound d : wf_b d = true -> Rep d.
Proof.
  unfold wf_b. intros H.
  apply andb_true_iff in H. destruct H as [H H5].
  apply andb_true_iff in H. destruct H as [H H4].
  apply andb_true_iff in H. destruct H as [H H3].
  apply andb_true_iff in H. destruct H as [H H2].
  apply andb_true_iff in H. destruct H as [H0 H1].
  apply Nat.ltb_lt in H0. apply nodup_b_sound in H3.
  rewrite forallb_forall in H2, H4, H5.
  assert (NK : forall p, p < size d -> node_ok d p = true) by (intros p Hp; apply H2; apply in_seq; lia).
  assert (Kp : forall p c, In c (kids d p) -> p < size d).
  { intros p c Hc. destruct (Nat.lt_ge_cases p (size d)); auto. rewrite kids_oob in Hc; auto. destruct Hc. }
  assert (Kc : forall p c, In c (kids d p) -> c < size d /\ data_of d c <> Document).
  { intros p c Hc. pose proof (NK p (Kp p c Hc)) as N. unfold node_ok in N.
    apply andb_true_iff in N. destruct N as [N _]. apply andb_true_iff in N. destruct N as [N _].
    rewrite forallb_forall in N. specialize (N c Hc). apply andb_true_iff in N. destruct N as [N1 N2].
    apply Nat.ltb_lt in N1. split; auto. intros E. rewrite E in N2. discriminate. }
  assert (P1 : forall n p, parent_of d n = Some p -> In n (kids d p)).
  { intros n p E. unfold parent_of in E. apply find_some in E. destruct E as [_ E]. apply mem_In; auto. }
  assert (P2 : forall n p, In n (kids d p) -> parent_of d n = Some p).
  { intros n p Hn. unfold parent_of. apply find_unique.
    - apply in_seq. pose proof (Kp p n Hn). lia.
    - apply mem_In; auto.
    - intros q Hq Mq. apply mem_In in Mq.
      destruct (flat_map_unique (kids d) (seq 0 (size d)) q p n H3) as [E|[]]; auto.
      apply in_seq. pose proof (Kp p n Hn). lia. }
  assert (RP : forall n, rparent (lift d) n = parent_of d n).
  { intros n. destruct (Nat.lt_ge_cases n (size d)) as [L|G]; [apply rparent_lift; auto|].
    rewrite rparent_oob by (rewrite rsize_lift; auto).
    destruct (parent_of d n) as [p|] eqn:E; auto.
    apply P1 in E. apply Kc in E. lia. }
  exists (lift d). split; [|apply abs_lift].
  constructor.
  - rewrite rsize_lift. auto.
  - rewrite rdata_lift. destruct (data_of d 0); try discriminate; auto.
  - intros p c Hc. rewrite rkids_lift in Hc. rewrite rsize_lift. apply (Kc p c Hc).
  - intros n p. rewrite RP, rkids_lift. split; auto.
  - intros p. rewrite rkids_lift. destruct (Nat.lt_ge_cases p (size d)) as [L|G].
    + apply (flat_map_nodup_each (kids d) (seq 0 (size d))); auto. apply in_seq. lia.
    + rewrite kids_oob; auto. constructor.
  - intros h n Hn. simpl in Hn. rewrite rsize_lift. apply Nat.ltb_lt. apply H4.
    eapply nth_error_In; eauto.
  - intros n nm a c ip Dn. rewrite rdata_lift in Dn. rewrite rsize_lift.
    destruct (Nat.lt_ge_cases n (size d)) as [L|G].
    + pose proof (NK n L) as N. unfold node_ok in N. apply andb_true_iff in N. destruct N as [_ N].
      rewrite Dn in N. apply Nat.ltb_lt; auto.
    + unfold data_of in Dn. rewrite nth_overflow in Dn by auto. discriminate.
  - intros p c Hc. rewrite rkids_lift in Hc. rewrite rdata_lift.
    pose proof (NK p (Kp p c Hc)) as N. unfold node_ok in N.
    apply andb_true_iff in N. destruct N as [N _]. apply andb_true_iff in N. destruct N as [_ N].
    destruct (kids d p); [destruct Hc|auto].
  - intros p c Hc. rewrite rkids_lift in Hc. rewrite rdata_lift. apply (Kc p c Hc).
  - intros n A. assert (A' : anc (parent_of d) n n) by (eapply anc_ext; [|exact A]; intros x; apply RP).
    destruct (Nat.lt_ge_cases n (size d)) as [L|G].
    + assert (W : walks_out d (S (size d)) n = true) by (apply H5; apply in_seq; lia).
      rewrite (walks_out_cycle d _ n A') in W. discriminate.
    + inversion A'; subst; match goal with X : parent_of d n = Some _ |- _ => apply P1 in X; apply Kc in X; lia end.
Qed.

(* ---------- allowed calls keep the invariant ---------- *)
Lemma rep_step d op : Rep d -> check_op d op = None -> Rep (apply d op).
Proof.
  intros [s [I E]] H. pose proof (check_op_contract_ok d op H) as C. rewrite <- E in C.
  destruct op;
    try (destruct (step_ok s _ I C) as [s' [_ [I' E']]]; exists s'; split; [exact I'|rewrite <- E; exact E']).
  (* the abstract clone step: judged by wf_b *)
  simpl in H. apply with_node_none in H. destruct H as [n [_ H]].
  apply guard_none in H. destruct H as [_ H]. apply guard_none in H. destruct H as [W _].
  apply wf_b_sound. exact W.
Qed.

Lemma rep_call d c : Rep d -> check_call d c = None -> Rep (apply_call d c).
Proof. intros R H. destruct c; simpl in *; auto. apply rep_step; auto. Qed.

Theorem check_call_iff d c : Rep d -> (check_call d c = None <-> AllowedCall d c).
Proof.
  intros R. destruct c; simpl.
  - apply check_op_iff; auto.
  - rewrite with_node_none. unfold Names. split.
    + intros [n [Rx H]]. apply with_node_none in H. destruct H as [m [Ry _]]. eauto.
    + intros [[n Rx] [m Ry]]. exists n. split; auto. apply with_node_none. eauto.
  - tauto.
  - rewrite with_node_none. unfold Names. split; intros [n H]; exists n; tauto.
  - rewrite check_elem_none, is_elem_iff, with_node_none. unfold IsHtml, Names. split.
    + intros [E [tn [Rt H]]]. apply guard_none in H. destruct H as [A H].
      apply guard_none in H. destruct H as [B _]. apply attrs_distinct_iff in B. eauto.
    + intros [E [[tn [Rt A]] B]]. split; auto. exists tn. split; auto.
      apply guard_none. split; auto. apply guard_none. split; auto. apply attrs_distinct_iff; auto.
Qed.

(* ---------- whole traces ---------- *)
Lemma contract_holds_nil d : ContractHolds d [].
Proof. intros pre c post E. destruct pre; discriminate. Qed.

Lemma contract_holds_cons d c t :
  ContractHolds d (c :: t) <-> AllowedCall d c /\ ContractHolds (apply_call d c) t.
Proof.
  split.
  - intros H. split.
    + apply (H [] c t). reflexivity.
    + intros pre c' post E. apply (H (c :: pre) c' post). simpl. rewrite E. reflexivity.
  - intros [A B] pre c' post E. destruct pre as [|x pre]; simpl in E; inversion E; subst.
    + exact A.
    + apply (B pre c' post). reflexivity.
Qed.

Theorem monitor_from_iff : forall cs d k,
  Rep d -> (monitor_from k d cs = None <-> ContractHolds d cs).
Proof.
  induction cs as [|c t IH]; intros d k R; simpl.
  - split; auto. intros _. apply contract_holds_nil.
  - rewrite contract_holds_cons. destruct (check_call d c) as [cl|] eqn:E.
    + split; [discriminate|]. intros [A _]. apply (check_call_iff d c R) in A. congruence.
    + pose proof (rep_call d c R E) as R'. rewrite (IH (apply_call d c) (S k) R').
      pose proof (proj1 (check_call_iff d c R) E). tauto.
Qed.

(* the monitor answers None exactly when every call respects the contract in the
   state in which it is issued *)
Theorem monitor_sound_complete cs : monitor init cs = None <-> ContractHolds init cs.
Proof. apply monitor_from_iff. apply rep_init. Qed.

Lemma monitor_from_rep : forall cs d k, Rep d -> monitor_from k d cs = None -> Rep (run_calls d cs).
Proof.
  induction cs as [|c t IH]; intros d k R H; simpl in *; auto.
  destruct (check_call d c) eqn:E; [discriminate|].
  apply (IH _ (S k)); auto. apply rep_call; auto.
Qed.

Lemma rep_wellformed d : Rep d -> WellFormed d.
Proof.
  intros R. pose proof R as [s [I E]]. subst d. constructor.
  - rewrite size_abs, data_abs. split; [apply (i_size s I)|apply (i_doc0 s I)].
  - intros p c H. unfold Child in H. rewrite kids_abs in H. rewrite size_abs. split.
    + eapply rkids_lt; eauto.
    + eapply (i_kids_lt s I); eauto.
  - intros p q c H1 H2. unfold Child in *. rewrite kids_abs in *.
    apply (i_parent s I) in H1. apply (i_parent s I) in H2. congruence.
  - intros p. rewrite kids_abs. apply (i_nodup s I).
  - intros n H. apply (anc_desc _ R) in H. apply (i_acyclic s I n).
    eapply anc_ext; [|exact H]. intros x. apply parent_of_abs; auto.
  - intros p c H. unfold Child in H. rewrite kids_abs in H. rewrite !data_abs. split.
    + eapply (i_container s I); eauto.
    + eapply (i_child s I); eauto.
  - intros h n H. unfold Names in H. rewrite resolve_abs in H. rewrite size_abs. eapply (i_names s I); eauto.
  - apply rep_parent; auto.
Qed.

(* contract-respecting call sequences keep the abstract DOM well-formed *)
Theorem monitor_wellformed cs : monitor init cs = None -> WellFormed (run_calls init cs).
Proof. intros H. apply rep_wellformed. eapply monitor_from_rep; eauto. apply rep_init. Qed.

Lemma monitor_from_prefix : forall pre post d k,
  monitor_from k d (pre ++ post) = None -> monitor_from k d pre = None.
Proof.
  induction pre as [|c t IH]; intros post d k H; simpl in *; auto.
  destruct (check_call d c); [discriminate|]. eapply IH; eauto.
Qed.

Corollary monitor_wellformed_prefix pre post :
  monitor init (pre ++ post) = None -> WellFormed (run_calls init pre).
Proof. intros H. apply monitor_wellformed. unfold monitor in *. eapply monitor_from_prefix; eauto. Qed.

(* acceptance implies the contract of DomSpec (hypothesis of C20's refinement theorem) *)
Lemma run_calls_ops : forall cs d, run_calls d cs = run_from d (ops_of cs).
Proof.
  induction cs as [|c t IH]; intros d; simpl; auto.
  destruct c; simpl; apply IH.
Qed.

Theorem monitor_from_domspec : forall cs d k,
  monitor_from k d cs = None -> contract_run d (ops_of cs) = true.
Proof.
  induction cs as [|c t IH]; intros d k H; simpl in *; auto.
  destruct (check_call d c) eqn:E; [discriminate|].
  destruct c; simpl in *; try (eapply IH; eauto).
  rewrite (check_op_contract_ok d op E). simpl. eapply IH; eauto.
Qed.

Theorem monitor_domspec cs : monitor init cs = None -> contract_run init (ops_of cs) = true.
Proof. apply monitor_from_domspec. Qed.

(* the diagnostic variant lists the judge's verdict first *)
Lemma monitor_all_head : forall cs d k, hd_error (monitor_all k d cs) = monitor_from k d cs.
Proof.
  induction cs as [|c t IH]; intros d k; simpl; auto.
  destruct (check_call d c); simpl; auto.
Qed.

Lemma monitor_all_nil : forall cs d k, monitor_all k d cs = [] <-> monitor_from k d cs = None.
Proof.
  induction cs as [|c t IH]; intros d k; simpl; [tauto|].
  destruct (check_call d c); [split; discriminate|apply IH].
Qed.
