(* Recorded TreeSink call traces used as concrete witnesses (the effectful calls, and
   where stated the queries, of traces recorded by harness/src/bin/sinkmon.rs from
   html5ever / xml5ever at the pinned commit; the checks re-derive them on every run
   from the corpus entries corpus/c05.txt, corpus/c06.txt, corpus/c18.txt). *)
From Coq Require Import List NArith Bool Arith.
From HV Require Import Dom.DomSpec SinkSpec.Contract SinkSpec.Skeleton SinkSpec.Gc.
Import ListNotations.

Definition hq (l : str) : qualname := {| q_prefix := None ; q_ns := s_ns_html ; q_local := l |}.
Definition el (h : handle) (l : str) : call := Op (OpCreateElement h (hq l) [] false false false).
Definition s_b : str := [98]%N.
Definition s_p : str := [112]%N.
Definition s_s : str := [115]%N.

(* html5ever, document, input <b><p>x</b>y : adoption agency (remove_from_parent,
   reparent_children, re-append) *)
Definition adoption_trace : list call :=
  [ QGetDocument; Op (OpSetQuirks 0);
    el 1 s_html; Op (OpAppend 0 (inl 1));
    el 2 s_head; Op (OpAppend 1 (inl 2)); Op (OpPop 2);
    el 3 s_body; Op (OpAppend 1 (inl 3));
    el 4 s_b; Op (OpAppend 3 (inl 4));
    el 5 s_p; Op (OpAppend 4 (inl 5)); QSameNode 5 4;
    Op (OpAppend 5 (inr [120]%N));
    Op (OpRemoveFromParent 5); Op (OpElemName 3); Op (OpAppend 3 (inl 5));
    el 6 s_b; Op (OpReparentChildren 5 6); Op (OpAppend 5 (inl 6));
    Op (OpPop 4);
    Op (OpAppend 5 (inr [121]%N));
    Op (OpPop 5); Op (OpPop 3); Op (OpPop 1) ].

(* the same with the removal before the re-append left out (what a tree builder that
   forgets step 14's remove_from_parent would do) *)
Definition adoption_trace_without_removal : list call :=
  [ QGetDocument; Op (OpSetQuirks 0);
    el 1 s_html; Op (OpAppend 0 (inl 1));
    el 2 s_head; Op (OpAppend 1 (inl 2)); Op (OpPop 2);
    el 3 s_body; Op (OpAppend 1 (inl 3));
    el 4 s_b; Op (OpAppend 3 (inl 4));
    el 5 s_p; Op (OpAppend 4 (inl 5));
    Op (OpAppend 5 (inr [120]%N));
    Op (OpAppend 3 (inl 5)) ].

(* xml5ever, input <!DOCTYPE a><!DOCTYPE b><r/> : the complete recorded trace *)
Definition xml_two_doctypes : list call :=
  [ QGetDocument;
    Op (OpAppendDoctype [97]%N [] []);
    Op (OpAppendDoctype [98]%N [] []);
    Op (OpCreateElement 1 {| q_prefix := None ; q_ns := [] ; q_local := [114]%N |} [] false false false);
    Op (OpAppend 0 (inl 1));
    Op (OpPop 1) ].

(* html5ever, document, input <s><frameset></frameset></html>SPACE fed as the chunks
   "<s><frameset>", "</frameset></html>", " " : the effectful calls (plus the one
   same_node query that uses the old formatting element) between the suspension
   points, with the handles trace_handles reported at each *)
Definition frameset_segments : list seg :=
  [ ([QGetDocument], [0]);
    ([Op (OpSetQuirks 0);
      el 1 s_html; Op (OpAppend 0 (inl 1));
      el 2 s_head; Op (OpAppend 1 (inl 2)); Op (OpPop 2);
      el 3 s_body; Op (OpAppend 1 (inl 3));
      el 4 s_s; Op (OpAppend 3 (inl 4));
      Op (OpRemoveFromParent 3);
      el 5 s_frameset; Op (OpAppend 1 (inl 5))],
     [0; 1; 5; 4; 2]);
    ([Op (OpPop 5)], [0; 1; 4; 2]);
    ([QSameNode 1 4; el 6 s_s; Op (OpAppend 1 (inl 6)); Op (OpAppend 6 (inr [32]%N))],
     [0; 1; 6; 6; 2]);
    ([Op (OpPop 6); Op (OpPop 1)], []) ].

Definition frameset_trace : list call := flat_map fst frameset_segments.

(* the same parse as a tree builder would report it whose trace_handles forgets the
   list of active formatting elements: handle 4 (the first <s>, sitting in the detached
   body subtree) is no longer reported at the second and third suspension point *)
Definition frameset_segments_formatting_untraced : list seg :=
  map (fun sg => (fst sg, filter (fun h => negb (Nat.eqb h 4)) (snd sg))) frameset_segments.
