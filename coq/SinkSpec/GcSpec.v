(* ========================================================================
   GcSpec.v - C18: the relational statement the collecting-sink judge
   [Gc.gc_ok] is proved equivalent to (GcProofs.v).

   [Edge d a b]   b is a child, or the template contents, of a (both in the arena)
   [Conn d a b]   a and b are connected through edges, followed in either direction
   [Live d tr n]  n is connected to a node named by one of the traced handles [tr]
   [GcSafe segs]  at every suspension point, every handle that any LATER call hands
                  to the sink names a node that - if it existed at the suspension
                  point - was live there.
   ======================================================================== *)
From Coq Require Import List NArith Bool Arith.
From HV Require Import Dom.DomSpec SinkSpec.Contract SinkSpec.Gc.
Import ListNotations.

Definition Edge (d : dom) (a b : nid) : Prop :=
  a < size d /\ b < size d /\ In b (kids d a ++ tmpl_of (data_of d a)).

Inductive Conn (d : dom) : nid -> nid -> Prop :=
| conn_refl n : Conn d n n
| conn_down a b c : Conn d a b -> Edge d b c -> Conn d a c
| conn_up a b c : Conn d a b -> Edge d c b -> Conn d a c.

Definition Live (d : dom) (tr : list handle) (n : nid) : Prop :=
  exists h t, In h tr /\ resolve d h = Some t /\ t < size d /\ Conn d t n.

(* every handle handed to the sink by the calls [cs], issued from state [d] on,
   names a node satisfying [P] *)
Fixpoint UsesSat (P : nid -> Prop) (d : dom) (cs : list call) : Prop :=
  match cs with
  | [] => True
  | c :: t =>
    (forall h n, In h (call_uses c) -> resolve d h = Some n -> P n) /\ UsesSat P (apply_call d c) t
  end.

Fixpoint SegsSat (P : nid -> Prop) (d : dom) (segs : list seg) : Prop :=
  match segs with
  | [] => True
  | (cs, _) :: rest => UsesSat P d cs /\ SegsSat P (run_calls d cs) rest
  end.

(* for the suspension point after each segment: all later uses are of nodes that
   did not exist yet or were live at that point *)
Fixpoint GcSafeFrom (d : dom) (segs : list seg) : Prop :=
  match segs with
  | [] => True
  | (cs, tr) :: rest =>
    let d' := run_calls d cs in
    SegsSat (fun n => n < size d' -> Live d' tr n) d' rest /\ GcSafeFrom d' rest
  end.

Definition GcSafe (segs : list seg) : Prop := GcSafeFrom init segs.
