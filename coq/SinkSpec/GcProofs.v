(* C18: the collecting-sink judge [gc_ok] decides the relational statement [GcSafe]. *)
From Coq Require Import List NArith Bool Arith Lia.
From HV Require Import Dom.DomSpec Dom.DomLemmas SinkSpec.Contract SinkSpec.Gc SinkSpec.GcSpec.
Import ListNotations.

(* ---------- closure of a node set under an undirected edge list ---------- *)
Section Closure.
Variable E : list (nid * nid).
Variable bnd : nat.
Hypothesis E_bound : forall a b, In (a, b) E -> a < bnd /\ b < bnd.

Definition Adj (a b : nid) : Prop := In (a, b) E \/ In (b, a) E.

Inductive Reach (X : list nid) : nid -> Prop :=
| reach_base n : In n X -> Reach X n
| reach_step a b : Reach X a -> Adj a b -> Reach X b.

Lemma nbrs_spec X y : In y (nbrs E X) <-> exists x, In x X /\ Adj x y.
Proof.
  unfold nbrs. rewrite in_flat_map. split.
  - intros [[a b] [He H]]. simpl in H. apply in_app_iff in H. destruct H as [H|H].
    + destruct (mem a X) eqn:M; [|destruct H]. destruct H as [<-|[]].
      exists a. split; [apply mem_In; auto|left; auto].
    + destruct (mem b X) eqn:M; [|destruct H]. destruct H as [<-|[]].
      exists b. split; [apply mem_In; auto|right; auto].
  - intros [x [Hx [A|A]]].
    + exists (x, y). split; auto. simpl. apply in_app_iff. left.
      rewrite (proj2 (mem_In x X) Hx). simpl; auto.
    + exists (y, x). split; auto. simpl. apply in_app_iff. right.
      rewrite (proj2 (mem_In x X) Hx). simpl; auto.
Qed.

Lemma grow_spec X y : In y (grow E X) <-> In y X \/ exists x, In x X /\ Adj x y.
Proof.
  unfold grow. rewrite in_app_iff, nodup_In, filter_In, nbrs_spec, negb_true_iff. split.
  - intros [H|[H _]]; auto.
  - intros [H|H]; auto. destruct (mem y X) eqn:M; [left; apply mem_In; auto|auto].
Qed.

Lemma NoDup_app2 {A} (l1 l2 : list A) :
  NoDup l1 -> NoDup l2 -> (forall x, In x l1 -> ~ In x l2) -> NoDup (l1 ++ l2).
Proof.
  induction l1; simpl; auto. intros H1 H2 H.
  inversion H1; subst. constructor.
  - rewrite in_app_iff. intros [I|I]; [tauto|]. apply (H a); auto.
  - apply IHl1; auto.
Qed.

Lemma grow_nodup X : NoDup X -> NoDup (grow E X).
Proof.
  intros H. unfold grow. apply NoDup_app2; auto.
  - apply NoDup_nodup.
  - intros x Hx Hn. apply nodup_In in Hn. apply filter_In in Hn. destruct Hn as [_ Hn].
    apply negb_true_iff in Hn. apply mem_false in Hn. tauto.
Qed.

Lemma grow_bound X : (forall x, In x X -> x < bnd) -> forall y, In y (grow E X) -> y < bnd.
Proof.
  intros H y Hy. apply grow_spec in Hy. destruct Hy as [Hy|[x [Hx [A|A]]]]; auto.
  - apply E_bound in A. tauto.
  - apply E_bound in A. tauto.
Qed.

Lemma nodup_nil {A} (dec : forall x y : A, {x = y} + {x <> y}) l : nodup dec l = [] -> l = [].
Proof.
  intros H. destruct l as [|a t]; auto. exfalso.
  assert (In a (nodup dec (a :: t))) by (apply nodup_In; simpl; auto).
  rewrite H in H0. destruct H0.
Qed.

Lemma grow_stable X :
  length (grow E X) = length X -> forall x y, In x X -> Adj x y -> In y X.
Proof.
  intros H x y Hx A. unfold grow in H. rewrite app_length in H.
  remember (nodup Nat.eq_dec (filter (fun z => negb (mem z X)) (nbrs E X))) as new eqn:En.
  assert (L : new = []) by (apply length_zero_iff_nil; unfold nid in *; lia).
  subst new. apply nodup_nil in L.
  destruct (mem y X) eqn:M; [apply mem_In; auto|]. exfalso.
  assert (In y (filter (fun y => negb (mem y X)) (nbrs E X))).
  { apply filter_In. split; [apply nbrs_spec; eauto|rewrite M; auto]. }
  rewrite L in H0. destruct H0.
Qed.

Lemma grow_length X : length X <= length (grow E X).
Proof. unfold grow. rewrite app_length. lia. Qed.

Definition closed (X : list nid) : Prop := forall x y, In x X -> Adj x y -> In y X.

Lemma close_incl : forall fuel X x, In x X -> In x (close fuel E X).
Proof.
  induction fuel; intros X x H; simpl; auto.
  destruct (Nat.eqb (length (grow E X)) (length X)); auto.
  apply IHfuel. apply grow_spec. auto.
Qed.

Lemma reach_grow X n : Reach (grow E X) n -> Reach X n.
Proof.
  intros H. induction H.
  - apply grow_spec in H. destruct H as [H|[x [Hx A]]].
    + apply reach_base; auto.
    + eapply reach_step; [apply reach_base; eauto|auto].
  - eapply reach_step; eauto.
Qed.

Lemma close_sound : forall fuel X n, In n (close fuel E X) -> Reach X n.
Proof.
  induction fuel; intros X n H; simpl in H; [apply reach_base; auto|].
  destruct (Nat.eqb (length (grow E X)) (length X)); [apply reach_base; auto|].
  apply reach_grow. apply IHfuel; auto.
Qed.

Lemma close_closed : forall fuel X,
  NoDup X -> (forall x, In x X -> x < bnd) -> bnd - length X < fuel -> closed (close fuel E X).
Proof.
  induction fuel; intros X ND B F; [lia|]. simpl.
  match goal with |- context [if ?b then _ else _] => destruct b eqn:Q end.
  - apply Nat.eqb_eq in Q. intros x y. apply grow_stable; auto.
  - apply Nat.eqb_neq in Q. pose proof (grow_length X) as GL.
    assert (GB : length (grow E X) <= bnd).
    { pose proof (NoDup_incl_length (grow_nodup X ND) (l' := seq 0 bnd)) as L.
      rewrite seq_length in L. apply L. intros y Hy. apply in_seq. pose proof (grow_bound X B y Hy). (unfold nid in *; lia). }
    apply IHfuel.
    + apply grow_nodup; auto.
    + apply grow_bound; auto.
    + (unfold nid in *; lia).
Qed.

Lemma closed_reach X Y : closed Y -> incl X Y -> forall n, Reach X n -> In n Y.
Proof.
  intros C I n H. induction H; auto. eapply C; eauto.
Qed.

Theorem close_spec X n :
  NoDup X -> (forall x, In x X -> x < bnd) -> (In n (close (S bnd) E X) <-> Reach X n).
Proof.
  intros ND B. split.
  - apply close_sound.
  - apply closed_reach.
    + apply close_closed; auto. lia.
    + intros x. apply close_incl.
Qed.
End Closure.

(* ---------- the edge list of a DOM ---------- *)
Lemma vedges_spec d a b : In (a, b) (vedges d) <-> Edge d a b.
Proof.
  unfold vedges, Edge. rewrite filter_In, in_flat_map. simpl. rewrite andb_true_iff, !Nat.ltb_lt. split.
  - intros [[p [Hp H]] [A B]]. apply in_map_iff in H. destruct H as [c [E Hc]]. inversion E; subst. auto.
  - intros [A [B C]]. split; auto. exists a. split; [apply in_seq; lia|]. apply in_map. auto.
Qed.

Lemma vedges_bound d a b : In (a, b) (vedges d) -> a < size d /\ b < size d.
Proof. intros H. apply vedges_spec in H. unfold Edge in H. tauto. Qed.

Lemma resolve_all_spec d tr t : In t (resolve_all d tr) <-> exists h, In h tr /\ resolve d h = Some t.
Proof.
  unfold resolve_all. rewrite in_flat_map. split.
  - intros [h [Hh H]]. destruct (resolve d h) as [m|] eqn:R; [|destruct H]. destruct H as [<-|[]]. eauto.
  - intros [h [Hh R]]. exists h. split; auto. rewrite R. simpl; auto.
Qed.

Lemma conn_reach d X t n :
  In t X -> Conn d t n -> Reach (vedges d) X n.
Proof.
  intros Ht H. induction H.
  - apply reach_base; auto.
  - eapply reach_step; eauto. left. apply vedges_spec; auto.
  - eapply reach_step; eauto. right. apply vedges_spec; auto.
Qed.

Lemma reach_conn d X n :
  Reach (vedges d) X n -> exists t, In t X /\ Conn d t n.
Proof.
  intros H. induction H.
  - exists n. split; auto. apply conn_refl.
  - destruct IHReach as [t [Ht C]]. exists t. split; auto.
    destruct H0 as [A|A]; apply vedges_spec in A.
    + eapply conn_down; eauto.
    + eapply conn_up; eauto.
Qed.

Theorem live_set_spec d tr n : In n (live_set d tr) <-> Live d tr n.
Proof.
  unfold live_set. rewrite (close_spec (vedges d) (size d) (vedges_bound d)).
  - split.
    + intros H. apply reach_conn in H. destruct H as [t [Ht C]].
      apply nodup_In in Ht. apply filter_In in Ht. destruct Ht as [Ht L]. apply Nat.ltb_lt in L.
      apply resolve_all_spec in Ht. destruct Ht as [h [Hh R]]. exists h, t. auto.
    + intros [h [t [Hh [R [L C]]]]]. eapply conn_reach; eauto.
      apply nodup_In. apply filter_In. split; [apply resolve_all_spec; eauto|apply Nat.ltb_lt; auto].
  - apply NoDup_nodup.
  - intros x Hx. apply nodup_In in Hx. apply filter_In in Hx. destruct Hx as [_ L]. apply Nat.ltb_lt; auto.
Qed.

(* ---------- the collector ---------- *)
Lemma collect_spec d dead tr n :
  In n (collect d dead tr) <-> In n dead \/ (n < size d /\ ~ Live d tr n).
Proof.
  unfold collect. rewrite in_app_iff, filter_In, in_seq, andb_true_iff, !negb_true_iff. split.
  - intros [H|[H1 [H2 H3]]]; auto. right. split; [lia|].
    intros L. apply live_set_spec in L. apply mem_In in L. congruence.
  - intros [H|[H1 H2]]; auto.
    destruct (mem n dead) eqn:M; [left; apply mem_In; auto|]. right.
    split; [lia|]. split; auto.
    destruct (mem n (live_set d tr)) eqn:M2; auto. apply mem_In in M2. apply live_set_spec in M2. tauto.
Qed.

Lemma live_dec d tr n : Live d tr n \/ ~ Live d tr n.
Proof.
  destruct (mem n (live_set d tr)) eqn:M.
  - left. apply live_set_spec. apply mem_In; auto.
  - right. intros L. apply live_set_spec in L. apply mem_In in L. congruence.
Qed.

Lemma uses_ok_spec d dead : forall hs,
  uses_ok d dead hs = None <-> forall h n, In h hs -> resolve d h = Some n -> ~ In n dead.
Proof.
  induction hs as [|h t IH]; simpl.
  - split; [intros _ h n []|auto].
  - destruct (resolve d h) as [m|] eqn:R.
    + destruct (mem m dead) eqn:M.
      * split; [discriminate|]. intros H. apply mem_In in M. exfalso. apply (H h m); auto.
      * rewrite IH. apply mem_false in M. split.
        -- intros H h' n [<-|Hh] Rn; [rewrite R in Rn; inversion Rn; subst; auto|eauto].
        -- intros H h' n Hh Rn. apply (H h' n); auto.
    + rewrite IH. split.
      * intros H h' n [<-|Hh] Rn; [congruence|eauto].
      * intros H h' n Hh Rn. apply (H h' n); auto.
Qed.

Lemma gc_events_spec dead : forall cs k d,
  (fst (gc_events k d dead cs) = None <-> UsesSat (fun n => ~ In n dead) d cs) /\
  (fst (gc_events k d dead cs) = None -> snd (gc_events k d dead cs) = run_calls d cs).
Proof.
  induction cs as [|c t IH]; intros k d; simpl.
  - split; [tauto|auto].
  - destruct (uses_ok d dead (call_uses c)) as [h|] eqn:U; simpl.
    + split; [|discriminate]. split; [discriminate|]. intros [A _].
      apply uses_ok_spec in A. congruence.
    + destruct (IH (S k) (apply_call d c)) as [I1 I2]. split; auto.
      rewrite I1. pose proof (proj1 (uses_ok_spec d dead (call_uses c)) U). tauto.
Qed.

(* ---------- SegsSat: pointwise reasoning ---------- *)
Lemma UsesSat_iff (P Q : nid -> Prop) : (forall n, P n <-> Q n) ->
  forall cs d, UsesSat P d cs <-> UsesSat Q d cs.
Proof.
  intros E. induction cs as [|c t IH]; intros d; simpl; [tauto|].
  rewrite IH. split; intros [A B]; split; auto; intros h n Hh R; apply E; eauto.
Qed.

Lemma UsesSat_and (P Q : nid -> Prop) : forall cs d,
  UsesSat (fun n => P n /\ Q n) d cs <-> UsesSat P d cs /\ UsesSat Q d cs.
Proof.
  induction cs as [|c t IH]; intros d; simpl; [tauto|]. rewrite IH. split.
  - intros [A [B C]]. repeat split; auto; intros h n Hh R; apply (A h n); auto.
  - intros [[A B] [C D]]. repeat split; auto. apply (A h n); auto. apply (C h n); auto.
Qed.

Lemma SegsSat_iff (P Q : nid -> Prop) : (forall n, P n <-> Q n) ->
  forall segs d, SegsSat P d segs <-> SegsSat Q d segs.
Proof.
  intros E. induction segs as [|[cs tr] rest IH]; intros d; simpl; [tauto|].
  rewrite IH, (UsesSat_iff P Q E). tauto.
Qed.

Lemma SegsSat_and (P Q : nid -> Prop) : forall segs d,
  SegsSat (fun n => P n /\ Q n) d segs <-> SegsSat P d segs /\ SegsSat Q d segs.
Proof.
  induction segs as [|[cs tr] rest IH]; intros d; simpl; [tauto|].
  rewrite IH, UsesSat_and. tauto.
Qed.

(* ---------- the judge ---------- *)
Theorem gc_segs_spec : forall segs i d dead,
  gc_segs i d dead segs = None <->
  SegsSat (fun n => ~ In n dead) d segs /\ GcSafeFrom d segs.
Proof.
  induction segs as [|[cs tr] rest IH]; intros i d dead; simpl; [tauto|].
  destruct (gc_events_spec dead cs 0 d) as [G1 G2].
  destruct (gc_events 0 d dead cs) as [[[k h]|] d'] eqn:G; simpl in *.
  - split; [discriminate|]. intros [[A _] _]. apply G1 in A. discriminate.
  - rewrite (G2 eq_refl). rewrite IH.
    pose proof (proj1 G1 eq_refl) as U.
    set (d1 := run_calls d cs).
    assert (EQ : forall n, ~ In n (collect d1 dead tr) <-> (~ In n dead /\ (n < size d1 -> Live d1 tr n))).
    { intros n. rewrite collect_spec. destruct (live_dec d1 tr n); tauto. }
    rewrite (SegsSat_iff _ _ EQ), SegsSat_and. tauto.
Qed.

(* the judge accepts exactly the recorded parses in which every handle used after a
   suspension point names a node that was live (or did not exist yet) at that point *)
Theorem gc_ok_iff segs : gc_ok segs = true <-> GcSafe segs.
Proof.
  unfold gc_ok, gc_check, GcSafe.
  pose proof (gc_segs_spec segs 0 init []) as H.
  destruct (gc_segs 0 init [] segs).
  - split; [discriminate|]. intros G. assert (X : @None (nat * nat * handle) = None) by reflexivity.
    exfalso. assert (Some p = None -> False) by discriminate. apply H0. apply H. split; auto.
    apply (SegsSat_iff (fun _ => True)); [intros n; simpl; tauto|].
    clear. generalize init. induction segs as [|[cs tr] rest IH]; intros d; simpl; auto. split; auto.
    clear. revert d. induction cs; intros d; simpl; auto.
  - split; auto. intros _. apply H. reflexivity.
Qed.
