(* Facts about the recorded witness traces of Examples.v (vm_compute on concrete traces
   - tests of the judges on recorded data - combined with the meta-theorems). *)
From Coq Require Import List NArith Bool Arith.
From HV Require Import Dom.DomSpec SinkSpec.Contract SinkSpec.ContractSpec SinkSpec.ContractProofs
                       SinkSpec.Skeleton SinkSpec.SkeletonProofs SinkSpec.Gc SinkSpec.GcSpec SinkSpec.GcProofs
                       SinkSpec.Examples.
Import ListNotations.

Lemma check_call_decides pre c :
  monitor init pre = None ->
  (check_call (run_calls init pre) c = None <-> AllowedCall (run_calls init pre) c).
Proof.
  intros H. apply check_call_iff. eapply monitor_from_rep; [apply rep_init|exact H].
Qed.

Lemma xml_two_doctypes_rejected :
  monitor init xml_two_doctypes = Some (2, CSecondDoctype) /\ ~ ContractHolds init xml_two_doctypes.
Proof.
  split; [vm_compute; reflexivity|].
  intros H. apply monitor_sound_complete in H. vm_compute in H. discriminate.
Qed.

Lemma adoption_trace_accepted :
  monitor init adoption_trace = None /\ ContractHolds init adoption_trace.
Proof.
  assert (H : monitor init adoption_trace = None) by (vm_compute; reflexivity).
  split; [exact H|apply monitor_sound_complete; exact H].
Qed.

Lemma missing_removal_rejected :
  monitor init adoption_trace_without_removal = Some (14, CChildHasParent).
Proof. vm_compute. reflexivity. Qed.

Lemma frameset_skeleton_refuted :
  monitor init frameset_trace = None /\
  skeleton_ok (run_calls init frameset_trace) = false /\
  skeleton_faults (run_calls init frameset_trace) = [FHtmlElements] /\
  ~ Skeleton (run_calls init frameset_trace).
Proof.
  split; [vm_compute; reflexivity|]. split; [vm_compute; reflexivity|]. split; [vm_compute; reflexivity|].
  intros H. apply skeleton_ok_iff in H. vm_compute in H. discriminate.
Qed.

Lemma adoption_tree_has_skeleton :
  skeleton_ok (run_calls init adoption_trace) = true /\ Skeleton (run_calls init adoption_trace).
Proof.
  assert (H : skeleton_ok (run_calls init adoption_trace) = true) by (vm_compute; reflexivity).
  split; [exact H|apply skeleton_ok_iff; exact H].
Qed.

Lemma frameset_parse_safe :
  gc_ok frameset_segments = true /\ GcSafe frameset_segments /\
  gc_counts init [] frameset_segments = [0; 0; 0; 2; 6].
Proof.
  assert (H : gc_ok frameset_segments = true) by (vm_compute; reflexivity).
  split; [exact H|]. split; [apply gc_ok_iff; exact H|vm_compute; reflexivity].
Qed.

Lemma untraced_formatting_element_caught :
  gc_check frameset_segments_formatting_untraced = Some (3, 0, 4) /\
  ~ GcSafe frameset_segments_formatting_untraced.
Proof.
  split; [vm_compute; reflexivity|].
  intros H. apply gc_ok_iff in H. vm_compute in H. discriminate.
Qed.
