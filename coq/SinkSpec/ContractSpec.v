(* ========================================================================
   ContractSpec.v - C05: the TreeSink calling contract as a relation between
   an abstract DOM state and the call issued in it, in the vocabulary of the
   trait documentation (children, parents, descendants, kinds of nodes), and
   well-formedness of an abstract DOM.  No fuel, no search functions here:
   this is the statement the decision procedure [Contract.monitor] is proved
   equivalent to (ContractProofs.v).
   ======================================================================== *)
From Coq Require Import List NArith Bool Arith.
From HV Require Import Dom.DomSpec SinkSpec.Contract.
Import ListNotations.

(* handle [h] was handed out by this sink and names node [n] *)
Definition Names (d : dom) (h : handle) (n : nid) : Prop := resolve d h = Some n.
(* [c] is a child of [p] *)
Definition Child (d : dom) (p c : nid) : Prop := In c (kids d p).
Definition HasParent (d : dom) (c : nid) : Prop := exists p, Child d p c.
(* [a] is a proper ancestor of [n] *)
Inductive Desc (d : dom) : nid -> nid -> Prop :=
| desc_child a n : Child d a n -> Desc d a n
| desc_step a m n : Child d m n -> Desc d a m -> Desc d a n.

Definition IsElem (d : dom) (h : handle) : Prop :=
  exists n, Names d h n /\ is_element (data_of d n) = true.
(* an HTML element with local name [loc] *)
Definition IsHtml (d : dom) (h : handle) (loc : str) : Prop :=
  exists n, Names d h n /\ is_html (data_of d n) loc = true.
(* no two attributes with the same qualified name (prefix, namespace, local) *)
Definition DistinctNames (l : list dattr) : Prop := NoDup (map d_name l).

(* a child handed over for insertion below [p]: text, or a node this sink created
   that has no parent and is neither [p] nor one of [p]'s ancestors *)
Definition Insertable (d : dom) (p : nid) (c : child) : Prop :=
  match c with
  | inr _ => True
  | inl h => exists n, Names d h n /\ is_created (data_of d n) = true /\
                       ~ HasParent d n /\ n <> p /\ ~ Desc d n p
  end.

(* the number a result handle must carry in the trace: the one the contents
   fragment already has, or the next free one *)
Definition ResultNumber (d : dom) (c : nid) (r : handle) : Prop :=
  match index_of c (d_names d) with Some k => r = k | None => r = length (d_names d) end.

Definition Allowed (d : dom) (op : sinkop) : Prop :=
  match op with
  | OpCreateElement h nm at_ template ip _ =>
    h = length (d_names d) /\ DistinctNames at_ /\
    (template = true <-> q_ns nm = s_ns_html /\ q_local nm = s_template) /\
    (ip = true -> q_ns nm = s_ns_mathml /\ q_local nm = s_annotation_xml)
  | OpCreateComment h _ | OpCreatePi h _ _ => h = length (d_names d)
  | OpAppend p c =>
    exists pn, Names d p pn /\ is_container (data_of d pn) = true /\ Insertable d pn c
  | OpAppendBeforeSibling s c =>
    exists sn p, Names d s sn /\ is_text (data_of d sn) = false /\ Child d p sn /\ Insertable d p c
  | OpAppendBasedOnParent e pe c =>
    exists en pn, Names d e en /\ Names d pe pn /\
      is_element (data_of d en) = true /\ is_element (data_of d pn) = true /\
      ((exists p, Child d p en /\ Insertable d p c) \/ (~ HasParent d en /\ Insertable d pn c))
  | OpAppendDoctype _ _ _ =>
    forall k, Child d 0 k ->
      match data_of d k with Doctype _ _ _ | Element _ _ _ _ => False | _ => True end
  | OpAddAttrsIfMissing t new => IsElem d t /\ DistinctNames new
  | OpRemoveFromParent t => exists n, Names d t n
  | OpReparentChildren a b =>
    exists an bn, Names d a an /\ Names d b bn /\
      is_container (data_of d an) = true /\ is_container (data_of d bn) = true /\
      an <> bn /\ ~ Desc d an bn
  | OpGetTemplateContents t r =>
    exists tn nm at_ c ip, Names d t tn /\ data_of d tn = Element nm at_ (Some c) ip /\
      q_ns nm = s_ns_html /\ q_local nm = s_template /\ ResultNumber d c r
  | OpMarkScriptStarted h => IsHtml d h s_script
  | OpPop h | OpElemName h | OpIsMathmlIp h => IsElem d h
  | OpAssociateForm t f e pe =>
    (exists loc, In loc form_associatable /\ IsHtml d t loc) /\ IsHtml d f s_form /\
    IsElem d e /\ (forall x, pe = Some x -> IsElem d x)
  | OpCloneOption o =>
    (* the second conjunct is model-side sanity, judged by the boolean [wf_b]: the abstract
       clone step (a fuelled deep copy) is not proved to keep the arena well-formed *)
    IsHtml d o s_option /\ wf_b (apply d op) = true
  | OpSetQuirks _ | OpSetLine _ | OpParseError => True
  end.

Definition AllowedCall (d : dom) (c : call) : Prop :=
  match c with
  | Op op => Allowed d op
  | QSameNode x y => (exists n, Names d x n) /\ (exists n, Names d y n)
  | QGetDocument => True
  | QAllowShadow h => exists n, Names d h n
  | QAttachShadow l t at_ => IsElem d l /\ IsHtml d t s_template /\ DistinctNames at_
  end.

(* every call of the sequence is allowed in the state in which it is issued *)
Definition ContractHolds (d : dom) (cs : list call) : Prop :=
  forall pre c post, cs = pre ++ c :: post -> AllowedCall (run_calls d pre) c.

(* ---------- well-formedness of an abstract DOM ---------- *)
Record WellFormed (d : dom) : Prop := {
  wf_root : 0 < size d /\ data_of d 0 = Document ;
  wf_bounds : forall p c, Child d p c -> p < size d /\ c < size d ;
  wf_unique_parent : forall p q c, Child d p c -> Child d q c -> p = q ;
  wf_nodup : forall p, NoDup (kids d p) ;
  wf_acyclic : forall n, ~ Desc d n n ;
  wf_kinds : forall p c, Child d p c -> is_container (data_of d p) = true /\ data_of d c <> Document ;
  wf_handles : forall h n, Names d h n -> n < size d ;
  wf_parent_of : forall n p, parent_of d n = Some p <-> Child d p n
}.
