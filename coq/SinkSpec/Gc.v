(* ========================================================================
   Gc.v - C18: a sink that collects garbage at suspension points.

   A recorded parse is a list of segments: the TreeSink calls made up to a
   suspension point together with the handles [trace_handles] reported there.
   At a suspension point every node that is not connected (children, parent,
   template contents - in both directions) to one of the reported handles is
   collected.  [gc_check] finds the first later call that is handed a collected
   node; [gc_ok] = there is none.

   GcProofs.v: [gc_ok segs = true] iff every handle used in a later segment
   names a node that was connected to a traced handle at every earlier
   suspension point at which the node existed.

   No proofs in this file.
   ======================================================================== *)
From Coq Require Import List NArith Bool Arith.
From HV Require Import Dom.DomSpec SinkSpec.Contract.
Import ListNotations.

Definition seg := (list call * list handle)%type.

(* ---------- the handles a call hands to the sink ---------- *)
Definition child_h (c : child) : list handle := match c with inl h => [h] | inr _ => [] end.
Definition opt_h (o : option handle) : list handle := match o with Some h => [h] | None => [] end.

Definition op_uses (op : sinkop) : list handle :=
  match op with
  | OpAppend p c => p :: child_h c
  | OpAppendBeforeSibling s c => s :: child_h c
  | OpAppendBasedOnParent e pe c => e :: pe :: child_h c
  | OpAddAttrsIfMissing t _ => [t]
  | OpRemoveFromParent t => [t]
  | OpReparentChildren a b => [a; b]
  | OpGetTemplateContents t _ => [t]
  | OpMarkScriptStarted h | OpPop h | OpElemName h | OpIsMathmlIp h | OpCloneOption h => [h]
  | OpAssociateForm t f e pe => t :: f :: e :: opt_h pe
  | OpCreateElement _ _ _ _ _ _ | OpCreateComment _ _ | OpCreatePi _ _ _ | OpAppendDoctype _ _ _
  | OpSetQuirks _ | OpSetLine _ | OpParseError => []
  end.

Definition call_uses (c : call) : list handle :=
  match c with
  | Op op => op_uses op
  | QSameNode x y => [x; y]
  | QGetDocument => []
  | QAllowShadow h => [h]
  | QAttachShadow l t _ => [l; t]
  end.

(* ---------- connectivity ---------- *)
Definition tmpl_of (x : data) : list nid :=
  match x with Element _ _ (Some c) _ => [c] | _ => [] end.

(* the edges parent -> child and template -> contents between nodes of the arena *)
Definition vedges (d : dom) : list (nid * nid) :=
  filter (fun e => Nat.ltb (fst e) (size d) && Nat.ltb (snd e) (size d))
    (flat_map (fun p => map (pair p) (kids d p ++ tmpl_of (data_of d p))) (seq 0 (size d))).

Definition nbrs (E : list (nid * nid)) (X : list nid) : list nid :=
  flat_map (fun e => (if mem (fst e) X then [snd e] else []) ++
                     (if mem (snd e) X then [fst e] else [])) E.

Definition grow (E : list (nid * nid)) (X : list nid) : list nid :=
  X ++ nodup Nat.eq_dec (filter (fun y => negb (mem y X)) (nbrs E X)).

Fixpoint close (fuel : nat) (E : list (nid * nid)) (X : list nid) : list nid :=
  match fuel with
  | 0 => X
  | S f =>
    let X' := grow E X in
    if Nat.eqb (length X') (length X) then X else close f E X'
  end.

Definition resolve_all (d : dom) (tr : list handle) : list nid :=
  flat_map (fun h => match resolve d h with Some n => [n] | None => [] end) tr.

(* the nodes that survive a collection in state [d] with traced handles [T] *)
Definition live_set (d : dom) (tr : list handle) : list nid :=
  close (S (size d)) (vedges d)
        (nodup Nat.eq_dec (filter (fun n => Nat.ltb n (size d)) (resolve_all d tr))).

(* ---------- the collector ---------- *)
Fixpoint uses_ok (d : dom) (dead : list nid) (hs : list handle) : option handle :=
  match hs with
  | [] => None
  | h :: t =>
    match resolve d h with
    | Some n => if mem n dead then Some h else uses_ok d dead t
    | None => uses_ok d dead t
    end
  end.

Fixpoint gc_events (k : nat) (d : dom) (dead : list nid) (cs : list call) : option (nat * handle) * dom :=
  match cs with
  | [] => (None, d)
  | c :: t =>
    match uses_ok d dead (call_uses c) with
    | Some h => (Some (k, h), d)
    | None => gc_events (S k) (apply_call d c) dead t
    end
  end.

Definition collect (d : dom) (dead : list nid) (tr : list handle) : list nid :=
  let L := live_set d tr in
  dead ++ filter (fun n => negb (mem n L) && negb (mem n dead)) (seq 0 (size d)).

(* first use of a collected node: (segment, call within the segment, handle) *)
Fixpoint gc_segs (i : nat) (d : dom) (dead : list nid) (segs : list seg) : option (nat * nat * handle) :=
  match segs with
  | [] => None
  | (cs, tr) :: rest =>
    match gc_events 0 d dead cs with
    | (Some (k, h), _) => Some (i, k, h)
    | (None, d') => gc_segs (S i) d' (collect d' dead tr) rest
    end
  end.

Definition gc_check (segs : list seg) : option (nat * nat * handle) := gc_segs 0 init [] segs.
Definition gc_ok (segs : list seg) : bool :=
  match gc_check segs with None => true | Some _ => false end.

(* how many nodes each suspension point collects (coverage statistics only) *)
Fixpoint gc_counts (d : dom) (dead : list nid) (segs : list seg) : list nat :=
  match segs with
  | [] => []
  | (cs, tr) :: rest =>
    let d' := run_calls d cs in
    let dead' := collect d' dead tr in
    (length dead' - length dead) :: gc_counts d' dead' rest
  end.
