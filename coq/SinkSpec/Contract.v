(* ========================================================================
   Contract.v - C05: the documented TreeSink calling contract as a decidable
   monitor over recorded operation traces.

   [check_op d op]   the first clause of the contract that operation [op]
                     breaks when it is issued in abstract DOM state [d]
                     (None = the call respects the contract);
   [monitor d ops]   threads [check_op] through an operation list, applying
                     [DomSpec.apply] after every operation; answers the index
                     and the clause of the first breach.

   The checks are those of [DomSpec.contract_ok] (what the trait documentation
   promises: a child handed to an insertion method has no parent, nothing is
   inserted below itself, the reference sibling is a parented non-text node,
   element-only operations receive elements, one doctype before any element,
   attribute names pairwise distinct) refined by the *kind* the property asks
   for: get_template_contents only on an HTML `template`, the template flag of
   create_element set exactly for HTML `template`, form association of an HTML
   form-associatable element with an HTML `form`, script marking on an HTML
   `script`, option cloning on an HTML `option`.

   No proofs in this file (ContractSpec.v: relational statement,
   ContractProofs.v: theorems).
   ======================================================================== *)
From Coq Require Import List NArith Bool Arith.
From HV Require Import Dom.DomSpec.
Import ListNotations.

(* ---------- names ---------- *)
Definition s_ns_svg : str := [104;116;116;112;58;47;47;119;119;119;46;119;51;46;111;114;103;47;50;48;48;48;47;115;118;103]%N.  (* "http://www.w3.org/2000/svg" *)
Definition s_ns_mathml : str := [104;116;116;112;58;47;47;119;119;119;46;119;51;46;111;114;103;47;49;57;57;56;47;77;97;116;104;47;77;97;116;104;77;76]%N.  (* "http://www.w3.org/1998/Math/MathML" *)
Definition s_template : str := [116;101;109;112;108;97;116;101]%N.  (* "template" *)
Definition s_form : str := [102;111;114;109]%N.  (* "form" *)
Definition s_script : str := [115;99;114;105;112;116]%N.  (* "script" *)
Definition s_annotation_xml : str := [97;110;110;111;116;97;116;105;111;110;45;120;109;108]%N.  (* "annotation-xml" *)
Definition s_button : str := [98;117;116;116;111;110]%N.  (* "button" *)
Definition s_fieldset : str := [102;105;101;108;100;115;101;116]%N.  (* "fieldset" *)
Definition s_input : str := [105;110;112;117;116]%N.  (* "input" *)
Definition s_object : str := [111;98;106;101;99;116]%N.  (* "object" *)
Definition s_output : str := [111;117;116;112;117;116]%N.  (* "output" *)
Definition s_textarea : str := [116;101;120;116;97;114;101;97]%N.  (* "textarea" *)
Definition s_img : str := [105;109;103]%N.  (* "img" *)

(* insert_element: declare_tag_set!(form_associatable = "button" "fieldset" "input" "object" "output"
   "select" "textarea" "img") *)
Definition form_associatable : list str :=
  [s_button; s_fieldset; s_input; s_object; s_output; s_select; s_textarea; s_img].

Definition name_is (q : qualname) (ns loc : str) : bool :=
  str_eqb (q_ns q) ns && str_eqb (q_local q) loc.
Definition is_html_any (x : data) (locs : list str) : bool := existsb (is_html x) locs.

(* ---------- the clauses of the contract ---------- *)
Inductive clause :=
| CUnknownHandle        (* a handle this sink never handed out *)
| CHandleNumbering      (* the result of create_* / get_template_contents is not numbered as the trace format prescribes *)
| CDuplicateAttribute   (* two attributes with the same qualified name in one list *)
| CTemplateFlag         (* template flag of create_element <> (name is HTML template) *)
| CMathmlIpFlag         (* integration-point flag on something else than MathML annotation-xml *)
| CNotElement           (* element-only operation on a non-element *)
| CNotTemplate          (* get_template_contents on something else than an HTML template element *)
| CNotForm              (* associate_with_form: the form is not an HTML form element *)
| CNotAssociatable      (* associate_with_form: the target is not an HTML form-associatable element *)
| CNotScript            (* mark_script_already_started on something else than an HTML script element *)
| CNotOption            (* maybe_clone_an_option_into_selectedcontent on something else than an HTML option *)
| CParentNotContainer   (* children below a text / comment / doctype / PI node *)
| CChildNotCreated      (* the child handle names a document or fragment *)
| CChildHasParent       (* the child already has a parent *)
| CCycle                (* a node is inserted below itself or one of its descendants *)
| CSiblingIsText        (* reference sibling of an insert-before is a text node *)
| CSiblingNoParent      (* reference sibling of an insert-before has no parent *)
| CSecondDoctype        (* a doctype when the document already has one *)
| CDoctypeAfterElement  (* a doctype when the document already has an element child *)
| CCloneModel.          (* the abstract clone step did not keep the arena well-formed (model-side sanity) *)

Definition guard (b : bool) (c : clause) (k : option clause) : option clause :=
  if b then k else Some c.

Definition with_node (d : dom) (h : handle) (k : nid -> option clause) : option clause :=
  match resolve d h with Some n => k n | None => Some CUnknownHandle end.

Definition check_elem (d : dom) (h : handle) (k : option clause) : option clause :=
  with_node d h (fun n => guard (is_element (data_of d n)) CNotElement k).

Definition has_parent (d : dom) (n : nid) : bool :=
  match parent_of d n with Some _ => true | None => false end.

(* a child handed over for insertion below [p] *)
Definition check_child (d : dom) (p : nid) (c : child) : option clause :=
  match c with
  | inr _ => None
  | inl h =>
    with_node d h (fun n =>
      guard (is_created (data_of d n)) CChildNotCreated
      (guard (negb (has_parent d n)) CChildHasParent
      (guard (negb (in_subtree d n p)) CCycle None)))
  end.

Definition check_append (d : dom) (pn : nid) (c : child) : option clause :=
  guard (is_container (data_of d pn)) CParentNotContainer (check_child d pn c).

Definition check_before (d : dom) (sn : nid) (c : child) : option clause :=
  guard (negb (is_text (data_of d sn))) CSiblingIsText
    match parent_of d sn with
    | Some p => check_child d p c
    | None => Some CSiblingNoParent
    end.

Definition no_doctype (d : dom) : bool :=
  forallb (fun k => match data_of d k with Doctype _ _ _ => false | _ => true end) (kids d 0).
Definition no_element (d : dom) : bool :=
  forallb (fun k => negb (is_element (data_of d k))) (kids d 0).

(* ---------- structural sanity of an arena (used after the abstract clone step) ---------- *)
Fixpoint nodup_b (l : list nat) : bool :=
  match l with
  | [] => true
  | x :: t => negb (mem x t) && nodup_b t
  end.

(* walking upwards from [n] ends at a parentless node before the fuel runs out *)
Fixpoint walks_out (d : dom) (fuel : nat) (n : nid) : bool :=
  match fuel with
  | 0 => false
  | S f => match parent_of d n with Some p => walks_out d f p | None => true end
  end.

Definition node_ok (d : dom) (n : nid) : bool :=
  let x := data_of d n in
  forallb (fun k => Nat.ltb k (size d) && match data_of d k with Document => false | _ => true end) (kids d n) &&
  (match kids d n with [] => true | _ => is_container x end) &&
  (match x with Element _ _ (Some c) _ => Nat.ltb c (size d) | _ => true end).

Definition wf_b (d : dom) : bool :=
  Nat.ltb 0 (size d) &&
  (match data_of d 0 with Document => true | _ => false end) &&
  forallb (node_ok d) (seq 0 (size d)) &&
  nodup_b (flat_map (kids d) (seq 0 (size d))) &&
  forallb (fun n => Nat.ltb n (size d)) (d_names d) &&
  forallb (walks_out d (S (size d))) (seq 0 (size d)).

(* ---------- one operation ---------- *)
Definition check_op (d : dom) (op : sinkop) : option clause :=
  match op with
  | OpCreateElement h nm at_ template ip _ =>
    guard (fresh_h d h) CHandleNumbering
    (guard (attrs_distinct at_) CDuplicateAttribute
    (guard (Bool.eqb template (name_is nm s_ns_html s_template)) CTemplateFlag
    (guard (implb ip (name_is nm s_ns_mathml s_annotation_xml)) CMathmlIpFlag None)))
  | OpCreateComment h _ | OpCreatePi h _ _ => guard (fresh_h d h) CHandleNumbering None
  | OpAppend p c => with_node d p (fun pn => check_append d pn c)
  | OpAppendBeforeSibling s c => with_node d s (fun sn => check_before d sn c)
  | OpAppendBasedOnParent e pe c =>
    check_elem d e (check_elem d pe
      (with_node d e (fun en => with_node d pe (fun pn =>
         if has_parent d en then check_before d en c else check_append d pn c))))
  | OpAppendDoctype _ _ _ =>
    guard (no_doctype d) CSecondDoctype (guard (no_element d) CDoctypeAfterElement None)
  | OpAddAttrsIfMissing t new =>
    check_elem d t (guard (attrs_distinct new) CDuplicateAttribute None)
  | OpRemoveFromParent t => with_node d t (fun _ => None)
  | OpReparentChildren a b =>
    with_node d a (fun an => with_node d b (fun bn =>
      guard (is_container (data_of d an) && is_container (data_of d bn)) CParentNotContainer
      (guard (negb (in_subtree d an bn)) CCycle None)))
  | OpGetTemplateContents t r =>
    with_node d t (fun tn =>
      guard (is_html (data_of d tn) s_template) CNotTemplate
      match data_of d tn with
      | Element _ _ (Some c) _ =>
        guard (match index_of c (d_names d) with Some k => Nat.eqb r k | None => fresh_h d r end)
              CHandleNumbering None
      | _ => Some CNotTemplate
      end)
  | OpMarkScriptStarted h =>
    with_node d h (fun n => guard (is_html (data_of d n) s_script) CNotScript None)
  | OpPop h | OpElemName h | OpIsMathmlIp h => check_elem d h None
  | OpAssociateForm t f e pe =>
    with_node d t (fun tn =>
      guard (is_html_any (data_of d tn) form_associatable) CNotAssociatable
      (with_node d f (fun fn =>
        guard (is_html (data_of d fn) s_form) CNotForm
        (check_elem d e
          match pe with Some x => check_elem d x None | None => None end))))
  | OpCloneOption o =>
    with_node d o (fun n =>
      guard (is_html (data_of d n) s_option) CNotOption
      (guard (wf_b (apply d op)) CCloneModel None))
  | OpSetQuirks _ | OpSetLine _ | OpParseError => None
  end.

(* ---------- every call of the TreeSink trait ---------- *)
(* [sinkop] lists the methods that have an effect or an element-only argument;
   the remaining queries are added here so that a recorded trace is a [call] list
   line by line (indexes reported by the monitor are trace line numbers). *)
Inductive call :=
| Op (op : sinkop)
| QSameNode (x y : handle)
| QGetDocument
| QAllowShadow (intended_parent : handle)                          (* allow_declarative_shadow_roots *)
| QAttachShadow (location template : handle) (attrs : list dattr). (* attach_declarative_shadow (RcDom: refuses) *)

Definition apply_call (d : dom) (c : call) : dom :=
  match c with Op op => apply d op | _ => d end.

Definition check_call (d : dom) (c : call) : option clause :=
  match c with
  | Op op => check_op d op
  | QSameNode x y => with_node d x (fun _ => with_node d y (fun _ => None))
  | QGetDocument => None
  | QAllowShadow h => with_node d h (fun _ => None)
  | QAttachShadow l t at_ =>
    check_elem d l
      (with_node d t (fun tn =>
        guard (is_html (data_of d tn) s_template) CNotTemplate
        (guard (attrs_distinct at_) CDuplicateAttribute None)))
  end.

Fixpoint ops_of (cs : list call) : list sinkop :=
  match cs with
  | [] => []
  | Op op :: t => op :: ops_of t
  | _ :: t => ops_of t
  end.

Definition run_calls (d : dom) (cs : list call) : dom := fold_left apply_call cs d.

(* ---------- a whole trace ---------- *)
Definition violation := (nat * clause)%type.

Fixpoint monitor_from (k : nat) (d : dom) (cs : list call) : option violation :=
  match cs with
  | [] => None
  | c :: t =>
    match check_call d c with
    | Some cl => Some (k, cl)
    | None => monitor_from (S k) (apply_call d c) t
    end
  end.

Definition monitor (d : dom) (cs : list call) : option violation := monitor_from 0 d cs.

(* every breach of the trace, not only the first: the operation is applied anyway
   (diagnostics for telling known findings apart; [monitor] is the judge) *)
Fixpoint monitor_all (k : nat) (d : dom) (cs : list call) : list violation :=
  match cs with
  | [] => []
  | c :: t =>
    match check_call d c with
    | Some cl => (k, cl) :: monitor_all (S k) (apply_call d c) t
    | None => monitor_all (S k) (apply_call d c) t
    end
  end.
