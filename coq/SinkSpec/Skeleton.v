(* ========================================================================
   Skeleton.v - C06: the canonical shape of a parsed HTML document, as a
   boolean function on the abstract DOM ([skeleton_ok]) and as the predicate
   the property states ([Skeleton]); SkeletonProofs.v shows they coincide.

   Reading decisions:
   * "frameset optionally followed by noframes": any number of noframes
     elements (WHATWG yields several for <frameset></frameset><noframes>
     </noframes><noframes>...).
   * the conditions on text nodes and on "only elements and template-content
     fragments have children" are judged on every node of the arena, detached
     subtrees included (stronger than the statement, never seen to matter).
   * a template-contents fragment is a [Document]-kind node of the arena; the
     document itself is node 0.
   ======================================================================== *)
From Coq Require Import List NArith Bool Arith.
From HV Require Import Dom.DomSpec.
Import ListNotations.

Definition s_html : str := [104;116;109;108]%N.  (* "html" *)
Definition s_head : str := [104;101;97;100]%N.  (* "head" *)
Definition s_body : str := [98;111;100;121]%N.  (* "body" *)
Definition s_frameset : str := [102;114;97;109;101;115;101;116]%N.  (* "frameset" *)
Definition s_noframes : str := [110;111;102;114;97;109;101;115]%N.  (* "noframes" *)

Definition is_comment (x : data) : bool := match x with Comment _ => true | _ => false end.
Definition is_doctype (x : data) : bool := match x with Doctype _ _ _ => true | _ => false end.

(* ---------- children of the document: comments* doctype? comments* html comments* ---------- *)
(* phase 0: no doctype and no html yet; 1: doctype seen; 2: html seen *)
Fixpoint doc_shape (phase : nat) (l : list data) : bool :=
  match l with
  | [] => Nat.eqb phase 2
  | x :: t =>
    if is_comment x then doc_shape phase t
    else if is_doctype x then Nat.eqb phase 0 && doc_shape 1 t
    else if is_html x s_html then Nat.ltb phase 2 && doc_shape 2 t
    else false
  end.

(* ---------- children of html ---------- *)
Definition is_ws (c : N) : bool :=
  N.eqb c 9 || N.eqb c 10 || N.eqb c 12 || N.eqb c 13 || N.eqb c 32.

(* every child of html is an element, a comment or white-space text *)
Definition html_child_ok (x : data) : bool :=
  match x with
  | Element _ _ _ _ | Comment _ => true
  | Text s => forallb is_ws s
  | _ => false
  end.

(* the element children, in order: head, then body | frameset noframes* *)
Definition html_elems_ok (l : list data) : bool :=
  match l with
  | h :: b :: rest =>
    is_html h s_head &&
    ((is_html b s_body && match rest with [] => true | _ => false end) ||
     (is_html b s_frameset && forallb (fun x => is_html x s_noframes) rest))
  | _ => false
  end.

Definition html_ok (d : dom) (h : nid) : bool :=
  let ks := map (data_of d) (kids d h) in
  forallb html_child_ok ks && html_elems_ok (filter is_element ks).

(* ---------- conditions on every node ---------- *)
Fixpoint no_adjacent_text (l : list data) : bool :=
  match l with
  | x :: ((y :: _) as t) => negb (is_text x && is_text y) && no_adjacent_text t
  | _ => true
  end.

Definition node_shape_ok (d : dom) (n : nid) : bool :=
  no_adjacent_text (map (data_of d) (kids d n)) &&
  (match data_of d n with Text [] => false | _ => true end) &&
  (match kids d n with [] => true | _ => is_container (data_of d n) end).

(* ---------- the whole document ---------- *)
Definition skeleton_ok (d : dom) : bool :=
  doc_shape 0 (map (data_of d) (kids d 0)) &&
  forallb (fun k => if is_html (data_of d k) s_html then html_ok d k else true) (kids d 0) &&
  forallb (node_shape_ok d) (seq 0 (size d)).

(* ---------- which part fails (diagnostics for the check; not part of the statement) ---------- *)
Inductive skel_fault :=
| FDocChildren      (* document children are not comments* doctype? comments* html comments* *)
| FHtmlChildKind    (* html has a child that is not an element, a comment or white-space text *)
| FHtmlElements     (* element children of html are not head, body | frameset noframes* *)
| FAdjacentText (n : nid)
| FEmptyText (n : nid)
| FChildrenOfLeaf (n : nid).

Definition node_faults (d : dom) (n : nid) : list skel_fault :=
  (if no_adjacent_text (map (data_of d) (kids d n)) then [] else [FAdjacentText n]) ++
  (match data_of d n with Text [] => [FEmptyText n] | _ => [] end) ++
  (match kids d n with [] => [] | _ => if is_container (data_of d n) then [] else [FChildrenOfLeaf n] end).

Definition skeleton_faults (d : dom) : list skel_fault :=
  (if doc_shape 0 (map (data_of d) (kids d 0)) then [] else [FDocChildren]) ++
  flat_map (fun k =>
    if is_html (data_of d k) s_html then
      let ks := map (data_of d) (kids d k) in
      (if forallb html_child_ok ks then [] else [FHtmlChildKind]) ++
      (if html_elems_ok (filter is_element ks) then [] else [FHtmlElements])
    else []) (kids d 0) ++
  flat_map (node_faults d) (seq 0 (size d)).

(* ---------- the predicate as the property states it ---------- *)
Definition all_comments (l : list data) : Prop := forall x, In x l -> is_comment x = true.

Definition DocChildren (l : list data) : Prop :=
  exists c1 dt c2 h c3,
    l = c1 ++ dt ++ c2 ++ [h] ++ c3 /\
    all_comments c1 /\ all_comments c2 /\ all_comments c3 /\
    (dt = [] \/ exists x, dt = [x] /\ is_doctype x = true) /\
    is_html h s_html = true.

Definition HtmlElements (l : list data) : Prop :=
  exists h b rest,
    l = h :: b :: rest /\ is_html h s_head = true /\
    ((is_html b s_body = true /\ rest = []) \/
     (is_html b s_frameset = true /\ forall x, In x rest -> is_html x s_noframes = true)).

Definition AdjacentText (l : list data) : Prop :=
  exists l1 s t l2, l = l1 ++ Text s :: Text t :: l2.

Record Skeleton (d : dom) : Prop := {
  sk_doc : DocChildren (map (data_of d) (kids d 0)) ;
  sk_html_elems : forall h, In h (kids d 0) -> is_html (data_of d h) s_html = true ->
      HtmlElements (filter is_element (map (data_of d) (kids d h))) ;
  sk_html_text : forall h k, In h (kids d 0) -> is_html (data_of d h) s_html = true -> In k (kids d h) ->
      match data_of d k with
      | Element _ _ _ _ | Comment _ => True
      | Text s => forall c, In c s -> is_ws c = true
      | _ => False
      end ;
  sk_no_adjacent : forall n, n < size d -> ~ AdjacentText (map (data_of d) (kids d n)) ;
  sk_no_empty : forall n, n < size d -> data_of d n <> Text [] ;
  sk_leaves : forall n, n < size d -> kids d n <> [] -> is_container (data_of d n) = true
}.
