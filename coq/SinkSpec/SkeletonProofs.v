(* C06: the boolean judge [skeleton_ok] means the predicate [Skeleton]. *)
From Coq Require Import List NArith Bool Arith Lia.
From HV Require Import Dom.DomSpec Dom.DomLemmas SinkSpec.Skeleton.
Import ListNotations.

(* ---------- the three kinds of document children exclude each other ---------- *)
Lemma comment_not_doctype x : is_comment x = true -> is_doctype x = false.
Proof. destruct x; simpl; auto; discriminate. Qed.
Lemma comment_not_html x l : is_comment x = true -> is_html x l = false.
Proof. destruct x; simpl; auto; discriminate. Qed.
Lemma doctype_not_comment x : is_doctype x = true -> is_comment x = false.
Proof. destruct x; simpl; auto; discriminate. Qed.
Lemma html_not_comment x l : is_html x l = true -> is_comment x = false.
Proof. destruct x; simpl; auto; discriminate. Qed.
Lemma html_not_doctype x l : is_html x l = true -> is_doctype x = false.
Proof. destruct x; simpl; auto; discriminate. Qed.

Lemma all_comments_nil : all_comments [].
Proof. intros x []. Qed.
Lemma all_comments_cons x l : all_comments (x :: l) <-> is_comment x = true /\ all_comments l.
Proof.
  unfold all_comments. split.
  - intros H. split; [apply H; simpl; auto|intros y Hy; apply H; simpl; auto].
  - intros [A B] y [<-|Hy]; auto.
Qed.

(* ---------- children of the document ---------- *)
Lemma doc_shape2 l : doc_shape 2 l = true <-> all_comments l.
Proof.
  induction l as [|x t IH]; simpl.
  - split; auto. intros _. apply all_comments_nil.
  - rewrite all_comments_cons. destruct (is_comment x) eqn:C.
    + rewrite IH. tauto.
    + split; [|intros [A _]; discriminate].
      destruct (is_doctype x); simpl; [discriminate|]. destruct (is_html x s_html); simpl; discriminate.
Qed.

Definition Shape1 (l : list data) : Prop :=
  exists c2 h c3, l = c2 ++ [h] ++ c3 /\ all_comments c2 /\ all_comments c3 /\ is_html h s_html = true.

Lemma doc_shape1 l : doc_shape 1 l = true <-> Shape1 l.
Proof.
  induction l as [|x t IH]; simpl.
  - split; [discriminate|]. intros [c2 [h [c3 [E _]]]]. destruct c2; discriminate.
  - destruct (is_comment x) eqn:C.
    + rewrite IH. split.
      * intros [c2 [h [c3 [E [A [B H]]]]]]. exists (x :: c2), h, c3. subst t. split; [reflexivity|].
        split; [apply all_comments_cons; auto|auto].
      * intros [c2 [h [c3 [E [A [B H]]]]]]. destruct c2 as [|y c2]; simpl in E; inversion E; subst.
        -- rewrite (html_not_comment _ _ H) in C. discriminate.
        -- apply all_comments_cons in A. exists c2, h, c3. tauto.
    + destruct (is_doctype x) eqn:D; simpl.
      * split; [discriminate|]. intros [c2 [h [c3 [E [A [B H]]]]]].
        destruct c2 as [|y c2]; simpl in E; inversion E; subst.
        -- rewrite (html_not_doctype _ _ H) in D. discriminate.
        -- apply all_comments_cons in A. destruct A; congruence.
      * destruct (is_html x s_html) eqn:Hx; simpl.
        -- rewrite doc_shape2. split.
           ++ intros A. exists [], x, t. split; [reflexivity|]. split; [apply all_comments_nil|auto].
           ++ intros [c2 [h [c3 [E [A [B H]]]]]]. destruct c2 as [|y c2]; simpl in E; inversion E; subst; auto.
              apply all_comments_cons in A. destruct A; congruence.
        -- split; [discriminate|]. intros [c2 [h [c3 [E [A [B H]]]]]].
           destruct c2 as [|y c2]; simpl in E; inversion E; subst; [congruence|].
           apply all_comments_cons in A. destruct A; congruence.
Qed.

Lemma doc_shape0 l : doc_shape 0 l = true <-> DocChildren l.
Proof.
  induction l as [|x t IH]; simpl.
  - split; [discriminate|]. intros [c1 [dt [c2 [h [c3 [E _]]]]]].
    destruct c1; [|discriminate]. destruct dt; [|discriminate]. destruct c2; discriminate.
  - destruct (is_comment x) eqn:C.
    + rewrite IH. split.
      * intros [c1 [dt [c2 [h [c3 [E [A1 [A2 [A3 [D H]]]]]]]]]].
        exists (x :: c1), dt, c2, h, c3. subst t. split; [reflexivity|].
        split; [apply all_comments_cons; auto|auto].
      * intros [c1 [dt [c2 [h [c3 [E [A1 [A2 [A3 [D H]]]]]]]]]].
        destruct c1 as [|y c1]; simpl in E.
        -- destruct D as [->|[z [-> Dz]]]; simpl in E.
           ++ destruct c2 as [|y c2]; simpl in E; inversion E; subst.
              ** rewrite (html_not_comment _ _ H) in C. discriminate.
              ** apply all_comments_cons in A2. exists [], [], c2, h, c3.
                 split; [reflexivity|]. split; [apply all_comments_nil|]. tauto.
           ++ inversion E; subst. rewrite (doctype_not_comment _ Dz) in C. discriminate.
        -- inversion E; subst. apply all_comments_cons in A1. exists c1, dt, c2, h, c3. tauto.
    + destruct (is_doctype x) eqn:D; simpl.
      * rewrite doc_shape1. split.
        -- intros [c2 [h [c3 [E [A [B H]]]]]]. exists [], [x], c2, h, c3. subst t.
           split; [reflexivity|]. split; [apply all_comments_nil|]. split; auto. split; auto. split; auto.
           right. exists x. auto.
        -- intros [c1 [dt [c2 [h [c3 [E [A1 [A2 [A3 [Dd H]]]]]]]]]].
           destruct c1 as [|y c1]; simpl in E.
           ++ destruct Dd as [->|[z [-> Dz]]]; simpl in E.
              ** destruct c2 as [|y c2]; simpl in E; inversion E; subst.
                 --- rewrite (html_not_doctype _ _ H) in D. discriminate.
                 --- apply all_comments_cons in A2. destruct A2; congruence.
              ** inversion E; subst. exists c2, h, c3. auto.
           ++ inversion E; subst. apply all_comments_cons in A1. destruct A1; congruence.
      * destruct (is_html x s_html) eqn:Hx; simpl.
        -- rewrite doc_shape2. split.
           ++ intros A. exists [], [], [], x, t. split; [reflexivity|].
              repeat (split; [apply all_comments_nil|]). split; auto.
           ++ intros [c1 [dt [c2 [h [c3 [E [A1 [A2 [A3 [Dd H]]]]]]]]]].
              destruct c1 as [|y c1]; simpl in E.
              ** destruct Dd as [->|[z [-> Dz]]]; simpl in E.
                 --- destruct c2 as [|y c2]; simpl in E; inversion E; subst; auto.
                     apply all_comments_cons in A2. destruct A2; congruence.
                 --- inversion E; subst. congruence.
              ** inversion E; subst. apply all_comments_cons in A1. destruct A1; congruence.
        -- split; [discriminate|].
           intros [c1 [dt [c2 [h [c3 [E [A1 [A2 [A3 [Dd H]]]]]]]]]].
           destruct c1 as [|y c1]; simpl in E.
           ++ destruct Dd as [->|[z [-> Dz]]]; simpl in E.
              ** destruct c2 as [|y c2]; simpl in E; inversion E; subst; [congruence|].
                 apply all_comments_cons in A2. destruct A2; congruence.
              ** inversion E; subst. congruence.
           ++ inversion E; subst. apply all_comments_cons in A1. destruct A1; congruence.
Qed.

(* ---------- children of html ---------- *)
Lemma html_elems_ok_iff l : html_elems_ok l = true <-> HtmlElements l.
Proof.
  unfold html_elems_ok, HtmlElements. destruct l as [|h [|b rest]].
  - split; [discriminate|]. intros [h [b [r [E _]]]]. discriminate.
  - split; [discriminate|]. intros [h' [b [r [E _]]]]. discriminate.
  - rewrite andb_true_iff, orb_true_iff, !andb_true_iff, forallb_forall. split.
    + intros [A [[B C]|[B C]]]; exists h, b, rest; split; auto; split; auto.
      left. split; auto. destruct rest; [auto|discriminate].
    + intros [h' [b' [r' [E [A B]]]]]. inversion E; subst. split; auto.
      destruct B as [[B ->]|[B C]]; [left; split; auto|right; split; auto].
Qed.

Lemma html_child_ok_iff x :
  html_child_ok x = true <->
  match x with
  | Element _ _ _ _ | Comment _ => True
  | Text s => forall c, In c s -> is_ws c = true
  | _ => False
  end.
Proof.
  destruct x; simpl; try (split; [discriminate|tauto]); try tauto.
  apply forallb_forall.
Qed.

(* ---------- conditions on every node ---------- *)
Lemma no_adjacent_text_iff l : no_adjacent_text l = true <-> ~ AdjacentText l.
Proof.
  induction l as [|x t IH].
  - simpl. split; auto. intros _ [l1 [s [u [l2 E]]]]. destruct l1; discriminate.
  - destruct t as [|y t'].
    + simpl. split; auto. intros _ [l1 [s [u [l2 E]]]].
      destruct l1 as [|a [|b l1]]; simpl in E; inversion E.
    + change (no_adjacent_text (x :: y :: t')) with (negb (is_text x && is_text y) && no_adjacent_text (y :: t')).
      rewrite andb_true_iff, negb_true_iff, IH. split.
      * intros [A B] [l1 [s [u [l2 E]]]]. destruct l1 as [|a l1]; simpl in E; inversion E; subst.
        -- simpl in A. discriminate.
        -- apply B. exists l1, s, u, l2. auto.
      * intros H. split.
        -- destruct x, y; simpl; auto. exfalso. apply H. exists [], s, s0, t'. reflexivity.
        -- intros [l1 [s [u [l2 E]]]]. apply H. exists (x :: l1), s, u, l2. simpl. rewrite E. reflexivity.
Qed.

Lemma node_shape_ok_iff d n :
  node_shape_ok d n = true <->
  ~ AdjacentText (map (data_of d) (kids d n)) /\ data_of d n <> Text [] /\
  (kids d n <> [] -> is_container (data_of d n) = true).
Proof.
  unfold node_shape_ok. rewrite !andb_true_iff, no_adjacent_text_iff. split.
  - intros [[A B] C]. split; auto. split.
    + intros E. rewrite E in B. discriminate.
    + intros K. destruct (kids d n); [congruence|auto].
  - intros [A [B C]]. split; [split; auto|].
    + destruct (data_of d n) as [| |s| | |]; auto. destruct s; auto; congruence.
    + destruct (kids d n) eqn:K; auto. apply C. discriminate.
Qed.

(* ---------- the whole document ---------- *)
Theorem skeleton_ok_iff d : skeleton_ok d = true <-> Skeleton d.
Proof.
  unfold skeleton_ok. rewrite !andb_true_iff, doc_shape0, !forallb_forall. split.
  - intros [[A B] C]. constructor; auto.
    + intros h Hh Hx. specialize (B h Hh). rewrite Hx in B. unfold html_ok in B.
      apply andb_true_iff in B. apply html_elems_ok_iff. tauto.
    + intros h k Hh Hx Hk. specialize (B h Hh). rewrite Hx in B. unfold html_ok in B.
      apply andb_true_iff in B. destruct B as [B _]. rewrite forallb_forall in B.
      apply html_child_ok_iff. apply B. apply in_map. auto.
    + intros n Hn. apply (node_shape_ok_iff d n). apply C. apply in_seq. lia.
    + intros n Hn. apply (node_shape_ok_iff d n). apply C. apply in_seq. lia.
    + intros n Hn. apply (node_shape_ok_iff d n). apply C. apply in_seq. lia.
  - intros [A B C D E F]. split; [split; auto|].
    + intros h Hh. destruct (is_html (data_of d h) s_html) eqn:Hx; auto.
      unfold html_ok. apply andb_true_iff. split.
      * apply forallb_forall. intros x Hx'. apply in_map_iff in Hx'. destruct Hx' as [k [<- Hk]].
        apply html_child_ok_iff. apply (C h k); auto.
      * apply html_elems_ok_iff. apply B; auto.
    + intros n Hn. apply in_seq in Hn. apply node_shape_ok_iff. split; [apply D; lia|].
      split; [apply E; lia|apply F; lia].
Qed.
