(* ========================================================================
   HandleCensus.v - C18: the reflective check on the regenerated field census
   (coq/Gen/GenHandleCensus.v): every Handle-bearing field of a tree builder is
   one that trace_handles visits.  Generic part only (no import of Gen/).
   ======================================================================== *)
From Coq Require Import List String Bool.
Import ListNotations.

Definition mem_s (x : string) (l : list string) : bool := existsb (String.eqb x) l.
Definition subset_s (a b : list string) : bool := forallb (fun x => mem_s x b) a.

Definition pair_eqb (x y : string * string) : bool :=
  String.eqb (fst x) (fst y) && String.eqb (snd x) (snd y).
Definition mem_p (x : string * string) (l : list (string * string)) : bool := existsb (pair_eqb x) l.
Definition subset_p (a b : list (string * string)) : bool := forallb (fun x => mem_p x b) a.

(* the fields that hold handles but are not traced (witness list when the check fails) *)
Definition untraced (handle_fields traced : list string) : list string :=
  filter (fun x => negb (mem_s x traced)) handle_fields.

Definition census_ok (handle_fields traced : list string)
                     (handle_variants traced_variants : list (string * string)) : bool :=
  subset_s handle_fields traced && subset_p handle_variants traced_variants.

Lemma mem_s_In x l : mem_s x l = true <-> In x l.
Proof.
  unfold mem_s. rewrite existsb_exists. split.
  - intros [y [H1 H2]]. apply String.eqb_eq in H2. subst; auto.
  - intros H. exists x. split; auto. apply String.eqb_refl.
Qed.

Lemma subset_s_sound a b : subset_s a b = true -> forall x, In x a -> In x b.
Proof.
  unfold subset_s. rewrite forallb_forall. intros H x Hx. apply mem_s_In. auto.
Qed.

Lemma mem_p_In x l : mem_p x l = true <-> In x l.
Proof.
  unfold mem_p. rewrite existsb_exists. split.
  - intros [y [H1 H2]]. unfold pair_eqb in H2. apply andb_true_iff in H2. destruct H2 as [A B].
    apply String.eqb_eq in A. apply String.eqb_eq in B. destruct x, y; simpl in *; subst; auto.
  - intros H. exists x. split; auto. unfold pair_eqb. rewrite !String.eqb_refl. reflexivity.
Qed.

Lemma subset_p_sound a b : subset_p a b = true -> forall x, In x a -> In x b.
Proof.
  unfold subset_p. rewrite forallb_forall. intros H x Hx. apply mem_p_In. auto.
Qed.

Theorem census_sound hf tr hv tv :
  census_ok hf tr hv tv = true ->
  (forall f, In f hf -> In f tr) /\ (forall v, In v hv -> In v tv).
Proof.
  unfold census_ok. intros H. apply andb_true_iff in H. destruct H as [A B].
  split; [apply subset_s_sound; auto|apply subset_p_sound; auto].
Qed.
