(* Thin instantiation with the tables regenerated from /repo (Gen/): every
   obligation here is a finite check by vm_compute / reflexivity and is what
   breaks when an entity row, a C1 entry or a numeric range changes in /repo. *)
From Coq Require Import List NArith Bool.
From HV Require Import CharRef.CRModel CharRef.CRSpec CharRef.CRTable CharRef.CRRun CharRef.CRNamed
  CharRef.CRNumeric CharRef.CRTheorems CharRef.WhatwgEntities CharRef.CRGenTable Gen.GenEntities Gen.GenC1.
Import ListNotations.
Open Scope N_scope.

(* the WHATWG table as a lookup function *)
Definition whatwg_table : entity_table := alookup whatwg_entities.

Lemma gen_table_is_list : forall k, gen_table k = alookup entities k.
Proof. intro k. apply tlookup_tbuild. Qed.

(* prefix closure, scalar values, "" is not an identifier *)
Lemma gen_table_ok : table_ok gen_table.
Proof. apply chk_table_sound. vm_compute. reflexivity. Qed.

(* the full rows of the compiled map are exactly the WHATWG rows *)
Lemma gen_same_as_whatwg : same_table entities whatwg_entities.
Proof. apply chk_same_sound. vm_compute. reflexivity. Qed.

Lemma whatwg_count : length whatwg_entities = 2231%nat.
Proof. vm_compute. reflexivity. Qed.

(* C1_REPLACEMENTS and the arms of finish_numeric as they are in /repo = what the model uses *)
Lemma gen_c1_is_model : GenC1.c1_replacements = CRModel.c1_replacements.
Proof. apply opt_list_eqb_eq. vm_compute. reflexivity. Qed.

Lemma gen_arms_is_model : GenC1.finish_numeric_arms = CRModel.finish_numeric_arms.
Proof. reflexivity. Qed.

Lemma gen_c1_agrees_whatwg : c1_agrees GenC1.c1_replacements.
Proof. rewrite gen_c1_is_model. apply c1_model_agrees. Qed.

Lemma gen_names_are_whatwg : forall n v, fst v <> 0 -> (gen_table n = Some v <-> whatwg_table n = Some v).
Proof.
  intros n v Hf. pose proof gen_same_as_whatwg as H. unfold same_table in H. cbv zeta in H.
  destruct H as [H1 [H2 _]].
  unfold gen_table, gen_trie, whatwg_table. split; intro H.
  - exact (H2 n v H Hf).
  - apply alookup_in in H. exact (proj1 (H1 n v H)).
Qed.

(* end to end for HTML: the model running on the table compiled into web_atoms
   delivers what the WHATWG table prescribes *)
Theorem html_named : forall in_attr chunks c0 r0,
  concat chunks = c0 :: r0 -> is_alnum c0 = true ->
  let o := cr_feed gen_table (cr_new in_attr) chunks [] false in
  exists chars, o_status o = CrDone chars /\ named_result whatwg_table in_attr (c0 :: r0) chars (o_q o).
Proof.
  intros a chunks c0 r0 E Hc. cbv zeta.
  destruct (named_done gen_table gen_table_ok a chunks c0 r0 E Hc) as [chars [Hs Hr]].
  exists chars. split; [exact Hs|].
  eapply named_result_ext; [|exact Hr]. exact gen_names_are_whatwg.
Qed.
