(* Declarative specification of character references, written from the WHATWG
   text (HTML Living Standard 13.2.5.72 "Character reference state" ..
   13.2.5.80 "Numeric character reference end state"), independent of the
   control flow of char_ref/mod.rs.  Definitions only. *)
From Coq Require Import List NArith Bool.
From HV Require Import CharRef.CRModel.
Import ListNotations.
Open Scope N_scope.

(* ------------------------------------------------------------------ named references *)
(* [n] is an identifier of the table (a row with a non-zero first code point;
   rows with value (0,0) are the prefix markers build.rs adds) *)
Definition is_name (T : entity_table) (n : list N) : Prop :=
  exists v, T n = Some v /\ fst v <> 0.

(* every non-empty prefix of an identifier is a key of the table *)
Definition prefix_closed (T : entity_table) : Prop :=
  forall p s, p <> [] -> is_name T (p ++ s) -> T p <> None.

(* the code points of identifiers are Unicode scalar values (from_u32 succeeds) *)
Definition values_scalar (T : entity_table) : Prop :=
  forall n v, T n = Some v -> fst v <> 0 -> is_scalar (fst v) = true /\ is_scalar (snd v) = true.

Record table_ok (T : entity_table) : Prop := {
  tok_prefix : prefix_closed T;
  tok_values : values_scalar T;
  tok_nonempty : ~ is_name T []
}.

(* "Consume the maximum number of characters possible, where the consumed
   characters are one of the identifiers in the first column of the named
   character references table": [n] is the LONGEST identifier that is a
   prefix of [input], [rest] is what follows it, [v] its table value *)
Definition longest_name (T : entity_table) (input n rest : list N) (v : N * N) : Prop :=
  input = n ++ rest /\ T n = Some v /\ fst v <> 0 /\
  forall n' rest', input = n' ++ rest' -> is_name T n' -> (length n' <= length n)%nat.

Definition no_name (T : entity_table) (input : list N) : Prop :=
  forall n' rest', input = n' ++ rest' -> ~ is_name T n'.

(* one or two code points *)
Definition chars_of (v : N * N) : list N := if snd v =? 0 then [fst v] else [fst v; snd v].

(* "If the character reference was consumed as part of an attribute, and the
   last character matched is not a U+003B SEMICOLON character (;), and the next
   input character is either a U+003D EQUALS SIGN character (=) or an ASCII
   alphanumeric, then, for historical reasons, flush code points consumed as a
   character reference and switch to the return state." *)
Definition legacy_exception (in_attr : bool) (n rest : list N) : bool :=
  in_attr && negb (last n 0 =? 59) &&
  match rest with
  | c :: _ => (c =? 61) || is_alnum c
  | [] => false
  end.

(* what a named reference must produce on [input] (the text after '&', whole,
   followed by end of input): the characters delivered in place of the
   reference ([] = not a reference: the '&' stays an ordinary character) and
   the text that remains to be tokenized by the return state *)
Inductive named_result (T : entity_table) (in_attr : bool) (input : list N) : list N -> list N -> Prop :=
| NR_none : no_name T input -> named_result T in_attr input [] input
| NR_legacy : forall n rest v, longest_name T input n rest v ->
    legacy_exception in_attr n rest = true -> named_result T in_attr input [] input
| NR_match : forall n rest v, longest_name T input n rest v ->
    legacy_exception in_attr n rest = false -> named_result T in_attr input (chars_of v) rest.

(* ------------------------------------------------------------------ numeric references *)
(* the unbounded number denoted by a digit string *)
Fixpoint digits_value (base : N) (ds : list N) (acc : N) : N :=
  match ds with
  | [] => acc
  | c :: r => match to_digit base c with
              | Some d => digits_value base r (acc * base + d)
              | None => acc
              end
  end.

Definition is_digit (base c : N) : bool := match to_digit base c with Some _ => true | None => false end.

(* the table of 13.2.5.80 for the C1 controls; code points without a row stay *)
Definition whatwg_c1 (v : N) : N :=
  match v with
  | 0x80 => 0x20AC | 0x82 => 0x201A | 0x83 => 0x0192 | 0x84 => 0x201E | 0x85 => 0x2026
  | 0x86 => 0x2020 | 0x87 => 0x2021 | 0x88 => 0x02C6 | 0x89 => 0x2030 | 0x8A => 0x0160
  | 0x8B => 0x2039 | 0x8C => 0x0152 | 0x8E => 0x017D | 0x91 => 0x2018 | 0x92 => 0x2019
  | 0x93 => 0x201C | 0x94 => 0x201D | 0x95 => 0x2022 | 0x96 => 0x2013 | 0x97 => 0x2014
  | 0x98 => 0x02DC | 0x99 => 0x2122 | 0x9A => 0x0161 | 0x9B => 0x203A | 0x9C => 0x0153
  | 0x9E => 0x017E | 0x9F => 0x0178
  | _ => v
  end.

(* numeric character reference end state: 0 -> U+FFFD; greater than 0x10FFFF
   -> U+FFFD; surrogate -> U+FFFD; noncharacters and controls are parse errors
   only (the value is kept), except the C1 table *)
Definition whatwg_numeric (v : N) : N :=
  if v =? 0 then 0xFFFD
  else if 0x10FFFF <? v then 0xFFFD
  else if in_range 0xD800 0xDFFF v then 0xFFFD
  else if in_range 0x80 0x9F v then whatwg_c1 v
  else v.

(* the shapes '#' digits.. and '#' ('x'|'X') hexdigits.. *)
Definition num_shape (base : N) (marker : list N) : Prop :=
  (base = 10 /\ marker = []) \/ (base = 16 /\ (marker = [CH_x] \/ marker = [CH_X])).

(* [rest] does not continue the digit string *)
Definition ends_digits (base : N) (rest : list N) : Prop :=
  match rest with [] => True | c :: _ => is_digit base c = false end.

Definition strip_semi (rest : list N) : list N :=
  match rest with
  | c :: r => if c =? CH_SEMI then r else rest
  | [] => []
  end.

(* ------------------------------------------------------------------ vocabulary for the model runs *)
Definition rank (t : crt) : nat :=
  match cr_st t with
  | CrBegin => 3 | CrOcto => 2 | CrNumeric _ => 1 | _ => 0
  end%nat.

Definition app_q (o : cr_out) (r : list N) : cr_out :=
  out (o_st o) (o_q o ++ r) (o_status o) (o_errs o) (o_clear_ignore_lf o).
