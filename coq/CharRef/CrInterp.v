(* The interpreter's own model of the character-reference sub-tokenizer
   (TokIR/Interp.v: cr_new, cr_step, cr_read, finish_named, finish_numeric,
   unconsume_numeric, cr_eof; html flavour, flat queue) and the model of
   CharRef/CRModel.v compute the same thing, step for step: same consumed
   input, same characters pushed back, same characters handed to
   process_char_ref, same number of parse errors, same in-attribute behaviour.
   Consequently the C14 theorems hold of the interpreter. *)
From Coq Require Import List NArith Bool Lia Arith.
From RecordUpdate Require Import RecordSet.
From HV Require Import TokIR.IR.
From HV Require TokIR.Interp.
From HV Require Import CharRef.CRModel CharRef.CRSpec CharRef.CRRun CharRef.CRNamed CharRef.CRNumeric
  CharRef.CRTheorems.
Import ListNotations RecordSetNotations.
Open Scope N_scope.
#[local] Existing Instance Interp.eta_crt.
#[local] Existing Instance Interp.eta_cfg.
#[local] Existing Instance Interp.eta_mach.

(* ------------------------------------------------------------------ the representation relation (a function) *)
Definition conv_state (s : CRModel.cr_state) : Interp.cr_state :=
  match s with
  | CRModel.CrBegin => Interp.CrBegin | CRModel.CrOcto => Interp.CrOcto
  | CRModel.CrNumeric b => Interp.CrNumeric b | CRModel.CrNumSemi => Interp.CrNumSemi
  | CRModel.CrNamed => Interp.CrNamed | CRModel.CrBogus => Interp.CrBogus
  end.

(* the interpreter keeps the name buffer as a plain list (our [None] = not in use = []) and carries xml's
   additional allowed character, which the html flavour never reads *)
Definition to_i (addnl : option N) (t : CRModel.crt) : Interp.crt :=
  Interp.mkcrt (conv_state (CRModel.cr_st t)) (CRModel.cr_attr t) addnl (CRModel.cr_num t) (CRModel.cr_big t)
    (CRModel.cr_seen t) (CRModel.cr_hex t) (match CRModel.cr_buf t with Some b => b | None => [] end)
    (CRModel.cr_match t) (CRModel.cr_len t).

Lemma to_i_new : forall addnl a, to_i addnl (CRModel.cr_new a) = Interp.cr_new a addnl.
Proof. reflexivity. Qed.

(* states on which the model has no panic site to reach (kept by every Progress step) *)
Definition wf (t : CRModel.crt) : Prop :=
  match CRModel.cr_st t with
  | CRModel.CrNumeric b => b = 10 \/ b = 16
  | CRModel.CrNamed | CRModel.CrBogus => CRModel.cr_buf t <> None
  | CRModel.CrBegin => CRModel.cr_match t = None
  | _ => True
  end /\
  match CRModel.cr_match t with
  | Some v => (0 < CRModel.cr_len t <= length (match CRModel.cr_buf t with Some b => b | None => [] end))%nat /\
              is_scalar (fst v) = true /\ is_scalar (snd v) = true
  | None => True
  end.

Lemma wf_new : forall a, wf (CRModel.cr_new a).
Proof. intro a. split; [reflexivity|exact I]. Qed.

Definition c1_of_list (l : list (option N)) (n : N) : option N :=
  match nth_error l (N.to_nat (n - 0x80)) with Some o => o | None => None end.

(* ------------------------------------------------------------------ small agreements *)
Lemma alnum_eq : forall c, Interp.is_alnum c = CRModel.is_alnum c.
Proof.
  intro c. unfold Interp.is_alnum, Interp.is_alpha, Interp.is_upper, Interp.is_lower, Interp.is_digit,
    CRModel.is_alnum, in_range.
  destruct ((65 <=? c) && (c <=? 90)), ((97 <=? c) && (c <=? 122)), ((48 <=? c) && (c <=? 57)); reflexivity.
Qed.

Lemma to_digit_eq : forall base c, base = 10 \/ base = 16 -> Interp.to_digit base c = CRModel.to_digit base c.
Proof.
  intros base c Hb. unfold Interp.to_digit, Interp.is_digit, CRModel.to_digit, digit_val, in_range.
  destruct ((48 <=? c) && (c <=? 57)) eqn:E1.
  - apply andb_true_iff in E1. destruct E1 as [A B]. apply N.leb_le in A. apply N.leb_le in B.
    replace (c - 48 <? base) with true; [reflexivity|]. symmetry. apply N.ltb_lt. destruct Hb; subst base; lia.
  - destruct ((97 <=? c) && (c <=? 122)) eqn:E2.
    + apply andb_true_iff in E2. destruct E2 as [A B]. apply N.leb_le in A. apply N.leb_le in B.
      rewrite (proj2 (N.leb_le 97 c) A).
      replace (c <=? 70) with false by (symmetry; apply N.leb_gt; lia).
      rewrite (andb_false_r ((base =? 16) && (65 <=? c))).
      destruct Hb; subst base; cbn [N.eqb Pos.eqb andb].
      * replace (c - 87 <? 10) with false by (symmetry; apply N.ltb_ge; lia). reflexivity.
      * destruct (c <=? 102) eqn:E3.
        -- apply N.leb_le in E3. replace (c - 87 <? 16) with true by (symmetry; apply N.ltb_lt; lia). reflexivity.
        -- apply N.leb_gt in E3. replace (c - 87 <? 16) with false by (symmetry; apply N.ltb_ge; lia). reflexivity.
    + replace ((base =? 16) && (97 <=? c) && (c <=? 102)) with false.
      2:{ symmetry. destruct (base =? 16); [|reflexivity]. cbn [andb].
          apply andb_false_iff in E2. apply andb_false_iff.
          destruct E2 as [E2|E2]; [left; exact E2|right; apply N.leb_gt in E2; apply N.leb_gt; lia]. }
      cbn match.
      destruct ((65 <=? c) && (c <=? 90)) eqn:E4.
      * apply andb_true_iff in E4. destruct E4 as [A B]. apply N.leb_le in A. apply N.leb_le in B.
        rewrite (proj2 (N.leb_le 65 c) A). rewrite andb_true_r.
        destruct Hb; subst base; cbn [N.eqb Pos.eqb andb].
        -- replace (c - 55 <? 10) with false by (symmetry; apply N.ltb_ge; lia). reflexivity.
        -- destruct (c <=? 70) eqn:E3.
           ++ apply N.leb_le in E3. replace (c - 55 <? 16) with true by (symmetry; apply N.ltb_lt; lia). reflexivity.
           ++ apply N.leb_gt in E3. replace (c - 55 <? 16) with false by (symmetry; apply N.ltb_ge; lia). reflexivity.
      * replace ((base =? 16) && (65 <=? c) && (c <=? 70)) with false; [reflexivity|].
        symmetry. destruct (base =? 16); [|reflexivity]. cbn [andb].
        apply andb_false_iff in E4. apply andb_false_iff.
        destruct E4 as [E4|E4]; [left; exact E4|right; apply N.leb_gt in E4; apply N.leb_gt; lia].
Qed.

(* ------------------------------------------------------------------ the interpreter side: html flavour, flat queue *)
Section Sim.
Context {S : Type}.
Variable fl : Interp.flavour S.
Hypothesis Hhtml : Interp.f_html fl = true.
Variable ex : bool.                      (* exact_errors: the html character-reference code does not read it *)
Variable T : entity_table.               (* = the interpreter's [ent] *)
Variable c1 : N -> option N.
Hypothesis Hc1 : forall n, in_range 0x80 0x9F n = true -> c1 n = c1_of_list c1_replacements n.
Hypothesis Tval : values_scalar T.

Notation M := (Interp.mach S (list N)).
Notation peekI := (@Interp.peek S (list N) Interp.fq_peek).
Notation discardI := (@Interp.discard_char S (list N) Interp.fq_next fl ex).
Notation unconsumeI := (@Interp.unconsume S (list N) (@app N)).
Notation errI := (@Interp.err S (list N)).
Notation cr_readI := (@Interp.cr_read S (list N) Interp.fq_next Interp.fq_peek fl ex).
Notation finish_numericI := (@Interp.finish_numeric S (list N) c1).
Notation unconsume_numericI := (@Interp.unconsume_numeric S (list N) (@app N)).
Notation finish_namedI := (@Interp.finish_named S (list N) (@app N) fl).
Notation cr_stepI := (@Interp.cr_step S (list N) Interp.fq_next Interp.fq_peek (@app N) fl ex T c1).
Notation cr_eofI := (@Interp.cr_eof S (list N) (@app N) fl c1).

(* the tokenizer is not re-consuming and no CR is pending: true when '&' has just been read through get_char *)
Definition clean (m : M) : Prop :=
  Interp.reconsume (Interp.mc m) = false /\ Interp.ignore_lf (Interp.mc m) = false.

Definition nocref (c : Interp.cfg S) : Interp.cfg S := c <| Interp.cref := None |>.

(* [m'] is [m] with the queue replaced by [q] and [k] parse errors delivered (at m's line); the sub-tokenizer
   slot [cref] and the ghost counter [mcons] aside, nothing else differs *)
Definition post (m : M) (q : list N) (k : nat) (m' : M) : Prop :=
  nocref (Interp.mc m') = nocref (Interp.mc m) /\ Interp.mq m' = q /\
  map fst (Interp.mout m') = repeat (Interp.TError, Interp.line (Interp.mc m)) k ++ map fst (Interp.mout m).

Lemma nocref_line : forall a b : Interp.cfg S, nocref a = nocref b -> Interp.line a = Interp.line b.
Proof. intros a b H. change (Interp.line (nocref a) = Interp.line (nocref b)). rewrite H. reflexivity. Qed.
Lemma nocref_clean : forall m m' : M, nocref (Interp.mc m') = nocref (Interp.mc m) -> clean m -> clean m'.
Proof.
  intros m m' H [A B]. split.
  - change (Interp.reconsume (nocref (Interp.mc m')) = false). rewrite H. exact A.
  - change (Interp.ignore_lf (nocref (Interp.mc m')) = false). rewrite H. exact B.
Qed.

Lemma post_refl : forall m, post m (Interp.mq m) 0 m.
Proof. intro m. repeat split. Qed.

Lemma post_err : forall m q k m', post m q k m' -> post m q (Datatypes.S k) (errI m').
Proof.
  intros m q k m' (A & B & C). pose proof (nocref_line _ _ A) as L.
  destruct m' as [cf' q' o' k']. cbn in A, B, C, L |- *. repeat split; try assumption.
  cbn. rewrite C, L. reflexivity.
Qed.

Lemma post_errif : forall (b : bool) m q k m', post m q k m' ->
  post m q (if b then Datatypes.S k else k) (if b then errI m' else m').
Proof. intros [] m q k m' H; [apply post_err|]; exact H. Qed.

Lemma post_unconsume : forall b m q k m', post m q k m' -> post m (b ++ q) k (unconsumeI b m').
Proof.
  intros b m q k m' (A & B & C). destruct m' as [cf' q' o' k']. cbn in A, B, C |- *. subst q'. repeat split; assumption.
Qed.

Lemma post_discard : forall m c q k m', clean m -> post m (c :: q) k m' -> post m q k (discardI m').
Proof.
  intros m c q k m' Hc (A & B & C). pose proof (nocref_clean m m' A Hc) as [R I].
  unfold Interp.discard_char. rewrite Hhtml, R, B. cbn [Interp.fq_next].
  destruct m' as [cf' q' o' k']. destruct cf'. unfold nocref, set in A |- *. cbn in A, B, C, R, I |- *. subst.
  repeat split; assumption.
Qed.

Lemma post_setil : forall m q k m', clean m -> post m q k m' ->
  post m q k (Interp.upd (fun x => x <| Interp.ignore_lf := false |>) m').
Proof.
  intros m q k m' Hc (A & B & C). pose proof (nocref_clean m m' A Hc) as [R I].
  destruct m' as [cf' q' o' k']. destruct cf'. unfold nocref, set in A |- *. cbn in A, B, C, R, I |- *. subst.
  repeat split; assumption.
Qed.

Lemma peek_clean : forall m : M, clean m -> peekI m = Interp.fq_peek (Interp.mq m).
Proof. intros m [R _]. unfold Interp.peek. rewrite R. reflexivity. Qed.

Lemma post_peek : forall m q k m', clean m -> post m q k m' -> peekI m' = Interp.fq_peek q.
Proof.
  intros m q k m' Hc (A & B & C). rewrite peek_clean by (eapply nocref_clean; eassumption). rewrite B. reflexivity.
Qed.

(* ------------------------------------------------------------------ finish_numeric *)
Lemma range_point : forall a n, (a <=? n) && (n <=? a) = (n =? a).
Proof.
  intros a n. destruct (n =? a) eqn:E.
  - apply N.eqb_eq in E. subst. rewrite N.leb_refl. reflexivity.
  - apply N.eqb_neq in E. destruct (a <=? n) eqn:E1; [|reflexivity]. apply N.leb_le in E1.
    apply N.leb_gt. lia.
Qed.

Lemma fin_num_eq : forall ad t (m : M),
  exists c e, eval_arms finish_numeric_arms c1_replacements (CRModel.cr_num t) (CRModel.cr_big t) = Some (c, e) /\
              finish_numericI (to_i ad t) m = ([c], if e then errI m else m).
Proof.
  intros ad t m. unfold Interp.finish_numeric. cbn [to_i Interp.cr_num Interp.cr_big].
  set (n := CRModel.cr_num t). set (big := CRModel.cr_big t).
  unfold finish_numeric_arms. cbn [eval_arms pat_matches existsb fst snd]. unfold in_range.
  rewrite !orb_false_r, !range_point, !orb_assoc.
  replace (0 <=? n) with true by (symmetry; apply N.leb_le; lia). cbn [andb].
  change Interp.REPL with 65533.
  destruct ((1114111 <? n) || big) eqn:E1; [eexists; eexists; split; reflexivity|].
  destruct ((n =? 0) || (55296 <=? n) && (n <=? 57343)) eqn:E2; [eexists; eexists; split; reflexivity|].
  apply orb_false_iff in E1. destruct E1 as [E1 _]. apply N.ltb_ge in E1.
  apply orb_false_iff in E2. destruct E2 as [E2a E2]. apply N.eqb_neq in E2a.
  assert (Hsc : conv n = Some n).
  { unfold conv, is_scalar. destruct (n <? 55296) eqn:El; [reflexivity|]. apply N.ltb_ge in El.
    apply andb_false_iff in E2. destruct E2 as [E2|E2]; [apply N.leb_gt in E2; lia|]. apply N.leb_gt in E2.
    replace (57343 <? n) with true by (symmetry; apply N.ltb_lt; lia).
    replace (n <=? 1114111) with true by (symmetry; apply N.leb_le; lia). reflexivity. }
  destruct ((128 <=? n) && (n <=? 159)) eqn:E3.
  - cbn [res_eval]. rewrite (Hc1 n E3). unfold c1_of_list.
    apply andb_true_iff in E3. destruct E3 as [E3a E3b]. apply N.leb_le in E3a. apply N.leb_le in E3b.
    replace (n <? 128) with false by (symmetry; apply N.ltb_ge; lia).
    destruct (nth_error c1_replacements (N.to_nat (n - 128))) as [[c|]|] eqn:En.
    + eexists; eexists; split; reflexivity.
    + rewrite Hsc. eexists; eexists; split; reflexivity.
    + exfalso. apply nth_error_None in En. change (length c1_replacements) with 32%nat in En. lia.
  - cbn [res_eval]. rewrite Hsc.
    repeat match goal with |- context [if ?b then _ else _] => destruct b end;
      eexists; eexists; split; reflexivity.
Qed.

(* ------------------------------------------------------------------ results *)
Definition conv_res (ad : option N) (o : cr_out) : Interp.crres :=
  match o_status o with
  | CRModel.CrStuck => Interp.CrStuck
  | CRModel.CrProgress => Interp.CrProgress (to_i ad (o_st o))
  | CRModel.CrDone ch => Interp.CrDone ch
  | CRModel.CrPanic => Interp.CrStuck
  end.

(* what one call agrees on: no panic site reached, same result (state / delivered characters), the queue the
   model predicts, as many parse errors as the model lists, nothing else touched *)
Definition agrees (ad : option N) (m0 : M) (k : nat) (o : cr_out) (r : Interp.crres * M) : Prop :=
  o_status o <> CRModel.CrPanic /\ fst r = conv_res ad o /\
  post m0 (o_q o) (k + length (o_errs o)) (snd r) /\
  (o_status o = CRModel.CrProgress -> wf (o_st o)).

Lemma unconsume_done_agrees : forall ad m0 k (m : M) q t b e ne,
  post m0 q k m -> CRModel.cr_buf t = Some b -> ne = length e ->
  forall m', post m0 (b ++ q) (k + ne) m' ->
  agrees ad m0 k (unconsume_name_done t q e) (Interp.CrDone [], m').
Proof.
  intros ad m0 k m q t b e ne Hp Hb Hne m' Hp'. unfold unconsume_name_done. rewrite Hb. subst ne.
  split; [discriminate|]. split; [reflexivity|]. split; [exact Hp'|]. discriminate.
Qed.

Lemma nth_error_nth_some : forall (l : list N) k x d, nth_error l k = Some x -> nth k l d = x.
Proof. induction l; destruct k; cbn; intros; try discriminate; [congruence|eauto]. Qed.

Lemma fin_named_eq : forall ad t ec m0 k (m : M) q b,
  clean m0 -> post m0 q k m -> CRModel.cr_buf t = Some b -> wf t ->
  agrees ad m0 k (CRModel.finish_named t q ec) (finish_namedI (to_i ad t) ec m) /\
  o_status (CRModel.finish_named t q ec) <> CRModel.CrStuck.
Proof.
  intros ad t ec m0 k m q b Hc Hp Hb [_ Hw].
  destruct t as [s a n bg sd h bf mt l]. cbn in Hb, Hw. subst bf.
  unfold CRModel.finish_named, Interp.finish_named.
  cbn [to_i CRModel.cr_match CRModel.cr_buf CRModel.cr_len CRModel.cr_attr
       Interp.cr_match Interp.cr_buf Interp.cr_len Interp.cr_attr Interp.cr_addnl].
  destruct mt as [[v1 v2]|].
  - (* a recorded match *)
    destruct Hw as [[Hl1 Hl2] [Hs1 Hs2]]. cbn in Hs1, Hs2.
    destruct l as [|l']; [lia|].
    destruct (nth_error b l') as [x|] eqn:Ex; [|apply nth_error_None in Ex; lia].
    replace (Nat.ltb (length b) (Datatypes.S l')) with false by (symmetry; apply Nat.ltb_ge; lia).
    replace (Datatypes.S l' - 1)%nat with l' by lia.
    rewrite (nth_error_nth_some b l' x 0 Ex). rewrite Hhtml. change CH_SEMI with 59. change CH_EQ with 61.
    rewrite Hs1, Hs2. cbn [andb negb].
    assert (P1 : post m0 (b ++ q) k (unconsumeI b m)) by (apply post_unconsume; exact Hp).
    assert (P2 : post m0 (skipn (Datatypes.S l') b ++ q) k (unconsumeI (skipn (Datatypes.S l') b) m))
      by (apply post_unconsume; exact Hp).
    assert (P2e : post m0 (skipn (Datatypes.S l') b ++ q) (Datatypes.S k)
                       (errI (unconsumeI (skipn (Datatypes.S l') b) m))) by (apply post_err; exact P2).
    pose proof (post_setil _ _ _ _ Hc P2) as P3. pose proof (post_setil _ _ _ _ Hc P2e) as P3e.
    destruct (x =? 59) eqn:Esemi; cbn [negb andb orb].
    + split; [|cbn; discriminate]. split; [cbn; discriminate|]. split; [cbn; destruct (v2 =? 0); reflexivity|].
      split; [cbn [snd o_q o_errs out length]; rewrite Nat.add_0_r; exact P3|cbn; discriminate].
    + destruct a; cbn [andb].
      * destruct (nth_error b (Datatypes.S l')) as [y|] eqn:Ey.
        -- rewrite alnum_eq. destruct (y =? 61) eqn:Eeq; cbn [orb negb].
           ++ split; [|unfold unconsume_name_done; cbn; discriminate].
              eapply unconsume_done_agrees; [exact Hp|reflexivity|reflexivity|].
              cbn [length]. rewrite Nat.add_0_r. exact P1.
           ++ destruct (CRModel.is_alnum y) eqn:Eal.
              ** split; [|unfold unconsume_name_done; cbn; discriminate].
                 eapply unconsume_done_agrees; [exact Hp|reflexivity|reflexivity|].
                 cbn [length]. rewrite Nat.add_0_r. exact P1.
              ** split; [|cbn; discriminate]. split; [cbn; discriminate|].
                 split; [cbn; destruct (v2 =? 0); reflexivity|].
                 split; [cbn [snd o_q o_errs out length]; rewrite Nat.add_1_r; exact P3e|cbn; discriminate].
        -- split; [|cbn; discriminate]. split; [cbn; discriminate|].
           split; [cbn; destruct (v2 =? 0); reflexivity|].
           split; [cbn [snd o_q o_errs out length]; rewrite Nat.add_1_r; exact P3e|cbn; discriminate].
      * split; [|cbn; discriminate]. split; [cbn; discriminate|].
        split; [cbn; destruct (v2 =? 0); reflexivity|].
        split; [cbn [snd o_q o_errs out length]; rewrite Nat.add_1_r; exact P3e|cbn; discriminate].
  - (* no match *)
    assert (P1 : post m0 (b ++ q) k (unconsumeI b m)) by (apply post_unconsume; exact Hp).
    destruct ec as [c|].
    + rewrite alnum_eq. destruct (CRModel.is_alnum c) eqn:Eal.
      * split; [|cbn; discriminate]. split; [cbn; discriminate|]. split; [reflexivity|].
        split; [cbn [snd o_q o_errs out length]; rewrite Nat.add_0_r; exact Hp|].
        intros _. split; cbn; [discriminate|exact I].
      * change CH_SEMI with 59. destruct (c =? 59); cbn [andb].
        -- split; [|unfold unconsume_name_done; cbn; discriminate].
           destruct (Nat.ltb 1 (length b)).
           ++ eapply unconsume_done_agrees; [exact Hp|reflexivity|reflexivity|].
              cbn [length]. rewrite Nat.add_1_r. apply post_err. exact P1.
           ++ eapply unconsume_done_agrees; [exact Hp|reflexivity|reflexivity|].
              cbn [length]. rewrite Nat.add_0_r. exact P1.
        -- split; [|unfold unconsume_name_done; cbn; discriminate].
           eapply unconsume_done_agrees; [exact Hp|reflexivity|reflexivity|].
           cbn [length]. rewrite Nat.add_0_r. exact P1.
    + split; [|unfold unconsume_name_done; cbn; discriminate].
      eapply unconsume_done_agrees; [exact Hp|reflexivity|reflexivity|].
      cbn [length]. rewrite Nat.add_0_r. exact P1.
Qed.

(* ------------------------------------------------------------------ one step *)

Theorem sim_step : forall ad t (m : M),
  wf t -> clean m ->
  agrees ad m 0 (CRModel.cr_step T t (Interp.mq m)) (cr_stepI (to_i ad t) m).
Proof.
  intros ad t m Hw Hc.
  pose proof (post_refl m) as P0.
  assert (Hpk : peekI m = Interp.fq_peek (Interp.mq m)) by (apply peek_clean; exact Hc).
  destruct t as [s a n bg sd h bf mt l].
  unfold CRModel.cr_step, Interp.cr_step. cbn [CRModel.cr_st to_i Interp.cr_st].
  destruct s; cbn [conv_state].
  - (* Begin *)
    unfold do_begin. rewrite Hpk. destruct (Interp.mq m) as [|c q'] eqn:Eq; cbn [Interp.fq_peek].
    + split; [discriminate|]. split; [reflexivity|]. split; [exact P0|discriminate].
    + rewrite Hhtml, alnum_eq. destruct (CRModel.is_alnum c).
      * split; [discriminate|]. split; [reflexivity|]. split; [exact P0|].
        intros _. destruct Hw as [Hm _]. cbn in Hm. subst mt. split; [cbn; discriminate|exact I].
      * change CH_HASH with 35. destruct (c =? 35).
        -- split; [discriminate|]. split; [reflexivity|].
           split; [apply (post_discard m c q' 0 m Hc P0)|].
           intros _. destruct Hw as [_ Hw]. split; [exact I|exact Hw].
        -- split; [discriminate|]. split; [reflexivity|]. split; [exact P0|discriminate].
  - (* Octothorpe *)
    unfold do_octothorpe. rewrite Hpk. destruct (Interp.mq m) as [|c q'] eqn:Eq; cbn [Interp.fq_peek].
    + split; [discriminate|]. split; [reflexivity|]. split; [exact P0|discriminate].
    + change CH_x with 120. change CH_X with 88. destruct ((c =? 120) || (c =? 88)).
      * split; [discriminate|]. split; [reflexivity|].
        split; [apply (post_discard m c q' 0 m Hc P0)|].
        intros _. destruct Hw as [_ Hw]. split; [right; reflexivity|exact Hw].
      * split; [discriminate|]. split; [reflexivity|]. split; [exact P0|].
        intros _. destruct Hw as [_ Hw]. split; [left; reflexivity|exact Hw].
  - (* Numeric *)
    destruct Hw as [Hb Hw]. cbn in Hb.
    unfold do_numeric. rewrite Hpk. destruct (Interp.mq m) as [|c q'] eqn:Eq; cbn [Interp.fq_peek].
    + split; [discriminate|]. split; [reflexivity|]. split; [exact P0|discriminate].
    + rewrite (to_digit_eq base c Hb). destruct (CRModel.to_digit base c) as [d|].
      * split; [discriminate|]. split; [reflexivity|].
        split; [apply (post_discard m c q' 0 m Hc P0)|].
        intros _. split; [exact Hb|exact Hw].
      * cbn [CRModel.cr_seen Interp.cr_seen]. destruct sd; cbn [negb].
        -- split; [discriminate|]. split; [reflexivity|]. split; [exact P0|].
           intros _. split; [exact I|exact Hw].
        -- unfold unconsume_numeric, Interp.unconsume_numeric. cbn [CRModel.cr_hex Interp.cr_hex].
           split; [discriminate|]. split; [reflexivity|]. split; [|discriminate].
           cbn [snd o_q o_errs out length]. apply post_err.
           change (35 :: match h with Some c0 => [c0] | None => [] end) with
             (CH_HASH :: match h with Some c0 => [c0] | None => [] end).
           apply post_unconsume. exact P0.
  - (* NumericSemicolon *)
    unfold do_numeric_semicolon. rewrite Hpk. destruct (Interp.mq m) as [|c q'] eqn:Eq; cbn [Interp.fq_peek].
    + split; [discriminate|]. split; [reflexivity|]. split; [exact P0|discriminate].
    + set (t := {| cr_st := CRModel.CrNumSemi; cr_attr := a; cr_num := n; cr_big := bg; cr_seen := sd;
                   cr_hex := h; cr_buf := bf; cr_match := mt; cr_len := l |}).
      change (Interp.mkcrt Interp.CrNumSemi a ad n bg sd h match bf with Some b => b | None => [] end mt l)
        with (to_i ad t).
      change CH_SEMI with 59.
      set (m1 := if c =? 59 then discardI m else errI m).
      destruct (fin_num_eq ad t m1) as [ch [e [He Hf]]]. rewrite Hf.
      unfold CRModel.finish_numeric. rewrite He.
      assert (P1 : post m (if c =? 59 then q' else c :: q') (if c =? 59 then 0 else 1) m1).
      { unfold m1. destruct (c =? 59); [apply (post_discard m c q' 0 m Hc P0)|apply post_err; exact P0]. }
      destruct (c =? 59); cbn [fst snd].
      * split; [discriminate|]. split; [reflexivity|]. split; [|discriminate].
        cbn [o_q o_errs out]. destruct e; cbn [length]; [apply post_err|]; exact P1.
      * split; [discriminate|]. split; [reflexivity|]. split; [|discriminate].
        cbn [o_q o_errs out]. destruct e; cbn [length]; [apply post_err|]; exact P1.
  - (* Named *)
    destruct Hw as [Hb Hw]. cbn in Hb. destruct bf as [b|]; [|contradiction].
    unfold do_named, Interp.cr_read. rewrite Hpk. destruct (Interp.mq m) as [|c q'] eqn:Eq; cbn [Interp.fq_peek].
    + split; [discriminate|]. split; [reflexivity|]. split; [exact P0|discriminate].
    + unfold Interp.discard_raw. rewrite Hhtml.
      pose proof (post_discard m c q' 0 m Hc P0) as P1.
      cbn [to_i conv_state CRModel.cr_buf Interp.cr_buf CRModel.cr_st CRModel.cr_attr CRModel.cr_num CRModel.cr_big CRModel.cr_seen CRModel.cr_hex CRModel.cr_match CRModel.cr_len].
      destruct (T (b ++ [c])) as [[v1 v2]|] eqn:ET.
      * cbn [fst]. destruct (v1 =? 0) eqn:Ev.
        -- split; [discriminate|]. split; [reflexivity|]. split; [exact P1|].
           intros _. split; [cbn; discriminate|]. cbn in Hw |- *.
           destruct mt as [v|]; [|exact I]. destruct Hw as [[H1 H2] H3]. split; [|exact H3].
           rewrite app_length. cbn. lia.
        -- split; [discriminate|]. split; [reflexivity|]. split; [exact P1|].
           intros _. split; [cbn; discriminate|]. cbn.
           assert (v1 <> 0) by (intro; subst; discriminate).
           destruct (Tval _ _ ET H) as [A B]. cbn in A, B.
           split; [|split; assumption]. rewrite app_length. cbn. lia.
      * set (t1 := with_buf {| cr_st := CRModel.CrNamed; cr_attr := a; cr_num := n; cr_big := bg; cr_seen := sd;
                             cr_hex := h; cr_buf := Some b; cr_match := mt; cr_len := l |} (Some (b ++ [c]))).
        assert (Hw1 : wf t1).
        { split; [cbn; discriminate|]. cbn in Hw |- *. destruct mt as [v|]; [|exact I].
          destruct Hw as [[H1 H2] H3]. split; [|exact H3]. rewrite app_length. cbn. lia. }
        destruct (fin_named_eq ad t1 (Some c) m 0 (discardI m) q' (b ++ [c]) Hc P1 eq_refl Hw1) as [HA _].
        exact HA.
  - (* BogusName *)
    destruct Hw as [Hb Hw]. cbn in Hb. destruct bf as [b|]; [|contradiction].
    unfold do_bogus_name, Interp.cr_read. rewrite Hpk. destruct (Interp.mq m) as [|c q'] eqn:Eq; cbn [Interp.fq_peek].
    + split; [discriminate|]. split; [reflexivity|]. split; [exact P0|discriminate].
    + unfold Interp.discard_raw. rewrite Hhtml.
      pose proof (post_discard m c q' 0 m Hc P0) as P1.
      cbn [to_i conv_state CRModel.cr_buf Interp.cr_buf CRModel.cr_st CRModel.cr_attr CRModel.cr_num CRModel.cr_big CRModel.cr_seen CRModel.cr_hex CRModel.cr_match CRModel.cr_len]. rewrite alnum_eq. destruct (CRModel.is_alnum c).
      * split; [discriminate|]. split; [reflexivity|]. split; [exact P1|].
        intros _. split; [cbn; discriminate|]. cbn in Hw |- *.
        destruct mt as [v|]; [|exact I]. destruct Hw as [[H1 H2] H3]. split; [|exact H3].
        rewrite app_length. cbn. lia.
      * change CH_SEMI with 59.
        eapply unconsume_done_agrees; [exact P1|reflexivity|reflexivity|].
        destruct (c =? 59); cbn [length].
        -- rewrite Nat.add_1_r. apply post_err. apply post_unconsume. exact P1.
        -- rewrite Nat.add_0_r. apply post_unconsume. exact P1.
Qed.

(* ------------------------------------------------------------------ end of input *)
Theorem sim_eof : forall ad t (m : M),
  wf t -> clean m ->
  let o := CRModel.cr_eof T t (Interp.mq m) in
  exists chars, o_status o = CRModel.CrDone chars /\ fst (cr_eofI (to_i ad t) m) = chars /\
                post m (o_q o) (length (o_errs o)) (snd (cr_eofI (to_i ad t) m)).
Proof.
  intros ad t m Hw Hc. cbv zeta. pose proof (post_refl m) as P0.
  unfold CRModel.cr_eof, Interp.cr_eof.
  destruct (CRModel.cr_st t) eqn:Est;
    (replace (Interp.cr_st (to_i ad t)) with (conv_state (CRModel.cr_st t)) by reflexivity);
    rewrite Est; cbn [conv_state].
  - exists []. repeat split; assumption.
  - exists []. split; [reflexivity|]. split; [reflexivity|]. cbn [snd o_q o_errs out length].
    apply post_err. change [35] with ([CH_HASH] : list N). apply (post_unconsume [CH_HASH]). exact P0.
  - replace (Interp.cr_seen (to_i ad t)) with (CRModel.cr_seen t) by reflexivity.
    destruct (CRModel.cr_seen t); cbn [negb].
    + destruct (fin_num_eq ad t (errI m)) as [ch [e [He Hf]]]. rewrite Hf.
      unfold CRModel.finish_numeric. rewrite He. exists [ch]. split; [reflexivity|]. split; [reflexivity|].
      cbn [snd o_q o_errs out]. destruct e; cbn [length]; [apply post_err|]; apply post_err; exact P0.
    + unfold unconsume_numeric, Interp.unconsume_numeric. exists []. split; [reflexivity|]. split; [reflexivity|].
      cbn [snd o_q o_errs out length]. apply post_err.
      replace (Interp.cr_hex (to_i ad t)) with (CRModel.cr_hex t) by reflexivity.
      change (35 :: match cr_hex t with Some c0 => [c0] | None => [] end) with
        (CH_HASH :: match cr_hex t with Some c0 => [c0] | None => [] end).
      apply post_unconsume. exact P0.
  - destruct (fin_num_eq ad t (errI m)) as [ch [e [He Hf]]]. rewrite Hf.
    unfold CRModel.finish_numeric. rewrite He. exists [ch]. split; [reflexivity|]. split; [reflexivity|].
    cbn [snd o_q o_errs out]. destruct e; cbn [length]; [apply post_err|]; apply post_err; exact P0.
  - assert (Hb : exists b, CRModel.cr_buf t = Some b).
    { destruct Hw as [Hb _]. rewrite Est in Hb. destruct (CRModel.cr_buf t) as [b|]; [eauto|contradiction]. }
    destruct Hb as [b Hb].
    destruct (fin_named_eq ad t None m 0 m (Interp.mq m) b Hc P0 Hb Hw) as [(A1 & A2 & A3 & A4) A5].
    pose proof (finish_named_progress t (Interp.mq m) None) as Hpr.
    destruct (finish_namedI (to_i ad t) None m) as [r m']. cbn [fst snd] in A2, A3 |- *.
    unfold conv_res in A2.
    destruct (o_status (CRModel.finish_named t (Interp.mq m) None)) as [| |ch|] eqn:Es; try contradiction.
    + exfalso. (* finish_named with end_char = None never answers Progress *)
      revert Es. unfold CRModel.finish_named. unfold unconsume_name_done. rewrite Hb.
      repeat match goal with |- context [match ?x with _ => _ end] => destruct x end; cbn; discriminate.
    + subst r. exists ch. split; [exact Es|]. split; [reflexivity|]. exact A3.
  - assert (Hb : exists b, CRModel.cr_buf t = Some b).
    { destruct Hw as [Hb _]. rewrite Est in Hb. destruct (CRModel.cr_buf t) as [b|]; [eauto|contradiction]. }
    destruct Hb as [b Hb]. unfold unconsume_name_done. rewrite Hb.
    replace (Interp.cr_buf (to_i ad t)) with b by (unfold to_i; cbn; rewrite Hb; reflexivity).
    exists []. split; [reflexivity|]. split; [reflexivity|]. cbn [snd o_q o_errs out length].
    apply post_unconsume. exact P0.
Qed.

(* ------------------------------------------------------------------ the interpreter's step / run / end *)
Variable tb : table S.
Variable simd : list N * list N * list N.
Variable sk : Interp.sinkcfg.

Notation stepI := (@Interp.step S (list N) [] Interp.fq_next Interp.fq_peek (@app N) (fun q => q) Interp.fq_run1 fl ex tb simd T c1 sk).
Notation runI := (@Interp.run S (list N) [] Interp.fq_next Interp.fq_peek (@app N) (fun q => q) Interp.fq_run1 fl ex tb simd T c1 sk).
Notation tok_endI := (@Interp.tok_end S (list N) [] Interp.fq_next Interp.fq_peek (@app N) (fun q => q) Interp.fq_run1 fl ex tb simd T c1 sk).
Notation pcrI := (@Interp.process_char_ref S (list N) fl).
Notation set_cref x := (Interp.upd (fun y => y <| Interp.cref := x |>)).

(* while a character reference is open, a step of the tokenizer is a step of the sub-tokenizer *)
Lemma step_cref : forall a (m : M) cr, Interp.cref (Interp.mc m) = Some cr ->
  stepI a m =
  match cr_stepI cr m with
  | (Interp.CrStuck, m') => (m', Interp.SSuspend)
  | (Interp.CrProgress cr', m') => (set_cref (Some cr') m', Interp.SContinue)
  | (Interp.CrDone chars, m') =>
      let '(m'', bad) := pcrI chars m' in
      (set_cref None m'', if bad then Interp.SPanic 1 else Interp.SContinue)
  end.
Proof. intros a m cr H. unfold Interp.step. rewrite H. reflexivity. Qed.

(* ... and Tokenizer::end() first lets it finish on a fresh queue *)
Lemma tok_end_cref : forall fuel (m : M) cr, Interp.cref (Interp.mc m) = Some cr ->
  tok_endI fuel m =
  let '(chars, m') := cr_eofI cr (set_cref None (m <| Interp.mq := [] |>)) in
  let '(m1, bad) := pcrI chars m' in
  if bad then (m1, Interp.SPanic 1) else
  match runI true fuel m1 with
  | (m3, Interp.SSuspend) =>
      match Interp.fq_peek (Interp.mq m3) with
      | None => Interp.eof_loop [] Interp.fq_next Interp.fq_peek (@app N) (fun q => q) Interp.fq_run1 fl ex tb simd sk fuel m3
      | Some _ => if Interp.f_html fl then (m3, Interp.SPanic 5)
                  else Interp.eof_loop [] Interp.fq_next Interp.fq_peek (@app N) (fun q => q) Interp.fq_run1 fl ex tb simd sk fuel m3
      end
  | (m3, Interp.SPanic n) => (m3, Interp.SPanic n)
  | (m3, _) => if Interp.f_html fl then (m3, Interp.SPanic 4)
               else Interp.eof_loop [] Interp.fq_next Interp.fq_peek (@app N) (fun q => q) Interp.fq_run1 fl ex tb simd sk fuel m3
  end.
Proof.
  intros fuel m cr H. unfold Interp.tok_end.
  replace (Interp.cref (Interp.mc (m <| Interp.mq := [] |>))) with (Interp.cref (Interp.mc m)) by reflexivity.
  rewrite H.
  destruct (cr_eofI cr (set_cref None (m <| Interp.mq := [] |>))) as [chars m'].
  destruct (pcrI chars m') as [m1 bad]. reflexivity.
Qed.

Lemma post_trans : forall (m m1 m2 m' : M) q1 k1 q2 k2,
  post m q1 k1 m1 -> nocref (Interp.mc m2) = nocref (Interp.mc m1) -> Interp.mout m2 = Interp.mout m1 ->
  post m2 q2 k2 m' -> post m q2 (k1 + k2) m'.
Proof.
  intros m m1 m2 m' q1 k1 q2 k2 (A1 & B1 & C1) Hn Ho (A2 & B2 & C2).
  split; [congruence|]. split; [exact B2|].
  rewrite C2, Ho, C1. rewrite (nocref_line _ _ Hn), (nocref_line _ _ A1).
  rewrite app_assoc, <- repeat_app, Nat.add_comm. reflexivity.
Qed.

Lemma stuck_nil : forall cr (m : M), clean m -> Interp.mq m = [] -> cr_stepI cr m = (Interp.CrStuck, m).
Proof.
  intros cr m Hc Hq. unfold Interp.cr_step, Interp.cr_read. rewrite (peek_clean m Hc), Hq. cbn [Interp.fq_peek].
  destruct (Interp.cr_st cr); reflexivity.
Qed.

Lemma run_S : forall a f (m m' : M), stepI a m = (m', Interp.SContinue) -> runI a (Datatypes.S f) m = runI a f m'.
Proof. intros a f m m' H. cbn [Interp.run]. rewrite H. reflexivity. Qed.

(* the model's run, replayed by the interpreter *)
Lemma sim_run : forall fuel ad t (m : M) e0 clr0,
  wf t -> clean m -> Interp.cref (Interp.mc m) = Some (to_i ad t) ->
  let o := CRModel.cr_run T fuel t (Interp.mq m) e0 clr0 in
  match o_status o with
  | CRModel.CrPanic => False
  | CRModel.CrProgress => True
  | CRModel.CrStuck =>
      exists k m', (forall a f, runI a (k + Datatypes.S f) m = (m', Interp.SSuspend)) /\
        Interp.cref (Interp.mc m') = Some (to_i ad (o_st o)) /\ wf (o_st o) /\
        exists ne, length (o_errs o) = (length e0 + ne)%nat /\ post m [] ne m'
  | CRModel.CrDone chars =>
      exists k m', (forall a f, runI a (k + Datatypes.S f) m =
                      let '(m'', bad) := pcrI chars m' in
                      if bad then (set_cref None m'', Interp.SPanic 1) else runI a f (set_cref None m'')) /\
        exists ne, length (o_errs o) = (length e0 + ne)%nat /\ post m (o_q o) ne m'
  end.
Proof.
  induction fuel as [|fuel IH]; intros ad t m e0 clr0 Hw Hc Hcr; cbv zeta; [exact I|].
  cbn [CRModel.cr_run].
  destruct (sim_step ad t m Hw Hc) as (A1 & A2 & A3 & A4).
  pose proof (step_cref) as Hstep.
  destruct (cr_stepI (to_i ad t) m) as [r m1] eqn:Er. cbn [fst snd] in A2, A3.
  unfold conv_res in A2.
  destruct (o_status (CRModel.cr_step T t (Interp.mq m))) as [| |chars|] eqn:Es; cbn [o_status out]; try contradiction.
  - (* Stuck *)
    destruct (Interp.mq m) as [|c q'] eqn:Eq; [|exfalso; exact (step_cons_not_stuck T t c q' Es)].
    rewrite (stuck_nil (to_i ad t) m Hc Eq) in Er. injection Er as Er1 Er2. subst r m1.
    rewrite step_nil. cbn [o_st o_errs out].
    exists 0%nat, m. split.
    { intros a f. cbn [Nat.add Interp.run]. rewrite (Hstep a m _ Hcr), (stuck_nil (to_i ad t) m Hc Eq). reflexivity. }
    split; [exact Hcr|]. split; [exact Hw|]. exists 0%nat. split; [rewrite app_nil_r; lia|].
    rewrite <- Eq. apply post_refl.
  - (* Progress *)
    subst r. specialize (A4 eq_refl).
    set (o1 := CRModel.cr_step T t (Interp.mq m)) in *.
    set (m2 := set_cref (Some (to_i ad (o_st o1))) m1).
    assert (Hn2 : nocref (Interp.mc m2) = nocref (Interp.mc m1)) by (destruct m1 as [cf ? ? ?]; destruct cf; reflexivity).
    assert (Hc2 : clean m2).
    { apply (nocref_clean m m2); [|exact Hc]. destruct A3 as (A3 & _). congruence. }
    assert (Hq2 : Interp.mq m2 = o_q o1) by (destruct A3 as (_ & A3 & _); destruct m1; exact A3).
    assert (Hcr2 : Interp.cref (Interp.mc m2) = Some (to_i ad (o_st o1))) by (destruct m1 as [cf ? ? ?]; destruct cf; reflexivity).
    specialize (IH ad (o_st o1) m2 (e0 ++ o_errs o1) (clr0 || o_clear_ignore_lf o1) A4 Hc2 Hcr2).
    cbv zeta in IH. rewrite Hq2 in IH.
    assert (Hst : forall a, stepI a m = (m2, Interp.SContinue)).
    { intro a. rewrite (Hstep a m _ Hcr), Er. reflexivity. }
    assert (Ho2 : Interp.mout m2 = Interp.mout m1) by (destruct m1; reflexivity).
    destruct (o_status (CRModel.cr_run T fuel (o_st o1) (o_q o1) (e0 ++ o_errs o1) (clr0 || o_clear_ignore_lf o1)))
      as [| |chars|] eqn:Es2; try exact IH.
    + destruct IH as (k & m' & R & C & W & ne & L & P).
      exists (Datatypes.S k), m'. split.
      { intros a f. cbn [Nat.add]. rewrite (run_S a _ m m2 (Hst a)). apply R. }
      split; [exact C|]. split; [exact W|]. exists (length (o_errs o1) + ne)%nat. split.
      { rewrite L, app_length. lia. }
      apply (post_trans m m1 m2 m' (o_q o1) (length (o_errs o1)) [] ne); assumption.
    + destruct IH as (k & m' & R & ne & L & P).
      exists (Datatypes.S k), m'. split.
      { intros a f. cbn [Nat.add]. rewrite (run_S a _ m m2 (Hst a)). apply R. }
      exists (length (o_errs o1) + ne)%nat. split.
      { rewrite L, app_length. lia. }
      apply (post_trans m m1 m2 m' (o_q o1) (length (o_errs o1)) (o_q _) ne); assumption.
  - (* Done *)
    subst r. exists 0%nat, m1. split.
    { intros a f. cbn [Nat.add Interp.run]. rewrite (Hstep a m _ Hcr), Er.
      destruct (pcrI chars m1) as [m'' bad]. destruct bad; reflexivity. }
    cbn [o_errs o_q o_st out].
    exists (length (o_errs (CRModel.cr_step T t (Interp.mq m)))). split; [rewrite app_length; reflexivity|].
    exact A3.
Qed.

(* ------------------------------------------------------------------ a whole reference, as the interpreter runs it *)
(* What the interpreter does from a machine [m] that has just read '&' (cref = Some (cr_new ..)), given the
   rest of the input in its queue: either the reference completes inside the input - after k steps the
   characters [chars] are handed to process_char_ref on a machine that differs from [m] only by the queue
   (now [rest]) and [ne] parse errors - or the input runs out first: the run suspends with an empty queue and
   Tokenizer::end() (tok_end_cref) lets cr_eof finish on the fresh queue, with the same description. *)
Definition delivers (m : M) (chars rest : list N) (ne : nat) : Prop :=
  (exists k m', post m rest ne m' /\
     forall a f, runI a (k + Datatypes.S f) m =
                 let '(m'', bad) := pcrI chars m' in
                 if bad then (set_cref None m'', Interp.SPanic 1) else runI a f (set_cref None m''))
  \/
  (exists k m1, (forall a f, runI a (k + Datatypes.S f) m = (m1, Interp.SSuspend)) /\ Interp.mq m1 = [] /\
     exists cr, Interp.cref (Interp.mc m1) = Some cr /\
       let r := cr_eofI cr (set_cref None (m1 <| Interp.mq := [] |>)) in
       fst r = chars /\ post m rest ne (snd r)).

Theorem interp_whole : forall ad in_attr (m : M),
  clean m -> Interp.cref (Interp.mc m) = Some (Interp.cr_new in_attr ad) ->
  let w := cr_whole T in_attr (Interp.mq m) in
  exists chars, o_status w = CRModel.CrDone chars /\ delivers m chars (o_q w) (length (o_errs w)).
Proof.
  intros ad a m Hc Hcr. cbv zeta. unfold cr_whole. rewrite cr_feed_one. unfold run_eof.
  rewrite <- to_i_new in Hcr.
  pose proof (sim_run (cr_fuel (Interp.mq m)) ad (CRModel.cr_new a) m [] false (wf_new a) Hc Hcr) as H.
  cbv zeta in H.
  pose proof (run_enough T (cr_fuel (Interp.mq m)) (CRModel.cr_new a) (Interp.mq m) [] false) as Hen.
  destruct (o_status (CRModel.cr_run T (cr_fuel (Interp.mq m)) (CRModel.cr_new a) (Interp.mq m) [] false))
    as [| |chars|] eqn:Es.
  - (* the input ran out *)
    destruct H as (k & m1 & R & C & W & ne & L & P).
    set (o := CRModel.cr_run T (cr_fuel (Interp.mq m)) (CRModel.cr_new a) (Interp.mq m) [] false) in *.
    set (m1' := set_cref None (m1 <| Interp.mq := [] |>)).
    assert (Hn : nocref (Interp.mc m1') = nocref (Interp.mc m1)) by (destruct m1 as [cf ? ? ?]; destruct cf; reflexivity).
    assert (Ho : Interp.mout m1' = Interp.mout m1) by (destruct m1; reflexivity).
    assert (Hq : Interp.mq m1' = []) by (destruct m1; reflexivity).
    assert (Hc1' : clean m1').
    { apply (nocref_clean m m1'); [|exact Hc]. destruct P as (P & _). congruence. }
    pose proof (sim_eof ad (o_st o) m1' W Hc1') as He. cbv zeta in He. rewrite Hq in He.
    destruct He as (chars & E1 & E2 & E3).
    exists chars. cbn [CRModel.cr_feed o_status o_q o_errs out]. split; [exact E1|].
    right. exists k, m1. split; [exact R|]. split; [destruct P as (_ & P & _); exact P|].
    exists (to_i ad (o_st o)). split; [exact C|]. cbv zeta. fold m1'. split; [exact E2|].
    rewrite app_length, L. cbn [length Nat.add].
    apply (post_trans m m1 m1' _ [] ne _ _ P Hn Ho E3).
  - exfalso. apply Hen; [|reflexivity]. unfold cr_fuel, rank. cbn. lia.
  - (* the reference completed inside the input *)
    destruct H as (k & m' & R & ne & L & P).
    exists chars. cbn [o_status o_q o_errs out]. split; [reflexivity|].
    left. exists k, m'. rewrite app_nil_r. cbn [length Nat.add] in L. rewrite L. split; [exact P|exact R].
  - contradiction.
Qed.

(* ------------------------------------------------------------------ the C14 statements, of the interpreter *)
Hypothesis Tok : table_ok T.

Theorem interp_named : forall ad in_attr (m : M) c0 r0,
  clean m -> Interp.cref (Interp.mc m) = Some (Interp.cr_new in_attr ad) ->
  Interp.mq m = c0 :: r0 -> CRModel.is_alnum c0 = true ->
  exists chars rest ne, named_result T in_attr (c0 :: r0) chars rest /\ delivers m chars rest ne.
Proof.
  intros ad a m c0 r0 Hc Hcr Hq Ha.
  destruct (interp_whole ad a m Hc Hcr) as (chars & E & D). rewrite Hq in E, D.
  destruct (named_whole T Tok a c0 r0 Ha) as (chars' & E' & R). rewrite E in E'. injection E' as <-.
  eauto.
Qed.

(* longest match, legacy attribute exception, exact un-consumption - in the shape of C14_named *)
Theorem interp_named_spec : forall ad in_attr (m : M) c0 r0,
  clean m -> Interp.cref (Interp.mc m) = Some (Interp.cr_new in_attr ad) ->
  Interp.mq m = c0 :: r0 -> CRModel.is_alnum c0 = true ->
  let input := c0 :: r0 in
  (forall n rest v, longest_name T input n rest v ->
     if legacy_exception in_attr n rest
     then exists ne, delivers m [] input ne
     else exists ne, delivers m (chars_of v) rest ne) /\
  (no_name T input -> exists ne, delivers m [] input ne).
Proof.
  intros ad a m c0 r0 Hc Hcr Hq Ha. cbv zeta.
  destruct (interp_whole ad a m Hc Hcr) as (chars & E & D). rewrite Hq in E, D.
  destruct (named_spec T Tok a c0 r0 Ha) as [H1 H2]. cbv zeta in H1, H2. split.
  - intros n rest v Hl. specialize (H1 n rest v Hl).
    destruct (legacy_exception a n rest); destruct H1 as [S1 S2]; rewrite E in S1; injection S1 as ->;
      rewrite S2 in D; eauto.
  - intro Hn. destruct (H2 Hn) as [S1 S2]. rewrite E in S1. injection S1 as ->. rewrite S2 in D. eauto.
Qed.

Theorem interp_numeric : forall ad in_attr (m : M) base marker ds rest,
  clean m -> Interp.cref (Interp.mc m) = Some (Interp.cr_new in_attr ad) ->
  Interp.mq m = CH_HASH :: marker ++ ds ++ rest ->
  num_shape base marker -> ds <> [] -> forallb (CRSpec.is_digit base) ds = true -> ends_digits base rest ->
  exists ne, delivers m [whatwg_numeric (digits_value base ds 0)] (strip_semi rest) ne.
Proof.
  intros ad a m base marker ds rest Hc Hcr Hq Hs Hne Hd He.
  destruct (interp_whole ad a m Hc Hcr) as (chars & E & D). rewrite Hq in E, D.
  destruct (numeric_whole T a base marker ds rest Hs Hne Hd He) as [S1 S2].
  rewrite E in S1. injection S1 as ->. rewrite S2 in D. eauto.
Qed.

Theorem interp_numeric_no_digits : forall ad in_attr (m : M) base marker rest,
  clean m -> Interp.cref (Interp.mc m) = Some (Interp.cr_new in_attr ad) ->
  Interp.mq m = CH_HASH :: marker ++ rest ->
  num_shape base marker -> ends_digits base rest ->
  (base = 10 -> match rest with c :: _ => (c =? CH_x) || (c =? CH_X) = false | [] => True end) ->
  exists ne, delivers m [] (CH_HASH :: marker ++ rest) ne.
Proof.
  intros ad a m base marker rest Hc Hcr Hq Hs He Hx.
  destruct (interp_whole ad a m Hc Hcr) as (chars & E & D). rewrite Hq in E, D.
  destruct (numeric_no_digits T a base marker rest Hs He Hx) as [S1 S2].
  rewrite E in S1. injection S1 as ->. rewrite S2 in D. eauto.
Qed.

Theorem interp_non_reference : forall ad in_attr (m : M),
  clean m -> Interp.cref (Interp.mc m) = Some (Interp.cr_new in_attr ad) ->
  match Interp.mq m with c :: _ => CRModel.is_alnum c = false /\ c <> CH_HASH | [] => True end ->
  exists ne, delivers m [] (Interp.mq m) ne.
Proof.
  intros ad a m Hc Hcr Hq.
  destruct (interp_whole ad a m Hc Hcr) as (chars & E & D).
  destruct (begin_other T a (Interp.mq m) Hq) as [S1 S2].
  rewrite E in S1. injection S1 as ->. rewrite S2 in D. eauto.
Qed.

End Sim.

(* the ConsumeCharRef terminator puts the machine into the state the theorems start from *)
Lemma consume_char_ref_starts : forall {S Q : Type} (fl : Interp.flavour S) sk addnl (m : Interp.mach S Q),
  Interp.cref (Interp.mc (fst (Interp.do_term fl sk (ConsumeCharRef addnl) m))) =
  Some (Interp.cr_new (Interp.f_is_attr_value fl (Interp.st (Interp.mc m))) addnl).
Proof. intros. destruct m as [cf ? ? ?]. destruct cf. reflexivity. Qed.

Lemma table_ok_ext : forall T T' : entity_table, (forall k, T k = T' k) -> table_ok T -> table_ok T'.
Proof.
  intros T T' H [A B C].
  assert (Hn : forall n, is_name T' n -> is_name T n).
  { intros n [v [Hv Hf]]. exists v. rewrite H. split; assumption. }
  constructor.
  - intros p s Hp Hn'. rewrite <- H. apply (A p s Hp). apply Hn. exact Hn'.
  - intros n v Hv Hf. apply (B n v); [rewrite H; exact Hv|exact Hf].
  - intro Hn'. apply C. apply Hn. exact Hn'.
Qed.
