(* Step-level facts about the char-ref model (locality of a step in the queue, no
   Stuck on a non-empty queue, a termination measure) and their consequences for
   runs: fuel monotonicity/sufficiency and independence of how the input is split
   into chunks. *)
From Coq Require Import List NArith Bool Lia Arith.
From HV Require Import CharRef.CRModel CharRef.CRSpec.
Import ListNotations.
Open Scope N_scope.


Ltac brk :=
  repeat (simpl in *; match goal with
  | |- context [match ?x with _ => _ end] => destruct x eqn:?
  | H : context [match ?x with _ => _ end] |- _ => destruct x eqn:?
  end).

Lemma app_q_out : forall t q s e c r, app_q (out t q s e c) r = out t (q ++ r) s e c.
Proof. reflexivity. Qed.

Lemma unconsume_name_done_app : forall t q r e,
  unconsume_name_done t (q ++ r) e = app_q (unconsume_name_done t q e) r.
Proof.
  intros. unfold unconsume_name_done. destruct (cr_buf t); rewrite app_q_out; [rewrite app_assoc|]; reflexivity.
Qed.

Lemma finish_named_app : forall t q r ec,
  finish_named t (q ++ r) ec = app_q (finish_named t q ec) r.
Proof.
  intros. unfold finish_named.
  repeat match goal with
  | |- context [unconsume_name_done _ (_ ++ _) _] => rewrite unconsume_name_done_app
  | |- context [match ?x with _ => _ end] => destruct x eqn:?
  end; rewrite ?app_q_out, ?app_assoc; reflexivity.
Qed.

Lemma unconsume_numeric_app : forall t q r,
  unconsume_numeric t (q ++ r) = app_q (unconsume_numeric t q) r.
Proof. intros. unfold unconsume_numeric. rewrite app_q_out. rewrite app_assoc. reflexivity. Qed.

Lemma step_app : forall T t c q r,
  cr_step T t ((c :: q) ++ r) = app_q (cr_step T t (c :: q)) r.
Proof.
  intros. unfold cr_step. destruct (cr_st t); simpl.
  - unfold do_begin. brk; reflexivity.
  - unfold do_octothorpe. brk; reflexivity.
  - unfold do_numeric. destruct (to_digit base c); [reflexivity|].
    destruct (negb (cr_seen t)); [|reflexivity].
    change (c :: q ++ r) with ((c :: q) ++ r). apply unconsume_numeric_app.
  - unfold do_numeric_semicolon. destruct (finish_numeric t). destruct (c =? CH_SEMI); reflexivity.
  - unfold do_named. destruct (cr_buf t); [|reflexivity].
    destruct (T (l ++ [c])); [destruct (fst p =? 0); reflexivity|]. apply finish_named_app.
  - unfold do_bogus_name. destruct (cr_buf t); [|reflexivity].
    destruct (is_alnum c); [reflexivity|]. apply unconsume_name_done_app.
Qed.

Lemma step_nil : forall T t, cr_step T t [] = out t [] CrStuck [] false.
Proof. intros. unfold cr_step. destruct (cr_st t); reflexivity. Qed.

Lemma finish_numeric_status : forall t, fst (finish_numeric t) <> CrStuck /\ fst (finish_numeric t) <> CrProgress.
Proof.
  intro t. unfold finish_numeric. destruct (eval_arms _ _ _ _) as [[c e]|]; simpl; split; discriminate.
Qed.

Lemma unconsume_name_done_status : forall t q e,
  o_status (unconsume_name_done t q e) <> CrStuck /\ o_status (unconsume_name_done t q e) <> CrProgress.
Proof. intros. unfold unconsume_name_done. destruct (cr_buf t); simpl; split; discriminate. Qed.

Lemma finish_named_not_stuck : forall t q ec, o_status (finish_named t q ec) <> CrStuck.
Proof.
  intros. unfold finish_named.
  repeat match goal with
  | |- o_status (unconsume_name_done _ _ _) <> _ => apply unconsume_name_done_status
  | |- context [match ?x with _ => _ end] => destruct x eqn:?
  end; simpl; discriminate.
Qed.

Lemma step_cons_not_stuck : forall T t c q, o_status (cr_step T t (c :: q)) <> CrStuck.
Proof.
  intros. unfold cr_step. destruct (cr_st t); simpl.
  - unfold do_begin. brk; discriminate.
  - unfold do_octothorpe. brk; discriminate.
  - unfold do_numeric. destruct (to_digit base c); [simpl; discriminate|].
    destruct (negb (cr_seen t)); simpl; discriminate.
  - unfold do_numeric_semicolon. pose proof (finish_numeric_status t) as [H _].
    destruct (finish_numeric t). simpl in H. destruct (c =? CH_SEMI); simpl; exact H.
  - unfold do_named. destruct (cr_buf t); [|simpl; discriminate].
    destruct (T (l ++ [c])); [destruct (fst p =? 0); simpl; discriminate|]. apply finish_named_not_stuck.
  - unfold do_bogus_name. destruct (cr_buf t); [|simpl; discriminate].
    destruct (is_alnum c); [simpl; discriminate|]. apply unconsume_name_done_status.
Qed.

Lemma finish_named_progress : forall t q ec,
  o_status (finish_named t q ec) = CrProgress ->
  o_q (finish_named t q ec) = q /\ rank (o_st (finish_named t q ec)) = 0%nat.
Proof.
  intros t q ec. unfold finish_named.
  repeat match goal with
  | |- o_status (unconsume_name_done ?a ?b ?c) = _ -> _ =>
      let H := fresh in intro H; exfalso; exact (proj2 (unconsume_name_done_status a b c) H)
  | |- context [match ?x with _ => _ end] => destruct x eqn:?
  end; simpl; intro H; try discriminate; split; reflexivity.
Qed.

(* a Progress step strictly decreases |q| + rank *)
Lemma step_progress_measure : forall T t q,
  o_status (cr_step T t q) = CrProgress ->
  (length (o_q (cr_step T t q)) + rank (o_st (cr_step T t q)) < length q + rank t)%nat.
Proof.
  intros T t q. destruct q as [|c q]; [rewrite step_nil; simpl; discriminate|].
  unfold cr_step, rank at 2. destruct (cr_st t) eqn:Est; simpl.
  - unfold do_begin. brk; intro H; try discriminate; unfold rank; simpl; lia.
  - unfold do_octothorpe. brk; intro H; unfold rank; simpl; lia.
  - unfold do_numeric. destruct (to_digit base c).
    + intros _. unfold rank. simpl. rewrite Est. lia.
    + destruct (negb (cr_seen t)); simpl; intro H; [discriminate|]. unfold rank. simpl. lia.
  - unfold do_numeric_semicolon. pose proof (finish_numeric_status t) as [_ H].
    destruct (finish_numeric t). simpl in H. destruct (c =? CH_SEMI); simpl; intro H'; contradiction.
  - unfold do_named. destruct (cr_buf t); [|simpl; discriminate].
    destruct (T (l ++ [c])).
    + destruct (fst p =? 0); simpl; intros _; unfold rank; simpl; rewrite Est; lia.
    + intro H. apply finish_named_progress in H. destruct H as [H1 H2]. rewrite H1, H2. lia.
  - unfold do_bogus_name. destruct (cr_buf t); [|simpl; discriminate].
    destruct (is_alnum c).
    + simpl. intros _. unfold rank. simpl. rewrite Est. lia.
    + intro H. exfalso. exact (proj2 (unconsume_name_done_status _ _ _) H).
Qed.

(* ------------------------------------------------------------------ runs *)

Lemma rank_le3 : forall t, (rank t <= 3)%nat.
Proof. intro t. unfold rank. destruct (cr_st t); lia. Qed.

Lemma run_mono : forall T f t q e c,
  o_status (cr_run T f t q e c) <> CrProgress ->
  forall k, cr_run T (f + k) t q e c = cr_run T f t q e c.
Proof.
  induction f as [|f IH]; intros t q e c H k.
  - simpl in H. contradiction.
  - simpl in *. destruct (o_status (cr_step T t q)) eqn:E; try reflexivity.
    apply IH. exact H.
Qed.

Lemma run_enough : forall T f t q e c,
  (length q + rank t < f)%nat -> o_status (cr_run T f t q e c) <> CrProgress.
Proof.
  induction f as [|f IH]; intros t q e c H; [lia|].
  simpl. destruct (o_status (cr_step T t q)) eqn:E; simpl; try discriminate.
  apply IH. pose proof (step_progress_measure T t q E). lia.
Qed.

Lemma run_fuel_indep : forall T f1 f2 t q e c,
  (length q + rank t < f1)%nat -> (length q + rank t < f2)%nat ->
  cr_run T f1 t q e c = cr_run T f2 t q e c.
Proof.
  intros T f1 f2 t q e c H1 H2.
  set (f0 := S (length q + rank t)).
  assert (H0 : o_status (cr_run T f0 t q e c) <> CrProgress) by (apply run_enough; unfold f0; lia).
  replace f1 with (f0 + (f1 - f0))%nat by (unfold f0; lia).
  replace f2 with (f0 + (f2 - f0))%nat by (unfold f0; lia).
  rewrite !run_mono by exact H0. reflexivity.
Qed.

(* a run that ends Stuck has emptied the queue; on a longer queue it continues from there *)
Lemma run_app_stuck : forall T f t q r e c,
  o_status (cr_run T f t q e c) = CrStuck ->
  o_q (cr_run T f t q e c) = [] /\
  exists k, (k + rank (o_st (cr_run T f t q e c)) <= length q + rank t)%nat /\
    forall F, (k <= F)%nat ->
      cr_run T F t (q ++ r) e c =
      cr_run T (F - k) (o_st (cr_run T f t q e c)) r (o_errs (cr_run T f t q e c))
             (o_clear_ignore_lf (cr_run T f t q e c)).
Proof.
  induction f as [|f IH]; intros t q r e c H; [simpl in H; discriminate|].
  destruct q as [|c0 q].
  - simpl. rewrite step_nil. simpl. split; [reflexivity|]. exists 0%nat. split; [lia|].
    intros F _. rewrite Nat.sub_0_r, app_nil_r, orb_false_r. reflexivity.
  - simpl in H |- *. pose proof (step_cons_not_stuck T t c0 q) as Hns.
    pose proof (step_progress_measure T t (c0 :: q)) as Hm.
    destruct (o_status (cr_step T t (c0 :: q))) eqn:E; simpl in H; try discriminate; try contradiction.
    specialize (Hm eq_refl). simpl in Hm.
    destruct (IH _ _ r _ _ H) as [Hq [k [Hk HF]]]. split; [exact Hq|].
    exists (S k). split; [lia|].
    intros F HF'. destruct F as [|F]; [lia|].
    cbn [cr_run]. change (c0 :: q ++ r) with ((c0 :: q) ++ r). rewrite step_app. unfold app_q at 1 2 3 4 5. cbn [o_status o_st o_q o_errs o_clear_ignore_lf out].
    rewrite E. replace (S F - S k)%nat with (F - k)%nat by lia. apply HF. lia.
Qed.

Lemma run_app_done : forall T f t q r e c,
  (exists x, o_status (cr_run T f t q e c) = CrDone x) \/ o_status (cr_run T f t q e c) = CrPanic ->
  cr_run T f t (q ++ r) e c = app_q (cr_run T f t q e c) r.
Proof.
  induction f as [|f IH]; intros t q r e c H.
  - simpl in H. destruct H as [[x H]|H]; discriminate.
  - destruct q as [|c0 q].
    + simpl in H. rewrite step_nil in H. simpl in H. destruct H as [[x H]|H]; discriminate.
    + cbn [cr_run] in *. rewrite step_app.
      unfold app_q at 1 2 3 4 5. cbn [o_status o_st o_q o_errs o_clear_ignore_lf out].
      destruct (o_status (cr_step T t (c0 :: q))) eqn:E; try reflexivity.
      apply IH. exact H.
Qed.

(* ------------------------------------------------------------------ independence of chunking *)
Theorem cr_feed_concat : forall T cs t e c,
  cr_feed T t cs e c = cr_feed T t [concat cs] e c.
Proof.
  induction cs as [|ch cs IH]; intros t e c.
  - simpl. rewrite step_nil. simpl. rewrite app_nil_r, orb_false_r. reflexivity.
  - cbn [cr_feed concat].
    assert (Hne : o_status (cr_run T (cr_fuel ch) t ch e c) <> CrProgress).
    { apply run_enough. unfold cr_fuel. pose proof (rank_le3 t). lia. }
    destruct (o_status (cr_run T (cr_fuel ch) t ch e c)) eqn:E; try contradiction.
    + (* Stuck: the next chunk continues *)
      destruct (run_app_stuck T _ t ch (concat cs) e c E) as [_ [k [Hk HF]]].
      rewrite IH. cbn [cr_feed].
      rewrite (HF (cr_fuel (ch ++ concat cs))).
      2:{ unfold cr_fuel. rewrite app_length. pose proof (rank_le3 t). lia. }
      rewrite (run_fuel_indep T (cr_fuel (ch ++ concat cs) - k) (cr_fuel (concat cs))).
      * reflexivity.
      * unfold cr_fuel in *. rewrite app_length. pose proof (rank_le3 t). lia.
      * unfold cr_fuel in *. pose proof (rank_le3 (o_st (cr_run T (length ch + 4) t ch e c))). lia.
    + (* Done *)
      assert (HD : cr_run T (cr_fuel (ch ++ concat cs)) t (ch ++ concat cs) e c =
                   app_q (cr_run T (cr_fuel ch) t ch e c) (concat cs)).
      { replace (cr_fuel (ch ++ concat cs)) with (cr_fuel ch + length (concat cs))%nat
          by (unfold cr_fuel; rewrite app_length; lia).
        rewrite <- run_app_done by (left; eexists; exact E).
        apply run_mono. rewrite run_app_done by (left; eexists; exact E).
        unfold app_q. simpl. rewrite E. discriminate. }
      rewrite HD. unfold app_q at 1. simpl o_status. rewrite E. simpl. rewrite app_nil_r. reflexivity.
    + (* Panic *)
      assert (HD : cr_run T (cr_fuel (ch ++ concat cs)) t (ch ++ concat cs) e c =
                   app_q (cr_run T (cr_fuel ch) t ch e c) (concat cs)).
      { replace (cr_fuel (ch ++ concat cs)) with (cr_fuel ch + length (concat cs))%nat
          by (unfold cr_fuel; rewrite app_length; lia).
        rewrite <- run_app_done by (right; exact E).
        apply run_mono. rewrite run_app_done by (right; exact E).
        unfold app_q. simpl. rewrite E. discriminate. }
      rewrite HD. unfold app_q at 1. simpl o_status. rewrite E. simpl. rewrite app_nil_r. reflexivity.
Qed.
