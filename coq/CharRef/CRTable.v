(* Tables: trie lookup = association-list lookup; boolean checkers for the
   side conditions on a table given as a list, with their soundness lemmas
   (instantiated with the generated table by vm_compute in CRInst.v). *)
From Coq Require Import List NArith Bool Lia.
From HV Require Import CharRef.CRModel CharRef.CRSpec.
Import ListNotations.
Open Scope N_scope.

Lemma list_eqb_eq : forall a b, list_eqb a b = true <-> a = b.
Proof.
  induction a as [|x a IH]; destruct b as [|y b]; simpl; split; intro H; try reflexivity; try discriminate.
  - apply andb_true_iff in H. destruct H as [H1 H2]. apply N.eqb_eq in H1. apply IH in H2. congruence.
  - inversion H; subst. rewrite N.eqb_refl. simpl. apply IH. reflexivity.
Qed.

Lemma list_eqb_refl : forall a, list_eqb a a = true.
Proof. intro a. apply list_eqb_eq. reflexivity. Qed.

Lemma list_eqb_neq : forall a b, list_eqb a b = false <-> a <> b.
Proof.
  intros a b. split; intro H.
  - intro E. apply list_eqb_eq in E. congruence.
  - destruct (list_eqb a b) eqn:E; [|reflexivity]. apply list_eqb_eq in E. contradiction.
Qed.

(* ------------------------------------------------------------------ trie *)
Lemma child_set_same : forall c t ch, child c (set_child c t ch) = Some t.
Proof.
  intros c t ch. induction ch as [|[c' t'] r IH]; simpl.
  - rewrite N.eqb_refl. reflexivity.
  - destruct (c' =? c) eqn:E; simpl.
    + rewrite N.eqb_refl. reflexivity.
    + rewrite E. exact IH.
Qed.

Lemma child_set_other : forall c c' t ch, c <> c' -> child c' (set_child c t ch) = child c' ch.
Proof.
  intros c c' t ch Hne. induction ch as [|[c0 t0] r IH]; simpl.
  - destruct (c =? c') eqn:E; [apply N.eqb_eq in E; contradiction|reflexivity].
  - destruct (c0 =? c) eqn:E; simpl.
    + apply N.eqb_eq in E. subst c0.
      destruct (c =? c') eqn:E2; [apply N.eqb_eq in E2; contradiction|reflexivity].
    + destruct (c0 =? c'); [reflexivity|exact IH].
Qed.

Lemma tlookup_empty : forall k, tlookup k tempty = None.
Proof. destruct k; reflexivity. Qed.

Lemma tlookup_tinsert : forall k v t k',
  tlookup k' (tinsert k v t) = if list_eqb k k' then Some v else tlookup k' t.
Proof.
  induction k as [|c k IH]; intros v [v0 ch] k'.
  - destruct k'; reflexivity.
  - destruct k' as [|c' k'].
    + reflexivity.
    + cbn [tinsert tlookup list_eqb].
      destruct (c =? c') eqn:E.
      * apply N.eqb_eq in E. subst c'. rewrite child_set_same. rewrite IH. simpl.
        destruct (list_eqb k k'); [reflexivity|].
        destruct (child c ch); [reflexivity|apply tlookup_empty].
      * assert (c <> c') by (intro; subst; rewrite N.eqb_refl in E; discriminate).
        rewrite child_set_other by assumption. reflexivity.
Qed.

Theorem tlookup_tbuild : forall l k, tlookup k (tbuild l) = alookup l k.
Proof.
  induction l as [|[k0 v0] l IH]; intro k.
  - apply tlookup_empty.
  - unfold tbuild. simpl. rewrite tlookup_tinsert. fold (tbuild l). rewrite IH. reflexivity.
Qed.

Lemma alookup_in : forall l k v, alookup l k = Some v -> In (k, v) l.
Proof.
  induction l as [|[k0 v0] l IH]; simpl; intros k v H; [discriminate|].
  destruct (list_eqb k0 k) eqn:E.
  - apply list_eqb_eq in E. inversion H; subst. left. reflexivity.
  - right. apply IH. exact H.
Qed.

(* ------------------------------------------------------------------ prefixes *)
(* all non-empty prefixes of a list, itself included *)
Fixpoint inits (k : list N) : list (list N) :=
  match k with
  | [] => []
  | c :: r => [c] :: map (cons c) (inits r)
  end.

Lemma inits_in : forall k p s, p <> [] -> k = p ++ s -> In p (inits k).
Proof.
  induction k as [|c k IH]; intros p s Hne E.
  - destruct p; [contradiction|discriminate].
  - destruct p as [|c' p]; [contradiction|]. simpl in E. injection E as Ec Ek. subst c'.
    destruct p as [|c2 p].
    + left. reflexivity.
    + right. apply in_map. apply (IH (c2 :: p) s); [discriminate|exact Ek].
Qed.

(* ------------------------------------------------------------------ checkers *)
Definition is_some {A} (o : option A) : bool := match o with Some _ => true | None => false end.

Definition pair_eqb (a b : N * N) : bool := (fst a =? fst b) && (snd a =? snd b).

Lemma pair_eqb_eq : forall a b, pair_eqb a b = true -> a = b.
Proof.
  intros [a1 a2] [b1 b2] H. unfold pair_eqb in H. simpl in H. apply andb_true_iff in H.
  destruct H as [H1 H2]. apply N.eqb_eq in H1. apply N.eqb_eq in H2. congruence.
Qed.

(* prefix closure of the full rows *)
Definition chk_prefix_closed (l : list (list N * (N * N))) (t : trie) : bool :=
  forallb (fun kv => if fst (snd kv) =? 0 then true
                     else forallb (fun p => is_some (tlookup p t)) (inits (fst kv))) l.

Definition chk_values (l : list (list N * (N * N))) : bool :=
  forallb (fun kv => is_scalar (fst (snd kv)) && is_scalar (snd (snd kv))) l.

Definition chk_nonempty (t : trie) : bool :=
  match tlookup [] t with Some v => fst v =? 0 | None => true end.

Definition chk_table (l : list (list N * (N * N))) : bool :=
  let t := tbuild l in chk_prefix_closed l t && chk_values l && chk_nonempty t.

Theorem chk_table_sound : forall l, chk_table l = true -> table_ok (table_of_trie (tbuild l)).
Proof.
  intros l H. unfold chk_table in H.
  apply andb_true_iff in H. destruct H as [H Hne]. apply andb_true_iff in H. destruct H as [Hpc Hv].
  constructor.
  - intros p s Hp [v [Hv1 Hv2]]. unfold table_of_trie in *.
    rewrite tlookup_tbuild in Hv1. apply alookup_in in Hv1.
    unfold chk_prefix_closed in Hpc. rewrite forallb_forall in Hpc. specialize (Hpc _ Hv1). simpl in Hpc.
    destruct (fst v =? 0) eqn:E; [apply N.eqb_eq in E; contradiction|].
    rewrite forallb_forall in Hpc. specialize (Hpc p (inits_in _ p s Hp eq_refl)).
    destruct (tlookup p (tbuild l)); [discriminate|discriminate].
  - intros n v Hn _. unfold table_of_trie in Hn. rewrite tlookup_tbuild in Hn. apply alookup_in in Hn.
    unfold chk_values in Hv. rewrite forallb_forall in Hv. specialize (Hv _ Hn). simpl in Hv.
    apply andb_true_iff in Hv. exact Hv.
  - intros [v [Hv1 Hv2]]. unfold table_of_trie in Hv1. unfold chk_nonempty in Hne. rewrite Hv1 in Hne.
    apply N.eqb_eq in Hne. contradiction.
Qed.

(* ------------------------------------------------------------------ comparison with a reference table *)
Definition full (v : N * N) : bool := negb (fst v =? 0).

(* every reference row is in the table with its value *)
Definition chk_ref_in_table (ref : list (list N * (N * N))) (t : trie) : bool :=
  forallb (fun kv => full (snd kv) &&
                     match tlookup (fst kv) t with Some v => pair_eqb v (snd kv) | None => false end) ref.

(* every full row of the table is a reference row; the others are exactly (0,0) *)
Definition chk_table_in_ref (l : list (list N * (N * N))) (tref : trie) : bool :=
  forallb (fun kv => if full (snd kv)
                     then match tlookup (fst kv) tref with Some v => pair_eqb v (snd kv) | None => false end
                     else pair_eqb (snd kv) (0, 0)) l.

(* names are [A-Za-z0-9]+ with an optional final ';' (so byte length = character count) *)
Fixpoint name_shape (n : list N) : bool :=
  match n with
  | [] => false
  | [c] => is_alnum c
  | c :: ((_ :: _) as r) => is_alnum c && (match r with [d] => is_alnum d || (d =? CH_SEMI) | _ => name_shape r end)
  end.

Definition chk_names (ref : list (list N * (N * N))) : bool :=
  forallb (fun kv => name_shape (fst kv)) ref.

Definition chk_same (l ref : list (list N * (N * N))) : bool :=
  chk_ref_in_table ref (tbuild l) && chk_table_in_ref l (tbuild ref) && chk_names ref.

Definition same_table (l ref : list (list N * (N * N))) : Prop :=
  let T := table_of_trie (tbuild l) in
  (forall n v, In (n, v) ref -> T n = Some v /\ fst v <> 0) /\
  (forall n v, T n = Some v -> fst v <> 0 -> alookup ref n = Some v) /\
  (forall n v, T n = Some v -> fst v = 0 -> v = (0, 0)) /\
  (forall n v, In (n, v) ref -> name_shape n = true).

Theorem chk_same_sound : forall l ref, chk_same l ref = true -> same_table l ref.
Proof.
  intros l ref H. unfold chk_same in H.
  apply andb_true_iff in H. destruct H as [H H3]. apply andb_true_iff in H. destruct H as [H1 H2].
  unfold same_table, table_of_trie. repeat split.
  - unfold chk_ref_in_table in H1. rewrite forallb_forall in H1. specialize (H1 _ H). simpl in H1.
    apply andb_true_iff in H1. destruct H1 as [_ H1].
    destruct (tlookup n (tbuild l)) as [v'|]; [|discriminate]. apply pair_eqb_eq in H1. congruence.
  - unfold chk_ref_in_table in H1. rewrite forallb_forall in H1. specialize (H1 _ H). simpl in H1.
    apply andb_true_iff in H1. destruct H1 as [H1 _]. unfold full in H1.
    intro E. rewrite E in H1. discriminate.
  - intros n v Hn Hf. rewrite tlookup_tbuild in Hn. apply alookup_in in Hn.
    unfold chk_table_in_ref in H2. rewrite forallb_forall in H2. specialize (H2 _ Hn). simpl in H2.
    unfold full in H2. destruct (fst v =? 0) eqn:E; [apply N.eqb_eq in E; contradiction|]. simpl in H2.
    rewrite tlookup_tbuild in H2. destruct (alookup ref n) as [v'|]; [|discriminate].
    apply pair_eqb_eq in H2. congruence.
  - intros n v Hn Hf. rewrite tlookup_tbuild in Hn. apply alookup_in in Hn.
    unfold chk_table_in_ref in H2. rewrite forallb_forall in H2. specialize (H2 _ Hn). simpl in H2.
    unfold full in H2. rewrite Hf in H2. simpl in H2. apply pair_eqb_eq in H2. exact H2.
  - intros n v Hn. unfold chk_names in H3. rewrite forallb_forall in H3. exact (H3 _ Hn).
Qed.

(* ------------------------------------------------------------------ C1 / numeric arms *)
Fixpoint opt_list_eqb (a b : list (option N)) : bool :=
  match a, b with
  | [], [] => true
  | Some x :: a', Some y :: b' => (x =? y) && opt_list_eqb a' b'
  | None :: a', None :: b' => opt_list_eqb a' b'
  | _, _ => false
  end.

Lemma opt_list_eqb_eq : forall a b, opt_list_eqb a b = true -> a = b.
Proof.
  induction a as [|[x|] a IH]; destruct b as [|[y|] b]; simpl; intro H; try discriminate; try reflexivity.
  - apply andb_true_iff in H. destruct H as [H1 H2]. apply N.eqb_eq in H1. rewrite (IH _ H2). congruence.
  - rewrite (IH _ H). reflexivity.
Qed.
