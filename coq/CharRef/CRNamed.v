(* Named character references: for every prefix-closed table the model delivers
   the longest identifier that is a prefix of the input (legacy attribute
   exception, exact un-consumption). *)
From Coq Require Import List NArith Bool Lia Arith.
From HV Require Import CharRef.CRModel CharRef.CRSpec CharRef.CRRun.
Import ListNotations.
Open Scope N_scope.


(* ------------------------------------------------------------------ run + end of input *)
Definition run_eof (T : entity_table) (f : nat) (t : crt) (q : list N) (e : list cr_err) (c : bool) : cr_out :=
  let o := cr_run T f t q e c in
  match o_status o with
  | CrStuck => cr_feed T (o_st o) [] (o_errs o) (o_clear_ignore_lf o)
  | s => out (o_st o) (o_q o ++ []) s (o_errs o) (o_clear_ignore_lf o)
  end.

Lemma cr_feed_one : forall T t q e c, cr_feed T t [q] e c = run_eof T (cr_fuel q) t q e c.
Proof. reflexivity. Qed.

Lemma run_eof_progress : forall T f t q e c,
  o_status (cr_step T t q) = CrProgress ->
  run_eof T (S f) t q e c =
  run_eof T f (o_st (cr_step T t q)) (o_q (cr_step T t q)) (e ++ o_errs (cr_step T t q))
          (c || o_clear_ignore_lf (cr_step T t q)).
Proof. intros. unfold run_eof. cbn [cr_run]. rewrite H. reflexivity. Qed.

Lemma run_eof_done : forall T f t q e c x,
  o_status (cr_step T t q) = CrDone x ->
  o_status (run_eof T (S f) t q e c) = CrDone x /\ o_q (run_eof T (S f) t q e c) = o_q (cr_step T t q).
Proof. intros. unfold run_eof. cbn [cr_run]. rewrite H. simpl. rewrite app_nil_r. split; reflexivity. Qed.

Lemma run_eof_nil : forall T f t e c,
  o_status (run_eof T (S f) t [] e c) = o_status (cr_eof T t []) /\
  o_q (run_eof T (S f) t [] e c) = o_q (cr_eof T t []).
Proof. intros. unfold run_eof. cbn [cr_run]. rewrite step_nil. simpl. split; reflexivity. Qed.

(* ------------------------------------------------------------------ list facts *)
Lemma app_split_le : forall (p s b q : list N), p ++ s = b ++ q -> (length p <= length b)%nat ->
  exists s', b = p ++ s'.
Proof.
  induction p as [|x p IH]; intros s b q E L.
  - exists b. reflexivity.
  - destruct b as [|y b]; [simpl in L; lia|]. simpl in E. injection E as Ex Er. subst y.
    simpl in L. destruct (IH s b q Er ltac:(lia)) as [s' Hs']. exists s'. simpl. congruence.
Qed.

Lemma app_split_ge : forall (p s b q : list N), p ++ s = b ++ q -> (length b <= length p)%nat ->
  exists p', p = b ++ p'.
Proof. intros p s b q E L. apply (app_split_le b q p s); [symmetry; exact E|exact L]. Qed.

Lemma snoc_prefix : forall (b : list N) c p s, b ++ [c] = p ++ s ->
  (exists s', b = p ++ s') \/ (p = b ++ [c] /\ s = []).
Proof.
  intros b c p s E.
  destruct (le_lt_dec (length p) (length b)) as [L|L].
  - left. destruct (app_split_le p s b [c] (eq_sym E) L) as [s' Hs']. exists s'. exact Hs'.
  - right. assert (Hl : length (b ++ [c]) = length (p ++ s)) by (rewrite E; reflexivity).
    rewrite !app_length in Hl. simpl in Hl.
    assert (s = []) by (destruct s; [reflexivity|simpl in Hl; lia]). subst s.
    rewrite app_nil_r in E. split; [symmetry; exact E|reflexivity].
Qed.

Lemma nth_error_last : forall (n s : list N) k d, length n = S k -> nth_error (n ++ s) k = Some (last n d).
Proof.
  induction n as [|x n IH]; intros s k d H; [discriminate|].
  destruct n as [|y n].
  - simpl in H. injection H as H. subst k. reflexivity.
  - destruct k as [|k]; [simpl in H; lia|]. simpl in H. injection H as H.
    change (nth_error ((x :: y :: n) ++ s) (S k)) with (nth_error ((y :: n) ++ s) k).
    rewrite (IH s k d) by (simpl; lia). reflexivity.
Qed.

Lemma nth_error_app_len : forall (n s : list N), nth_error (n ++ s) (length n) = nth_error s 0.
Proof. induction n; intro s; simpl; [reflexivity|apply IHn]. Qed.

Lemma skipn_app_len : forall (n s : list N), skipn (length n) (n ++ s) = s.
Proof. induction n; intro s; simpl; [reflexivity|apply IHn]. Qed.

(* ------------------------------------------------------------------ named references *)
Section Named.
Variable T : entity_table.
Hypothesis Tok : table_ok T.

Definition match_inv (buf : list N) (m : option (N * N)) (len : nat) : Prop :=
  match m with
  | None => forall p s, buf = p ++ s -> ~ is_name T p
  | Some v => exists n s, buf = n ++ s /\ length n = len /\ T n = Some v /\ fst v <> 0 /\
                forall p s', buf = p ++ s' -> is_name T p -> (length p <= length n)%nat
  end.

(* no identifier reaches beyond [buf] *)
Definition closed_at (buf q : list N) : Prop :=
  forall p s, buf ++ q = p ++ s -> is_name T p -> (length p <= length buf)%nat.

Lemma match_inv_snoc_notname : forall buf c m len,
  match_inv buf m len -> ~ is_name T (buf ++ [c]) -> match_inv (buf ++ [c]) m len.
Proof.
  intros buf c m len H Hn. destruct m as [v|]; simpl in *.
  - destruct H as [n [s [E [L [Hv [Hf Hmax]]]]]].
    exists n, (s ++ [c]). split; [rewrite E, app_assoc; reflexivity|]. repeat split; try assumption.
    intros p s' E' Hp. destruct (snoc_prefix _ _ _ _ E') as [[s'' Hs'']|[Hp' _]].
    + exact (Hmax p s'' Hs'' Hp).
    + subst p. contradiction.
  - intros p s E' Hp. destruct (snoc_prefix _ _ _ _ E') as [[s'' Hs'']|[Hp' _]].
    + exact (H p s'' Hs'' Hp).
    + subst p. contradiction.
Qed.

Lemma closed_when_none : forall buf q, buf <> [] -> T buf = None -> closed_at buf q.
Proof.
  intros buf q Hne HT p s E Hp.
  destruct (le_lt_dec (length p) (length buf)) as [L|L]; [exact L|].
  destruct (app_split_ge p s buf q (eq_sym E) ltac:(lia)) as [p' Hp']. subst p.
  exfalso. exact (tok_prefix T Tok buf p' Hne Hp HT).
Qed.

Lemma closed_nil : forall buf, closed_at buf [].
Proof.
  intros buf p s E Hp. assert (Hl : length (buf ++ []) = length (p ++ s)) by (rewrite E; reflexivity).
  rewrite !app_length in Hl. simpl in Hl. lia.
Qed.

(* finish_named with a recorded match *)
Lemma finish_named_some : forall t buf q ec v,
  cr_buf t = Some buf -> cr_match t = Some v -> match_inv buf (Some v) (cr_len t) ->
  closed_at buf q -> (q = [] \/ T buf = None) ->
  exists chars, o_status (finish_named t q ec) = CrDone chars /\
                named_result T (cr_attr t) (buf ++ q) chars (o_q (finish_named t q ec)).
Proof.
  intros t buf q ec [c1 c2] Hb Hm Hinv Hcl Hq.
  destruct Hinv as [n [s [E [L [Hv [Hf Hmax]]]]]].
  assert (Hn : n <> []).
  { intro; subst n. apply (tok_nonempty T Tok). exists (c1, c2). split; assumption. }
  assert (Hlong : longest_name T (buf ++ q) n (s ++ q) (c1, c2)).
  { split; [rewrite E, app_assoc; reflexivity|]. split; [exact Hv|]. split; [exact Hf|].
    intros p s' E' Hp. pose proof (Hcl p s' E' Hp) as Hle.
    destruct (app_split_le p s' buf q (eq_sym E') Hle) as [s'' Hs'']. exact (Hmax p s'' Hs'' Hp). }
  destruct (length n) as [|k] eqn:Ek; [destruct n; [contradiction|discriminate]|].
  unfold finish_named. rewrite Hm, Hb, <- L.
  rewrite E, (nth_error_last n s k 0 Ek).
  replace (Nat.ltb (length (n ++ s)) (S k)) with false
    by (symmetry; apply Nat.ltb_ge; rewrite app_length; lia).
  rewrite <- Ek, nth_error_app_len, skipn_app_len.
  assert (Hleg : (negb (last n 0 =? CH_SEMI) && cr_attr t &&
                  match nth_error s 0 with Some c => (c =? CH_EQ) || is_alnum c | None => false end)
                 = legacy_exception (cr_attr t) n (s ++ q)).
  { unfold legacy_exception. change 59 with CH_SEMI. change 61 with CH_EQ.
    rewrite (andb_comm (cr_attr t)). f_equal.
    destruct s as [|x s]; simpl; [|reflexivity].
    destruct Hq as [Hq|Hq]; [subst q; reflexivity|].
    rewrite E, app_nil_r in Hq. congruence. }
  rewrite Hleg.
  destruct (legacy_exception (cr_attr t) n (s ++ q)) eqn:Eleg.
  - unfold unconsume_name_done. rewrite Hb. simpl. exists []. split; [reflexivity|].
    rewrite <- E. eapply NR_legacy; eassumption.
  - destruct (tok_values T Tok n (c1, c2) Hv Hf) as [Hs1 Hs2]. simpl in Hs1, Hs2. rewrite Hs1, Hs2. simpl.
    eexists. split; [reflexivity|]. rewrite <- E.
    change (if c2 =? 0 then [c1] else [c1; c2]) with (chars_of (c1, c2)).
    eapply NR_match; eassumption.
Qed.

Lemma no_name_of_closed : forall buf q, match_inv buf None 0 -> closed_at buf q -> no_name T (buf ++ q).
Proof.
  intros buf q Hinv Hcl p s E Hp. pose proof (Hcl p s E Hp) as Hle.
  destruct (app_split_le p s buf q (eq_sym E) Hle) as [s' Hs']. exact (Hinv p s' Hs' Hp).
Qed.

Lemma unconsume_done : forall t buf q e, cr_buf t = Some buf ->
  o_status (unconsume_name_done t q e) = CrDone [] /\ o_q (unconsume_name_done t q e) = buf ++ q.
Proof. intros. unfold unconsume_name_done. rewrite H. split; reflexivity. Qed.

(* the BogusName loop only looks for the end of the alphanumeric run, then un-consumes everything *)
Lemma bogus_loop : forall q t buf f e c,
  cr_st t = CrBogus -> cr_buf t = Some buf -> (length q < f)%nat ->
  o_status (run_eof T f t q e c) = CrDone [] /\ o_q (run_eof T f t q e c) = buf ++ q.
Proof.
  induction q as [|x q IH]; intros t buf f e c Hst Hb Hf; (destruct f as [|f]; [simpl in Hf; lia|]).
  - destruct (run_eof_nil T f t e c) as [H1 H2]. rewrite H1, H2.
    unfold cr_eof. rewrite Hst. unfold unconsume_name_done. rewrite Hb. simpl. split; reflexivity.
  - assert (Hstep : cr_step T t (x :: q) = do_bogus_name t (x :: q)) by (unfold cr_step; rewrite Hst; reflexivity).
    unfold do_bogus_name in Hstep. rewrite Hb in Hstep.
    destruct (is_alnum x) eqn:Ex.
    + rewrite run_eof_progress by (rewrite Hstep; reflexivity). rewrite Hstep. simpl.
      replace (buf ++ x :: q) with ((buf ++ [x]) ++ q) by (rewrite <- app_assoc; reflexivity).
      apply IH; simpl; try reflexivity; try assumption. simpl in Hf. lia.
    + destruct (unconsume_done (with_buf t (Some (buf ++ [x]))) (buf ++ [x]) q
                  (if x =? CH_SEMI then [ErrInvalidName (buf ++ [x])] else []) eq_refl) as [H1 H2].
      destruct (run_eof_done T f t (x :: q) e c [] ltac:(rewrite Hstep; exact H1)) as [H3 H4].
      rewrite H3, H4, Hstep, H2, <- app_assoc. split; reflexivity.
Qed.

Lemma named_loop : forall q t buf f e c,
  cr_st t = CrNamed -> cr_buf t = Some buf -> match_inv buf (cr_match t) (cr_len t) ->
  (length q < f)%nat ->
  exists chars, o_status (run_eof T f t q e c) = CrDone chars /\
                named_result T (cr_attr t) (buf ++ q) chars (o_q (run_eof T f t q e c)).
Proof.
  induction q as [|x q IH]; intros t buf f e c Hst Hb Hinv Hf; (destruct f as [|f]; [simpl in Hf; lia|]).
  - (* end of input *)
    destruct (run_eof_nil T f t e c) as [H1 H2]. rewrite H1, H2.
    assert (He : cr_eof T t [] = finish_named t [] None).
    { unfold cr_eof. rewrite Hst.
      pose proof (finish_named_not_stuck t [] None).
      destruct (o_status (finish_named t [] None)) eqn:E; try reflexivity. contradiction. }
    rewrite He.
    destruct (cr_match t) as [v|] eqn:Hm.
    + apply (finish_named_some t buf [] None v Hb Hm Hinv (closed_nil buf)). left. reflexivity.
    + unfold finish_named. rewrite Hm. destruct (unconsume_done t buf [] [] Hb) as [H3 H4].
      rewrite H3, H4. exists []. split; [reflexivity|]. apply NR_none.
      apply no_name_of_closed; [exact Hinv|apply closed_nil].
  - assert (Hstep : cr_step T t (x :: q) = do_named T t (x :: q)) by (unfold cr_step; rewrite Hst; reflexivity).
    unfold do_named in Hstep. rewrite Hb in Hstep.
    replace (buf ++ x :: q) with ((buf ++ [x]) ++ q) by (rewrite <- app_assoc; reflexivity).
    destruct (T (buf ++ [x])) as [m|] eqn:HT.
    + destruct (fst m =? 0) eqn:Em.
      * (* a prefix marker *)
        rewrite run_eof_progress by (rewrite Hstep; reflexivity). rewrite Hstep. simpl.
        apply (IH (with_buf t (Some (buf ++ [x]))) (buf ++ [x])); simpl; try reflexivity; try exact Hst; [|simpl in Hf; lia].
        apply match_inv_snoc_notname; [exact Hinv|].
        intros [v [Hv1 Hv2]]. apply N.eqb_eq in Em. congruence.
      * (* a full match; a longer one may follow *)
        rewrite run_eof_progress by (rewrite Hstep; reflexivity). rewrite Hstep. simpl.
        apply (IH (with_match (with_buf t (Some (buf ++ [x]))) (Some m) (length (buf ++ [x]))) (buf ++ [x]));
          simpl; try reflexivity; try exact Hst; [|simpl in Hf; lia].
        exists (buf ++ [x]), []. rewrite app_nil_r. repeat split; try assumption.
        -- intro E0. rewrite E0 in Em. discriminate.
        -- intros p s' E' _. assert (Hl : length (buf ++ [x]) = length (p ++ s')) by (rewrite <- E'; reflexivity).
           rewrite (app_length p) in Hl. lia.
    + (* cannot continue the match *)
      set (t1 := with_buf t (Some (buf ++ [x]))) in *.
      assert (Hne : buf ++ [x] <> []) by (destruct buf; discriminate).
      assert (Hcl : closed_at (buf ++ [x]) q) by (apply closed_when_none; assumption).
      assert (Hinv1 : match_inv (buf ++ [x]) (cr_match t1) (cr_len t1)).
      { apply match_inv_snoc_notname; [exact Hinv|]. intros [v [Hv1 _]]. congruence. }
      destruct (cr_match t1) as [v|] eqn:Hm.
      * destruct (finish_named_some t1 (buf ++ [x]) q (Some x) v eq_refl Hm Hinv1 Hcl (or_intror HT))
          as [chars [H1 H2]].
        destruct (run_eof_done T f t (x :: q) e c chars ltac:(rewrite Hstep; exact H1)) as [H3 H4].
        rewrite H3, H4, Hstep. exists chars. split; [reflexivity|exact H2].
      * assert (Hnn : no_name T ((buf ++ [x]) ++ q)) by (apply no_name_of_closed; assumption).
        assert (Hfn : finish_named t1 q (Some x) =
                      if is_alnum x then out (with_st t1 CrBogus) q CrProgress [] false
                      else unconsume_name_done t1 q
                             (if x =? CH_SEMI then (if Nat.ltb 1 (length (buf ++ [x])) then [ErrInvalidName (buf ++ [x])] else []) else [])).
        { unfold finish_named. rewrite Hm. destruct (is_alnum x); [reflexivity|].
          destruct (x =? CH_SEMI); reflexivity. }
        rewrite Hfn in Hstep.
        destruct (is_alnum x) eqn:Ex.
        -- rewrite run_eof_progress by (rewrite Hstep; reflexivity). rewrite Hstep. simpl.
           destruct (bogus_loop q (with_st t1 CrBogus) (buf ++ [x]) f (e ++ []) (c || false)
                       eq_refl eq_refl ltac:(simpl in Hf; lia)) as [H1 H2].
           rewrite H1, H2. exists []. split; [reflexivity|]. apply NR_none. exact Hnn.
        -- match type of Hstep with _ = unconsume_name_done _ _ ?ee =>
             destruct (unconsume_done t1 (buf ++ [x]) q ee eq_refl) as [H1 H2] end.
           destruct (run_eof_done T f t (x :: q) e c [] ltac:(rewrite Hstep; exact H1)) as [H3 H4].
           rewrite H3, H4, Hstep, H2. exists []. split; [reflexivity|]. apply NR_none. exact Hnn.
Qed.

Theorem named_whole : forall in_attr c0 r0,
  is_alnum c0 = true ->
  exists chars, o_status (cr_whole T in_attr (c0 :: r0)) = CrDone chars /\
                named_result T in_attr (c0 :: r0) chars (o_q (cr_whole T in_attr (c0 :: r0))).
Proof.
  intros a c0 r0 Hc. unfold cr_whole. rewrite cr_feed_one. unfold cr_fuel.
  replace (length (c0 :: r0) + 4)%nat with (S (length r0 + 4)) by (simpl; lia).
  assert (Hstep : cr_step T (cr_new a) (c0 :: r0) =
                  out (with_buf (with_st (cr_new a) CrNamed) (Some [])) (c0 :: r0) CrProgress [] false).
  { unfold cr_step. simpl. rewrite Hc. reflexivity. }
  rewrite run_eof_progress by (rewrite Hstep; reflexivity). rewrite Hstep. simpl.
  apply (named_loop (c0 :: r0) (with_buf (with_st (cr_new a) CrNamed) (Some [])) []); simpl; try reflexivity; [|lia].
  intros p s E. destruct p; [|discriminate]. exact (tok_nonempty T Tok).
Qed.

End Named.
