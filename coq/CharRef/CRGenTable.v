(* The table the extracted model runs with: a trie built from the generated
   list (Gen/GenEntities.v).  Definitions only - no proofs here, so the model
   still extracts and runs when an obligation about the table breaks. *)
From Coq Require Import List NArith.
From HV Require Import CharRef.CRModel Gen.GenEntities.

Definition gen_trie : trie := tbuild entities.
Definition gen_table : entity_table := table_of_trie gen_trie.
