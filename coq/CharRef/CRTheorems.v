(* The property-level statements about the char-ref model, for an arbitrary
   table (instantiated with the generated one in CRInst.v). *)
From Coq Require Import List NArith Bool Lia Arith.
From HV Require Import CharRef.CRModel CharRef.CRSpec CharRef.CRRun CharRef.CRNamed CharRef.CRNumeric.
Import ListNotations.
Open Scope N_scope.

(* the longest identifier is unique, so [named_result] is a function of the input *)
Lemma longest_unique : forall T i n r v n' r' v',
  longest_name T i n r v -> longest_name T i n' r' v' -> n = n' /\ r = r' /\ v = v'.
Proof.
  intros T i n r v n' r' v' [E [Hv [Hf Hmax]]] [E' [Hv' [Hf' Hmax']]].
  assert (L1 : (length n' <= length n)%nat) by (apply (Hmax n' r' E'); exists v'; split; assumption).
  assert (L2 : (length n <= length n')%nat) by (apply (Hmax' n r E); exists v; split; assumption).
  assert (Hn : n = n').
  { rewrite E in E'. destruct (app_split_le n r n' r' E' L2) as [s Hs].
    assert (length n' = length (n ++ s)) by (rewrite <- Hs; reflexivity).
    rewrite app_length in H. destruct s; [rewrite app_nil_r in Hs; congruence|simpl in H; lia]. }
  subst n'. split; [reflexivity|]. split.
  - rewrite E in E'. apply app_inv_head in E'. exact E'.
  - congruence.
Qed.

Lemma longest_not_none : forall T i n r v, longest_name T i n r v -> ~ no_name T i.
Proof. intros T i n r v [E [Hv [Hf _]]] H. apply (H n r E). exists v. split; assumption. Qed.

Section AnyTable.
Variable T : entity_table.
Hypothesis Tok : table_ok T.

(* C14, named references, whole input then end of input.  The text after '&'
   starts with an ASCII alphanumeric (otherwise see [begin_other] /
   [numeric_whole]).  If some identifier of the table is a prefix of the input,
   the code points of the LONGEST one are delivered and exactly the rest of
   the input is left unread - unless the legacy attribute rule applies, in
   which case nothing is delivered and everything is left unread; if no
   identifier is a prefix, nothing is delivered and the input is untouched. *)
Theorem named_spec : forall in_attr c0 r0,
  is_alnum c0 = true ->
  let input := c0 :: r0 in
  let o := cr_whole T in_attr input in
  (forall n rest v, longest_name T input n rest v ->
     if legacy_exception in_attr n rest
     then o_status o = CrDone [] /\ o_q o = input
     else o_status o = CrDone (chars_of v) /\ o_q o = rest) /\
  (no_name T input -> o_status o = CrDone [] /\ o_q o = input).
Proof.
  intros a c0 r0 Hc. cbv zeta.
  destruct (named_whole T Tok a c0 r0 Hc) as [chars [Hs Hr]].
  remember (o_q (cr_whole T a (c0 :: r0))) as q eqn:Eq.
  rewrite Hs. clear Hs Eq.
  split.
  - intros n rest v Hl. destruct Hr as [Hnn|n' rest' v' Hl' Hleg|n' rest' v' Hl' Hleg].
    + exfalso. exact (longest_not_none _ _ _ _ _ Hl Hnn).
    + destruct (longest_unique _ _ _ _ _ _ _ _ Hl Hl') as [? [? ?]]. subst n' rest' v'.
      rewrite Hleg. split; reflexivity.
    + destruct (longest_unique _ _ _ _ _ _ _ _ Hl Hl') as [? [? ?]]. subst n' rest' v'.
      rewrite Hleg. split; reflexivity.
  - intro Hnn. destruct Hr as [_|n' rest' v' Hl' Hleg|n' rest' v' Hl' Hleg].
    + split; reflexivity.
    + exfalso. exact (longest_not_none _ _ _ _ _ Hl' Hnn).
    + exfalso. exact (longest_not_none _ _ _ _ _ Hl' Hnn).
Qed.

(* the same result however the input is split over feeds (the queue runs
   empty - Stuck - and more input arrives), for every kind of reference *)
Theorem chunks_whole : forall in_attr chunks,
  cr_feed T (cr_new in_attr) chunks [] false = cr_whole T in_attr (concat chunks).
Proof. intros. unfold cr_whole. apply cr_feed_concat. Qed.

(* the sub-tokenizer never panics and always finishes on '&' + alphanumeric.. *)
Corollary named_done : forall in_attr chunks c0 r0,
  concat chunks = c0 :: r0 -> is_alnum c0 = true ->
  exists chars, o_status (cr_feed T (cr_new in_attr) chunks [] false) = CrDone chars /\
                named_result T in_attr (c0 :: r0) chars (o_q (cr_feed T (cr_new in_attr) chunks [] false)).
Proof.
  intros a chunks c0 r0 E Hc. rewrite chunks_whole, E. apply named_whole; assumption.
Qed.

End AnyTable.

(* [named_result] only depends on the identifiers of the table and their values *)
Lemma named_result_ext : forall T T' a i chars q,
  (forall n v, fst v <> 0 -> (T n = Some v <-> T' n = Some v)) ->
  named_result T a i chars q -> named_result T' a i chars q.
Proof.
  intros T T' a i chars q H R.
  assert (Hname : forall n, is_name T n <-> is_name T' n).
  { intro n. split; intros [v [Hv Hf]]; exists v; (split; [apply (H n v Hf); exact Hv|exact Hf]). }
  assert (Hlong : forall n r v, longest_name T i n r v -> longest_name T' i n r v).
  { intros n r v [E [Hv [Hf Hmax]]]. split; [exact E|]. split; [apply (H n v Hf); exact Hv|].
    split; [exact Hf|]. intros n' r' E' Hn'. apply (Hmax n' r' E'). apply Hname. exact Hn'. }
  destruct R as [Hnn|n r v Hl Hleg|n r v Hl Hleg].
  - apply NR_none. intros n' r' E' Hn'. apply (Hnn n' r' E'). apply Hname. exact Hn'.
  - eapply NR_legacy; [apply Hlong; exact Hl|exact Hleg].
  - eapply NR_match; [apply Hlong; exact Hl|exact Hleg].
Qed.

(* the C1 part of the WHATWG rule against a 32-entry replacement table *)
Definition c1_agrees (c1 : list (option N)) : Prop :=
  forall k, (k < 32)%nat ->
  nth_error c1 k = Some (let v := 0x80 + N.of_nat k in
                         if whatwg_c1 v =? v then None else Some (whatwg_c1 v)).

Lemma c1_model_agrees : c1_agrees c1_replacements.
Proof.
  intros k H. do 32 (destruct k as [|k]; [vm_compute; reflexivity|]). lia.
Qed.

(* ------------------------------------------------------------------ totality *)
Lemma span_digits : forall base l, exists ds rest,
  l = ds ++ rest /\ forallb (is_digit base) ds = true /\ ends_digits base rest.
Proof.
  intros base l. induction l as [|c l IH].
  - exists [], []. repeat split.
  - destruct (is_digit base c) eqn:E.
    + destruct IH as [ds [rest [H1 [H2 H3]]]]. exists (c :: ds), rest. subst l. repeat split.
      * simpl. rewrite E, H2. reflexivity.
      * exact H3.
    + exists [], (c :: l). repeat split. exact E.
Qed.

(* whatever follows the '&', however it is split over feeds: the sub-tokenizer
   never reaches a panic site, never runs out of steps, and ends with Done *)
Theorem cr_total : forall T, table_ok T -> forall in_attr chunks,
  exists chars, o_status (cr_feed T (cr_new in_attr) chunks [] false) = CrDone chars.
Proof.
  intros T Tok a chunks. rewrite chunks_whole. generalize (concat chunks) as input. clear chunks.
  intro input.
  destruct input as [|c r].
  - exists []. apply (begin_other T a []). exact I.
  - destruct (is_alnum c) eqn:Ea.
    + destruct (named_whole T Tok a c r Ea) as [chars [H _]]. exists chars. exact H.
    + destruct (c =? CH_HASH) eqn:Eh.
      * apply N.eqb_eq in Eh. subst c.
        destruct r as [|m r'].
        -- exists []. apply (numeric_no_digits T a 10 [] []); [left; split; reflexivity|exact I|intros _; exact I].
        -- destruct ((m =? CH_x) || (m =? CH_X)) eqn:Ex.
           ++ assert (Hsh : num_shape 16 [m]).
              { right. split; [reflexivity|]. apply orb_true_iff in Ex.
                destruct Ex as [Ex|Ex]; apply N.eqb_eq in Ex; subst m; [left|right]; reflexivity. }
              destruct (span_digits 16 r') as [ds [rest [H1 [H2 H3]]]]. subst r'.
              destruct ds as [|d ds].
              ** exists []. apply (numeric_no_digits T a 16 [m] rest Hsh H3). intro; discriminate.
              ** eexists. apply (numeric_whole T a 16 [m] (d :: ds) rest Hsh); [discriminate|exact H2|exact H3].
           ++ assert (Hsh : num_shape 10 []) by (left; split; reflexivity).
              destruct (span_digits 10 (m :: r')) as [ds [rest [H1 [H2 H3]]]].
              destruct ds as [|d ds].
              ** simpl in H1. subst rest. exists [].
                 apply (numeric_no_digits T a 10 [] (m :: r') Hsh H3). intros _. exact Ex.
              ** rewrite H1. eexists.
                 apply (numeric_whole T a 10 [] (d :: ds) rest Hsh); [discriminate|exact H2|exact H3].
      * exists []. apply (begin_other T a (c :: r)). split; [exact Ea|].
        intro; subst c. rewrite N.eqb_refl in Eh. discriminate.
Qed.
