(* CrInterp.v instantiated the way the tokenizer interpreter is run and reasoned about elsewhere
   (Inst/InstLine.v, ocaml/tok_driver.ml): html flavour, entity lookup = list lookup in the regenerated
   NAMED_ENTITIES, C1 table = the regenerated C1_REPLACEMENTS.  Only finite checks / rewriting here. *)
From Coq Require Import List NArith Bool.
From HV Require Import TokIR.IR.
From HV Require TokIR.Interp.
From HV Require Import CharRef.CRModel CharRef.CRSpec CharRef.CRTable CharRef.CRTheorems CharRef.CRGenTable
  CharRef.CRInst CharRef.CrInterp CharRef.WhatwgEntities Gen.GenEntities Gen.GenC1.
From HV Require Gen.GenHtmlTok.
Import ListNotations.
Open Scope N_scope.

Definition html_ent : entity_table := alookup entities.
Definition html_c1 : N -> option N := c1_of_list GenC1.c1_replacements.

Lemma html_ent_ok : table_ok html_ent.
Proof. exact (table_ok_ext gen_table html_ent gen_table_is_list gen_table_ok). Qed.

Lemma html_c1_ok : forall n, in_range 0x80 0x9F n = true -> html_c1 n = c1_of_list CRModel.c1_replacements n.
Proof. intros n _. unfold html_c1. rewrite gen_c1_is_model. reflexivity. Qed.

Lemma html_names_are_whatwg : forall n v, fst v <> 0 -> (html_ent n = Some v <-> whatwg_table n = Some v).
Proof. intros n v Hf. unfold html_ent. rewrite <- gen_table_is_list. apply gen_names_are_whatwg. exact Hf. Qed.

Section Html.
Variable ex : bool.
Variable tb : table hstate.
Variable simd : list N * list N * list N.
Variable sk : Interp.sinkcfg.

Notation M := (Interp.mach hstate (list N)).
Notation deliversH := (delivers Interp.html_flavour ex html_ent html_c1 tb simd sk).

(* one step of the interpreter's sub-tokenizer = one step of the C14 model *)
Theorem html_sim_step : forall ad t (m : M), wf t -> clean m ->
  agrees ad m 0 (CRModel.cr_step html_ent t (Interp.mq m))
         (Interp.cr_step Interp.fq_next Interp.fq_peek (@app N) Interp.html_flavour ex html_ent html_c1 (to_i ad t) m).
Proof. exact (sim_step Interp.html_flavour eq_refl ex html_ent html_c1 html_c1_ok (tok_values _ html_ent_ok)). Qed.

Theorem html_sim_eof : forall ad t (m : M), wf t -> clean m ->
  let o := CRModel.cr_eof html_ent t (Interp.mq m) in
  exists chars, o_status o = CRModel.CrDone chars /\
    fst (Interp.cr_eof (@app N) Interp.html_flavour html_c1 (to_i ad t) m) = chars /\
    post m (o_q o) (length (o_errs o)) (snd (Interp.cr_eof (@app N) Interp.html_flavour html_c1 (to_i ad t) m)).
Proof. exact (sim_eof Interp.html_flavour eq_refl html_ent html_c1 html_c1_ok). Qed.

(* named references against the WHATWG table *)
Theorem html_interp_named : forall ad in_attr (m : M) c0 r0,
  clean m -> Interp.cref (Interp.mc m) = Some (Interp.cr_new in_attr ad) ->
  Interp.mq m = c0 :: r0 -> CRModel.is_alnum c0 = true ->
  exists chars rest ne, named_result whatwg_table in_attr (c0 :: r0) chars rest /\ deliversH m chars rest ne.
Proof.
  intros ad a m c0 r0 Hc Hcr Hq Ha.
  destruct (interp_named Interp.html_flavour eq_refl ex html_ent html_c1 html_c1_ok (tok_values _ html_ent_ok)
              tb simd sk html_ent_ok ad a m c0 r0 Hc Hcr Hq Ha) as (chars & rest & ne & R & D).
  exists chars, rest, ne. split; [|exact D].
  eapply named_result_ext; [|exact R]. exact html_names_are_whatwg.
Qed.

Theorem html_interp_numeric : forall ad in_attr (m : M) base marker ds rest,
  clean m -> Interp.cref (Interp.mc m) = Some (Interp.cr_new in_attr ad) ->
  Interp.mq m = CH_HASH :: marker ++ ds ++ rest ->
  num_shape base marker -> ds <> [] -> forallb (CRSpec.is_digit base) ds = true -> ends_digits base rest ->
  exists ne, deliversH m [whatwg_numeric (digits_value base ds 0)] (strip_semi rest) ne.
Proof.
  exact (interp_numeric Interp.html_flavour eq_refl ex html_ent html_c1 html_c1_ok (tok_values _ html_ent_ok)
           tb simd sk).
Qed.

Theorem html_interp_numeric_no_digits : forall ad in_attr (m : M) base marker rest,
  clean m -> Interp.cref (Interp.mc m) = Some (Interp.cr_new in_attr ad) ->
  Interp.mq m = CH_HASH :: marker ++ rest ->
  num_shape base marker -> ends_digits base rest ->
  (base = 10 -> match rest with c :: _ => (c =? CH_x) || (c =? CH_X) = false | [] => True end) ->
  exists ne, deliversH m [] (CH_HASH :: marker ++ rest) ne.
Proof.
  exact (interp_numeric_no_digits Interp.html_flavour eq_refl ex html_ent html_c1 html_c1_ok
           (tok_values _ html_ent_ok) tb simd sk).
Qed.

Theorem html_interp_non_reference : forall ad in_attr (m : M),
  clean m -> Interp.cref (Interp.mc m) = Some (Interp.cr_new in_attr ad) ->
  match Interp.mq m with c :: _ => CRModel.is_alnum c = false /\ c <> CH_HASH | [] => True end ->
  exists ne, deliversH m [] (Interp.mq m) ne.
Proof.
  exact (interp_non_reference Interp.html_flavour eq_refl ex html_ent html_c1 html_c1_ok
           (tok_values _ html_ent_ok) tb simd sk).
Qed.

End Html.

(* non-vacuity (a test, by vm_compute): the regenerated html table and entity table, a machine in the data
   state that has just read '&' with "notit;" in its queue satisfies the premises, and the interpreter's run
   delivers one parse error (missing semicolon), U+00AC, then the ordinary characters "it;" *)
Example html_interp_example :
  let m := Interp.mkmach (Interp.mkcfg HData false 0 false false [] TStartTag [] false false [] [] [] [] None None None
                            false [] [] None (Some (Interp.cr_new false None)) 1)
                         [110; 111; 116; 105; 116; 59] [] 0 in
  clean m /\ Interp.cref (Interp.mc m) = Some (Interp.cr_new false None) /\
  map fst (Interp.mout (fst (Interp.run [] Interp.fq_next Interp.fq_peek (@app N) (fun q => q) Interp.fq_run1
                               Interp.html_flavour true GenHtmlTok.html_table
                               (GenHtmlTok.simd_first_guard, GenHtmlTok.simd_tail_stop, GenHtmlTok.simd_tail_newline)
                               html_ent html_c1 {| Interp.sk_resp := []; Interp.sk_foreign := false |} false 30 m))) =
  [(Interp.TChars [59], 1); (Interp.TChars [116], 1); (Interp.TChars [105], 1); (Interp.TChars [172], 1);
   (Interp.TError, 1)].
Proof. vm_compute. repeat split. Qed.
