(* Numeric character references: the u32 accumulator with its too-big flag agrees
   with the unbounded value of the digit string; finish_numeric is the WHATWG rule. *)
From Coq Require Import List NArith Bool Lia Arith.
From HV Require Import CharRef.CRModel CharRef.CRSpec CharRef.CRRun CharRef.CRNamed.
Import ListNotations.
Open Scope N_scope.


(* ------------------------------------------------------------------ finish_numeric = the WHATWG rule *)
Lemma c1_arm : forall k, (k < 32)%nat ->
  res_eval c1_replacements (RC1 128 true true) (128 + N.of_nat k) = Some (whatwg_c1 (128 + N.of_nat k), true).
Proof.
  intros k H.
  do 32 (destruct k as [|k]; [vm_compute; reflexivity|]). lia.
Qed.

Lemma arms_value : forall n,
  exists e, eval_arms finish_numeric_arms c1_replacements n false = Some (whatwg_numeric n, e).
Proof.
  intro n. unfold finish_numeric_arms, whatwg_numeric. cbn [eval_arms pat_matches existsb fst snd].
  unfold in_range. rewrite !orb_false_r.
  destruct (1114111 <? n) eqn:E1.
  - apply N.ltb_lt in E1. replace (n =? 0) with false by (symmetry; apply N.eqb_neq; lia).
    eexists. reflexivity.
  - apply N.ltb_ge in E1.
    destruct (n =? 0) eqn:E0.
    + apply N.eqb_eq in E0. subst n. eexists. reflexivity.
    + apply N.eqb_neq in E0.
      replace ((0 <=? n) && (n <=? 0)) with false
        by (symmetry; apply andb_false_iff; right; apply N.leb_gt; lia).
      cbn [orb].
      destruct ((55296 <=? n) && (n <=? 57343)) eqn:Es.
      * eexists. reflexivity.
      * destruct ((128 <=? n) && (n <=? 159)) eqn:Ec.
        -- apply andb_true_iff in Ec. destruct Ec as [Ec1 Ec2]. apply N.leb_le in Ec1. apply N.leb_le in Ec2.
           replace n with (128 + N.of_nat (N.to_nat (n - 128))) by lia.
           rewrite c1_arm by lia. eexists. reflexivity.
        -- assert (Hsc : conv n = Some n).
           { unfold conv, is_scalar. apply andb_false_iff in Es.
             destruct (n <? 55296) eqn:El; [reflexivity|]. apply N.ltb_ge in El.
             destruct Es as [Es|Es]; [apply N.leb_gt in Es; lia|]. apply N.leb_gt in Es.
             replace (57343 <? n) with true by (symmetry; apply N.ltb_lt; lia).
             replace (n <=? 1114111) with true by (symmetry; apply N.leb_le; lia). reflexivity. }
           cbn [res_eval]. rewrite Hsc.
           repeat match goal with |- context [if ?b then _ else _] => destruct b end; eexists; reflexivity.
Qed.

Definition num_inv (base : N) (t : crt) (V : N) : Prop :=
  (cr_big t = false /\ cr_num t = V /\ V <= 0x10FFFF + base) \/ (cr_big t = true /\ 0x10FFFF < V).

Lemma finish_numeric_value : forall base t V, num_inv base t V ->
  exists e, finish_numeric t = (CrDone [whatwg_numeric V], e).
Proof.
  intros base t V [[Hb [Hn _]]|[Hb HV]]; unfold finish_numeric; rewrite Hb.
  - rewrite Hn. destruct (arms_value V) as [e He]. rewrite He. eexists. reflexivity.
  - unfold finish_numeric_arms. cbn [eval_arms pat_matches]. rewrite orb_true_r. cbn [res_eval].
    unfold whatwg_numeric. replace (V =? 0) with false by (symmetry; apply N.eqb_neq; lia).
    replace (1114111 <? V) with true by (symmetry; apply N.ltb_lt; exact HV).
    eexists. reflexivity.
Qed.

Lemma to_digit_lt : forall base c d, to_digit base c = Some d -> d < base.
Proof.
  intros base c d H. unfold to_digit in H. destruct (digit_val c); [|discriminate].
  destruct (n <? base) eqn:E; [|discriminate]. injection H as H. subst. apply N.ltb_lt. exact E.
Qed.

(* the flag and the wrapping arithmetic cannot disagree with the unbounded value *)
Lemma num_inv_step : forall base t V d,
  base = 10 \/ base = 16 -> num_inv base t V -> d < base ->
  num_inv base (with_num t (wrap32 (wrap32 (cr_num t * base) + d))
                        (cr_big t || (0x10FFFF <? wrap32 (cr_num t * base))) true)
          (V * base + d).
Proof.
  intros base t V d Hbase [[Hb [Hn HV]]|[Hb HV]] Hd; unfold num_inv;
    cbn [cr_big cr_num with_num mk]; rewrite Hb; cbn [orb].
  - rewrite Hn.
    assert (Hw : wrap32 (V * base) = V * base).
    { unfold wrap32. apply N.mod_small. destruct Hbase; subst base; lia. }
    rewrite Hw.
    destruct (1114111 <? V * base) eqn:E.
    + right. apply N.ltb_lt in E. split; [reflexivity|lia].
    + left. apply N.ltb_ge in E. split; [reflexivity|]. split; [|lia].
      unfold wrap32. apply N.mod_small. destruct Hbase; subst base; lia.
  - right. split; [reflexivity|]. destruct Hbase; subst base; lia.
Qed.

Section Numeric.
Variable T : entity_table.

Lemma numeric_loop : forall base ds t V rest f e c,
  base = 10 \/ base = 16 ->
  cr_st t = CrNumeric base -> num_inv base t V ->
  (ds <> [] \/ cr_seen t = true) ->
  forallb (is_digit base) ds = true -> ends_digits base rest ->
  (length (ds ++ rest) + 2 < f)%nat ->
  o_status (run_eof T f t (ds ++ rest) e c) = CrDone [whatwg_numeric (digits_value base ds V)] /\
  o_q (run_eof T f t (ds ++ rest) e c) = strip_semi rest.
Proof.
  intros base ds. induction ds as [|x ds IH]; intros t V rest f e c Hbase Hst Hinv Hseen Hds Hend Hf.
  - destruct Hseen as [Hseen|Hseen]; [contradiction|].
    destruct (finish_numeric_value base t V Hinv) as [e0 Hfin].
    simpl app in *. simpl digits_value.
    destruct f as [|f]; [lia|].
    destruct rest as [|y rest].
    + destruct (run_eof_nil T f t e c) as [H1 H2]. rewrite H1, H2.
      unfold cr_eof. rewrite Hst, Hseen. simpl. rewrite Hfin. simpl. split; reflexivity.
    + simpl in Hend. unfold is_digit in Hend.
      assert (Hstep : cr_step T t (y :: rest) = out (with_st t CrNumSemi) (y :: rest) CrProgress [] false).
      { unfold cr_step. rewrite Hst. unfold do_numeric.
        destruct (to_digit base y); [discriminate|]. rewrite Hseen. reflexivity. }
      rewrite run_eof_progress by (rewrite Hstep; reflexivity). rewrite Hstep. simpl.
      destruct f as [|f]; [simpl in Hf; lia|].
      assert (Hfin' : finish_numeric (with_st t CrNumSemi) = (CrDone [whatwg_numeric V], e0)).
      { rewrite <- Hfin. reflexivity. }
      assert (Hstep2 : cr_step T (with_st t CrNumSemi) (y :: rest) =
                if y =? CH_SEMI then out (with_st t CrNumSemi) rest (CrDone [whatwg_numeric V]) e0 false
                else out (with_st t CrNumSemi) (y :: rest) (CrDone [whatwg_numeric V]) (ErrSemicolonMissing :: e0) false).
      { unfold cr_step. simpl. unfold do_numeric_semicolon. rewrite Hfin'. reflexivity. }
      destruct (run_eof_done T f (with_st t CrNumSemi) (y :: rest) (e ++ []) (c || false) [whatwg_numeric V])
        as [H1 H2].
      { rewrite Hstep2. destruct (y =? CH_SEMI); reflexivity. }
      rewrite H1, H2, Hstep2. simpl. destruct (y =? CH_SEMI); split; reflexivity.
  - simpl in Hds. apply andb_true_iff in Hds. destruct Hds as [Hx Hds]. unfold is_digit in Hx.
    destruct (to_digit base x) as [d|] eqn:Ed; [|discriminate].
    destruct f as [|f]; [lia|].
    assert (Hstep : cr_step T t ((x :: ds) ++ rest) =
              out (with_num t (wrap32 (wrap32 (cr_num t * base) + d))
                            (cr_big t || (0x10FFFF <? wrap32 (cr_num t * base))) true)
                  (ds ++ rest) CrProgress [] false).
    { unfold cr_step. rewrite Hst. simpl. unfold do_numeric. rewrite Ed. reflexivity. }
    rewrite run_eof_progress by (rewrite Hstep; reflexivity). rewrite Hstep.
    cbn [o_st o_q o_errs o_clear_ignore_lf out].
    simpl digits_value. rewrite Ed.
    apply IH.
    + exact Hbase.
    + exact Hst.
    + apply num_inv_step; [assumption|assumption|]. exact (to_digit_lt _ _ _ Ed).
    + right. reflexivity.
    + exact Hds.
    + exact Hend.
    + simpl in Hf. lia.
Qed.

Lemma dec_digit_not_x : forall c, is_digit 10 c = true -> (c =? CH_x) || (c =? CH_X) = false.
Proof.
  intros c H. destruct (c =? CH_x) eqn:E1.
  - apply N.eqb_eq in E1. subst c. vm_compute in H. discriminate.
  - destruct (c =? CH_X) eqn:E2; [|reflexivity].
    apply N.eqb_eq in E2. subst c. vm_compute in H. discriminate.
Qed.

Lemma begin_hash : forall a q f e c,
  run_eof T (S f) (cr_new a) (CH_HASH :: q) e c =
  run_eof T f (with_st (cr_new a) CrOcto) q (e ++ []) (c || false).
Proof.
  intros. rewrite run_eof_progress; reflexivity.
Qed.

Lemma run_eof_nil_pos : forall f t e c, (0 < f)%nat ->
  o_status (run_eof T f t [] e c) = o_status (cr_eof T t []) /\
  o_q (run_eof T f t [] e c) = o_q (cr_eof T t []).
Proof. intros f t e c H. destruct f; [lia|]. apply run_eof_nil. Qed.

Theorem numeric_whole : forall in_attr base marker ds rest,
  num_shape base marker -> ds <> [] -> forallb (is_digit base) ds = true -> ends_digits base rest ->
  let o := cr_whole T in_attr (CH_HASH :: marker ++ ds ++ rest) in
  o_status o = CrDone [whatwg_numeric (digits_value base ds 0)] /\ o_q o = strip_semi rest.
Proof.
  intros a base marker ds rest Hshape Hne Hds Hend. cbv zeta.
  unfold cr_whole. rewrite cr_feed_one. unfold cr_fuel.
  replace (length (CH_HASH :: marker ++ ds ++ rest) + 4)%nat
    with (S (length (marker ++ ds ++ rest) + 4)) by (simpl; lia).
  rewrite begin_hash.
  assert (Hinv0 : forall b h, num_inv b (with_st (with_hex (with_st (cr_new a) CrOcto) h) (CrNumeric b)) 0).
  { intros. left. split; [reflexivity|split; [reflexivity|lia]]. }
  destruct Hshape as [[Hb Hm]|[Hb Hm]]; subst base.
  - subst marker. simpl app.
    destruct ds as [|x ds]; [contradiction|].
    assert (Hx : (x =? CH_x) || (x =? CH_X) = false).
    { apply dec_digit_not_x. simpl in Hds. apply andb_true_iff in Hds. tauto. }
    replace (length ((x :: ds) ++ rest) + 4)%nat with (S (length ((x :: ds) ++ rest) + 3)) by lia.
    assert (Hstep : cr_step T (with_st (cr_new a) CrOcto) ((x :: ds) ++ rest) =
              out (with_st (with_hex (with_st (cr_new a) CrOcto) None) (CrNumeric 10)) ((x :: ds) ++ rest)
                  CrProgress [] false).
    { unfold cr_step. simpl. rewrite Hx. reflexivity. }
    rewrite run_eof_progress by (rewrite Hstep; reflexivity). rewrite Hstep.
    cbn [o_st o_q o_errs o_clear_ignore_lf out].
    apply numeric_loop; try assumption; try reflexivity.
    + left. reflexivity.
    + apply Hinv0.
    + left. discriminate.
    + lia.
  - assert (Hmk : exists m, marker = [m] /\ (m =? CH_x) || (m =? CH_X) = true).
    { destruct Hm; subst marker; eexists; split; reflexivity. }
    destruct Hmk as [m [Hmk Hmx]]. subst marker. simpl app.
    replace (length (m :: ds ++ rest) + 4)%nat with (S (length (ds ++ rest) + 4)) by (simpl; lia).
    assert (Hstep : cr_step T (with_st (cr_new a) CrOcto) (m :: ds ++ rest) =
              out (with_st (with_hex (with_st (cr_new a) CrOcto) (Some m)) (CrNumeric 16)) (ds ++ rest)
                  CrProgress [] false).
    { unfold cr_step. simpl. rewrite Hmx. reflexivity. }
    rewrite run_eof_progress by (rewrite Hstep; reflexivity). rewrite Hstep.
    cbn [o_st o_q o_errs o_clear_ignore_lf out].
    apply numeric_loop; try assumption; try reflexivity.
    + right. reflexivity.
    + apply Hinv0.
    + left. assumption.
    + lia.
Qed.

(* '#' (and an optional x) not followed by a digit: nothing is delivered, everything is put back *)
Theorem numeric_no_digits : forall in_attr base marker rest,
  num_shape base marker -> ends_digits base rest ->
  (base = 10 -> match rest with c :: _ => (c =? CH_x) || (c =? CH_X) = false | [] => True end) ->
  let o := cr_whole T in_attr (CH_HASH :: marker ++ rest) in
  o_status o = CrDone [] /\ o_q o = CH_HASH :: marker ++ rest.
Proof.
  intros a base marker rest Hshape Hend Hx. cbv zeta.
  unfold cr_whole. rewrite cr_feed_one. unfold cr_fuel.
  replace (length (CH_HASH :: marker ++ rest) + 4)%nat
    with (S (length (marker ++ rest) + 4)) by (simpl; lia).
  rewrite begin_hash.
  destruct Hshape as [[Hb Hm]|[Hb Hm]]; subst base.
  - subst marker. simpl app. specialize (Hx eq_refl).
    destruct rest as [|y rest].
    + match goal with |- context [run_eof T ?f ?t [] ?e ?c] =>
        destruct (run_eof_nil_pos f t e c ltac:(simpl; lia)) as [H1 H2] end.
      rewrite H1, H2. split; reflexivity.
    + replace (length (y :: rest) + 4)%nat with (S (S (length rest + 3))) by (simpl; lia).
      assert (Hstep : cr_step T (with_st (cr_new a) CrOcto) (y :: rest) =
                out (with_st (with_hex (with_st (cr_new a) CrOcto) None) (CrNumeric 10)) (y :: rest)
                    CrProgress [] false).
      { unfold cr_step. simpl. rewrite Hx. reflexivity. }
      rewrite run_eof_progress by (rewrite Hstep; reflexivity). rewrite Hstep.
      cbn [o_st o_q o_errs o_clear_ignore_lf out].
      simpl in Hend. unfold is_digit in Hend.
      match goal with |- context [run_eof T (S ?f) ?t ?q ?e ?c] =>
        destruct (run_eof_done T f t q e c []) as [H1 H2] end.
      { unfold cr_step. simpl. unfold do_numeric. destruct (to_digit 10 y); [discriminate|]. reflexivity. }
      rewrite H1, H2. split; [reflexivity|].
      unfold cr_step. simpl. unfold do_numeric. destruct (to_digit 10 y); [discriminate|]. reflexivity.
  - assert (Hmk : exists m, marker = [m] /\ (m =? CH_x) || (m =? CH_X) = true).
    { destruct Hm; subst marker; eexists; split; reflexivity. }
    destruct Hmk as [m [Hmk Hmx]]. subst marker. simpl app.
    replace (length (m :: rest) + 4)%nat with (S (S (length rest + 3))) by (simpl; lia).
    assert (Hstep : cr_step T (with_st (cr_new a) CrOcto) (m :: rest) =
              out (with_st (with_hex (with_st (cr_new a) CrOcto) (Some m)) (CrNumeric 16)) rest
                  CrProgress [] false).
    { unfold cr_step. simpl. rewrite Hmx. reflexivity. }
    rewrite run_eof_progress by (rewrite Hstep; reflexivity). rewrite Hstep.
    cbn [o_st o_q o_errs o_clear_ignore_lf out].
    destruct rest as [|y rest].
    + match goal with |- context [run_eof T ?f ?t [] ?e ?c] =>
        destruct (run_eof_nil_pos f t e c ltac:(simpl; lia)) as [H1 H2] end.
      rewrite H1, H2. split; reflexivity.
    + simpl in Hend. unfold is_digit in Hend.
      match goal with |- context [run_eof T (S ?f) ?t ?q ?e ?c] =>
        destruct (run_eof_done T f t q e c []) as [H1 H2] end.
      { unfold cr_step. simpl. unfold do_numeric. destruct (to_digit 16 y); [discriminate|]. reflexivity. }
      rewrite H1, H2. split; [reflexivity|].
      unfold cr_step. simpl. unfold do_numeric. destruct (to_digit 16 y); [discriminate|]. reflexivity.
Qed.

(* '&' followed by anything that is neither alphanumeric nor '#', or by nothing *)
Theorem begin_other : forall in_attr input,
  match input with c :: _ => is_alnum c = false /\ c <> CH_HASH | [] => True end ->
  let o := cr_whole T in_attr input in
  o_status o = CrDone [] /\ o_q o = input.
Proof.
  intros a input H. cbv zeta. unfold cr_whole. rewrite cr_feed_one. unfold cr_fuel.
  destruct input as [|x r].
  - match goal with |- context [run_eof T ?f ?t [] ?e ?c] =>
      destruct (run_eof_nil_pos f t e c ltac:(simpl; lia)) as [H1 H2] end.
    rewrite H1, H2. split; reflexivity.
  - destruct H as [H1 H2].
    replace (length (x :: r) + 4)%nat with (S (length r + 4)) by (simpl; lia).
    assert (Hstep : cr_step T (cr_new a) (x :: r) = out (cr_new a) (x :: r) (CrDone []) [] false).
    { unfold cr_step. simpl. rewrite H1. destruct (x =? CH_HASH) eqn:E; [apply N.eqb_eq in E; contradiction|].
      reflexivity. }
    destruct (run_eof_done T (length r + 4) (cr_new a) (x :: r) [] false [] ltac:(rewrite Hstep; reflexivity))
      as [H3 H4].
    rewrite H3, H4, Hstep. split; reflexivity.
Qed.

End Numeric.
