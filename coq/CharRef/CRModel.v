(* Executable mirror of html5ever/src/tokenizer/char_ref/mod.rs (the character
   reference sub-tokenizer), as it is.  No proofs in this file.

   Reading of the Rust code
   * characters are code points (N); the BufferQueue is seen as the list [q] of
     the characters currently available: tokenizer.peek = head ([None] iff
     q = [], the tokenizer's reconsume flag being false during a character
     reference), tokenizer.discard_char = tail, input.push_front s = s ++ q.
   * [cr_num] is the u32 field `num`; wrapping_mul / wrapping_add are written
     as [mod 2^32].
   * `name_len` and every `name_buf().len()` are BYTE lengths in Rust; here
     they are character counts.  The two coincide for the characters they are
     used on as long as the full names of the table are ASCII (checked for the
     generated table in Props/C14.v, [C14_table]): the matched part of name_buf
     is then ASCII and only the last pushed character can be wider.
   * expect / unwrap / assert! / slice-index sites give [CrPanic].
   * [o_clear_ignore_lf] is `tokenizer.ignore_lf.set(false)` in finish_named.
   * end_of_file: its loop body never yields Progress (finish_named with
     end_char = None cannot), so one iteration is modelled; Stuck maps to
     CharRef::EMPTY = [CrDone []] as in the Rust code. *)
From Coq Require Import List NArith Bool.
Import ListNotations.
Open Scope N_scope.

Definition entity_table := list N -> option (N * N).   (* NAMED_ENTITIES.get on a name (code points) *)

Inductive cr_state := CrBegin | CrOcto | CrNumeric (base : N) | CrNumSemi | CrNamed | CrBogus.

Record crt := { cr_st : cr_state; cr_attr : bool; cr_num : N; cr_big : bool; cr_seen : bool;
                cr_hex : option N; cr_buf : option (list N); cr_match : option (N * N); cr_len : nat }.

Inductive cr_err := ErrSemicolonMissing | ErrNoDigits | ErrInvalidNumeric (num : N) | ErrInvalidName (name : list N)
                  | ErrNoSemicolonNamed | ErrEofNumeric | ErrEofAfterHash.

Inductive cr_status := CrStuck | CrProgress | CrDone (chars : list N) | CrPanic.

Record cr_out := { o_st : crt; o_q : list N; o_status : cr_status; o_errs : list cr_err; o_clear_ignore_lf : bool }.

(* ------------------------------------------------------------------ helpers *)
Definition in_range (lo hi c : N) : bool := (lo <=? c) && (c <=? hi).

(* char::is_ascii_alphanumeric ; also the pattern 'a'..='z' | 'A'..='Z' | '0'..='9' of do_begin *)
Definition is_alnum (c : N) : bool := in_range 97 122 c || in_range 65 90 c || in_range 48 57 c.

(* char::to_digit(radix) for radix <= 36 *)
Definition digit_val (c : N) : option N :=
  if in_range 48 57 c then Some (c - 48)
  else if in_range 97 122 c then Some (c - 87)
  else if in_range 65 90 c then Some (c - 55)
  else None.

Definition to_digit (base c : N) : option N :=
  match digit_val c with
  | Some d => if d <? base then Some d else None
  | None => None
  end.

Definition wrap32 (x : N) : N := x mod 4294967296.

(* std::char::from_u32(n).is_some() *)
Definition is_scalar (n : N) : bool := (n <? 0xD800) || ((0xDFFF <? n) && (n <=? 0x10FFFF)).

Definition CH_HASH : N := 35.   (* '#' *)
Definition CH_SEMI : N := 59.   (* ';' *)
Definition CH_EQ : N := 61.     (* '=' *)
Definition CH_x : N := 120.
Definition CH_X : N := 88.

Definition mk (s : cr_state) (a : bool) (n : N) (b : bool) (sd : bool) (h : option N)
              (bf : option (list N)) (m : option (N * N)) (l : nat) : crt :=
  {| cr_st := s; cr_attr := a; cr_num := n; cr_big := b; cr_seen := sd; cr_hex := h;
     cr_buf := bf; cr_match := m; cr_len := l |}.

Definition with_st (t : crt) (s : cr_state) : crt :=
  mk s (cr_attr t) (cr_num t) (cr_big t) (cr_seen t) (cr_hex t) (cr_buf t) (cr_match t) (cr_len t).
Definition with_hex (t : crt) (h : option N) : crt :=
  mk (cr_st t) (cr_attr t) (cr_num t) (cr_big t) (cr_seen t) h (cr_buf t) (cr_match t) (cr_len t).
Definition with_buf (t : crt) (b : option (list N)) : crt :=
  mk (cr_st t) (cr_attr t) (cr_num t) (cr_big t) (cr_seen t) (cr_hex t) b (cr_match t) (cr_len t).
Definition with_match (t : crt) (m : option (N * N)) (l : nat) : crt :=
  mk (cr_st t) (cr_attr t) (cr_num t) (cr_big t) (cr_seen t) (cr_hex t) (cr_buf t) m l.
Definition with_num (t : crt) (n : N) (b : bool) (sd : bool) : crt :=
  mk (cr_st t) (cr_attr t) n b sd (cr_hex t) (cr_buf t) (cr_match t) (cr_len t).

Definition out (t : crt) (q : list N) (s : cr_status) (e : list cr_err) (clr : bool) : cr_out :=
  {| o_st := t; o_q := q; o_status := s; o_errs := e; o_clear_ignore_lf := clr |}.

(* CharRefTokenizer::new *)
Definition cr_new (in_attr : bool) : crt := mk CrBegin in_attr 0 false false None None None 0%nat.

(* ------------------------------------------------------------------ finish_numeric *)
(* the arms of `match self.num { .. }` as data; gen/gen_entities.py parses the
   same shape out of the Rust source into Gen/GenC1.v and Props/C14.v checks
   that it equals [finish_numeric_arms] / [c1_replacements] below *)
Inductive num_pat :=
| PTooBig (limit : N)             (* n if (n > limit) || self.num_too_big *)
| PRanges (rs : list (N * N))     (* a | lo..=hi | ..   (a single value a is (a, a)) *)
| PMask (mask value : N)          (* n if (n & mask) == value *)
| PAny.                           (* n *)

Inductive num_res :=
| RChar (c : N) (err : bool)      (* ('\u{c}', err) *)
| RConv (err : bool)              (* (conv(n), err) *)
| RC1 (base : N) (err_some err_none : bool).
    (* match C1_REPLACEMENTS[(self.num - base) as usize] { Some(c) => (c, err_some), None => (conv(self.num), err_none) } *)

Definition finish_numeric_arms : list (num_pat * num_res) := [
  (PTooBig 0x10FFFF, RChar 0xFFFD true);
  (PRanges [(0x00, 0x00); (0xD800, 0xDFFF)], RChar 0xFFFD true);
  (PRanges [(0x80, 0x9F)], RC1 0x80 true true);
  (PRanges [(0x01, 0x08); (0x0B, 0x0B); (0x0D, 0x1F); (0x7F, 0x7F); (0xFDD0, 0xFDEF)], RConv true);
  (PMask 0xFFFE 0xFFFE, RConv true);
  (PAny, RConv false)
].

(* web_atoms::C1_REPLACEMENTS *)
Definition c1_replacements : list (option N) := [
  Some 0x20ac; None;        Some 0x201a; Some 0x0192; Some 0x201e; Some 0x2026; Some 0x2020; Some 0x2021;
  Some 0x02c6; Some 0x2030; Some 0x0160; Some 0x2039; Some 0x0152; None;        Some 0x017d; None;
  None;        Some 0x2018; Some 0x2019; Some 0x201c; Some 0x201d; Some 0x2022; Some 0x2013; Some 0x2014;
  Some 0x02dc; Some 0x2122; Some 0x0161; Some 0x203a; Some 0x0153; None;        Some 0x017e; Some 0x0178
].

Definition pat_matches (p : num_pat) (n : N) (big : bool) : bool :=
  match p with
  | PTooBig lim => (lim <? n) || big
  | PRanges rs => existsb (fun r => in_range (fst r) (snd r) n) rs
  | PMask m v => N.land n m =? v
  | PAny => true
  end.

(* conv: from_u32(n).expect(..) ; None = panic *)
Definition conv (n : N) : option N := if is_scalar n then Some n else None.

Definition res_eval (c1 : list (option N)) (r : num_res) (n : N) : option (N * bool) :=
  match r with
  | RChar c e => Some (c, e)
  | RConv e => match conv n with Some c => Some (c, e) | None => None end
  | RC1 base e1 e2 =>
      if n <? base then None
      else match nth_error c1 (N.to_nat (n - base)) with
           | Some (Some c) => Some (c, e1)
           | Some None => match conv n with Some c => Some (c, e2) | None => None end
           | None => None
           end
  end.

Fixpoint eval_arms (arms : list (num_pat * num_res)) (c1 : list (option N)) (n : N) (big : bool)
  : option (N * bool) :=
  match arms with
  | [] => None
  | (p, r) :: rest => if pat_matches p n big then res_eval c1 r n else eval_arms rest c1 n big
  end.

(* (status, errors) of finish_numeric *)
Definition finish_numeric (t : crt) : cr_status * list cr_err :=
  match eval_arms finish_numeric_arms c1_replacements (cr_num t) (cr_big t) with
  | None => (CrPanic, [])
  | Some (c, err) => (CrDone [c], if err then [ErrInvalidNumeric (cr_num t)] else [])
  end.

(* ------------------------------------------------------------------ states *)
Definition do_begin (t : crt) (q : list N) : cr_out :=
  match q with
  | [] => out t q CrStuck [] false
  | c :: q' =>
      if is_alnum c then out (with_buf (with_st t CrNamed) (Some [])) q CrProgress [] false
      else if c =? CH_HASH then out (with_st t CrOcto) q' CrProgress [] false
      else out t q (CrDone []) [] false
  end.

Definition do_octothorpe (t : crt) (q : list N) : cr_out :=
  match q with
  | [] => out t q CrStuck [] false
  | c :: q' =>
      if (c =? CH_x) || (c =? CH_X)
      then out (with_st (with_hex t (Some c)) (CrNumeric 16)) q' CrProgress [] false
      else out (with_st (with_hex t None) (CrNumeric 10)) q CrProgress [] false
  end.

Definition unconsume_numeric (t : crt) (q : list N) : cr_out :=
  let un := CH_HASH :: match cr_hex t with Some c => [c] | None => [] end in
  out t (un ++ q) (CrDone []) [ErrNoDigits] false.

Definition do_numeric (t : crt) (q : list N) (base : N) : cr_out :=
  match q with
  | [] => out t q CrStuck [] false
  | c :: q' =>
      match to_digit base c with
      | Some n =>
          let m := wrap32 (cr_num t * base) in
          let big := cr_big t || (0x10FFFF <? m) in
          out (with_num t (wrap32 (m + n)) big true) q' CrProgress [] false
      | None =>
          if negb (cr_seen t) then unconsume_numeric t q
          else out (with_st t CrNumSemi) q CrProgress [] false
      end
  end.

Definition do_numeric_semicolon (t : crt) (q : list N) : cr_out :=
  match q with
  | [] => out t q CrStuck [] false
  | c :: q' =>
      let (s, e) := finish_numeric t in
      if c =? CH_SEMI then out t q' s e false
      else out t q s (ErrSemicolonMissing :: e) false
  end.

(* unconsume_name: input.push_front(self.name_buf_opt.take().unwrap()) then Done(EMPTY) *)
Definition unconsume_name_done (t : crt) (q : list N) (e : list cr_err) : cr_out :=
  match cr_buf t with
  | None => out t q CrPanic e false
  | Some b => out (with_buf t None) (b ++ q) (CrDone []) e false
  end.

Definition finish_named (t : crt) (q : list N) (end_char : option N) : cr_out :=
  match cr_match t with
  | None =>
      match end_char with
      | Some c =>
          if is_alnum c then out (with_st t CrBogus) q CrProgress [] false
          else if c =? CH_SEMI then
            match cr_buf t with
            | None => out t q CrPanic [] false
            | Some b => unconsume_name_done t q (if Nat.ltb 1 (length b) then [ErrInvalidName b] else [])
            end
          else unconsume_name_done t q []
      | None => unconsume_name_done t q []
      end
  | Some (c1, c2) =>
      match cr_buf t with
      | None => out t q CrPanic [] false
      | Some b =>
          let name_len := cr_len t in
          match name_len with
          | O => out t q CrPanic [] false                           (* assert!(name_len > 0) *)
          | S k =>
              match nth_error b k with
              | None => out t q CrPanic [] false
              | Some last_matched =>
                  if Nat.ltb (length b) name_len then out t q CrPanic [] false
                  else
                    let next_after := nth_error b name_len in        (* None iff name_len = len *)
                    let is_semi := last_matched =? CH_SEMI in
                    let legacy :=
                      negb is_semi && cr_attr t &&
                      match next_after with
                      | Some c => (c =? CH_EQ) || is_alnum c
                      | None => false
                      end in
                    let e := if is_semi || legacy then [] else [ErrNoSemicolonNamed] in
                    if legacy then unconsume_name_done t q e
                    else if is_scalar c1 && is_scalar c2
                    then out t (skipn name_len b ++ q) (CrDone (if c2 =? 0 then [c1] else [c1; c2])) e true
                    else out t (skipn name_len b ++ q) CrPanic e true
              end
          end
      end
  end.

Definition do_named (T : entity_table) (t : crt) (q : list N) : cr_out :=
  match q with
  | [] => out t q CrStuck [] false
  | c :: q' =>
      match cr_buf t with
      | None => out t q' CrPanic [] false
      | Some b =>
          let b' := b ++ [c] in
          let t1 := with_buf t (Some b') in
          match T b' with
          | Some m =>
              if fst m =? 0 then out t1 q' CrProgress [] false
              else out (with_match t1 (Some m) (length b')) q' CrProgress [] false
          | None => finish_named t1 q' (Some c)
          end
      end
  end.

Definition do_bogus_name (t : crt) (q : list N) : cr_out :=
  match q with
  | [] => out t q CrStuck [] false
  | c :: q' =>
      match cr_buf t with
      | None => out t q' CrPanic [] false
      | Some b =>
          let b' := b ++ [c] in
          let t1 := with_buf t (Some b') in
          if is_alnum c then out t1 q' CrProgress [] false
          else unconsume_name_done t1 q' (if c =? CH_SEMI then [ErrInvalidName b'] else [])
      end
  end.

(* one CharRefTokenizer::step *)
Definition cr_step (T : entity_table) (st : crt) (q : list N) : cr_out :=
  match cr_st st with
  | CrBegin => do_begin st q
  | CrOcto => do_octothorpe st q
  | CrNumeric base => do_numeric st q base
  | CrNumSemi => do_numeric_semicolon st q
  | CrNamed => do_named T st q
  | CrBogus => do_bogus_name st q
  end.

(* CharRefTokenizer::end_of_file ; [q] is the (fresh, empty) queue `end()` hands in *)
Definition cr_eof (T : entity_table) (st : crt) (q : list N) : cr_out :=
  let o :=
    match cr_st st with
    | CrBegin => out st q (CrDone []) [] false
    | CrNumeric _ =>
        if negb (cr_seen st) then unconsume_numeric st q
        else let (s, e) := finish_numeric st in out st q s (ErrEofNumeric :: e) false
    | CrNumSemi => let (s, e) := finish_numeric st in out st q s (ErrEofNumeric :: e) false
    | CrNamed => finish_named st q None
    | CrBogus => unconsume_name_done st q []
    | CrOcto => out st (CH_HASH :: q) (CrDone []) [ErrEofAfterHash] false
    end in
  match o_status o with
  | CrStuck => out (o_st o) (o_q o) (CrDone []) (o_errs o) (o_clear_ignore_lf o)
  | _ => o
  end.

(* ------------------------------------------------------------------ running *)
(* iterate [cr_step] while it reports Progress (what Tokenizer::run does through
   step_char_ref_tokenizer); errors accumulate in order; a result with status
   CrProgress means the fuel ran out *)
Fixpoint cr_run (T : entity_table) (fuel : nat) (st : crt) (q : list N) (errs : list cr_err) (clr : bool) : cr_out :=
  match fuel with
  | O => out st q CrProgress errs clr
  | S f =>
      let o := cr_step T st q in
      match o_status o with
      | CrProgress => cr_run T f (o_st o) (o_q o) (errs ++ o_errs o) (clr || o_clear_ignore_lf o)
      | s => out (o_st o) (o_q o) s (errs ++ o_errs o) (clr || o_clear_ignore_lf o)
      end
  end.

(* number of steps that suffice from state [st] with [q] available *)
Definition cr_fuel (q : list N) : nat := (length q + 4)%nat.

(* the text after '&' arrives in [chunks] (the queue runs empty between them:
   Stuck, then more input), then end-of-input.  Result: final status (CrDone
   chars), what is left unread, all errors. *)
Fixpoint cr_feed (T : entity_table) (st : crt) (chunks : list (list N)) (errs : list cr_err) (clr : bool) : cr_out :=
  match chunks with
  | [] =>
      let o := cr_eof T st [] in
      out (o_st o) (o_q o) (o_status o) (errs ++ o_errs o) (clr || o_clear_ignore_lf o)
  | c :: cs =>
      let o := cr_run T (cr_fuel c) st c errs clr in
      match o_status o with
      | CrStuck => cr_feed T (o_st o) cs (o_errs o) (o_clear_ignore_lf o)
      | s => out (o_st o) (o_q o ++ concat cs) s (o_errs o) (o_clear_ignore_lf o)
      end
  end.

Definition cr_whole (T : entity_table) (in_attr : bool) (input : list N) : cr_out :=
  cr_feed T (cr_new in_attr) [input] [] false.

(* ------------------------------------------------------------------ table implementations *)
Fixpoint list_eqb (a b : list N) : bool :=
  match a, b with
  | [], [] => true
  | x :: a', y :: b' => (x =? y) && list_eqb a' b'
  | _, _ => false
  end.

(* reference semantics of a table given as an association list: first match *)
Fixpoint alookup (l : list (list N * (N * N))) (k : list N) : option (N * N) :=
  match l with
  | [] => None
  | (k', v) :: r => if list_eqb k' k then Some v else alookup r k
  end.

(* a trie over code points, children as association lists *)
Inductive trie := Node (v : option (N * N)) (ch : list (N * trie)).

Definition tempty : trie := Node None [].

Fixpoint child (c : N) (ch : list (N * trie)) : option trie :=
  match ch with
  | [] => None
  | (c', t) :: r => if c' =? c then Some t else child c r
  end.

Fixpoint set_child (c : N) (t : trie) (ch : list (N * trie)) : list (N * trie) :=
  match ch with
  | [] => [(c, t)]
  | (c', t') :: r => if c' =? c then (c, t) :: r else (c', t') :: set_child c t r
  end.

Fixpoint tlookup (k : list N) (t : trie) {struct k} : option (N * N) :=
  match t with
  | Node v ch =>
      match k with
      | [] => v
      | c :: k' => match child c ch with Some t' => tlookup k' t' | None => None end
      end
  end.

Fixpoint tinsert (k : list N) (v : N * N) (t : trie) {struct k} : trie :=
  match t with
  | Node v0 ch =>
      match k with
      | [] => Node (Some v) ch
      | c :: k' =>
          let sub := match child c ch with Some t' => t' | None => tempty end in
          Node v0 (set_child c (tinsert k' v sub) ch)
      end
  end.

(* first entry wins, like [alookup] *)
Definition tbuild (l : list (list N * (N * N))) : trie :=
  fold_right (fun kv t => tinsert (fst kv) (snd kv) t) tempty l.

Definition table_of_trie (t : trie) : entity_table := fun k => tlookup k t.
