(* C17: proofs about the serializer model. *)
From Coq Require Import List NArith Bool Lia Arith.
From HV Require Import XmlNs.XTreeModel XmlNs.XTreeSpec XmlNs.XTreeProofs XmlNs.XSerModel XmlNs.XSerSpec.
Import ListNotations.
Local Open Scope N_scope.

(* ------------------------------------------------- escaping is reversible *)

Lemma escape_cons : forall m c s, escape m (c :: s) = escape_char m c ++ escape m s.
Proof. reflexivity. Qed.

Lemma lex_text_escape : forall s rest fuel,
  no_cr_nul s = true -> (length (escape false s ++ 60%N :: rest) < fuel)%nat ->
  lex_text fuel (escape false s ++ 60 :: rest) = Some (s, 60 :: rest).
Proof.
  induction s as [|c s IH]; intros rest fuel NC F.
  - simpl in *. destruct fuel; [lia|]. reflexivity.
  - simpl in NC. apply andb_true_iff in NC. destruct NC as [NC1 NC].
    apply negb_true_iff in NC1. apply orb_false_iff in NC1. destruct NC1 as [N13 N0].
    rewrite escape_cons in *. unfold escape_char in *. simpl andb in *.
    destruct (c =? 38) eqn:E38.
    { apply N.eqb_eq in E38. subst c. destruct fuel; [simpl in F; lia|].
      simpl. rewrite IH; auto. simpl in F. rewrite app_length in *. simpl in *. lia. }
    rewrite !andb_false_r in *. rewrite !andb_true_r in *.
    destruct (c =? 60) eqn:E60.
    { apply N.eqb_eq in E60. subst c. destruct fuel; [simpl in F; lia|].
      simpl. rewrite IH; auto. simpl in F. rewrite app_length in *. simpl in *. lia. }
    destruct (c =? 62) eqn:E62.
    { apply N.eqb_eq in E62. subst c. destruct fuel; [simpl in F; lia|].
      simpl. rewrite IH; auto. simpl in F. rewrite app_length in *. simpl in *. lia. }
    destruct fuel; [simpl in F; lia|].
    simpl app. cbn [lex_text]. rewrite E60, N0, N13, E38.
    rewrite IH; auto. simpl in F. lia.
Qed.

Theorem escape_text_reversible : forall s rest, no_cr_nul s = true ->
  lex_text (S (length (escape false s ++ 60 :: rest))) (escape false s ++ 60 :: rest) = Some (s, 60 :: rest).
Proof. intros. apply lex_text_escape; auto. Qed.

Lemma lex_attr_escape : forall s rest fuel,
  no_cr_nul s = true -> (length (escape true s ++ 34%N :: rest) < fuel)%nat ->
  lex_attr_value fuel (escape true s ++ 34 :: rest) = Some (s, rest).
Proof.
  induction s as [|c s IH]; intros rest fuel NC F.
  - simpl in *. destruct fuel; [lia|]. reflexivity.
  - simpl in NC. apply andb_true_iff in NC. destruct NC as [NC1 NC].
    apply negb_true_iff in NC1. apply orb_false_iff in NC1. destruct NC1 as [N13 N0].
    rewrite escape_cons in *. unfold escape_char in *. simpl negb in *.
    rewrite !andb_false_r in *. rewrite !andb_true_r in *.
    destruct (c =? 38) eqn:E38.
    { apply N.eqb_eq in E38. subst c. destruct fuel; [simpl in F; lia|].
      simpl. rewrite IH; auto. simpl in F. rewrite app_length in *. simpl in *. lia. }
    destruct (c =? 39) eqn:E39.
    { apply N.eqb_eq in E39. subst c. destruct fuel; [simpl in F; lia|].
      simpl. rewrite IH; auto. simpl in F. rewrite app_length in *. simpl in *. lia. }
    destruct (c =? 34) eqn:E34.
    { apply N.eqb_eq in E34. subst c. destruct fuel; [simpl in F; lia|].
      simpl. rewrite IH; auto. simpl in F. rewrite app_length in *. simpl in *. lia. }
    destruct fuel; [simpl in F; lia|].
    simpl app. cbn [lex_attr_value]. rewrite E34, N0, N13, E38. simpl orb.
    rewrite IH; auto. simpl in F. lia.
Qed.

Theorem escape_attr_reversible : forall s rest, no_cr_nul s = true ->
  lex_attr_value (S (length (escape true s ++ 34 :: rest))) (escape true s ++ 34 :: rest) = Some (s, rest).
Proof. intros. apply lex_attr_escape; auto. Qed.

(* DESIGN 6.3 row 10 (CR): the text "\r" is written raw and read back as "\n" *)
Theorem escape_text_refuted_cr :
  lex_text 3 (escape false [13] ++ [60]) = Some ([10], [60]).
Proof. reflexivity. Qed.

(* ------------------------------------------------ erasure of the ghosts *)

Lemma go_eq : forall l st,
  (fix go (l : list xnode) (st : sstack) : list item * sstack :=
     match l with
     | [] => ([], st)
     | k :: r => let (a, st') := ser_node k st in
                 let (b, st'') := go r st' in (a ++ b, st'')
     end) l st = ser_nodes l st.
Proof. induction l as [|k r IH]; intro st; [reflexivity|]. cbn [ser_nodes]. destruct (ser_node k st). rewrite IH. reflexivity. Qed.

Lemma go_g_eq : forall l st ph,
  (fix go (l : list xnode) (st : sstack) (ph : pstack) : list item * sstack * pstack * bool :=
     match l with
     | [] => ([], st, ph, false)
     | k :: r => let '(a, st', ph', fa) := ser_node_g k st ph in
                 let '(b, st'', ph'', fb) := go r st' ph' in (a ++ b, st'', ph'', fa || fb)
     end) l st ph = ser_nodes_g l st ph.
Proof.
  induction l as [|k r IH]; intros st ph; [reflexivity|]. cbn [ser_nodes_g].
  destruct (ser_node_g k st ph) as [[[a st'] ph'] fa]. rewrite IH. reflexivity.
Qed.

Lemma ser_node_elem : forall name attrs kids st,
  ser_node (XElem name attrs kids) st =
  (let (i1, st1) := start_elem st name attrs in
   let (is, st2) := ser_nodes kids st1 in
   let (i2, st3) := end_elem st2 name in (i1 :: is ++ [i2], st3)).
Proof. intros. cbn [ser_node]. destruct (start_elem st name attrs). rewrite go_eq. reflexivity. Qed.

Lemma ser_node_g_elem : forall name attrs kids st ph,
  ser_node_g (XElem name attrs kids) st ph =
  (let '(i1, st1, ph1, f1) := start_elem_g st ph name attrs in
   let '(is, st2, ph2, f2) := ser_nodes_g kids st1 ph1 in
   let '(i2, st3, ph3) := end_elem_g st2 ph2 name in (i1 :: is ++ [i2], st3, ph3, f1 || f2)).
Proof.
  intros. cbn [ser_node_g]. destruct (start_elem_g st ph name attrs) as [[[i1 st1] ph1] f1].
  rewrite go_g_eq. reflexivity.
Qed.

Lemma silent_insert_st : forall st ph q, length ph = length st ->
  fst (silent_insert st ph q) = match st with m :: r => sm_insert m q :: r | [] => [] end /\
  length (snd (silent_insert st ph q)) = length (fst (silent_insert st ph q)).
Proof.
  intros st ph q L. destruct st, ph; simpl in *; try discriminate; auto.
Qed.

Lemma reg_attrs_g_erase : forall attrs st ph, length ph = length st ->
  fst (fst (reg_attrs_g st ph attrs)) = reg_attrs st attrs /\
  length (snd (fst (reg_attrs_g st ph attrs))) = length (fst (fst (reg_attrs_g st ph attrs))).
Proof.
  induction attrs as [|a r IH]; intros st ph L; simpl; auto.
  unfold reg_attr_g, find_or_insert_ns. fold (needs_ns (aname a)).
  destruct (needs_ns (aname a)) eqn:N; simpl.
  - destruct (s_find_uri st (aname a)) eqn:F; simpl.
    + specialize (IH st ph L). destruct (reg_attrs_g st ph r) as [[st2 ph2] f2]. simpl in *. auto.
    + destruct (silent_insert_st st ph (aname a) L) as [S1 S2].
      destruct (silent_insert st ph (aname a)) as [st' ph']. simpl in *.
      specialize (IH st' ph' S2). destruct (reg_attrs_g st' ph' r) as [[st2 ph2] f2]. simpl in *.
      rewrite <- S1. auto.
  - specialize (IH st ph L). destruct (reg_attrs_g st ph r) as [[st2 ph2] f2]. simpl in *. auto.
Qed.

Lemma find_or_insert_length : forall st q, length (find_or_insert_ns st q) = length st.
Proof.
  intros st q. unfold find_or_insert_ns.
  destruct ((negb (is_none (qprefix q)) || negb (is_nil (qns q))) && negb (s_find_uri st q)); auto.
  destruct st; auto.
Qed.

Lemma start_elem_g_erase : forall st ph name attrs, length ph = length st ->
  let r := start_elem_g st ph name attrs in
  (fst (fst (fst r)), snd (fst (fst r))) = start_elem st name attrs /\
  length (snd (fst r)) = length (snd (fst (fst r))).
Proof.
  intros st ph name attrs L. unfold start_elem_g, start_elem.
  set (st1 := find_or_insert_ns (nm_empty :: st) name).
  assert (L1 : length ([] :: ph) = length st1).
  { unfold st1. rewrite find_or_insert_length. simpl. auto. }
  destruct (reg_attrs_g_erase attrs st1 ([] :: ph) L1) as [E1 E2].
  destruct (reg_attrs_g st1 ([] :: ph) attrs) as [[st2 ph2] fa]. simpl in *. rewrite E1. split; [reflexivity|]. rewrite <- E1. exact E2.
Qed.

Lemma end_elem_g_erase : forall st ph name, length ph = length st ->
  let r := end_elem_g st ph name in
  (fst (fst r), snd (fst r)) = end_elem st name /\ length (snd r) = length (snd (fst r)).
Proof.
  intros st ph name L. unfold end_elem_g, end_elem, find_or_insert_ns. fold (needs_ns name).
  assert (L' : length (tl ph) = length (tl st)) by (destruct st, ph; simpl in *; auto; discriminate).
  destruct (needs_ns name && negb (s_find_uri (tl st) name)); simpl; auto.
  destruct (silent_insert_st (tl st) (tl ph) name L') as [S1 S2].
  destruct (silent_insert (tl st) (tl ph) name) as [st' ph']. simpl in *. split; [rewrite S1; reflexivity|exact S2].
Qed.

Lemma ser_g_erase : forall n st ph, length ph = length st ->
  let r := ser_node_g n st ph in
  (fst (fst (fst r)), snd (fst (fst r))) = ser_node n st /\
  length (snd (fst r)) = length (snd (fst (fst r))).
Proof.
  fix IH 1. intros n st ph L. destruct n as [name attrs kids|s|s|t d|nm pb sy]; try (simpl; auto; fail).
  rewrite ser_node_g_elem, ser_node_elem.
  destruct (start_elem_g_erase st ph name attrs L) as [E1 L1].
  destruct (start_elem_g st ph name attrs) as [[[i1 st1] ph1] f1]. simpl in E1, L1. rewrite <- E1.
  assert (K : forall l st ph, length ph = length st ->
              let r := ser_nodes_g l st ph in
              (fst (fst (fst r)), snd (fst (fst r))) = ser_nodes l st /\
              length (snd (fst r)) = length (snd (fst (fst r)))).
  { induction l as [|k r IHr]; intros st' ph' L'; [simpl; auto|].
    simpl. destruct (IH k st' ph' L') as [A1 A2].
    destruct (ser_node_g k st' ph') as [[[a sa] pa] fa]. simpl in A1, A2. rewrite <- A1.
    destruct (IHr sa pa A2) as [B1 B2].
    destruct (ser_nodes_g r sa pa) as [[[b sb] pb'] fb]. simpl in B1, B2. rewrite <- B1. simpl. auto. }
  destruct (K kids st1 ph1 L1) as [E2 L2].
  destruct (ser_nodes_g kids st1 ph1) as [[[is st2] ph2] f2]. simpl in E2, L2. rewrite <- E2.
  destruct (end_elem_g_erase st2 ph2 name L2) as [E3 L3].
  destruct (end_elem_g st2 ph2 name) as [[i2 st3] ph3]. simpl in E3, L3. rewrite <- E3. simpl. auto.
Qed.

Lemma ser_nodes_g_erase : forall l st ph, length ph = length st ->
  fst (fst (fst (ser_nodes_g l st ph))) = fst (ser_nodes l st).
Proof.
  induction l as [|k r IH]; intros st ph L; simpl; auto.
  destruct (ser_g_erase k st ph L) as [A1 A2].
  destruct (ser_node_g k st ph) as [[[a sa] pa] fa]. simpl in A1, A2. rewrite <- A1.
  specialize (IH sa pa A2).
  destruct (ser_nodes_g r sa pa) as [[[b sb] pb] fb]. simpl in IH.
  destruct (ser_nodes r sa). simpl in *. congruence.
Qed.

(* ------------------------------------- the invariant behind adequacy *)

Definition level_ok (m : nsmap) (p : list (option str)) (h : nsmap) : Prop :=
  (forall k, okey_mem k p = false -> nm_get m k = nm_get h k) /\
  (forall k, okey_mem k p = true -> exists el, nm_get m k = Some (Some el)) /\
  (forall k, nm_get m k <> Some None).

Fixpoint J (st : sstack) (ph : pstack) (hon : list nsmap) : Prop :=
  match st, ph, hon with
  | [], [], [] => True
  | m :: st', p :: ph', h :: hon' => level_ok m p h /\ J st' ph' hon'
  | _, _, _ => False
  end.

Lemma J_length : forall st ph hon, J st ph hon -> length ph = length st.
Proof.
  induction st as [|m st IH]; destruct ph, hon; simpl; intros H; try contradiction; auto.
  destruct H as [_ H]. f_equal. eapply IH; eauto.
Qed.

Lemma J_tl : forall st ph hon, J st ph hon -> J (tl st) (tl ph) (tl hon).
Proof. destruct st, ph, hon; simpl; intros H; try contradiction; auto. destruct H; auto. Qed.

(* a lookup that succeeds through a declared entry is confirmed by the output *)
Lemma lookup_honest : forall st ph hon q, J st ph hon ->
  s_find_uri st q = true -> via_silent st ph q = false ->
  out_lookup (qprefix q) hon = Some (qns q).
Proof.
  induction st as [|m st IH]; destruct ph as [|p ph], hon as [|h hon]; simpl; intros q H F V;
    try contradiction; try discriminate.
  destruct H as [(L1 & L2 & L3) H].
  destruct (nm_get m (qprefix q)) as [[el|]|] eqn:G.
  - rewrite <- (L1 _ V), G. apply str_eqb_eq in F. congruence.
  - exfalso. apply (L3 _ G).
  - destruct (okey_mem (qprefix q) p) eqn:M.
    + destruct (L2 _ M) as (el & E). congruence.
    + rewrite <- (L1 _ M), G. apply IH with (ph := ph); auto.
Qed.

Lemma no_default_honest : forall st ph hon, J st ph hon -> has_default st = false ->
  out_lookup None hon = None.
Proof.
  induction st as [|m st IH]; destruct ph as [|p ph], hon as [|h hon]; simpl; intros H D;
    try contradiction; auto.
  destruct H as [(L1 & L2 & L3) H]. apply orb_false_iff in D. destruct D as [D1 D2].
  apply negb_false_iff in D1. destruct (nm_get m None) eqn:G; [discriminate|].
  destruct (okey_mem None p) eqn:M.
  - destruct (L2 _ M) as (el & E). congruence.
  - rewrite <- (L1 _ M), G. apply IH with (ph := ph); auto.
Qed.

Lemma level_ok_silent : forall m p h q, level_ok m p h ->
  level_ok (sm_insert m q) (qprefix q :: p) h.
Proof.
  intros m p h q (L1 & L2 & L3). unfold sm_insert. split; [|split].
  - intros k M. simpl in M. apply orb_false_iff in M. destruct M as [M1 M2].
    rewrite nm_get_insert. rewrite ostr_eqb_sym, M1. auto.
  - intros k M. rewrite nm_get_insert. destruct (ostr_eqb (qprefix q) k) eqn:E; [eauto|].
    simpl in M. rewrite ostr_eqb_sym, E in M. simpl in M. auto.
  - intros k. rewrite nm_get_insert. destruct (ostr_eqb (qprefix q) k); [discriminate|auto].
Qed.

Lemma silent_insert_J : forall st ph hon q, J st ph hon ->
  J (fst (silent_insert st ph q)) (snd (silent_insert st ph q)) hon.
Proof.
  destruct st as [|m st], ph as [|p ph], hon as [|h hon]; simpl; intros q H; try contradiction; auto.
  destruct H as [L H]. split; auto. apply level_ok_silent; auto.
Qed.

Lemma bound_of_lookup : forall sc k u, out_lookup k sc = Some u -> bound sc k u = true.
Proof. intros sc k u H. unfold bound. rewrite H, str_eqb_refl. apply orb_true_r. Qed.

Lemma reg_attr_g_ok : forall st ph hon a st' ph' f, J st ph hon ->
  reg_attr_g st ph a = (st', ph', f) -> f = false ->
  attr_bound hon a = true /\ J st' ph' hon.
Proof.
  intros st ph hon a st' ph' f H R F. unfold reg_attr_g in R. unfold attr_bound.
  destruct (needs_ns (aname a)) eqn:N.
  - destruct (s_find_uri st (aname a)) eqn:FU.
    + injection R as E1 E2 E3. subst st' ph'. rewrite <- E3 in F. clear E3.
      apply orb_false_iff in F. destruct F as [F1 F2].
      split; auto. destruct (qprefix (aname a)) as [p|] eqn:P; [|discriminate].
      apply andb_false_iff in F2. destruct F2 as [F2|F2].
      * apply bound_of_lookup. rewrite <- P. eapply lookup_honest; eauto.
      * apply negb_false_iff in F2. unfold bound. rewrite F2. reflexivity.
    + pose proof (silent_insert_J st ph hon (aname a) H) as SJ.
      destruct (silent_insert st ph (aname a)) as [s1 p1].
      injection R as E1 E2 E3. subst st' ph'. rewrite <- E3 in F. clear E3.
      apply orb_false_iff in F. destruct F as [F1 F2]. split; auto.
      destruct (qprefix (aname a)) as [p|] eqn:P; [|discriminate].
      apply negb_false_iff in F2. unfold bound. rewrite F2. reflexivity.
  - injection R as E1 E2 E3. subst st' ph'. split; auto.
    unfold needs_ns in N. apply orb_false_iff in N. destruct N as [N1 N2].
    apply negb_false_iff in N1. apply negb_false_iff in N2.
    destruct (qprefix (aname a)); [discriminate|exact N2].
Qed.

Lemma reg_attrs_g_ok : forall attrs st ph hon st' ph' f, J st ph hon ->
  reg_attrs_g st ph attrs = (st', ph', f) -> f = false ->
  forallb (attr_bound hon) attrs = true /\ J st' ph' hon.
Proof.
  induction attrs as [|a r IH]; intros st ph hon st' ph' f H R F; simpl in R.
  - inversion R; subst. auto.
  - destruct (reg_attr_g st ph a) as [[s1 p1] f1] eqn:R1.
    destruct (reg_attrs_g s1 p1 r) as [[s2 p2] f2] eqn:R2.
    injection R as E1 E2 E3. subst st' ph'. rewrite <- E3 in F. clear E3.
    apply orb_false_iff in F. destruct F as [F1 F2].
    destruct (reg_attr_g_ok _ _ _ _ _ _ _ H R1 F1) as [A1 J1].
    destruct (IH _ _ _ _ _ _ J1 R2 F2) as [A2 J2]. simpl. rewrite A1, A2. auto.
Qed.

Lemma level_ok_fresh : forall m, (forall k, nm_get m k <> Some None) -> level_ok m [] m.
Proof. intros m H. split; [|split]; auto. intros k M. discriminate. Qed.

Lemma start_elem_g_ok : forall st ph hon name attrs decls st2 ph2 f, J st ph hon ->
  start_elem_g st ph name attrs = (IStart name decls attrs, st2, ph2, f) -> f = false ->
  name_bound (decls :: hon) name = true /\ forallb (attr_bound (decls :: hon)) attrs = true /\
  J st2 ph2 (decls :: hon).
Proof.
  intros st ph hon name attrs decls st2 ph2 f H S F. unfold start_elem_g in S.
  destruct (reg_attrs_g (find_or_insert_ns (nm_empty :: st) name) ([] :: ph) attrs) as [[s2 p2] fa] eqn:RA.
  injection S as DE E1 E2 E3. subst st2 ph2. rewrite <- E3 in F. clear E3.
  apply orb_false_iff in F. destruct F as [F1 F2].
  unfold find_or_insert_ns in *. fold (needs_ns name) in *.
  change (s_find_uri (nm_empty :: st) name) with (s_find_uri st name) in *.
  destruct (needs_ns name) eqn:N.
  - destruct (s_find_uri st name) eqn:FU; simpl andb in *.
    + (* already bound: nothing declared here *)
      simpl in DE. subst decls.
      assert (J0 : J (nm_empty :: st) ([] :: ph) ([] :: hon)).
      { simpl. split; auto. apply level_ok_fresh. intros k. simpl. discriminate. }
      destruct (reg_attrs_g_ok _ _ _ _ _ _ _ J0 RA F2) as [A JA]. split; [|auto].
      unfold name_bound. apply andb_false_iff in F1.
      destruct (qprefix name) as [p|] eqn:P.
      * destruct F1 as [F1|F1].
        -- apply bound_of_lookup. rewrite <- P. simpl. apply (lookup_honest st ph hon name H FU F1).
        -- apply negb_false_iff in F1. unfold bound. rewrite F1. reflexivity.
      * destruct F1 as [F1|F1].
        -- unfold default_of. rewrite <- P. simpl. rewrite (lookup_honest st ph hon name H FU F1). apply str_eqb_refl.
        -- apply negb_false_iff in F1. unfold fixedb in F1. simpl in F1. discriminate.
    + (* registered and declared *)
      simpl in DE. subst decls.
      assert (J0 : J (sm_insert nm_empty name :: st) ([] :: ph) (sm_insert nm_empty name :: hon)).
      { simpl. split; auto. apply level_ok_fresh. intros k. unfold sm_insert. rewrite nm_get_insert.
        destruct (ostr_eqb (qprefix name) k); simpl; discriminate. }
      destruct (reg_attrs_g_ok _ _ _ _ _ _ _ J0 RA F2) as [A JA]. split; [|auto].
      assert (OL : out_lookup (qprefix name) (sm_insert nm_empty name :: hon) = Some (qns name)).
      { cbn [out_lookup]. unfold sm_insert. rewrite nm_get_insert, ostr_eqb_refl. reflexivity. }
      unfold name_bound. destruct (qprefix name) as [p|] eqn:P.
      * apply bound_of_lookup. exact OL.
      * unfold default_of. rewrite OL. apply str_eqb_refl.
  - (* unprefixed, no namespace *)
    simpl andb in *. simpl in DE. subst decls.
    assert (J0 : J (nm_empty :: st) ([] :: ph) ([] :: hon)).
    { simpl. split; auto. apply level_ok_fresh. intros k. simpl. discriminate. }
    destruct (reg_attrs_g_ok _ _ _ _ _ _ _ J0 RA F2) as [A JA]. split; [|auto].
    unfold needs_ns in N. apply orb_false_iff in N. destruct N as [N1 N2].
    apply negb_false_iff in N1. apply negb_false_iff in N2.
    unfold name_bound. destruct (qprefix name); [discriminate|].
    unfold default_of. simpl. rewrite (no_default_honest st ph hon H F1).
    destruct (qns name); [reflexivity|discriminate].
Qed.

Lemma end_elem_g_ok : forall st ph hon name i st' ph', J st ph hon ->
  end_elem_g st ph name = (i, st', ph') -> i = IEnd name /\ J st' ph' (tl hon).
Proof.
  intros st ph hon name i st' ph' H E. unfold end_elem_g in E. apply J_tl in H.
  destruct (needs_ns name && negb (s_find_uri (tl st) name)).
  - pose proof (silent_insert_J _ _ _ name H) as SJ.
    destruct (silent_insert (tl st) (tl ph) name). inversion E; subst. auto.
  - inversion E; subst. auto.
Qed.

Lemma start_elem_g_item : forall st ph name attrs,
  exists decls, fst (fst (fst (start_elem_g st ph name attrs))) = IStart name decls attrs.
Proof.
  intros. unfold start_elem_g.
  destruct (reg_attrs_g _ _ attrs) as [[s2 p2] fa]. simpl. eauto.
Qed.

(* a clean subtree is adequate in its context and leaves the scopes as they were *)
Lemma ser_node_g_ok : forall n st ph hon items st' ph' f, J st ph hon ->
  ser_node_g n st ph = (items, st', ph', f) -> f = false ->
  (forall rest, adequate (items ++ rest) hon = adequate rest hon) /\ J st' ph' hon.
Proof.
  fix IH 1. intros n st ph hon items st' ph' f H S F.
  destruct n as [name attrs kids|s|s|t d|nm pb sy];
    try (simpl in S; inversion S; subst; split; [intro rest; reflexivity|exact H]).
  rewrite ser_node_g_elem in S.
  destruct (start_elem_g_item st ph name attrs) as [decls DI].
  destruct (start_elem_g st ph name attrs) as [[[i1 st1] ph1] f1] eqn:SE. simpl in DI. subst i1.
  destruct (ser_nodes_g kids st1 ph1) as [[[is st2] ph2] f2] eqn:SK.
  destruct (end_elem_g st2 ph2 name) as [[i2 st3] ph3] eqn:EE.
  injection S as E0 E1 E2 E3. subst items st' ph'. rewrite <- E3 in F. clear E3.
  apply orb_false_iff in F. destruct F as [F1 F2].
  destruct (start_elem_g_ok _ _ _ _ _ _ _ _ _ H SE F1) as (NB & AB & J1).
  assert (K : forall l st ph is st' ph' f, J st ph (decls :: hon) ->
              ser_nodes_g l st ph = (is, st', ph', f) -> f = false ->
              (forall rest, adequate (is ++ rest) (decls :: hon) = adequate rest (decls :: hon)) /\
              J st' ph' (decls :: hon)).
  { induction l as [|k r IHr]; intros sa pa isx sb pb' fx Ja Sx Fx.
    - simpl in Sx. inversion Sx; subst. split; auto.
    - simpl in Sx. destruct (ser_node_g k sa pa) as [[[a s1] p1] fa] eqn:SN.
      destruct (ser_nodes_g r s1 p1) as [[[b s2] p2] fb] eqn:SR.
      injection Sx as E0 E1 E2 E3. subst isx sb pb'. rewrite <- E3 in Fx. clear E3.
      apply orb_false_iff in Fx. destruct Fx as [Fa Fb].
      destruct (IH k _ _ _ _ _ _ _ Ja SN Fa) as [A1 J1'].
      destruct (IHr _ _ _ _ _ _ J1' SR Fb) as [A2 J2].
      split; auto. intro rest. rewrite <- app_assoc, A1, A2. reflexivity. }
  destruct (K kids _ _ _ _ _ _ J1 SK F2) as [AK J2].
  destruct (end_elem_g_ok _ _ _ _ _ _ _ J2 EE) as [E2 J3]. subst i2. simpl in J3.
  split; auto. intro rest. simpl. rewrite NB, AB. simpl.
  rewrite <- app_assoc, AK. simpl. reflexivity.
Qed.

Lemma ser_nodes_g_ok : forall l st ph hon is st' ph' f, J st ph hon ->
  ser_nodes_g l st ph = (is, st', ph', f) -> f = false ->
  (forall rest, adequate (is ++ rest) hon = adequate rest hon) /\ J st' ph' hon.
Proof.
  induction l as [|k r IH]; intros st ph hon is st' ph' f H S F.
  - simpl in S. inversion S; subst. split; auto.
  - simpl in S. destruct (ser_node_g k st ph) as [[[a s1] p1] fa] eqn:SN.
    destruct (ser_nodes_g r s1 p1) as [[[b s2] p2] fb] eqn:SR.
    injection S as E0 E1 E2 E3. subst is st' ph'. rewrite <- E3 in F. clear E3.
    apply orb_false_iff in F. destruct F as [Fa Fb].
    destruct (ser_node_g_ok k _ _ _ _ _ _ _ H SN Fa) as [A1 J1].
    destruct (IH _ _ _ _ _ _ _ J1 SR Fb) as [A2 J2].
    split; auto. intro rest. rewrite <- app_assoc, A1, A2. reflexivity.
Qed.

(* C17_decl_adequate outside the finding classes *)
Theorem decl_adequate_outside_finding : forall kids,
  ser_clean kids = true -> adequate (ser_doc kids) [] = true.
Proof.
  intros kids C. unfold ser_clean in C. apply negb_true_iff in C. unfold ser_doc.
  rewrite <- (ser_nodes_g_erase kids [] []) by reflexivity.
  destruct (ser_nodes_g kids [] []) as [[[is st'] ph'] f] eqn:S. simpl in C. simpl.
  destruct (ser_nodes_g_ok kids [] [] [] _ _ _ _ I S C) as [A _].
  rewrite <- (app_nil_r is). rewrite A. reflexivity.
Qed.

(* ------------------------------------------------------------ refutations *)

Definition q_ (p : option str) (ns l : str) : qname := mkq p ns l.

(* <a xmlns:p="u" p:x="1"/> as a tree: attribute prefix never declared *)
Definition wA : list xnode :=
  [XElem (q_ None [] [97]) [mka (q_ (Some [112]) [117] [120]) [49]] []].
(* <r><p:a xmlns:p="u"/><p:b xmlns:p="u"/></r> : the second sibling gets no declaration *)
Definition wB : list xnode :=
  [XElem (q_ None [] [114]) []
     [XElem (q_ (Some [112]) [117] [97]) [] []; XElem (q_ (Some [112]) [117] [98]) [] []]].
(* <a xmlns="u"><b xmlns=""/></a> : no xmlns="" on b *)
Definition wC : list xnode :=
  [XElem (q_ None [117] [97]) [] [XElem (q_ None [] [98]) [] []]].
(* <a>x&#13;y</a> *)
Definition wD : list xnode := [XElem (q_ None [] [97]) [] [XText [120; 13; 121]]].

Theorem decl_adequate_refuted :
  adequate (ser_doc wA) [] = false /\ adequate (ser_doc wB) [] = false /\ adequate (ser_doc wC) [] = false.
Proof. vm_compute. auto. Qed.

(* ... and the token-level re-parse of the model's own output loses the tree *)
Theorem roundtrip_refuted :
  roundtrip_tok wA = false /\ roundtrip_tok wB = false /\ roundtrip_tok wC = false.
Proof. vm_compute. auto. Qed.

Theorem witnesses_not_clean :
  ser_clean wA = false /\ ser_clean wB = false /\ ser_clean wC = false /\ ser_clean wD = true.
Proof. vm_compute. auto. Qed.

(* what the serializer writes for the witnesses (compare DESIGN 6.3 row 10) *)
Example ser_wA : serialize wA = [60;97;32;112;58;120;61;34;49;34;62;60;47;97;62].       (* <a p:x="1"></a> *)
Proof. vm_compute. reflexivity. Qed.
Example ser_wD : serialize wD = [60;97;62;120;13;121;60;47;97;62].                       (* <a>x CR y</a> *)
Proof. vm_compute. reflexivity. Qed.

(* non-vacuity: <r xmlns="d"><p:a xmlns:p="u" p:x="1" y="&lt;"><p:b/>t&amp;</p:a><c/></r> is clean,
   adequately declared, and survives the token-level round trip *)
Definition ex_tree : list xnode :=
  [XElem (q_ None [100] [114]) []
     [XElem (q_ (Some [112]) [117] [97])
            [mka (q_ (Some [112]) [117] [120]) [49]; mka (q_ None [] [121]) [60]]
            [XElem (q_ (Some [112]) [117] [98]) [] []; XText [116; 38]];
      XElem (q_ None [100] [99]) [] []]].

Example ex_tree_ok :
  ser_clean ex_tree = true /\ adequate (ser_doc ex_tree) [] = true /\ roundtrip_tok ex_tree = true.
Proof. vm_compute. auto. Qed.
