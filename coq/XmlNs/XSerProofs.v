(* C17: proofs about the serializer model. *)
From Coq Require Import List NArith Bool Lia Arith.
From HV Require Import XmlNs.XTreeModel XmlNs.XTreeSpec XmlNs.XTreeProofs XmlNs.XSerModel XmlNs.XSerSpec.
Import ListNotations.
Local Open Scope N_scope.

(* ------------------------------------------------- escaping is reversible *)

Lemma escape_cons : forall m c s, escape m (c :: s) = escape_char m c ++ escape m s.
Proof. reflexivity. Qed.

Lemma lex_text_escape : forall s rest fuel,
  no_nul s = true -> (length (escape false s ++ 60%N :: rest) < fuel)%nat ->
  lex_text fuel (escape false s ++ 60 :: rest) = Some (s, 60 :: rest).
Proof.
  induction s as [|c s IH]; intros rest fuel NC F.
  - simpl in *. destruct fuel; [lia|]. reflexivity.
  - simpl in NC. apply andb_true_iff in NC. destruct NC as [N0 NC].
    apply negb_true_iff in N0.
    rewrite escape_cons in *. unfold escape_char in *. simpl andb in *.
    destruct (c =? 38) eqn:E38.
    { apply N.eqb_eq in E38. subst c. destruct fuel; [simpl in F; lia|].
      simpl. rewrite IH; auto. simpl in F. rewrite app_length in *. simpl in *. lia. }
    rewrite !andb_false_r in *. rewrite !andb_true_r in *.
    destruct (c =? 60) eqn:E60.
    { apply N.eqb_eq in E60. subst c. destruct fuel; [simpl in F; lia|].
      simpl. rewrite IH; auto. simpl in F. rewrite app_length in *. simpl in *. lia. }
    destruct (c =? 62) eqn:E62.
    { apply N.eqb_eq in E62. subst c. destruct fuel; [simpl in F; lia|].
      simpl. rewrite IH; auto. simpl in F. rewrite app_length in *. simpl in *. lia. }
    destruct (c =? 13) eqn:E13.
    { apply N.eqb_eq in E13. subst c. destruct fuel; [simpl in F; lia|].
      simpl. rewrite IH; auto. simpl in F. rewrite app_length in *. simpl in *. lia. }
    destruct fuel; [simpl in F; lia|].
    simpl app. cbn [lex_text]. rewrite E60, N0, E13, E38.
    rewrite IH; auto. simpl in F. lia.
Qed.

Theorem escape_text_reversible : forall s rest, no_nul s = true ->
  lex_text (S (length (escape false s ++ 60 :: rest))) (escape false s ++ 60 :: rest) = Some (s, 60 :: rest).
Proof. intros. apply lex_text_escape; auto. Qed.

Lemma lex_attr_escape : forall s rest fuel,
  no_nul s = true -> (length (escape true s ++ 34%N :: rest) < fuel)%nat ->
  lex_attr_value fuel (escape true s ++ 34 :: rest) = Some (s, rest).
Proof.
  induction s as [|c s IH]; intros rest fuel NC F.
  - simpl in *. destruct fuel; [lia|]. reflexivity.
  - simpl in NC. apply andb_true_iff in NC. destruct NC as [N0 NC].
    apply negb_true_iff in N0.
    rewrite escape_cons in *. unfold escape_char in *. simpl negb in *.
    rewrite !andb_false_r in *. rewrite !andb_true_r in *.
    destruct (c =? 38) eqn:E38.
    { apply N.eqb_eq in E38. subst c. destruct fuel; [simpl in F; lia|].
      simpl. rewrite IH; auto. simpl in F. rewrite app_length in *. simpl in *. lia. }
    destruct (c =? 39) eqn:E39.
    { apply N.eqb_eq in E39. subst c. destruct fuel; [simpl in F; lia|].
      simpl. rewrite IH; auto. simpl in F. rewrite app_length in *. simpl in *. lia. }
    destruct (c =? 34) eqn:E34.
    { apply N.eqb_eq in E34. subst c. destruct fuel; [simpl in F; lia|].
      simpl. rewrite IH; auto. simpl in F. rewrite app_length in *. simpl in *. lia. }
    destruct (c =? 13) eqn:E13.
    { apply N.eqb_eq in E13. subst c. destruct fuel; [simpl in F; lia|].
      simpl. rewrite IH; auto. simpl in F. rewrite app_length in *. simpl in *. lia. }
    destruct fuel; [simpl in F; lia|].
    simpl app. cbn [lex_attr_value]. rewrite E34, N0, E13, E38. simpl orb.
    rewrite IH; auto. simpl in F. lia.
Qed.

Theorem escape_attr_reversible : forall s rest, no_nul s = true ->
  lex_attr_value (S (length (escape true s ++ 34 :: rest))) (escape true s ++ 34 :: rest) = Some (s, rest).
Proof. intros. apply lex_attr_escape; auto. Qed.

(* ---------------------------------------------------- unfolding the walk *)

Lemma go_eq : forall l st,
  (fix go (l : list xnode) (st : sstack) : list item * sstack :=
     match l with
     | [] => ([], st)
     | k :: r => let (a, st') := ser_node k st in
                 let (b, st'') := go r st' in (a ++ b, st'')
     end) l st = ser_nodes l st.
Proof. induction l as [|k r IH]; intro st; [reflexivity|]. cbn [ser_nodes]. destruct (ser_node k st). rewrite IH. reflexivity. Qed.

Lemma ser_node_elem : forall name attrs kids st,
  ser_node (XElem name attrs kids) st =
  (let (i1, st1) := start_elem st name attrs in
   let (is, st2) := ser_nodes kids st1 in
   let (i2, st3) := end_elem st2 name in (i1 :: is ++ [i2], st3)).
Proof. intros. cbn [ser_node]. destruct (start_elem st name attrs). rewrite go_eq. reflexivity. Qed.

(* ------------------------------------------------------- the scope stack *)

Lemma okey_cmp_eq : forall a b, okey_cmp a b = Eq <-> a = b.
Proof.
  assert (S : forall x y, str_cmp x y = Eq <-> x = y).
  { induction x as [|c x IH]; destruct y as [|d y]; simpl; split; intro H; try discriminate; auto.
    - destruct (c ?= d) eqn:E; try discriminate. apply N.compare_eq in E. apply IH in H. congruence.
    - inversion H; subst. rewrite N.compare_refl. apply IH. reflexivity. }
  destruct a, b; simpl; split; intro H; try discriminate; auto.
  - apply S in H. congruence.
  - inversion H. apply S. reflexivity.
Qed.

Lemma bt_get_insert : forall m k v k',
  nm_get (bt_insert m k v) k' = if ostr_eqb k k' then Some v else nm_get m k'.
Proof.
  induction m as [|[a b] m IH]; intros k v k'; simpl.
  - destruct (ostr_eqb k k'); reflexivity.
  - destruct (okey_cmp k a) eqn:C; simpl.
    + apply okey_cmp_eq in C. subst a. destruct (ostr_eqb k k'); reflexivity.
    + destruct (ostr_eqb k k'); reflexivity.
    + rewrite IH. destruct (ostr_eqb a k') eqn:E1; auto.
      destruct (ostr_eqb k k') eqn:E2; auto.
      apply ostr_eqb_eq in E1. apply ostr_eqb_eq in E2. subst.
      rewrite (proj2 (okey_cmp_eq k' k') eq_refl) in C. discriminate.
Qed.

Lemma bt_insert_in : forall m k v kv, In kv (bt_insert m k v) -> kv = (k, v) \/ In kv m.
Proof.
  induction m as [|[a b] m IH]; intros k v kv H; simpl in H.
  - destruct H as [H|[]]; auto.
  - destruct (okey_cmp k a); simpl in H.
    + destruct H as [H|H]; auto. right. right. auto.
    + destruct H as [H|H]; auto.
    + destruct H as [H|H]; [right; left; auto|]. destruct (IH _ _ _ H); auto. right. right. auto.
Qed.

(* no entry is an un-declaration marker: the serializer only ever inserts Some(uri) *)
Definition no_none (st : sstack) : Prop := forall m k, In m st -> nm_get m k <> Some None.

Lemma out_lookup_scope : forall st k, no_none st -> out_lookup k st = s_scope st k.
Proof.
  induction st as [|m st IH]; intros k N; simpl; auto.
  destruct (nm_get m k) as [[el|]|] eqn:G; auto.
  - exfalso. apply (N m k); [left; auto|auto].
  - apply IH. intros m' k' I. apply N. right. auto.
Qed.

Lemma no_none_cons : forall m st, (forall k, nm_get m k <> Some None) -> no_none st -> no_none (m :: st).
Proof. intros m st H N m' k [E|I]; [subst; auto|apply N; auto]. Qed.

Lemma no_none_tl : forall st, no_none st -> no_none (tl st).
Proof. intros [|m st] N; auto. intros m' k I. apply N. right. auto. Qed.

Lemma foi_shape : forall m st q, exists m', find_or_insert_ns (m :: st) q = m' :: st /\
  (m' = m \/ m' = sm_insert m q) /\ s_find_uri (m' :: st) q = true.
Proof.
  intros m st q. unfold find_or_insert_ns. destruct (s_find_uri (m :: st) q) eqn:F.
  - exists m. auto.
  - exists (sm_insert m q). split; auto. split; auto.
    unfold s_find_uri. simpl. unfold sm_insert. rewrite bt_get_insert, ostr_eqb_refl, str_eqb_refl.
    apply orb_true_r.
Qed.

(* a lookup that succeeds keeps succeeding when a name with a compatible binding is registered *)
Lemma foi_preserves : forall m st q q', s_find_uri (m :: st) q = true -> same_binding q' q = true ->
  forall m', find_or_insert_ns (m :: st) q' = m' :: st -> s_find_uri (m' :: st) q = true.
Proof.
  intros m st q q' F SB m' E. unfold find_or_insert_ns in E.
  destruct (s_find_uri (m :: st) q'); inversion E; subst; auto.
  unfold s_find_uri in *. destruct (fixed_name q); auto. simpl in *.
  unfold sm_insert. rewrite bt_get_insert.
  unfold same_binding in SB. destruct (ostr_eqb (qprefix q') (qprefix q)) eqn:EP; auto.
Qed.

Lemma no_none_insert : forall m q, (forall k, nm_get m k <> Some None) ->
  forall k, nm_get (sm_insert m q) k <> Some None.
Proof.
  intros m q H k. unfold sm_insert. rewrite bt_get_insert. destruct (ostr_eqb (qprefix q) k); [discriminate|auto].
Qed.

(* registering a list of names: every one of them ends up in scope *)
Fixpoint reg_names (st : sstack) (l : list qname) : sstack :=
  match l with [] => st | q :: r => reg_names (find_or_insert_ns st q) r end.

Lemma reg_attrs_names : forall attrs st,
  reg_attrs st attrs = reg_names st (map aname (filter (fun a => negb (is_none (qprefix (aname a)))) attrs)).
Proof.
  induction attrs as [|a r IH]; intro st; simpl; auto.
  destruct (is_none (qprefix (aname a))); simpl; apply IH.
Qed.

Lemma reg_names_ok : forall l m st done,
  (forall k, nm_get m k <> Some None) ->
  (forall q, In q done -> s_find_uri (m :: st) q = true) ->
  (forall a b, In a (done ++ l) -> In b (done ++ l) -> same_binding a b = true) ->
  (forall kv, In kv m -> exists q, In q done /\ kv = (qprefix q, Some (qns q))) ->
  exists m', reg_names (m :: st) l = m' :: st /\
    (forall k, nm_get m' k <> Some None) /\
    (forall q, In q (done ++ l) -> s_find_uri (m' :: st) q = true) /\
    (forall kv, In kv m' -> exists q, In q (done ++ l) /\ kv = (qprefix q, Some (qns q))).
Proof.
  induction l as [|q l IH]; intros m st done NN D C O.
  - exists m. rewrite app_nil_r. simpl. auto.
  - simpl. destruct (foi_shape m st q) as (m1 & E & SH & F). rewrite E.
    destruct (IH m1 st (done ++ [q])) as (m' & E' & NN' & D' & O').
    + destruct SH as [->| ->]; auto. apply no_none_insert; auto.
    + intros q0 I. apply in_app_or in I. destruct I as [I|[I|[]]].
      * eapply foi_preserves; eauto. apply C; apply in_or_app; [right; left; auto|left; auto].
      * subst. auto.
    + intros a b Ia Ib. rewrite <- app_assoc in Ia, Ib. apply C; auto.
    + intros kv I. destruct SH as [->| ->].
      * destruct (O kv I) as (q0 & I0 & E0). exists q0. split; auto. apply in_or_app. auto.
      * unfold sm_insert in I. apply bt_insert_in in I. destruct I as [I|I].
        -- exists q. split; auto. apply in_or_app. right. left. auto.
        -- destruct (O kv I) as (q0 & I0 & E0). exists q0. split; auto. apply in_or_app. auto.
    + exists m'. rewrite <- app_assoc in D', O'. auto.
Qed.

Lemma elem_cons_same : forall name attrs, elem_cons name attrs = true ->
  forall a b, In a (tag_names name attrs) -> In b (tag_names name attrs) -> same_binding a b = true.
Proof.
  intros name attrs H a b Ia Ib. unfold elem_cons in H. apply andb_true_iff in H. destruct H as [H _].
  rewrite forallb_forall in H. specialize (H a Ia). rewrite forallb_forall in H. auto.
Qed.

Lemma bound_of_lookup : forall sc k u, out_lookup k sc = Some u -> bound sc k u = true.
Proof. intros sc k u H. unfold bound. rewrite H, str_eqb_refl. apply orb_true_r. Qed.

(* a name that find_uri accepts is adequately declared *)
Lemma find_name_bound : forall st q, no_none st -> s_find_uri st q = true -> name_bound st q = true.
Proof.
  intros st q N F. unfold s_find_uri in F. unfold name_bound.
  destruct (qprefix q) as [p|] eqn:P.
  - apply orb_true_iff in F. destruct F as [F|F].
    + unfold bound. unfold fixed_name in F. rewrite P in F. unfold fixedb. rewrite F. reflexivity.
    + rewrite <- (out_lookup_scope st (Some p) N) in F.
      destruct (out_lookup (Some p) st) as [el|] eqn:G; [|discriminate].
      apply str_eqb_eq in F. subst. apply bound_of_lookup. auto.
  - apply orb_true_iff in F. destruct F as [F|F].
    + unfold fixed_name in F. rewrite P in F. simpl in F. discriminate.
    + unfold default_of. rewrite (out_lookup_scope st None N).
      destruct (s_scope st None) as [el|]; auto.
Qed.

Lemma find_attr_bound : forall st a, no_none st -> (negb (is_none (qprefix (aname a))) || is_nil (qns (aname a))) = true ->
  (is_none (qprefix (aname a)) = false -> s_find_uri st (aname a) = true) -> attr_bound st a = true.
Proof.
  intros st a N PL F. unfold attr_bound. destruct (qprefix (aname a)) as [p|] eqn:P.
  - pose proof (find_name_bound st (aname a) N (F eq_refl)) as B. unfold name_bound in B. rewrite P in B. exact B.
  - simpl in PL. exact PL.
Qed.

(* what start_elem writes and leaves behind *)
Lemma start_elem_ok : forall st name attrs, no_none st -> elem_cons name attrs = true ->
  exists decls, start_elem st name attrs = (IStart name decls attrs, decls :: st) /\
    no_none (decls :: st) /\
    name_bound (decls :: st) name = true /\ forallb (attr_bound (decls :: st)) attrs = true /\
    (forall kv, In kv decls -> exists q, In q (tag_names name attrs) /\ kv = (qprefix q, Some (qns q))).
Proof.
  intros st name attrs N C. unfold start_elem. rewrite reg_attrs_names.
  change (reg_names (find_or_insert_ns (nm_empty :: st) name) ?l) with (reg_names (nm_empty :: st) (name :: l)).
  destruct (reg_names_ok (tag_names name attrs) nm_empty st []) as (m' & E & NN & D & O).
  - intros k. simpl. discriminate.
  - intros q [].
  - simpl app. apply elem_cons_same. auto.
  - intros kv [].
  - unfold tag_names in E. rewrite E. exists m'. simpl app in D, O.
    assert (N' : no_none (m' :: st)) by (apply no_none_cons; auto).
    split; [reflexivity|]. split; [exact N'|]. split.
    + apply find_name_bound; auto. apply D. left. reflexivity.
    + split; [|exact O]. apply forallb_forall. intros a Ia.
      unfold elem_cons in C. apply andb_true_iff in C. destruct C as [_ C].
      rewrite forallb_forall in C. apply find_attr_bound; auto.
      intro PF. apply D. right. apply in_map. apply filter_In. split; auto. rewrite PF. reflexivity.
Qed.

(* a subtree is adequately declared in its context and leaves the scope stack as it found it *)
Lemma ser_node_ok : forall n st, node_cons n = true -> no_none st ->
  snd (ser_node n st) = st /\
  forall rest, adequate (fst (ser_node n st) ++ rest) st = adequate rest st.
Proof.
  fix IH 1. intros n st C N.
  destruct n as [name attrs kids|s|s|t d|nm pb sy]; try (simpl; auto; fail).
  rewrite ser_node_elem. cbn [node_cons] in C. apply andb_true_iff in C. destruct C as [C CK].
  destruct (start_elem_ok st name attrs N C) as (decls & SE & N1 & NB & AB & _). rewrite SE.
  assert (K : forall l, (fix all (l : list xnode) : bool := match l with [] => true | k :: r => node_cons k && all r end) l = true ->
              snd (ser_nodes l (decls :: st)) = decls :: st /\
              forall rest, adequate (fst (ser_nodes l (decls :: st)) ++ rest) (decls :: st) = adequate rest (decls :: st)).
  { induction l as [|k r IHr]; intro CL; [simpl; auto|].
    apply andb_true_iff in CL. destruct CL as [C1 C2].
    cbn [ser_nodes]. destruct (IH k (decls :: st) C1 N1) as [A1 A2].
    destruct (ser_node k (decls :: st)) as [a sa]. simpl in A1, A2. subst sa.
    destruct (IHr C2) as [B1 B2]. destruct (ser_nodes r (decls :: st)) as [b sb]. simpl in *.
    split; auto. intro rest. rewrite <- app_assoc, A2, B2. reflexivity. }
  destruct (K kids CK) as [K1 K2]. destruct (ser_nodes kids (decls :: st)) as [is st2]. simpl in K1, K2. subst st2.
  simpl. split; auto. intro rest. rewrite NB, AB. simpl. rewrite <- app_assoc, K2. reflexivity.
Qed.

Lemma ser_nodes_ok : forall l st, forest_cons l = true -> no_none st ->
  snd (ser_nodes l st) = st /\
  forall rest, adequate (fst (ser_nodes l st) ++ rest) st = adequate rest st.
Proof.
  induction l as [|k r IH]; intros st C N; [simpl; auto|].
  simpl in C. apply andb_true_iff in C. destruct C as [C1 C2].
  cbn [ser_nodes]. destruct (ser_node_ok k st C1 N) as [A1 A2].
  destruct (ser_node k st) as [a sa]. simpl in A1, A2. subst sa.
  destruct (IH st C2 N) as [B1 B2]. destruct (ser_nodes r st) as [b sb]. simpl in *.
  split; auto. intro rest. rewrite <- app_assoc, A2, B2. reflexivity.
Qed.

(* C17_decl_adequate, for every document *)
Theorem decl_adequate : forall kids, forest_cons kids = true -> adequate (ser_doc kids) [] = true.
Proof.
  intros kids C. unfold ser_doc.
  destruct (ser_nodes_ok kids [] C) as [_ A]; [intros m k []|].
  rewrite <- (app_nil_r (fst (ser_nodes kids []))). rewrite A. reflexivity.
Qed.

(* ------------------------------------- the witnesses of the repaired findings *)

Definition q_ (p : option str) (ns l : str) : qname := mkq p ns l.

(* <a xmlns:p="u" p:x="1"/> as a tree *)
Definition wA : list xnode :=
  [XElem (q_ None [] [97]) [mka (q_ (Some [112]) [117] [120]) [49]] []].
(* <r><p:a xmlns:p="u"/><p:b xmlns:p="u"/></r> *)
Definition wB : list xnode :=
  [XElem (q_ None [] [114]) []
     [XElem (q_ (Some [112]) [117] [97]) [] []; XElem (q_ (Some [112]) [117] [98]) [] []]].
(* <a xmlns="u"><b xmlns=""/></a> *)
Definition wC : list xnode :=
  [XElem (q_ None [117] [97]) [] [XElem (q_ None [] [98]) [] []]].
(* <a>x&#13;y</a> *)
Definition wD : list xnode := [XElem (q_ None [] [97]) [] [XText [120; 13; 121]]].
(* <r><p:c xmlns:p="a&quot;b"/></r> : a namespace URI containing a quotation mark *)
Definition wE : list xnode := [XElem (q_ None [] [114]) [] [XElem (q_ (Some [112]) [97; 34; 98] [99]) [] []]].

Example witnesses_adequate :
  adequate (ser_doc wA) [] = true /\ adequate (ser_doc wB) [] = true /\ adequate (ser_doc wC) [] = true.
Proof. vm_compute. auto. Qed.

Example witnesses_roundtrip :
  roundtrip_tok wA = true /\ roundtrip_tok wB = true /\ roundtrip_tok wC = true /\
  roundtrip_tok wD = true /\ roundtrip_tok wE = true.
Proof. vm_compute. auto. Qed.

(* what the serializer writes for the witnesses *)
Example ser_wA : serialize wA =                       (* <a xmlns:p="u" p:x="1"></a> *)
  [60;97;32;120;109;108;110;115;58;112;61;34;117;34;32;112;58;120;61;34;49;34;62;60;47;97;62].
Proof. vm_compute. reflexivity. Qed.
Example ser_wC : serialize wC =                       (* <a xmlns="u"><b xmlns=""></b></a> *)
  [60;97;32;120;109;108;110;115;61;34;117;34;62;60;98;32;120;109;108;110;115;61;34;34;62;60;47;98;62;60;47;97;62].
Proof. vm_compute. reflexivity. Qed.
Example ser_wD : serialize wD = [60;97;62;120;38;35;49;51;59;121;60;47;97;62].     (* <a>x&#13;y</a> *)
Proof. vm_compute. reflexivity. Qed.
Example ser_wE : serialize wE =                       (* <r><p:c xmlns:p="a&quot;b"></p:c></r> *)
  [60;114;62;60;112;58;99;32;120;109;108;110;115;58;112;61;34;97;38;113;117;111;116;59;98;34;62;60;47;112;58;99;62;60;47;114;62].
Proof. vm_compute. reflexivity. Qed.

(* non-vacuity: <r xmlns="d"><p:a xmlns:p="u" p:x="1" y="&lt;"><p:b/>t&amp;</p:a><c/></r> *)
Definition ex_tree : list xnode :=
  [XElem (q_ None [100] [114]) []
     [XElem (q_ (Some [112]) [117] [97])
            [mka (q_ (Some [112]) [117] [120]) [49]; mka (q_ None [] [121]) [60]]
            [XElem (q_ (Some [112]) [117] [98]) [] []; XText [116; 38]];
      XElem (q_ None [100] [99]) [] []]].

Example ex_tree_ok :
  forest_cons ex_tree = true /\ adequate (ser_doc ex_tree) [] = true /\ roundtrip_tok ex_tree = true.
Proof. vm_compute. auto. Qed.
