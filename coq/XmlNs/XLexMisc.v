(* C17, lexing side: processing instructions, comments and the doctype as the XML serializer writes
   them, read back by the TokIR interpreter (reference semantics, exact_errors = true). *)
From Coq Require Import List NArith Bool Lia.
From RecordUpdate Require Import RecordSet.
From HV Require Import TokIR.IR TokIR.Interp XmlNs.XLexBase XmlNs.XLex XmlNs.XLexTag.
Import ListNotations RecordSetNotations.
Local Open Scope N_scope.

(* the arm bodies of the states involved (instantiated in Inst/InstXmlLex.v) *)
Record xml_misc_bodies (tb : table xstate) : Prop := {
  tm_pi : t_step tb XPi =
    BRead RGet (BIf (CIn [9; 10; 32]) (BCmd Error (BEnd (Reconsume XBogusComment)))
                 (BCmd (CreatePi CCur) (BEnd (To XPiTarget))));
  tm_pitarget : t_step tb XPiTarget =
    BRead RGet (BIf (CIn [9; 10; 32]) (BEnd (To XPiTargetAfter))
                 (BIf (CIn [63]) (BEnd (To XPiAfter)) (BCmd (PushPiTarget CCur) (BEnd Stay))));
  tm_pitargetafter : t_step tb XPiTargetAfter =
    BRead RGet (BIf (CIn [9; 10; 32]) (BEnd Stay) (BEnd (Reconsume XPiData)));
  tm_pidata : t_step tb XPiData =
    BRead RGet (BIf (CIn [63]) (BEnd (To XPiAfter)) (BCmd (PushPiData CCur) (BEnd Stay)));
  tm_piafter : t_step tb XPiAfter =
    BRead RGet (BIf (CIn [62]) (BEnd (EmitPi XData))
                 (BIf (CIn [63]) (BCmd (PushPiData (CLit 63)) (BEnd Stay))
                   (BCmd (PushPiData (CLit 63)) (BEnd (Reconsume XPiData)))));
  tm_markupdecl : t_step tb XMarkupDecl =
    BEat [45; 45] false (BCmd ClearComment (BEnd (To XCommentStart)))
      (BEat [91; 67; 68; 65; 84; 65; 91] false (BEnd (To XCdata))
        (BEat [68; 79; 67; 84; 89; 80; 69] false (BEnd (To XDoctype))
          (BCmd Error (BEnd (To XBogusComment)))));
  tm_cstart : t_step tb XCommentStart =
    BRead RGet (BIf (CIn [45]) (BEnd (To XCommentStartDash))
                 (BIf (CIn [62]) (BCmd Error (BCmd EmitComment (BEnd (To XData))))
                   (BEnd (Reconsume XComment))));
  tm_cstartdash : t_step tb XCommentStartDash =
    BRead RGet (BIf (CIn [45]) (BEnd (To XCommentEnd))
                 (BIf (CIn [62]) (BCmd Error (BCmd EmitComment (BEnd (To XData))))
                   (BCmd (PushComment (CLit 45)) (BEnd (Reconsume XComment)))));
  tm_comment : t_step tb XComment =
    BRead RGet (BIf (CIn [60]) (BCmd (PushComment (CLit 60)) (BEnd (To XCommentLessThan)))
                 (BIf (CIn [45]) (BEnd (To XCommentEndDash)) (BCmd (PushComment CCur) (BEnd Stay))));
  tm_clt : t_step tb XCommentLessThan =
    BRead RGet (BIf (CIn [33]) (BCmd (PushComment (CLit 33)) (BEnd (To XCommentLessThanBang)))
                 (BIf (CIn [60]) (BCmd (PushComment (CLit 60)) (BEnd Stay)) (BEnd (Reconsume XComment))));
  tm_cltbang : t_step tb XCommentLessThanBang =
    BRead RGet (BIf (CIn [45]) (BEnd (To XCommentLessThanBangDash)) (BEnd (Reconsume XComment)));
  tm_cltbangdash : t_step tb XCommentLessThanBangDash =
    BRead RGet (BIf (CIn [45]) (BEnd (To XCommentLessThanBangDashDash)) (BEnd (Reconsume XCommentEndDash)));
  tm_cltbangdashdash : t_step tb XCommentLessThanBangDashDash =
    BRead RGet (BIf (CIn [62]) (BEnd (Reconsume XCommentEnd)) (BCmd Error (BEnd (Reconsume XCommentEnd))));
  tm_cend : t_step tb XCommentEnd =
    BRead RGet (BIf (CIn [62]) (BCmd EmitComment (BEnd (To XData)))
                 (BIf (CIn [33]) (BEnd (To XCommentEndBang))
                   (BIf (CIn [45]) (BCmd (PushComment (CLit 45)) (BEnd Stay))
                     (BCmd (AppendComment [45; 45]) (BEnd (Reconsume XComment))))));
  tm_cenddash : t_step tb XCommentEndDash =
    BRead RGet (BIf (CIn [45]) (BEnd (To XCommentEnd))
                 (BCmd (PushComment (CLit 45)) (BEnd (Reconsume XComment))));
  tm_cendbang : t_step tb XCommentEndBang =
    BRead RGet (BIf (CIn [45]) (BCmd (AppendComment [45; 45; 33]) (BEnd (To XCommentEndDash)))
                 (BIf (CIn [62]) (BCmd Error (BCmd EmitComment (BEnd (To XData))))
                   (BCmd (AppendComment [45; 45; 33]) (BEnd (Reconsume XComment)))));
  tm_doctype : t_step tb XDoctype =
    BRead RGet (BIf (CIn [9; 10; 12; 32]) (BEnd (To XBeforeDoctypeName))
                 (BCmd Error (BEnd (Reconsume XBeforeDoctypeName))));
  tm_bdn : t_step tb XBeforeDoctypeName =
    BRead RGet (BIf (CIn [9; 10; 12; 32]) (BEnd Stay)
                 (BIf (CIn [62]) (BCmd Error (BCmd EmitDoctype (BEnd (To XData))))
                   (BCmd CreateDoctype (BCmd (PushDoctypeName CAsciiLower) (BEnd (To XDoctypeName))))));
  tm_dn : t_step tb XDoctypeName =
    BRead RGet (BIf (CIn [9; 10; 12; 32]) (BEnd (To XAfterDoctypeName))
                 (BIf (CIn [62]) (BCmd EmitDoctype (BEnd (To XData)))
                   (BCmd (PushDoctypeName CAsciiLower) (BEnd (To XDoctypeName)))));
  tm_eof_data : t_eof tb XData = BEnd Eof }.

(* the configuration between two items: no look-ahead stash, no comment / doctype / PI under construction *)
Definition bg_clean (b : bg) : Prop :=
  b_temp b = [] /\ b_comment b = [] /\ b_dn b = None /\ b_dp b = None /\ b_ds b = None /\ b_dq b = false /\
  b_pt b = [] /\ b_pd b = [].

Definition b_pi (b : bg) (t d : str) : bg :=
  mkbg (b_bom b) (b_temp b) (b_self b) (b_dup b) (b_comment b) (b_dn b) (b_dp b) (b_ds b) (b_dq b) t d (b_last b) (b_line b).
Definition b_com (b : bg) (c : str) : bg :=
  mkbg (b_bom b) (b_temp b) (b_self b) (b_dup b) c (b_dn b) (b_dp b) (b_ds b) (b_dq b) (b_pt b) (b_pd b) (b_last b) (b_line b).
Definition b_dt (b : bg) (n : option str) : bg :=
  mkbg (b_bom b) (b_temp b) (b_self b) (b_dup b) (b_comment b) n (b_dp b) (b_ds b) (b_dq b) (b_pt b) (b_pd b) (b_last b) (b_line b).

Lemma b_pi_clean : forall b, bg_clean b -> b_pi b [] [] = b.
Proof. intros [? ? ? ? ? ? ? ? ? ? ? ? ?] (A & B & C & D & E & F & G & H). simpl in *. subst. reflexivity. Qed.
Lemma b_com_clean : forall b, bg_clean b -> b_com b [] = b.
Proof. intros [? ? ? ? ? ? ? ? ? ? ? ? ?] (A & B & C & D & E & F & G & H). simpl in *. subst. reflexivity. Qed.
Lemma b_dt_clean : forall b, bg_clean b -> b_dt b None = b.
Proof. intros [? ? ? ? ? ? ? ? ? ? ? ? ?] (A & B & C & D & E & F & G & H). simpl in *. subst. reflexivity. Qed.

(* ---- characters: U+000D and U+0000 never reach a comment, a processing instruction or a doctype name of a
   parsed tree (the input preprocessing turns them into U+000A and U+FFFD); a reported character (control
   character, noncharacter) is kept and costs one parse-error token *)
(* [pre_ok], [char_errs], [bad_errs]: XLexTag *)

Definition pi_first (c : N) : bool := pre_ok c && negb (memb c [9; 10; 32]).
Definition pi_trest (c : N) : bool := pre_ok c && negb (memb c [9; 10; 32]) && negb (memb c [63]).
Definition pi_dchar (c : N) : bool := pre_ok c && negb (memb c [63]).
Definition pi_target_ok (t : list N) : bool := match t with [] => false | c :: r => pi_first c && forallb pi_trest r end.
(* no "?>" inside *)
Fixpoint no_qgt (d : list N) : bool :=
  match d with
  | [] => true
  | c :: r => negb ((c =? 63) && match r with x :: _ => x =? 62 | [] => false end) && no_qgt r
  end.
(* the data of a processing instruction: no U+000D / U+0000, does not start with white space, holds no "?>"
   (a '?' anywhere else, at the end included, is data) *)
Definition pi_data_ok (d : list N) : bool :=
  forallb pre_ok d && match d with [] => true | c :: _ => negb (memb c [9; 10; 32]) end && no_qgt d.
(* the tokens of <?t d?>, oldest first *)
Definition pi_toks (t d : list N) : list token := bad_errs t ++ bad_errs d ++ [TPi t d].

(* ---- comments: where the tokenizer stands inside a comment written raw.  The comment buffer B of the machine
   lags behind the characters read by the pending dashes (and '!') of some of the modes. *)
Inductive cmode := MS | MSD | MC | MD | ME | MEB | ML | MB | MBD | MBDD.
Definition cm_state (m : cmode) : xstate :=
  match m with MS => XCommentStart | MSD => XCommentStartDash | MC => XComment | MD => XCommentEndDash
             | ME => XCommentEnd | MEB => XCommentEndBang
             | ML => XCommentLessThan | MB => XCommentLessThanBang | MBD => XCommentLessThanBangDash
             | MBDD => XCommentLessThanBangDashDash end.
(* the rows of Comment, CommentEndDash and CommentEnd; None: the comment closes here *)
Definition cm_row (B : list N) (c : N) : cmode * list N :=
  if c =? 60 then (ML, B ++ [60]) else if c =? 45 then (MD, B) else (MC, B ++ [c]).
Definition cm_rowD (B : list N) (c : N) : cmode * list N :=
  if c =? 45 then (ME, B) else cm_row (B ++ [45]) c.
Definition cm_rowE (B : list N) (c : N) : option (cmode * list N) :=
  if c =? 62 then None else if c =? 33 then Some (MEB, B) else if c =? 45 then Some (ME, B ++ [45])
  else Some (cm_row (B ++ [45; 45]) c).
(* the next mode and buffer, and whether the state reports a parse error *)
Definition cm_next (m : cmode) (B : list N) (c : N) : option (cmode * list N * bool) :=
  match m with
  | MS => if c =? 45 then Some (MSD, B, false) else if c =? 62 then None else Some (cm_row B c, false)
  | MSD => if c =? 45 then Some (ME, B, false) else if c =? 62 then None else Some (cm_row (B ++ [45]) c, false)
  | MC => Some (cm_row B c, false)
  | MD => Some (cm_rowD B c, false)
  | ME => match cm_rowE B c with Some x => Some (x, false) | None => None end
  | MEB => if c =? 45 then Some (MD, B ++ [45; 45; 33], false) else if c =? 62 then None
           else Some (cm_row (B ++ [45; 45; 33]) c, false)
  | ML => if c =? 33 then Some (MB, B ++ [33], false) else Some (cm_row B c, false)
  | MB => if c =? 45 then Some (MBD, B, false) else Some (cm_row B c, false)
  | MBD => if c =? 45 then Some (MBDD, B, false) else Some (cm_row (B ++ [45]) c, false)
  | MBDD => match cm_rowE B c with Some x => Some (x, true) | None => None end
  end.
Definition cm_pending (m : cmode) : list N :=
  match m with MSD | MD | MBD => [45] | ME | MBDD => [45; 45] | MEB => [45; 45; 33] | _ => [] end.
Definition cm_content (m : cmode) (B : list N) : list N := B ++ cm_pending m.
Fixpoint cm_run (m : cmode) (B : list N) (s : list N) : option (cmode * list N) :=
  match s with
  | [] => Some (m, B)
  | c :: r => match cm_next m B c with Some (m', B', _) => cm_run m' B' r | None => None end
  end.
(* the parse errors at the closing dashes *)
Definition cm_close_errs (m : cmode) : list token := match m with MBD | MBDD => [TError] | _ => [] end.
Fixpoint cm_errs (m : cmode) (B : list N) (s : list N) : list token :=
  match s with
  | [] => cm_close_errs m
  | c :: r => match cm_next m B c with
              | Some (m', B', e) => char_errs c ++ (if e then [TError] else []) ++ cm_errs m' B' r
              | None => []
              end
  end.
(* a comment text that the serializer's raw  <!--text-->  is read back from: no U+000D / U+0000 and the
   automaton above never closes the comment before its end, i.e. the text does not start with '>' or '->'
   and does not contain '-->' or '--!>' - exactly the comment texts this tokenizer produces *)
Definition comment_ok (s : list N) : bool :=
  forallb pre_ok s && match cm_run MS [] s with Some _ => true | None => false end.
Definition comment_toks (s : list N) : list token := cm_errs MS [] s ++ [TComment s].

Lemma dash_comm : forall B : list N, (B ++ [45]) ++ [45; 45] = (B ++ [45; 45]) ++ [45].
Proof. intro B. rewrite <- !app_assoc. reflexivity. Qed.

Lemma cm_row_content : forall B c, cm_content (fst (cm_row B c)) (snd (cm_row B c)) = B ++ [c].
Proof.
  intros B c. unfold cm_row. destruct (c =? 60) eqn:E1; [apply N.eqb_eq in E1; subst; unfold cm_content; simpl; apply app_nil_r|].
  destruct (c =? 45) eqn:E2; [apply N.eqb_eq in E2; subst; reflexivity|]. unfold cm_content. simpl. apply app_nil_r.
Qed.
Lemma cm_rowD_content : forall B c, cm_content (fst (cm_rowD B c)) (snd (cm_rowD B c)) = (B ++ [45]) ++ [c].
Proof.
  intros B c. unfold cm_rowD. destruct (c =? 45) eqn:E; [apply N.eqb_eq in E; subst; unfold cm_content; simpl; rewrite <- app_assoc; reflexivity|].
  apply cm_row_content.
Qed.
Lemma cm_rowE_content : forall B c x, cm_rowE B c = Some x -> cm_content (fst x) (snd x) = (B ++ [45; 45]) ++ [c].
Proof.
  intros B c x H. unfold cm_rowE in H. destruct (c =? 62); [discriminate|].
  destruct (c =? 33) eqn:E1; [apply N.eqb_eq in E1; subst; injection H as <-; unfold cm_content; simpl; rewrite <- !app_assoc; reflexivity|].
  destruct (c =? 45) eqn:E2; [apply N.eqb_eq in E2; subst; injection H as <-; unfold cm_content; simpl; apply dash_comm|].
  injection H as <-. apply cm_row_content.
Qed.

Lemma cm_next_content : forall m B c m' B' e, cm_next m B c = Some (m', B', e) -> cm_content m' B' = cm_content m B ++ [c].
Proof.
  intros m B c m' B' e H. unfold cm_next in H.
  destruct m;
    repeat match type of H with
           | context [if ?x =? ?y then _ else _] => let E := fresh "E" in destruct (x =? y) eqn:E; [apply N.eqb_eq in E; subst|]
           end; try discriminate.
  all: try (injection H as <- <- <-; unfold cm_content; simpl; rewrite <- ?app_assoc; reflexivity).
  all: try (injection H as H <-;
            match type of H with
            | cm_row ?X ?c = _ => pose proof (cm_row_content X c) as R; rewrite H in R; simpl in R; rewrite R;
                                  unfold cm_content; simpl; rewrite ?app_nil_r, <- ?app_assoc; reflexivity
            | cm_rowD ?X ?c = _ => pose proof (cm_rowD_content X c) as R; rewrite H in R; simpl in R; rewrite R;
                                  unfold cm_content; simpl; rewrite ?app_nil_r, <- ?app_assoc; reflexivity
            end).
  all: destruct (cm_rowE B c) as [x|] eqn:RE; [|discriminate]; injection H as H <-;
       pose proof (cm_rowE_content B c x RE) as R; rewrite H in R; simpl in R; rewrite R; reflexivity.
Qed.
Lemma cm_run_content : forall s m B m' B', cm_run m B s = Some (m', B') -> cm_content m' B' = cm_content m B ++ s.
Proof.
  induction s as [|c s IH]; intros m B m' B' H; simpl in H.
  - injection H as <- <-. rewrite app_nil_r. reflexivity.
  - destruct (cm_next m B c) as [[[m1 B1] e]|] eqn:E; [|discriminate].
    rewrite (IH _ _ _ _ H), (cm_next_content _ _ _ _ _ _ E), <- app_assoc. reflexivity.
Qed.

(* ---- doctype names *)
Definition dn_char (c : N) : bool :=
  pre_ok c && negb (memb c [9; 10; 12; 32]) && negb (memb c [62]) && negb (is_upper c).
Definition doctype_name_ok (n : list N) : bool := forallb dn_char n.
(* the empty name is written <!DOCTYPE > and read back, with a parse error, as a doctype whose name is absent *)
Definition doctype_toks (n : list N) : list token :=
  match n with
  | [] => [TError; TDoctype None None None false]
  | _ => bad_errs n ++ [TDoctype (Some n) None None false]
  end.

Lemma memb1 : forall c x, (c =? x) = false -> memb c [x] = false.
Proof. intros c x H. unfold memb. simpl. rewrite H. reflexivity. Qed.

Lemma rev_errs1 : forall c (e : bool) X l,
  rev (char_errs c ++ (if e then [TError] else []) ++ X) ++ l = rev X ++ (if e then [TError] else []) ++ char_errs c ++ l.
Proof.
  intros c e X l. unfold char_errs. rewrite !rev_app_distr, <- !app_assoc.
  destruct e, (bad_char c); reflexivity.
Qed.

Section L.
Variable tb : table xstate.
Hypothesis TB : xml_bodies tb.
Hypothesis TM : xml_misc_bodies tb.
Variable simd : list N * list N * list N.
Variable ent : list N -> option (N * N).
Variable c1 : N -> option N.
Variable sk : sinkcfg.

Notation xstep := (xstep tb simd ent c1 sk).
Notation xsteps := (xsteps tb simd ent c1 sk).
Notation xsteps_trans := (xsteps_trans tb simd ent c1 sk).

Ltac bodies := rewrite ?(tb_data _ TB), ?(tb_tagstate _ TB),
  ?(tm_pi _ TM), ?(tm_pitarget _ TM), ?(tm_pitargetafter _ TM), ?(tm_pidata _ TM), ?(tm_piafter _ TM),
  ?(tm_markupdecl _ TM), ?(tm_cstart _ TM), ?(tm_cstartdash _ TM), ?(tm_comment _ TM), ?(tm_clt _ TM),
  ?(tm_cltbang _ TM), ?(tm_cltbangdash _ TM), ?(tm_cltbangdashdash _ TM), ?(tm_cend _ TM), ?(tm_cenddash _ TM),
  ?(tm_cendbang _ TM), ?(tm_doctype _ TM), ?(tm_bdn _ TM), ?(tm_dn _ TM).
Ltac one := eapply xs_step; [unfold XLexBase.xstep, step, mkM, b_pi, b_com, b_dt; cbn [mc cref st]; bodies; cbv -[N.add N.sub ent]; reflexivity|].
Ltac oneA := eapply xs_step; [unfold XLexBase.xstep, step, mkM, b_pi, b_com, b_dt; cbn [mc cref st]; bodies; cbv -[N.add N.sub ent app]; reflexivity|].
Ltac fin := unfold mkM, b_pi, b_com, b_dt; apply xs_refl.
Ltac rw_all := repeat match goal with
  | E : (_ =? _) = false |- _ => rewrite E
  | E : bad_char _ = false |- _ => rewrite E
  | E : bad_char _ = true |- _ => rewrite E
  | E : memb _ _ = false |- _ => rewrite E
  | E : is_upper _ = false |- _ => rewrite E
  end.
Ltac sym :=
  apply xsteps_one; unfold XLexBase.xstep, step, mkM, b_pi, b_com, b_dt; cbn [mc cref st]; bodies;
  cbn -[bad_char N.eqb N.add memb is_upper to_lower]; unfold CR, LF, REPL, to_lower;
  repeat (rw_all; cbn -[bad_char N.eqb N.add memb is_upper to_lower]; unfold to_lower).
Ltac okc H := unfold pre_ok in H; split_class H; apply negb_true_iff in H.
Ltac cls H := split_class H; okc H.
(* one step that reads a symbolic character: with or without its parse error *)
Ltac rd := unfold char_errs; match goal with |- context [bad_char ?c] => destruct (bad_char c) eqn:BC end;
           do 2 eexists; (split; [sym; reflexivity|reflexivity]).

(* ---------------------------------------------------------------- processing instructions *)
Lemma tagstate_qm : forall b cu tk tn ta an av q o k, exists k',
  xsteps (mkM b XTagState false cu false None tk tn ta an av (63 :: q) o k)
         (mkM b XPi false 63 false None tk tn ta an av q o k').
Proof. intros. eexists. one. fin. Qed.

Lemma pi_first_step : forall b cu tk tn ta an av c q o k, pi_first c = true -> exists o' k',
  xsteps (mkM b XPi false cu false None tk tn ta an av (c :: q) o k)
         (mkM (b_pi b [c] []) XPiTarget false c false None tk tn ta an av q o' k') /\
  otoks o' = char_errs c ++ otoks o.
Proof. intros b cu tk tn ta an av c q o k H. unfold pi_first in H. cls H. rd. Qed.

Lemma pi_target_char : forall b t d cu tk tn ta an av c q o k, pi_trest c = true -> exists o' k',
  xsteps (mkM (b_pi b t d) XPiTarget false cu false None tk tn ta an av (c :: q) o k)
         (mkM (b_pi b (t ++ [c]) d) XPiTarget false c false None tk tn ta an av q o' k') /\
  otoks o' = char_errs c ++ otoks o.
Proof. intros b t d cu tk tn ta an av c q o k H. unfold pi_trest in H. cls H. rd. Qed.

Lemma pi_target_chars : forall cs b t d cu tk tn ta an av q o k, forallb pi_trest cs = true -> exists cu' o' k',
  xsteps (mkM (b_pi b t d) XPiTarget false cu false None tk tn ta an av (cs ++ q) o k)
         (mkM (b_pi b (t ++ cs) d) XPiTarget false cu' false None tk tn ta an av q o' k') /\
  otoks o' = rev (bad_errs cs) ++ otoks o.
Proof.
  induction cs as [|c cs IH]; intros b t d cu tk tn ta an av q o k H.
  - exists cu, o, k. rewrite app_nil_r. split; [apply xs_refl|reflexivity].
  - simpl in H. apply andb_true_iff in H. destruct H as [H1 H2].
    destruct (pi_target_char b t d cu tk tn ta an av c (cs ++ q) o k H1) as (o1 & k1 & S1 & T1).
    destruct (IH b (t ++ [c]) d c tk tn ta an av q o1 k1 H2) as (cu2 & o2 & k2 & S2 & T2).
    exists cu2, o2, k2. rewrite <- app_assoc in S2. split; [eapply xsteps_trans; [exact S1|exact S2]|].
    rewrite T2, T1, rev_bad_cons. reflexivity.
Qed.

(* the separating space, then the first data character (or the closing '?') is looked at again in PiData *)
Lemma pi_space : forall b t d cu tk tn ta an av q o k, exists k',
  xsteps (mkM (b_pi b t d) XPiTarget false cu false None tk tn ta an av (32 :: q) o k)
         (mkM (b_pi b t d) XPiTargetAfter false 32 false None tk tn ta an av q o k').
Proof. intros. eexists. one. fin. Qed.

Lemma pi_after_to_data : forall b t d cu tk tn ta an av c q o k,
  pre_ok c = true -> memb c [9; 10; 32] = false -> exists o' k',
  xsteps (mkM (b_pi b t d) XPiTargetAfter false cu false None tk tn ta an av (c :: q) o k)
         (mkM (b_pi b t d) XPiData true c false None tk tn ta an av q o' k') /\
  otoks o' = char_errs c ++ otoks o.
Proof. intros b t d cu tk tn ta an av c q o k H M. okc H. rd. Qed.

(* PiData, current character taken again (reconsume) or read *)
Lemma pi_data_rc : forall b t d tk tn ta an av c q o k, memb c [63] = false -> exists k',
  xsteps (mkM (b_pi b t d) XPiData true c false None tk tn ta an av q o k)
         (mkM (b_pi b t (d ++ [c])) XPiData false c false None tk tn ta an av q o k').
Proof. intros b t d tk tn ta an av c q o k M. eexists. sym. reflexivity. Qed.

Lemma pi_data_char : forall b t d cu tk tn ta an av c q o k, pi_dchar c = true -> exists o' k',
  xsteps (mkM (b_pi b t d) XPiData false cu false None tk tn ta an av (c :: q) o k)
         (mkM (b_pi b t (d ++ [c])) XPiData false c false None tk tn ta an av q o' k') /\
  otoks o' = char_errs c ++ otoks o.
Proof. intros b t d cu tk tn ta an av c q o k H. unfold pi_dchar in H. cls H. rd. Qed.

(* the closing "?>" *)
Lemma pi_close : forall b t d cu tk tn ta an av q o k, exists o' k',
  xsteps (mkM (b_pi b t d) XPiData false cu false None tk tn ta an av (63 :: 62 :: q) o k)
         (mkM (b_pi b [] []) XData false 62 false None tk tn ta an av q o' k') /\
  otoks o' = TPi t d :: otoks o.
Proof. intros. do 2 eexists. split; [one; one; fin|reflexivity]. Qed.
Lemma pi_close_rc : forall b t d tk tn ta an av q o k, exists o' k',
  xsteps (mkM (b_pi b t d) XPiData true 63 false None tk tn ta an av (62 :: q) o k)
         (mkM (b_pi b [] []) XData false 62 false None tk tn ta an av q o' k') /\
  otoks o' = TPi t d :: otoks o.
Proof. intros. do 2 eexists. split; [one; one; fin|reflexivity]. Qed.

(* PiData meets a '?': it is pending in PiAfter, not yet part of the data *)
Lemma pidata_q : forall b t d cu tk tn ta an av q o k, exists k',
  xsteps (mkM (b_pi b t d) XPiData false cu false None tk tn ta an av (63 :: q) o k)
         (mkM (b_pi b t d) XPiAfter false 63 false None tk tn ta an av q o k').
Proof. intros. eexists. one. fin. Qed.
Lemma pidata_q_rc : forall b t d tk tn ta an av q o k, exists k',
  xsteps (mkM (b_pi b t d) XPiData true 63 false None tk tn ta an av q o k)
         (mkM (b_pi b t d) XPiAfter false 63 false None tk tn ta an av q o k').
Proof. intros. eexists. one. fin. Qed.
(* PiAfter: '>' ends the instruction, another '?' makes the pending one data, anything else makes it data and is
   looked at again in PiData *)
Lemma piafter_gt : forall b t d cu tk tn ta an av q o k, exists o' k',
  xsteps (mkM (b_pi b t d) XPiAfter false cu false None tk tn ta an av (62 :: q) o k)
         (mkM (b_pi b [] []) XData false 62 false None tk tn ta an av q o' k') /\
  otoks o' = TPi t d :: otoks o.
Proof. intros. do 2 eexists. split; [one; fin|reflexivity]. Qed.
Lemma piafter_q : forall b t d cu tk tn ta an av q o k, exists k',
  xsteps (mkM (b_pi b t d) XPiAfter false cu false None tk tn ta an av (63 :: q) o k)
         (mkM (b_pi b t (d ++ [63])) XPiAfter false 63 false None tk tn ta an av q o k').
Proof. intros. eexists. oneA. fin. Qed.
Lemma piafter_other : forall b t d cu tk tn ta an av c q o k,
  pre_ok c = true -> (c =? 62) = false -> (c =? 63) = false -> exists o' k',
  xsteps (mkM (b_pi b t d) XPiAfter false cu false None tk tn ta an av (c :: q) o k)
         (mkM (b_pi b t (d ++ [63])) XPiData true c false None tk tn ta an av q o' k') /\
  otoks o' = char_errs c ++ otoks o.
Proof.
  intros b t d cu tk tn ta an av c q o k H E1 E2. okc H. assert (M1 := memb1 _ _ E1). assert (M2 := memb1 _ _ E2). rd.
Qed.

Definition not_gt_first (d : list N) : Prop := match d with x :: _ => (x =? 62) = false | [] => True end.

Lemma no_qgt_q : forall d, no_qgt (63 :: d) = true -> not_gt_first d /\ no_qgt d = true.
Proof.
  intros d H. cbn [no_qgt] in H. apply andb_true_iff in H. destruct H as [H1 H2]. split; [|exact H2].
  destruct d as [|x r]; [exact I|]. simpl. change (63 =? 63) with true in H1. simpl in H1.
  apply negb_true_iff in H1. exact H1.
Qed.

(* the rest of the data, then the closing "?>": from PiData, and from PiAfter with a '?' pending *)
Lemma pi_rest : forall d, forallb pre_ok d = true -> no_qgt d = true ->
  (forall b t D cu tk tn ta an av rest o k, exists o' k',
     xsteps (mkM (b_pi b t D) XPiData false cu false None tk tn ta an av (d ++ 63 :: 62 :: rest) o k)
            (mkM (b_pi b [] []) XData false 62 false None tk tn ta an av rest o' k') /\
     otoks o' = TPi t (D ++ d) :: rev (bad_errs d) ++ otoks o) /\
  (not_gt_first d -> forall b t D cu tk tn ta an av rest o k, exists o' k',
     xsteps (mkM (b_pi b t D) XPiAfter false cu false None tk tn ta an av (d ++ 63 :: 62 :: rest) o k)
            (mkM (b_pi b [] []) XData false 62 false None tk tn ta an av rest o' k') /\
     otoks o' = TPi t (D ++ [63] ++ d) :: rev (bad_errs d) ++ otoks o).
Proof.
  induction d as [|c d IH]; intros OK NQ.
  - split.
    + intros. destruct (pi_close b t D cu tk tn ta an av rest o k) as (o1 & k1 & S1 & T1).
      exists o1, k1. split; [exact S1|]. rewrite T1, app_nil_r. reflexivity.
    + intros _ b t D cu tk tn ta an av rest o k.
      destruct (piafter_q b t D cu tk tn ta an av (62 :: rest) o k) as (k1 & S1).
      destruct (piafter_gt b t (D ++ [63]) 63 tk tn ta an av rest o k1) as (o2 & k2 & S2 & T2).
      exists o2, k2. split; [eapply xsteps_trans; [exact S1|exact S2]|]. rewrite T2. reflexivity.
  - simpl in OK. apply andb_true_iff in OK. destruct OK as [O1 O2].
    destruct (c =? 63) eqn:E63.
    + apply N.eqb_eq in E63. subst c. destruct (no_qgt_q d NQ) as [NG NQ'].
      destruct (IH O2 NQ') as [IHP IHQ]. specialize (IHQ NG).
      split.
      * intros. destruct (pidata_q b t D cu tk tn ta an av (d ++ 63 :: 62 :: rest) o k) as (k1 & S1).
        destruct (IHQ b t D 63 tk tn ta an av rest o k1) as (o2 & k2 & S2 & T2).
        exists o2, k2. split; [eapply xsteps_trans; [exact S1|exact S2]|]. rewrite T2, rev_bad_cons. reflexivity.
      * intros _ b t D cu tk tn ta an av rest o k.
        destruct (piafter_q b t D cu tk tn ta an av (d ++ 63 :: 62 :: rest) o k) as (k1 & S1).
        destruct (IHQ b t (D ++ [63]) 63 tk tn ta an av rest o k1) as (o2 & k2 & S2 & T2).
        exists o2, k2. split; [eapply xsteps_trans; [exact S1|exact S2]|].
        rewrite T2, rev_bad_cons, <- app_assoc. reflexivity.
    + assert (NQ' : no_qgt d = true).
      { cbn [no_qgt] in NQ. apply andb_true_iff in NQ. apply NQ. }
      destruct (IH O2 NQ') as [IHP _].
      assert (DC : pi_dchar c = true).
      { unfold pi_dchar. rewrite O1. unfold memb. simpl. rewrite E63. reflexivity. }
      split.
      * intros. destruct (pi_data_char b t D cu tk tn ta an av c (d ++ 63 :: 62 :: rest) o k DC) as (o1 & k1 & S1 & T1).
        destruct (IHP b t (D ++ [c]) c tk tn ta an av rest o1 k1) as (o2 & k2 & S2 & T2).
        exists o2, k2. split; [eapply xsteps_trans; [exact S1|exact S2]|].
        rewrite T2, T1, rev_bad_cons, <- app_assoc. reflexivity.
      * intros NG b t D cu tk tn ta an av rest o k. simpl in NG.
        destruct (piafter_other b t D cu tk tn ta an av c (d ++ 63 :: 62 :: rest) o k O1 NG E63) as (o1 & k1 & S1 & T1).
        destruct (pi_data_rc b t (D ++ [63]) tk tn ta an av c (d ++ 63 :: 62 :: rest) o1 k1 (memb1 _ _ E63)) as (k2 & S2).
        destruct (IHP b t ((D ++ [63]) ++ [c]) c tk tn ta an av rest o1 k2) as (o3 & k3 & S3 & T3).
        exists o3, k3. split; [eapply xsteps_trans; [exact S1|eapply xsteps_trans; [exact S2|exact S3]]|].
        rewrite T3, T1, rev_bad_cons, <- !app_assoc. reflexivity.
Qed.

(* <?target data?> *)
Theorem pi_lex : forall t d b cu tk tn ta an av rest o k,
  bg_clean b -> pi_target_ok t = true -> pi_data_ok d = true ->
  exists o' k',
    xsteps (mkM b XData false cu false None tk tn ta an av ([60; 63] ++ t ++ [32] ++ d ++ [63; 62] ++ rest) o k)
           (mkM b XData false 62 false None tk tn ta an av rest o' k') /\
    otoks o' = rev (pi_toks t d) ++ otoks o.
Proof.
  intros t d b cu tk tn ta an av rest o k CL TO DO.
  destruct t as [|t0 tr]; [discriminate|]. simpl in TO. apply andb_true_iff in TO. destruct TO as [T1 T2].
  unfold pi_data_ok in DO. apply andb_true_iff in DO. destruct DO as [DO D3].
  apply andb_true_iff in DO. destruct DO as [D1 D2].
  set (Q2 := d ++ [63; 62] ++ rest).
  destruct (data_lt tb TB simd ent c1 sk b cu tk tn ta an av (63 :: t0 :: tr ++ 32 :: Q2) o k) as (k1 & S1).
  destruct (tagstate_qm b 60 tk tn ta an av (t0 :: tr ++ 32 :: Q2) o k1) as (k2 & S2).
  destruct (pi_first_step b 63 tk tn ta an av t0 (tr ++ 32 :: Q2) o k2 T1) as (o3 & k3 & S3 & E3).
  destruct (pi_target_chars tr b [t0] [] t0 tk tn ta an av (32 :: Q2) o3 k3 T2) as (cu4 & o4 & k4 & S4 & E4).
  destruct (pi_space b ([t0] ++ tr) [] cu4 tk tn ta an av Q2 o4 k4) as (k5 & S5).
  change ([60; 63] ++ (t0 :: tr) ++ [32] ++ Q2) with (60 :: 63 :: t0 :: tr ++ 32 :: Q2).
  assert (X : exists o' k', xsteps (mkM (b_pi b ([t0] ++ tr) []) XPiTargetAfter false 32 false None tk tn ta an av Q2 o4 k5)
                                   (mkM (b_pi b [] []) XData false 62 false None tk tn ta an av rest o' k') /\
                            otoks o' = TPi (t0 :: tr) d :: rev (bad_errs d) ++ otoks o4).
  { unfold Q2. destruct d as [|d0 dr].
    - (* no data: the '?' is looked at again in PiData *)
      destruct (pi_after_to_data b ([t0] ++ tr) [] 32 tk tn ta an av 63 (62 :: rest) o4 k5 eq_refl eq_refl) as (o6 & k6 & S6 & E6).
      destruct (pi_close_rc b ([t0] ++ tr) [] tk tn ta an av rest o6 k6) as (o7 & k7 & S7 & T7).
      exists o7, k7. split; [|rewrite T7, E6; reflexivity]. simpl app. eapply xsteps_trans; [exact S6|exact S7].
    - simpl in D1. apply andb_true_iff in D1. destruct D1 as [OK0 D1r]. apply negb_true_iff in D2.
      destruct (pi_after_to_data b ([t0] ++ tr) [] 32 tk tn ta an av d0 (dr ++ [63; 62] ++ rest) o4 k5 OK0 D2) as (o6 & k6 & S6 & E6).
      destruct (d0 =? 63) eqn:E63.
      + (* the data starts with '?' *)
        apply N.eqb_eq in E63. subst d0. destruct (no_qgt_q dr D3) as [NG NQ'].
        destruct (pi_rest dr D1r NQ') as [_ PQ]. specialize (PQ NG).
        destruct (pidata_q_rc b ([t0] ++ tr) [] tk tn ta an av (dr ++ [63; 62] ++ rest) o6 k6) as (k7 & S7).
        destruct (PQ b ([t0] ++ tr) [] 63 tk tn ta an av rest o6 k7) as (o8 & k8 & S8 & T8).
        exists o8, k8. split; [|rewrite T8, E6, rev_bad_cons; reflexivity]. simpl app in *.
        eapply xsteps_trans; [exact S6|]. eapply xsteps_trans; [exact S7|exact S8].
      + assert (NQ' : no_qgt dr = true).
        { cbn [no_qgt] in D3. apply andb_true_iff in D3. apply D3. }
        destruct (pi_rest dr D1r NQ') as [PP _].
        destruct (pi_data_rc b ([t0] ++ tr) [] tk tn ta an av d0 (dr ++ [63; 62] ++ rest) o6 k6 (memb1 _ _ E63)) as (k7 & S7).
        destruct (PP b ([t0] ++ tr) ([] ++ [d0]) d0 tk tn ta an av rest o6 k7) as (o8 & k8 & S8 & T8).
        exists o8, k8. split; [|rewrite T8, E6, rev_bad_cons; reflexivity]. simpl app in *.
        eapply xsteps_trans; [exact S6|]. eapply xsteps_trans; [exact S7|exact S8]. }
  destruct X as (o' & k' & SX & TX). rewrite (b_pi_clean b CL) in SX.
  exists o', k'. split.
  - eapply xsteps_trans; [exact S1|]. eapply xsteps_trans; [exact S2|]. eapply xsteps_trans; [exact S3|].
    eapply xsteps_trans; [exact S4|]. eapply xsteps_trans; [exact S5|exact SX].
  - rewrite TX, E4, E3. unfold pi_toks. rewrite (app_assoc (bad_errs (t0 :: tr))), (rev_app_distr _ [TPi (t0 :: tr) d]).
    cbn [rev app]. rewrite rev_app_distr, <- app_assoc, rev_bad_cons. reflexivity.
Qed.

(* ---------------------------------------------------------------- comments *)
Definition CM (b : bg) (m : cmode) (B : list N) cu tk tn ta an av q o k :=
  mkM (b_com b B) (cm_state m) false cu false None tk tn ta an av q o k.
Definition CMp (b : bg) (x : cmode * list N) cu tk tn ta an av q o k := CM b (fst x) (snd x) cu tk tn ta an av q o k.

(* Comment, the current character looked at again *)
Lemma com_rc : forall b B c tk tn ta an av q o k, exists k',
  xsteps (mkM (b_com b B) XComment true c false None tk tn ta an av q o k)
         (CMp b (cm_row B c) c tk tn ta an av q o k').
Proof.
  intros. unfold cm_row, CMp, CM.
  destruct (c =? 60) eqn:E1; [apply N.eqb_eq in E1; subst c; eexists; one; fin|].
  destruct (c =? 45) eqn:E2; [apply N.eqb_eq in E2; subst c; eexists; one; fin|].
  assert (M1 := memb1 _ _ E1). assert (M2 := memb1 _ _ E2). eexists. sym. reflexivity.
Qed.
(* CommentEndDash, the current character looked at again *)
Lemma enddash_rc : forall b B c tk tn ta an av q o k, exists k',
  xsteps (mkM (b_com b B) XCommentEndDash true c false None tk tn ta an av q o k)
         (CMp b (cm_rowD B c) c tk tn ta an av q o k').
Proof.
  intros. unfold cm_rowD.
  destruct (c =? 45) eqn:E1; [apply N.eqb_eq in E1; subst c; eexists; unfold CMp, CM; cbn [fst snd cm_state]; one; fin|].
  assert (M1 := memb1 _ _ E1).
  assert (F : exists k1, xsteps (mkM (b_com b B) XCommentEndDash true c false None tk tn ta an av q o k)
                               (mkM (b_com b (B ++ [45])) XComment true c false None tk tn ta an av q o k1)).
  { eexists. sym. reflexivity. }
  destruct F as (k1 & S1). destruct (com_rc b (B ++ [45]) c tk tn ta an av q o k1) as (k2 & S2).
  eexists. eapply xsteps_trans; [exact S1|exact S2].
Qed.
(* CommentEnd, the current character looked at again *)
Lemma end_rc : forall b B c x tk tn ta an av q o k, cm_rowE B c = Some x -> exists k',
  xsteps (mkM (b_com b B) XCommentEnd true c false None tk tn ta an av q o k)
         (CMp b x c tk tn ta an av q o k').
Proof.
  intros b B c x tk tn ta an av q o k H. unfold cm_rowE in H.
  destruct (c =? 62) eqn:E0; [discriminate|].
  destruct (c =? 33) eqn:E1; [apply N.eqb_eq in E1; subst c; injection H as <-; eexists; unfold CMp, CM; cbn [fst snd cm_state]; one; fin|].
  destruct (c =? 45) eqn:E2; [apply N.eqb_eq in E2; subst c; injection H as <-; eexists; unfold CMp, CM; cbn [fst snd cm_state]; one; fin|].
  injection H as <-.
  assert (M0 := memb1 _ _ E0). assert (M1 := memb1 _ _ E1). assert (M2 := memb1 _ _ E2).
  assert (F : exists k1, xsteps (mkM (b_com b B) XCommentEnd true c false None tk tn ta an av q o k)
                               (mkM (b_com b (B ++ [45; 45])) XComment true c false None tk tn ta an av q o k1)).
  { eexists. sym. reflexivity. }
  destruct F as (k1 & S1). destruct (com_rc b (B ++ [45; 45]) c tk tn ta an av q o k1) as (k2 & S2).
  eexists. eapply xsteps_trans; [exact S1|exact S2].
Qed.

Lemma com_read : forall b B cu c tk tn ta an av q o k, pre_ok c = true -> exists o' k',
  xsteps (mkM (b_com b B) XComment false cu false None tk tn ta an av (c :: q) o k)
         (CMp b (cm_row B c) c tk tn ta an av q o' k') /\
  otoks o' = char_errs c ++ otoks o.
Proof.
  intros b B cu c tk tn ta an av q o k OK. unfold cm_row, CMp, CM.
  destruct (c =? 60) eqn:E1; [apply N.eqb_eq in E1; subst c; do 2 eexists; split; [one; fin|reflexivity]|].
  destruct (c =? 45) eqn:E2; [apply N.eqb_eq in E2; subst c; do 2 eexists; split; [one; fin|reflexivity]|].
  assert (M1 := memb1 _ _ E1). assert (M2 := memb1 _ _ E2). okc OK. cbn [fst snd cm_state]. rd.
Qed.

(* a step that reads c and hands it on (reconsume) to the state s2 with the buffer B2 *)
Ltac hand m B B2 s2 e :=
  match goal with |- exists o' k', xsteps (CM ?b _ _ ?cu ?tk ?tn ?ta ?an ?av (?c :: ?q) ?o ?k) _ /\ _ =>
    assert (F : exists o1 k1, xsteps (CM b m B cu tk tn ta an av (c :: q) o k)
                                     (mkM (b_com b B2) s2 true c false None tk tn ta an av q o1 k1) /\
                              otoks o1 = (if e then [TError] else []) ++ char_errs c ++ otoks o)
      by (unfold CM; cbn [cm_state]; rd)
  end.

Lemma cm_step : forall m B c b cu tk tn ta an av q o k m' B' e,
  cm_next m B c = Some (m', B', e) -> pre_ok c = true -> exists o' k',
  xsteps (CM b m B cu tk tn ta an av (c :: q) o k) (CM b m' B' c tk tn ta an av q o' k') /\
  otoks o' = (if e then [TError] else []) ++ char_errs c ++ otoks o.
Proof.
  intros m B c b cu tk tn ta an av q o k m' B' e H OK. assert (OK' := OK). okc OK'.
  destruct m; unfold cm_next in H.
  - (* CommentStart *)
    destruct (c =? 45) eqn:E1.
    { apply N.eqb_eq in E1; subst c. injection H as <- <- <-. do 2 eexists. unfold CM. cbn [cm_state]. split; [one; fin|reflexivity]. }
    destruct (c =? 62) eqn:E2; [discriminate|]. injection H as H <-.
    assert (M1 := memb1 _ _ E1). assert (M2 := memb1 _ _ E2).
    hand MS B B XComment false. destruct F as (o1 & k1 & S1 & T1).
    destruct (com_rc b B c tk tn ta an av q o1 k1) as (k2 & S2). rewrite H in S2.
    exists o1, k2. split; [eapply xsteps_trans; [exact S1|exact S2]|exact T1].
  - (* CommentStartDash *)
    destruct (c =? 45) eqn:E1.
    { apply N.eqb_eq in E1; subst c. injection H as <- <- <-. do 2 eexists. unfold CM. cbn [cm_state]. split; [one; fin|reflexivity]. }
    destruct (c =? 62) eqn:E2; [discriminate|]. injection H as H <-.
    assert (M1 := memb1 _ _ E1). assert (M2 := memb1 _ _ E2).
    hand MSD B (B ++ [45]) XComment false. destruct F as (o1 & k1 & S1 & T1).
    destruct (com_rc b (B ++ [45]) c tk tn ta an av q o1 k1) as (k2 & S2). rewrite H in S2.
    exists o1, k2. split; [eapply xsteps_trans; [exact S1|exact S2]|exact T1].
  - (* Comment *)
    injection H as H <-. destruct (com_read b B cu c tk tn ta an av q o k OK) as (o2 & k2 & S2 & T2).
    rewrite H in S2. exists o2, k2. split; [exact S2|exact T2].
  - (* CommentEndDash *)
    injection H as H <-. unfold cm_rowD in H. destruct (c =? 45) eqn:E1.
    { apply N.eqb_eq in E1; subst c. injection H as <- <-. do 2 eexists. unfold CM. cbn [cm_state]. split; [one; fin|reflexivity]. }
    assert (M1 := memb1 _ _ E1).
    hand MD B (B ++ [45]) XComment false. destruct F as (o1 & k1 & S1 & T1).
    destruct (com_rc b (B ++ [45]) c tk tn ta an av q o1 k1) as (k2 & S2). rewrite H in S2.
    exists o1, k2. split; [eapply xsteps_trans; [exact S1|exact S2]|exact T1].
  - (* CommentEnd *)
    destruct (cm_rowE B c) as [x|] eqn:RE; [|discriminate]. injection H as H <-. unfold cm_rowE in RE.
    destruct (c =? 62) eqn:E0; [discriminate|].
    destruct (c =? 33) eqn:E1.
    { apply N.eqb_eq in E1; subst c. injection RE as <-. injection H as <- <-. do 2 eexists. unfold CM. cbn [cm_state]. split; [one; fin|reflexivity]. }
    destruct (c =? 45) eqn:E2.
    { apply N.eqb_eq in E2; subst c. injection RE as <-. injection H as <- <-. do 2 eexists. unfold CM. cbn [cm_state]. split; [one; fin|reflexivity]. }
    injection RE as <-.
    assert (M0 := memb1 _ _ E0). assert (M1 := memb1 _ _ E1). assert (M2 := memb1 _ _ E2).
    hand ME B (B ++ [45; 45]) XComment false. destruct F as (o1 & k1 & S1 & T1).
    destruct (com_rc b (B ++ [45; 45]) c tk tn ta an av q o1 k1) as (k2 & S2). rewrite H in S2.
    exists o1, k2. split; [eapply xsteps_trans; [exact S1|exact S2]|exact T1].
  - (* CommentEndBang *)
    destruct (c =? 45) eqn:E1.
    { apply N.eqb_eq in E1; subst c. injection H as <- <- <-. do 2 eexists. unfold CM. cbn [cm_state]. split; [one; fin|reflexivity]. }
    destruct (c =? 62) eqn:E2; [discriminate|]. injection H as H <-.
    assert (M1 := memb1 _ _ E1). assert (M2 := memb1 _ _ E2).
    hand MEB B (B ++ [45; 45; 33]) XComment false. destruct F as (o1 & k1 & S1 & T1).
    destruct (com_rc b (B ++ [45; 45; 33]) c tk tn ta an av q o1 k1) as (k2 & S2). rewrite H in S2.
    exists o1, k2. split; [eapply xsteps_trans; [exact S1|exact S2]|exact T1].
  - (* CommentLessThan *)
    destruct (c =? 33) eqn:E1.
    { apply N.eqb_eq in E1; subst c. injection H as <- <- <-. do 2 eexists. unfold CM. cbn [cm_state]. split; [one; fin|reflexivity]. }
    injection H as H <-. destruct (c =? 60) eqn:E2.
    { apply N.eqb_eq in E2; subst c. injection H as <- <-. do 2 eexists. unfold CM. cbn [cm_state]. split; [one; fin|reflexivity]. }
    assert (M1 := memb1 _ _ E1). assert (M2 := memb1 _ _ E2).
    hand ML B B XComment false. destruct F as (o1 & k1 & S1 & T1).
    destruct (com_rc b B c tk tn ta an av q o1 k1) as (k2 & S2). rewrite H in S2.
    exists o1, k2. split; [eapply xsteps_trans; [exact S1|exact S2]|exact T1].
  - (* CommentLessThanBang *)
    destruct (c =? 45) eqn:E1.
    { apply N.eqb_eq in E1; subst c. injection H as <- <- <-. do 2 eexists. unfold CM. cbn [cm_state]. split; [one; fin|reflexivity]. }
    injection H as H <-. assert (M1 := memb1 _ _ E1).
    hand MB B B XComment false. destruct F as (o1 & k1 & S1 & T1).
    destruct (com_rc b B c tk tn ta an av q o1 k1) as (k2 & S2). rewrite H in S2.
    exists o1, k2. split; [eapply xsteps_trans; [exact S1|exact S2]|exact T1].
  - (* CommentLessThanBangDash *)
    destruct (c =? 45) eqn:E1.
    { apply N.eqb_eq in E1; subst c. injection H as <- <- <-. do 2 eexists. unfold CM. cbn [cm_state]. split; [one; fin|reflexivity]. }
    injection H as H <-. assert (M1 := memb1 _ _ E1).
    hand MBD B B XCommentEndDash false. destruct F as (o1 & k1 & S1 & T1).
    destruct (enddash_rc b B c tk tn ta an av q o1 k1) as (k2 & S2). unfold cm_rowD in S2. rewrite E1, H in S2.
    exists o1, k2. split; [eapply xsteps_trans; [exact S1|exact S2]|exact T1].
  - (* CommentLessThanBangDashDash *)
    destruct (cm_rowE B c) as [x|] eqn:RE; [|discriminate]. injection H as H <-.
    assert (E0 : (c =? 62) = false) by (unfold cm_rowE in RE; destruct (c =? 62); [discriminate|reflexivity]).
    assert (M0 := memb1 _ _ E0).
    hand MBDD B B XCommentEnd true. destruct F as (o1 & k1 & S1 & T1).
    destruct (end_rc b B c x tk tn ta an av q o1 k1 RE) as (k2 & S2). rewrite H in S2.
    exists o1, k2. split; [eapply xsteps_trans; [exact S1|exact S2]|exact T1].
Qed.

(* the closing "-->" from every mode *)
Lemma cm_close : forall m B b cu tk tn ta an av q o k, exists o' k',
  xsteps (CM b m B cu tk tn ta an av (45 :: 45 :: 62 :: q) o k)
         (mkM (b_com b []) XData false 62 false None tk tn ta an av q o' k') /\
  otoks o' = TComment (cm_content m B) :: cm_close_errs m ++ otoks o.
Proof.
  intros. unfold CM, cm_content. destruct m; cbn [cm_state cm_pending cm_close_errs]; do 2 eexists.
  - split; [oneA; oneA; oneA; fin|cbn [otoks map fst app]; rewrite ?app_nil_r, <- ?app_assoc; reflexivity].
  - split; [oneA; oneA; oneA; fin|cbn [otoks map fst app]; rewrite ?app_nil_r, <- ?app_assoc; reflexivity].
  - split; [oneA; oneA; oneA; fin|cbn [otoks map fst app]; rewrite ?app_nil_r, <- ?app_assoc; reflexivity].
  - split; [oneA; oneA; oneA; fin|cbn [otoks map fst app]; rewrite ?app_nil_r, <- ?app_assoc; reflexivity].
  - split; [oneA; oneA; oneA; fin|cbn [otoks map fst app]; rewrite ?app_nil_r, <- ?app_assoc; reflexivity].
  - split; [oneA; oneA; oneA; fin|cbn [otoks map fst app]; rewrite ?app_nil_r, <- ?app_assoc; reflexivity].
  - split; [oneA; oneA; oneA; oneA; fin|cbn [otoks map fst app]; rewrite ?app_nil_r, <- ?app_assoc; reflexivity].
  - split; [oneA; oneA; oneA; oneA; fin|cbn [otoks map fst app]; rewrite ?app_nil_r, <- ?app_assoc; reflexivity].
  - split; [oneA; oneA; oneA; oneA; fin|cbn [otoks map fst app]; rewrite ?app_nil_r, <- ?app_assoc; reflexivity].
  - split; [oneA; oneA; oneA; oneA; fin|cbn [otoks map fst app]; rewrite ?app_nil_r, <- ?app_assoc; reflexivity].
Qed.

Lemma cm_all : forall s m B b cu tk tn ta an av q o k m' B',
  cm_run m B s = Some (m', B') -> forallb pre_ok s = true -> exists o' k',
  xsteps (CM b m B cu tk tn ta an av (s ++ 45 :: 45 :: 62 :: q) o k)
         (mkM (b_com b []) XData false 62 false None tk tn ta an av q o' k') /\
  otoks o' = TComment (cm_content m' B') :: rev (cm_errs m B s) ++ otoks o.
Proof.
  induction s as [|c s IH]; intros m B b cu tk tn ta an av q o k m' B' H OK; simpl in H.
  - injection H as <- <-. destruct (cm_close m B b cu tk tn ta an av q o k) as (o1 & k1 & S1 & T1).
    exists o1, k1. split; [exact S1|]. rewrite T1. cbn [cm_errs]. destruct m; reflexivity.
  - simpl in OK. apply andb_true_iff in OK. destruct OK as [O1 O2].
    destruct (cm_next m B c) as [[[m1 B1] e]|] eqn:E; [|discriminate].
    destruct (cm_step m B c b cu tk tn ta an av (s ++ 45 :: 45 :: 62 :: q) o k m1 B1 e E O1) as (o1 & k1 & S1 & T1).
    destruct (IH m1 B1 b c tk tn ta an av q o1 k1 m' B' H O2) as (o2 & k2 & S2 & T2).
    exists o2, k2. split; [eapply xsteps_trans; [exact S1|exact S2]|].
    rewrite T2, T1. cbn [cm_errs]. rewrite E, rev_errs1. reflexivity.
Qed.

(* <! then "--": the comment buffer is cleared and the tokenizer is in CommentStart *)
Lemma comment_open : forall b cu tk tn ta an av q o k, b_temp b = [] -> exists k',
  xsteps (mkM b XData false cu false None tk tn ta an av (60 :: 33 :: 45 :: 45 :: q) o k)
         (CM b MS [] 33 tk tn ta an av q o k').
Proof.
  intros b cu tk tn ta an av q o k T. destruct b; simpl in T; subst. eexists. unfold CM. cbn [cm_state]. one. one. one. fin.
Qed.

(* <!--text--> *)
Theorem comment_lex : forall s b cu tk tn ta an av rest o k,
  bg_clean b -> comment_ok s = true -> exists o' k',
    xsteps (mkM b XData false cu false None tk tn ta an av ([60; 33; 45; 45] ++ s ++ [45; 45; 62] ++ rest) o k)
           (mkM b XData false 62 false None tk tn ta an av rest o' k') /\
    otoks o' = rev (comment_toks s) ++ otoks o.
Proof.
  intros s b cu tk tn ta an av rest o k CL OK. unfold comment_ok in OK. apply andb_true_iff in OK. destruct OK as [O1 O2].
  destruct (cm_run MS [] s) as [[m B]|] eqn:R; [|discriminate].
  destruct (comment_open b cu tk tn ta an av (s ++ [45; 45; 62] ++ rest) o k (proj1 CL)) as (k1 & S1).
  destruct (cm_all s MS [] b 33 tk tn ta an av rest o k1 m B R O1) as (o3 & k3 & S3 & T3).
  rewrite (b_com_clean b CL) in S3. rewrite (cm_run_content _ _ _ _ _ R) in T3.
  exists o3, k3. split; [eapply xsteps_trans; [exact S1|exact S3]|].
  rewrite T3. unfold comment_toks. rewrite rev_app_distr. reflexivity.
Qed.

(* ---------------------------------------------------------------- the doctype *)
Lemma doctype_open : forall b cu tk tn ta an av q o k, b_temp b = [] -> exists k',
  xsteps (mkM b XData false cu false None tk tn ta an av ([60; 33; 68; 79; 67; 84; 89; 80; 69; 32] ++ q) o k)
         (mkM b XBeforeDoctypeName false 32 false None tk tn ta an av q o k').
Proof.
  intros b cu tk tn ta an av q o k T. destruct b; simpl in T; subst. eexists. one. one. one. one. fin.
Qed.

Ltac clean_b b CL := destruct b; destruct CL as (C1 & C2 & C3 & C4 & C5 & C6 & C7 & C8);
  cbn [XLexBase.b_temp XLexBase.b_comment XLexBase.b_dn XLexBase.b_dp XLexBase.b_ds XLexBase.b_dq XLexBase.b_pt XLexBase.b_pd] in *; subst.

Lemma dn_first : forall b cu tk tn ta an av c q o k, bg_clean b -> dn_char c = true -> exists o' k',
  xsteps (mkM b XBeforeDoctypeName false cu false None tk tn ta an av (c :: q) o k)
         (mkM (b_dt b (Some [c])) XDoctypeName false c false None tk tn ta an av q o' k') /\
  otoks o' = char_errs c ++ otoks o.
Proof.
  intros b cu tk tn ta an av c q o k CL H. unfold dn_char in H. cls H. clean_b b CL. rd.
Qed.

Lemma dn_char_step : forall b n cu tk tn ta an av c q o k, dn_char c = true -> exists o' k',
  xsteps (mkM (b_dt b (Some n)) XDoctypeName false cu false None tk tn ta an av (c :: q) o k)
         (mkM (b_dt b (Some (n ++ [c]))) XDoctypeName false c false None tk tn ta an av q o' k') /\
  otoks o' = char_errs c ++ otoks o.
Proof. intros b n cu tk tn ta an av c q o k H. unfold dn_char in H. cls H. rd. Qed.

Lemma dn_chars : forall cs b n cu tk tn ta an av q o k, forallb dn_char cs = true -> exists cu' o' k',
  xsteps (mkM (b_dt b (Some n)) XDoctypeName false cu false None tk tn ta an av (cs ++ q) o k)
         (mkM (b_dt b (Some (n ++ cs))) XDoctypeName false cu' false None tk tn ta an av q o' k') /\
  otoks o' = rev (bad_errs cs) ++ otoks o.
Proof.
  induction cs as [|c cs IH]; intros b n cu tk tn ta an av q o k H.
  - exists cu, o, k. rewrite app_nil_r. split; [apply xs_refl|reflexivity].
  - simpl in H. apply andb_true_iff in H. destruct H as [H1 H2].
    destruct (dn_char_step b n cu tk tn ta an av c (cs ++ q) o k H1) as (o1 & k1 & S1 & T1).
    destruct (IH b (n ++ [c]) c tk tn ta an av q o1 k1 H2) as (cu2 & o2 & k2 & S2 & T2).
    exists cu2, o2, k2. rewrite <- app_assoc in S2. split; [eapply xsteps_trans; [exact S1|exact S2]|].
    rewrite T2, T1, rev_bad_cons. reflexivity.
Qed.

Lemma dn_close : forall b n cu tk tn ta an av q o k, bg_clean b -> exists o' k',
  xsteps (mkM (b_dt b (Some n)) XDoctypeName false cu false None tk tn ta an av (62 :: q) o k)
         (mkM b XData false 62 false None tk tn ta an av q o' k') /\
  otoks o' = TDoctype (Some n) None None false :: otoks o.
Proof.
  intros b n cu tk tn ta an av q o k CL. clean_b b CL.
  do 2 eexists. split; [one; fin|reflexivity].
Qed.

Lemma dn_empty : forall b cu tk tn ta an av q o k, bg_clean b -> exists o' k',
  xsteps (mkM b XBeforeDoctypeName false cu false None tk tn ta an av (62 :: q) o k)
         (mkM b XData false 62 false None tk tn ta an av q o' k') /\
  otoks o' = TDoctype None None None false :: TError :: otoks o.
Proof.
  intros b cu tk tn ta an av q o k CL. clean_b b CL.
  do 2 eexists. split; [one; fin|reflexivity].
Qed.

(* <!DOCTYPE name> *)
Theorem doctype_lex : forall n b cu tk tn ta an av rest o k,
  bg_clean b -> doctype_name_ok n = true -> exists o' k',
    xsteps (mkM b XData false cu false None tk tn ta an av ([60; 33; 68; 79; 67; 84; 89; 80; 69; 32] ++ n ++ [62] ++ rest) o k)
           (mkM b XData false 62 false None tk tn ta an av rest o' k') /\
    otoks o' = rev (doctype_toks n) ++ otoks o.
Proof.
  intros n b cu tk tn ta an av rest o k CL OK. destruct n as [|n0 nr].
  { destruct (doctype_open b cu tk tn ta an av ([] ++ [62] ++ rest) o k (proj1 CL)) as (k1 & S1).
    destruct (dn_empty b 32 tk tn ta an av rest o k1 CL) as (o2 & k2 & S2 & T2).
    exists o2, k2. split; [eapply xsteps_trans; [exact S1|exact S2]|exact T2]. }
  unfold doctype_name_ok in OK. simpl in OK. apply andb_true_iff in OK. destruct OK as [O1 O2].
  destruct (doctype_open b cu tk tn ta an av ((n0 :: nr) ++ [62] ++ rest) o k (proj1 CL)) as (k1 & S1).
  destruct (dn_first b 32 tk tn ta an av n0 (nr ++ [62] ++ rest) o k1 CL O1) as (o2 & k2 & S2 & T2).
  destruct (dn_chars nr b [n0] n0 tk tn ta an av ([62] ++ rest) o2 k2 O2) as (cu3 & o3 & k3 & S3 & T3).
  destruct (dn_close b ([n0] ++ nr) cu3 tk tn ta an av rest o3 k3 CL) as (o4 & k4 & S4 & T4).
  exists o4, k4. split.
  - eapply xsteps_trans; [exact S1|]. eapply xsteps_trans; [exact S2|]. eapply xsteps_trans; [exact S3|exact S4].
  - rewrite T4, T3, T2. unfold doctype_toks. rewrite rev_app_distr. cbn [rev app]. rewrite rev_bad_cons. reflexivity.
Qed.

End L.
