(* C17: serializer model, TokIR interpreter (reference semantics), tree builder model: the tree comes back.
   Hypotheses on the tree only. *)
From Coq Require Import List NArith Bool Lia.
From HV Require Import TokIR.IR TokIR.Interp XmlNs.XLexBase XmlNs.XLex XmlNs.XLexTag XmlNs.XLexMisc XmlNs.XLexSer XmlNs.XLexDoc XmlNs.XLexTree XmlNs.XLexHyps.
From HV Require XmlNs.XTreeModel XmlNs.XSerModel XmlNs.XSerSpec XmlNs.XRoundTrip.
Import ListNotations.
Local Open Scope N_scope.

Lemma ok2_ok : forall items, forallb item_ok2 items = true -> forallb item_ok items = true.
Proof.
  induction items as [|i r IH]; simpl; auto. intro H. apply andb_true_iff in H. destruct H as [H1 H2].
  unfold item_ok2 in H1. apply andb_true_iff in H1. destruct H1 as [H1 _]. rewrite H1, IH; auto.
Qed.

Section L.
Variable tb : table xstate.
Hypothesis TB : xml_bodies tb.
Hypothesis TM' : xml_misc_bodies tb.
Variable simd : list N * list N * list N.
Variable ent : list N -> option (N * N).
Variable c1 : N -> option N.
Variable sk : sinkcfg.
Hypothesis E5 : ent_five ent.
Hypothesis NoScript : sk_resp sk = [].

(* (ii) for a document of the round-trip shape whose names, texts, comments and processing instructions
   satisfy the lexing conditions, the driver delivers the tokens of the items *)
Theorem doc_tokens : forall kids bom,
  XRoundTrip.rt_hyps kids = true -> lex_hyps kids = true ->
  exists n, forall f, exists m',
    xdrive tb simd ent c1 sk (n + S f)%nat [] [SM.serialize kids] (init_m bom) [] = (m', [SSuspend; SSuspend]) /\
    rev (otoks (mout m')) = flat_map lex_item (SM.ser_doc kids) ++ [TEof].
Proof.
  intros kids bom RT LX. destruct (doc_items kids RT LX) as (A & B & C).
  destruct (doc_lex tb TB TM' simd ent c1 sk E5 NoScript (SM.ser_doc kids) bom C (ok2_ok _ A) B) as [n H].
  exists n. intro f. destruct (H f) as (m' & D & T). exists m'. split; [exact D|].
  rewrite T. simpl. rewrite rev_involutive. reflexivity.
Qed.

(* (iii) ... and the tree builder model, fed those tokens, rebuilds the tree *)
Theorem roundtrip_through_tokenizer : forall kids bom,
  XRoundTrip.rt_hyps kids = true -> lex_hyps kids = true ->
  exists n, forall f, exists m',
    xdrive tb simd ent c1 sk (n + S f)%nat [] [SM.serialize kids] (init_m bom) [] = (m', [SSuspend; SSuspend]) /\
    map TM.erase (TM.parse_tokens (conv_toks (rev (otoks (mout m'))))) = map XRoundTrip.strip_ids kids.
Proof.
  intros kids bom RT LX. destruct (doc_items kids RT LX) as (A & _ & _).
  destruct (doc_tokens kids bom RT LX) as [n H]. exists n. intro f. destruct (H f) as (m' & D & T).
  exists m'. split; [exact D|]. rewrite T, (lexed_tree _ A).
  exact (XRoundTrip.roundtrip_tokens_decidable kids RT).
Qed.
End L.

(* non-vacuity: the example document of XRoundTrip satisfies the lexing conditions as well *)
Lemma ex_doc2_lex_hyps : lex_hyps XRoundTrip.ex_doc2 = true.
Proof. vm_compute. reflexivity. Qed.
