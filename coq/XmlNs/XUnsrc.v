(* The XML tree builder model never reads the ghost source of a tag token (the raw name and attribute
   list kept for the C16 specification): erasing it commutes with every step. *)
From Coq Require Import List NArith Bool.
From HV Require Import XmlNs.XTreeModel.
Import ListNotations.
Local Open Scope N_scope.

Definition nosrc : tagsrc := ([], []).

Fixpoint unsrc_b (n : bnode) : bnode :=
  match n with
  | BElem name attrs _ kids => BElem name attrs nosrc (map unsrc_b kids)
  | x => x
  end.
Definition unsrc_f (f : frame) : frame := mkf (fname f) (fattrs f) nosrc (map unsrc_b (fkids f)).
Definition unsrc_s (s : tb) : tb :=
  mktb (tphase s) (map unsrc_f (topen s)) (tnss s) (tcur s) (map unsrc_b (tdoc s)) (map unsrc_b (tpost s))
       (terrs s) (tpanic s).
(* ... nor does it tell an absent doctype name or identifier from an empty one *)
Definition unsrc_tok (t : token) : token :=
  match t with
  | TTag k name attrs _ => TTag k name attrs nosrc
  | TDoctype n p s => TDoctype (Some (ostr n)) (Some (ostr p)) (Some (ostr s))
  | x => x
  end.

Lemma erase_unsrc : forall n, erase (unsrc_b n) = erase n.
Proof.
  fix IH 1. intros [name attrs src kids| | | |]; simpl; auto. f_equal.
  induction kids as [|k r IHr]; simpl; auto. rewrite IH, IHr. reflexivity.
Qed.
Lemma map_erase_unsrc : forall l, map erase (map unsrc_b l) = map erase l.
Proof. induction l as [|n l IH]; simpl; auto. rewrite erase_unsrc, IH. reflexivity. Qed.

Lemma un_declare_all : forall attrs s, unsrc_s (declare_all s attrs) = declare_all (unsrc_s s) attrs.
Proof.
  induction attrs as [|a r IH]; intro s; simpl; auto.
  destruct (is_xmlns_attr (aname a)); auto.
  destruct (insert_ns (tcur s) a); rewrite IH; reflexivity.
Qed.

Lemma un_bind_qname : forall s q, bind_qname (unsrc_s s) q = bind_qname s q.
Proof. reflexivity. Qed.

Lemma un_bind_attrs : forall attrs s present,
  bind_attrs (unsrc_s s) present attrs =
  (unsrc_s (fst (bind_attrs s present attrs)), snd (bind_attrs s present attrs)).
Proof.
  induction attrs as [|a r IH]; intros s present; simpl; auto.
  destruct (is_xmlns_attr (aname a)); auto.
  destruct (qprefix (aname a)).
  - rewrite un_bind_qname. destruct (bind_qname s (aname a)) as [q err].
    assert (E : (if err then add_err (unsrc_s s) else unsrc_s s) = unsrc_s (if err then add_err s else s))
      by (destruct err; reflexivity).
    rewrite E. destruct (existsb _ present); [apply IH|].
    rewrite IH. destruct (bind_attrs (if err then add_err s else s) _ r). reflexivity.
  - rewrite IH. destruct (bind_attrs s present r). reflexivity.
Qed.

Lemma un_process_namespaces : forall s k name attrs,
  process_namespaces (unsrc_s s) k name attrs =
  (unsrc_s (fst (fst (process_namespaces s k name attrs))),
   snd (fst (process_namespaces s k name attrs)), snd (process_namespaces s k name attrs)).
Proof.
  intros s k name attrs. unfold process_namespaces.
  rewrite <- un_declare_all, un_bind_attrs.
  destruct (bind_attrs (declare_all s attrs) [] attrs) as [s2 out]. cbn [fst snd].
  rewrite un_bind_qname. destruct (bind_qname s2 name) as [nm err].
  destruct err; destruct (kind_eqb k StartTag || kind_eqb k EmptyTag && str_eqb (qlocal nm) s_script); reflexivity.
Qed.

Lemma un_append_text_to : forall k t, map unsrc_b (append_text_to k t) = append_text_to (map unsrc_b k) t.
Proof. intros [|[] r] t; reflexivity. Qed.

Lemma un_append_cur : forall s n, unsrc_s (append_cur s n) = append_cur (unsrc_s s) (unsrc_b n).
Proof. intros s n. unfold append_cur. simpl. destruct (topen s); reflexivity. Qed.

Lemma un_append_text_cur : forall s t, unsrc_s (append_text_cur s t) = append_text_cur (unsrc_s s) t.
Proof.
  intros s t. unfold append_text_cur. simpl. destruct (topen s) as [|f r]; [reflexivity|].
  unfold unsrc_s. simpl. unfold unsrc_f at 1. simpl. rewrite un_append_text_to. reflexivity.
Qed.

Lemma is_nil_map : forall A B (f : A -> B) l, is_nil (map f l) = is_nil l.
Proof. intros A B f [|x l]; reflexivity. Qed.

Lemma un_append_doc : forall s n, unsrc_s (append_doc s n) = append_doc (unsrc_s s) (unsrc_b n).
Proof. intros s n. unfold append_doc. simpl. rewrite is_nil_map. destruct (is_nil (topen s)); reflexivity. Qed.

Lemma un_close_frame : forall f, unsrc_b (close_frame f) = close_frame (unsrc_f f).
Proof. intro f. unfold close_frame. simpl. rewrite map_rev. reflexivity. Qed.

Lemma un_detach_top : forall s, unsrc_s (detach_top s) = detach_top (unsrc_s s).
Proof.
  intro s. unfold detach_top. simpl. destruct (topen s) as [|f [|g r]]; simpl; try reflexivity.
  - unfold unsrc_s. simpl. rewrite map_rev. reflexivity.
  - unfold unsrc_s. simpl. unfold unsrc_f at 1. simpl. rewrite map_rev. reflexivity.
Qed.

Lemma un_pop : forall s, unsrc_s (pop s) = pop (unsrc_s s).
Proof. intro s. unfold pop. rewrite un_detach_top. reflexivity. Qed.

Lemma un_pop_through : forall fuel s name, unsrc_s (pop_through fuel s name) = pop_through fuel (unsrc_s s) name.
Proof.
  induction fuel as [|n IH]; intros s name; simpl; auto.
  destruct (topen s) as [|f r] eqn:O; simpl; [reflexivity|].
  destruct (expanded_eqb (fname f) name); [apply un_pop|]. rewrite IH, un_pop. reflexivity.
Qed.

Lemma existsb_unsrc : forall name l,
  existsb (fun g => expanded_eqb (fname g) name) (map unsrc_f l) = existsb (fun g => expanded_eqb (fname g) name) l.
Proof. induction l as [|f l IH]; simpl; auto. rewrite IH. reflexivity. Qed.

Lemma un_close_tag : forall s name, unsrc_s (close_tag s name) = close_tag (unsrc_s s) name.
Proof.
  intros s name. unfold close_tag. simpl. destruct (topen s) as [|f r] eqn:O; simpl; [reflexivity|].
  assert (E : (if str_eqb (qlocal (fname f)) (qlocal name) then unsrc_s s else add_err (unsrc_s s)) =
              unsrc_s (if str_eqb (qlocal (fname f)) (qlocal name) then s else add_err s))
    by (destruct (str_eqb _ _); reflexivity).
  rewrite E. set (s1 := if str_eqb (qlocal (fname f)) (qlocal name) then s else add_err s).
  simpl. rewrite existsb_unsrc. rewrite map_length.
  destruct (existsb _ (topen s1)); [rewrite un_pop_through|]; reflexivity.
Qed.

Lemma un_push_elem : forall s n a src, unsrc_s (push_elem s n a src) = push_elem (unsrc_s s) n a nosrc.
Proof. reflexivity. Qed.

Lemma un_end_if_empty : forall s, unsrc_s (end_if_empty s) = end_if_empty (unsrc_s s).
Proof. intro s. unfold end_if_empty. simpl. rewrite is_nil_map. destruct (is_nil (topen s)); reflexivity. Qed.

Lemma existsb_doctype_unsrc : forall l, existsb is_doctype (map unsrc_b l) = existsb is_doctype l.
Proof. induction l as [|[] l IH]; simpl; auto. Qed.

(* erasing the ghost commutes with the step function *)
Theorem un_step : forall s t, unsrc_s (step s t) = step (unsrc_s s) (unsrc_tok t).
Proof.
  intros s t. unfold step. change (tphase (unsrc_s s)) with (tphase s). destruct (tphase s).
  - destruct t as [k name attrs src|c|c|tg d|n p sy| |]; try reflexivity.
    + destruct k; try reflexivity; cbn [unsrc_tok]; rewrite un_process_namespaces;
        destruct (process_namespaces s _ name attrs) as [[s1 n1] a1]; reflexivity.
    + cbn [unsrc_tok]. destruct (ws_only c); reflexivity.
    + cbn [unsrc_tok]. apply un_append_doc.
    + cbn [unsrc_tok]. apply un_append_doc.
    + cbn [unsrc_tok]. change (tdoc (unsrc_s s)) with (map unsrc_b (tdoc s)). rewrite existsb_doctype_unsrc.
      destruct (existsb is_doctype (tdoc s)); [reflexivity|apply un_append_doc].
  - destruct t as [k name attrs src|c|c|tg d|n p sy| |]; try reflexivity; cbn [unsrc_tok].
    + destruct k.
      * rewrite un_process_namespaces. destruct (process_namespaces s StartTag name attrs) as [[s1 n1] a1]. cbn [fst snd].
        change (topen (unsrc_s s1)) with (map unsrc_f (topen s1)). destruct (topen s1); reflexivity.
      * rewrite un_process_namespaces. destruct (process_namespaces s EndTag name attrs) as [[s1 n1] a1]. cbn [fst snd].
        rewrite un_end_if_empty, un_close_tag. reflexivity.
      * rewrite un_process_namespaces. destruct (process_namespaces s EmptyTag name attrs) as [[s1 n1] a1]. cbn [fst snd].
        destruct (str_eqb (qlocal n1) s_script).
        -- change (topen (unsrc_s s1)) with (map unsrc_f (topen s1)). destruct (topen s1) eqn:O; [reflexivity|].
           cbn [map]. rewrite un_close_tag. reflexivity.
        -- apply un_append_cur.
      * change (topen (unsrc_s s)) with (map unsrc_f (topen s)). destruct (topen s) eqn:O; [reflexivity|].
        cbn [map]. rewrite un_end_if_empty, un_pop. reflexivity.
    + apply un_append_text_cur.
    + apply un_append_cur.
    + apply un_append_cur.
  - destruct t as [k name attrs src|c|c|tg d|n p sy| |]; try reflexivity; cbn [unsrc_tok].
    + destruct (ws_only c); reflexivity.
    + apply un_append_doc.
    + apply un_append_doc.
Qed.

Lemma un_run_from : forall l s, unsrc_s (run_from s l) = run_from (unsrc_s s) (map unsrc_tok l).
Proof. unfold run_from. induction l as [|t l IH]; intro s; simpl; auto. rewrite IH, un_step. reflexivity. Qed.

Lemma close_all_unsrc : forall o acc,
  close_all (map unsrc_f o) (option_map unsrc_b acc) = option_map unsrc_b (close_all o acc).
Proof.
  induction o as [|f r IH]; intro acc; simpl; auto.
  rewrite <- IH. simpl. rewrite map_rev. destruct acc; reflexivity.
Qed.

Lemma un_document : forall s, document (unsrc_s s) = map unsrc_b (document s).
Proof.
  intro s. unfold document. simpl. rewrite !map_app, !map_rev.
  pose proof (close_all_unsrc (topen s) None) as C. simpl option_map in C at 1. rewrite C.
  destruct (close_all (topen s) None); reflexivity.
Qed.

(* two token lists that differ only in the ghosts build the same tree *)
Theorem unsrc_parse : forall l l', map unsrc_tok l = map unsrc_tok l' ->
  map erase (parse_tokens l) = map erase (parse_tokens l').
Proof.
  intros l l' H. unfold parse_tokens, run.
  rewrite <- (map_erase_unsrc (document (run_from tb_init l))), <- (map_erase_unsrc (document (run_from tb_init l'))).
  rewrite <- !un_document, !un_run_from, H. reflexivity.
Qed.
