(* C17: the token-level round trip.  The serializer's items, read back as the
   tokens they denote ([item_rtoken]) and fed to the tree builder model, give
   the tree back - for trees of the shape the parser produces, outside the
   serializer's finding classes.  Uses C16 (the builder resolves what is declared) and the
   adequacy invariant of XSerProofs (what is used is declared). *)
From Coq Require Import List NArith Bool Lia Arith.
From HV Require Import XmlNs.XTreeModel XmlNs.XTreeSpec XmlNs.XTreeProofs
                       XmlNs.XSerModel XmlNs.XSerSpec XmlNs.XSerProofs.
Import ListNotations.
Local Open Scope N_scope.

(* ------------------------------------------------- shape of parsed trees *)

(* the printed name splits back into the same prefix and local name *)
Definition name_wf (q : qname) : bool :=
  ostr_eqb (fst (spec_split (qual q))) (qprefix q) && str_eqb (snd (spec_split (qual q))) (qlocal q).

(* xml and xmlns are fixed, and nothing else is bound to the xmlns URI *)
Definition fixed_wf (k : option str) (u : str) : bool :=
  (negb (ostr_eqb k (Some s_xml)) || str_eqb u XML_URI) &&
  (negb (ostr_eqb k (Some s_xmlns)) || str_eqb u XMLNS_URI) &&
  (negb (str_eqb u XMLNS_URI) || ostr_eqb k (Some s_xmlns)).

Definition is_attr_name (q : qname) : bool :=
  match classify_raw (qual q) with KOther _ _ => true | _ => false end.

Definition attr_wf (a : attr) : bool :=
  negb (is_nil (qual (aname a))) &&
  name_wf (aname a) && fixed_wf (qprefix (aname a)) (qns (aname a)) && is_attr_name (aname a).

Fixpoint nodup_keys (seen : list (bool * (str * str))) (l : list attr) : bool :=
  match l with
  | [] => true
  | a :: r => negb (existsb (akey_eqb (akey a)) seen) && nodup_keys (akey a :: seen) r
  end.

Definition elem_wf (name : qname) (attrs : list attr) : bool :=
  name_wf name && fixed_wf (qprefix name) (qns name) && forallb attr_wf attrs && nodup_keys [] attrs &&
  elem_cons name attrs.

Definition is_text (n : xnode) : bool := match n with XText _ => true | _ => false end.

(* no two adjacent text nodes (RcDom merges them), no doctype below the document *)
Fixpoint kids_shape (prev_text : bool) (l : list xnode) : bool :=
  match l with
  | [] => true
  | n :: r =>
    negb (prev_text && is_text n) &&
    match n with XDoctype _ _ _ => false | _ => true end &&
    kids_shape (is_text n) r
  end.

Fixpoint node_wf (n : xnode) : bool :=
  match n with
  | XElem name attrs kids =>
    elem_wf name attrs && kids_shape false kids &&
    (fix all (l : list xnode) : bool := match l with [] => true | k :: r => node_wf k && all r end) kids
  | _ => true
  end.

(* the raw attribute list of a written start tag *)
Definition item_raws (decls : nsmap) (attrs : list attr) : list rawattr :=
  map decl_rawattr decls ++ map attr_rawattr attrs.

(* --------------------------------- written declarations vs the C16 resolver *)

Definition key_wf (k : option str) : bool :=
  match k with
  | None => true
  | Some p => match classify_raw (s_xmlns ++ colon :: p) with KPrefixDecl p' => str_eqb p' p | _ => false end
  end.

Definition decls_wf (decls : nsmap) : bool :=
  forallb (fun kv => key_wf (fst kv) && negb (is_none (snd kv)) && fixed_wf (fst kv) (ostr (snd kv))) decls.

Lemma classify_xmlns : classify_raw s_xmlns = KDefaultDecl.
Proof. reflexivity. Qed.

Lemma first_decl_decls : forall decls rest k, decls_wf decls = true ->
  first_decl k (map decl_rawattr decls ++ rest) =
  match nm_get decls k with Some v => Some (ostr v) | None => first_decl k rest end.
Proof.
  induction decls as [|[k' v] decls IH]; intros rest k W; [reflexivity|].
  simpl in W. apply andb_true_iff in W. destruct W as [W1 W]. apply andb_true_iff in W1. destruct W1 as [W1 _].
  apply andb_true_iff in W1. destruct W1 as [W1 _].
  cbn [map]. rewrite <- app_comm_cons. cbn [nm_get fst snd].
  destruct k' as [p|].
  - unfold key_wf in W1. destruct (classify_raw (s_xmlns ++ colon :: p)) as [| p' |] eqn:C; try discriminate.
    apply str_eqb_eq in W1. subst p'.
    assert (E : decl_rawattr (Some p, v) = (s_xmlns ++ colon :: p, ostr v)) by reflexivity.
    rewrite E. cbn [first_decl]. rewrite C.
    rewrite (ostr_eqb_sym k (Some p)).
    destruct (ostr_eqb (Some p) k); [reflexivity|apply IH; auto].
  - assert (E : decl_rawattr (None, v) = (s_xmlns, ostr v)) by reflexivity.
    rewrite E. cbn [first_decl]. rewrite classify_xmlns.
    destruct k as [q|]; simpl; [apply IH; auto|reflexivity].
Qed.

Lemma first_decl_attrs : forall attrs k, forallb (fun a => is_attr_name (aname a)) attrs = true ->
  first_decl k (map attr_rawattr attrs) = None.
Proof.
  induction attrs as [|a r IH]; intros k W; [reflexivity|].
  simpl in W. apply andb_true_iff in W. destruct W as [W1 W].
  cbn [map first_decl attr_rawattr]. unfold is_attr_name in W1.
  destruct (classify_raw (qual (aname a))); try discriminate. apply IH; auto.
Qed.

(* what a written tag says about a non-fixed prefix is what its declaration list holds *)
Lemma tag_binding_item : forall decls attrs k, decls_wf decls = true ->
  forallb (fun a => is_attr_name (aname a)) attrs = true -> is_fixed_prefix k = false ->
  tag_binding k (item_raws decls attrs) =
  match nm_get decls k with
  | Some v => if is_nil (ostr v) then Some None else Some (Some (ostr v))
  | None => None
  end.
Proof.
  intros decls attrs k W A F. unfold tag_binding, item_raws. rewrite F.
  rewrite first_decl_decls, first_decl_attrs; auto.
  destruct (nm_get decls k) as [v|] eqn:G; auto.
  (* the value is not the xmlns URI, because the key is not xmlns *)
  assert (NX : str_eqb (ostr v) XMLNS_URI = false).
  { clear A. induction decls as [|[k' v'] decls IH]; simpl in G; [discriminate|].
    simpl in W. apply andb_true_iff in W. destruct W as [W1 W].
    destruct (ostr_eqb k' k) eqn:E.
    - inversion G; subst v'. apply ostr_eqb_eq in E. subst k'.
      apply andb_true_iff in W1. destruct W1 as [_ W1]. unfold fixed_wf in W1.
      apply andb_true_iff in W1. destruct W1 as [_ W1]. simpl fst in W1. simpl snd in W1.
      destruct (str_eqb (ostr v) XMLNS_URI); auto. simpl in W1.
      unfold is_fixed_prefix in F. rewrite W1 in F. rewrite orb_true_r in F. discriminate.
    - apply IH; auto. }
  rewrite NX. reflexivity.
Qed.

Lemma tag_binding_fixed_none : forall k raws, is_fixed_prefix k = true -> tag_binding k raws = None.
Proof. intros. unfold tag_binding. rewrite H. reflexivity. Qed.

(* scopes of the re-parse (raw attribute lists) vs declarations written (hon) *)
Fixpoint RELs (hon : list nsmap) (scopes : list (list rawattr)) : Prop :=
  match hon, scopes with
  | [], [] => True
  | d :: hon', r :: scopes' =>
    (forall k, is_fixed_prefix k = false ->
       tag_binding k r = match nm_get d k with
                         | Some v => if is_nil (ostr v) then Some None else Some (Some (ostr v))
                         | None => None
                         end) /\
    (forall k, nm_get d k <> Some None) /\ RELs hon' scopes'
  | _, _ => False
  end.

Lemma lookup_RELs : forall hon scopes k, RELs hon scopes -> is_fixed_prefix k = false ->
  lookup k scopes = match out_lookup k hon with
                    | Some u => if is_nil u then Some None else Some (Some u)
                    | None => None
                    end.
Proof.
  induction hon as [|d hon IH]; destruct scopes as [|r scopes]; simpl; intros k R F; try contradiction; auto.
  destruct R as (R1 & R2 & R3). rewrite (R1 k F).
  destruct (nm_get d k) as [[u|]|] eqn:G.
  - simpl. destruct (is_nil u); reflexivity.
  - exfalso. apply (R2 k G).
  - apply IH; auto.
Qed.

Lemma lookup_fixed : forall scopes k, is_fixed_prefix k = true -> lookup k scopes = None.
Proof.
  induction scopes as [|r scopes IH]; intros k F; simpl; auto.
  rewrite tag_binding_fixed_none; auto.
Qed.

(* an adequately declared prefix re-resolves to the same URI *)
Lemma resolve_bound : forall hon scopes k u, RELs hon scopes ->
  bound hon k u = true -> fixed_wf k u = true -> k <> None -> resolve k scopes = u.
Proof.
  intros hon scopes k u R B W NN. unfold resolve.
  unfold fixed_wf in W. apply andb_true_iff in W. destruct W as [W W3].
  apply andb_true_iff in W. destruct W as [W1 W2].
  destruct (is_fixed_prefix k) eqn:F.
  - rewrite lookup_fixed; auto. unfold fixed_binding. unfold is_fixed_prefix in F.
    destruct (ostr_eqb k (Some s_xml)) eqn:E1.
    + simpl in W1. apply str_eqb_eq in W1. auto.
    + simpl in F. rewrite F in *. simpl in W2. apply str_eqb_eq in W2. auto.
  - rewrite (lookup_RELs hon scopes k R F).
    unfold bound in B. unfold is_fixed_prefix in F. apply orb_false_iff in F. destruct F as [F1 F2].
    unfold fixedb in B. rewrite F1, F2 in B. simpl in B.
    destruct (out_lookup k hon) as [el|]; [|discriminate]. apply str_eqb_eq in B. subst el.
    unfold fixed_binding. destruct u; reflexivity.
Qed.

Lemma resolve_default : forall hon scopes, RELs hon scopes -> resolve None scopes = default_of hon.
Proof.
  intros hon scopes R. unfold resolve, default_of.
  rewrite (lookup_RELs hon scopes None R) by reflexivity.
  destruct (out_lookup None hon) as [u|]; [destruct u; reflexivity|reflexivity].
Qed.

(* ------------------------------ an adequately declared tag re-resolves *)

Lemma name_wf_split : forall q, name_wf q = true -> spec_split (qual q) = (qprefix q, qlocal q).
Proof.
  intros q H. unfold name_wf in H. apply andb_true_iff in H. destruct H as [H1 H2].
  apply ostr_eqb_eq in H1. apply str_eqb_eq in H2. destruct (spec_split (qual q)); simpl in *. congruence.
Qed.

Lemma rename_ok : forall hon scopes q, RELs hon scopes ->
  name_bound hon q = true -> name_wf q = true -> fixed_wf (qprefix q) (qns q) = true ->
  spec_elem_name scopes (qual q) = q.
Proof.
  intros hon scopes q R B W F. unfold spec_elem_name. rewrite (name_wf_split q W).
  unfold name_bound in B. destruct q as [p ns l]. simpl in *. f_equal.
  destruct p as [p|].
  - eapply resolve_bound; eauto. discriminate.
  - rewrite (resolve_default hon scopes R). apply str_eqb_eq in B. auto.
Qed.

Lemma dedup_nodup_id : forall l seen, nodup_keys seen l = true -> dedup_from seen l = l.
Proof.
  induction l as [|a r IH]; intros seen H; simpl; auto.
  simpl in H. apply andb_true_iff in H. destruct H as [H1 H2]. apply negb_true_iff in H1.
  rewrite H1. f_equal. apply IH; auto.
Qed.

Lemma spec_attr_attr : forall hon scopes a, RELs hon scopes ->
  attr_bound hon a = true -> attr_wf a = true ->
  spec_attr scopes (attr_rawattr a) = Some a.
Proof.
  intros hon scopes a R B W. unfold attr_wf in W. apply andb_true_iff in W. destruct W as [W W3].
  apply andb_true_iff in W. destruct W as [W W2]. apply andb_true_iff in W. destruct W as [W0 W1].
  apply negb_true_iff in W0.
  unfold spec_attr, attr_rawattr. simpl fst. simpl snd. rewrite W0. unfold is_attr_name in W3.
  destruct (classify_raw (qual (aname a))) as [| |p l] eqn:C; try discriminate.
  destruct (classify_other _ _ _ C) as (P & L & _).
  pose proof (name_wf_split _ W1) as S. unfold prefix_of, local_of in *. rewrite S in P, L. simpl in P, L.
  subst p l. unfold attr_bound in B. destruct a as [[p ns l] v]. simpl in *.
  destruct p as [p|].
  - f_equal. f_equal. f_equal. eapply resolve_bound; eauto. discriminate.
  - destruct ns; [reflexivity|discriminate].
Qed.

Lemma filter_map_app : forall (A B : Type) (f : A -> option B) a b,
  filter_map f (a ++ b) = filter_map f a ++ filter_map f b.
Proof. induction a as [|x a IH]; intro b; simpl; auto. destruct (f x); simpl; rewrite IH; auto. Qed.

Lemma filter_map_decls : forall scopes decls, decls_wf decls = true ->
  filter_map (spec_attr scopes) (map decl_rawattr decls) = [].
Proof.
  induction decls as [|[k v] decls IH]; intro W; [reflexivity|].
  simpl in W. apply andb_true_iff in W. destruct W as [W1 W]. apply andb_true_iff in W1. destruct W1 as [W1 _].
  apply andb_true_iff in W1. destruct W1 as [W1 _]. cbn [map filter_map].
  destruct k as [p|].
  - assert (E : decl_rawattr (Some p, v) = (s_xmlns ++ colon :: p, ostr v)) by reflexivity. rewrite E.
    unfold key_wf in W1.
    destruct (classify_raw (s_xmlns ++ colon :: p)) eqn:C; try discriminate.
    unfold spec_attr. cbn [fst]. rewrite C. apply IH; auto.
  - assert (E : decl_rawattr (None, v) = (s_xmlns, ostr v)) by reflexivity. rewrite E.
    unfold spec_attr. cbn [fst]. rewrite classify_xmlns. apply IH; auto.
Qed.

Lemma filter_map_attrs : forall hon scopes attrs, RELs hon scopes ->
  forallb (attr_bound hon) attrs = true -> forallb attr_wf attrs = true ->
  filter_map (spec_attr scopes) (map attr_rawattr attrs) = attrs.
Proof.
  induction attrs as [|a r IH]; intros R B W; [reflexivity|].
  simpl in B, W. apply andb_true_iff in B. apply andb_true_iff in W. destruct B as [B1 B], W as [W1 W].
  cbn [map filter_map]. rewrite (spec_attr_attr hon scopes a R B1 W1). f_equal. apply IH; auto.
Qed.

Lemma reattrs_ok : forall hon scopes decls attrs, RELs hon scopes -> decls_wf decls = true ->
  forallb (attr_bound hon) attrs = true -> forallb attr_wf attrs = true -> nodup_keys [] attrs = true ->
  spec_attrs scopes (item_raws decls attrs) = attrs.
Proof.
  intros hon scopes decls attrs R D B W N. unfold spec_attrs, item_raws.
  rewrite filter_map_app, filter_map_decls, (filter_map_attrs hon); auto. simpl. apply dedup_nodup_id; auto.
Qed.

(* the declaration list start_elem writes is well formed for a well-formed name *)
Lemma name_wf_key : forall q p, name_wf q = true -> qprefix q = Some p -> key_wf (Some p) = true.
Proof.
  intros q p W P. pose proof (name_wf_split q W) as S. unfold qual in S. rewrite P in S.
  unfold key_wf.
  (* p is non-empty and colon free because p : local splits *)
  unfold spec_split in S. destruct (cut_at_colon (p ++ [colon] ++ qlocal q)) as [[a b]|] eqn:C.
  2:{ discriminate S. }
  destruct (negb (is_nil a) && negb (is_nil b) && nocolon b) eqn:G; [|discriminate S].
  inversion S; subst a b. clear S.
  apply andb_true_iff in G. destruct G as [G _]. apply andb_true_iff in G. destruct G as [G1 _].
  (* cut p ++ ":" ++ l = (p, l) means p has no colon *)
  assert (NC : nocolon p = true).
  { clear G1 W P. simpl in C. revert C. generalize (qlocal q). induction p as [|c p IH]; intros l C; [reflexivity|].
    simpl in C. destruct (c =? colon) eqn:E.
    - inversion C.
    - destruct (cut_at_colon (p ++ colon :: l)) as [[a b]|] eqn:C'; [|discriminate].
      inversion C; subst a b. simpl. rewrite E. simpl. eapply IH; eauto. }
  unfold classify_raw, spec_split.
  assert (CX : cut_at_colon (s_xmlns ++ colon :: p) = Some (s_xmlns, p)) by (vm_compute cut_at_colon; reflexivity || reflexivity).
  rewrite CX. rewrite NC. destruct p as [|n p]; [discriminate|]. simpl.
  change ((n =? n) && str_eqb p p) with (str_eqb (n :: p) (n :: p)). apply str_eqb_refl.
Qed.

(* ------------------------------------------- the builder on the item tokens *)

Definition toks (is : list item) : list token := map tokenize (map item_rtoken is).

Lemma toks_eq : forall x, map tokenize (map item_rtoken x) = toks x.
Proof. reflexivity. Qed.

Lemma toks_app : forall a b, toks (a ++ b) = toks a ++ toks b.
Proof. intros. unfold toks. rewrite !map_app. reflexivity. Qed.

Lemma run_from_app : forall a b s, run_from s (a ++ b) = run_from (run_from s a) b.
Proof. intros. unfold run_from. apply fold_left_app. Qed.

Definition add_kids (f : frame) (bs : list bnode) : frame :=
  mkf (fname f) (fattrs f) (fsrc f) (bs ++ fkids f).

Definition starts_text (k : list bnode) : bool := match k with BText _ :: _ => true | _ => false end.

Definition b_is_text (b : bnode) : bool := match b with BText _ => true | _ => false end.

Lemma add_kids_add : forall f a b, add_kids (add_kids f a) b = add_kids f (b ++ a).
Proof. intros. unfold add_kids. simpl. rewrite app_assoc. reflexivity. Qed.

Lemma add_kids_nil : forall f, add_kids f [] = f.
Proof. destruct f; reflexivity. Qed.

(* the declaration list start_elem writes holds bindings of the tag's own names only *)
Definition decls_from (name : qname) (attrs : list attr) (decls : nsmap) : Prop :=
  forall kv, In kv decls -> exists q, In q (tag_names name attrs) /\ kv = (qprefix q, Some (qns q)).

Lemma decls_wf_of : forall name attrs decls, elem_wf name attrs = true ->
  decls_from name attrs decls -> decls_wf decls = true.
Proof.
  intros name attrs decls EW DF.
  unfold elem_wf in EW. apply andb_true_iff in EW. destruct EW as [EW _].
  apply andb_true_iff in EW. destruct EW as [EW _].
  apply andb_true_iff in EW. destruct EW as [EW AW]. apply andb_true_iff in EW. destruct EW as [NW FW].
  assert (Q : forall q, In q (tag_names name attrs) -> name_wf q = true /\ fixed_wf (qprefix q) (qns q) = true).
  { intros q [E|I]; [subst; auto|]. apply in_map_iff in I. destruct I as (a & E & Ia). subst q.
    apply filter_In in Ia. destruct Ia as [Ia _]. rewrite forallb_forall in AW. specialize (AW a Ia).
    unfold attr_wf in AW. apply andb_true_iff in AW. destruct AW as [AW _].
    apply andb_true_iff in AW. destruct AW as [AW F2]. apply andb_true_iff in AW. destruct AW as [_ N2]. auto. }
  unfold decls_wf. apply forallb_forall. intros kv I. destruct (DF kv I) as (q & Iq & E). subst kv.
  destruct (Q q Iq) as [W F]. simpl. rewrite F, andb_true_r.
  destruct (qprefix q) as [p|] eqn:P; [|reflexivity].
  rewrite (name_wf_key q p W P). reflexivity.
Qed.

Lemma RELs_cons : forall hon ctx decls attrs, RELs hon ctx -> decls_wf decls = true ->
  forallb attr_wf attrs = true -> RELs (decls :: hon) (item_raws decls attrs :: ctx).
Proof.
  intros hon ctx decls attrs R D A. simpl. split; [|split; auto].
  - intros k F. apply tag_binding_item; auto.
    clear - A. induction attrs as [|a r IH]; simpl in *; auto.
    apply andb_true_iff in A. destruct A as [A1 A]. rewrite IH; auto. rewrite andb_true_r.
    unfold attr_wf in A1. apply andb_true_iff in A1. apply A1.
  - intros k G. clear - D G. induction decls as [|[k' v] decls IH]; simpl in G; [discriminate|].
    simpl in D. apply andb_true_iff in D. destruct D as [D1 D].
    destruct (ostr_eqb k' k).
    + inversion G; subst v. simpl in D1. rewrite andb_false_r in D1. discriminate.
    + apply IH; auto.
Qed.

Lemma find_in_nil_cons : forall M k, find_in ([] :: M) k = find_in M k.
Proof. reflexivity. Qed.

Lemma bindq_nil_cons : forall M q, bindq ([] :: M) q = bindq M q.
Proof. reflexivity. Qed.

Lemma pop_topen2 : forall s f g r, topen s = f :: g :: r ->
  topen (pop s) = mkf (fname g) (fattrs g) (fsrc g) (close_frame f :: fkids g) :: r /\
  tdoc (pop s) = tdoc s /\ tpost (pop s) = tpost s.
Proof. intros s f g r O. unfold pop, detach_top. simpl topen. rewrite O. simpl. auto. Qed.

Lemma pop_topen1 : forall s f, topen s = [f] ->
  topen (pop s) = [] /\ tdoc (pop s) = close_frame f :: tdoc s /\ tpost (pop s) = tpost s.
Proof. intros s f O. unfold pop, detach_top. simpl topen. rewrite O. simpl. auto. Qed.

(* the start tag of an adequately declared element creates that element *)
Lemma start_tag_step : forall s hon name attrs decls,
  Live s ->
  ((tphase s = PMain /\ topen s <> []) \/ (tphase s = PStart /\ topen s = [])) ->
  RELs hon (ctx_of (topen s)) ->
  elem_wf name attrs = true ->
  decls_from name attrs decls ->
  name_bound (decls :: hon) name = true -> forallb (attr_bound (decls :: hon)) attrs = true ->
  let s' := step s (tokenize (item_rtoken (IStart name decls attrs))) in
  Live s' /\ tphase s' = PMain /\ tdoc s' = tdoc s /\ tpost s' = tpost s /\
  topen s' = mkf name attrs (qual name, item_raws decls attrs) [] :: topen s.
Proof.
  intros s hon name attrs decls L PH R EW DS NB AB.
  pose proof (decls_wf_of name attrs decls EW DS) as DW.
  unfold elem_wf in EW. apply andb_true_iff in EW. destruct EW as [EW _].
  apply andb_true_iff in EW. destruct EW as [EW ND].
  apply andb_true_iff in EW. destruct EW as [EW AW]. apply andb_true_iff in EW. destruct EW as [NW FW].
  pose proof (RELs_cons hon _ decls attrs R DW AW) as R'.
  cbn [item_rtoken tokenize]. fold (item_raws decls attrs).
  set (src := (qual name, item_raws decls attrs)).
  assert (W : tok_wf (TTag StartTag (process_qname (qual name)) (tok_attrs (item_raws decls attrs)) src)) by (split; reflexivity).
  cbv zeta. unfold step.
  destruct (process_namespaces s StartTag (process_qname (qual name)) (tok_attrs (item_raws decls attrs)))
    as [[s1 name'] attrs'] eqn:PN.
  destruct (pn_elem_lex _ _ _ _ _ _ _ _ L W PN) as (EL & A3 & A4 & A5 & A6 & A7 & A8 & A9).
  assert (EN : name' = name).
  { rewrite (elem_name_spec _ _ _ _ EL). simpl. eapply rename_ok; eauto. }
  assert (EA : attrs' = attrs).
  { rewrite (elem_attrs_spec _ _ _ _ EL). simpl. eapply reattrs_ok; eauto. }
  subst name' attrs'.
  destruct PH as [[PH O]|[PH O]]; rewrite PH.
  - destruct (topen s1) eqn:O1; [congruence|].
    destruct (push_live s s1 s1 _ _ _ _ _ _ L W PN) as [L' O']; auto.
    split; [exact L'|]. split; [simpl; congruence|]. split; [simpl; congruence|]. split; [simpl; congruence|]. exact O'.
  - destruct (push_live s s1 (set_phase s1 PMain) _ _ _ _ _ _ L W PN) as [L' O']; auto.
Qed.

(* the end tag the serializer writes closes exactly the element it belongs to *)
Lemma end_tag_step : forall s f0 F name,
  Live s -> tphase s = PMain -> topen s = f0 :: F -> fst (fsrc f0) = qual name ->
  let s' := step s (tokenize (item_rtoken (IEnd name))) in
  tpanic s' = false /\ tpost s' = tpost s /\
  match F with
  | g :: r => Live s' /\ tphase s' = PMain /\ topen s' = add_kids g [close_frame f0] :: r /\ tdoc s' = tdoc s
  | [] => tphase s' = PEnd /\ topen s' = [] /\ tdoc s' = close_frame f0 :: tdoc s
  end.
Proof.
  intros s f0 F name L PH O SRC. cbn [item_rtoken tokenize]. cbv zeta. unfold step. rewrite PH.
  set (src := (qual name, @nil rawattr)).
  assert (W : tok_wf (TTag EndTag (process_qname (qual name)) (tok_attrs []) src)) by (split; reflexivity).
  destruct (process_namespaces s EndTag (process_qname (qual name)) (tok_attrs [])) as [[s1 name''] attrs''] eqn:PN.
  destruct (nokeep_live _ _ _ _ _ _ _ _ L W PN) as (L1 & O1 & P1); [reflexivity|].
  destruct (pn_elem_lex _ _ _ _ _ _ _ _ L W PN) as (_ & A3 & A4 & A5 & A6 & A7 & A8 & A9).
  assert (EN : name'' = fname f0).
  { destruct L as (P & FR & D & C & N).
    destruct (process_namespaces_spec _ _ _ _ _ _ _ C PN) as (B1 & _).
    rewrite B1. unfold tok_attrs. simpl fold_left. unfold declare_map. simpl fold_left.
    rewrite bindq_nil_cons. unfold nss_ok in N. rewrite N, O.
    rewrite O in FR. destruct FR as ((E1 & _) & _). rewrite E1. rewrite SRC. reflexivity. }
  subst name''. rewrite O in O1.
  rewrite (close_tag_top s1 f0 F O1).
  destruct (pop_live s1 L1) as (L2 & P2 & N2); [rewrite O1; discriminate|].
  destruct L2 as (PP & FR2 & D2 & C2 & NS2).
  destruct F as [|g r].
  - destruct (pop_topen1 s1 f0 O1) as (T1 & T2 & T3).
    unfold end_if_empty. rewrite T1. simpl. repeat split; auto; congruence.
  - destruct (pop_topen2 s1 f0 g r O1) as (T1 & T2 & T3).
    unfold end_if_empty. rewrite T1. simpl is_nil. cbv iota.
    split; [exact PP|]. split; [congruence|].
    split; [unfold Live; auto|]. split; [congruence|]. split; [|congruence].
    rewrite T1. unfold add_kids. reflexivity.
Qed.

Definition live_at (s : tb) (f : frame) (r : list frame) : Prop :=
  Live s /\ tphase s = PMain /\ topen s = f :: r.

(* the subtree of a well-shaped node comes back as the same node, appended to the current element *)
Lemma node_roundtrip : forall n st items st' s f r,
  node_wf n = true -> (match n with XDoctype _ _ _ => false | _ => true end) = true ->
  negb (starts_text (fkids f) && is_text n) = true ->
  no_none st -> ser_node n st = (items, st') ->
  live_at s f r -> RELs st (ctx_of (f :: r)) ->
  exists b, live_at (run_from s (toks items)) (add_kids f [b]) r /\
            tdoc (run_from s (toks items)) = tdoc s /\ tpost (run_from s (toks items)) = tpost s /\
            erase b = n /\ b_is_text b = is_text n /\ st' = st.
Proof.
  fix IH 1. intros n st items st' s f r WF ND NT HN SG (L & PH & O) R.
  destruct n as [name attrs kids|t|c|tg d|nm pb sy]; try discriminate ND.
  - (* element *)
    cbn [node_wf] in WF. apply andb_true_iff in WF. destruct WF as [WF WK].
    apply andb_true_iff in WF. destruct WF as [EW KS].
    assert (EC : elem_cons name attrs = true).
    { unfold elem_wf in EW. apply andb_true_iff in EW. apply EW. }
    rewrite ser_node_elem in SG.
    destruct (start_elem_ok st name attrs HN EC) as (decls & SE & N1 & NB & AB & DS). rewrite SE in SG.
    destruct (ser_nodes kids (decls :: st)) as [is st2] eqn:SK. simpl in SG.
    injection SG as E0 E1. subst items st'.
    (* start tag *)
    change (toks (IStart name decls attrs :: is ++ [IEnd name]))
      with (tokenize (item_rtoken (IStart name decls attrs)) :: toks (is ++ [IEnd name])).
    cbn [run_from fold_left]. fold (run_from (step s (tokenize (item_rtoken (IStart name decls attrs)))) (toks (is ++ [IEnd name]))).
    destruct (start_tag_step s st name attrs decls L) as (L1 & P1 & D1 & T1 & O1); auto.
    { left. split; auto. rewrite O. discriminate. }
    { rewrite O. exact R. }
    set (s1 := step s (tokenize (item_rtoken (IStart name decls attrs)))) in *.
    set (f0 := mkf name attrs (qual name, item_raws decls attrs) []) in *.
    (* children *)
    assert (AW : forallb attr_wf attrs = true).
    { unfold elem_wf in EW. apply andb_true_iff in EW. destruct EW as [EW _].
      apply andb_true_iff in EW. destruct EW as [EW _]. apply andb_true_iff in EW. apply EW. }
    assert (R1 : RELs (decls :: st) (ctx_of (f0 :: f :: r))).
    { apply RELs_cons; auto. eapply decls_wf_of; eauto. }
    assert (K : forall l is st' s fr,
               (fix all (l : list xnode) : bool := match l with [] => true | k :: r => node_wf k && all r end) l = true ->
               kids_shape (starts_text (fkids fr)) l = true ->
               ser_nodes l (decls :: st) = (is, st') ->
               live_at s fr (f :: r) -> fsrc fr = fsrc f0 ->
               exists bs, live_at (run_from s (toks is)) (add_kids fr bs) (f :: r) /\
                          tdoc (run_from s (toks is)) = tdoc s /\ tpost (run_from s (toks is)) = tpost s /\
                          map erase (rev bs) = l /\ st' = decls :: st).
    { induction l as [|k rest IHl]; intros isx sb sx fr WA KSx Sx LA SRC.
      - simpl in Sx. injection Sx as E0 E1. subst isx sb. exists []. rewrite add_kids_nil.
        simpl. repeat split; auto; apply LA.
      - cbn [ser_nodes] in Sx. destruct (ser_node k (decls :: st)) as [a sa1] eqn:SN.
        apply andb_true_iff in WA. destruct WA as [WA1 WA].
        cbn [kids_shape] in KSx. apply andb_true_iff in KSx. destruct KSx as [KS1 KS2].
        apply andb_true_iff in KS1. destruct KS1 as [KS1 KD].
        destruct LA as (LA & PA & OA).
        destruct (IH k (decls :: st) a sa1 sx fr (f :: r) WA1 KD KS1 N1 SN (conj LA (conj PA OA)))
          as (bk & LB & DB & TB & EB & XB & JB).
        { unfold ctx_of in *. simpl. simpl in R1. rewrite SRC. exact R1. }
        subst sa1.
        destruct (ser_nodes rest (decls :: st)) as [b sa2] eqn:SR.
        injection Sx as E0 E1. subst isx sb.
        destruct (IHl b sa2 (run_from sx (toks a)) (add_kids fr [bk]) WA) as (bs & LC & DC & TC & EC' & JC); auto.
        { unfold add_kids. simpl fkids. simpl app.
          replace (starts_text (bk :: fkids fr)) with (is_text k)
            by (rewrite <- XB; destruct bk; reflexivity).
          exact KS2. }
        exists (bs ++ [bk]). rewrite toks_app, run_from_app. rewrite add_kids_add in LC.
        split; [exact LC|]. split; [congruence|]. split; [congruence|]. split; [|exact JC].
        rewrite rev_app_distr. simpl. rewrite EB, EC'. reflexivity. }
    rewrite toks_app, run_from_app. rewrite O in O1.
    destruct (K kids is st2 s1 f0 WK KS SK (conj L1 (conj P1 O1)) eq_refl)
      as (bs & (L2 & P2 & O2) & D2 & T2 & EK & J2).
    set (s2 := run_from s1 (toks is)) in *.
    (* end tag *)
    change (toks [IEnd name]) with [tokenize (item_rtoken (IEnd name))]. cbn [run_from fold_left].
    destruct (end_tag_step s2 (add_kids f0 bs) (f :: r) name L2 P2 O2 eq_refl) as (PN & TP & L3 & P3 & O3 & D3).
    exists (close_frame (add_kids f0 bs)).
    split; [split; [exact L3|split; [exact P3|exact O3]]|].
    split; [congruence|]. split; [congruence|]. split; [|split; [reflexivity|subst st2; reflexivity]].
    unfold close_frame, add_kids, f0. simpl. rewrite app_nil_r. rewrite <- EK. rewrite map_rev. reflexivity.
  - (* text *)
    simpl in SG. injection SG as E0 E1. subst items st'.
    destruct (append_text_cur_live s t L) as (L2 & P2 & N2); [rewrite O; discriminate|].
    exists (BText t). change (toks [IText t]) with [TChars t]. cbn [run_from fold_left]. unfold step. rewrite PH.
    assert (OT : topen (append_text_cur s t) = add_kids f [BText t] :: r).
    { unfold append_text_cur. rewrite O. simpl. unfold add_kids, append_text_to.
      simpl in NT. rewrite andb_true_r in NT. apply negb_true_iff in NT.
      destruct (fkids f) as [|[]]; try reflexivity. discriminate. }
    split; [split; [exact L2|split; [congruence|exact OT]]|].
    unfold append_text_cur. rewrite O. simpl. auto.
  - (* comment *)
    simpl in SG. injection SG as E0 E1. subst items st'.
    destruct (append_cur_live s (BComment c) L) as (L2 & P2 & N2); [rewrite O; discriminate|simpl; auto|].
    exists (BComment c). change (toks [IComment c]) with [TComment c]. cbn [run_from fold_left]. unfold step. rewrite PH.
    assert (OT : topen (append_cur s (BComment c)) = add_kids f [BComment c] :: r).
    { unfold append_cur. rewrite O. reflexivity. }
    split; [split; [exact L2|split; [congruence|exact OT]]|].
    unfold append_cur. rewrite O. simpl. auto.
  - (* processing instruction *)
    simpl in SG. injection SG as E0 E1. subst items st'.
    destruct (append_cur_live s (BPi tg d) L) as (L2 & P2 & N2); [rewrite O; discriminate|simpl; auto|].
    exists (BPi tg d). change (toks [IPi tg d]) with [TPi tg d]. cbn [run_from fold_left]. unfold step. rewrite PH.
    assert (OT : topen (append_cur s (BPi tg d)) = add_kids f [BPi tg d] :: r).
    { unfold append_cur. rewrite O. reflexivity. }
    split; [split; [exact L2|split; [congruence|exact OT]]|].
    unfold append_cur. rewrite O. simpl. auto.
Qed.

Lemma forest_roundtrip : forall l st is st' s f r,
  (fix all (l : list xnode) : bool := match l with [] => true | k :: r => node_wf k && all r end) l = true ->
  kids_shape (starts_text (fkids f)) l = true ->
  no_none st -> ser_nodes l st = (is, st') ->
  live_at s f r -> RELs st (ctx_of (f :: r)) ->
  exists bs, live_at (run_from s (toks is)) (add_kids f bs) r /\
             tdoc (run_from s (toks is)) = tdoc s /\ tpost (run_from s (toks is)) = tpost s /\
             map erase (rev bs) = l /\ st' = st.
Proof.
  induction l as [|k rest IHl]; intros st isx sb sx fr r WA KSx HN Sx LA R.
  - simpl in Sx. injection Sx as E0 E1. subst isx sb. exists []. rewrite add_kids_nil.
    simpl. repeat split; auto; apply LA.
  - cbn [ser_nodes] in Sx. destruct (ser_node k st) as [a sa1] eqn:SN.
    apply andb_true_iff in WA. destruct WA as [WA1 WA].
    cbn [kids_shape] in KSx. apply andb_true_iff in KSx. destruct KSx as [KS1 KS2].
    apply andb_true_iff in KS1. destruct KS1 as [KS1 KD].
    destruct (node_roundtrip k st a sa1 sx fr r WA1 KD KS1 HN SN LA R)
      as (bk & LB & DB & TB & EB & XB & JB).
    subst sa1. destruct (ser_nodes rest st) as [b sa2] eqn:SR.
    injection Sx as E0 E1. subst isx sb.
    destruct (IHl st b sa2 (run_from sx (toks a)) (add_kids fr [bk]) r WA) as (bs & LC & DC & TC & EC & JC); auto.
    { unfold add_kids. simpl fkids. simpl app.
      replace (starts_text (bk :: fkids fr)) with (is_text k)
        by (rewrite <- XB; destruct bk; reflexivity).
      exact KS2. }
    exists (bs ++ [bk]). rewrite toks_app, run_from_app. rewrite add_kids_add in LC.
    split; [exact LC|]. split; [congruence|]. split; [congruence|]. split; [|exact JC].
    rewrite rev_app_distr. simpl. rewrite EB, EC. reflexivity.
Qed.

(* ------------------------------------------------------------ documents *)

Definition is_prolog (n : xnode) : bool :=
  match n with XComment _ | XPi _ _ | XDoctype _ _ _ => true | _ => false end.
Definition is_misc (n : xnode) : bool :=
  match n with XComment _ | XPi _ _ => true | _ => false end.

(* doctype public/system ids are outside the serializer API *)
Definition strip_ids (n : xnode) : xnode :=
  match n with XDoctype nm _ _ => XDoctype nm [] [] | _ => n end.

Definition misc_item (n : xnode) : item :=
  match n with
  | XComment c => IComment c | XPi t d => IPi t d | XDoctype nm _ _ => IDoctype nm
  | XText t => IText t | XElem nm _ _ => IEnd nm
  end.
Definition misc_b (n : xnode) : bnode :=
  match n with
  | XComment c => BComment c | XPi t d => BPi t d | XDoctype nm _ _ => BDoctype nm [] []
  | XText t => BText t | XElem nm a _ => BElem nm a ([], []) []
  end.

Lemma ser_misc : forall l st, forallb is_prolog l = true ->
  ser_nodes l st = (map misc_item l, st).
Proof.
  induction l as [|n l IH]; intros st H; [reflexivity|].
  simpl in H. apply andb_true_iff in H. destruct H as [H1 H2].
  cbn [ser_nodes]. destruct n; try discriminate; simpl; rewrite IH; auto.
Qed.

Lemma ser_nodes_app : forall a b st,
  ser_nodes (a ++ b) st =
  (let (ia, st1) := ser_nodes a st in
   let (ib, st2) := ser_nodes b st1 in (ia ++ ib, st2)).
Proof.
  induction a as [|n a IH]; intros b st.
  - simpl. destruct (ser_nodes b st) as [ib st2]. reflexivity.
  - cbn [app ser_nodes]. destruct (ser_node n st) as [x st1]. rewrite IH.
    destruct (ser_nodes a st1) as [ia sa].
    destruct (ser_nodes b sa) as [ib sb]. rewrite app_assoc. reflexivity.
Qed.

Lemma is_misc_prolog : forall l, forallb is_misc l = true -> forallb is_prolog l = true.
Proof.
  induction l as [|n l IH]; simpl; auto. intro H. apply andb_true_iff in H. destruct H as [H1 H2].
  rewrite IH; auto. destruct n; auto; discriminate.
Qed.

(* at most one doctype (the tree builder ignores a second DOCTYPE token in the start phase) *)
Fixpoint dt_ok (has : bool) (l : list xnode) : bool :=
  match l with
  | [] => true
  | XDoctype _ _ _ :: t => negb has && dt_ok true t
  | _ :: t => dt_ok has t
  end.

Lemma prolog_run : forall l s, forallb is_prolog l = true ->
  dt_ok (existsb is_doctype (tdoc s)) l = true ->
  Live s -> tphase s = PStart -> topen s = [] -> tpost s = [] ->
  let s' := run_from s (toks (map misc_item l)) in
  Live s' /\ tphase s' = PStart /\ topen s' = [] /\ tpost s' = [] /\
  tdoc s' = rev (map misc_b l) ++ tdoc s.
Proof.
  induction l as [|n l IH]; intros s H DT L PH O TP; [simpl; auto|].
  simpl in H. apply andb_true_iff in H. destruct H as [H1 H2].
  cbn [map]. change (toks (misc_item n :: map misc_item l))
    with (tokenize (item_rtoken (misc_item n)) :: toks (map misc_item l)).
  cbn [run_from fold_left]. fold (run_from (step s (tokenize (item_rtoken (misc_item n)))) (toks (map misc_item l))).
  assert (ST : step s (tokenize (item_rtoken (misc_item n))) = set_doc s (misc_b n :: tdoc s)).
  { destruct n; try discriminate; simpl; unfold step; rewrite PH.
    - unfold append_doc; rewrite O; reflexivity.
    - unfold append_doc; rewrite O; reflexivity.
    - cbn [dt_ok] in DT. apply andb_true_iff in DT. destruct DT as [DT _]. apply negb_true_iff in DT.
      rewrite DT. unfold append_doc. rewrite O. reflexivity. }
  rewrite ST.
  assert (L' : Live (set_doc s (misc_b n :: tdoc s))).
  { destruct L as (P & F & (D1 & D2) & C & N). unfold Live, docs_ok, nss_ok in *. simpl.
    repeat split; auto. constructor; auto. destruct n; simpl; auto; discriminate. }
  assert (DT' : dt_ok (existsb is_doctype (tdoc (set_doc s (misc_b n :: tdoc s)))) l = true).
  { destruct n; try discriminate; cbn [dt_ok] in DT; simpl; try exact DT.
    apply andb_true_iff in DT. destruct DT as [_ DT]. exact DT. }
  destruct (IH (set_doc s (misc_b n :: tdoc s)) H2 DT' L' PH O TP) as (A & B & C & D & E).
  split; [exact A|]. split; [exact B|]. split; [exact C|]. split; [exact D|].
  rewrite E. simpl. rewrite <- app_assoc. reflexivity.
Qed.

Lemma epilog_run : forall l s, forallb is_misc l = true ->
  tphase s = PEnd -> topen s = [] -> tpost s = [] ->
  let s' := run_from s (toks (map misc_item l)) in
  tphase s' = PEnd /\ topen s' = [] /\ tpost s' = [] /\ tdoc s' = rev (map misc_b l) ++ tdoc s.
Proof.
  induction l as [|n l IH]; intros s H PH O TP; [simpl; auto|].
  simpl in H. apply andb_true_iff in H. destruct H as [H1 H2].
  cbn [map]. change (toks (misc_item n :: map misc_item l))
    with (tokenize (item_rtoken (misc_item n)) :: toks (map misc_item l)).
  cbn [run_from fold_left]. fold (run_from (step s (tokenize (item_rtoken (misc_item n)))) (toks (map misc_item l))).
  assert (ST : step s (tokenize (item_rtoken (misc_item n))) = set_doc s (misc_b n :: tdoc s)).
  { destruct n; try discriminate; simpl; unfold step; rewrite PH; unfold append_doc; rewrite O; reflexivity. }
  rewrite ST.
  destruct (IH (set_doc s (misc_b n :: tdoc s)) H2 PH O TP) as (B & C & D & E).
  split; [exact B|]. split; [exact C|]. split; [exact D|].
  rewrite E. simpl. rewrite <- app_assoc. reflexivity.
Qed.

Lemma erase_misc : forall l, forallb is_prolog l = true -> map erase (map misc_b l) = map strip_ids l.
Proof.
  induction l as [|n l IH]; simpl; auto. intro H. apply andb_true_iff in H. destruct H as [H1 H2].
  rewrite IH; auto. destruct n; try discriminate; reflexivity.
Qed.

Lemma strip_misc : forall l, forallb is_misc l = true -> map strip_ids l = l.
Proof.
  induction l as [|n l IH]; simpl; auto. intro H. apply andb_true_iff in H. destruct H as [H1 H2].
  rewrite IH; auto. destruct n; try discriminate; reflexivity.
Qed.

(* C17_roundtrip at token level: for a document of the parser's shape
   (prolog of comments / PIs / at most one doctype, one root element, epilog of
   comments / PIs; no adjacent text nodes; names that print and split back;
   xml / xmlns fixed; attributes are attributes with distinct expanded names;
   one prefix = one URI per tag) the tokens denoted by the serializer's items
   rebuild the same document.  No condition on the serializer's behaviour is
   left: the five defects of DESIGN 6.3 row 10 are repaired in /repo. *)
Theorem roundtrip_tokens : forall pre name attrs ks post,
  let kids := pre ++ XElem name attrs ks :: post in
  forallb is_prolog pre = true -> dt_ok false pre = true -> forallb is_misc post = true ->
  node_wf (XElem name attrs ks) = true ->
  reparse kids = map strip_ids kids.
Proof.
  intros pre name attrs ks post kids HP HD HM WF.
  unfold reparse, ser_doc. unfold kids. clear kids.
  rewrite ser_nodes_app. rewrite (ser_misc pre [] HP).
  change (XElem name attrs ks :: post) with ([XElem name attrs ks] ++ post).
  rewrite ser_nodes_app. cbn [ser_nodes].
  cbn [node_wf] in WF. apply andb_true_iff in WF. destruct WF as [WF WK].
  apply andb_true_iff in WF. destruct WF as [EW KS].
  assert (EC : elem_cons name attrs = true).
  { unfold elem_wf in EW. apply andb_true_iff in EW. apply EW. }
  assert (N0 : no_none []) by (intros m k []).
  (* the root, step by step *)
  rewrite ser_node_elem.
  destruct (start_elem_ok [] name attrs N0 EC) as (decls & SE & N1 & NB & AB & DS). rewrite SE.
  destruct (ser_nodes ks [decls]) as [is sb] eqn:SK. cbn [end_elem].
  rewrite (ser_misc post (tl sb) (is_misc_prolog _ HM)).
  simpl fst. rewrite !app_nil_r.
  (* run the builder *)
  unfold parse_raw, parse_tokens, run.
  rewrite (map_app tokenize). rewrite (toks_eq _). simpl (map tokenize [REof]).
  change (IStart name decls attrs :: (is ++ [IEnd name]) ++ map misc_item post)
    with ((IStart name decls attrs :: is ++ [IEnd name]) ++ map misc_item post).
  rewrite !toks_app, !run_from_app.
  assert (L0 : Live tb_init) by (unfold Live, docs_ok, nss_ok; simpl; repeat split; auto).
  destruct (prolog_run pre tb_init HP HD L0 eq_refl eq_refl eq_refl) as (LA & PA & OA & TA & DA).
  set (s0 := run_from tb_init (toks (map misc_item pre))) in *.
  change (toks (IStart name decls attrs :: is ++ [IEnd name]))
    with (tokenize (item_rtoken (IStart name decls attrs)) :: toks (is ++ [IEnd name])).
  cbn [run_from fold_left].
  fold (run_from (step s0 (tokenize (item_rtoken (IStart name decls attrs)))) (toks (is ++ [IEnd name]))).
  destruct (start_tag_step s0 [] name attrs decls LA) as (L1 & P1 & D1 & T1 & O1); auto.
  { rewrite OA. exact I. }
  set (s1 := step s0 (tokenize (item_rtoken (IStart name decls attrs)))) in *.
  set (f0 := mkf name attrs (qual name, item_raws decls attrs) []) in *.
  rewrite OA in O1.
  assert (AW : forallb attr_wf attrs = true).
  { unfold elem_wf in EW. apply andb_true_iff in EW. destruct EW as [EW' _].
    apply andb_true_iff in EW'. destruct EW' as [EW' _]. apply andb_true_iff in EW'. apply EW'. }
  assert (R1 : RELs [decls] (ctx_of [f0])).
  { assert (R0 : RELs [] []) by exact I.
    apply (RELs_cons [] [] decls attrs R0); auto. eapply decls_wf_of; eauto. }
  rewrite toks_app, run_from_app.
  destruct (forest_roundtrip ks [decls] is sb s1 f0 [] WK KS N1 SK (conj L1 (conj P1 O1)) R1)
    as (bs & (L2 & P2 & O2) & D2 & T2 & EK & J2).
  set (s2 := run_from s1 (toks is)) in *.
  change (toks [IEnd name]) with [tokenize (item_rtoken (IEnd name))]. cbn [run_from fold_left].
  destruct (end_tag_step s2 (add_kids f0 bs) [] name L2 P2 O2 eq_refl) as (PN & TP & P3 & O3 & D3).
  set (s3 := step s2 (tokenize (item_rtoken (IEnd name)))) in *.
  fold (run_from s3 (toks (map misc_item post))).
  destruct (epilog_run post s3 HM P3 O3) as (P4 & O4 & T4 & D4); [congruence|].
  set (s4 := run_from s3 (toks (map misc_item post))) in *.
  (* EOF in the End phase changes nothing *)
  assert (S5 : step s4 TEof = s4) by (unfold step; rewrite P4; reflexivity). rewrite S5.
  unfold document. rewrite O4, T4. simpl. rewrite app_nil_r.
  rewrite D4, D3, D2, D1, DA. simpl. rewrite app_nil_r.
  rewrite !rev_app_distr. simpl. rewrite !rev_involutive. rewrite <- app_assoc. simpl.
  rewrite !map_app. simpl. rewrite !erase_misc; auto using is_misc_prolog.
  rewrite (strip_misc post HM). f_equal. f_equal.
  unfold close_frame, add_kids, f0. simpl. rewrite app_nil_r. rewrite <- EK, map_rev. reflexivity.
Qed.

(* the hypotheses as one decidable check on a document *)
Fixpoint split_root (l : list xnode) : option (list xnode * xnode * list xnode) :=
  match l with
  | [] => None
  | XElem nm a k :: r => Some ([], XElem nm a k, r)
  | n :: r => match split_root r with Some (pre, root, post) => Some (n :: pre, root, post) | None => None end
  end.

Definition rt_hyps (kids : list xnode) : bool :=
  match split_root kids with
  | Some (pre, root, post) =>
    forallb is_prolog pre && dt_ok false pre && forallb is_misc post && node_wf root
  | None => false
  end.

Lemma split_root_app : forall l pre root post, split_root l = Some (pre, root, post) ->
  l = pre ++ root :: post /\ exists nm a k, root = XElem nm a k.
Proof.
  induction l as [|n l IH]; intros pre root post H; simpl in H; [discriminate|].
  destruct n as [nm a k| | | |];
    try (destruct (split_root l) as [[[p r] q]|] eqn:S; [|discriminate];
         inversion H; subst; destruct (IH _ _ _ eq_refl) as [E X]; subst l; split; [reflexivity|exact X]).
  inversion H; subst. split; [reflexivity|eauto].
Qed.

Theorem roundtrip_tokens_decidable : forall kids, rt_hyps kids = true -> reparse kids = map strip_ids kids.
Proof.
  intros kids H. unfold rt_hyps in H.
  destruct (split_root kids) as [[[pre root] post]|] eqn:S; [|discriminate].
  destruct (split_root_app _ _ _ _ S) as [E (nm & a & k & R)]. subst root kids.
  apply andb_true_iff in H. destruct H as [H H4].
  apply andb_true_iff in H. destruct H as [H H3]. apply andb_true_iff in H. destruct H as [H1 HD].
  apply roundtrip_tokens; auto.
Qed.

(* non-vacuity: <!DOCTYPE r PUBLIC "x" "y"><!--c--><r xmlns="d"><p:a xmlns:p="u" p:x="1" y="&lt;"><p:b/>t&amp;</p:a><c/></r><?t d?> *)
Definition ex_doc2 : list xnode :=
  [XDoctype [114] [120] [121]; XComment [99]] ++ ex_tree ++ [XPi [116] [100]].

Example ex_doc2_hyps : rt_hyps ex_doc2 = true.
Proof. vm_compute. reflexivity. Qed.
