(* C15, tree-builder half: the XML tree builder does not care how a run of
   character data is cut into character tokens.  [R s s'] = the two builder
   states agree on everything except the count of parse errors reported so far
   (which no rule of the builder ever reads). *)
From Coq Require Import List NArith Bool.
From HV Require Import XmlNs.XTreeModel.
Import ListNotations.
Local Open Scope N_scope.

Definition noerr (s : tb) : tb :=
  mktb (tphase s) (topen s) (tnss s) (tcur s) (tdoc s) (tpost s) 0 (tpanic s).

Definition R (s s' : tb) : Prop := noerr s = noerr s'.

Lemma R_refl : forall s, R s s. Proof. reflexivity. Qed.
Lemma R_sym : forall s s', R s s' -> R s' s. Proof. unfold R; auto. Qed.
Lemma R_trans : forall a b c, R a b -> R b c -> R a c. Proof. unfold R; intros; congruence. Qed.

Lemma R_fields : forall s s', R s s' ->
  tphase s = tphase s' /\ topen s = topen s' /\ tnss s = tnss s' /\ tcur s = tcur s' /\
  tdoc s = tdoc s' /\ tpost s = tpost s' /\ tpanic s = tpanic s'.
Proof. intros s s' H. unfold R, noerr in H. inversion H. repeat split; auto. Qed.

Lemma R_intro : forall s s',
  tphase s = tphase s' -> topen s = topen s' -> tnss s = tnss s' -> tcur s = tcur s' ->
  tdoc s = tdoc s' -> tpost s = tpost s' -> tpanic s = tpanic s' -> R s s'.
Proof. intros s s' A B C D E F G. unfold R, noerr. congruence. Qed.

Ltac fields H :=
  let A := fresh "Eph" in let B := fresh "Eop" in let C := fresh "Ens" in let D := fresh "Ecu" in
  let E := fresh "Edo" in let F := fresh "Epo" in let G := fresh "Epa" in
  destruct (R_fields _ _ H) as (A & B & C & D & E & F & G).

Ltac Rauto H := fields H; apply R_intro; simpl; congruence.

Lemma R_add_err : forall s s', R s s' -> R (add_err s) (add_err s'). Proof. intros s s' H. Rauto H. Qed.
Lemma R_add_err_l : forall s s', R s s' -> R (add_err s) s'. Proof. intros s s' H. Rauto H. Qed.
Lemma R_add_err_r : forall s s', R s s' -> R s (add_err s'). Proof. intros s s' H. Rauto H. Qed.
Lemma R_set_phase : forall s s' p, R s s' -> R (set_phase s p) (set_phase s' p). Proof. intros s s' p H. Rauto H. Qed.
Lemma R_set_open : forall s s' o, R s s' -> R (set_open s o) (set_open s' o). Proof. intros s s' o H. Rauto H. Qed.
Lemma R_set_nss : forall s s' n, R s s' -> R (set_nss s n) (set_nss s' n). Proof. intros s s' n H. Rauto H. Qed.
Lemma R_set_cur : forall s s' c, R s s' -> R (set_cur s c) (set_cur s' c). Proof. intros s s' c H. Rauto H. Qed.
Lemma R_set_doc : forall s s' d, R s s' -> R (set_doc s d) (set_doc s' d). Proof. intros s s' d H. Rauto H. Qed.
Lemma R_set_post : forall s s' d, R s s' -> R (set_post s d) (set_post s' d). Proof. intros s s' d H. Rauto H. Qed.
Lemma R_set_panic : forall s s', R s s' -> R (set_panic s) (set_panic s'). Proof. intros s s' H. Rauto H. Qed.

Lemma R_declare_all : forall attrs s s', R s s' -> R (declare_all s attrs) (declare_all s' attrs).
Proof.
  induction attrs as [|a r IH]; intros s s' H; simpl; auto.
  destruct (is_xmlns_attr (aname a)); auto.
  fields H. rewrite Ecu. destruct (insert_ns (tcur s') a).
  - apply IH. apply R_set_cur. auto.
  - apply IH. apply R_add_err. auto.
Qed.

Lemma bind_qname_R : forall s s' q, R s s' -> bind_qname s q = bind_qname s' q.
Proof. intros s s' q H. fields H. unfold bind_qname, find_uri. rewrite Ecu, Ens. reflexivity. Qed.

Lemma R_bind_attrs : forall attrs s s' present, R s s' ->
  R (fst (bind_attrs s present attrs)) (fst (bind_attrs s' present attrs)) /\
  snd (bind_attrs s present attrs) = snd (bind_attrs s' present attrs).
Proof.
  induction attrs as [|a r IH]; intros s s' present H; simpl; auto.
  destruct (is_xmlns_attr (aname a)); auto.
  destruct (qprefix (aname a)).
  - rewrite (bind_qname_R s s' (aname a) H). destruct (bind_qname s' (aname a)) as [q err].
    assert (H1 : R (if err then add_err s else s) (if err then add_err s' else s'))
      by (destruct err; auto using R_add_err).
    destruct (existsb _ present).
    + apply IH; auto.
    + destruct (IH _ _ ((qns q, qlocal q) :: present) H1) as [A B].
      destruct (bind_attrs (if err then add_err s else s) _ r) as [x out].
      destruct (bind_attrs (if err then add_err s' else s') _ r) as [x' out'].
      simpl in *. split; congruence.
  - destruct (IH _ _ present H) as [A B].
    destruct (bind_attrs s present r) as [x out]. destruct (bind_attrs s' present r) as [x' out'].
    simpl in *. split; congruence.
Qed.

Lemma R_process_namespaces : forall s s' k name attrs, R s s' ->
  R (fst (fst (process_namespaces s k name attrs))) (fst (fst (process_namespaces s' k name attrs))) /\
  snd (fst (process_namespaces s k name attrs)) = snd (fst (process_namespaces s' k name attrs)) /\
  snd (process_namespaces s k name attrs) = snd (process_namespaces s' k name attrs).
Proof.
  intros s s' k name attrs H. unfold process_namespaces.
  pose proof (R_declare_all attrs s s' H) as H1.
  destruct (R_bind_attrs attrs _ _ [] H1) as [H2 E2].
  destruct (bind_attrs (declare_all s attrs) [] attrs) as [s2 out].
  destruct (bind_attrs (declare_all s' attrs) [] attrs) as [s2' out']. simpl in H2, E2. subst out'.
  rewrite (bind_qname_R s2 s2' name H2). destruct (bind_qname s2' name) as [nm err].
  assert (H3 : R (if err then add_err s2 else s2) (if err then add_err s2' else s2'))
    by (destruct err; auto using R_add_err).
  set (t3 := if err then add_err s2 else s2) in *. set (t3' := if err then add_err s2' else s2') in *.
  fields H3.
  destruct (kind_eqb k StartTag || kind_eqb k EmptyTag && str_eqb (qlocal nm) s_script); simpl;
    (split; [|split; reflexivity]); apply R_intro; simpl; congruence.
Qed.

Lemma R_append_cur : forall s s' n, R s s' -> R (append_cur s n) (append_cur s' n).
Proof.
  intros s s' n H. fields H. unfold append_cur. rewrite Eop.
  destruct (topen s'); [apply R_set_panic|apply R_set_open]; auto.
Qed.

Lemma R_append_text_cur : forall s s' t, R s s' -> R (append_text_cur s t) (append_text_cur s' t).
Proof.
  intros s s' t H. fields H. unfold append_text_cur. rewrite Eop.
  destruct (topen s'); [apply R_set_panic|apply R_set_open]; auto.
Qed.

Lemma R_append_doc : forall s s' n, R s s' -> R (append_doc s n) (append_doc s' n).
Proof.
  intros s s' n H. fields H. unfold append_doc. rewrite Eop, Edo, Epo.
  destruct (is_nil (topen s')); [apply R_set_doc|apply R_set_post]; auto.
Qed.

Lemma R_pop : forall s s', R s s' -> R (pop s) (pop s').
Proof.
  intros s s' H. fields H. unfold pop, detach_top. simpl topen. simpl tdoc. rewrite Eop, Ens, Edo.
  destruct (topen s') as [|f [|g r]] eqn:O; apply R_intro; simpl; congruence.
Qed.

Lemma R_pop_through : forall fuel s s' name, R s s' -> R (pop_through fuel s name) (pop_through fuel s' name).
Proof.
  induction fuel as [|n IH]; intros s s' name H; simpl; auto.
  fields H. rewrite Eop. destruct (topen s') as [|f r]; [apply R_set_panic; auto|].
  destruct (expanded_eqb (fname f) name); [apply R_pop; auto|apply IH; apply R_pop; auto].
Qed.

Lemma R_close_tag : forall s s' name, R s s' -> R (close_tag s name) (close_tag s' name).
Proof.
  intros s s' name H. fields H. unfold close_tag. rewrite Eop.
  destruct (topen s') as [|f r] eqn:O; [apply R_set_panic; auto|].
  assert (H1 : R (if str_eqb (qlocal (fname f)) (qlocal name) then s else add_err s)
                 (if str_eqb (qlocal (fname f)) (qlocal name) then s' else add_err s'))
    by (destruct (str_eqb _ _); auto using R_add_err).
  destruct (R_fields _ _ H1) as (_ & O1 & _). rewrite O1.
  destruct (existsb _ _); auto. apply R_pop_through. auto.
Qed.

Lemma R_push_elem : forall s s' n a src, R s s' -> R (push_elem s n a src) (push_elem s' n a src).
Proof. intros s s' n a src H. fields H. unfold push_elem. rewrite Eop. apply R_set_open. auto. Qed.

Lemma R_end_if_empty : forall s s', R s s' -> R (end_if_empty s) (end_if_empty s').
Proof.
  intros s s' H. fields H. unfold end_if_empty. rewrite Eop.
  destruct (is_nil (topen s')); auto using R_set_phase.
Qed.

(* no rule reads the error count: steps preserve agreement up to it *)
Theorem R_step : forall s s' t, R s s' -> R (step s t) (step s' t).
Proof.
  intros s s' t H. fields H. unfold step. rewrite Eph. destruct (tphase s').
  - destruct t as [k name attrs src|c|c|tg d|n p sy| |]; auto using R_add_err, R_append_doc, R_set_phase.
    + destruct k; auto using R_add_err.
      * destruct (R_process_namespaces s s' StartTag name attrs H) as (A & B & C).
        destruct (process_namespaces s StartTag name attrs) as [[s1 n1] a1].
        destruct (process_namespaces s' StartTag name attrs) as [[s1' n1'] a1']. simpl in A, B, C. subst.
        apply R_push_elem. apply R_set_phase. auto.
      * destruct (R_process_namespaces s s' EmptyTag name attrs H) as (A & B & C).
        destruct (process_namespaces s EmptyTag name attrs) as [[s1 n1] a1].
        destruct (process_namespaces s' EmptyTag name attrs) as [[s1' n1'] a1']. simpl in A, B, C. subst.
        assert (A' : R (set_phase s1 PEnd) (set_phase s1' PEnd)) by (apply R_set_phase; auto).
        destruct (R_fields _ _ A') as (_ & _ & _ & _ & D & _). rewrite D. apply R_set_doc. auto.
    + destruct (ws_only c); auto using R_add_err.
    + rewrite Edo. destruct (existsb is_doctype (tdoc s')); auto using R_add_err, R_append_doc.
  - destruct t as [k name attrs src|c|c|tg d|n p sy| |];
      auto using R_add_err, R_append_cur, R_append_text_cur, R_set_phase.
    destruct k.
    + destruct (R_process_namespaces s s' StartTag name attrs H) as (A & B & C).
      destruct (process_namespaces s StartTag name attrs) as [[s1 n1] a1].
      destruct (process_namespaces s' StartTag name attrs) as [[s1' n1'] a1']. simpl in A, B, C. subst.
      destruct (R_fields _ _ A) as (_ & O1 & _). rewrite O1.
      destruct (topen s1'); auto using R_set_panic, R_push_elem.
    + destruct (R_process_namespaces s s' EndTag name attrs H) as (A & B & C).
      destruct (process_namespaces s EndTag name attrs) as [[s1 n1] a1].
      destruct (process_namespaces s' EndTag name attrs) as [[s1' n1'] a1']. simpl in A, B, C. subst.
      apply R_end_if_empty. apply R_close_tag. auto.
    + destruct (R_process_namespaces s s' EmptyTag name attrs H) as (A & B & C).
      destruct (process_namespaces s EmptyTag name attrs) as [[s1 n1] a1].
      destruct (process_namespaces s' EmptyTag name attrs) as [[s1' n1'] a1']. simpl in A, B, C. subst.
      destruct (str_eqb (qlocal n1') s_script); [|apply R_append_cur; auto].
      destruct (R_fields _ _ A) as (_ & O1 & _). rewrite O1.
      destruct (topen s1'); auto using R_set_panic. apply R_close_tag. apply R_push_elem. auto.
    + rewrite Eop. destruct (topen s'); auto using R_set_panic. apply R_end_if_empty. apply R_pop. auto.
  - destruct t as [k name attrs src|c|c|tg d|n p sy| |]; auto using R_add_err, R_append_doc.
    destruct (ws_only c); auto using R_add_err.
Qed.

Lemma R_run_from : forall l s s', R s s' -> R (run_from s l) (run_from s' l).
Proof. induction l as [|t l IH]; intros s s' H; simpl; auto. apply IH. apply R_step. auto. Qed.

(* ------------------------------------------- one text, two character tokens *)

Lemma append_text_to_app : forall k a b,
  append_text_to (append_text_to k a) b = append_text_to k (a ++ b).
Proof.
  intros k a b. unfold append_text_to. destruct k as [|[] r]; simpl; auto. rewrite app_assoc. reflexivity.
Qed.

Lemma append_text_cur_app : forall s a b,
  append_text_cur (append_text_cur s a) b = append_text_cur s (a ++ b).
Proof.
  intros [ph op ns cu dc po er pa] a b. unfold append_text_cur. simpl.
  destruct op as [|f r]; simpl; [reflexivity|]. rewrite append_text_to_app. reflexivity.
Qed.

Lemma append_text_cur_phase : forall s a, tphase (append_text_cur s a) = tphase s.
Proof. intros s a. unfold append_text_cur. destruct (topen s); reflexivity. Qed.

(* Two consecutive character tokens act like the one token holding both texts:
   in the Start and End phases character data only raises a parse error (when
   it is not white space: here the two sides may count differently, e.g. " x"
   against " " then "x" - one error either way - or "xy" against "x" then "y" -
   one error against two); in the Main phase the second piece is merged into
   the text node the first piece created or extended.  Empty pieces included. *)
Theorem split_step : forall s a b,
  R (step (step s (TChars a)) (TChars b)) (step s (TChars (a ++ b))).
Proof.
  intros s a b. destruct (tphase s) eqn:Ph.
  - assert (S1 : forall x, step s (TChars x) = if ws_only x then s else add_err s)
      by (intro x; unfold step; rewrite Ph; reflexivity).
    assert (S2 : forall t x, tphase t = PStart -> step t (TChars x) = if ws_only x then t else add_err t)
      by (intros t x Pt; unfold step; rewrite Pt; reflexivity).
    rewrite !S1. rewrite S2 by (destruct (ws_only a); exact Ph).
    destruct (ws_only a), (ws_only b), (ws_only (a ++ b)); auto using R_refl, R_add_err_l, R_add_err_r, R_add_err.
  - assert (S1 : forall t x, tphase t = PMain -> step t (TChars x) = append_text_cur t x)
      by (intros t x Pt; unfold step; rewrite Pt; reflexivity).
    rewrite (S1 s a Ph), (S1 s (a ++ b) Ph), S1 by (rewrite append_text_cur_phase; exact Ph).
    rewrite append_text_cur_app. apply R_refl.
  - assert (S1 : forall x, step s (TChars x) = if ws_only x then s else add_err s)
      by (intro x; unfold step; rewrite Ph; reflexivity).
    assert (S2 : forall t x, tphase t = PEnd -> step t (TChars x) = if ws_only x then t else add_err t)
      by (intros t x Pt; unfold step; rewrite Pt; reflexivity).
    rewrite !S1. rewrite S2 by (destruct (ws_only a); exact Ph).
    destruct (ws_only a), (ws_only b), (ws_only (a ++ b)); auto using R_refl, R_add_err_l, R_add_err_r, R_add_err.
Qed.

(* in the Main phase the two sides are EQUAL, error count included *)
Theorem split_step_main : forall s a b, tphase s = PMain ->
  step (step s (TChars a)) (TChars b) = step s (TChars (a ++ b)).
Proof.
  intros s a b Ph.
  assert (S1 : forall t x, tphase t = PMain -> step t (TChars x) = append_text_cur t x)
    by (intros t x Pt; unfold step; rewrite Pt; reflexivity).
  rewrite (S1 s a Ph), (S1 s (a ++ b) Ph), S1 by (rewrite append_text_cur_phase; exact Ph).
  apply append_text_cur_app.
Qed.

(* ------------------------------------------------- token streams *)

(* [splits l l']: l' is l with some character tokens cut into consecutive
   pieces (any number of pieces, empty ones allowed), everything else equal *)
Inductive splits : list token -> list token -> Prop :=
| sp_nil : splits [] []
| sp_same : forall t l l', splits l l' -> splits (t :: l) (t :: l')
| sp_cut : forall a b l l', splits (TChars b :: l) l' -> splits (TChars (a ++ b) :: l) (TChars a :: l').

Theorem splits_run : forall l l', splits l l' ->
  forall s s', R s s' -> R (run_from s l) (run_from s' l').
Proof.
  induction 1 as [|t l l' H IH|a b l l' H IH]; intros s s' HR; simpl.
  - exact HR.
  - apply IH. apply R_step. exact HR.
  - eapply R_trans; [|apply (IH (step s (TChars a)) (step s' (TChars a))); apply R_step; exact HR].
    simpl. apply R_run_from. apply R_sym. apply split_step.
Qed.

Lemma R_document : forall s s', R s s' -> document s = document s'.
Proof. intros s s' H. fields H. unfold document. rewrite Eop, Edo, Epo. reflexivity. Qed.

(* the tree builder's result does not depend on how character data is cut into tokens *)
Theorem splits_parse : forall l l', splits l l' ->
  parse_tokens l = parse_tokens l' /\
  tphase (run l) = tphase (run l') /\ topen (run l) = topen (run l') /\ tnss (run l) = tnss (run l') /\
  tcur (run l) = tcur (run l') /\ tpanic (run l) = tpanic (run l').
Proof.
  intros l l' H. pose proof (splits_run l l' H tb_init tb_init (R_refl _)) as HR.
  split; [apply R_document; exact HR|]. fields HR. auto.
Qed.

(* only the number of parse errors can differ, and it does: "xy" before the
   root element is one error, "x" then "y" are two *)
Example errs_differ :
  splits [TChars [120; 121]] [TChars [120]; TChars [121]] /\
  terrs (run [TChars [120; 121]]) = 1%nat /\ terrs (run [TChars [120]; TChars [121]]) = 2%nat.
Proof.
  split; [|split; reflexivity].
  apply (sp_cut [120] [121] [] [TChars [121]]). apply sp_same. apply sp_nil.
Qed.

(* the same, said once for all components: the final states agree on every
   field except the parse-error counter *)
Theorem splits_noerr : forall l l', splits l l' -> noerr (run l) = noerr (run l').
Proof. intros l l' H. exact (splits_run l l' H tb_init tb_init (R_refl _)). Qed.
