(* C17: the side conditions of the lexing theorems, stated on the TREE, give the per-item conditions
   and the separation of character data by markup for everything the serializer writes. *)
From Coq Require Import List NArith Bool Lia.
From HV Require Import TokIR.IR TokIR.Interp XmlNs.XLexBase XmlNs.XLex XmlNs.XLexTag XmlNs.XLexMisc XmlNs.XLexSer XmlNs.XLexDoc XmlNs.XLexTree.
From HV Require Import XmlNs.XTreeModel XmlNs.XSerModel XmlNs.XSerSpec XmlNs.XSerProofs XmlNs.XRoundTrip.
Import ListNotations.
Local Open Scope N_scope.

(* an attribute as written: its printed name is made of characters the tokenizer keeps in an attribute
   name, its value has no U+0000 *)
Definition attr_lex_ok (a : attr) : bool := raw_ok (attr_rawattr a).
(* the declaration the serializer may write for a name: xmlns / xmlns:prefix and the namespace URI *)
Definition ns_lex_ok (q : qname) : bool := raw_ok (decl_rawattr (qprefix q, Some (qns q))).

Fixpoint node_lex_ok (n : xnode) : bool :=
  match n with
  | XElem name attrs kids =>
    tag_name_ok (qual name) && etag_name_ok (qual name) && forallb attr_lex_ok attrs &&
    forallb ns_lex_ok (tag_names name attrs) &&
    (fix all (l : list xnode) : bool := match l with [] => true | k :: r => node_lex_ok k && all r end) kids
  | XText s => no_nul s && negb (is_nil s)
  | XComment s => comment_ok s
  | XPi t d => pi_target_ok t && pi_data_ok d
  | XDoctype n _ _ => doctype_name_ok n
  end.

Definition lex_hyps (kids : list xnode) : bool := forallb node_lex_ok kids.

Lemma text_sep_app : forall a b, text_sep a = true -> text_sep b = true -> text_sep (a ++ b) = true.
Proof.
  induction a as [|i r IH]; intros b A B; [exact B|].
  simpl in A. apply andb_true_iff in A. destruct A as [A1 A2].
  cbn [app text_sep]. rewrite (IH b A2 B), andb_true_r.
  destruct (is_itext i); [|reflexivity]. destruct r as [|j r']; [discriminate|exact A1].
Qed.

Lemma starts_app : forall a b, starts_with_markup a = true -> starts_with_markup (a ++ b) = true.
Proof. intros [|i r] b H; [discriminate|exact H]. Qed.

Definition all_wf := fix all (l : list xnode) : bool := match l with [] => true | k :: r => node_wf k && all r end.
Definition all_lex := fix all (l : list xnode) : bool := match l with [] => true | k :: r => node_lex_ok k && all r end.

Lemma node_items : forall n st, node_wf n = true -> node_lex_ok n = true -> no_none st ->
  snd (ser_node n st) = st /\ forallb item_ok2 (fst (ser_node n st)) = true /\
  (if is_text n then exists s, fst (ser_node n st) = [IText s]
   else text_sep (fst (ser_node n st)) = true /\ starts_with_markup (fst (ser_node n st)) = true).
Proof.
  fix IH 1. intros n st WF LX N.
  destruct n as [name attrs kids|s|s|t d|nm pb sy].
  - cbn [node_wf] in WF. apply andb_true_iff in WF. destruct WF as [WF WK].
    apply andb_true_iff in WF. destruct WF as [EW KS].
    assert (EC : elem_cons name attrs = true).
    { unfold elem_wf in EW. apply andb_true_iff in EW. apply EW. }
    cbn [node_lex_ok] in LX. apply andb_true_iff in LX. destruct LX as [LX LK].
    apply andb_true_iff in LX. destruct LX as [LX NL]. apply andb_true_iff in LX. destruct LX as [LX AL].
    apply andb_true_iff in LX. destruct LX as [T1 T2].
    rewrite ser_node_elem.
    destruct (start_elem_ok st name attrs N EC) as (decls & SE & N1 & _ & _ & DS). rewrite SE.
    assert (K : forall l prev, all_wf l = true -> all_lex l = true -> kids_shape prev l = true ->
              snd (ser_nodes l (decls :: st)) = decls :: st /\
              forallb item_ok2 (fst (ser_nodes l (decls :: st))) = true /\
              forall tail, text_sep tail = true -> starts_with_markup tail = true ->
                text_sep (fst (ser_nodes l (decls :: st)) ++ tail) = true /\
                (prev = true -> starts_with_markup (fst (ser_nodes l (decls :: st)) ++ tail) = true)).
    { induction l as [|k rest IHl]; intros prev W L SH.
      - simpl. repeat split; auto.
      - simpl in W. apply andb_true_iff in W. destruct W as [W1 W2].
        simpl in L. apply andb_true_iff in L. destruct L as [L1 L2].
        cbn [kids_shape] in SH. apply andb_true_iff in SH. destruct SH as [SH S3].
        apply andb_true_iff in SH. destruct SH as [S1 S2]. apply negb_true_iff in S1.
        destruct (IH k (decls :: st) W1 L1 N1) as (A1 & A2 & A3).
        destruct (IHl (is_text k) W2 L2 S3) as (B1 & B2 & B3).
        cbn [ser_nodes]. destruct (ser_node k (decls :: st)) as [a sa]. cbn [fst snd] in A1, A2, A3. subst sa.
        destruct (ser_nodes rest (decls :: st)) as [b sb]. cbn [fst snd] in B1, B2, B3 |- *.
        split; [exact B1|]. split; [rewrite forallb_app, A2, B2; reflexivity|].
        intros tail TS TM. destruct (B3 tail TS TM) as [C1 C2]. rewrite <- app_assoc.
        destruct (is_text k) eqn:IT.
        + destruct A3 as (s & ->). rewrite andb_true_r in S1. subst prev.
          split; [|discriminate]. cbn [app text_sep is_itext]. rewrite C1, andb_true_r.
          specialize (C2 eq_refl). unfold starts_with_markup in C2. exact C2.
        + destruct A3 as [A3 A4]. split; [apply text_sep_app; auto|]. intros _. apply starts_app. exact A4. }
    destruct (K kids false WK LK KS) as (K1 & K2 & K3).
    destruct (ser_nodes kids (decls :: st)) as [is st2]. cbn [fst snd] in K1, K2, K3. subst st2.
    cbn [end_elem tl fst snd is_text].
    split; [reflexivity|]. split.
    + cbn [forallb]. rewrite forallb_app, K2. cbn [forallb]. unfold item_ok2 at 1 2. cbn [item_ok].
      rewrite T1, T2. rewrite !andb_true_r. simpl andb.
      unfold item_raws. rewrite forallb_app. apply andb_true_iff. split.
      * apply forallb_forall. intros r I. apply in_map_iff in I. destruct I as (kv & <- & I).
        destruct (DS kv I) as (q & Iq & ->). rewrite forallb_forall in NL. apply (NL q Iq).
      * apply forallb_forall. intros r I. apply in_map_iff in I. destruct I as (a & <- & I).
        rewrite forallb_forall in AL. apply (AL a I).
    + destruct (K3 [IEnd name] eq_refl eq_refl) as [C1 _].
      split; [|reflexivity]. cbn [text_sep is_itext]. exact C1.
  - simpl in LX. simpl. split; [reflexivity|]. split; [|eexists; reflexivity].
    unfold item_ok2. simpl. apply andb_true_iff in LX. destruct LX as [L1 L2]. rewrite L1, L2. reflexivity.
  - simpl in LX. simpl. unfold item_ok2. simpl. rewrite LX. auto.
  - simpl in LX. simpl. unfold item_ok2. simpl. rewrite LX. auto.
  - simpl in LX. simpl. unfold item_ok2. simpl. rewrite LX. auto.
Qed.

Lemma misc_items : forall l, forallb is_prolog l = true -> forallb node_lex_ok l = true ->
  forallb item_ok2 (map misc_item l) = true /\ text_sep (map misc_item l) = true /\
  forallb (fun i => negb (is_itext i)) (map misc_item l) = true.
Proof.
  induction l as [|n l IH]; intros P L; [auto|].
  simpl in P, L. apply andb_true_iff in P. destruct P as [P1 P2]. apply andb_true_iff in L. destruct L as [L1 L2].
  destruct (IH P2 L2) as (A & B & C).
  destruct n; try discriminate; cbn [map misc_item forallb text_sep is_itext]; unfold item_ok2 at 1; cbn [item_ok];
    simpl in L1; rewrite L1, A, B, C; auto.
Qed.

Lemma forallb_app_split : forall A (p : A -> bool) a b, forallb p (a ++ b) = true -> forallb p a = true /\ forallb p b = true.
Proof. intros A p a b H. rewrite forallb_app in H. apply andb_true_iff in H. exact H. Qed.

(* the document: the tree-side conditions give the item-side ones *)
Theorem doc_items : forall kids, rt_hyps kids = true -> lex_hyps kids = true ->
  forallb item_ok2 (ser_doc kids) = true /\ text_sep (ser_doc kids) = true /\
  starts_with_markup (ser_doc kids) = true.
Proof.
  intros kids H LX. unfold rt_hyps in H.
  destruct (split_root kids) as [[[pre root] post]|] eqn:SR; [|discriminate].
  destruct (split_root_app _ _ _ _ SR) as [E (nm & a & k & R)]. subst root kids.
  apply andb_true_iff in H. destruct H as [H WF].
  apply andb_true_iff in H. destruct H as [H HM]. apply andb_true_iff in H. destruct H as [HP _].
  unfold lex_hyps in LX. destruct (forallb_app_split _ _ _ _ LX) as [LP LR].
  cbn [forallb] in LR. apply andb_true_iff in LR. destruct LR as [LR LQ].
  unfold ser_doc. rewrite ser_nodes_app. rewrite (ser_misc pre [] HP).
  change (XElem nm a k :: post) with ([XElem nm a k] ++ post).
  rewrite ser_nodes_app. cbn [ser_nodes].
  assert (N0 : no_none []) by (intros m kk []).
  destruct (node_items (XElem nm a k) [] WF LR N0) as (A1 & A2 & A3 & A4).
  destruct (ser_node (XElem nm a k) []) as [ri rs]. cbn [fst snd] in A1, A2, A3, A4. subst rs.
  rewrite (ser_misc post [] (is_misc_prolog _ HM)). cbn [fst]. rewrite !app_nil_r.
  destruct (misc_items pre HP LP) as (P1 & P2 & P3).
  destruct (misc_items post (is_misc_prolog _ HM) LQ) as (Q1 & Q2 & Q3).
  split; [|split].
  - rewrite !forallb_app, P1, A2, Q1. reflexivity.
  - apply text_sep_app; [exact P2|apply text_sep_app; auto].
  - destruct (map misc_item pre) as [|i r] eqn:M.
    + simpl. apply starts_app. exact A4.
    + simpl in P3. apply andb_true_iff in P3. destruct P3 as [P3 _]. exact P3.
Qed.
