(* C16: what "namespaces resolve by lexical scope and no attribute is lost"
   means, written independently of the tree builder model: a declarative
   split of qualified names, the declarations a tag makes (read off its raw
   attribute list), nearest-enclosing-scope lookup, and first-wins
   de-duplication of attributes by expanded name.  Nothing here mentions the
   builder's state. *)
From Coq Require Import List NArith Bool.
From HV Require Import XmlNs.XTreeModel.
Import ListNotations.
Local Open Scope N_scope.

(* ------------------------------------------------------- qualified names *)

Definition nocolon (s : str) : bool := forallb (fun c => negb (c =? colon)) s.

(* cut at the first colon *)
Fixpoint cut_at_colon (s : str) : option (str * str) :=
  match s with
  | [] => None
  | c :: r =>
    if c =? colon then Some ([], r)
    else match cut_at_colon r with Some (p, l) => Some (c :: p, l) | None => None end
  end.

(* prefix:local when there is exactly one colon and it is neither the first
   nor the last character; otherwise the whole name is the local name *)
Definition spec_split (s : str) : option str * str :=
  match cut_at_colon s with
  | Some (p, l) => if negb (is_nil p) && negb (is_nil l) && nocolon l then (Some p, l) else (None, s)
  | None => (None, s)
  end.

(* ----------------------------------------------------------- declarations *)

Inductive akind :=
| KDefaultDecl                                 (* xmlns="..." *)
| KPrefixDecl (p : str)                        (* xmlns:p="..." *)
| KOther (prefix : option str) (local : str).  (* an attribute *)

Definition classify_raw (name : str) : akind :=
  match spec_split name with
  | (None, l) => if str_eqb l s_xmlns then KDefaultDecl else KOther None l
  | (Some p, l) => if str_eqb p s_xmlns then KPrefixDecl l else KOther (Some p) l
  end.

(* the value of the first attribute of the tag that declares [k] *)
Fixpoint first_decl (k : option str) (raws : list rawattr) : option str :=
  match raws with
  | [] => None
  | (n, v) :: r =>
    match classify_raw n with
    | KDefaultDecl => if is_none k then Some v else first_decl k r
    | KPrefixDecl p => if ostr_eqb k (Some p) then Some v else first_decl k r
    | KOther _ _ => first_decl k r
    end
  end.

Definition is_fixed_prefix (k : option str) : bool :=
  ostr_eqb k (Some s_xml) || ostr_eqb k (Some s_xmlns).

(* what one tag says about prefix [k] ([None] = the default namespace):
   None = nothing; Some None = un-binds it; Some (Some u) = binds it to u.
   xml and xmlns cannot be declared, the xmlns URI cannot be bound. *)
Definition tag_binding (k : option str) (raws : list rawattr) : option (option str) :=
  if is_fixed_prefix k then None
  else match first_decl k raws with
       | None => None
       | Some v => if str_eqb v XMLNS_URI then None
                   else if is_nil v then Some None else Some (Some v)
       end.

(* scopes: raw attribute lists of the own tag and of the ancestors, innermost first *)
Fixpoint lookup (k : option str) (scopes : list (list rawattr)) : option (option str) :=
  match scopes with
  | [] => None
  | t :: r => match tag_binding k t with Some b => Some b | None => lookup k r end
  end.

Definition fixed_binding (k : option str) : str :=
  if ostr_eqb k (Some s_xml) then XML_URI
  else if ostr_eqb k (Some s_xmlns) then XMLNS_URI else [].

(* the namespace URI a name with prefix [k] gets ([] = none) *)
Definition resolve (k : option str) (scopes : list (list rawattr)) : str :=
  match lookup k scopes with
  | Some (Some u) => u
  | Some None => []
  | None => fixed_binding k
  end.

(* --------------------------------------------------------------- elements *)

(* the default namespace applies: the prefix None is looked up like any other *)
Definition spec_elem_name (scopes : list (list rawattr)) (rawname : str) : qname :=
  let (p, l) := spec_split rawname in mkq p (resolve p scopes) l.

(* ------------------------------------------------------------- attributes *)

(* unprefixed attributes are in no namespace (an attribute has a non-empty
   name: the tokenizer starts one with a character) *)
Definition spec_attr (scopes : list (list rawattr)) (nv : rawattr) : option attr :=
  if is_nil (fst nv) then None else
  match classify_raw (fst nv) with
  | KOther None l => Some (mka (mkq None [] l) (snd nv))
  | KOther (Some p) l => Some (mka (mkq (Some p) (resolve (Some p) scopes) l) (snd nv))
  | _ => None                                   (* declarations are not attributes *)
  end.

Fixpoint filter_map {A B} (f : A -> option B) (l : list A) : list B :=
  match l with
  | [] => []
  | x :: r => match f x with Some y => y :: filter_map f r | None => filter_map f r end
  end.

(* expanded name; an unprefixed name never equals a prefixed one (a prefixed
   name whose prefix is unbound has the empty URI but is still "prefixed") *)
Definition akey (a : attr) : bool * (str * str) :=
  (negb (is_none (qprefix (aname a))), (qns (aname a), qlocal (aname a))).

Definition akey_eqb (x y : bool * (str * str)) : bool :=
  Bool.eqb (fst x) (fst y) && pair_eqb (snd x) (snd y).

(* keep an attribute unless an earlier one has the same expanded name *)
Fixpoint dedup_from (seen : list (bool * (str * str))) (l : list attr) : list attr :=
  match l with
  | [] => []
  | a :: r =>
    if existsb (akey_eqb (akey a)) seen then dedup_from seen r
    else a :: dedup_from (akey a :: seen) r
  end.

Definition spec_attrs (scopes : list (list rawattr)) (raws : list rawattr) : list attr :=
  dedup_from [] (filter_map (spec_attr scopes) raws).

(* ------------------------------------------------- statements over the tree *)

(* [P scopes name attrs src] for every element of the tree, [scopes] = raw
   attribute lists of the element's ancestors IN THE RESULTING TREE *)
Fixpoint all_elems (P : list (list rawattr) -> qname -> list attr -> tagsrc -> Prop)
         (ctx : list (list rawattr)) (n : bnode) : Prop :=
  match n with
  | BElem name attrs src kids =>
    P ctx name attrs src /\
    (fix all (l : list bnode) : Prop :=
       match l with [] => True | k :: r => all_elems P (snd src :: ctx) k /\ all r end) kids
  | _ => True
  end.

Definition name_scoped (ctx : list (list rawattr)) (name : qname) (_ : list attr) (src : tagsrc) : Prop :=
  name = spec_elem_name (snd src :: ctx) (fst src).

Definition attrs_scoped (ctx : list (list rawattr)) (_ : qname) (attrs : list attr) (src : tagsrc) : Prop :=
  attrs = spec_attrs (snd src :: ctx) (snd src).
