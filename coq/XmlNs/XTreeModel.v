(* Executable model of the XML tree builder (xml5ever/src/tree_builder/mod.rs) at
   TOKEN level, together with the two pieces of the XML tokenizer that decide
   which attributes and which qualified names the tree builder gets to see:
   finish_attribute (tokenizer/mod.rs, as of fix df982ff / 8f1ed74) and QualNameTokenizer /
   process_qname (tokenizer/qname.rs, tokenizer/mod.rs:56-78).

   Strings are lists of code points.  Atoms (Prefix, Namespace, LocalName) are
   interned strings, so atom equality is string equality.
   No proofs here: this file is what the correspondence run executes. *)
From Coq Require Import List NArith Bool.
Import ListNotations.
Local Open Scope N_scope.

Definition str := list N.

Fixpoint str_eqb (a b : str) : bool :=
  match a, b with
  | [], [] => true
  | x :: a', y :: b' => (x =? y) && str_eqb a' b'
  | _, _ => false
  end.

Definition ostr_eqb (a b : option str) : bool :=
  match a, b with
  | None, None => true
  | Some x, Some y => str_eqb x y
  | _, _ => false
  end.

Definition is_nil {A} (l : list A) : bool := match l with [] => true | _ => false end.
Definition is_none {A} (o : option A) : bool := match o with None => true | Some _ => false end.

Definition s_xmlns : str := [120;109;108;110;115].
Definition s_xml : str := [120;109;108].
Definition s_script : str := [115;99;114;105;112;116].
Definition XML_URI : str := [104;116;116;112;58;47;47;119;119;119;46;119;51;46;111;114;103;47;88;77;76;47;49;57;57;56;47;110;97;109;101;115;112;97;99;101].
Definition XMLNS_URI : str := [104;116;116;112;58;47;47;119;119;119;46;119;51;46;111;114;103;47;50;48;48;48;47;120;109;108;110;115;47].
Definition colon : N := 58.

(* ------------------------------------------------------------------ names *)

Record qname := mkq { qprefix : option str; qns : str; qlocal : str }.

(* QualNameTokenizer (qname.rs).  The Rust code walks the BYTES of the name
   with an index; ':' is ASCII and every byte of a multi-byte character is
   >= 0x80, so walking code points visits the same colons and the split point
   denotes the same cut.  The three functions are the three states; "rest = []"
   after the current character is "incr() returned false".
     BeforeName: ':' -> stop (None), else -> InName, incr
     InName    : ':' with a character after it -> valid_index := cur, AfterColon; incr
     AfterColon: ':' -> valid_index := None, stop; else incr            *)
Fixpoint q_after_colon (s : str) (valid : nat) : option nat :=
  match s with
  | [] => Some valid
  | c :: rest => if c =? colon then None else q_after_colon rest valid
  end.

Fixpoint q_in_name (s : str) (cur : nat) : option nat :=
  match s with
  | [] => None
  | c :: rest =>
    if (c =? colon) && negb (is_nil rest) then q_after_colon rest cur
    else q_in_name rest (S cur)
  end.

Definition q_run (s : str) : option nat :=
  match s with
  | [] => None                                  (* run(): slice.is_empty() *)
  | c :: rest => if c =? colon then None else q_in_name rest 1
  end.

(* length of the UTF-8 encoding, for the "len() < 3" shortcut of process_qname *)
Definition u8len (c : N) : N :=
  if c <? 0x80 then 1 else if c <? 0x800 then 2 else if c <? 0x10000 then 3 else 4.
Definition byte_len (s : str) : N := fold_right (fun c n => u8len c + n) 0 s.

Definition qname_split (s : str) : option nat :=
  if byte_len s <? 3 then None else q_run s.

(* process_qname: namespace stays empty, it is set by XmlTreeBuilder::bind_qname *)
Definition process_qname (s : str) : qname :=
  match qname_split s with
  | None => mkq None [] s
  | Some col => mkq (Some (firstn col s)) [] (skipn (S col) s)
  end.

(* ------------------------------------------------------------- attributes *)

Record attr := mka { aname : qname; avalue : str }.

Definition rawattr := (str * str)%type.       (* name and value as typed in the tag *)

(* "is a namespace declaration": xmlns="..." or xmlns:p="..." (p:xmlns is an
   ordinary attribute); the same test orders the tokenizer's attribute list
   and selects the declarations in process_namespaces *)
Definition is_xmlns_attr (q : qname) : bool :=
  (is_none (qprefix q) && str_eqb (qlocal q) s_xmlns) || ostr_eqb (qprefix q) (Some s_xmlns).

(* QualName equality: prefix, namespace and local name *)
Definition qname_eqb (a b : qname) : bool :=
  ostr_eqb (qprefix a) (qprefix b) && str_eqb (qns a) (qns b) && str_eqb (qlocal a) (qlocal b).

(* finish_attribute: [attrs] = current_tag_attrs, (name, value) = current_attr_*.
   The name is split first; a duplicate is an attribute with the same
   qualified name (a.name == qname). *)
Definition finish_attribute (attrs : list attr) (nv : rawattr) : list attr :=
  let (name, value) := nv in
  if is_nil name then attrs
  else
    let q := process_qname name in
    if existsb (fun a => qname_eqb (aname a) q) attrs then attrs
    else
      let a := mka q value in
      if is_xmlns_attr q then a :: attrs      (* insert(0, attr) *)
      else attrs ++ [a].                       (* push(attr) *)

Definition tok_attrs (raws : list rawattr) : list attr :=
  fold_left finish_attribute raws [].

(* ----------------------------------------------------------------- tokens *)

Inductive tagkind := StartTag | EndTag | EmptyTag | ShortTag.

Definition kind_eqb (a b : tagkind) : bool :=
  match a, b with
  | StartTag, StartTag | EndTag, EndTag | EmptyTag, EmptyTag | ShortTag, ShortTag => true
  | _, _ => false
  end.

(* ghost: the raw tag name and raw attribute list a tag token was made from;
   carried along untouched, never inspected by the builder *)
Definition tagsrc := (str * list rawattr)%type.

(* what the tokenizer's state machine has collected when it calls emit_current_tag *)
Inductive rtoken :=
| RTag (k : tagkind) (name : str) (attrs : list rawattr)
| RChars (s : str) | RComment (s : str) | RPi (target data : str)
| RDoctype (name pub sys : option str) | RNull | REof.

(* tokenizer::Token as delivered to the TokenSink (ParseError tokens do not
   reach the tree construction rules and are left out) *)
Inductive token :=
| TTag (k : tagkind) (name : qname) (attrs : list attr) (src : tagsrc)
| TChars (s : str) | TComment (s : str) | TPi (target data : str)
| TDoctype (name pub sys : option str) | TNull | TEof.

(* emit_current_tag: finish_attribute for the pending attribute, process_qname
   on the tag name.  emit_short_tag clears the name first. *)
Definition tokenize (t : rtoken) : token :=
  match t with
  | RTag k name attrs =>
    let name' := match k with ShortTag => [] | _ => name end in
    TTag k (process_qname name') (tok_attrs attrs) (name', attrs)
  | RChars s => TChars s
  | RComment s => TComment s
  | RPi t d => TPi t d
  | RDoctype n p s => TDoctype n p s
  | RNull => TNull
  | REof => TEof
  end.

(* ----------------------------------------------------------- NamespaceMap *)

(* BTreeMap<Option<Prefix>, Option<Namespace>>: only get / insert /
   contains_key are used by the tree builder, so an association list with
   replace-on-insert is the same thing *)
Definition nsmap := list (option str * option str).

Fixpoint nm_get (m : nsmap) (k : option str) : option (option str) :=
  match m with
  | [] => None
  | (k', v) :: r => if ostr_eqb k' k then Some v else nm_get r k
  end.

Definition nm_insert (m : nsmap) (k : option str) (v : option str) : nsmap :=
  (k, v) :: filter (fun kv => negb (ostr_eqb (fst kv) k)) m.

Definition nm_contains (m : nsmap) (k : option str) : bool :=
  match nm_get m k with Some _ => true | None => false end.

Definition nm_empty : nsmap := [].
Definition nm_default : nsmap :=
  [(None, None); (Some s_xml, Some XML_URI); (Some s_xmlns, Some XMLNS_URI)].

(* NamespaceMap::insert_ns; None = Err(..) *)
Definition insert_ns (m : nsmap) (a : attr) : option nsmap :=
  if str_eqb (avalue a) XMLNS_URI then None
  else
    let opt_uri := if is_nil (avalue a) then None else Some (avalue a) in
    let pfx := qprefix (aname a) in
    let loc := qlocal (aname a) in
    if ostr_eqb pfx (Some s_xmlns) && str_eqb loc s_xml then
      (if str_eqb (avalue a) XML_URI then Some m else None)
    else if ostr_eqb pfx (Some s_xmlns) && str_eqb loc s_xmlns then None
    else if ostr_eqb pfx (Some s_xmlns) || (is_none pfx && str_eqb loc s_xmlns) then
      let ns_prefix := if str_eqb loc s_xmlns then None else Some loc in
      if (match opt_uri with Some _ => true | None => false end) && nm_contains m ns_prefix
      then None
      else Some (nm_insert m ns_prefix opt_uri)
    else None.

(* ------------------------------------------------------------------ trees *)

(* the tree the sink ends up with (RcDom): element nodes keep the ghost
   [tagsrc] of the tag that created them *)
Inductive bnode :=
| BElem (name : qname) (attrs : list attr) (src : tagsrc) (kids : list bnode)
| BText (s : str) | BComment (s : str) | BPi (target data : str)
| BDoctype (name pub sys : str).

(* an open element: children most recent first *)
Record frame := mkf { fname : qname; fattrs : list attr; fsrc : tagsrc; fkids : list bnode }.

Definition close_frame (f : frame) : bnode :=
  BElem (fname f) (fattrs f) (fsrc f) (rev (fkids f)).

Inductive phase := PStart | PMain | PEnd.

Record tb := mktb {
  tphase : phase;
  topen : list frame;            (* open_elems, current node first *)
  tnss : list nsmap;             (* namespace_stack, most recently pushed first *)
  tcur : nsmap;                  (* current_namespace *)
  tdoc : list bnode;             (* children of the document, most recent first *)
  tpost : list bnode;            (* document children appended while the root is still open *)
  terrs : nat;                   (* sink.parse_error calls made by the tree builder *)
  tpanic : bool                  (* an expect()/unwrap() of the Rust code would have fired *)
}.

Definition tb_init : tb := mktb PStart [] [nm_default] nm_empty [] [] 0 false.

Definition set_phase (s : tb) (p : phase) : tb :=
  mktb p (topen s) (tnss s) (tcur s) (tdoc s) (tpost s) (terrs s) (tpanic s).
Definition set_open (s : tb) (o : list frame) : tb :=
  mktb (tphase s) o (tnss s) (tcur s) (tdoc s) (tpost s) (terrs s) (tpanic s).
Definition set_nss (s : tb) (n : list nsmap) : tb :=
  mktb (tphase s) (topen s) n (tcur s) (tdoc s) (tpost s) (terrs s) (tpanic s).
Definition set_cur (s : tb) (c : nsmap) : tb :=
  mktb (tphase s) (topen s) (tnss s) c (tdoc s) (tpost s) (terrs s) (tpanic s).
Definition set_doc (s : tb) (d : list bnode) : tb :=
  mktb (tphase s) (topen s) (tnss s) (tcur s) d (tpost s) (terrs s) (tpanic s).
Definition set_post (s : tb) (d : list bnode) : tb :=
  mktb (tphase s) (topen s) (tnss s) (tcur s) (tdoc s) d (terrs s) (tpanic s).
Definition add_err (s : tb) : tb :=
  mktb (tphase s) (topen s) (tnss s) (tcur s) (tdoc s) (tpost s) (S (terrs s)) (tpanic s).
Definition set_panic (s : tb) : tb :=
  mktb (tphase s) (topen s) (tnss s) (tcur s) (tdoc s) (tpost s) (terrs s) true.

(* find_uri: current_namespace first, then the stack from its top *)
Fixpoint find_in (maps : list nsmap) (p : option str) : option (option str) :=
  match maps with
  | [] => None
  | m :: r => match nm_get m p with Some v => Some v | None => find_in r p end
  end.

Definition find_uri (s : tb) (p : option str) : option (option str) :=
  find_in (tcur s :: tnss s) p.

(* bind_qname: (name with its namespace set, error reported?) *)
Definition bind_qname (s : tb) (q : qname) : qname * bool :=
  match find_uri s (qprefix q) with
  | Some (Some u) => (mkq (qprefix q) u (qlocal q), false)
  | Some None => (mkq (qprefix q) [] (qlocal q), false)
  | None => (q, true)
  end.

Definition pair_eqb (a b : str * str) : bool :=
  str_eqb (fst a) (fst b) && str_eqb (snd a) (snd b).

(* declare_ns over the xmlns-ish attributes, in the order of tag.attrs *)
Fixpoint declare_all (s : tb) (attrs : list attr) : tb :=
  match attrs with
  | [] => s
  | a :: r =>
    if is_xmlns_attr (aname a) then
      match insert_ns (tcur s) a with
      | Some m => declare_all (set_cur s m) r
      | None => declare_all (add_err s) r
      end
    else declare_all s r
  end.

(* second loop of process_namespaces: bind_attr_qname + check_duplicate_attr;
   [present] = present_attrs *)
Fixpoint bind_attrs (s : tb) (present : list (str * str)) (attrs : list attr)
  : tb * list attr :=
  match attrs with
  | [] => (s, [])
  | a :: r =>
    if is_xmlns_attr (aname a) then bind_attrs s present r
    else
      match qprefix (aname a) with
      | None => let (s', out) := bind_attrs s present r in (s', a :: out)
      | Some _ =>
        let (q, err) := bind_qname s (aname a) in
        let s1 := if err then add_err s else s in
        let pair := (qns q, qlocal q) in
        if existsb (pair_eqb pair) present then bind_attrs s1 present r
        else let (s', out) := bind_attrs s1 (pair :: present) r in (s', mka q (avalue a) :: out)
      end
  end.

(* process_namespaces: returns the state and the rewritten (name, attrs) *)
Definition process_namespaces (s : tb) (k : tagkind) (name : qname) (attrs : list attr)
  : tb * qname * list attr :=
  let s1 := declare_all s attrs in
  let (s2, attrs') := bind_attrs s1 [] attrs in
  let (name', err) := bind_qname s2 name in
  let s3 := if err then add_err s2 else s2 in
  let x := tcur s3 in
  let s4 := set_cur s3 nm_empty in
  let s5 :=
    if kind_eqb k StartTag || (kind_eqb k EmptyTag && str_eqb (qlocal name') s_script)
    then set_nss s4 (x :: tnss s4) else s4 in
  (s5, name', attrs').

(* RcDom::append with AppendText: merge into a trailing text node *)
Definition append_text_to (kids : list bnode) (t : str) : list bnode :=
  match kids with
  | BText u :: r => BText (u ++ t) :: r
  | _ => BText t :: kids
  end.

(* append to the current node (insert_appropriately / append_*_to_tag) *)
Definition append_cur (s : tb) (n : bnode) : tb :=
  match topen s with
  | [] => set_panic s                       (* expect("no current element") *)
  | f :: r => set_open s (mkf (fname f) (fattrs f) (fsrc f) (n :: fkids f) :: r)
  end.

Definition append_text_cur (s : tb) (t : str) : tb :=
  match topen s with
  | [] => set_panic s
  | f :: r => set_open s (mkf (fname f) (fattrs f) (fsrc f) (append_text_to (fkids f) t) :: r)
  end.

(* append to the document node *)
Definition append_doc (s : tb) (n : bnode) : tb :=
  if is_nil (topen s) then set_doc s (n :: tdoc s) else set_post s (n :: tpost s).

(* the node was appended to its parent when it was created; in this functional
   model it is attached when it leaves open_elems *)
Definition detach_top (s : tb) : tb :=
  match topen s with
  | [] => set_panic s
  | [f] => set_doc (set_open s []) (close_frame f :: tdoc s)
  | f :: g :: r =>
    set_open s (mkf (fname g) (fattrs g) (fsrc g) (close_frame f :: fkids g) :: r)
  end.

(* XmlTreeBuilder::pop: namespace_stack.pop(); open_elems.pop().expect(..) *)
Definition pop (s : tb) : tb :=
  detach_top (set_nss s (tl (tnss s))).

Definition expanded_eqb (a b : qname) : bool :=
  str_eqb (qns a) (qns b) && str_eqb (qlocal a) (qlocal b).

(* pop_until(|p| p == tag.name.expanded()) followed by pop() *)
Fixpoint pop_through (fuel : nat) (s : tb) (name : qname) : tb :=
  match fuel with
  | O => s
  | S n =>
    match topen s with
    | [] => set_panic s
    | f :: _ => if expanded_eqb (fname f) name then pop s else pop_through n (pop s) name
    end
  end.

Definition close_tag (s : tb) (name : qname) : tb :=
  match topen s with
  | [] => set_panic s                       (* self.current_node() *)
  | f :: _ =>
    let s1 := if str_eqb (qlocal (fname f)) (qlocal name) then s else add_err s in
    if existsb (fun g => expanded_eqb (fname g) name) (topen s1)
    then pop_through (length (topen s1)) s1 name
    else s1
  end.

Definition push_elem (s : tb) (name : qname) (attrs : list attr) (src : tagsrc) : tb :=
  set_open s (mkf name attrs src [] :: topen s).

Definition end_if_empty (s : tb) : tb :=
  if is_nil (topen s) then set_phase s PEnd else s.

Definition ws_only (t : str) : bool :=
  forallb (fun c => (c =? 9) || (c =? 13) || (c =? 10) || (c =? 12) || (c =? 32)) t.

Definition ostr (o : option str) : str := match o with Some x => x | None => [] end.

Definition is_doctype (b : bnode) : bool := match b with BDoctype _ _ _ => true | _ => false end.

(* XmlTreeBuilder::step, including the Reprocess(End, Eof) round *)
Definition step (s : tb) (t : token) : tb :=
  match tphase s with
  | PStart =>
    match t with
    | TTag StartTag name attrs src =>
      let '(s1, name', attrs') := process_namespaces s StartTag name attrs in
      push_elem (set_phase s1 PMain) name' attrs' src
    | TTag EmptyTag name attrs src =>
      let '(s1, name', attrs') := process_namespaces s EmptyTag name attrs in
      let s2 := set_phase s1 PEnd in
      set_doc s2 (BElem name' attrs' src [] :: tdoc s2)
    | TComment c => append_doc s (BComment c)
    | TPi tg d => append_doc s (BPi tg d)
    | TChars c => if ws_only c then s else add_err s
    | TEof => set_phase (add_err s) PEnd
    | TDoctype n p sy =>
      (* a second DOCTYPE in the start phase is a parse error and is ignored (doctype_seen in the Rust code) *)
      if existsb is_doctype (tdoc s) then add_err s
      else append_doc s (BDoctype (ostr n) (ostr p) (ostr sy))
    | _ => add_err s
    end
  | PMain =>
    match t with
    | TChars c => append_text_cur s c
    | TTag StartTag name attrs src =>
      let '(s1, name', attrs') := process_namespaces s StartTag name attrs in
      match topen s1 with
      | [] => set_panic s1
      | _ => push_elem s1 name' attrs' src
      end
    | TTag EmptyTag name attrs src =>
      let '(s1, name', attrs') := process_namespaces s EmptyTag name attrs in
      if str_eqb (qlocal name') s_script then
        match topen s1 with
        | [] => set_panic s1
        | _ => close_tag (push_elem s1 name' attrs' src) name'
        end
      else append_cur s1 (BElem name' attrs' src [])
    | TTag EndTag name attrs src =>
      let '(s1, name', _) := process_namespaces s EndTag name attrs in
      end_if_empty (close_tag s1 name')
    | TTag ShortTag _ _ _ =>
      match topen s with
      | [] => set_panic s
      | _ => end_if_empty (pop s)
      end
    | TComment c => append_cur s (BComment c)
    | TPi tg d => append_cur s (BPi tg d)
    | TEof | TNull => set_phase s PEnd
    | TDoctype _ _ _ => add_err s
    end
  | PEnd =>
    match t with
    | TComment c => append_doc s (BComment c)
    | TPi tg d => append_doc s (BPi tg d)
    | TChars c => if ws_only c then s else add_err s
    | TEof => s
    | _ => add_err s
    end
  end.

Definition run_from (s : tb) (toks : list token) : tb := fold_left step toks s.
Definition run (toks : list token) : tb := run_from tb_init toks.

(* TokenSink::end drains open_elems; the document as RcDom holds it afterwards *)
Fixpoint close_all (open : list frame) (acc : option bnode) : option bnode :=
  match open with
  | [] => acc
  | f :: r =>
    let kids := match acc with Some n => n :: fkids f | None => fkids f end in
    close_all r (Some (BElem (fname f) (fattrs f) (fsrc f) (rev kids)))
  end.

Definition document (s : tb) : list bnode :=
  rev (tdoc s) ++ (match close_all (topen s) None with Some n => [n] | None => [] end)
  ++ rev (tpost s).

Definition parse_tokens (toks : list token) : list bnode := document (run toks).
Definition parse_raw (rt : list rtoken) : list bnode := parse_tokens (map tokenize rt).

(* the tree without ghosts: what can be compared with RcDom and serialized *)
Inductive xnode :=
| XElem (name : qname) (attrs : list attr) (kids : list xnode)
| XText (s : str) | XComment (s : str) | XPi (target data : str)
| XDoctype (name pub sys : str).

Fixpoint erase (n : bnode) : xnode :=
  match n with
  | BElem name attrs _ kids => XElem name attrs (map erase kids)
  | BText s => XText s
  | BComment s => XComment s
  | BPi t d => XPi t d
  | BDoctype n p s => XDoctype n p s
  end.
