(* C17, lexing side: the per-item theorems chained over everything the serializer writes for a document. *)
From Coq Require Import List NArith Bool Lia.
From RecordUpdate Require Import RecordSet.
From HV Require Import TokIR.IR TokIR.Interp XmlNs.XLexBase XmlNs.XLex XmlNs.XLexTag XmlNs.XLexMisc XmlNs.XLexSer.
From HV Require XmlNs.XTreeModel XmlNs.XSerModel XmlNs.XSerSpec XmlNs.XRoundTrip.
Import ListNotations RecordSetNotations.
Local Open Scope N_scope.

(* the tokens the interpreter delivers for an item, oldest first *)
Definition lex_item (i : SM.item) : list token :=
  match i with
  | SM.IStart name decls attrs =>
    tag_errs_of (SM.qual name) (XRoundTrip.item_raws decls attrs) ++
    [TTag TStartTag (SM.qual name) false (tag_attrs_of (XRoundTrip.item_raws decls attrs)) false]
  | SM.IEnd name => bad_errs (SM.qual name) ++ [TTag TEndTag (SM.qual name) false [] false]
  | SM.IText s => exp_text s
  | SM.IComment s => comment_toks s
  | SM.IPi t d => pi_toks t d
  | SM.IDoctype n => doctype_toks n
  end.

(* the side conditions, item by item *)
Definition item_ok (i : SM.item) : bool :=
  match i with
  | SM.IStart name decls attrs => tag_name_ok (SM.qual name) && forallb raw_ok (XRoundTrip.item_raws decls attrs)
  | SM.IEnd name => etag_name_ok (SM.qual name)
  | SM.IText s => XSerSpec.no_nul s
  | SM.IComment s => comment_ok s
  | SM.IPi t d => pi_target_ok t && pi_data_ok d
  | SM.IDoctype n => doctype_name_ok n
  end.

Definition is_itext (i : SM.item) : bool := match i with SM.IText _ => true | _ => false end.
(* character data is always followed by markup *)
Fixpoint text_sep (l : list SM.item) : bool :=
  match l with
  | [] => true
  | i :: r => (if is_itext i then match r with [] => false | j :: _ => negb (is_itext j) end else true) && text_sep r
  end.

Lemma markup_starts : forall i, is_itext i = false -> exists q, SM.render_item i = 60 :: q.
Proof. intros [nm d a|nm|s|s|t d|n] H; try discriminate; simpl; eexists; reflexivity. Qed.

Section L.
Variable tb : table xstate.
Hypothesis TB : xml_bodies tb.
Hypothesis TM : xml_misc_bodies tb.
Variable simd : list N * list N * list N.
Variable ent : list N -> option (N * N).
Variable c1 : N -> option N.
Variable sk : sinkcfg.
Hypothesis E5 : ent_five ent.
Hypothesis NoScript : sk_resp sk = [].
Notation xsteps := (xsteps tb simd ent c1 sk).
Notation xsteps_trans := (xsteps_trans tb simd ent c1 sk).

(* one item *)
Lemma item_lex : forall i b cu tk tn ta rest o k,
  bg_clean b -> item_ok i = true -> (is_itext i = true -> exists q, rest = 60 :: q) ->
  exists cu' tk' tn' ta' o' k',
    xsteps (mkM b XData false cu false None tk tn ta [] [] (SM.render_item i ++ rest) o k)
           (mkM b XData false cu' false None tk' tn' ta' [] [] rest o' k') /\
    otoks o' = rev (lex_item i) ++ otoks o.
Proof.
  intros i b cu tk tn ta rest o k CL OK TX. destruct i as [nm d a|nm|s|s|t d|n]; simpl in OK.
  - apply andb_true_iff in OK. destruct OK as [O1 O2].
    destruct (start_tag_lex tb TB simd ent c1 sk E5 (SM.qual nm) (XRoundTrip.item_raws d a) b cu tk tn ta rest o k O1 O2)
      as (o' & k' & S & T).
    exists 62, TStartTag, [], [], o', k'. split.
    + rewrite render_start_shape. rewrite <- !app_assoc. exact S.
    + rewrite T. unfold lex_item. rewrite rev_app_distr. reflexivity.
  - destruct (end_tag_lex tb TB simd ent c1 sk NoScript (SM.qual nm) b cu tk tn ta rest o k OK) as (o' & k' & S & T).
    exists 62, TEndTag, [], [], o', k'. split; [|rewrite T; unfold lex_item; rewrite rev_app_distr; reflexivity].
    unfold SM.render_item. rewrite <- !app_assoc. exact S.
  - destruct (TX eq_refl) as (q & ->).
    destruct (text_lex tb TB simd ent c1 sk E5 s b cu tk tn ta [] [] q o k OK) as (cu' & o' & k' & S & T).
    exists cu', tk, tn, ta, o', k'. split; [exact S|exact T].
  - destruct (comment_lex tb TB TM simd ent c1 sk s b cu tk tn ta [] [] rest o k CL OK) as (o' & k' & S & T).
    exists 62, tk, tn, ta, o', k'. split; [|exact T].
    unfold SM.render_item. rewrite <- !app_assoc. exact S.
  - apply andb_true_iff in OK. destruct OK as [O1 O2].
    destruct (pi_lex tb TB TM simd ent c1 sk t d b cu tk tn ta [] [] rest o k CL O1 O2) as (o' & k' & S & T).
    exists 62, tk, tn, ta, o', k'. split; [|exact T].
    unfold SM.render_item. rewrite <- !app_assoc. exact S.
  - destruct (doctype_lex tb TB TM simd ent c1 sk n b cu tk tn ta [] [] rest o k CL OK) as (o' & k' & S & T).
    exists 62, tk, tn, ta, o', k'. split; [|rewrite T; reflexivity].
    unfold SM.render_item. rewrite <- !app_assoc. exact S.
Qed.

(* (ii) the whole item list *)
Theorem items_lex : forall items b cu tk tn ta rest o k,
  bg_clean b -> forallb item_ok items = true -> text_sep items = true ->
  exists cu' tk' tn' ta' o' k',
    xsteps (mkM b XData false cu false None tk tn ta [] [] (SM.render items ++ rest) o k)
           (mkM b XData false cu' false None tk' tn' ta' [] [] rest o' k') /\
    otoks o' = rev (flat_map lex_item items) ++ otoks o.
Proof.
  induction items as [|i r IH]; intros b cu tk tn ta rest o k CL OK SEP.
  - exists cu, tk, tn, ta, o, k. split; [apply xs_refl|reflexivity].
  - simpl in OK. apply andb_true_iff in OK. destruct OK as [O1 O2].
    simpl in SEP. apply andb_true_iff in SEP. destruct SEP as [P1 P2].
    assert (TX : is_itext i = true -> exists q, SM.render r ++ rest = 60 :: q).
    { intro IT. rewrite IT in P1. destruct r as [|j r']; [discriminate|]. apply negb_true_iff in P1.
      destruct (markup_starts j P1) as (q & Q). exists (q ++ SM.render r' ++ rest).
      unfold SM.render. simpl. fold (SM.render r'). rewrite Q. simpl. rewrite <- app_assoc. reflexivity. }
    destruct (item_lex i b cu tk tn ta (SM.render r ++ rest) o k CL O1 TX) as (cu1 & tk1 & tn1 & ta1 & o1 & k1 & S1 & T1).
    destruct (IH b cu1 tk1 tn1 ta1 rest o1 k1 CL O2 P2) as (cu2 & tk2 & tn2 & ta2 & o2 & k2 & S2 & T2).
    exists cu2, tk2, tn2, ta2, o2, k2. split.
    + unfold SM.render. simpl. fold (SM.render r). rewrite <- app_assoc. eapply xsteps_trans; [exact S1|exact S2].
    + rewrite T2, T1. simpl. rewrite rev_app_distr, <- app_assoc. reflexivity.
Qed.

(* ---- the whole run of the driver: one chunk, then the end of the input *)
Definition init_b (bom : bool) : bg := mkbg bom [] false false [] None None None false [] [] None 1.
Definition init_m (bom : bool) : mach xstate (list N) :=
  mkM (init_b bom) XData false 0 false None TStartTag [] [] [] [] [] [] 0.
Lemma init_m_eq : forall bom, init_m bom = mkmach (init_cfg XData None bom) [] [] 0.
Proof. reflexivity. Qed.

Definition xfeed := @feed xstate (list N) [] fq_next fq_peek (@app N) (fun q => q) fq_run1 xml_flavour true tb simd ent c1 sk.
Definition xend := @tok_end xstate (list N) [] fq_next fq_peek (@app N) (fun q => q) fq_run1 xml_flavour true tb simd ent c1 sk.
Definition xdrive := @drive_flat xstate xml_flavour true tb simd ent c1 sk.

Lemma data_empty_suspends : forall at_eof b cu tk tn ta an av o k,
  step [] fq_next fq_peek (@app N) (fun q => q) fq_run1 xml_flavour true tb simd ent c1 sk at_eof
       (mkM b XData false cu false None tk tn ta an av [] o k) =
  (mkM b XData false cu false None tk tn ta an av [] o k, SSuspend).
Proof.
  intros. unfold step, mkM. cbn [mc cref st]. rewrite (tb_data _ TB). cbv -[N.add N.sub]. reflexivity.
Qed.

Lemma feed_start : forall fuel bom q,
  xfeed fuel (mkM (init_b bom) XData false 0 false None TStartTag [] [] [] [] (60 :: q) [] 0) =
  xrun tb simd ent c1 sk fuel (mkM (init_b false) XData false 0 false None TStartTag [] [] [] [] (60 :: q) [] 0).
Proof. intros fuel [|] q; reflexivity. Qed.

Lemma end_at_data : forall f b cu tk tn ta an av o k,
  xend (S f) (mkM b XData false cu false None tk tn ta an av [] o k) =
  (mkM b XData false cu false None tk tn ta an av [] ((TEof, b_line b, k) :: o) k, SSuspend).
Proof.
  intros. unfold xend, tok_end. cbn [cref mc mkM mq]. 
  change ((mkM b XData false cu false None tk tn ta an av [] o k) <| mq := [] |>) with (mkM b XData false cu false None tk tn ta an av [] o k).
  change (cref (mc (mkM b XData false cu false None tk tn ta an av [] o k))) with (@None crt). cbv iota beta.
  cbn [run]. rewrite data_empty_suspends.
  change (fq_peek (mq (mkM b XData false cu false None tk tn ta an av [] o k))) with (@None N). cbv iota beta.
  cbn [eof_loop]. change (st (mc (mkM b XData false cu false None tk tn ta an av [] o k))) with XData.
  rewrite (tm_eof_data _ TM). reflexivity.
Qed.

Lemma feed_loop_suspends : forall n fuel inj m log m',
  xfeed fuel m = (m', SSuspend) ->
  feed_loop [] fq_next fq_peek (@app N) (fun q => q) fq_run1 xml_flavour true tb simd ent c1 sk (S n) fuel inj m log =
  (m', SSuspend :: log).
Proof. intros n fuel inj m log m' H. unfold xfeed in H. cbn [feed_loop]. rewrite H. reflexivity. Qed.

Definition starts_with_markup (items : list SM.item) : bool :=
  match items with i :: _ => negb (is_itext i) | [] => false end.

(* the driver of the reference semantics (flat queue, exact_errors = true) on the serializer's output, given as
   one chunk: with enough fuel it suspends twice (end of the chunk, end of the input) and has delivered
   the tokens of the items, then the end-of-file token *)
Theorem doc_lex : forall items bom,
  starts_with_markup items = true -> forallb item_ok items = true -> text_sep items = true ->
  exists n, forall f, exists m',
    xdrive (n + S f)%nat [] [SM.render items] (init_m bom) [] = (m', [SSuspend; SSuspend]) /\
    otoks (mout m') = TEof :: rev (flat_map lex_item items).
Proof.
  intros items bom ST OK SEP.
  assert (CL : bg_clean (init_b false)) by (repeat split).
  destruct (items_lex items (init_b false) 0 TStartTag [] [] [] [] 0 CL OK SEP) as (cu & tk & tn & ta & o & k & Stp & T).
  rewrite app_nil_r in Stp, T.
  destruct (xsteps_run tb simd ent c1 sk _ _ Stp) as [n RN]. exists n. intro f.
  assert (Q : exists q, SM.render items = 60 :: q).
  { destruct items as [|i r]; [discriminate|]. simpl in ST. apply negb_true_iff in ST.
    destruct (markup_starts i ST) as (q & E). exists (q ++ SM.render r). unfold SM.render. simpl. rewrite E. reflexivity. }
  destruct Q as (q & Q). rewrite Q in *.
  eexists. split.
  - unfold xdrive, drive_flat. cbn [drive].
    change (init_m bom <| mq ::= (fun q0 : list N => q0 ++ 60 :: q) |>)
      with (mkM (init_b bom) XData false 0 false None TStartTag [] [] [] [] (60 :: q) [] 0).
    rewrite (feed_loop_suspends 49 (n + S f) [] _ [] (mkM (init_b false) XData false cu false None tk tn ta [] [] [] o k)).
    + cbn [drive]. fold xend. replace (n + S f)%nat with (S (n + f)) by lia. rewrite end_at_data. reflexivity.
    + rewrite feed_start. rewrite RN. unfold xrun. cbn [run]. rewrite data_empty_suspends. reflexivity.
  - unfold mkM, otoks. cbn [mout map fst]. unfold otoks in T. rewrite T. reflexivity.
Qed.

End L.
