(* C17, lexing side: what the TokIR interpreter reads back from the serializer's items is what the
   tree builder model is fed in the round-trip theorem (XRoundTrip: tokenize (item_rtoken i)). *)
From Coq Require Import List NArith Bool Lia.
From HV Require Import TokIR.IR TokIR.Interp XmlNs.XLexBase XmlNs.XLex XmlNs.XLexTag.
From HV Require XmlNs.XTreeModel XmlNs.XTreeSpec XmlNs.XTreeProofs XmlNs.XSerModel XmlNs.XSerSpec XmlNs.XRoundTrip.
Import ListNotations.
Local Open Scope N_scope.

Module TM := XTreeModel.
Module SM := XSerModel.

(* ---- the two models of the tokenizer's name handling agree *)
Lemma str_eqb_same : forall a b, Interp.str_eqb a b = TM.str_eqb a b.
Proof. induction a as [|x a IH]; destruct b as [|y b]; simpl; auto. Qed.

Lemma qn_after_nocolon : forall t, qn_after t = XTreeSpec.nocolon t.
Proof. induction t as [|c t IH]; simpl; auto. unfold TM.colon. destruct (c =? 58); simpl; auto. Qed.

Lemma qn_in_spec : forall s pre,
  qn_in pre s =
  match XTreeSpec.cut_at_colon s with
  | Some (p, l) => if negb (TM.is_nil l) && XTreeSpec.nocolon l then Some (rev pre ++ p, l) else None
  | None => None
  end.
Proof.
  induction s as [|c t IH]; intro pre; simpl; auto.
  unfold TM.colon. destruct (c =? 58) eqn:E; simpl.
  - destruct t as [|d t']; simpl.
    + reflexivity.
    + rewrite app_nil_r. unfold TM.colon. destruct (d =? 58); simpl; [reflexivity|]. rewrite qn_after_nocolon. reflexivity.
  - rewrite IH. destruct (XTreeSpec.cut_at_colon t) as [[p l]|]; auto.
    simpl. rewrite <- app_assoc. reflexivity.
Qed.

Lemma qname_split_same : forall s, Interp.qname_split s = XTreeSpec.spec_split s.
Proof.
  intros [|c t]; [reflexivity|]. unfold Interp.qname_split, XTreeSpec.spec_split. simpl.
  unfold TM.colon. destruct (c =? 58) eqn:E; simpl; [reflexivity|].
  rewrite qn_in_spec. destruct (XTreeSpec.cut_at_colon t) as [[p l]|]; auto.
  simpl. destruct (negb (TM.is_nil l) && XTreeSpec.nocolon l); reflexivity.
Qed.

Definition conv_attr (nv : str * str) : TM.attr := TM.mka (TM.process_qname (fst nv)) (snd nv).

Lemma fa_front_same : forall n, fa_front n = TM.is_xmlns_attr (TM.process_qname n).
Proof.
  intro n. unfold fa_front, TM.is_xmlns_attr. rewrite qname_split_same, XTreeProofs.process_qname_spec. simpl.
  destruct (XTreeSpec.spec_split n) as [[p|] l]; simpl; rewrite str_eqb_same; [reflexivity|].
  rewrite orb_false_r. reflexivity.
Qed.

Lemma dup_same : forall ta n,
  existsb (fun a => Interp.str_eqb (fst a) n) ta =
  existsb (fun a => TM.qname_eqb (TM.aname a) (TM.process_qname n)) (map conv_attr ta).
Proof.
  induction ta as [|[m v] ta IH]; intro n; simpl; auto. rewrite IH. f_equal.
  rewrite str_eqb_same. destruct (TM.str_eqb m n) eqn:E.
  - apply XTreeProofs.str_eqb_eq in E. subst. symmetry. apply XTreeProofs.qname_eqb_eq. reflexivity.
  - destruct (TM.qname_eqb (TM.process_qname m) (TM.process_qname n)) eqn:Q; auto.
    apply XTreeProofs.qname_eqb_eq in Q. apply XTreeProofs.process_qname_inj in Q. subst.
    rewrite XTreeProofs.str_eqb_refl in E. discriminate.
Qed.

Lemma fa_ta_same : forall ta n v, n <> [] ->
  map conv_attr (fa_ta ta n v) = TM.finish_attribute (map conv_attr ta) (n, v).
Proof.
  intros ta n v NE. unfold fa_ta, TM.finish_attribute, fa_dup. destruct n as [|c r]; [congruence|].
  simpl negb. simpl andb. cbn [TM.is_nil]. rewrite dup_same.
  destruct (existsb _ (map conv_attr ta)); [reflexivity|].
  rewrite fa_front_same. destruct (TM.is_xmlns_attr (TM.process_qname (c :: r))); simpl; [reflexivity|].
  rewrite map_app. reflexivity.
Qed.

Lemma pend_fold : forall l ta an av,
  (let '(ta', an', av') := pend ta an av l in fa_ta ta' an' av') =
  fold_left (fun t nv => fa_ta t (fst nv) (snd nv)) l (fa_ta ta an av).
Proof. induction l as [|[n v] l IH]; intros ta an av; simpl; auto. Qed.

(* the attribute list of the token TokIR emits = the attribute list the tree builder model is given *)
Theorem tag_attrs_same : forall l, forallb (fun nv => negb (TM.is_nil (fst nv))) l = true ->
  map conv_attr (tag_attrs_of l) = TM.tok_attrs l.
Proof.
  intros l NE. unfold tag_attrs_of. rewrite (pend_fold l [] [] []). unfold TM.tok_attrs.
  change (fa_ta [] [] []) with (@nil (str * str)).
  assert (G : forall l t, forallb (fun nv => negb (TM.is_nil (fst nv))) l = true ->
              map conv_attr (fold_left (fun t nv => fa_ta t (fst nv) (snd nv)) l t) =
              fold_left TM.finish_attribute l (map conv_attr t)).
  { induction l0 as [|[n v] l0 IH]; intros t H; simpl; auto.
    simpl in H. apply andb_true_iff in H. destruct H as [H1 H2].
    rewrite IH; auto. rewrite fa_ta_same; auto. destruct n; [discriminate|discriminate]. }
  apply (G l []); auto.
Qed.

(* ---- what the serializer writes for a start tag has the shape start_tag_lex reads *)
Lemma render_start_shape : forall name decls attrs,
  SM.render_item (SM.IStart name decls attrs) =
  [60] ++ SM.qual name ++ flat_map render_raw (XRoundTrip.item_raws decls attrs) ++ [62].
Proof.
  intros. unfold SM.render_item, XRoundTrip.item_raws. rewrite flat_map_app.
  assert (D : forall ds, flat_map SM.render_decl ds = flat_map render_raw (map SM.decl_rawattr ds)).
  { induction ds as [|d ds IH]; simpl; auto. rewrite IH. f_equal. }
  assert (A : forall l, flat_map SM.render_attr l = flat_map render_raw (map SM.attr_rawattr l)).
  { induction l as [|a r IH]; simpl; auto. rewrite IH. reflexivity. }
  rewrite D, A. rewrite <- !app_assoc. reflexivity.
Qed.

Section L.
Variable tb : table xstate.
Hypothesis TB : xml_bodies tb.
Variable simd : list N * list N * list N.
Variable ent : list N -> option (N * N).
Variable c1 : N -> option N.
Variable sk : sinkcfg.
Hypothesis E5 : ent_five ent.
Hypothesis NoScript : sk_resp sk = [].
Notation xsteps := (xsteps tb simd ent c1 sk).

(* the token of the tree builder model a TokIR tag token stands for (the ghost source aside) *)
Definition conv_kind (k : tagkind) : TM.tagkind :=
  match k with TStartTag => TM.StartTag | TEndTag => TM.EndTag | TEmptyTag => TM.EmptyTag | TShortTag => TM.ShortTag end.

(* a start tag item: read back as ONE start tag token whose name and attribute list are those of
   [tokenize (item_rtoken i)], the token the round-trip theorem feeds the tree builder *)
Theorem start_item_lex : forall name decls attrs b cu tk tn ta rest o k,
  tag_name_ok (SM.qual name) = true -> forallb raw_ok (XRoundTrip.item_raws decls attrs) = true ->
  exists tas o' k',
    xsteps (mkM b XData false cu false None tk tn ta [] [] (SM.render_item (SM.IStart name decls attrs) ++ rest) o k)
           (mkM b XData false 62 false None TStartTag [] [] [] [] rest o' k') /\
    otoks o' = TTag TStartTag (SM.qual name) false tas false
               :: rev (tag_errs_of (SM.qual name) (XRoundTrip.item_raws decls attrs)) ++ otoks o /\
    TM.tokenize (SM.item_rtoken (SM.IStart name decls attrs)) =
    TM.TTag TM.StartTag (TM.process_qname (SM.qual name)) (map conv_attr tas)
            (SM.qual name, XRoundTrip.item_raws decls attrs).
Proof.
  intros name decls attrs b cu tk tn ta rest o k NO LO.
  destruct (start_tag_lex tb TB simd ent c1 sk E5 (SM.qual name) (XRoundTrip.item_raws decls attrs) b cu tk tn ta rest o k NO LO)
    as (o' & k' & S & T).
  exists (tag_attrs_of (XRoundTrip.item_raws decls attrs)), o', k'. split; [|split; [exact T|]].
  - rewrite render_start_shape. rewrite <- !app_assoc. exact S.
  - simpl. rewrite tag_attrs_same; [reflexivity|].
    apply forallb_forall. intros nv I. rewrite forallb_forall in LO. specialize (LO nv I).
    unfold raw_ok in LO. apply andb_true_iff in LO. destruct LO as [LO _].
    destruct nv as [n v]. simpl in *. destruct n; [discriminate LO|reflexivity].
Qed.

Theorem end_item_lex : forall name b cu tk tn ta rest o k,
  etag_name_ok (SM.qual name) = true ->
  exists o' k',
    xsteps (mkM b XData false cu false None tk tn ta [] [] (SM.render_item (SM.IEnd name) ++ rest) o k)
           (mkM b XData false 62 false None TEndTag [] [] [] [] rest o' k') /\
    otoks o' = TTag TEndTag (SM.qual name) false [] false :: rev (bad_errs (SM.qual name)) ++ otoks o /\
    TM.tokenize (SM.item_rtoken (SM.IEnd name)) =
    TM.TTag TM.EndTag (TM.process_qname (SM.qual name)) [] (SM.qual name, []).
Proof.
  intros name b cu tk tn ta rest o k NO.
  destruct (end_tag_lex tb TB simd ent c1 sk NoScript (SM.qual name) b cu tk tn ta rest o k NO) as (o' & k' & S & T).
  exists o', k'. split; [|split; [exact T|reflexivity]].
  unfold SM.render_item. rewrite <- !app_assoc. exact S.
Qed.

(* a text item followed by markup: one character token per character (and the parse errors that
   exact_errors reports); the tree builder model merges the pieces (XSplit: splitting character
   tokens does not change its result) *)
Theorem text_item_lex : forall s b cu tk tn ta an av rest o k, XSerSpec.no_nul s = true ->
  exists cu' o' k',
    xsteps (mkM b XData false cu false None tk tn ta an av (SM.render_item (SM.IText s) ++ 60 :: rest) o k)
           (mkM b XData false cu' false None tk tn ta an av (60 :: rest) o' k') /\
    otoks o' = rev (exp_text s) ++ otoks o.
Proof. intros. apply (text_lex tb TB simd ent c1 sk E5); auto. Qed.

End L.
