(* C17: what "every prefix used is declared on output" and "escaping is
   reversible" mean, independently of the serializer's bookkeeping. *)
From Coq Require Import List NArith Bool.
From HV Require Import XmlNs.XTreeModel XmlNs.XSerModel.
Import ListNotations.
Local Open Scope N_scope.

(* ------------------------------------------- adequacy of the declarations *)

(* what the declarations actually WRITTEN on the open elements bind a prefix to
   (innermost first); xmlns:p="" un-binds, i.e. binds to no namespace *)
Fixpoint out_lookup (k : option str) (sc : list nsmap) : option str :=
  match sc with
  | [] => None
  | m :: r =>
    match nm_get m k with
    | Some (Some el) => Some el
    | Some None => Some []
    | None => out_lookup k r
    end
  end.

Definition fixedb (k : option str) (u : str) : bool :=
  (ostr_eqb k (Some s_xml) && str_eqb u XML_URI) ||
  (ostr_eqb k (Some s_xmlns) && str_eqb u XMLNS_URI).

Definition bound (sc : list nsmap) (k : option str) (u : str) : bool :=
  fixedb k u ||
  match out_lookup k sc with Some el => str_eqb el u | None => false end.

Definition default_of (sc : list nsmap) : str :=
  match out_lookup None sc with Some el => el | None => [] end.

(* a prefixed element name is bound to its URI; an unprefixed one sees its own
   namespace as the default namespace *)
Definition name_bound (sc : list nsmap) (q : qname) : bool :=
  match qprefix q with
  | Some p => bound sc (Some p) (qns q)
  | None => str_eqb (default_of sc) (qns q)
  end.

(* a prefixed attribute name is bound to its URI; an unprefixed one has none *)
Definition attr_bound (sc : list nsmap) (a : attr) : bool :=
  match qprefix (aname a) with
  | Some p => bound sc (Some p) (qns (aname a))
  | None => is_nil (qns (aname a))
  end.

(* walk the output: [sc] = declarations written on the currently open elements *)
Fixpoint adequate (is : list item) (sc : list nsmap) : bool :=
  match is with
  | [] => true
  | IStart name decls attrs :: r =>
    name_bound (decls :: sc) name && forallb (attr_bound (decls :: sc)) attrs &&
    adequate r (decls :: sc)
  | IEnd _ :: r => adequate r (tl sc)
  | _ :: r => adequate r sc
  end.

(* ------------------------------------------- what one tag can express *)

(* One tag can bind a prefix to one URI only, and an unprefixed attribute is in
   no namespace: these are not defects of a serializer but limits of the
   syntax.  (The parser never produces a tree that violates them.) *)
Definition same_binding (a b : qname) : bool :=
  negb (ostr_eqb (qprefix a) (qprefix b)) || str_eqb (qns a) (qns b).

Definition tag_names (name : qname) (attrs : list attr) : list qname :=
  name :: map aname (filter (fun a => negb (is_none (qprefix (aname a)))) attrs).

Definition elem_cons (name : qname) (attrs : list attr) : bool :=
  forallb (fun a => forallb (same_binding a) (tag_names name attrs)) (tag_names name attrs) &&
  forallb (fun a => negb (is_none (qprefix (aname a))) || is_nil (qns (aname a))) attrs.

Fixpoint node_cons (n : xnode) : bool :=
  match n with
  | XElem name attrs kids =>
    elem_cons name attrs &&
    (fix all (l : list xnode) : bool := match l with [] => true | k :: r => node_cons k && all r end) kids
  | _ => true
  end.

Definition forest_cons (l : list xnode) : bool := forallb node_cons l.

(* ------------------------------------------------------------- escaping *)

Definition no_nul (s : str) : bool := forallb (fun c => negb (c =? 0)) s.

(* --------------------------------------------- the round trip, executable *)

Definition attr_eqb (a b : attr) : bool := qname_eqb (aname a) (aname b) && str_eqb (avalue a) (avalue b).

Fixpoint list_eqb {A} (f : A -> A -> bool) (a b : list A) : bool :=
  match a, b with
  | [], [] => true
  | x :: a', y :: b' => f x y && list_eqb f a' b'
  | _, _ => false
  end.

Fixpoint xnode_eqb (a b : xnode) : bool :=
  match a, b with
  | XElem n1 a1 k1, XElem n2 a2 k2 =>
    qname_eqb n1 n2 && list_eqb attr_eqb a1 a2 &&
    (fix go (x y : list xnode) : bool :=
       match x, y with
       | [], [] => true
       | u :: x', v :: y' => xnode_eqb u v && go x' y'
       | _, _ => false
       end) k1 k2
  | XText s1, XText s2 => str_eqb s1 s2
  | XComment s1, XComment s2 => str_eqb s1 s2
  | XPi t1 d1, XPi t2 d2 => str_eqb t1 t2 && str_eqb d1 d2
  | XDoctype n1 _ _, XDoctype n2 _ _ => str_eqb n1 n2     (* ids are outside the serializer API *)
  | _, _ => false
  end.

(* serialize, read the items back as the tokens they denote, build the tree *)
Definition reparse (kids : list xnode) : list xnode :=
  map erase (parse_raw (map item_rtoken (ser_doc kids) ++ [REof])).

Definition roundtrip_tok (kids : list xnode) : bool := list_eqb xnode_eqb (reparse kids) kids.
