(* C17: what "every prefix used is declared on output" and "escaping is
   reversible" mean, independently of the serializer's bookkeeping; plus the
   description of the finding classes (an instrumented run of the serializer
   that only ADDS ghost information: which map entries were registered
   silently, i.e. without a declaration being written). *)
From Coq Require Import List NArith Bool.
From HV Require Import XmlNs.XTreeModel XmlNs.XSerModel.
Import ListNotations.
Local Open Scope N_scope.

(* ------------------------------------------- adequacy of the declarations *)

(* what the declarations actually WRITTEN on the open elements bind a prefix to
   (innermost first); xmlns:p="" un-binds, i.e. binds to no namespace *)
Fixpoint out_lookup (k : option str) (sc : list nsmap) : option str :=
  match sc with
  | [] => None
  | m :: r =>
    match nm_get m k with
    | Some (Some el) => Some el
    | Some None => Some []
    | None => out_lookup k r
    end
  end.

Definition fixedb (k : option str) (u : str) : bool :=
  (ostr_eqb k (Some s_xml) && str_eqb u XML_URI) ||
  (ostr_eqb k (Some s_xmlns) && str_eqb u XMLNS_URI).

Definition bound (sc : list nsmap) (k : option str) (u : str) : bool :=
  fixedb k u ||
  match out_lookup k sc with Some el => str_eqb el u | None => false end.

Definition default_of (sc : list nsmap) : str :=
  match out_lookup None sc with Some el => el | None => [] end.

(* a prefixed element name is bound to its URI; an unprefixed one sees its own
   namespace as the default namespace *)
Definition name_bound (sc : list nsmap) (q : qname) : bool :=
  match qprefix q with
  | Some p => bound sc (Some p) (qns q)
  | None => str_eqb (default_of sc) (qns q)
  end.

(* a prefixed attribute name is bound to its URI; an unprefixed one has none *)
Definition attr_bound (sc : list nsmap) (a : attr) : bool :=
  match qprefix (aname a) with
  | Some p => bound sc (Some p) (qns (aname a))
  | None => is_nil (qns (aname a))
  end.

(* walk the output: [sc] = declarations written on the currently open elements *)
Fixpoint adequate (is : list item) (sc : list nsmap) : bool :=
  match is with
  | [] => true
  | IStart name decls attrs :: r =>
    name_bound (decls :: sc) name && forallb (attr_bound (decls :: sc)) attrs &&
    adequate r (decls :: sc)
  | IEnd _ :: r => adequate r (tl sc)
  | _ :: r => adequate r sc
  end.

(* ----------------------------------- the serializer with ghost information *)

(* [ph] runs parallel to the scope stack: the keys of each map whose entry was
   registered WITHOUT a declaration being written (by an attribute name after
   the declarations went out, or by end_elem into the parent's map) *)
Definition pstack := list (list (option str)).

Definition needs_ns (q : qname) : bool := negb (is_none (qprefix q)) || negb (is_nil (qns q)).

Definition okey_mem (k : option str) (l : list (option str)) : bool := existsb (ostr_eqb k) l.

(* was the entry that makes find_uri succeed registered silently? *)
Fixpoint via_silent (st : sstack) (ph : pstack) (q : qname) : bool :=
  match st, ph with
  | m :: r, p :: pr =>
    match nm_get m (qprefix q) with
    | Some (Some _) => okey_mem (qprefix q) p
    | _ => via_silent r pr q
    end
  | _, _ => false
  end.

Definition has_default (st : sstack) : bool :=
  existsb (fun m => negb (is_none (nm_get m None))) st.

Definition silent_insert (st : sstack) (ph : pstack) (q : qname) : sstack * pstack :=
  match st, ph with
  | m :: r, p :: pr => (sm_insert m q :: r, (qprefix q :: p) :: pr)
  | _, _ => (st, ph)
  end.

(* registering an attribute name: flag = the bookkeeping went wrong *)
Definition reg_attr_g (st : sstack) (ph : pstack) (a : attr) : sstack * pstack * bool :=
  let q := aname a in
  if needs_ns q then
    if s_find_uri st q
    then (st, ph, is_none (qprefix q) || (via_silent st ph q && negb (fixedb (qprefix q) (qns q))))
    else let (st', ph') := silent_insert st ph q in
         (st', ph', is_none (qprefix q) || negb (fixedb (qprefix q) (qns q)))
  else (st, ph, false).

Fixpoint reg_attrs_g (st : sstack) (ph : pstack) (attrs : list attr) : sstack * pstack * bool :=
  match attrs with
  | [] => (st, ph, false)
  | a :: r =>
    let '(st1, ph1, f1) := reg_attr_g st ph a in
    let '(st2, ph2, f2) := reg_attrs_g st1 ph1 r in
    (st2, ph2, f1 || f2)
  end.

Definition start_elem_g (st : sstack) (ph : pstack) (name : qname) (attrs : list attr)
  : item * sstack * pstack * bool :=
  let st0 := nm_empty :: st in
  let ph0 := [] :: ph in
  let fname :=
    if needs_ns name then
      (if s_find_uri st0 name
       then via_silent st0 ph0 name && negb (fixedb (qprefix name) (qns name))
       else false)                                  (* registered AND declared *)
    else has_default st in                           (* would need xmlns="" *)
  let st1 := find_or_insert_ns st0 name in
  let decls := match st1 with m :: _ => m | [] => [] end in
  let '(st2, ph2, fa) := reg_attrs_g st1 ph0 attrs in
  (IStart name decls attrs, st2, ph2, fname || fa).

Definition end_elem_g (st : sstack) (ph : pstack) (name : qname) : item * sstack * pstack :=
  let st' := tl st in
  let ph' := tl ph in
  if needs_ns name && negb (s_find_uri st' name)
  then let (st'', ph'') := silent_insert st' ph' name in (IEnd name, st'', ph'')
  else (IEnd name, st', ph').

Fixpoint ser_node_g (n : xnode) (st : sstack) (ph : pstack) : list item * sstack * pstack * bool :=
  match n with
  | XElem name attrs kids =>
    let '(i1, st1, ph1, f1) := start_elem_g st ph name attrs in
    let '(is, st2, ph2, f2) :=
      (fix go (l : list xnode) (st : sstack) (ph : pstack) : list item * sstack * pstack * bool :=
         match l with
         | [] => ([], st, ph, false)
         | k :: r => let '(a, st', ph', fa) := ser_node_g k st ph in
                     let '(b, st'', ph'', fb) := go r st' ph' in (a ++ b, st'', ph'', fa || fb)
         end) kids st1 ph1 in
    let '(i2, st3, ph3) := end_elem_g st2 ph2 name in
    (i1 :: is ++ [i2], st3, ph3, f1 || f2)
  | XText s => ([IText s], st, ph, false)
  | XComment s => ([IComment s], st, ph, false)
  | XPi t d => ([IPi t d], st, ph, false)
  | XDoctype n _ _ => ([IDoctype n], st, ph, false)
  end.

Fixpoint ser_nodes_g (l : list xnode) (st : sstack) (ph : pstack) : list item * sstack * pstack * bool :=
  match l with
  | [] => ([], st, ph, false)
  | k :: r => let '(a, st', ph', fa) := ser_node_g k st ph in
              let '(b, st'', ph'', fb) := ser_nodes_g r st' ph' in (a ++ b, st'', ph'', fa || fb)
  end.

(* a document on which none of the known bookkeeping defects (DESIGN 6.3 row
   10: attribute prefixes registered after the declarations were written,
   end_elem re-registering in the parent's scope, missing xmlns="") comes into
   play *)
Definition ser_clean (kids : list xnode) : bool := negb (snd (ser_nodes_g kids [] [])).

(* ------------------------------------------------------------- escaping *)

Definition no_cr_nul (s : str) : bool := forallb (fun c => negb ((c =? 13) || (c =? 0))) s.

(* --------------------------------------------- the round trip, executable *)

Definition attr_eqb (a b : attr) : bool := qname_eqb (aname a) (aname b) && str_eqb (avalue a) (avalue b).

Fixpoint list_eqb {A} (f : A -> A -> bool) (a b : list A) : bool :=
  match a, b with
  | [], [] => true
  | x :: a', y :: b' => f x y && list_eqb f a' b'
  | _, _ => false
  end.

Fixpoint xnode_eqb (a b : xnode) : bool :=
  match a, b with
  | XElem n1 a1 k1, XElem n2 a2 k2 =>
    qname_eqb n1 n2 && list_eqb attr_eqb a1 a2 &&
    (fix go (x y : list xnode) : bool :=
       match x, y with
       | [], [] => true
       | u :: x', v :: y' => xnode_eqb u v && go x' y'
       | _, _ => false
       end) k1 k2
  | XText s1, XText s2 => str_eqb s1 s2
  | XComment s1, XComment s2 => str_eqb s1 s2
  | XPi t1 d1, XPi t2 d2 => str_eqb t1 t2 && str_eqb d1 d2
  | XDoctype n1 _ _, XDoctype n2 _ _ => str_eqb n1 n2     (* ids are outside the serializer API *)
  | _, _ => false
  end.

(* serialize, read the items back as the tokens they denote, build the tree *)
Definition reparse (kids : list xnode) : list xnode :=
  map erase (parse_raw (map item_rtoken (ser_doc kids) ++ [REof])).

Definition roundtrip_tok (kids : list xnode) : bool := list_eqb xnode_eqb (reparse kids) kids.
